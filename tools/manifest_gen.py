#!/usr/bin/env python3
"""Regenerates /verif/MANIFEST.json from the table below (kept in one place so the manifest stays valid)."""
import json, os

ROOT = os.path.dirname(os.path.dirname(os.path.abspath(__file__)))
props = [json.loads(l) for l in open(os.path.join(ROOT, "properties.jsonl"))]

COMMON_NOTE = ("Trusted: Lean 4.33 kernel (axioms propext, Classical.choice, Quot.sound at most; audited with #print axioms on every run, "
               "leanchecker in the thorough tier), the Go tie tools (extractors, generators, canonicalisation, diff), the Lean compiler for the "
               "model driver. The hand-written model is tied to /repo by regenerated tables and by the differential run; it is not trusted. ")

CHECKS = {
 "C01": dict(
  text="Executable Lean model of GenerateFunc (compiler to stack/closure slots, compiled semantics threading the shared storage) and of a lexically scoped reference semantics, in lock-step fuel; theorem exec_refines_eval (compiled = reference for every AST, nesting and fuel) in Props/C01.lean; every generated program (binding constructs inside call/method arguments, 3-level closures, recursion, currying, map-field closures) is run on the real code with optimizer off and on and compared with the model's reference semantics (the property's oracle) and the model's compiled semantics; programs whose built-ins lie outside the compiled model's library are decided by the reference semantics over the eager library specification of C07; deterministic sweeps place binding constructs in every argument position, shadow captured names at every level and defer the first iteration of every lazy stage behind later bindings. Regenerated facts discharged by decide: the operator/static/method tables of value.New() are the model's, and no lazy-list producer factory of value/*.go mentions a stack captured at creation time (callbacks run on the iteration-time stack, as in the model).",
  note="Built-in callbacks are modelled on a fresh stack; error texts, float formatting, math.Pow, out-of-range float->int are outside the model (UNMODELLED answers are counted, not compared); library naturality proved for the listed built-ins, see Props/C01.lean for any _partial hypothesis.",
  technique="Lean 4 proof by induction on fuel (logical relation between environment and slot semantics) + differential run of the compiled model against Generate/Eval",
  design="DESIGN.md §3 C01"),
 "C02": dict(
  text="Generic optimizer soundness theorem (optimize_sound under Laws, P2.Generic) plus, for the value table, the regrouping laws proved for the operators flagged commutative (wrap-around integer multiplication) and a decide obligation that today's flagged set (regenerated from the live value.New()) lies inside the lawful set and that throw/random are declared impure; on the implementation every program runs with optimizer on and off on fresh generators with pure/impure call counters (outcome, impure calls during Generate, per-evaluation call log), including the exhaustive chain enumeration (c1 op x) op c2 for all operators and operand types, a purity sweep (impure call in every child position), a name-space sweep (closure fields named like every map method, locals named like static functions) and a typed-position sweep (42 typed positions x 19 constants of every type); the impure counting function is also registered as a host METHOD (repair 8aa887a: a method call is pure only if no method of that name is declared impure - model Cfg.methNamePure, the OPT request carries the impure method names). The optimizer of the value language itself is modelled (P2.Lang.Opt.optimize: funcGen/optimizer.go rule by rule plus the constant inlining of parseLet): theorem optimize_preserves_eval: for every well-scoped program and every outcome of the reference semantics other than out-of-fuel, the optimized program has the related outcome at every large enough fuel (the same first-order value, closures equal up to optimization of their bodies, errors stay errors), for the whole optimizer incl. constant closures, proved from fuel monotonicity of the semantics and the library and a value relation with library naturality; the excluded configurations are exactly the two open findings and the pre-repair behaviour of 89b886b, each pinned by a witness; and on every generated program the tree the real parser+optimizer hand to the compiler is compared with the model's optimize (request OPT).",
  note="Float regrouping differs by rounding (allowed by the property; relative 1e-12 on same-operator float chains). Two known findings (int wrap across the int/float border; And/Or matrices accept ints while folding).",
  technique="Lean 4 proof (rewrite-rule soundness under operator laws) + regenerated flag table with decide obligation + on/off differential run with call counters",
  design="DESIGN.md §3 C02"),
 "C17": dict(
  text="Lean 4 theorems json_string_roundtrip / json_export_roundtrip: for every value tree of any depth and every string, the exported document is accepted by the reference decoder and decodes to the same structure, for every escape table satisfying the decidable criterion TableOK; the table is regenerated from the real exporter for all 1.1M Unicode scalar values on every run and TableOK is discharged by decide; model bytes are compared with the real exporter's bytes on generated trees, and the real output is parsed back with encoding/json; a position sweep puts every class of escaped or multi-byte character at every byte offset 0..320 of long strings and keys (chunked writers).",
  note="ToString of scalars is an oracle; encoding/json is the standard parser; the Lean reference decoder does not accept surrogate-pair escapes.",
  technique="Lean 4 proof (induction on trees, generic in the escape table) + regenerated escape table with decide obligation + differential run against compiled model",
  design="DESIGN.md §3 C17"),
}

extra_path = os.path.join(ROOT, "tools", "manifest_extra.json")
if os.path.exists(extra_path):
    CHECKS.update(json.load(open(extra_path)))

checks = []
for pid in sorted(CHECKS):
    c = CHECKS[pid]
    checks.append({
        "property_id": pid,
        "quick_cmd": f"./check {pid} quick",
        "thorough_cmd": f"./check {pid} thorough",
        "evidence_file": f"/verif/evidence/{pid}.json",
        "replay_cmd_template": f"./check {pid} --replay {{path}}",
        "engine": "lean-p2",
        "level_claimed": {"category": "proof", "text": c["text"], "design_ref": c["design"]},
        "level_note": COMMON_NOTE + c["note"],
        "technique": c["technique"],
    })
na = [{"property_id": p["id"], "reason": "check not integrated yet in this session (slice under construction, see DESIGN.md §6 order of work)"}
      for p in props if p["id"] not in CHECKS]
hooks_commits = []
try:
    import subprocess
    out = subprocess.run(["git", "-C", "/repo", "log", "--format=%h %s"], capture_output=True, text=True).stdout
    hooks_commits = [l.split()[0] for l in out.splitlines() if "verif hook" in l]
except Exception:
    pass
m = {"version": 1,
     "setup_cmd": "./check --setup",
     "hooks": {"guard": "verif", "enable": "go build -tags verif (module /verif/tie replaces github.com/hneemann/parser2 by /repo); hook files are *_verif.go with //go:build verif",
               "baseline_off_cmd": "cd /repo && go test -vet=off -count=1 ./...", "source_commits": hooks_commits, "add_only": True},
     "engines": [{"name": "lean-p2", "path": "/verif/lean", "serves_properties": sorted(CHECKS),
                  "kind_free_text": "Lean 4.33 project P2: hand-written executable model + theorems; compiled driver p2model; Go tie tools in /verif/tie (extract = regenerated facts, per-property correspondence harness); entry point /verif/check"}],
     "checks": checks,
     "notes": "All checks: ./check <id> quick|thorough. Fix commits in /repo are listed in known_findings.json (status fixed). See DESIGN.md.",
     "not_applicable": na}
json.dump(m, open(os.path.join(ROOT, "MANIFEST.json"), "w"), indent=1)
print("manifest:", len(checks), "checks,", len(na), "not claimed")
