#!/bin/bash
# usage: tools/confirm_seed.sh <seeded dir>  — independent confirmation of a seeded change in a scratch worktree of /repo HEAD:
# (1) the patch applies and compiles, (2) the repository's suite passes WITH the patch, (3) the demo FAILS with the patch,
# (4) the demo PASSES without it. Writes the result into <dir>/meta.json ("confirmed": {...}) and removes the worktree.
set -u
export GOFLAGS=-mod=mod GOPROXY=off
d=$(realpath "$1"); name=$(basename "$d")
wt=/tmp/seedconf_$name
git -C /repo worktree remove --force $wt 2>/dev/null; rm -rf $wt
git -C /repo worktree add -q $wt HEAD || exit 2
trap 'git -C /repo worktree remove --force $wt 2>/dev/null; rm -rf $wt' EXIT
demo=$(python3 -c "import json,re;print(re.sub(r'\s+\((package|run|in) [^()]*\)\s*\$','',json.load(open('$d/meta.json'))['demo_cmd']))")
demo=$(echo "$demo" | sed -E "s#/tmp/seed[0-9]*_C[0-9]+#$wt#g")   # an absolute path into the seeder's own worktree
# the demo command refers to seeded/<n>/...: provide the files under that name
n=$(echo "$demo" | grep -o 'seeded/[0-9]*' | head -1 | cut -d/ -f2); n=${n:-1}
mkdir -p $wt/seeded/$n && cp -r $d/. $wt/seeded/$n/ && echo "module seeded" > $wt/seeded/go.mod
res() { python3 - "$d/meta.json" "$@" <<'PY'
import json,sys
f=sys.argv[1]; m=json.load(open(f)); m['confirmed']=dict(a.split('=',1) for a in sys.argv[2:]); json.dump(m,open(f,'w'),indent=1)
PY
}
cd $wt
if ! (git apply seeded/$n/patch.diff 2>/dev/null || git apply --3way seeded/$n/patch.diff 2>/dev/null); then echo "[$name] PATCH-DOES-NOT-APPLY"; res applies=no; exit 3; fi
git reset -q 2>/dev/null
if ! go build ./... 2>/tmp/seedconf_$name.log; then echo "[$name] DOES-NOT-COMPILE"; res applies=yes compiles=no; exit 3; fi
if go test -vet=off -count=1 ./... >/tmp/seedconf_$name.log 2>&1; then suite=pass; else suite=FAIL; fi
# a demo command may end in a clean-up (`; rm -f …`): judge by exit status AND by the go test verdict lines in the output
verdict() { if [ $1 -ne 0 ] || grep -qE '^(--- FAIL|FAIL|panic:|fatal error:)|exit status [1-9]' $2; then echo fail; else echo pass; fi; }
timeout 600 bash -c "$demo" >/tmp/seedconf_${name}_with.log 2>&1; with=$(verdict $? /tmp/seedconf_${name}_with.log)
git checkout -q -- . 2>/dev/null; git clean -fdq -e seeded 2>/dev/null
timeout 600 bash -c "$demo" >/tmp/seedconf_${name}_without.log 2>&1; without=$(verdict $? /tmp/seedconf_${name}_without.log)
ok=no; [ $suite = pass ] && [ $with = fail ] && [ $without = pass ] && ok=yes
echo "[$name] suite_with_patch=$suite demo_with_patch=$with demo_without_patch=$without confirmed=$ok"
res applies=yes compiles=yes suite_with_patch=$suite demo_with_patch=$with demo_without_patch=$without ok=$ok "ran=tools/confirm_seed.sh (scratch worktree of /repo HEAD $(git -C /repo rev-parse --short HEAD))"
[ $ok = yes ]
