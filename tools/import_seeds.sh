#!/bin/bash
# usage: tools/import_seeds.sh <Cxx> <worktree> <first number>   — copies <worktree>/seeded/{1,2,3} to seeded/<Cxx>-<n>, removes the worktree
set -e
p=$1; wt=$2; n=$3
for i in 1 2 3; do
  d=/verif/seeded/$p-$((n+i-1))
  rm -rf $d; mkdir -p $d
  cp -r $wt/seeded/$i/. $d/
done
git -C /repo worktree remove --force $wt 2>/dev/null || rm -rf $wt
git -C /repo worktree prune
