#!/bin/bash
# usage: tools/at_commit_check.sh <repo commit> <Cxx> [tier]  — runs a property's check against a scratch worktree of
# /repo at the given commit (e.g. the parent of a fix commit, to confirm that the check reports the defect).
set -u
commit=$1; prop=$2; tier=${3:-quick}
wt=/tmp/atc_wt_$$; vc=/tmp/atc_v_$$
git -C /repo worktree add -q $wt $commit || exit 2
# hook files of HEAD are needed to build the tie tools against an older commit
for f in token_verif.go funcGen/generator_verif.go value/value_verif.go example/example_verif.go; do [ -f $wt/$f ] || cp /repo/$f $wt/$f; done
mkdir -p $vc && rsync -a --exclude .git --exclude replays /verif/ $vc/verif/
(cd $vc/verif && VERIF_REPO=$wt ./check $prop $tier 2>/dev/null | tail -4 | cut -c1-260)
f=$(ls $vc/verif/replays/$prop-* 2>/dev/null | head -1)
[ -n "$f" ] && python3 -c "
import json
r=json.load(open('$f'))
print('    replay:', {k:(str(v)[:200]) for k,v in r.items() if k in ('signature','what','program','broken')})"
git -C /repo worktree remove --force $wt; rm -rf $vc
