#!/bin/bash
# runs every claimed check (quick by default) through ./check and validates manifest + evidence
cd "$(dirname "$0")/.."
tier=${1:-quick}
rc=0
for p in $(python3 -c "import json;print(' '.join(c['property_id'] for c in json.load(open('MANIFEST.json'))['checks']))"); do
  s=$(date +%s)
  out=$(./check $p $tier 2>/dev/null | tail -3 | cut -c1-160)
  e=$?
  echo "[$p] $(( $(date +%s) - s ))s :: $(echo "$out" | tail -1)"
  echo "$out" | grep -q VIOLATION && { echo "$out"; rc=1; }
done
/opt/veriftools/pyvenv/bin/python - <<'PY'
import json,jsonschema
m=json.load(open('MANIFEST.json'))
jsonschema.validate(m, json.load(open('/root/.vp/MANIFEST.schema.json')))
es=json.load(open('/root/.vp/EVIDENCE.schema.json'))
for c in m['checks']:
    import os
    e=json.load(open(os.path.join('evidence', os.path.basename(c['evidence_file']))))  # of THIS tree (a snapshot run validates its own files)
    jsonschema.validate(e, es)
    cov=e['coverage']
    assert cov['obligations']>=1 and cov['discharged']==cov['obligations'], (c['property_id'], cov['obligations'], cov['discharged'])
print('manifest and evidence valid')
PY
# all green on /repo itself: refresh the committed baseline copies of the regenerated tables (used only when an
# extractor fails in a sandbox that has no generated files yet, so that the shared driver still builds)
if [ $rc = 0 ] && [ -z "${VERIF_REPO:-}" ]; then mkdir -p lean/generated_baseline; for f in lean/P2/Generated/*.lean; do cmp -s $f lean/generated_baseline/$(basename $f) || cp $f lean/generated_baseline/; done; fi
exit $rc
