#!/usr/bin/env python3
"""usage: tools/seedprompt.py <Cxx> <worktree dir> [round]  — writes <worktree>/TASK.md: the task given to a fresh
seeding sub-agent. It contains the text of the property (from properties.jsonl) and nothing else from /verif."""
import json, sys
pid, wt = sys.argv[1], sys.argv[2]
rnd = int(sys.argv[3]) if len(sys.argv) > 3 else 1
p = next(json.loads(l) for l in open('/verif/properties.jsonl') if json.loads(l)['id'] == pid)
q = p.get('quantifier') or {}
a = p.get('anchors') or {}
mech = '; '.join(f"{m['name']} ({m['where']})" for m in a.get('mechanism', []))
extra = ''
if rnd >= 2:
    extra = ("\nThis is a second round: other people already tried the most obvious slips. Look for the LESS obvious ones: "
             "each of your three changes must go through a different mechanism among the code anchors (preferably in "
             "different source files, including the helper packages the anchored code calls into), and at least two of "
             "them should need a state, threshold, sequence of calls, rarely used API route, option combination or error "
             "path to show (something a straightforward random test of the main entry point would be unlikely to reach).\n")
if rnd >= 3:
    extra = ("\nThis is a third round: two earlier rounds already produced the obvious and the moderately hidden slips for this "
             "property (wrong variable, missing copy, dropped guard, cache without invalidation, shortcut that skips a step, "
             "reordered checks). Be inventive and different: look at code that is only REACHED indirectly by the anchored "
             "mechanisms (helper packages such as listMap, funcGen stack helpers, value/arg, export writers, the optimizer, "
             "type registration, description/documentation paths used in error messages), at interactions of two options or two "
             "features that are each tested alone, at boundary sizes where a representation switches, at behaviour after an "
             "error has occurred once, and at API entry points other than the main one. Each of the three changes must be in a "
             "different source file, and none of them may need a data race or timing to show (deterministic demos only).\n")
if rnd >= 4:
    extra = ("\nThis is a fourth round. Earlier rounds already produced, for this and the neighbouring properties: producers that capture "
             "the stack of their creation; in-place mutation through a missing copy (ToSlice for CopyToSlice, append into spare capacity, "
             "sorting a shared key slice); caches without invalidation (identifier chains, second-use materialisation); dropped or moved "
             "recover / nil / type guards; errors lost by variable shadowing or ignored results; stop flags and scratch stacks shared "
             "between iterations or evaluations; off-by-one and aliasing slips in operator registration; purity flags computed with the "
             "wrong connective; fast paths that forget one case (an escape, an early exit, a size check); optimizer rules that fold "
             "something the run time treats differently. Do NOT repeat those shapes. Think about what is left: arithmetic and conversion "
             "edge cases in helper code (int/float borders, negative or zero sizes and counts, empty and one-element inputs, the largest and "
             "smallest values), ordering and stability (sort, group, unique, map iteration), string and rune handling (multi-byte runes, "
             "byte vs rune indices, case mapping), documentation/description paths, type registration and method lookup tables, "
             "default arguments and optional parameters of built-ins (arity -1 functions, min/max argument counts), and the interplay of "
             "two built-ins that are each correct alone. Each of the three changes must be in a different source file or in clearly "
             "unrelated functions, and each demo must fail deterministically.\n")
if rnd >= 5:
    extra = ("\nThis is a fifth round; four earlier rounds produced about a dozen changes for this property already. Shapes that were "
             "already used for this and the neighbouring properties (do NOT repeat them): producers that capture the stack of their creation; "
             "in-place mutation through a missing copy; caches without invalidation; dropped or moved recover / nil / type guards; errors "
             "lost by shadowing or ignored results; stop flags and scratch state shared between iterations or evaluations; off-by-one and "
             "aliasing slips in operator registration; purity flags computed with the wrong connective; fast paths that forget one case; "
             "optimizer rules that fold what the run time treats differently; arithmetic and conversion edge cases at int/float borders; "
             "sort stability; rune vs byte indices; default arguments of variadic built-ins.\n"
             "What is wanted now are changes that need something SPECIFIC to manifest and that a property-based test of the main entry "
             "point with small random programs would NOT hit: (a) TWO COOPERATING SITES - two edits (or one edit plus an existing piece of "
             "code) that each look fine alone and only break the property together, e.g. a helper whose contract is changed in a way all "
             "callers but one tolerate; (b) a MULTI-STEP SEQUENCE - the violation shows only on the third use, after a particular earlier "
             "operation, after a failure, after a representation switch (sizes such as 8/10/16/64/1000 elements, nesting depths, 10+ chained "
             "operations); (c) an UNUSUAL BUT LEGAL INPUT - a long identifier, a deeply nested construct, a very large or very small number, "
             "an empty list/map/string in a position where it is rare, a key or name that coincides with a built-in name, the same value used "
             "in two roles; (d) for properties about goroutines, parallel execution or crashes: a particular interleaving, a fault at a "
             "particular point (the 2nd worker, the last element, during read-ahead, after the consumer stopped), which your demo forces "
             "deterministically with channels/barriers/slow host functions rather than by sleeping and hoping. "
             "Each of the three changes must use a different one of (a)-(d) where the property allows it, and must be in a different function. "
             "Read the code the anchored mechanisms CALL INTO before choosing; say in `needs` exactly what must coincide.\n")
t = f"""You are given a scratch git worktree of the Go library hneemann/parser2 at {wt} (a configurable expression language: tokenizer, precedence parser, AST optimizer, closure-compiling evaluator with lists/maps/lazy list operations). Work ONLY inside {wt} (do not read or touch /repo or /verif; do not commit). Go environment for every shell call: `export GOFLAGS=-mod=mod GOPROXY=off` (no network; the module cache has everything; `cd {wt} && go build ./... && go test -vet=off -count=1 ./...` is the existing test suite and passes now).

Here is a semantic property the library is supposed to have:

--- PROPERTY {pid}: {p['title']} ---
{p['statement']}

Quantified over: {q.get('text', '')}

Why the existing tests cannot settle it: {p.get('why_tests_cant', '')}

Code anchors: files {', '.join(a.get('files', []))}; mechanisms: {mech}
---

Your task: produce THREE DIFFERENT small, realistic changes to the library source (each as its own patch against the clean worktree) that BREAK this property while the code still compiles and the ENTIRE existing test suite still passes (run it for each change!). Realistic = the kind of slip a maintainer could make in a refactoring or "optimisation" (an off-by-one, a dropped guard, a wrong variable, a shortcut, a reordering, a cache, a missing copy), not sabotage that any use would expose at once. Prefer changes that need something specific to manifest: a particular nesting, a multi-step sequence of operations, an unusual but legal input, a particular schedule, or two sites that each look fine alone. Do not touch files ending in `_verif.go` or `_test.go`.
{extra}
For each change deliver, under {wt}/seeded/<n>/ (n = 1,2,3):
- `patch.diff`  — `git diff` of the change against the clean worktree (apply with `git apply`),
- `demo_test.go` (or a small `main` program) — a demonstration that FAILS with the change applied and PASSES without it, placed so that `go test` can run it (say in meta.json exactly how: package directory and command),
- `meta.json` — {{"property": "{pid}", "what": "<one sentence: what was changed>", "needs": "<what specific input/sequence/schedule is needed to see the violation>", "demo_cmd": "<command run in the worktree>", "tests_pass_with_change": true}}.
Put a file `{wt}/seeded/go.mod` containing `module seeded` so that the demo files are not part of `./...`. After producing each patch, reset the worktree (`git checkout -- . && git clean -fdq -e seeded -e TASK.md`) before the next one, and at the end leave the worktree clean except for the `seeded/` directory and TASK.md. Verify each demo both ways (fails with patch, passes without) and that `go test -vet=off -count=1 ./...` passes WITH the patch (the demo file itself is not part of the suite: keep it out of the tree while running the suite). Report the three changes in a few lines each.
"""
open(wt + '/TASK.md', 'w').write(t)
