#!/bin/bash
# usage: tools/coverage.sh [Cxx …]  — statement coverage of /repo by the union of the quick harnesses (default: all twenty).
# Builds the tie tool (and the -race worker binary) with -cover over the packages of /repo in a private copy of /verif under a
# mktemp directory, runs the harnesses there (the Lean reports of the last ./check run are reused: run ./check first), merges the
# counters and prints the functions that are not fully covered and the uncovered blocks of the anchored files. Code that no harness
# executes cannot be decided by the correspondence: a seeded change there is invisible (this is how the blind spots closed in round 5
# were found). Nothing is written to /verif.
set -u
props=${*:-$(python3 -c "import json;print(' '.join(c['property_id'] for c in json.load(open('/verif/MANIFEST.json'))['checks']))")}
d=$(mktemp -d /tmp/p2cov.XXXXXX); trap 'rm -rf $d' EXIT
rsync -a --exclude .git --exclude replays /verif/ $d/verif/
export GOFLAGS=-mod=mod GOPROXY=off
pk=verif/tie,github.com/hneemann/parser2,github.com/hneemann/parser2/funcGen,github.com/hneemann/parser2/value,github.com/hneemann/parser2/value/export,github.com/hneemann/parser2/value/export/xmlWriter,github.com/hneemann/parser2/listMap,github.com/hneemann/parser2/example
(cd $d/verif/tie && go build -tags verif -cover -covermode=atomic -coverpkg=$pk -o ../.work/bin/tie-cover . && go build -tags verif -race -cover -covermode=atomic -coverpkg=$pk -o ../.work/bin/tie-race .) || exit 2
for p in $props; do
  mkdir -p $d/cov/$p
  (cd $d/verif && GOCOVERDIR=$d/cov/$p VERIF_ROOT=$d/verif VERIF_REPO=/repo VERIF_LEAN_REPORT=.work/lean_$p.json VERIF_TIER=quick .work/bin/tie-cover $p quick 2>/dev/null | tail -1) &
done; wait
cp_out=${P2COV_OUT:-}; (cd $d/verif/tie && go tool covdata textfmt -i=$(ls -d $d/cov/* | tr '\n' ',' | sed 's/,$//') -o $d/all.txt && grep -v "^verif/tie" $d/all.txt > $d/repo.txt && go tool cover -func=$d/repo.txt | grep -v "100.0%" | awk '{print $3, $1, $2}' | sort -n); [ -n "$cp_out" ] && cp $d/repo.txt $cp_out
