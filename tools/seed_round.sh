#!/bin/bash
# usage: tools/seed_round.sh <Cxx> <worktree of the seeding sub-agent> <first number>
# imports the three changes, confirms each independently (tools/confirm_seed.sh), then runs the property's quick check against
# each confirmed change (tools/seeded_check.sh); the three run side by side. Prints one verdict block per change.
p=$1; wt=$2; n=$3
tools/import_seeds.sh $p $wt $n || exit 2
for i in 0 1 2; do
  ( d=seeded/$p-$((n+i))
    c=$(tools/confirm_seed.sh $d 2>&1 | tail -1)
    if echo "$c" | grep -q "confirmed=yes"; then
      echo "$c"; tools/seeded_check.sh $d quick 2>&1 | tail -12
    else echo "$c"; echo "[$p-$((n+i))] NOT-CONFIRMED"; fi ) > /tmp/seedround_$p-$((n+i)).log 2>&1 &
done
wait
for i in 0 1 2; do cat /tmp/seedround_$p-$((n+i)).log; done
