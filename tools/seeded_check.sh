#!/bin/bash
# usage: tools/seeded_check.sh <seeded dir> [tier]   — applies seeded/<id>/patch.diff to a scratch worktree of /repo HEAD,
# runs the property's check against it from a private copy of /verif, prints the verdict lines, removes everything.
set -u
d=$(realpath "$1"); tier=${2:-quick}
prop=$(python3 -c "import json,sys;print(json.load(open('$d/meta.json'))['property'])")
name=$(basename "$d")
wt=/tmp/seedrun_$name; vc=/tmp/seedverif_$name
git -C /repo worktree remove --force $wt 2>/dev/null; rm -rf $wt $vc
git -C /repo worktree add -q $wt HEAD || exit 2
if ! git -C $wt apply "$d/patch.diff" 2>/tmp/seedapply_$name.log; then
  if ! git -C $wt apply --3way "$d/patch.diff" 2>>/tmp/seedapply_$name.log; then echo "[$name] PATCH-DOES-NOT-APPLY"; git -C /repo worktree remove --force $wt; exit 3; fi
fi
(cd $wt && go build ./... ) || { echo "[$name] DOES-NOT-COMPILE"; git -C /repo worktree remove --force $wt; exit 3; }
mkdir -p $vc && rsync -a --exclude .git --exclude replays /verif/ $vc/verif/
out=$(cd $vc/verif && VERIF_REPO=$wt ./check $prop $tier 2>/dev/null | tail -6 | cut -c1-220)
echo "[$name] property=$prop tier=$tier"
echo "$out" | sed 's/^/    /'
if echo "$out" | grep -q "^VIOLATION"; then echo "[$name] DETECTED"; rc=0; else echo "[$name] MISSED"; rc=1; fi
f=$(echo "$out" | grep "^VIOLATION" | head -1 | sed 's/.*replay=\([^ ]*\).*/\1/')
[ -n "$f" ] && [ -f "$f" ] && python3 -c "
import json
r=json.load(open('$f'))
print('    replay:', {k:(str(v)[:160]) for k,v in r.items() if k in ('signature','what','program','broken','broken_obligations','class','input','value')})"
git -C /repo worktree remove --force $wt; rm -rf $vc
exit $rc
