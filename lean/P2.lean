import P2.Model.Basic
import P2.Model.Json
import P2.Spec.JsonDec
import P2.Model.Binning
import P2.Spec.Histogram
