import P2.Model.Basic
import P2.Model.Json
import P2.Model.Cmp
import P2.Spec.JsonDec
import P2.Spec.FMap
import P2.Model.MapSt
import P2.Model.Binning
import P2.Spec.Histogram
