import P2.Driver.Json
import P2.Driver.Lex
import P2.Driver.Parse
import P2.Driver.Xml
import P2.Driver.MapSt
import P2.Driver.Cmp
import P2.Driver.Binning
import P2.Driver.Lang
import P2.Driver.LangOpt
import P2.Driver.LibSpec
import P2.Driver.Scope
import P2.Driver.Heap
import P2.Driver.Generic
import P2.Driver.Iter
import P2.Driver.Memo
/-! Line-protocol driver of the model: one request per line on stdin, one response per line on stdout. -/
open P2.Driver

def handle (line : String) : String :=
  match splitTab line with
  | "JSON" :: args => handleJson args
  | "LEX" :: args => P2.Driver.Lex.handleLex args
  | "XML" :: args => handleXml args
  | "HTML" :: args => handleHtml args
  | "MAPHIST" :: args => handleMapHist args
  | "CMP" :: args => handleCmp args
  | "BIN" :: args => handleBin args
  | "EVAL" :: args => handleEval args
  | "OPT" :: args => P2.Driver.LangOpt.handleOpt args
  | "SPEC" :: args => handleSpec args
  | "SCOPE" :: args => handleScope args
  | "HIST" :: args => P2.Driver.Heap.handleHist args
  | "PARSE" :: args => P2.Driver.C03.handleParse args
  | "RENDER" :: args => P2.Driver.C03.handleRender args
  | "GEN" :: args => handleGen args
  | "PIPE" :: args => handlePipe args
  | "MEMO" :: args => handleMemo args
  | "PING" :: _ => "PONG"
  | _ => "BADREQ"

partial def loop (hIn hOut : IO.FS.Stream) : IO Unit := do
  let line ← hIn.getLine
  if line.isEmpty then return ()
  let l := if line.endsWith "\n" then (line.dropEnd 1).toString else line
  hOut.putStrLn (handle l)
  loop hIn hOut

def main : IO Unit := do
  let hIn ← IO.getStdin
  let hOut ← IO.getStdout
  loop hIn hOut
  hOut.flush
