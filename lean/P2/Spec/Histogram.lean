import P2.Model.Binning
/-! Reference notions for C20 (what a histogram *should* contain), over exact numbers:
sums, "the interval a description names", and the total a bin must hold. -/
namespace P2.Binning

/-- sum of a list of exact numbers -/
def sum : List Int → Int
  | [] => 0
  | x :: xs => x + sum xs

/-- sum of all cells of a table -/
def sum2 : List (List Int) → Int
  | [] => 0
  | r :: rs => sum r + sum2 rs

/-- does `v` lie in the interval the description names? (`min ≤ v` if `min` is present, `v < max` if
`max` is present) -/
def Bin.contains (d : Bin Int) (v : Int) : Bool :=
  (match d.min with | some m => decide (m ≤ v) | none => true) &&
  (match d.max with | some m => decide (v < m) | none => true)

/-- the value each bin must hold: sum of the per-element values of the elements whose index is `i` -/
def binTotal (idx : Int → Nat) (recs : List (Int × Int)) (i : Nat) : Int :=
  sum ((recs.filter (fun r => idx r.1 = i)).map (·.2))

end P2.Binning
