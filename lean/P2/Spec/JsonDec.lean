import P2.Model.Json
/-! Reference decoder for the JSON subset the exporter can emit (RFC 8259 strings, arrays, objects;
no insignificant white space, no numbers/literals: the exporter writes every scalar as a string).
`\uXXXX` escapes are decoded for scalar values only; surrogate code units are rejected (an escaper that
spells non-BMP characters as surrogate pairs is outside this spec decoder and would be flagged). -/
namespace P2.Json

def isScalar (n : Nat) : Bool := n < 0xD800 || (0xDFFF < n && n < 0x110000)

/-- string body after the opening quote -/
def decodeBody : List Char → List Char → Option (List Char × List Char)
  | [], _ => none
  | '"' :: rest, acc => some (acc, rest)
  | '\\' :: '"' :: rest, acc => decodeBody rest (acc ++ ['"'])
  | '\\' :: '\\' :: rest, acc => decodeBody rest (acc ++ ['\\'])
  | '\\' :: '/' :: rest, acc => decodeBody rest (acc ++ ['/'])
  | '\\' :: 'b' :: rest, acc => decodeBody rest (acc ++ [Char.ofNat 8])
  | '\\' :: 'f' :: rest, acc => decodeBody rest (acc ++ [Char.ofNat 12])
  | '\\' :: 'n' :: rest, acc => decodeBody rest (acc ++ ['\n'])
  | '\\' :: 'r' :: rest, acc => decodeBody rest (acc ++ ['\r'])
  | '\\' :: 't' :: rest, acc => decodeBody rest (acc ++ ['\t'])
  | '\\' :: 'u' :: a :: b :: c :: d :: rest, acc =>
    match hexDigitVal a, hexDigitVal b, hexDigitVal c, hexDigitVal d with
    | some x, some y, some z, some w =>
      let n := ((x * 16 + y) * 16 + z) * 16 + w
      if isScalar n then decodeBody rest (acc ++ [Char.ofNat n]) else none
    | _, _, _, _ => none
  | '\\' :: _, _ => none
  | c :: rest, acc => if c.toNat < 0x20 then none else decodeBody rest (acc ++ [c])

def decodeString : List Char → Option (List Char × List Char)
  | '"' :: rest => decodeBody rest []
  | _ => none

mutual
/-- value decoder; fuel bounds the nesting + element count walk (input length suffices) -/
def decodeValue : Nat → List Char → Option (JTree × List Char)
  | 0, _ => none
  | n+1, '"' :: rest => do
      let (s, r) ← decodeBody rest []
      pure (.str s, r)
  | n+1, '[' :: ']' :: rest => some (.arr [], rest)
  | n+1, '[' :: rest => do
      let (l, r) ← decodeElems n rest
      pure (.arr l, r)
  | n+1, '{' :: '}' :: rest => some (.obj [], rest)
  | n+1, '{' :: rest => do
      let (kvs, r) ← decodeMembers n rest
      pure (.obj kvs, r)
  | _, _ => none
/-- one or more elements, then `]` -/
def decodeElems : Nat → List Char → Option (List JTree × List Char)
  | 0, _ => none
  | n+1, inp => do
      let (t, r) ← decodeValue n inp
      match r with
      | ']' :: r' => pure ([t], r')
      | ',' :: r' => do
          let (ts, r'') ← decodeElems n r'
          pure (t :: ts, r'')
      | _ => none
/-- one or more members, then `}` -/
def decodeMembers : Nat → List Char → Option (List (List Char × JTree) × List Char)
  | 0, _ => none
  | n+1, inp => do
      let (k, r0) ← decodeString inp
      match r0 with
      | ':' :: r1 => do
        let (t, r) ← decodeValue n r1
        match r with
        | '}' :: r' => pure ([(k, t)], r')
        | ',' :: r' => do
            let (kvs, r'') ← decodeMembers n r'
            pure ((k, t) :: kvs, r'')
        | _ => none
      | _ => none
end

/-- a whole document: a value and nothing behind it -/
def decodeDoc (inp : List Char) : Option JTree :=
  match decodeValue (inp.length + 1) inp with
  | some (t, []) => some t
  | _ => none

end P2.Json
