import P2.Spec.XmlDec
import P2.Model.Xml
/-! Specification side of C18 above the token level: element forests (`Node`), the call sequence that
writes a forest (`flatten`), which forests follow the writer's protocol (`nodeOK`), the token stream a
pretty-printing writer is expected to produce for a forest (`layNode`: the exact strings, plus layout
characters whose position depends on the structure only), and the structural specification of the XML
exporter (`xmlNodes`). -/
namespace P2.Xml

inductive Node where
  | text (s : List Char)
  | elem (name : List Char) (attrs : Attrs) (kids : List Node)
  deriving Repr, Inhabited

mutual
/-- the writer calls that produce a node: `Open`, the `Attr`s, the children, `Close`; `Write` for a text -/
def flatten : Node → List Call
  | .text s => [.wr s]
  | .elem n as kids => .opn n :: (attrCalls as ++ (flattenL kids ++ [.cls]))
def flattenL : List Node → List Call
  | [] => []
  | k :: ks => flatten k ++ flattenL ks
end

/-- attribute names are XML names and pairwise different, values are legal characters -/
def attrsOK (as : Attrs) : Bool :=
  as.all (fun kv => isXmlName kv.1 && kv.2.all isXmlChar) && noDupKeys as

mutual
/-- the protocol of `writer_faithful` on a forest: element and attribute names are XML names, attribute
names are unique per element, all strings consist of legal XML characters -/
def nodeOK : Node → Bool
  | .text s => s.all isXmlChar
  | .elem n as kids => isXmlName n && attrsOK as && nodesOK kids
def nodesOK : List Node → Bool
  | [] => true
  | k :: ks => nodeOK k && nodesOK ks
end

/-- the line break of the pretty printer -/
def nlT (pp : Bool) : List Tok := if pp then [.chr '\n'] else []
/-- the indentation of the pretty printer -/
def indT (pp : Bool) (d : Int) : List Tok := if pp then chrs (tabs d) else []

mutual
/-- expected token stream of a node written at nesting depth `d` when the writer is (`il`) or is not in
the middle of a line; returns also whether it ends in the middle of a line. With `pp = false` there are
no layout characters at all. A text is its exact characters (after the indentation if it starts a line);
an element is: line break if needed, indentation, start tag with the exact attribute strings, children,
indentation if the children ended a line, end tag, line break. -/
def layNode (pp : Bool) (d : Int) (il : Bool) : Node → List Tok × Bool
  | .text s => ((if il then [] else indT pp d) ++ chrs s, true)
  | .elem n as kids =>
    let body := layNodes pp (d + 1) true kids
    ((if il then nlT pp else []) ++ (indT pp (d + 1) ++ (.start n as :: (body.1 ++
      ((if body.2 then [] else indT pp (d + 1)) ++ (.stop n :: nlT pp))))), false)
def layNodes (pp : Bool) (d : Int) (il : Bool) : List Node → List Tok × Bool
  | [] => ([], il)
  | k :: ks =>
    let a := layNode pp d il k
    let b := layNodes pp d a.2 ks
    (a.1 ++ b.1, b.2)
end

/-- token stream of a whole forest written by a fresh writer -/
def layout (pp : Bool) (ns : List Node) : List Tok := (layNodes pp (-1) false ns).1

mutual
/-- element/attribute skeleton of a forest: names only, no text, no attribute values -/
def skelNode : Node → List (Bool × List Char × List (List Char))
  | .text _ => []
  | .elem n as kids => (true, n, as.map (·.1)) :: (skelNodes kids ++ [(false, n, [])])
def skelNodes : List Node → List (Bool × List Char × List (List Char))
  | [] => []
  | k :: ks => skelNode k ++ skelNodes ks
end

/-! ### what the XML exporter has to produce -/

mutual
/-- the forest of `Export(st, v, XML())`: a list is `<list>` with one `<entry>` per element in order; a
map is `<map>` with one `<entry key="k">` per entry in the order given, or — when every value is a plain
scalar and every key may be an attribute name — `<map k="v" …/>`; scalars are their text; `Format`, `Link`
are transparent. -/
def xmlNodes (keyOK : List Char → Bool) : V → List Node
  | .str s => [.text s]
  | .flt sx _ => [.text sx]
  | .file n _ _ size _ => [.text (fileStr n size)]
  | .fmt _ _ _ v => xmlNodes keyOK v
  | .fmtCl _ _ _ v => xmlNodes keyOK v
  | .link _ v => xmlNodes keyOK v
  | .arr l => [.elem tList [] (xmlItemNodes keyOK l)]
  | .obj kvs =>
    match simpleAttrs keyOK kvs with
    | some as => [.elem tMap as []]
    | none => [.elem tMap [] (xmlEntryNodes keyOK kvs)]
def xmlItemNodes (keyOK : List Char → Bool) : List V → List Node
  | [] => []
  | v :: vs => .elem tEntry [] (xmlNodes keyOK v) :: xmlItemNodes keyOK vs
def xmlEntryNodes (keyOK : List Char → Bool) : List (List Char × V) → List Node
  | [] => []
  | (k, v) :: rest => .elem tEntry [(tKey, k)] (xmlNodes keyOK v) :: xmlEntryNodes keyOK rest
end

end P2.Xml
