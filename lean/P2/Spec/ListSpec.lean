import P2.Model.Iter
/-!
# Specification side of lazy lists (DESIGN §2.3 (ii)): what a list *is*, by ordinary list functions

* `Frame.trans` — the list a stage denotes, read off the state machine (items handed downstream while
  downstream keeps asking); `Frame.need`, `Frame.span` — its demand.
* `elems : LList α → List (Item α)` — the elements of a list description.
* `spec…` — the documented meaning of the stages as plain list functions (`map`, `filter`, `take`,
  `drop`, consecutive pairs, indexed map, scan …). `P2/Proofs/IterStages.lean` proves `trans = spec`.
-/
namespace P2.Iter
variable {α : Type}

/-- the items a generator of `cnt` elements starting at index `i` yields -/
def genItems (g : Nat → Item α) : (cnt i : Nat) → List (Item α)
  | 0, _ => []
  | cnt + 1, i => g i :: genItems g cnt (i + 1)

/-- the frame after one element when downstream answered `more` (or was not asked) -/
def Frame.next (fr : Frame α) (x : Item α) : Frame α :=
  match (fr.step x).emit with
  | .pass _ => (fr.step x).frame.after .more
  | _ => (fr.step x).frame

/-- The items a frame hands downstream while it is fed `xs` and downstream keeps answering `more`
(= the list the stage *denotes*, computed by the state machine itself). -/
def Frame.trans : Frame α → List (Item α) → List (Item α)
  | _, [] => []
  | fr, x :: xs =>
      match (fr.step x).emit with
      | .pass y => y :: Frame.trans (fr.next x) xs
      | .skip => Frame.trans (fr.next x) xs
      | .halt c => if c = .more then Frame.trans (fr.next x) xs else []

/-- Inputs a frame consumes until it has handed `k` items downstream (or halts, or the input ends):
the *demand* of the stage for `k` downstream elements. -/
def Frame.need : Frame α → List (Item α) → Nat → Nat
  | _, [], _ => 0
  | _, _ :: _, 0 => 0
  | fr, x :: xs, k + 1 =>
      match (fr.step x).emit with
      | .pass _ => 1 + Frame.need (fr.next x) xs k
      | .skip => 1 + Frame.need (fr.next x) xs (k + 1)
      | .halt c => if c = .more then 1 + Frame.need (fr.next x) xs (k + 1) else 1

/-- Inputs a frame consumes when downstream never stops: everything, or up to and including the
element on which the frame itself halts. -/
def Frame.span : Frame α → List (Item α) → Nat
  | _, [] => 0
  | fr, x :: xs =>
      match (fr.step x).emit with
      | .halt c => if c = .more then 1 + Frame.span (fr.next x) xs else 1
      | _ => 1 + Frame.span (fr.next x) xs


/-- The elements of a list description (error items included; everything behind the first error item
is invisible to every consumer). A stage whose producer cannot even be invoked (`combineN` with a
negative width) denotes no elements. -/
def elems : LList α → List (Item α)
  | .items xs => xs.map .ok
  | .gen n g => genItems g n 0
  | .stage s l => match s.init with
      | some fr => fr.trans (elems l)
      | none => []
  | .append a b => elems a ++ elems b

/-! ### plain list functions -/

/-- closure result as an item; aborts have no item (the theorems assume closures that return) -/
def itemOf : Res α → Item α
  | .ok v => .ok v
  | _ => .err

/-- a closure that returns (a value or an error) on every argument -/
def Returns {β γ : Type} (f : β → Res γ) : Prop := ∀ v, f v ≠ .panic ∧ f v ≠ .fuel

def mapItem (f : α → Res α) : Item α → Item α
  | .ok v => itemOf (f v)
  | .err => .err

def specMap (f : α → Res α) (xs : List (Item α)) : List (Item α) := xs.map (mapItem f)

def specAccept (p : α → Res Bool) : List (Item α) → List (Item α)
  | [] => []
  | .err :: xs => .err :: specAccept p xs
  | .ok v :: xs => match p v with
      | .ok true => .ok v :: specAccept p xs
      | .ok false => specAccept p xs
      | _ => .err :: specAccept p xs

/-- `top n`: `take n`; a negative `n` takes everything (`i == n` never holds) -/
def specTop (n : Int) (xs : List (Item α)) : List (Item α) := if n < 0 then xs else xs.take n.toNat

/-- `skip n` on values: `drop n`; error items are handed on even inside the skipped prefix -/
def specSkip : Nat → List (Item α) → List (Item α)
  | 0, xs => xs
  | _ + 1, [] => []
  | n + 1, .err :: xs => .err :: specSkip n xs
  | n + 1, .ok _ :: xs => specSkip n xs

/-- `combine f`: `f` on consecutive pairs (`zipWith f l l.tail`) -/
def specCombine (f : α → α → Res α) : List α → List (Item α)
  | a :: b :: rest => itemOf (f a b) :: specCombine f (b :: rest)
  | _ => []

/-- `combine3 f`: `f` on consecutive triples -/
def specCombine3 (f : α → α → α → Res α) : List α → List (Item α)
  | a :: b :: c :: rest => itemOf (f a b c) :: specCombine3 f (b :: c :: rest)
  | _ => []

/-- `number f`: `f i xᵢ`, counting the values -/
def specNumber (f : Nat → α → Res α) : Nat → List (Item α) → List (Item α)
  | _, [] => []
  | i, .err :: xs => .err :: specNumber f i xs
  | i, .ok v :: xs => itemOf (f i v) :: specNumber f (i + 1) xs

/-- `iir`/`iirCombine`: a scan — `y₀ = init x₀`, `yₖ = f xₖ xₖ₋₁ yₖ₋₁` (total closures; `iir` ignores `xₖ₋₁`) -/
def specScanFrom (f : α → α → α → α) : α → α → List α → List α
  | _, _, [] => []
  | li, la, x :: xs => f x li la :: specScanFrom f x (f x li la) xs
def specScan (init : α → α) (f : α → α → α → α) : List α → List α
  | [] => []
  | x :: xs => init x :: specScanFrom f x (init x) xs

/-- number of elements up to and including the `k`-th one that satisfies `q` (all, if there is none) -/
def kthPos {β : Type} (q : β → Bool) : List β → Nat → Nat
  | [], _ => 0
  | _ :: _, 0 => 0
  | x :: xs, k + 1 => 1 + (if q x then kthPos q xs k else kthPos q xs (k + 1))

/-- what `Eval` makes of a list of items: the values up to the first error, and whether there was one -/
def cutErr : List (Item α) → List α × Bool
  | [] => ([], false)
  | .err :: _ => ([], true)
  | .ok v :: xs => (v :: (cutErr xs).1, (cutErr xs).2)

end P2.Iter
