import P2.Spec.LibSpec
/-! # C07 — reference specification, second part

The built-ins that `Spec/LibSpec.lean` listed as `unmodelled` until now:

* `string.behind`, `string.behindList` (`/repo/value/string.go`) — pure string functions;
* `list.multiUse` (`/repo/value/multiUse.go`) — the map of consumer closures applied to the
  sequentially iterated list;
* `list.linearReg`, `list.createInterpolation` (`/repo/value/list.go`), the static functions
  `bisection` and `createLowPass` (`/repo/value/value.go`) — float arithmetic built from `+ − × ÷`,
  comparisons and `abs`, written GENERICALLY over a carrier `F` with operations `Num F` in the
  operation order of the Go code; the driver instantiates `F` with Lean's `Float` (`floatNum`),
  whose `+ − × ÷ < ≤ abs` are the IEEE operations Go uses, so results are compared as bit patterns.
  `createLowPass`'s filter step calls `math.Exp`: it is written with the language's own `exp`,
  which the model leaves `unmodelled` — argument validation, the shape of the result and the
  `initial` function are specified, the filter step is specified up to the call of `exp`;
* `float.string` (`strconv.FormatFloat(f, 'g', -1, 64)`) where the shortest decimal is evident:
  finite values `m / 2^d` (`d ≤ 20`) with at most 15 significant decimal digits that print without
  an exponent (`1e-4 ≤ |f| < 1e21` … see `fltStr`); everything else stays `unmodelled`.

Functions returned by a built-in (`lineFunc`, the interpolation function, `filter`, `initial`) are
closures of the reference semantics whose body is program text over captured constants: they can be
bound, passed to other built-ins and applied like any closure of the program. `methodX`/`staticFnX`
extend the dispatchers of `LibSpec`. -/
namespace P2.LibSpec
open P2.Lang

/-! ## `string.behind`, `string.behindList` -/

def nl : List Char := ['\n']

/-- what follows the FIRST occurrence of `pre` in `s` (`e[strings.Index(e, pre)+len(pre):]`);
`none` if `pre` does not occur -/
def afterFirst (pre : List Char) : List Char → Option (List Char)
  | [] => if pre.isEmpty then some [] else none
  | c :: cs => if pre.isPrefixOf (c :: cs) then some ((c :: cs).drop pre.length) else afterFirst pre cs

/-- the first line that contains `pre` decides: the text behind `pre` on that line, trimmed -/
def behindLines (pre : List Char) : List (List Char) → List Char
  | [] => []
  | ln :: rest =>
    match afterFirst pre ln with
    | some r => trimS r
    | none => behindLines pre rest

/-- `s.behind(pre)`: split into lines at `\n`; on the first line containing `pre` the trimmed text
behind its first occurrence; the empty string if no line contains it -/
def behindS (s pre : List Char) : List Char := behindLines pre (splitS s nl)

/-- the lines behind the first line equal to `k`, up to the next empty line -/
def behindListOf (ls : List (List Char)) (k : List Char) : List (List Char) :=
  ((ls.dropWhile (fun l => l != k)).drop 1).takeWhile (fun l => l != [])

/-- `s.behindList(key)`: the trimmed lines behind the first line that equals `key` (both trimmed),
up to the next line that is empty after trimming -/
def behindListS (s key : List Char) : List (List Char) :=
  behindListOf ((splitS s nl).map trimS) (trimS key)

def sBehind (cs : List Char) : List Val → R SV
  | [.str pre] => okVal (strV (behindS cs pre.toList))
  | _ => .err
def sBehindList (cs : List Char) : List Val → R SV
  | [.str key] => okStr (.ofList ((behindListS cs key.toList).map strV))
  | _ => .err

/-! ## `float.string` -/

def natDigits (n : Nat) : List Char := (toString n).toList

def stripZeros (cs : List Char) : List Char := (cs.reverse.dropWhile (· = '0')).reverse

def padLeft (n : Nat) (cs : List Char) : List Char := List.replicate (n - cs.length) '0' ++ cs

/-- the least `d ≤ 20` with `f · 2^d` integral, and that integer -/
def dyadicOf (f : Float) : Nat → Nat → Option (Nat × Nat)
  | 0, _ => none
  | k+1, d =>
    let g := f * Float.ofNat (2 ^ d)
    if g.floor == g ∧ g < 9007199254740992 then some (g.toUInt64.toNat, d) else dyadicOf f k (d + 1)

/-- `strconv.FormatFloat(f, 'g', -1, 64)` where the result is evident. A finite `|f| = m / 2^d`
has the exact decimal expansion `m·5^d / 10^d`; with at most 15 significant digits it is the
shortest decimal that reads back as `f` (two decimals of ≤ 15 digits are further apart than a double's
rounding interval). `%g` with the shortest precision prints without an exponent iff the decimal
exponent is in `[-4, 6)` (`eprec = 6`): `100000.0 → "100000"`, `1000000.0 → "1e+06"`,
`0.0001 → "0.0001"`, `0.00001 → "1e-05"`; the model answers only inside that range and only for `+0`
among the zeros. -/
def fltStr (f : Float) : R String :=
  if f.isNaN ∨ f.isInf then .unmodelled else
  let neg := f < 0
  let a := f.abs
  if a == 0 then (if f.toBits == 0 then .ok "0" else .unmodelled) else
  if !(a >= 0.0001 ∧ a < 1000000) then .unmodelled else
  match dyadicOf a 21 0 with
  | none => .unmodelled
  | some (m, d) =>
    let num := m * 5 ^ d                    -- |f| = num / 10^d
    let ip := num / 10 ^ d
    let fp := stripZeros (padLeft d (natDigits (num % 10 ^ d)))
    let sig := (stripZeros (natDigits num)).length
    if sig > 15 then .unmodelled else
    let body := natDigits ip ++ (if fp.isEmpty then [] else '.' :: fp)
    .ok (String.ofList (if neg then '-' :: body else body))

/-! ## `list.multiUse` -/

/-- `deepEvalLists`: every list inside a consumer's result is evaluated before the result is stored -/
def deepForceN (ap : Apply) : Nat → Nat → Val → R Val
  | 0, _, _ => .fuel
  | n+1, k, .list l => do
      let xs ← force ap k l
      let ys ← xs.mapM (deepForceN ap n k)
      pure (.list (.items ys))
  | n+1, k, .map kvs => do
      let r ← kvs.mapM (fun kv => do let w ← deepForceN ap n k kv.2; pure (kv.1, w))
      pure (.map r)
  | _+1, _, v => .ok v

def deepForce (ap : Apply) (k : Nat) (v : Val) : R Val := deepForceN ap k k v

/-- a closure that fails on every element: the failure at the end of an observable list -/
def failClos : Val := .sclos ["e"] (.call (.ident "throw") [.const (.str "source")]) [] false ""

/-- an observable list as a value a consumer can iterate: the good elements, then — if the list
ends in a failure — an element whose production fails (a panic of the source reaches the consumers
as an error element, `recoverProducer`) -/
def Str.toLazy (s : Str) : R LList :=
  match s.stop with
  | none => .ok (.items s.items)
  | some .err => .ok (.append (.items s.items) (.map failClos (.items [.int 0])))
  | some .panic => .ok (.append (.items s.items) (.map failClos (.items [.int 0])))
  | some .fuel => .fuel
  | some .unmodelled => .unmodelled

/-- the result of one consumer: applied to the list, lists inside its result evaluated -/
def consumerResult (ap : Apply) (k : Nat) (l : LList) (f : Val) : R Val := do
  let v ← ap f [.list l]
  deepForce ap k v

/-- `l.multiUse({k₁: f₁, …})` = `{k₁: f₁(l), …}`: every consumer sees the same element sequence;
the first consumer (in entry order) that fails decides the failure -/
def multiUseS (ap : Apply) (k : Nat) (l : LList) : KVs → R KVs
  | [] => .ok []
  | (key, f) :: rest => do
      let r ← consumerResult ap k l f
      let rs ← multiUseS ap k l rest
      pure ((key, r) :: rs)

/-! How often a consumer body iterates its list is not a function of its value; the spec classifies
the program text of the consumer (`sclos [p] body`): a *chain* is `p` followed by method calls whose
arguments do not mention `p` (`p.map(f).top(3).sum()`); chains may stand in list and map literals
and as operands of strict operators. A single chain iterates the list exactly once (a lazy one when
`deepEvalLists` evaluates the result). Bodies of any other form that mention `p` are outside the
model. -/

mutual
/-- does the identifier `p` occur anywhere in the text (binding structure ignored: conservative) -/
def mentions (p : String) : AST → Bool
  | .const _ => false
  | .ident x => x == p
  | .letE x v i => x == p || mentions p v || mentions p i
  | .ifE c t e => mentions p c || mentions p t || mentions p e
  | .switchE v cases d => mentions p v || mentionsCases p cases || mentions p d
  | .tryE t c => mentions p t || mentions p c
  | .unary _ a => mentions p a
  | .binop _ a b => mentions p a || mentions p b
  | .clos names body _ _ this => names.contains p || this == p || mentions p body
  | .listLit items => mentionsList p items
  | .index i l => mentions p i || mentions p l
  | .mapLit kvs => mentionsKVs p kvs
  | .member m _ => mentions p m
  | .call f args => mentions p f || mentionsList p args
  | .method recv _ args => mentions p recv || mentionsList p args
def mentionsList (p : String) : List AST → Bool
  | [] => false
  | a :: as => mentions p a || mentionsList p as
def mentionsKVs (p : String) : List (String × AST) → Bool
  | [] => false
  | (_, a) :: as => mentions p a || mentionsKVs p as
def mentionsCases (p : String) : List (AST × AST) → Bool
  | [] => false
  | (a, b) :: as => mentions p a || mentions p b || mentionsCases p as
end

/-- methods that hand their receiver to a closure or iterate it on their own terms -/
def notChainMethod (name : String) : Bool :=
  name == "replaceList" || name == "multiUse" || name == "invoke" || name == "args"

/-- `p.m₁(…).m₂(…)…` with `p`-free arguments -/
def isChain (p : String) : AST → Bool
  | .ident x => x == p
  | .method recv name args => !notChainMethod name && !mentionsList p args && isChain p recv
  | _ => false

/-- weight of the bare parameter in `chainCount`: the list itself, handed on as (part of) the
result. It is evaluated (and remembered) when the result is stored, so `[q, q]` iterates once,
`[q, q.sum()]` twice: a bare `q` beside any other use is left outside the model. -/
def bareUse : Nat := 1000

mutual
/-- number of chains in strict top-level positions (a bare `p` counts `bareUse`); `none`: the body
mentions `p` in another way -/
def chainCount (p : String) : AST → Option Nat
  | .listLit items => chainCountList p items
  | .mapLit kvs => chainCountKVs p kvs
  | .binop op a b =>
      if op == "&" || op == "|" then (if mentions p a || mentions p b then none else some 0) else
      match chainCount p a, chainCount p b with
      | some x, some y => some (x + y)
      | _, _ => none
  | .unary _ a => chainCount p a
  | .ident x => if x == p then some bareUse else some 0
  | a => if isChain p a then some 1 else if mentions p a then none else some 0
def chainCountList (p : String) : List AST → Option Nat
  | [] => some 0
  | a :: as =>
    match chainCount p a, chainCountList p as with
    | some x, some y => some (x + y)
    | _, _ => none
def chainCountKVs (p : String) : List (String × AST) → Option Nat
  | [] => some 0
  | (_, a) :: as =>
    match chainCount p a, chainCountKVs p as with
    | some x, some y => some (x + y)
    | _, _ => none
end

/-- how many times a consumer iterates its list (`none`: not evident from its text) -/
def consumerUses : Val → Option Nat
  | .sclos [p] body _ _ this => if this == p then none else chainCount p body
  | _ => none

def allSome : List (Option Nat) → Option (List Nat)
  | [] => some []
  | none :: _ => none
  | some n :: r => (allSome r).map (n :: ·)

/-- `l.multiUse(m)`.
* `m` must be a non-empty map of closures of one argument — anything else is an error;
* a consumer that never iterates its list is an error as soon as the source produces an element
  (`iterator.CopyProducer` gives up after 5 s; with an empty source nobody waits);
* consumers with exactly one chain: the result is `multiUseS`;
* a consumer with two or more chains asks for a second iteration unless the first chain happened
  to remember the elements (`q.size()` does, `q.sum()` does not): Go answers with the error "copied
  iterator can only be used once" or with the result of the direct application, depending on which
  method came first — outside the model (the harness demands "error or direct application"). -/
def lMultiUse (ap : Apply) (k : Nat) (s : Str) : List Val → R SV
  | [.map kvs] =>
      if kvs.isEmpty || !kvs.all (fun kv => isClosN kv.2 1) then .err else
      match allSome (kvs.map (fun kv => consumerUses kv.2)) with
      | none => .unmodelled
      | some uses0 =>
        if uses0.any (fun u => u > bareUse) then .unmodelled else
        let uses := uses0.map (fun u => if u == bareUse then 1 else u)
        if uses.any (· ≥ 2) then .unmodelled else
        match s.toLazy with
        | .ok l =>
          if uses.any (· == 0) && !(s.items.isEmpty && s.stop.isNone) then .err else
          liftV (do let rs ← multiUseS ap k l kvs; pure (.map rs))
        | .err => .err | .panic => .panic | .fuel => .fuel | .unmodelled => .unmodelled
  | _ => .err

/-! ## float arithmetic over an abstract carrier -/

/-- the operations the numeric built-ins use; `floatNum` are Go's (IEEE 754 binary64) -/
structure Num (F : Type) where
  add : F → F → F
  sub : F → F → F
  mul : F → F → F
  div : F → F → F
  lt : F → F → Bool
  le : F → F → Bool
  abs : F → F
  ofNat : Nat → F

def floatNum : Num Float where
  add := (· + ·)
  sub := (· - ·)
  mul := (· * ·)
  div := (· / ·)
  lt := fun a b => a < b
  le := fun a b => a <= b
  abs := Float.abs
  ofNat := Float.ofNat

section generic
variable {F : Type}

/-! ### `createInterpolation` (`interpolatePoints`) -/

/-- the binary search: while `n1 − n0 > 1` halve towards the side on which `x` lies -/
def bsearch (N : Num F) (xs : List F) (x : F) : Nat → Nat → Nat → R (Nat × Nat)
  | 0, _, _ => .fuel
  | fuel+1, n0, n1 =>
    if n1 - n0 > 1 then
      let n := (n0 + n1) / 2
      match xs[n]? with
      | none => .panic
      | some xn => if N.lt x xn then bsearch N xs x fuel n0 n else bsearch N xs x fuel n n1
    else .ok (n0, n1)

/-- the straight line through `a` and `b` at `x`, in Go's operation order -/
def lineAt (N : Num F) (a b : F × F) (x : F) : F :=
  let xr := N.div (N.sub x a.1) (N.sub b.1 a.1)
  N.add a.2 (N.mul (N.sub b.2 a.2) xr)

/-- `interpolatePoints(points, x)`. No point at all: Go indexes an empty slice (panic; the REPAIRED
code answers with an error — both are `ERR` for the caller). -/
def interpolate (N : Num F) (pts : List (F × F)) (x : F) : R F :=
  match pts.head?, pts.getLast? with
  | some p0, some pl =>
    if N.le x p0.1 then .ok p0.2
    else if N.le pl.1 x then .ok pl.2
    else do
      let (n0, n1) ← bsearch N (pts.map (·.1)) x (pts.length + 1) 0 (pts.length - 1)
      match pts[n0]?, pts[n1]? with
      | some a, some b => .ok (lineAt N a b x)
      | _, _ => .panic
  | _, _ => .err

/-! ### `linearReg` -/

structure RegSums (F : Type) where
  sx : F
  sy : F
  sxx : F
  sxy : F
  n : Nat

def regStep (N : Num F) (s : RegSums F) (p : F × F) : RegSums F :=
  ⟨N.add s.sx p.1, N.add s.sy p.2, N.add s.sxx (N.mul p.1 p.1), N.add s.sxy (N.mul p.1 p.2), s.n + 1⟩

def regZero (N : Num F) : RegSums F := ⟨N.ofNat 0, N.ofNat 0, N.ofNat 0, N.ofNat 0, 0⟩

def regSums (N : Num F) (pts : List (F × F)) : RegSums F := pts.foldl (regStep N) (regZero N)

/-- `a = (Σxy − Σx·Σy/n) / (Σx² − Σx·Σx/n)`, `b = (Σy − a·Σx) / n` (no test for `n < 2` or equal
`x` values: the quotients are then NaN or ±Inf, as in Go) -/
def regAB (N : Num F) (s : RegSums F) : F × F :=
  let n := N.ofNat s.n
  let a := N.div (N.sub s.sxy (N.div (N.mul s.sx s.sy) n)) (N.sub s.sxx (N.div (N.mul s.sx s.sx) n))
  let b := N.div (N.sub s.sy (N.mul a s.sx)) n
  (a, b)

/-! ### `bisection` -/

/-- the loop of `Bisection`: at most `n` further midpoints; `yMin` is the value at `xMin` -/
def bisectLoop (N : Num F) (f : F → R F) (eps : F) : Nat → F → F → F → R F
  | 0, _, _, _ => .err
  | n+1, xMin, yMin, xMax => do
      let xMid := N.div (N.add xMin xMax) (N.ofNat 2)
      let yMid ← f xMid
      if N.lt (N.abs yMid) eps then pure xMid
      else if N.lt yMin (N.ofNat 0) == N.lt yMid (N.ofNat 0) then bisectLoop N f eps n xMid yMid xMax
      else bisectLoop N f eps n xMin yMin xMid

/-- the iteration bound of `Bisection`: `n > 1000` is tested after the 1001st midpoint -/
def bisectBound : Nat := 1001

/-- `Bisection(f, xMin, xMax, eps)` -/
def bisect (N : Num F) (f : F → R F) (xMin xMax eps : F) : R F := do
  let yMin ← f xMin
  if N.lt (N.abs yMin) eps then pure xMin else do
  let yMax ← f xMax
  if N.lt (N.abs yMax) eps then pure xMax else
  if N.lt yMin (N.ofNat 0) == N.lt yMax (N.ofNat 0) then .err else
  bisectLoop N f eps bisectBound xMin yMin xMax

end generic

/-! ## the numeric built-ins on values -/

/-- callback result that must be a number (`MustFloat`) -/
def toFloatR : R Val → R Float
  | .ok v => (match toFloat? v with | some f => .ok f | none => .err)
  | .err => .err | .panic => .panic | .fuel => .fuel | .unmodelled => .unmodelled

/-- `(x(v), y(v))` for every element, `x` first; a failure of the list behind them is the outcome -/
def xyR (ap : Apply) (fx fy : Val) : List Val → Option Stop → R (List (Float × Float))
  | [], none => .ok []
  | [], some e => e.toR
  | v :: vs, t => do
      let x ← toFloatR (ap fx [v])
      let y ← toFloatR (ap fy [v])
      let r ← xyR ap fx fy vs t
      pure ((x, y) :: r)

/-- the points of `createInterpolation`: `x` values must increase strictly (`x <= last` is refused;
a NaN passes the test, as in Go) -/
def interpPointsR (ap : Apply) (fx fy : Val) : Option Float → List Val → Option Stop → R (List (Float × Float))
  | _, [], none => .ok []
  | _, [], some e => e.toR
  | last, v :: vs, t => do
      let x ← toFloatR (ap fx [v])
      if (match last with | some l => decide (x <= l) | none => false) then .err else do
      let y ← toFloatR (ap fy [v])
      let r ← interpPointsR ap fx fy (some x) vs t
      pure ((x, y) :: r)

def cF (f : Float) : AST := .const (.flt f)
def idX : AST := .ident "x"

/-- `x -> a*x + b` -/
def lineFuncClos (a b : Float) : Val :=
  .sclos ["x"] (.binop "+" (.binop "*" (cF a) idX) (cF b)) [] false ""

/-- program text of `lineAt floatNum a b x` -/
def lineAtAST (a b : Float × Float) : AST :=
  .binop "+" (cF a.2) (.binop "*" (.binop "-" (cF b.2) (cF a.2))
    (.binop "/" (.binop "-" idX (cF a.1)) (.binop "-" (cF b.1) (cF a.1))))

/-- program text of the binary search over the fixed points: a decision tree -/
def bsearchAST (pts : List (Float × Float)) : Nat → Nat → Nat → AST
  | 0, _, _ => .call (.ident "throw") [.const (.str "fuel")]
  | fuel+1, n0, n1 =>
    if n1 - n0 > 1 then
      let n := (n0 + n1) / 2
      match pts[n]? with
      | none => .call (.ident "throw") [.const (.str "index")]
      | some pn => .ifE (.binop "<" idX (cF pn.1)) (bsearchAST pts fuel n0 n) (bsearchAST pts fuel n n1)
    else
      match pts[n0]?, pts[n1]? with
      | some a, some b => lineAtAST a b
      | _, _ => .call (.ident "throw") [.const (.str "index")]

/-- the function `createInterpolation` returns: `x -> interpolate floatNum pts x` as program text.
`float(x)` is Go's `ToFloat` test on the argument (and makes the end tests compare floats). -/
def interpClos (pts : List (Float × Float)) : Val :=
  let body : AST :=
    match pts.head?, pts.getLast? with
    | some p0, some pl =>
      .ifE (.binop "<=" idX (cF p0.1)) (cF p0.2)
        (.ifE (.binop ">=" idX (cF pl.1)) (cF pl.2) (bsearchAST pts (pts.length + 1) 0 (pts.length - 1)))
    | _, _ => .call (.ident "throw") [.const (.str "no points")]
  .sclos ["x"] (.letE "x" (.call (.ident "float") [idX]) body) [] false ""

def lLinearReg (ap : Apply) (s : Str) : List Val → R SV
  | [fx, fy] =>
      if !(isClosN fx 1 && isClosN fy 1) then .err else liftV (do
        let pts ← xyR ap fx fy s.items s.stop
        let ab := regAB floatNum (regSums floatNum pts)
        pure (.map [("a", .flt ab.1), ("b", .flt ab.2), ("lineFunc", lineFuncClos ab.1 ab.2)]))
  | _ => .err

def lCreateInterpolation (ap : Apply) (s : Str) : List Val → R SV
  | [fx, fy] =>
      if !(isClosN fx 1 && isClosN fy 1) then .err else liftV (do
        let pts ← interpPointsR ap fx fy none s.items s.stop
        pure (interpClos pts))
  | _ => .err

/-- Go's `1e-10` (bit pattern, so that no decimal conversion of Lean is involved) -/
def epsDefault : Float := Float.ofBits 0x3DDB7CDFD9D7BDBB

/-- `bisection(f, xMin, xMax [, eps])`; an `eps` that is no number is ignored (`1e-10`), as in Go -/
def fBisection (ap : Apply) : List Val → R SV
  | f :: a :: b :: rest =>
      if rest.length > 1 then .err else
      if !isClosN f 1 then .err else
      match toFloat? a, toFloat? b with
      | some xMin, some xMax =>
        let eps := match rest with
          | [e] => (match toFloat? e with | some x => x | none => epsDefault)
          | _ => epsDefault
        liftV (do
          let r ← bisect floatNum (fun x => toFloatR (ap f [.flt x])) xMin xMax eps
          pure (.flt r))
      | _, _ => .err
  | _ => .err

def callA (f : String) (args : List AST) : AST := .call (.ident f) args

/-- the `filter` function of `createLowPass(name, t, x, tau)`:
`(p0, p1, ol) -> let t0 = float(t(p0)); let t1 = float(t(p1)); let xv = float(x(p1));
 let a = exp(-(t1-t0)/tau); p1.put(name, y*a + xv*(1-a))` with `y = ol.name`. Everything from
`exp` on is outside the model. -/
def lowPassFilter (name : String) (t xf : Val) (tau : Float) : Val :=
  let body : AST :=
    .letE "t0" (callA "float" [callA "t" [.ident "p0"]]) <|
    .letE "t1" (callA "float" [callA "t" [.ident "p1"]]) <|
    .letE "xv" (callA "float" [callA "xf" [.ident "p1"]]) <|
    .letE "a" (callA "exp" [.binop "/" (.unary "-" (.binop "-" (.ident "t1") (.ident "t0"))) (cF tau)]) <|
    .method (.ident "p1") "put" [.const (.str name),
      .binop "+" (.binop "*" (.member (.ident "ol") name) (.ident "a"))
        (.binop "*" (.ident "xv") (.binop "-" (.const (.int 1)) (.ident "a")))]
  .sclos ["p0", "p1", "ol"] body [("t", t), ("xf", xf)] false ""

/-- the `initial` function: `p0 -> p0.put(name, x(p0))` -/
def lowPassInitial (name : String) (xf : Val) : Val :=
  .sclos ["p0"] (.method (.ident "p0") "put" [.const (.str name), callA "xf" [.ident "p0"]]) [("xf", xf)] false ""

def fCreateLowPass : List Val → R SV
  | [.str name, t, xf, tau] =>
      if !(isClosN t 1 && isClosN xf 1) then .err else
      match toFloat? tau with
      | some tauF => okVal (.map [("filter", lowPassFilter name t xf tauF), ("initial", lowPassInitial name xf)])
      | none => .err
  | _ => .err

/-! ## dispatch -/

/-- the methods specified in this file -/
def extMethod (ap : Apply) (k : Nat) (name : String) (recv : SV) (args : List Val) : Option (R SV) :=
  let asStr : Option Str := match recv with
    | .str s => some s
    | .val (.list l) => some (drain ap k l)
    | _ => none
  match name, recv, asStr with
  | "behind", .val (.str s), _ => some (sBehind s.toList args)
  | "behindList", .val (.str s), _ => some (sBehindList s.toList args)
  | "string", .val (.flt f), _ => some (match args with | [] => liftV (do let t ← fltStr f; pure (.str t)) | _ => .err)
  | "multiUse", _, some s => some (lMultiUse ap k s args)
  | "linearReg", _, some s => some (lLinearReg ap s args)
  | "createInterpolation", _, some s => some (lCreateInterpolation ap s args)
  | _, _, _ => none

/-- `LibSpec.method` extended by the methods of this file -/
def methodX (ap : Apply) (k : Nat) (name : String) (recv : SV) (args : List Val) : Option (R SV) :=
  match extMethod ap k name recv args with
  | some r => some r
  | none => method ap k name recv args

/-- `LibSpec.staticFn` extended by the static functions of this file -/
def staticFnX (ap : Apply) (k : Nat) (name : String) (args : List Val) : Option (R SV) :=
  match name with
  | "bisection" => some (fBisection ap args)
  | "createLowPass" => some (fCreateLowPass args)
  | _ => staticFn ap k name args

end P2.LibSpec
