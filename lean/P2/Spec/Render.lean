import P2.Model.Parse
/-! # Renderer with minimal and redundant parentheses (reference spec of C03)

`render t ρ k fol e` prints the tree `e` as a token list for a position that is parsed by level `k`
(`k < n`: binary level `k`, `n`: `parseUnary`, `n+1`: `parseNonOperator`) and is followed, in the same
unparenthesised context, by `fol` (nothing that continues an expression / the binary operator of level
`j` / a postfix form `.x` or `[i]` / the argument list of a call). Parentheses are inserted exactly where the grammar needs them:

* a binary node iff its level is below `k`;
* a prefix operator that is also binary at level `i` iff a primary is required (`k > n`) or the binary
  operator that follows has a level `> i` (the greedy operand would swallow it); a pure prefix
  operator iff a primary is required;
* the open-ended forms `if / try / switch / closure` iff anything follows (`fol ≠ none`);
* a member access iff it is the function of a call (`(a.m)(x)`: `a.m(x)` is a method call);
* other postfix forms, literals, list and map literals never.

The decoration `ρ` adds redundant parentheses (`ρ.par` pairs around the node at the root, children are
decorated by `ρ.sub i`) and trailing commas (`ρ.trail`) — `renderMin` has none, `renderFull` one pair
around every node. `let`/`func` are never parenthesised (`(let …)` is not in the language). -/
namespace P2.Parse

inductive Follow where
  | none | op (j : Nat) | post | call
  deriving DecidableEq, Repr

/-- decoration: path (child indices from the root) ↦ (number of redundant parenthesis pairs, trailing comma) -/
abbrev Deco := List Nat → Nat × Bool
def Deco.par (ρ : Deco) : Nat := (ρ []).1
def Deco.trail (ρ : Deco) : Bool := (ρ []).2
def Deco.sub (ρ : Deco) (i : Nat) : Deco := fun p => ρ (i :: p)
def Deco.min : Deco := fun _ => (0, false)
def Deco.full : Deco := fun _ => (1, false)

def swallows (fol : Follow) (i : Nat) : Bool :=
  match fol with | .op j => decide (i < j) | _ => false

/-- does the node need parentheses in the context `(k, fol)`? -/
def needs (t : Table) (k : Nat) (fol : Follow) : E → Bool
  | .bin o _ _ => match t.pos o with | some k0 => decide (k0 < k) | none => decide (0 < k)
  | .un o _ => match t.pos o with | some i => decide (t.n < k) || swallows fol i | none => decide (t.n < k)
  | .ite _ _ _ => fol != .none
  | .tryC _ _ => fol != .none
  | .switch _ _ _ => fol != .none
  | .clos _ _ => fol != .none
  | .member _ _ => fol == .call
  | _ => false

/-- `let`/`func` take no parentheses at all -/
def E.isLet : E → Bool
  | .letE _ _ _ => true | .funcE _ _ _ _ => true | _ => false

/-- number of parenthesis pairs printed around the node -/
def nPar (t : Table) (ρ : Deco) (k : Nat) (fol : Follow) (e : E) : Nat :=
  if e.isLet then 0 else if ρ.par = 0 then (if needs t k fol e then 1 else 0) else ρ.par

def parenN : Nat → List Tok → List Tok
  | 0, ts => ts
  | m+1, ts => .lp :: (parenN m ts ++ [.rp])

def identList : List String → List Tok
  | [] => []
  | [a] => [.ident a]
  | a :: as => .ident a :: .comma :: identList as

def sameOp (o : String) : E → Bool
  | .bin o' _ _ => o' = o
  | _ => false

def trailTok (ρ : Deco) {α} (l : List α) : List Tok := if ρ.trail && !l.isEmpty then [.comma] else []

/-- parentheses around a node: `sh fol'` is the node printed for the follower `fol'` -/
def wrap (t : Table) (ρ : Deco) (k : Nat) (fol : Follow) (e : E) (sh : Follow → List Tok) : List Tok :=
  parenN (nPar t ρ k fol e) (sh (if nPar t ρ k fol e = 0 then fol else .none))

/-- level of a binary operator (0 for a string that is not one: such trees are not `WF`) -/
def Table.lvl (t : Table) (o : String) : Nat :=
  match t.pos o with | some k0 => k0 | none => 0

-- `render t ρ k fol e`, written out because `render` is defined after `shape`
set_option hygiene false in
local macro "R(" ρ:term "," k:term "," fol:term "," e:term ")" : term =>
  `(wrap t $ρ $k $fol $e (fun fl => shape t $ρ fl $e))

mutual
/-- the node without the parentheses around it; `fol` = what follows it -/
def shape (t : Table) (ρ : Deco) (fol : Follow) : E → List Tok
  | .ident s => [.ident s]
  | .num s => [.num s]
  | .str s => [.str s]
  | .cst s => [.ident s]
  | .bin o a b =>
    R(ρ.sub 0, if sameOp o a then t.lvl o else t.lvl o + 1, .op (t.lvl o), a) ++ .op o :: R(ρ.sub 1, t.lvl o + 1, fol, b)
  | .un o a =>
    match t.pos o with
    | some i => .op o :: R(ρ.sub 0, i + 1, fol, a)
    | none => .op o :: R(ρ.sub 0, t.n + 1, fol, a)
  | .call f args =>
    R(ρ.sub 0, t.n + 1, .call, f) ++ .lp :: (shapeArgs t ρ 1 args ++ (trailTok ρ args ++ [.rp]))
  | .index l i =>
    R(ρ.sub 0, t.n + 1, .post, l) ++ .lb :: (R(ρ.sub 1, 0, .none, i) ++ [.rb])
  | .member m key => R(ρ.sub 0, t.n + 1, .post, m) ++ [.dot, .ident key]
  | .method m name args =>
    R(ρ.sub 0, t.n + 1, .post, m) ++
      .dot :: .ident name :: .lp :: (shapeArgs t ρ 1 args ++ (trailTok ρ args ++ [.rp]))
  | .letE name v inner =>
    .kw "let" :: .ident name :: .op "=" :: (R(ρ.sub 0, 0, .none, v) ++ .semi :: R(ρ.sub 1, 0, .none, inner))
  | .funcE name names body inner =>
    .kw "func" :: .ident name :: .lp :: (identList names ++ .rp ::
      (R(ρ.sub 0, 0, .none, body) ++ .semi :: R(ρ.sub 1, 0, .none, inner)))
  | .clos names body =>
    match names with
    | [x] => .ident x :: .op "->" :: R(ρ.sub 0, 0, .none, body)
    | _ => .lp :: (identList names ++ .rp :: .op "->" :: R(ρ.sub 0, 0, .none, body))
  | .list items => .lb :: (shapeArgs t ρ 0 items ++ (trailTok ρ items ++ [.rb]))
  | .map entries => .lc :: (shapeEntries t ρ 0 entries ++ (trailTok ρ entries ++ [.rc]))
  | .ite c a b =>
    .kw "if" :: (R(ρ.sub 0, 0, .none, c) ++ .kw "then" :: (R(ρ.sub 1, 0, .none, a) ++
      .kw "else" :: R(ρ.sub 2, 0, .none, b)))
  | .tryC a c =>
    .kw "try" :: (R(ρ.sub 0, 0, .none, a) ++ .kw "catch" :: R(ρ.sub 1, 0, .none, c))
  | .switch v cases d =>
    .kw "switch" :: (R(ρ.sub 0, 0, .none, v) ++ (shapeCases t ρ 2 cases ++
      .kw "default" :: R(ρ.sub 1, 0, .none, d)))

/-- comma-separated list, element `j` decorated by `ρ.sub (i+j)` -/
def shapeArgs (t : Table) (ρ : Deco) (i : Nat) : List E → List Tok
  | [] => []
  | a :: as =>
    match as with
    | [] => R(ρ.sub i, 0, .none, a)
    | _ :: _ => R(ρ.sub i, 0, .none, a) ++ .comma :: shapeArgs t ρ (i + 1) as

def shapeEntries (t : Table) (ρ : Deco) (i : Nat) : List (String × E) → List Tok
  | [] => []
  | (key, v) :: es =>
    match es with
    | [] => .ident key :: .colon :: R(ρ.sub i, 0, .none, v)
    | _ :: _ => .ident key :: .colon :: (R(ρ.sub i, 0, .none, v) ++ .comma :: shapeEntries t ρ (i + 1) es)

def shapeCases (t : Table) (ρ : Deco) (i : Nat) : List (E × E) → List Tok
  | [] => []
  | (c, v) :: cs =>
    .kw "case" :: (R(ρ.sub i, 0, .none, c) ++ .colon :: (R(ρ.sub (i + 1), 0, .none, v) ++
      shapeCases t ρ (i + 2) cs))
end

/-- the renderer: the node, parenthesised as the context `(k, fol)` and the decoration demand -/
def render (t : Table) (ρ : Deco) (k : Nat) (fol : Follow) (e : E) : List Tok :=
  wrap t ρ k fol e (fun fl => shape t ρ fl e)

def renderMin (t : Table) (e : E) : List Tok := render t Deco.min 0 .none e
def renderFull (t : Table) (e : E) : List Tok := render t Deco.full 0 .none e

/-! ### well-formedness of a tree over a table and a scope -/

def isVarOrFunc : Option Kind → Prop
  | some .var => True
  | some .func => True
  | _ => False

def isCstOf (s : String) : Option Kind → Prop
  | some (.cst (.cst s')) => s' = s
  | _ => False

mutual
/-- `WF t σ l e`: every operator of `e` is in `t` in the role it is used in, every identifier resolves
in the scope (extended by the binders above it), `let`/`func` occur only where `parseLet` is called
(`l = true`), a `let` does not bind a constant (the parser substitutes those), parameter lists are
non-empty and duplicate free, map keys are distinct. -/
def WF (t : Table) (σ : Scope) (l : Bool) : E → Prop
  | .ident s => isVarOrFunc (lookup σ s)
  | .num _ => True
  | .str _ => True
  | .cst s => isCstOf s (lookup σ s)
  | .bin o a b => (t.pos o).isSome ∧ WF t σ false a ∧ WF t σ false b
  | .un o a => o ∈ t.unary ∧ WF t σ false a
  | .call f args => WF t σ false f ∧ WFs t σ args
  | .index a i => WF t σ false a ∧ WF t σ false i
  | .member m _ => WF t σ false m
  | .method m _ args => WF t σ false m ∧ WFs t σ args
  | .letE name v inner => l = true ∧ v.isConst = false ∧ WF t σ false v ∧ WF t ((name, .var) :: σ) true inner
  | .funcE name names body inner =>
    l = true ∧ names ≠ [] ∧ names.Nodup ∧ WF t ((name, .var) :: (varsOf names ++ σ)) true body ∧
      WF t ((name, .var) :: σ) true inner
  | .clos names body => names ≠ [] ∧ names.Nodup ∧ WF t (varsOf names ++ σ) true body
  | .list items => WFs t σ items
  | .map entries => WFm t σ [] entries
  | .ite c a b => WF t σ false c ∧ WF t σ true a ∧ WF t σ true b
  | .tryC a c => WF t σ true a ∧ WF t σ true c
  | .switch v cases d => WF t σ false v ∧ WFc t σ cases ∧ WF t σ true d
def WFs (t : Table) (σ : Scope) : List E → Prop
  | [] => True
  | a :: as => WF t σ true a ∧ WFs t σ as
def WFm (t : Table) (σ : Scope) (seen : List String) : List (String × E) → Prop
  | [] => True
  | (key, v) :: es => key ∉ seen ∧ WF t σ true v ∧ WFm t σ (key :: seen) es
def WFc (t : Table) (σ : Scope) : List (E × E) → Prop
  | [] => True
  | (c, v) :: cs => WF t σ false c ∧ WF t σ true v ∧ WFc t σ cs
end

/-- the tables the round trip is stated for: distinct binary operators; `->` (closure arrow) is not an operator -/
structure TableWF (t : Table) : Prop where
  nodup : t.ops.Nodup
  arrowOp : "->" ∉ t.ops
  arrowUn : "->" ∉ t.unary
  fixed : t.pinned = false

end P2.Parse
