import P2.Model.Lang.Lib
/-! # C07 — eager reference specification of the built-in library

An independent, EAGER reference of the built-in list, map, string and numeric library of
`value.New()` (`/repo/value/list.go`, `map.go`, `string.go`, `value.go`, and the combinators of
`github.com/hneemann/iterator`). Nothing here is a lazy stage description: a list is the finite
sequence of its elements, written with plain list functions (`map`, `filter`, `zip` with the tail,
sliding windows, scans, `take`/`drop`, cartesian product, sorted merge, folds, insertion sort,
partition by key).

The only concession to laziness is the *error element*: in Go a callback error is delivered as an
element of the list, every consumer stops at the first one, and a consumer that stops earlier
(`first`, `top`, `present`, …) never sees it. The observable content of a list is therefore
"finitely many good elements, then either the regular end or a failure" — the type `Str`. Every
spec function says what happens to the good elements with a plain list function and where a failure
ends the result. On failure-free inputs with succeeding callbacks they are literally the list
functions named in their doc comments (`Proofs/LibSpecLaws.lean`).

Callbacks are `Val` closures applied through `ap : Apply`, exactly like the library model
`P2.Lang.Lib` (which C01 proves compile-correct); `Proofs/LibSpecRefine.lean` proves that the lazy
library model refines this spec. The value-level operators (`+`, `/`, `<`, `=`, `ToString`) are the
language's own (`P2.Lang.binop`, `valLess`, `valEq`, `toStr`; C14 is about them). -/
namespace P2.LibSpec
open P2.Lang

/-! ## outcomes and observable lists -/

/-- how a computation ends abnormally -/
inductive Stop where
  | err | panic | fuel | unmodelled
  deriving DecidableEq, Repr, Inhabited

def Stop.toR {α : Type} : Stop → R α
  | .err => .err | .panic => .panic | .fuel => .fuel | .unmodelled => .unmodelled

/-- the failure kind of a non-`ok` outcome (`ok` is mapped to `err`; never used on `ok`) -/
def stopOf {α : Type} : R α → Stop
  | .ok _ => .err | .err => .err | .panic => .panic | .fuel => .fuel | .unmodelled => .unmodelled

/-- observable content of a list: the good elements, then the regular end (`none`) or a failure -/
structure Str where
  items : List Val
  stop : Option Stop := none
  deriving Inhabited

def Str.cons (x : Val) (s : Str) : Str := ⟨x :: s.items, s.stop⟩
def Str.nil : Str := ⟨[], none⟩
def Str.fail (e : Stop) : Str := ⟨[], some e⟩
def Str.ofList (xs : List Val) : Str := ⟨xs, none⟩

/-- all elements (`ToSlice`, `Eval`, `CopyToSlice`): a failure anywhere is the outcome -/
def Str.all (s : Str) : R (List Val) :=
  match s.stop with
  | none => .ok s.items
  | some e => e.toR

/-- the elements of a lazy list value of the language model (`elems`): pull until the end or the
first failure -/
def drain (ap : Apply) : Nat → LList → Str
  | 0, _ => .fail .fuel
  | k+1, l =>
    match uncons ap k l with
    | .ok none => .nil
    | .ok (some (x, l')) => (drain ap k l').cons x
    | r => .fail (stopOf r)

/-- a value of the spec evaluator: an ordinary value or the observable content of a list -/
inductive SV where
  | val (v : Val)
  | str (s : Str)
  deriving Inhabited

/-- callback result that must be a `Bool` -/
def toBoolR : R Val → R Bool
  | .ok (.bool b) => .ok b
  | .ok _ => .err
  | .err => .err | .panic => .panic | .fuel => .fuel | .unmodelled => .unmodelled

/-- callback result that must be an `Int` -/
def toIntR : R Val → R Val
  | .ok (.int i) => .ok (.int i)
  | .ok _ => .err
  | .err => .err | .panic => .panic | .fuel => .fuel | .unmodelled => .unmodelled

/-! ## generic list schemes -/

/-- element-wise image; the first failing application ends the result (`Map`, `Number`,
`Combine*`, `Cross`) -/
def mapR {α : Type} (g : α → R Val) : List α → Option Stop → Str
  | [], t => ⟨[], t⟩
  | a :: as, t =>
    match g a with
    | .ok y => (mapR g as t).cons y
    | r => .fail (stopOf r)

/-- `filter` (`Filter`/`FilterAuto`) -/
def filterR (p : Val → R Bool) : List Val → Option Stop → Str
  | [], t => ⟨[], t⟩
  | x :: xs, t =>
    match p x with
    | .ok true => (filterR p xs t).cons x
    | .ok false => filterR p xs t
    | r => .fail (stopOf r)

/-- left fold (`Reduce`, `MapReduce`, `Visit`, `Sum`); a failure element behind the good elements
is the outcome -/
def foldR {α : Type} (g : Val → α → R Val) : Val → List α → Option Stop → R Val
  | acc, [], none => .ok acc
  | _, [], some e => e.toR
  | acc, x :: xs, t => do
      let a ← g acc x
      foldR g a xs t

/-- `IirMap` behind the first element: `yᵢ = step xᵢ xᵢ₋₁ yᵢ₋₁` -/
def scanFrom (step : Val → Val → Val → R Val) : Val → Val → List Val → Option Stop → Str
  | _, _, [], t => ⟨[], t⟩
  | li, lv, x :: xs, t =>
    match step x li lv with
    | .ok y => (scanFrom step x y xs t).cons y
    | r => .fail (stopOf r)

/-- `IirMap`: `y₀ = init x₀`, then `scanFrom` -/
def scanR (init : Val → R Val) (step : Val → Val → Val → R Val) : List Val → Option Stop → Str
  | [], t => ⟨[], t⟩
  | x :: xs, t =>
    match init x with
    | .ok y => (scanFrom step x y xs t).cons y
    | r => .fail (stopOf r)

/-- consecutive triples -/
def triples : List Val → List (Val × Val × Val)
  | a :: b :: c :: rest => (a, b, c) :: triples (b :: c :: rest)
  | _ => []

/-- sliding windows of length `n` in element order, oldest element first -/
def windows (n : Nat) : List Val → List (List Val)
  | [] => []
  | x :: xs => if n ≤ (x :: xs).length then (x :: xs).take n :: windows n xs else []

/-- cartesian product, the first list varying slowest (`Cross`: outer loop = receiver) -/
def pairsOf (as bs : List Val) : List (Val × Val) :=
  as.flatMap (fun a => bs.map (fun b => (a, b)))

/-- `Merge`: repeatedly take the head of the first list when `lt a b`, else the head of the
second; `n` bounds the number of steps (`|as| + |bs| + 1` suffices) -/
def mergeL (lt : Val → Val → R Bool) : Nat → List Val → Option Stop → List Val → Option Stop → Str
  | 0, _, _, _, _ => .fail .fuel
  | _+1, [], none, bs, tb => ⟨bs, tb⟩
  | _+1, [], some e, _, _ => .fail e
  | _+1, a :: as, ta, [], none => ⟨a :: as, ta⟩
  | _+1, _ :: _, _, [], some e => .fail e
  | n+1, a :: as, ta, b :: bs, tb =>
    match lt a b with
    | .ok true => (mergeL lt n as ta (b :: bs) tb).cons a
    | .ok false => (mergeL lt n (a :: as) ta bs tb).cons b
    | r => .fail (stopOf r)

/-- `Compact` behind the first element: drop an element equal to the last *published* one -/
def compactFrom (eq : Val → Val → R Bool) : Val → List Val → Option Stop → Str
  | _, [], t => ⟨[], t⟩
  | p, x :: xs, t =>
    match eq p x with
    | .ok true => compactFrom eq p xs t
    | .ok false => (compactFrom eq x xs t).cons x
    | r => .fail (stopOf r)

def compactL (eq : Val → Val → R Bool) : List Val → Option Stop → Str
  | [], t => ⟨[], t⟩
  | x :: xs, t => (compactFrom eq x xs t).cons x

/-- first index with `p` (`IndexWhere`, `Present`); a failure before it is the outcome -/
def findR (p : Val → R Bool) : Int → List Val → Option Stop → R (Option Int)
  | _, [], none => .ok none
  | _, [], some e => e.toR
  | i, x :: xs, t => do
      if ← p x then pure (some i) else findR p (i+1) xs t

/-- minimum / maximum by a "replace the current one" test (`Min`, `Max`) -/
def pickR (replace : Val → Val → R Bool) : Val → List Val → Option Stop → R Val
  | m, [], none => .ok m
  | _, [], some e => e.toR
  | m, v :: vs, t => do
      if ← replace v m then pickR replace v vs t else pickR replace m vs t

/-! ### sorting: stable insertion sort on (key, item) pairs -/

/-- insert `x`, which stood in front of all elements of the sorted list, keeping it in front of
equal keys -/
def insertR (lt : Val → Val → R Bool) (x : Val × Val) : List (Val × Val) → R (List (Val × Val))
  | [] => .ok [x]
  | y :: ys => do
      if ← lt y.1 x.1 then do
        let r ← insertR lt x ys
        pure (y :: r)
      else pure (x :: y :: ys)

def isortR (lt : Val → Val → R Bool) : List (Val × Val) → R (List (Val × Val))
  | [] => .ok []
  | x :: xs => do
      let s ← isortR lt xs
      insertR lt x s

/-- the key of every element -/
def keyedR (key : Val → R Val) : List Val → R (List (Val × Val))
  | [] => .ok []
  | x :: xs => do
      let k ← key x
      let r ← keyedR key xs
      pure ((k, x) :: r)

/-! ### grouping: partition by key, groups and members in order of first occurrence -/

def addToGroups (eq : Val → Val → R Bool) (key x : Val) :
    List (Val × List Val) → R (List (Val × List Val))
  | [] => .ok [(key, [x])]
  | (k', vs) :: rest => do
      if ← eq k' key then pure ((k', vs ++ [x]) :: rest) else do
        let r ← addToGroups eq key x rest
        pure ((k', vs) :: r)

def groupR (keyOf : Val → R Val) (eq : Val → Val → R Bool) :
    List (Val × List Val) → List Val → Option Stop → R (List (Val × List Val))
  | acc, [], none => .ok acc
  | _, [], some e => e.toR
  | acc, x :: xs, t => do
      let key ← keyOf x
      let acc' ← addToGroups eq key x acc
      groupR keyOf eq acc' xs t

def groupVal (g : Val × List Val) : Val :=
  .map [("key", g.1), ("values", .list (.items g.2))]

/-! ### moving windows -/

/-- `MovingWindow`: the window ending at an element starts at the first element (not before the
previous window's start) whose value is within distance 1 -/
def movingL : List (Float × Val) → List (Float × Val) → List (List Val)
  | _, [] => []
  | win, p :: ps =>
    let w := (win ++ [p]).dropWhile (fun q => decide (Float.abs (p.1 - q.1) > 1))
    w.map (·.2) :: movingL w ps

def floatsR (f : Val → R Val) : List Val → R (List (Float × Val))
  | [] => .ok []
  | x :: xs => do
      let v ← f x
      match toFloat? v with
      | none => .err
      | some fl => do
          let r ← floatsR f xs
          pure ((fl, x) :: r)

/-- `MovingWindowRemove`: drop front elements while the window has more than one element and the
callback asks for removal -/
def shrinkR (rm : List Val → R Bool) : List Val → R (List Val)
  | [] => .ok []
  | [x] => .ok [x]
  | x :: y :: rest => do
      if ← rm (x :: y :: rest) then shrinkR rm (y :: rest) else pure (x :: y :: rest)

def movingRemoveL (rm : List Val → R Bool) : List Val → List Val → R (List (List Val))
  | _, [] => .ok []
  | win, x :: xs => do
      let w ← shrinkR rm (win ++ [x])
      let r ← movingRemoveL rm w xs
      pure (w :: r)

/-! ## list methods -/

def listV (xs : List Val) : Val := .list (.items xs)

def okStr (s : Str) : R SV := .ok (.str s)
def okVal (v : Val) : R SV := .ok (.val v)
def liftV (r : R Val) : R SV := do let v ← r; pure (.val v)

def call1 (ap : Apply) (f : Val) (x : Val) : R Val := ap f [x]
def call2 (ap : Apply) (f : Val) (x y : Val) : R Val := ap f [x, y]

/-- `l.map(f)`: `List.map` -/
def mapS (ap : Apply) (f : Val) (s : Str) : Str := mapR (call1 ap f) s.items s.stop
/-- `l.accept(f)`: `List.filter` -/
def acceptS (ap : Apply) (f : Val) (s : Str) : Str := filterR (fun x => toBoolR (ap f [x])) s.items s.stop
/-- `l.number(f)`: indexed map -/
def numberS (ap : Apply) (f : Val) (s : Str) : Str :=
  mapR (fun (p : Val × Nat) => ap f [.int p.2, p.1]) s.items.zipIdx s.stop
/-- `l.combine(f)`: `zipWith f l l.tail` -/
def combineS (ap : Apply) (f : Val) (s : Str) : Str :=
  mapR (fun (p : Val × Val) => ap f [p.1, p.2]) (s.items.zip s.items.tail) s.stop
/-- `l.combine3(f)`: `f` on consecutive triples -/
def combine3S (ap : Apply) (f : Val) (s : Str) : Str :=
  mapR (fun (p : Val × Val × Val) => ap f [p.1, p.2.1, p.2.2]) (triples s.items) s.stop
/-- `l.combineN(n, f)`: `f` on every window of `n` consecutive elements, oldest first, each window
a list of its own (the REPAIRED behaviour; the pinned commit passed the rotated ring buffer) -/
def combineNS (ap : Apply) (n : Nat) (f : Val) (s : Str) : Str :=
  mapR (fun w => ap f [listV w]) (windows n s.items) s.stop
/-- `l.top(n)`: `take n`; a negative `n` takes nothing away (`FirstN` stops when its counter
*equals* `n`); the element behind the cut is read but never delivered -/
def topS (n : Int) (s : Str) : Str :=
  if n < 0 then s
  else if n.toNat ≤ s.items.length then ⟨s.items.take n.toNat, none⟩ else s
/-- `l.skip(n)`: `drop n` (`n ≤ 0`: the whole list); a failure among the skipped elements is kept -/
def skipS (n : Int) (s : Str) : Str := ⟨s.items.drop n.toNat, s.stop⟩
/-- `a + b` on lists: `++`; the second list is only reached behind the regular end of the first -/
def appendS (a b : Str) : Str :=
  match a.stop with
  | none => ⟨a.items ++ b.items, b.stop⟩
  | some e => ⟨a.items, some e⟩
/-- `l.cross(other, f)`: `f` on the cartesian product, receiver varying slowest -/
def crossS (ap : Apply) (f : Val) (a b : Str) : Str :=
  let g := fun (p : Val × Val) => ap f [p.1, p.2]
  match a.items, b.stop with
  | [], _ => ⟨[], a.stop⟩
  | x :: _, some e => mapR g (b.items.map (fun y => (x, y))) (some e)
  | _, none => mapR g (pairsOf a.items b.items) a.stop
/-- `l.merge(other, less)`: sorted merge -/
def mergeS (ap : Apply) (f : Val) (a b : Str) : Str :=
  mergeL (fun x y => toBoolR (ap f [x, y])) (a.items.length + b.items.length + 1) a.items a.stop b.items b.stop
/-- `l.compact(eq)`: remove adjacent duplicates -/
def compactS (ap : Apply) (f : Val) (s : Str) : Str :=
  compactL (fun p x => toBoolR (ap f [p, x])) s.items s.stop
/-- `l.iir(init, f)`: `scanl`-like, `yᵢ = f(xᵢ, yᵢ₋₁)` -/
def iirS (ap : Apply) (init f : Val) (s : Str) : Str :=
  scanR (call1 ap init) (fun x _ lv => ap f [x, lv]) s.items s.stop
/-- `l.iirCombine(init, f)`: `yᵢ = f(xᵢ₋₁, xᵢ, yᵢ₋₁)` -/
def iirCombineS (ap : Apply) (init f : Val) (s : Str) : Str :=
  scanR (call1 ap init) (fun x li lv => ap f [li, x, lv]) s.items s.stop
/-- `l.fsm(f)`: `y₀ = f({state:0}, x₀)`, `yᵢ = f(yᵢ₋₁, xᵢ)` -/
def fsmS (ap : Apply) (f : Val) (s : Str) : Str :=
  scanR (fun x => ap f [.map [("state", .int 0)], x]) (fun x _ lv => ap f [lv, x]) s.items s.stop

/-- `l.reduce(f)`: `foldl1` -/
def reduceS (ap : Apply) (f : Val) (s : Str) : R Val :=
  match s.items, s.stop with
  | [], none => .err
  | [], some e => e.toR
  | x :: xs, t => foldR (call2 ap f) x xs t
/-- `l.mapReduce(init, f)` and `l.visit(init, f)`: `foldl` -/
def mapReduceS (ap : Apply) (init f : Val) (s : Str) : R Val := foldR (call2 ap f) init s.items s.stop
/-- `l.sum()`: `reduce (+)` -/
def sumS (ap : Apply) (k : Nat) (s : Str) : R Val :=
  match s.items, s.stop with
  | [], none => .err
  | [], some e => e.toR
  | x :: xs, t => foldR (fun a b => binop ap k "+" a b) x xs t
/-- `l.mean()`: `sum / size` -/
def meanS (ap : Apply) (k : Nat) (s : Str) : R Val := do
  let total ← sumS ap k s
  binop ap k "/" total (.int s.items.length)
/-- `l.min()` -/
def minS (s : Str) : R Val :=
  match s.items, s.stop with
  | [], none => .err
  | [], some e => e.toR
  | x :: xs, t => pickR (fun v m => valLess v m) x xs t
/-- `l.max()` -/
def maxS (s : Str) : R Val :=
  match s.items, s.stop with
  | [], none => .err
  | [], some e => e.toR
  | x :: xs, t => pickR (fun v m => valLess m v) x xs t

/-- running state of `minMax`: (min, minItem, max, maxItem) -/
def minMaxR (key : Val → R Val) : (Val × Val × Val × Val) → List Val → Option Stop → R (Val × Val × Val × Val)
  | st, [], none => .ok st
  | _, [], some e => e.toR
  | (mn, mni, mx, mxi), x :: xs, t => do
      let r ← key x
      let le ← valLess r mn
      let (mn', mni') := if le then (r, x) else (mn, mni)
      let gr ← valLess mx r
      let (mx', mxi') := if gr then (r, x) else (mx, mxi)
      minMaxR key (mn', mni', mx', mxi') xs t
/-- `l.minMax(f)` -/
def minMaxS (ap : Apply) (f : Val) (s : Str) : R Val :=
  let mk := fun (q : Val × Val × Val × Val) (valid : Bool) =>
    Val.map [("min", q.1), ("max", q.2.2.1), ("minItem", q.2.1), ("maxItem", q.2.2.2), ("valid", .bool valid)]
  match s.items, s.stop with
  | [], none => .ok (mk (.int 0, .int 0, .int 0, .int 0) false)
  | [], some e => e.toR
  | x :: xs, t => do
      let r ← ap f [x]
      let q ← minMaxR (call1 ap f) (r, x, r, x) xs t
      pure (mk q true)

/-- `l.first()` -/
def firstS (s : Str) : R Val :=
  match s.items, s.stop with
  | x :: _, _ => .ok x
  | [], none => .err
  | [], some e => e.toR
/-- `l.last()` -/
def lastS (s : Str) : R Val := do
  let xs ← s.all
  match xs.getLast? with
  | some x => pure x
  | none => .err
/-- `l.single()` -/
def singleS (s : Str) : R Val :=
  match s.items, s.stop with
  | [x], none => .ok x
  | [_], some e => e.toR
  | [], none => .err
  | [], some e => e.toR
  | _ :: _ :: _, _ => .err
/-- `l.size()` -/
def sizeS (s : Str) : R Val := do let xs ← s.all; pure (.int xs.length)
/-- `l.reverse()` -/
def reverseS (s : Str) : R Val := do let xs ← s.all; pure (listV xs.reverse)
/-- `l.append(x)` -/
def appendItemS (x : Val) (s : Str) : R Val := do let xs ← s.all; pure (listV (xs ++ [x]))
/-- `l.set(i, x)` -/
def setS (i : Int) (x : Val) (s : Str) : R Val := do
  let xs ← s.all
  if i < 0 ∨ i ≥ xs.length then .err else pure (listV (xs.set i.toNat x))
/-- `l.indexWhere(f)` -/
def indexWhereS (ap : Apply) (f : Val) (s : Str) : R Val := do
  match ← findR (fun x => toBoolR (ap f [x])) 0 s.items s.stop with
  | some i => pure (.int i)
  | none => pure (.int (-1))
/-- `l.present(f)` -/
def presentS (ap : Apply) (f : Val) (s : Str) : R Val := do
  match ← findR (fun x => toBoolR (ap f [x])) 0 s.items s.stop with
  | some _ => pure (.bool true)
  | none => pure (.bool false)

/-- `l.order(f)` (`rev = false`) and `l.orderRev(f)`: the stable sort by key; the implementation
may return any permutation with the same key sequence (Go's sort is not stable) -/
def orderS (ap : Apply) (rev : Bool) (f : Val) (s : Str) : R (List (Val × Val)) := do
  let xs ← s.all
  -- `sort.Sort` never calls `Less` on fewer than two elements: the key function is not called at all
  if xs.length ≤ 1 then pure (xs.map (fun x => (x, x))) else
  let kx ← keyedR (call1 ap f) xs
  isortR (fun a b => if rev then valLess b a else valLess a b) kx
/-- `l.orderLess(less)`: keys are the items themselves -/
def orderLessS (ap : Apply) (f : Val) (s : Str) : R (List (Val × Val)) := do
  let xs ← s.all
  isortR (fun a b => toBoolR (ap f [a, b])) (xs.map (fun x => (x, x)))

/-- `l.groupByEqual(f)` -/
def groupByEqualS (ap : Apply) (k : Nat) (f : Val) (s : Str) : R (List (Val × List Val)) :=
  groupR (call1 ap f) (fun a b => valEq ap k a b) [] s.items s.stop
/-- `l.groupByString(f)`: the key is the string form of the callback result -/
def groupByStringS (ap : Apply) (k : Nat) (f : Val) (s : Str) : R (List (Val × List Val)) :=
  groupR (fun x => do let v ← ap f [x]; let t ← toStr ap k v; pure (.str t)) (fun a b => valEq ap k a b) [] s.items s.stop
/-- `l.groupByInt(f)`: the callback must return an int -/
def groupByIntS (ap : Apply) (k : Nat) (f : Val) (s : Str) : R (List (Val × List Val)) :=
  groupR (fun x => toIntR (ap f [x])) (fun a b => valEq ap k a b) [] s.items s.stop

/-- `l.movingWindow(f)` -/
def movingWindowS (ap : Apply) (f : Val) (s : Str) : R Val := do
  let xs ← s.all
  let fx ← floatsR (call1 ap f) xs
  pure (listV ((movingL [] fx).map listV))
/-- `l.movingWindowRemove(f)` -/
def movingWindowRemoveS (ap : Apply) (f : Val) (s : Str) : R Val := do
  let xs ← s.all
  let ws ← movingRemoveL (fun w => toBoolR (ap f [listV w])) [] xs
  pure (listV (ws.map listV))

/-- a stream as a value: only failure-free streams are values of the spec -/
def Str.toVal (s : Str) : R Val :=
  match s.stop with
  | none => .ok (listV s.items)
  | some .fuel => .fuel
  | some _ => .unmodelled

/-- argument that must be a list: its observable content -/
def argStr (ap : Apply) (k : Nat) : Val → Option Str
  | .list l => some (drain ap k l)
  | _ => none

/-! The list methods, one function per method: argument validation as in `list.go` (`ToFunc`
checks closure and arity, numeric arguments must be `Int`), then the reference function. A wrong
number of arguments is an error (`MethodCall` checks the declared arity before the call). -/

def groupsV (g : List (Val × List Val)) : Val := listV (g.map groupVal)
def keysV (g : List (Val × List Val)) : Val := listV (g.map (·.1))
def itemsV (r : List (Val × Val)) : Val := listV (r.map (·.2))

def lAccept (ap : Apply) (s : Str) : List Val → R SV
  | [f] => if isClosN f 1 then okStr (acceptS ap f s) else .err
  | _ => .err
def lMap (ap : Apply) (s : Str) : List Val → R SV
  | [f] => if isClosN f 1 then okStr (mapS ap f s) else .err
  | _ => .err
def lReduce (ap : Apply) (s : Str) : List Val → R SV
  | [f] => if isClosN f 2 then liftV (reduceS ap f s) else .err
  | _ => .err
def lSum (ap : Apply) (k : Nat) (s : Str) : List Val → R SV
  | [] => liftV (sumS ap k s)
  | _ => .err
def lMapReduce (ap : Apply) (s : Str) : List Val → R SV
  | [init, f] => if isClosN f 2 then liftV (mapReduceS ap init f s) else .err
  | _ => .err
def lMean (ap : Apply) (k : Nat) (s : Str) : List Val → R SV
  | [] => liftV (meanS ap k s)
  | _ => .err
def lMin (s : Str) : List Val → R SV
  | [] => liftV (minS s)
  | _ => .err
def lMax (s : Str) : List Val → R SV
  | [] => liftV (maxS s)
  | _ => .err
def lMinMax (ap : Apply) (s : Str) : List Val → R SV
  | [f] => if isClosN f 1 then liftV (minMaxS ap f s) else .err
  | _ => .err
def lReplaceList (ap : Apply) (s : Str) : List Val → R SV
  | [f] => if isClosN f 1 then liftV (do let l ← s.toVal; ap f [l]) else .err
  | _ => .err
def lCombine (ap : Apply) (s : Str) : List Val → R SV
  | [f] => if isClosN f 2 then okStr (combineS ap f s) else .err
  | _ => .err
def lCombine3 (ap : Apply) (s : Str) : List Val → R SV
  | [f] => if isClosN f 3 then okStr (combine3S ap f s) else .err
  | _ => .err
def lCombineN (ap : Apply) (s : Str) : List Val → R SV
  | [.int n, f] => if !isClosN f 1 then .err else if n < 1 then .err else okStr (combineNS ap n.toNat f s)
  | _ => .err
def lIndexWhere (ap : Apply) (s : Str) : List Val → R SV
  | [f] => if isClosN f 1 then liftV (indexWhereS ap f s) else .err
  | _ => .err
def lPresent (ap : Apply) (s : Str) : List Val → R SV
  | [f] => if isClosN f 1 then liftV (presentS ap f s) else .err
  | _ => .err
def lGroupByString (ap : Apply) (k : Nat) (s : Str) : List Val → R SV
  | [f] => if isClosN f 1 then liftV (do let g ← groupByStringS ap k f s; pure (groupsV g)) else .err
  | _ => .err
def lGroupByInt (ap : Apply) (k : Nat) (s : Str) : List Val → R SV
  | [f] => if isClosN f 1 then liftV (do let g ← groupByIntS ap k f s; pure (groupsV g)) else .err
  | _ => .err
def lGroupByEqual (ap : Apply) (k : Nat) (s : Str) : List Val → R SV
  | [f] => if isClosN f 1 then liftV (do let g ← groupByEqualS ap k f s; pure (groupsV g)) else .err
  | _ => .err
def lUniqueString (ap : Apply) (k : Nat) (s : Str) : List Val → R SV
  | [f] => if isClosN f 1 then liftV (do let g ← groupByStringS ap k f s; pure (keysV g)) else .err
  | _ => .err
def lUniqueInt (ap : Apply) (k : Nat) (s : Str) : List Val → R SV
  | [f] => if isClosN f 1 then liftV (do let g ← groupByIntS ap k f s; pure (keysV g)) else .err
  | _ => .err
def lCompact (ap : Apply) (s : Str) : List Val → R SV
  | [f] => if isClosN f 2 then okStr (compactS ap f s) else .err
  | _ => .err
def lCross (ap : Apply) (k : Nat) (s : Str) : List Val → R SV
  | [other, f] =>
      if !isClosN f 2 then .err else
      match argStr ap k other with
      | some b => okStr (crossS ap f s b)
      | none => .err
  | _ => .err
def lMerge (ap : Apply) (k : Nat) (s : Str) : List Val → R SV
  | [other, f] =>
      if !isClosN f 2 then .err else
      match argStr ap k other with
      | some b => okStr (mergeS ap f s b)
      | none => .err
  | _ => .err
def lOrder (ap : Apply) (rev : Bool) (s : Str) : List Val → R SV
  | [f] => if isClosN f 1 then liftV (do let r ← orderS ap rev f s; pure (itemsV r)) else .err
  | _ => .err
def lOrderLess (ap : Apply) (s : Str) : List Val → R SV
  | [f] => if isClosN f 2 then liftV (do let r ← orderLessS ap f s; pure (itemsV r)) else .err
  | _ => .err
def lReverse (s : Str) : List Val → R SV
  | [] => liftV (reverseS s)
  | _ => .err
def lAppend (s : Str) : List Val → R SV
  | [x] => liftV (appendItemS x s)
  | _ => .err
def lIir (ap : Apply) (s : Str) : List Val → R SV
  | [init, f] => if isClosN init 1 && isClosN f 2 then okStr (iirS ap init f s) else .err
  | _ => .err
def lIirCombine (ap : Apply) (s : Str) : List Val → R SV
  | [init, f] => if isClosN init 1 && isClosN f 3 then okStr (iirCombineS ap init f s) else .err
  | _ => .err
def lIirApply (ap : Apply) (s : Str) : List Val → R SV
  | [.map m] =>
      match mapGet m "initial", mapGet m "filter" with
      | some init, some f => if isClosN init 1 && isClosN f 3 then okStr (iirCombineS ap init f s) else .err
      | _, _ => .err
  | _ => .err
def lFsm (ap : Apply) (s : Str) : List Val → R SV
  | [f] => if isClosN f 2 then okStr (fsmS ap f s) else .err
  | _ => .err
def lTop (s : Str) : List Val → R SV
  | [.int n] => okStr (topS n s)
  | _ => .err
def lSkip (s : Str) : List Val → R SV
  | [.int n] => okStr (skipS n s)
  | _ => .err
def lNumber (ap : Apply) (s : Str) : List Val → R SV
  | [f] => if isClosN f 2 then okStr (numberS ap f s) else .err
  | _ => .err
def lSet (s : Str) : List Val → R SV
  | [.int i, x] => liftV (setS i x s)
  | _ => .err
def lSize (s : Str) : List Val → R SV
  | [] => liftV (sizeS s)
  | _ => .err
def lFirst (s : Str) : List Val → R SV
  | [] => liftV (firstS s)
  | _ => .err
def lSingle (s : Str) : List Val → R SV
  | [] => liftV (singleS s)
  | _ => .err
def lLast (s : Str) : List Val → R SV
  | [] => liftV (lastS s)
  | _ => .err
def lEval (s : Str) : List Val → R SV
  | [] => liftV (do let xs ← s.all; pure (listV xs))
  | _ => .err
def lString (ap : Apply) (k : Nat) (s : Str) : List Val → R SV
  | [] => liftV (do let xs ← s.all; let t ← toStr ap k (listV xs); pure (.str t))
  | _ => .err
def lMovingWindow (ap : Apply) (s : Str) : List Val → R SV
  | [f] => if isClosN f 1 then liftV (movingWindowS ap f s) else .err
  | _ => .err
def lMovingWindowRemove (ap : Apply) (s : Str) : List Val → R SV
  | [f] => if isClosN f 1 then liftV (movingWindowRemoveS ap f s) else .err
  | _ => .err

/-- dispatch on the method name. `none` = not a list method covered by the spec. -/
def listMethod (ap : Apply) (k : Nat) (name : String) (s : Str) (args : List Val) : Option (R SV) :=
  match name with
  | "accept" => some (lAccept ap s args)
  | "map" => some (lMap ap s args)
  | "reduce" => some (lReduce ap s args)
  | "sum" => some (lSum ap k s args)
  | "mapReduce" => some (lMapReduce ap s args)
  | "visit" => some (lMapReduce ap s args)
  | "mean" => some (lMean ap k s args)
  | "min" => some (lMin s args)
  | "max" => some (lMax s args)
  | "minMax" => some (lMinMax ap s args)
  | "replaceList" => some (lReplaceList ap s args)
  | "combine" => some (lCombine ap s args)
  | "combine3" => some (lCombine3 ap s args)
  | "combineN" => some (lCombineN ap s args)
  | "indexWhere" => some (lIndexWhere ap s args)
  | "present" => some (lPresent ap s args)
  | "groupByString" => some (lGroupByString ap k s args)
  | "groupByInt" => some (lGroupByInt ap k s args)
  | "groupByEqual" => some (lGroupByEqual ap k s args)
  | "uniqueString" => some (lUniqueString ap k s args)
  | "uniqueInt" => some (lUniqueInt ap k s args)
  | "compact" => some (lCompact ap s args)
  | "cross" => some (lCross ap k s args)
  | "merge" => some (lMerge ap k s args)
  | "order" => some (lOrder ap false s args)
  | "orderRev" => some (lOrder ap true s args)
  | "orderLess" => some (lOrderLess ap s args)
  | "reverse" => some (lReverse s args)
  | "append" => some (lAppend s args)
  | "iir" => some (lIir ap s args)
  | "iirCombine" => some (lIirCombine ap s args)
  | "iirApply" => some (lIirApply ap s args)
  | "fsm" => some (lFsm ap s args)
  | "top" => some (lTop s args)
  | "skip" => some (lSkip s args)
  | "number" => some (lNumber ap s args)
  | "set" => some (lSet s args)
  | "size" => some (lSize s args)
  | "first" => some (lFirst s args)
  | "single" => some (lSingle s args)
  | "last" => some (lLast s args)
  | "eval" => some (lEval s args)
  | "string" => some (lString ap k s args)
  | "movingWindow" => some (lMovingWindow ap s args)
  | "movingWindowRemove" => some (lMovingWindowRemove ap s args)
  | _ => none

/-! ## map methods (`map.go`): a map is its entry list in iteration order -/

abbrev KVs := List (String × Val)

/-- `m.map(f)`: same keys, `f(key, value)` as values -/
def mapMapS (ap : Apply) (f : Val) : KVs → R KVs
  | [] => .ok []
  | (key, v) :: rest => do
      let y ← ap f [.str key, v]
      let ys ← mapMapS ap f rest
      pure ((key, y) :: ys)
/-- `m.accept(f)`: the entries with `f(key, value)` -/
def mapAcceptS (ap : Apply) (f : Val) : KVs → R KVs
  | [] => .ok []
  | (key, v) :: rest => do
      let b ← toBoolR (ap f [.str key, v])
      let ys ← mapAcceptS ap f rest
      pure (if b then (key, v) :: ys else ys)
/-- `m.combine(other, f)`: `f(value, otherValue)` per key; every key must be in `other` -/
def mapCombineS (ap : Apply) (f : Val) (other : KVs) : KVs → R KVs
  | [] => .ok []
  | (key, v) :: rest =>
      match mapGet other key with
      | none => .err
      | some o => do
          let y ← ap f [v, o]
          let ys ← mapCombineS ap f other rest
          pure ((key, y) :: ys)
/-- `m.replace(f)`: the keys of `m`, values taken from `f(m)` where present -/
def mapReplaceS (kvs rep : KVs) : KVs :=
  kvs.map (fun kv => match mapGet rep kv.1 with | some r => (kv.1, r) | none => kv)
/-- `m.isAvail(keys…)` -/
def isAvailS (kvs : KVs) : List Val → R Bool
  | [] => .ok true
  | .str key :: rest => if (mapGet kvs key).isSome then isAvailS kvs rest else .ok false
  | _ :: _ => .err

def mGetS (kvs : KVs) : List Val → R SV
  | [.str key] => liftV (R.ofOption (mapGet kvs key))
  | _ => .err
def mPutS (kvs : KVs) : List Val → R SV
  | [.str key, v] => if (mapGet kvs key).isSome then .err else okVal (.map ((key, v) :: kvs))
  | _ => .err
def mSizeS (kvs : KVs) : List Val → R SV
  | [] => okVal (.int kvs.length)
  | _ => .err
def mIsAvailS (kvs : KVs) (keys : List Val) : R SV := liftV (do let b ← isAvailS kvs keys; pure (.bool b))
def mMapS (ap : Apply) (kvs : KVs) : List Val → R SV
  | [f] => if isClosN f 2 then liftV (do let r ← mapMapS ap f kvs; pure (.map r)) else .err
  | _ => .err
def mAcceptS (ap : Apply) (kvs : KVs) : List Val → R SV
  | [f] => if isClosN f 2 then liftV (do let r ← mapAcceptS ap f kvs; pure (.map r)) else .err
  | _ => .err
def mReplaceMapS (ap : Apply) (kvs : KVs) : List Val → R SV
  | [f] => if isClosN f 1 then liftV (ap f [.map kvs]) else .err
  | _ => .err
def mReplaceS (ap : Apply) (kvs : KVs) : List Val → R SV
  | [f] =>
      if !isClosN f 1 then .err else liftV (do
        match ← ap f [.map kvs] with
        | .map rep => pure (.map (mapReplaceS kvs rep))
        | _ => .err)
  | _ => .err
def mCombineS (ap : Apply) (kvs : KVs) : List Val → R SV
  | [other, f] =>
      if !isClosN f 2 then .err else
      match other with
      | .map o => liftV (do let r ← mapCombineS ap f o kvs; pure (.map r))
      | _ => .err
  | _ => .err
def mListS (kvs : KVs) : List Val → R SV
  | [] => okStr (.ofList (kvs.map (fun kv => .map [("key", .str kv.1), ("value", kv.2)])))
  | _ => .err
def mStringS (ap : Apply) (k : Nat) (kvs : KVs) : List Val → R SV
  | [] => liftV (do let t ← toStr ap k (.map kvs); pure (.str t))
  | _ => .err
def mEvalS (kvs : KVs) : List Val → R SV
  | [] => okVal (.map kvs)
  | _ => .err

def mapMethod (ap : Apply) (k : Nat) (name : String) (kvs : KVs) (args : List Val) : Option (R SV) :=
  match name with
  | "get" => some (mGetS kvs args)
  | "put" => some (mPutS kvs args)
  | "size" => some (mSizeS kvs args)
  | "isAvail" => some (mIsAvailS kvs args)
  | "map" => some (mMapS ap kvs args)
  | "accept" => some (mAcceptS ap kvs args)
  | "replaceMap" => some (mReplaceMapS ap kvs args)
  | "replace" => some (mReplaceS ap kvs args)
  | "combine" => some (mCombineS ap kvs args)
  | "list" => some (mListS kvs args)
  | "string" => some (mStringS ap k kvs args)
  | "eval" => some (mEvalS kvs args)
  | _ => none

/-! ## string methods (`string.go`): a string is its list of code points; byte offsets via the
UTF-8 length of the code points in front -/

def utf8Len (cs : List Char) : Nat := (cs.map (fun c => c.utf8Size)).sum

/-- `strings.Contains` -/
def infixOf (sub : List Char) : List Char → Bool
  | [] => sub.isEmpty
  | c :: cs => sub.isPrefixOf (c :: cs) || infixOf sub cs

/-- `strings.Index`: byte offset of the first occurrence, −1 if there is none -/
def indexOfL (sub : List Char) : List Char → Nat → Int
  | [], off => if sub.isEmpty then off else -1
  | c :: cs, off => if sub.isPrefixOf (c :: cs) then off else indexOfL sub cs (off + c.utf8Size)

/-- `strings.Split` for a non-empty separator: cut at the non-overlapping occurrences found from
left to right; `n` bounds the steps (`|s| + 1` suffices) -/
def splitL (sep : List Char) : Nat → List Char → List Char → List (List Char)
  | 0, cur, _ => [cur.reverse]
  | _+1, cur, [] => [cur.reverse]
  | n+1, cur, c :: cs =>
    if sep.isPrefixOf (c :: cs) then cur.reverse :: splitL sep n [] ((c :: cs).drop sep.length)
    else splitL sep n (c :: cur) cs

/-- `s.split(sep)`; an empty separator splits into code points -/
def splitS (s sep : List Char) : List (List Char) :=
  if sep.isEmpty then s.map (fun c => [c]) else splitL sep (s.length + 1) [] s

def joinL (sep : List Char) : List (List Char) → List Char
  | [] => []
  | [x] => x
  | x :: y :: rest => x ++ sep ++ joinL sep (y :: rest)

/-- `s.replace(old, new)`: `join new (split s old)`; an empty `old` matches in front of every code
point and at the end -/
def replaceS (s old new : List Char) : List Char :=
  if old.isEmpty then new ++ s.flatMap (fun c => c :: new) else joinL new (splitS s old)

/-- `s.cut(pos, len)`: `len` code points from code point `pos`; `len ≤ 0`: the rest (the REPAIRED
behaviour: the pinned commit returned U+FFFD when nothing is left at `pos`, e.g. `"".cut(0,1)`) -/
def cutS (s : List Char) (p n : Int) : List Char :=
  let r := s.drop p.toNat
  if n ≤ 0 then r else r.take n.toNat

/-- `unicode.IsSpace` -/
def isSpace (c : Char) : Bool :=
  let n := c.toNat
  n = 0x20 || (0x09 ≤ n && n ≤ 0x0D) || n = 0x85 || n = 0xA0 || n = 0x1680 || (0x2000 ≤ n && n ≤ 0x200A)
    || n = 0x2028 || n = 0x2029 || n = 0x202F || n = 0x205F || n = 0x3000

/-- `strings.TrimSpace` -/
def trimS (s : List Char) : List Char := ((s.dropWhile isSpace).reverse.dropWhile isSpace).reverse

/-- code points whose case mapping is modelled: ASCII, the Latin-1 letters with a one-to-one
mapping inside Latin-1, basic Greek and basic Cyrillic, and everything below U+0250 / the CJK,
digit and punctuation characters used by the generators that has no case. `none` = outside the
model (the Go result is then an oracle). -/
def lowerChar (c : Char) : Option Char :=
  let n := c.toNat
  if n < 0x80 then some (if 0x41 ≤ n ∧ n ≤ 0x5A then Char.ofNat (n + 32) else c)
  else if 0xC0 ≤ n ∧ n ≤ 0xDE ∧ n ≠ 0xD7 then some (Char.ofNat (n + 32))
  else if 0xDF ≤ n ∧ n ≤ 0xFF then some c
  else if 0x391 ≤ n ∧ n ≤ 0x3A9 ∧ n ≠ 0x3A2 then some (Char.ofNat (n + 32))
  else if 0x3B1 ≤ n ∧ n ≤ 0x3C9 then some c
  else if 0x410 ≤ n ∧ n ≤ 0x42F then some (Char.ofNat (n + 32))
  else if 0x430 ≤ n ∧ n ≤ 0x44F then some c
  else if (0x4E00 ≤ n ∧ n ≤ 0x9FFF) ∨ (0x1F600 ≤ n ∧ n ≤ 0x1F64F) ∨ (0x2000 ≤ n ∧ n ≤ 0x206F) then some c
  else none

def upperChar (c : Char) : Option Char :=
  let n := c.toNat
  if n < 0x80 then some (if 0x61 ≤ n ∧ n ≤ 0x7A then Char.ofNat (n - 32) else c)
  else if 0xE0 ≤ n ∧ n ≤ 0xFE ∧ n ≠ 0xF7 then some (Char.ofNat (n - 32))
  else if 0xC0 ≤ n ∧ n ≤ 0xDE then some c
  else if n = 0xDF ∨ n = 0xD7 ∨ n = 0xF7 then some c
  else if 0x3B1 ≤ n ∧ n ≤ 0x3C9 then some (if n = 0x3C2 then Char.ofNat 0x3A3 else Char.ofNat (n - 32))
  else if 0x391 ≤ n ∧ n ≤ 0x3A9 ∧ n ≠ 0x3A2 then some c
  else if 0x430 ≤ n ∧ n ≤ 0x44F then some (Char.ofNat (n - 32))
  else if 0x410 ≤ n ∧ n ≤ 0x42F then some c
  else if (0x4E00 ≤ n ∧ n ≤ 0x9FFF) ∨ (0x1F600 ≤ n ∧ n ≤ 0x1F64F) ∨ (0x2000 ≤ n ∧ n ≤ 0x206F) then some c
  else none

def mapCase (f : Char → Option Char) : List Char → R (List Char)
  | [] => .ok []
  | c :: cs =>
    match f c with
    | none => .unmodelled
    | some d => do let r ← mapCase f cs; pure (d :: r)

def digitsVal : List Char → Nat → Option Nat
  | [], acc => some acc
  | c :: cs, acc => if '0' ≤ c ∧ c ≤ '9' then digitsVal cs (acc * 10 + (c.toNat - 48)) else none

/-- `strconv.Atoi`: optional sign, one or more decimal digits, value inside int64 -/
def atoiS (s : List Char) : Option Int :=
  let (neg, ds) := match s with
    | '-' :: r => (true, r)
    | '+' :: r => (false, r)
    | r => (false, r)
  if ds.isEmpty then none else
  match digitsVal ds 0 with
  | none => none
  | some n =>
    let v : Int := if neg then -(n : Int) else n
    if -9223372036854775808 ≤ v ∧ v ≤ 9223372036854775807 then some v else none

/-- can the character occur in any text `strconv.ParseFloat` accepts? -/
def floatChar (c : Char) : Bool :=
  ('0' ≤ c && c ≤ '9') || ('a' ≤ c && c ≤ 'z') || ('A' ≤ c && c ≤ 'Z') || c = '+' || c = '-' || c = '.' || c = '_'

/-- `s.toFloat()` where the result is exact and evident: integers below 2^53 and decimal
fractions `i.f` whose value is dyadic; texts with a character no float literal contains and the
empty text are errors; everything else is outside the model -/
def parseFloatS (s : List Char) : R Float :=
  if s.isEmpty ∨ !s.all floatChar then .err else
  let (neg, r) := match s with
    | '-' :: r => (true, r)
    | '+' :: r => (false, r)
    | r => (false, r)
  let ip := r.takeWhile (· ≠ '.')
  let fp := (r.dropWhile (· ≠ '.')).drop 1
  let hasDot := r.any (· = '.')
  if ip.isEmpty ∨ (hasDot ∧ fp.isEmpty) ∨ fp.length > 8 then .unmodelled else
  match digitsVal ip 0, digitsVal fp 0 with
  | some i, some f =>
    let d := fp.length
    let num := i * 10 ^ d + f
    if num % 5 ^ d ≠ 0 then .unmodelled else
    let q := num / 5 ^ d          -- value = q / 2^d
    if q ≥ 9007199254740992 then .unmodelled else
    let v := Float.ofNat q / Float.ofNat (2 ^ d)
    .ok (if neg then -v else v)
  | _, _ => .unmodelled

def strV (cs : List Char) : Val := .str (String.ofList cs)

def sLen (cs : List Char) : List Val → R SV
  | [] => okVal (.int (utf8Len cs))
  | _ => .err
def sTrim (cs : List Char) : List Val → R SV
  | [] => okVal (strV (trimS cs))
  | _ => .err
def sToLower (cs : List Char) : List Val → R SV
  | [] => liftV (do let r ← mapCase lowerChar cs; pure (strV r))
  | _ => .err
def sToUpper (cs : List Char) : List Val → R SV
  | [] => liftV (do let r ← mapCase upperChar cs; pure (strV r))
  | _ => .err
def sContains (cs : List Char) : List Val → R SV
  | [.str sub] => okVal (.bool (infixOf sub.toList cs))
  | _ => .err
def sIndexOf (cs : List Char) : List Val → R SV
  | [.str sub] => okVal (.int (indexOfL sub.toList cs 0))
  | _ => .err
def sSplit (cs : List Char) : List Val → R SV
  | [.str sep] => okStr (.ofList ((splitS cs sep.toList).map strV))
  | _ => .err
def sCut (cs : List Char) : List Val → R SV
  | [.int p, .int n] => okVal (strV (cutS cs p n))
  | _ => .err
def sReplace (cs : List Char) : List Val → R SV
  | [.str old, .str new] => okVal (strV (replaceS cs old.toList new.toList))
  | _ => .err
def sToInt (cs : List Char) : List Val → R SV
  | [] => match atoiS cs with | some i => okVal (.int i) | none => .err
  | _ => .err
def sToFloat (cs : List Char) : List Val → R SV
  | [] => liftV (do let f ← parseFloatS cs; pure (.flt f))
  | _ => .err

def stringMethod (name : String) (s : String) (args : List Val) : Option (R SV) :=
  let cs := s.toList
  match name with
  | "len" => some (sLen cs args)
  | "string" => some (match args with | [] => okVal (.str s) | _ => .err)
  | "trim" => some (sTrim cs args)
  | "toLower" => some (sToLower cs args)
  | "toUpper" => some (sToUpper cs args)
  | "contains" => some (sContains cs args)
  | "indexOf" => some (sIndexOf cs args)
  | "split" => some (sSplit cs args)
  | "cut" => some (sCut cs args)
  | "replace" => some (sReplace cs args)
  | "toInt" => some (sToInt cs args)
  | "toFloat" => some (sToFloat cs args)
  | _ => none

/-! ## static functions (`value.New`) -/

def int64Min : Int := -9223372036854775808

/-- two's complement view for `binAnd`/`binOr` -/
def toBV (i : Int) : BitVec 64 := BitVec.ofInt 64 i

/-- float → int conversion inside the range where Go's `int(f)` is defined (truncation) -/
def truncToInt (f : Float) : R Val :=
  if f.abs < 9.0e18 then .ok (.int (f.toInt64.toInt)) else .unmodelled

def fThrow : List Val → R SV
  | _ => .err
def fString (ap : Apply) (k : Nat) : List Val → R SV
  | [v] => liftV (do let t ← toStr ap k v; pure (.str t))
  | _ => .err
def fIsFloat : List Val → R SV
  | [.flt _] => okVal (.bool true)
  | [_] => okVal (.bool false)
  | _ => .err
def fIsInt : List Val → R SV
  | [.int _] => okVal (.bool true)
  | [_] => okVal (.bool false)
  | _ => .err
def fFloat : List Val → R SV
  | [.int i] => okVal (.flt (Float.ofInt i))
  | [.flt f] => okVal (.flt f)
  | _ => .err
def fInt : List Val → R SV
  | [.int i] => okVal (.int i)
  | [.flt f] => liftV (truncToInt f)
  | _ => .err
/-- `abs`: the absolute value; `abs(minInt64) = minInt64` (two's complement) -/
def fAbs : List Val → R SV
  | [.int i] => okVal (.int (if i = int64Min then int64Min else (i.natAbs : Int)))
  | [.flt f] => okVal (.flt f.abs)
  | _ => .err
def fSign : List Val → R SV
  | [.int i] => okVal (.int i.sign)
  | [.flt f] => okVal (.flt (if f < 0 then -1 else if f == 0 then 0 else 1))
  | _ => .err
def fSqr : List Val → R SV
  | [.int i] => okVal (.int (wrap64 (i * i)))
  | [.flt f] => okVal (.flt (f * f))
  | _ => .err
def fRound : List Val → R SV
  | [.int i] => okVal (.int i)
  | [.flt f] => liftV (truncToInt f.round)
  | _ => .err
def fBinAnd : List Val → R SV
  | [.int a, .int b] => okVal (.int (toBV a &&& toBV b).toInt)
  | _ => .err
def fBinOr : List Val → R SV
  | [.int a, .int b] => okVal (.int (toBV a ||| toBV b).toInt)
  | _ => .err
def fNumbers : List Val → R SV
  | [.int n] => okStr (.ofList ((List.range n.toNat).map (fun (i : Nat) => Val.int (Int.ofNat i))))
  | _ => .err
def fGoto : List Val → R SV
  | [.int n] => okVal (.map [("state", .int n)])
  | _ => .err
def fSqrt : List Val → R SV
  | [v] => (match toFloat? v with
      | some f => if f >= 0 then okVal (.flt f.sqrt) else .err
      | none => .err)
  | _ => .err
def fFloor : List Val → R SV
  | [v] => (match toFloat? v with | some f => okVal (.flt f.floor) | none => .err)
  | _ => .err
def fCeil : List Val → R SV
  | [v] => (match toFloat? v with | some f => okVal (.flt f.ceil) | none => .err)
  | _ => .err
def fTrunc : List Val → R SV
  | [v] => (match toFloat? v with
      | some f => okVal (.flt (if f < 0 then f.ceil else f.floor)) | none => .err)
  | _ => .err
/-- `min(a, b, …)`; no argument at all is an error (the REPAIRED behaviour: the pinned commit
returned a nil value without an error) -/
def fMin : List Val → R SV
  | [] => .err
  | v :: vs => liftV (pickR (fun new m => valLess new m) v vs none)
def fMax : List Val → R SV
  | [] => .err
  | v :: vs => liftV (pickR (fun new m => valLess m new) v vs none)

def staticFn (ap : Apply) (k : Nat) (name : String) (args : List Val) : Option (R SV) :=
  match name with
  | "throw" => some (fThrow args)
  | "string" => some (fString ap k args)
  | "isFloat" => some (fIsFloat args)
  | "isInt" => some (fIsInt args)
  | "float" => some (fFloat args)
  | "int" => some (fInt args)
  | "abs" => some (fAbs args)
  | "sign" => some (fSign args)
  | "sqr" => some (fSqr args)
  | "round" => some (fRound args)
  | "binAnd" => some (fBinAnd args)
  | "binOr" => some (fBinOr args)
  | "numbers" => some (fNumbers args)
  | "goto" => some (fGoto args)
  | "sqrt" => some (fSqrt args)
  | "floor" => some (fFloor args)
  | "ceil" => some (fCeil args)
  | "trunc" => some (fTrunc args)
  | "min" => some (fMin args)
  | "max" => some (fMax args)
  | _ => none

/-! ## other methods -/

def otherMethod (ap : Apply) (k : Nat) (name : String) (recv : Val) (args : List Val) : Option (R SV) :=
  match name, recv, args with
  | "string", .int i, [] => some (okVal (.str (toString i)))
  | "string", .bool b, [] => some (okVal (.str (if b then "true" else "false")))
  | "args", v, [] => (v.closArity).map (fun n => okVal (.int n))
  | "invoke", v, [.list l] =>
      (v.closArity).map (fun n => liftV (do
        let xs ← (drain ap k l).all
        if xs.length ≠ n then .err else ap v xs))
  | "invoke", v, [_] => (v.closArity).map (fun _ => .err)
  | _, _, _ => none

/-- receiver type name of a spec value -/
def SV.typeName : SV → String
  | .val v => P2.Lang.typeName v
  | .str _ => "list"

/-- dispatch on the receiver. `none`: the built-in is not covered by the spec. -/
def method (ap : Apply) (k : Nat) (name : String) (recv : SV) (args : List Val) : Option (R SV) :=
  match recv with
  | .str s => listMethod ap k name s args
  | .val (.list l) => listMethod ap k name (drain ap k l) args
  | .val (.map kvs) => mapMethod ap k name kvs args
  | .val (.str s) => stringMethod name s args
  | .val v => otherMethod ap k name v args

/-! ## coverage tables (Tie 1: `Oblig/LibCovered.lean` compares them with today's `value.New()`) -/

/-- covered methods: (receiver type, name, declared `Args` incl. the receiver; −1 variadic) -/
def covered : List (String × String × Int) :=
  [("list", "accept", 2), ("list", "map", 2), ("list", "reduce", 2), ("list", "sum", 1),
   ("list", "mapReduce", 3), ("list", "visit", 3), ("list", "mean", 1), ("list", "min", 1), ("list", "max", 1),
   ("list", "minMax", 2), ("list", "replaceList", 2), ("list", "combine", 2), ("list", "combine3", 2),
   ("list", "combineN", 3), ("list", "indexWhere", 2), ("list", "present", 2),
   ("list", "groupByString", 2), ("list", "groupByInt", 2), ("list", "groupByEqual", 2),
   ("list", "uniqueString", 2), ("list", "uniqueInt", 2), ("list", "compact", 2), ("list", "cross", 3),
   ("list", "merge", 3), ("list", "order", 2), ("list", "orderRev", 2), ("list", "orderLess", 2),
   ("list", "reverse", 1), ("list", "append", 2), ("list", "iir", 3), ("list", "iirCombine", 3),
   ("list", "iirApply", 2), ("list", "fsm", 2), ("list", "top", 2), ("list", "skip", 2), ("list", "number", 2), ("list", "set", 3),
   ("list", "size", 1), ("list", "first", 1), ("list", "single", 1), ("list", "last", 1),
   ("list", "eval", 1), ("list", "string", 1), ("list", "movingWindow", 2), ("list", "movingWindowRemove", 2),
   ("map", "get", 2), ("map", "put", 3), ("map", "size", 1), ("map", "isAvail", -1), ("map", "map", 2),
   ("map", "accept", 2), ("map", "replaceMap", 2), ("map", "replace", 2), ("map", "combine", 3),
   ("map", "list", 1), ("map", "string", 1), ("map", "eval", 1),
   ("string", "len", 1), ("string", "string", 1), ("string", "trim", 1), ("string", "toLower", 1),
   ("string", "toUpper", 1), ("string", "contains", 2), ("string", "indexOf", 2), ("string", "split", 2),
   ("string", "cut", 3), ("string", "replace", 3), ("string", "toInt", 1), ("string", "toFloat", 1),
   ("int", "string", 1), ("bool", "string", 1), ("closure", "args", 1), ("closure", "invoke", 2),
   -- specified in `Spec/LibSpecExt.lean` (dispatch: `methodX`)
   ("string", "behind", 2), ("string", "behindList", 2), ("list", "multiUse", 2),
   ("list", "linearReg", 3), ("list", "createInterpolation", 3), ("float", "string", 1)]

/-- methods outside the spec (exercised only for "returns ok or err, never crashes"); the binning
methods have a model of their own (`P2.Binning`, property C20) -/
def unmodelledMethods : List (String × String) :=
  [("list", "binning"), ("list", "binning2d"), ("list", "collectBinning")]

/-- covered static functions: (name, `Args`; −1 variadic) -/
def coveredStatics : List (String × Int) :=
  [("throw", 1), ("string", 1), ("isFloat", 1), ("isInt", 1), ("float", 1), ("int", 1), ("abs", 1),
   ("sign", 1), ("sqr", 1), ("round", 1), ("binAnd", 2), ("binOr", 2), ("numbers", 1), ("goto", 1),
   ("sqrt", 1), ("floor", 1), ("ceil", 1), ("trunc", 1), ("min", -1), ("max", -1),
   -- specified in `Spec/LibSpecExt.lean` (dispatch: `staticFnX`)
   ("bisection", -1), ("createLowPass", 4)]

def unmodelledStatics : List String :=
  ["sin", "cos", "tan", "asin", "acos", "atan", "exp", "ln", "log10", "sprintf", "random",
   "randomConst"]

def isCovered (ty name : String) : Bool := covered.any (fun e => e.1 == ty && e.2.1 == name)
def isCoveredStatic (name : String) : Bool := coveredStatics.any (fun e => e.1 == name)

end P2.LibSpec
