/-! Reference spec for C13: a finite map from strings to values, represented as a duplicate-free
association list; two such lists denote the same finite map iff they answer every `lookup` alike, which
(for duplicate-free lists) is the same as being permutations of each other (`equiv_iff_perm`, proved in
`P2/Proofs/FMap.lean`). Core Lean only. -/
namespace P2.FMap

abbrev Entries (V : Type) := List (String × V)

variable {V W : Type}

/-- the value bound to `x` (first match) -/
def lookup : Entries V → String → Option V
  | [], _ => none
  | (k, v) :: rest, x => if k = x then some v else lookup rest x

def keys (es : Entries V) : List String := es.map (·.1)

/-- a well-formed finite map: no key twice -/
def Valid (es : Entries V) : Prop := (keys es).Nodup

instance (es : Entries V) : Decidable (Valid es) := inferInstanceAs (Decidable (keys es).Nodup)

/-- same finite map: every key has the same binding -/
def Equiv (a b : Entries V) : Prop := ∀ k, lookup a k = lookup b k

/-! ### the abstract operations (what `put`, `+`, `replace`, `map`, `accept`, `combine` have to compute) -/

/-- `put`: insert if absent, else fail -/
def insert (m : Entries V) (k : String) (v : V) : Option (Entries V) :=
  match lookup m k with
  | some _ => none
  | none => some ((k, v) :: m)

/-- `+`: union of maps with disjoint key sets, else fail -/
def union (a b : Entries V) : Option (Entries V) :=
  if (keys b).any (fun k => (lookup a k).isSome) then none else some (a ++ b)

/-- `replace`: the bindings of `a`, each key of `a` that `r` also binds now bound to `r`'s value; the
key set is that of `a` -/
def update (a r : Entries V) : Entries V :=
  a.map fun e => (e.1, (lookup r e.1).getD e.2)

/-- `map`: same keys, values through `f`; fails if `f` fails anywhere -/
def mapVals (f : String → V → Option W) : Entries V → Option (Entries W)
  | [] => some []
  | (k, v) :: rest =>
    match f k v, mapVals f rest with
    | some w, some t => some ((k, w) :: t)
    | _, _ => none

/-- `accept`: the bindings satisfying `p`; fails if `p` fails anywhere -/
def filter (p : String → V → Option Bool) : Entries V → Option (Entries V)
  | [] => some []
  | (k, v) :: rest =>
    match p k v, filter p rest with
    | some true, some t => some ((k, v) :: t)
    | some false, some t => some t
    | _, _ => none

/-- `combine`: same keys as `a`, values `f (a k) (b k)`; fails if a key of `a` is missing in `b` or `f`
fails anywhere -/
def combine (f : V → V → Option V) (a b : Entries V) : Option (Entries V) :=
  mapVals (fun k v => match lookup b k with | some o => f v o | none => none) a

/-- map equality with an element comparison that may fail (`none`): "is certainly equal" -/
def EqTrue (eq : V → V → Option Bool) (a b : Entries V) : Prop :=
  a.length = b.length ∧ ∀ k v, (k, v) ∈ a → ∃ o, lookup b k = some o ∧ eq o v = some true

end P2.FMap
