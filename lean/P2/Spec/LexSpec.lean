import P2.Model.Lex
/-! Reference scanner (C04 / C15): what the repaired `token.go` computes, written as structural
functions on the remaining rune list — no cache (`isLast/last/lastStr`), no fuel, no slices.
`P2.Lex.tokenize_refines` proves that the state-faithful model `P2.Lex.tokenize` (with
`pinned = false`) returns exactly `Spec.tokenize`; the C15 theorems are proved here and transferred. -/
namespace P2.Lex.Spec
open P2.Lex

/-- where the comment skipper of `peek` is -/
inductive CM where
  | code | line | block
  deriving Repr, DecidableEq

/-- Comment skipping of `peek` in the mode `betweenTokens` (comments enabled): the input from the first
    rune outside a comment together with the line there; `none`: the input ends first (`return EOF`). -/
def skipC : CM → List Char → Nat → Option (List Char × Nat)
  | .code, [], _ => none
  | .code, [c], line => some ([c], line)
  | .code, c :: d :: r, line =>
    if c = '/' then
      if d = '/' then skipC .line r line
      else if d = '*' then skipC .block r line
      else some (c :: d :: r, line)
    else some (c :: d :: r, line)
  | .line, [], _ => none
  | .line, c :: rest, line =>
    if c = '\n' ∨ c = '\r' then some (c :: rest, line) else skipC .line rest line
  | .block, [], _ => none
  | .block, [_], _ => none
  | .block, c :: d :: r, line =>
    if c = '*' then
      if d = '/' then skipC .code r line else skipC .block (d :: r) line
    else skipC .block (d :: r) (if c = '\n' then line + 1 else line)

def skipCode (cfg : Cfg) (str : List Char) (line : Nat) : Option (List Char × Nat) :=
  if cfg.comments then skipC .code str line
  else match str with
    | [] => none
    | _ :: _ => some (str, line)

/-- `readSkip`: the longest prefix of runes (after `al`) accepted by `valid`, and the rest -/
def readWhileS (al : Char → Char) (valid : Char → Char → Bool) : Char → List Char → List Char × List Char
  | _, [] => ([], [])
  | prev, c :: rest =>
    if al c ≠ EOF ∧ valid prev (al c) = true then
      let p := readWhileS al valid (al c) rest
      (al c :: p.1, p.2)
    else ([], c :: rest)

/-- `readStr` after the opening quote -/
def readStrS (tb : Tables) : List Char → List Char → (Kind × List Char) × List Char
  | [], _ => ((.invalid, eolImage), [])
  | c :: rest, acc =>
    if c = '"' then ((.string, acc), rest)
    else if tb.strEnd.contains c then ((.invalid, eolImage), rest)
    else if c = '\\' then
      match rest with
      | [] => ((.invalid, eolImage), [])
      | i :: r =>
        match tb.escapes.lookup i with
        | some d => readStrS tb r (acc ++ [d])
        | none => readStrS tb r (acc ++ ['\\', i])
    else readStrS tb rest (acc ++ [c])

/-- the loop of `parseOperator`: longest walk through the detector -/
def opWalkS (cfg : Cfg) : List Char → List Char → (List Char × Bool) × List Char
  | op, [] => ((op, member cfg op), [])
  | op, c :: rest =>
    if extends_ cfg (op ++ [alias cfg.tables c]) then opWalkS cfg (op ++ [alias cfg.tables c]) rest
    else ((op, member cfg op), c :: rest)

/-- outcome of one iteration of the `for` loop of `run` -/
inductive Step where
  | eof
  | emit (toks : List Token) (str : List Char) (line : Nat) (rs : RunSt)
  deriving Repr

def openStar (rs : RunSt) (line : Nat) : List Token :=
  if rs.lastType = .number ∨ rs.lastType = .close ∨ (rs.lastType = .ident ∧ rs.lastBlank = true)
  then [starTok line] else []

def juxtaStar (rs : RunSt) (line : Nat) : List Token := if juxta rs then [starTok line] else []

/-- the `default` case of `run`'s switch: number, identifier (keyword, text operator) or operator;
    `n` is the rune after the alias switch, `c0 :: rest` the input from that rune -/
def stepDefault (cfg : Cfg) (n c0 : Char) (rest : List Char) (line : Nat) (rs : RunSt) : Step :=
  if numberStart cfg n then
    .emit (juxtaStar rs line ++ [⟨.number, (readWhileS (alias cfg.tables) (numberNext cfg) EOF (c0 :: rest)).1, line⟩])
      (readWhileS (alias cfg.tables) (numberNext cfg) EOF (c0 :: rest)).2 line ⟨comfortType cfg .number, false⟩
  else if identStart cfg n then
    match cfg.textOps.lookup (readWhileS (alias cfg.tables) (identNext cfg) EOF (c0 :: rest)).1 with
    | some o => .emit [⟨.operate, o, line⟩] (readWhileS (alias cfg.tables) (identNext cfg) EOF (c0 :: rest)).2 line ⟨.invalid, false⟩
    | none =>
      if cfg.keywords.contains (readWhileS (alias cfg.tables) (identNext cfg) EOF (c0 :: rest)).1 then
        .emit [⟨.keyword, (readWhileS (alias cfg.tables) (identNext cfg) EOF (c0 :: rest)).1, line⟩]
          (readWhileS (alias cfg.tables) (identNext cfg) EOF (c0 :: rest)).2 line ⟨.invalid, false⟩
      else
        .emit (juxtaStar rs line ++ [⟨.ident, (readWhileS (alias cfg.tables) (identNext cfg) EOF (c0 :: rest)).1, line⟩])
          (readWhileS (alias cfg.tables) (identNext cfg) EOF (c0 :: rest)).2 line ⟨comfortType cfg .ident, false⟩
  else if extends_ cfg [n] then
    .emit [⟨if (opWalkS cfg [n] rest).1.2 then .operate else .invalid, (opWalkS cfg [n] rest).1.1, line⟩]
      (opWalkS cfg [n] rest).2 line ⟨.invalid, false⟩
  else .emit [⟨.invalid, [n], line⟩] rest line ⟨.invalid, false⟩

/-- the switch of `run` on the rune `n` (after the alias switch); `c0 :: rest` is the input from that rune -/
def stepAt (cfg : Cfg) (n c0 : Char) (rest : List Char) (line : Nat) (rs : RunSt) : Step :=
  if n = '\n' then .emit [] rest (line + 1) { rs with lastBlank := true }
  else if n = ' ' ∨ n = '\r' ∨ n = '\t' then .emit [] rest line { rs with lastBlank := true }
  else if n = EOF then .eof
  else if n = '(' then .emit (openStar rs line ++ [⟨.open_, ['('], line⟩]) rest line ⟨.invalid, false⟩
  else if n = '"' then
    .emit [⟨(readStrS cfg.tables rest []).1.1, (readStrS cfg.tables rest []).1.2, line⟩]
      (readStrS cfg.tables rest []).2 line ⟨.invalid, false⟩
  else if n = '\'' then
    .emit [⟨.ident, (readWhileS id (fun _ c => c != '\'') EOF rest).1, line⟩]
      ((readWhileS id (fun _ c => c != '\'') EOF rest).2.drop 1) line ⟨.invalid, false⟩
  else match cfg.tables.emit.lookup n with
  | some (toks, k) => .emit (toks.map fun (kd, im) => ⟨kd, im, line⟩) rest line ⟨comfortType cfg k, false⟩
  | none => stepDefault cfg n c0 rest line rs

/-- one iteration of the `for` loop of `run` -/
def step (cfg : Cfg) (str : List Char) (line : Nat) (rs : RunSt) : Step :=
  match skipCode cfg str line with
  | none => .eof
  | some ([], _) => .eof
  | some (c0 :: rest, line) => stepAt cfg (alias cfg.tables c0) c0 rest line rs

/-- The reference scanner. Every iteration consumes a rune (`step_decreases`, for well-formed tables);
    the `else` branch is never taken then. -/
def run (cfg : Cfg) (str : List Char) (line : Nat) (rs : RunSt) : List Token :=
  match step cfg str line rs with
  | .eof => []
  | .emit toks s l r =>
    if s.length < str.length then toks ++ run cfg s l r else toks
termination_by str.length

def tokenize (cfg : Cfg) (src : List Char) : List Token := run cfg src 1 initRun

end P2.Lex.Spec
