import P2.Model.Basic
/-! Reference XML token decoder (C18): a character-by-character state machine for the subset of XML 1.0
that an element/attribute/character-data writer can emit.

* start tags with attributes (`"` or `'` delimited), empty-element tags, end tags, character data;
* the five predefined entities and decimal / hexadecimal character references (which must denote a
  legal XML character);
* XML 1.0 §2.11 line-end normalisation (a literal CR LF pair or a lone CR becomes LF) and §3.3.3
  attribute-value normalisation (a literal TAB, LF, CR becomes a blank; CR LF becomes one blank) —
  character references are *not* normalised, which is why CR (and TAB/LF inside attribute values)
  survive only when written as references;
* every literal character must match the `Char` production.

Deliberately **stricter** than XML 1.0 (so "accepted here" implies "well-formed there"):
comments, processing instructions, CDATA sections and DOCTYPE (`<!`, `<?`) are rejected — the writer never
emits them, so any occurrence would be injected; a literal `>` in character data is rejected outright (XML
forbids it only in `]]>`); no white space around `=`; entity references other than the five predefined
ones are rejected. The XML declaration in front of a document is handled by `skipDecl`. -/
namespace P2.Xml

def inR (n lo hi : Nat) : Bool := Nat.ble lo n && Nat.ble n hi

/-- XML 1.0 production [2] Char -/
def isXmlChar (c : Char) : Bool :=
  let n := c.toNat
  n == 9 || n == 10 || n == 13 || inR n 0x20 0xD7FF || inR n 0xE000 0xFFFD || inR n 0x10000 0x10FFFF

/-- production [4] NameStartChar (fifth edition) -/
def isNameStart (c : Char) : Bool :=
  let n := c.toNat
  n == 58 || inR n 65 90 || n == 95 || inR n 97 122 || inR n 0xC0 0xD6 || inR n 0xD8 0xF6 ||
  inR n 0xF8 0x2FF || inR n 0x370 0x37D || inR n 0x37F 0x1FFF || inR n 0x200C 0x200D ||
  inR n 0x2070 0x218F || inR n 0x2C00 0x2FEF || inR n 0x3001 0xD7FF || inR n 0xF900 0xFDCF ||
  inR n 0xFDF0 0xFFFD || inR n 0x10000 0xEFFFF

/-- production [4a] NameChar -/
def isNameChar (c : Char) : Bool :=
  let n := c.toNat
  isNameStart c || n == 45 || n == 46 || inR n 48 57 || n == 0xB7 || inR n 0x300 0x36F || inR n 0x203F 0x2040

/-- production [5] Name -/
def isXmlName : List Char → Bool
  | [] => false
  | c :: cs => isNameStart c && cs.all isNameChar

/-- production [3] S -/
def isSpace (c : Char) : Bool := c == ' ' || c == '\t' || c == '\n' || c == '\r'

abbrev Attrs := List (List Char × List Char)

inductive Tok where
  | start (name : List Char) (attrs : Attrs)
  | stop (name : List Char)
  | chr (c : Char)
  deriving DecidableEq, Repr, Inhabited

/-- a string as character tokens -/
def chrs (s : List Char) : List Tok := s.map .chr

/-! ### references -/

def decVal : List Char → Nat → Option Nat
  | [], acc => some acc
  | c :: cs, acc => if '0' ≤ c ∧ c ≤ '9' then decVal cs (acc * 10 + (c.toNat - 48)) else none

def hexVal : List Char → Nat → Option Nat
  | [], acc => some acc
  | c :: cs, acc => match hexDigitVal c with
    | some d => hexVal cs (acc * 16 + d)
    | none => none

def legalCode (n : Nat) : Option Char :=
  if n < 0x110000 && isXmlChar (Char.ofNat n) then some (Char.ofNat n) else none

/-- the text between `&` and `;` -/
def resolveRef : List Char → Option Char
  | ['l', 't'] => some '<'
  | ['g', 't'] => some '>'
  | ['a', 'm', 'p'] => some '&'
  | ['a', 'p', 'o', 's'] => some '\''
  | ['q', 'u', 'o', 't'] => some '"'
  | '#' :: 'x' :: d :: ds => (hexVal (d :: ds) 0).bind legalCode
  | '#' :: d :: ds => (decVal (d :: ds) 0).bind legalCode
  | _ => none

def isRefChar (c : Char) : Bool :=
  let n := c.toNat
  n == 35 || inR n 48 57 || inR n 65 90 || inR n 97 122

/-! ### the machine -/

/-- inside an attribute value -/
inductive AV where
  /-- `acc`: the normalised value so far; `cr`: the previous character was a literal CR -/
  | plain (acc : List Char) (cr : Bool)
  /-- inside a reference, after `&` -/
  | ref (acc : List Char) (racc : List Char)
  deriving DecidableEq, Repr, Inhabited

/-- one character of an attribute value (the closing quote is handled by `step`) -/
def avStep : AV → Char → Option AV
  | .plain acc cr, c =>
    if c = '<' then none
    else if c = '&' then some (.ref acc [])
    else if c = '\r' then some (.plain (acc ++ [' ']) true)
    else if c = '\n' then (if cr then some (.plain acc false) else some (.plain (acc ++ [' ']) false))
    else if c = '\t' then some (.plain (acc ++ [' ']) false)
    else if isXmlChar c then some (.plain (acc ++ [c]) false)
    else none
  | .ref acc racc, c =>
    if c = ';' then
      match resolveRef racc with
      | some r => some (.plain (acc ++ [r]) false)
      | none => none
    else if isRefChar c then some (.ref acc (racc ++ [c]))
    else none

def avFeed : AV → List Char → Option AV
  | st, [] => some st
  | st, c :: cs =>
    match avStep st c with
    | none => none
    | some st' => avFeed st' cs

inductive Mode where
  /-- content; `cr`: the previous character was a literal CR -/
  | text (cr : Bool)
  /-- reference in content, after `&` -/
  | tref (acc : List Char)
  /-- after `<` -/
  | lt
  /-- name of a start tag -/
  | sname (acc : List Char)
  /-- inside a start tag after the name or after an attribute; `sp`: white space seen -/
  | intag (name : List Char) (attrs : Attrs) (sp : Bool)
  /-- attribute name -/
  | aname (name : List Char) (attrs : Attrs) (acc : List Char)
  /-- after `=` -/
  | aeq (name : List Char) (attrs : Attrs) (key : List Char)
  /-- attribute value delimited by `q` -/
  | aval (name : List Char) (attrs : Attrs) (key : List Char) (q : Char) (st : AV)
  /-- after `/` in a start tag -/
  | slash (name : List Char) (attrs : Attrs)
  /-- after `</` -/
  | lts
  /-- name of an end tag -/
  | ename (acc : List Char)
  /-- white space after the name of an end tag -/
  | etail (name : List Char)
  deriving DecidableEq, Repr, Inhabited

def step : Mode → Char → Option (Mode × List Tok)
  | .text cr, c =>
    if c = '<' then some (.lt, [])
    else if c = '&' then some (.tref [], [])
    else if c = '>' then none
    else if c = '\r' then some (.text true, [.chr '\n'])
    else if c = '\n' then (if cr then some (.text false, []) else some (.text false, [.chr '\n']))
    else if isXmlChar c then some (.text false, [.chr c])
    else none
  | .tref acc, c =>
    if c = ';' then
      match resolveRef acc with
      | some r => some (.text false, [.chr r])
      | none => none
    else if isRefChar c then some (.tref (acc ++ [c]), [])
    else none
  | .lt, c =>
    if c = '/' then some (.lts, [])
    else if isNameStart c then some (.sname [c], [])
    else none
  | .sname acc, c =>
    if isNameChar c then some (.sname (acc ++ [c]), [])
    else if isSpace c then some (.intag acc [] true, [])
    else if c = '>' then some (.text false, [.start acc []])
    else if c = '/' then some (.slash acc [], [])
    else none
  | .intag n as sp, c =>
    if isSpace c then some (.intag n as true, [])
    else if c = '>' then some (.text false, [.start n as])
    else if c = '/' then some (.slash n as, [])
    else if sp && isNameStart c then some (.aname n as [c], [])
    else none
  | .aname n as acc, c =>
    if isNameChar c then some (.aname n as (acc ++ [c]), [])
    else if c = '=' then some (.aeq n as acc, [])
    else none
  | .aeq n as k, c =>
    if c = '"' ∨ c = '\'' then some (.aval n as k c (.plain [] false), [])
    else none
  | .aval n as k q st, c =>
    if c = q then
      match st with
      | .plain acc _ => some (.intag n (as ++ [(k, acc)]) false, [])
      | .ref _ _ => none
    else
      match avStep st c with
      | some st' => some (.aval n as k q st', [])
      | none => none
  | .slash n as, c =>
    if c = '>' then some (.text false, [.start n as, .stop n]) else none
  | .lts, c =>
    if isNameStart c then some (.ename [c], []) else none
  | .ename acc, c =>
    if isNameChar c then some (.ename (acc ++ [c]), [])
    else if isSpace c then some (.etail acc, [])
    else if c = '>' then some (.text false, [.stop acc])
    else none
  | .etail n, c =>
    if isSpace c then some (.etail n, [])
    else if c = '>' then some (.text false, [.stop n])
    else none

/-- run the machine over a character sequence; `none`: not well-formed -/
def feed : Mode → List Char → Option (Mode × List Tok)
  | m, [] => some (m, [])
  | m, c :: cs =>
    match step m c with
    | none => none
    | some (m', o) =>
      match feed m' cs with
      | none => none
      | some (m'', o') => some (m'', o ++ o')

/-- token stream of a piece of content (must end outside of any tag or reference) -/
def tokens (s : List Char) : Option (List Tok) :=
  match feed (.text false) s with
  | some (.text _, toks) => some toks
  | _ => none

/-! ### well-formedness of a token stream -/

def noDupKeys : Attrs → Bool
  | [] => true
  | (k, _) :: rest => !(rest.any (fun kv => kv.1 == k)) && noDupKeys rest

/-- stack discipline: names are XML names, attribute names unique per element, every end tag closes
the innermost open element. Returns the elements still open. -/
def balance : List Tok → List (List Char) → Option (List (List Char))
  | [], st => some st
  | .start n as :: ts, st =>
    if isXmlName n && as.all (fun kv => isXmlName kv.1) && noDupKeys as then balance ts (n :: st) else none
  | .stop n :: ts, st =>
    match st with
    | m :: st' => if m = n then balance ts st' else none
    | [] => none
  | .chr _ :: ts, st => balance ts st

/-- well-formed *content* (production [43]): balanced -/
def wellFormed (toks : List Tok) : Bool := balance toks [] == some []

/-- number of top-level elements; `none` if there is non-blank character data at top level -/
def rootCount : List Tok → Nat → Option Nat
  | [], _ => some 0
  | .start _ _ :: ts, d => (rootCount ts (d + 1)).map (fun r => if d = 0 then r + 1 else r)
  | .stop _ :: ts, d => rootCount ts (d - 1)
  | .chr c :: ts, d => if d = 0 && !isSpace c then none else rootCount ts d

/-- well-formed *document* (production [1]): balanced, exactly one root element, only white space around it -/
def wellFormedDoc (toks : List Tok) : Bool := wellFormed toks && rootCount toks 0 == some 1

/-! ### XML declaration -/

def untilPIEnd : List Char → Option (List Char)
  | [] => none
  | '?' :: '>' :: r => some r
  | _ :: r => untilPIEnd r

/-- drop an XML declaration `<?xml … ?>` at the very beginning, if there is one -/
def skipDecl : List Char → Option (List Char)
  | '<' :: '?' :: 'x' :: 'm' :: 'l' :: ' ' :: r => untilPIEnd r
  | s => some s

def tokensDoc (s : List Char) : Option (List Tok) := (skipDecl s).bind tokens

/-! ### reading a token stream -/

/-- element/attribute skeleton: character data dropped, attribute values dropped -/
def skeleton : List Tok → List (Bool × List Char × List (List Char))
  | [] => []
  | .start n as :: ts => (true, n, as.map (·.1)) :: skeleton ts
  | .stop n :: ts => (false, n, []) :: skeleton ts
  | .chr _ :: ts => skeleton ts

end P2.Xml
