import P2.Model.Lang.Sem
import P2.Proofs.GenericOpt
/-! # C02 — constant folding is unobservable (value instantiation: facts about the operator table)

The generic rewriting theorem (`optimize_sound` under `Laws`, for every operator table) lives in
`P2.Generic` (`Props/C19.lean`). This file states what the *value* operator table has to satisfy and
proves it for the model's operators: the regrouping rules `(c₁∘x)∘c₂ → (c₁∘c₂)∘x` and
`(x∘c₁)∘c₂ → x∘(c₁∘c₂)` are only applied to operators flagged commutative, so every flagged operator
must satisfy both identities on all operands, failing ones included. `Oblig/ValueTables.lean` checks
(by `decide`, on the table regenerated from the live `value.New()`) that the flagged set is inside the
set proved lawful here. -/
namespace P2.C02
open P2.Lang

/-- operators for which the regrouping laws are proved below -/
def lawfulCommutative : List String := ["*"]

theorem wrap64_add_mul (x k : Int) : wrap64 (x + k * 18446744073709551616) = wrap64 x := by
  unfold wrap64
  have : x + k * 18446744073709551616 + 9223372036854775808 = (x + 9223372036854775808) + k * 18446744073709551616 := by omega
  rw [this, Int.add_mul_emod_self_right]

theorem wrap64_eq (x : Int) : ∃ q : Int, wrap64 x = x + q * 18446744073709551616 := by
  refine ⟨-((x + 9223372036854775808) / 18446744073709551616), ?_⟩
  unfold wrap64
  have := Int.emod_add_mul_ediv (x + 9223372036854775808) 18446744073709551616
  omega

theorem wrap64_mul_left (a b : Int) : wrap64 (wrap64 a * b) = wrap64 (a * b) := by
  obtain ⟨q, hq⟩ := wrap64_eq a
  rw [hq]
  have : (a + q * 18446744073709551616) * b = a * b + (q * b) * 18446744073709551616 := by
    rw [Int.add_mul, Int.mul_assoc, Int.mul_comm 18446744073709551616 b, ← Int.mul_assoc]
  rw [this, wrap64_add_mul]

theorem wrap64_mul_right (a b : Int) : wrap64 (a * wrap64 b) = wrap64 (a * b) := by
  rw [Int.mul_comm, wrap64_mul_left, Int.mul_comm]

/-- C02 law for `*` on integers, wrap-around included: both regroupings are exact. -/
theorem mul_regroup_left_int (c1 c2 x : Int) :
    wrap64 (wrap64 (c1 * x) * c2) = wrap64 (wrap64 (c1 * c2) * x) := by
  rw [wrap64_mul_left, wrap64_mul_left]
  congr 1
  rw [Int.mul_assoc, Int.mul_comm x c2, ← Int.mul_assoc]

theorem mul_regroup_right_int (c1 c2 x : Int) :
    wrap64 (wrap64 (x * c1) * c2) = wrap64 (x * wrap64 (c1 * c2)) := by
  rw [wrap64_mul_left, wrap64_mul_right, Int.mul_assoc]

/-- a non-numeric operand makes `*` fail in either grouping: errors are preserved by regrouping -/
theorem mul_err_of_nonnumeric (ap : Apply) (k : Nat) (a b : Val)
    (h : toFloat? a = none ∨ toFloat? b = none) : binop ap k "*" a b = .err := by
  rcases h with h | h
  · cases a <;> cases b <;> simp_all [binop, numOp, toFloat?]
  · cases a <;> cases b <;> simp_all [binop, numOp, toFloat?]

/-- The float part of the law holds only up to rounding (allowed by the property), and across the
int/float border only when the integer sub-product does not wrap: witness of finding
`regroup-mul-int-wrap-before-float`, on the model's own arithmetic (2 * 2^62 wraps to -2^63). -/
theorem mul_int_wrap_witness : wrap64 (2 * 4611686018427387904) = -9223372036854775808 := by decide

end P2.C02

/-! ## the value operator table restricted to integers, as an instance of the generic optimizer theorem -/
namespace P2.C02
open P2.Generic

/-- `value.New()`'s arithmetic on ints with wrap-around (`+ - *`), `*` flagged commutative as in
today's table; every other operator spelling is an error in this fragment -/
def intTable : Table Int where
  sem := fun o a b =>
    if o = "*" then some (P2.Lang.wrap64 (a * b))
    else if o = "+" then some (P2.Lang.wrap64 (a + b))
    else if o = "-" then some (P2.Lang.wrap64 (a - b))
    else none
  pure := fun _ => true
  comm := fun o => o = "*"
  usem := fun o a => if o = "-" then some (P2.Lang.wrap64 (-a)) else none
  fn := fun _ => none
  fpure := fun _ => false
  toBool := none

theorem intTable_laws : Laws intTable where
  left := by
    intro o ho c1 c2 co hco x
    have : o = "*" := by simpa [intTable] using ho
    subst this
    simp only [intTable, if_true, Option.some.injEq] at hco ⊢
    subst hco
    simp only [Option.bind_some, Option.some.injEq]
    exact mul_regroup_left_int c1 c2 x
  right := by
    intro o ho c1 c2 co hco x
    have : o = "*" := by simpa [intTable] using ho
    subst this
    simp only [intTable, if_true, Option.some.injEq] at hco ⊢
    subst hco
    simp only [Option.bind_some, Option.some.injEq]
    exact mul_regroup_right_int c1 c2 x

/-- C02.2 on the integer fragment of the value language: for every expression over `+ - *`, unary
minus, let and variables, with 64-bit wrap-around, the optimised tree (constant folding and the
regrouping of `*` chains) evaluates to exactly the same value or error as the original. -/
theorem int_optimize_sound (e : E Int) (env : Env Int) :
    eval intTable (optimize intTable e) env = eval intTable e env :=
  optimize_sound intTable intTable_laws e env

/-- non-vacuity: the optimizer really rewrites `(2 * a) * 3` to `6 * a` here -/
example : optimize intTable (.op "*" (.op "*" (.const 2) (.var "a")) (.const 3))
    = .op "*" (.const 6) (.var "a") := by
  simp [optimize, rule, intTable, P2.Lang.wrap64]

end P2.C02
