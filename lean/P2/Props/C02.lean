import P2.Model.Lang.Sem
/-! # C02 — constant folding is unobservable (value instantiation: facts about the operator table)

The generic rewriting theorem (`optimize_sound` under `Laws`, for every operator table) lives in
`P2.Generic` (`Props/C19.lean`). This file states what the *value* operator table has to satisfy and
proves it for the model's operators: the regrouping rules `(c₁∘x)∘c₂ → (c₁∘c₂)∘x` and
`(x∘c₁)∘c₂ → x∘(c₁∘c₂)` are only applied to operators flagged commutative, so every flagged operator
must satisfy both identities on all operands, failing ones included. `Oblig/ValueTables.lean` checks
(by `decide`, on the table regenerated from the live `value.New()`) that the flagged set is inside the
set proved lawful here. -/
namespace P2.C02
open P2.Lang

/-- operators for which the regrouping laws are proved below -/
def lawfulCommutative : List String := ["*"]

theorem wrap64_add_mul (x k : Int) : wrap64 (x + k * 18446744073709551616) = wrap64 x := by
  unfold wrap64
  have : x + k * 18446744073709551616 + 9223372036854775808 = (x + 9223372036854775808) + k * 18446744073709551616 := by omega
  rw [this, Int.add_mul_emod_self_right]

theorem wrap64_eq (x : Int) : ∃ q : Int, wrap64 x = x + q * 18446744073709551616 := by
  refine ⟨-((x + 9223372036854775808) / 18446744073709551616), ?_⟩
  unfold wrap64
  have := Int.emod_add_mul_ediv (x + 9223372036854775808) 18446744073709551616
  omega

theorem wrap64_mul_left (a b : Int) : wrap64 (wrap64 a * b) = wrap64 (a * b) := by
  obtain ⟨q, hq⟩ := wrap64_eq a
  rw [hq]
  have : (a + q * 18446744073709551616) * b = a * b + (q * b) * 18446744073709551616 := by
    rw [Int.add_mul, Int.mul_assoc, Int.mul_comm 18446744073709551616 b, ← Int.mul_assoc]
  rw [this, wrap64_add_mul]

theorem wrap64_mul_right (a b : Int) : wrap64 (a * wrap64 b) = wrap64 (a * b) := by
  rw [Int.mul_comm, wrap64_mul_left, Int.mul_comm]

/-- C02 law for `*` on integers, wrap-around included: both regroupings are exact. -/
theorem mul_regroup_left_int (c1 c2 x : Int) :
    wrap64 (wrap64 (c1 * x) * c2) = wrap64 (wrap64 (c1 * c2) * x) := by
  rw [wrap64_mul_left, wrap64_mul_left]
  congr 1
  rw [Int.mul_assoc, Int.mul_comm x c2, ← Int.mul_assoc]

theorem mul_regroup_right_int (c1 c2 x : Int) :
    wrap64 (wrap64 (x * c1) * c2) = wrap64 (x * wrap64 (c1 * c2)) := by
  rw [wrap64_mul_left, wrap64_mul_right, Int.mul_assoc]

/-- a non-numeric operand makes `*` fail in either grouping: errors are preserved by regrouping -/
theorem mul_err_of_nonnumeric (ap : Apply) (k : Nat) (a b : Val)
    (h : toFloat? a = none ∨ toFloat? b = none) : binop ap k "*" a b = .err := by
  rcases h with h | h
  · cases a <;> cases b <;> simp_all [binop, numOp, toFloat?]
  · cases a <;> cases b <;> simp_all [binop, numOp, toFloat?]

/-- The float part of the law holds only up to rounding (allowed by the property), and across the
int/float border only when the integer sub-product does not wrap: witness of finding
`regroup-mul-int-wrap-before-float`, on the model's own arithmetic (2 * 2^62 wraps to -2^63). -/
theorem mul_int_wrap_witness : wrap64 (2 * 4611686018427387904) = -9223372036854775808 := by decide

end P2.C02
