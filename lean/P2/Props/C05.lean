import P2.Model.Lang.Sem
/-! # C05 — no program can crash the host (model-level statements)

The runtime part of C05 (process death, goroutines, Go stack) is decided by the fault enumeration
in isolated workers (`tie C05`). What is logic is stated on the language model:
* the function returned by Generate maps every outcome of the compiled semantics to a value or an
  error (`evalTop_no_panic`);
* `try e catch h` hands control to `h` for EVERY fault of `e`, a run-time panic included
  (`try_catches`), in both semantics;
* the operators that panicked at the pinned commit (`%` by zero, negative shift counts, `!=` and the
  equality of `switch` on incomparable operands) answer `err` in the model of the repaired code, for
  all scalar operands (`former_panic_sites_are_errors`). -/
namespace P2.C05
open P2.Lang

/-- C05.1 (model): whatever the compiled code does, `Func.Eval` returns a value or an error —
never a panic (the remaining outcomes `fuel`/`unmodelled` are artefacts of the model, not of Go). -/
theorem evalTop_no_panic (M : Methods) (fuel : Nat) (code : Code) (args : List Val) :
    runCompiled M fuel code args ≠ .panic := by
  unfold runCompiled
  split <;> simp

/-- C05.2 (compiled semantics): if the try expression faults — ordinary error OR run-time panic —
and the catch part evaluates to a value that is not a one-argument closure, that value is the result. -/
theorem try_catches_compiled (M : Methods) (n : Nat) (t c : Code) (st : Stack) (cs : List Val)
    (cv : Val) (d : List Val)
    (hfault : exec M n t st cs = .err ∨ exec M n t st cs = .panic)
    (hc : exec M n c st cs = .ok (cv, d)) (hv : cv.closArity ≠ some 1) :
    exec M (n+1) (.tryE t c) st cs = .ok (cv, d) := by
  rcases hfault with h | h <;> simp only [exec, h, hc, R.bind_ok] <;>
    (cases cv <;> simp_all [Val.closArity] <;> (split <;> simp_all))

/-- … and if it evaluates to a one-argument closure, the closure is called (with the error text) -/
theorem try_catches_compiled_handler (M : Methods) (n : Nat) (t c : Code) (st : Stack) (cs : List Val)
    (body : Code) (ctx : List Val) (r : Bool) (d : List Val)
    (hfault : exec M n t st cs = .err ∨ exec M n t st cs = .panic)
    (hc : exec M n c st cs = .ok (.rclos 1 body ctx r, d)) :
    exec M (n+1) (.tryE t c) st cs =
      (applyR M n (.rclos 1 body ctx r) [.str "<error>"]) >>= fun v => pure (v, d) := by
  rcases hfault with h | h <;> simp [exec, h, hc]

/-- C05.2 (reference semantics) -/
theorem try_catches_reference (S : Statics) (M : Methods) (n : Nat) (t c : AST) (env : Env) (cv : Val)
    (hfault : eval S M n t env = .err ∨ eval S M n t env = .panic)
    (hc : eval S M n c env = .ok cv) (hv : cv.closArity ≠ some 1) :
    eval S M (n+1) (.tryE t c) env = .ok cv := by
  rcases hfault with h | h <;> simp only [eval, h, hc, R.bind_ok] <;>
    (cases cv <;> simp_all [Val.closArity] <;> (split <;> simp_all))

/-- and a successful try expression is returned unchanged -/
theorem try_ok_compiled (M : Methods) (n : Nat) (t c : Code) (st : Stack) (cs : List Val) (r : Val × List Val)
    (h : exec M n t st cs = .ok r) : exec M (n+1) (.tryE t c) st cs = .ok r := by
  simp [exec, h]

/-- the former panic sites: modulo by zero and negative shift counts are errors for all ints -/
theorem former_panic_sites_are_errors (ap : Apply) (k : Nat) (x y : Int) :
    binop ap k "%" (.int x) (.int 0) = .err ∧
    (y < 0 → binop ap k "<<" (.int x) (.int y) = .err) ∧
    (y < 0 → binop ap k ">>" (.int x) (.int y) = .err) := by
  refine ⟨by simp [binop], fun h => by simp [binop, h], fun h => by simp [binop, h]⟩

/-- comparing a number with a string is an error for `!=` (it panicked at the pinned commit) -/
theorem neq_incomparable_is_error (ap : Apply) (k : Nat) (i : Int) (s : String) :
    binop ap (k+1) "!=" (.int i) (.str s) = .err := by
  simp [binop, valEq]

end P2.C05
