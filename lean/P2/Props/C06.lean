import P2.Proofs.Reorder
import P2.Model.Interleave
/-! # C06 — lazy list pipelines give the sequential result under every parallel schedule

What is logic in C06 is proved here; data-race freedom and real scheduling are decided by the `-race`
worker of `tie C06`.

* `collector_in_order` — the collector of `iterator.initParallel/MapParallel` (`nextOut`, the buffer
  map, the drain loop) hands the worker results on in index order for EVERY arrival order.
* `stack_noninterference` — threads are sequences of writes/reads on (storage, slot); if the other
  thread never touches a storage of thread A then under EVERY interleaving A reads exactly what it
  reads when run alone. `Oblig/Stages.lean` checks, on the table regenerated from `value/*.go`, that
  every goroutine-spawning stage hands its source producers a fresh stack — the premise of this theorem.
* `shared_storage_witness` — with one shared storage a bad interleaving exists (the shape of the
  defect B6 of the pinned commit, repaired by a `fix:` commit). -/
namespace P2.C06

/-- C06.1: for every start index, every `n` and every permutation `is` of the indices
`start .. start+n-1` in which the worker results arrive, the collector yields the values in index
order. -/
theorem collector_in_order {α : Type} (start n : Nat) (vals : Nat → α) (is : List Nat)
    (hperm : is.Perm (List.range' start n)) :
    P2.Reorder.collect start (is.map fun i => (i, vals i)) = (List.range' start n).map vals :=
  P2.Reorder.collector_in_order start n vals is hperm

/-- non-vacuity: a concrete arrival order -/
example : P2.Reorder.collect 12 ([14, 12, 13].map fun i => (i, i * 10)) = [120, 130, 140] := by decide

/-- C06.3: no interference under every schedule when the storages are disjoint -/
theorem stack_noninterference (S : Nat → Prop) (sch : List Bool) (as bs : List P2.Inter.Act)
    (x y : P2.Inter.Stores) (ha : ∀ a ∈ as, S a.sid) (hb : ∀ b ∈ bs, ¬ S b.sid) (h : P2.Inter.Agree S x y) :
    (P2.Inter.runBoth x as bs sch).2.1 = (P2.Inter.runAlone y as).2 :=
  P2.Inter.noninterference S sch as bs x y ha hb h

/-- the pinned commit: upstream and downstream closures of a parallel stage pushed on ONE storage;
a schedule exists under which a callee reads a foreign argument -/
theorem shared_storage_witness :
    (P2.Inter.runBoth (fun _ _ => 0) P2.Inter.tA P2.Inter.tB [true, true, false]).2.1
      ≠ (P2.Inter.runAlone (fun _ _ => 0) P2.Inter.tA).2 := by
  simp [P2.Inter.runBoth, P2.Inter.runAlone, P2.Inter.stepAct, P2.Inter.tA, P2.Inter.tB]

/-- combinators of the external iterator library that start goroutines -/
def spawning : List String := ["MapAuto", "FilterAuto", "MapParallel", "FilterParallel", "Merge", "ToChan", "MergeElements", "Equals"]

/-- combinators the models know (sequential ones are interpreted by `P2.Iter`/`P2.Lang`) -/
def knownCombinators : List String :=
  spawning ++ ["Cross", "Combine", "Combine3", "CombineN", "IirMap", "FirstN", "Skip", "Reduce", "MapReduce",
    "CopyProducer", "Empty", "Append", "Generate", "Map", "Filter", "Single", "Slice", "First", "ToSlice"]

/-- the decidable premise checked on the regenerated stage table -/
def StagesOK (sites : List (String × String × List String)) : Bool :=
  sites.all fun s =>
    knownCombinators.contains s.2.1 &&
    (!spawning.contains s.2.1 || (!s.2.2.isEmpty && s.2.2.all (· == "fresh")))

/-- the table of the pinned commit fails the premise (Map, Accept, Merge handed `st` upstream) -/
theorem pinned_stages_not_ok :
    StagesOK [("Accept", "FilterAuto", ["st"]), ("Map", "MapAuto", ["st"]), ("Merge", "Merge", ["st", "st"])] = false := by decide

end P2.C06
