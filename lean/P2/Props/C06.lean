import P2.Proofs.Reorder
import P2.Proofs.ParStage
import P2.Model.Interleave
/-! # C06 — lazy list pipelines give the sequential result under every parallel schedule

What is logic in C06 is proved here; data-race freedom and real scheduling are decided by the `-race`
worker of `tie C06`.

* `collector_in_order` — the collector of `iterator.initParallel/MapParallel` (`nextOut`, the buffer
  map, the drain loop) hands the worker results on in index order for EVERY arrival order.
* `parallel_prefix`, `parallel_eq_sequential` — the data-carrying process model of a parallel
  `map`/`accept` stage (`P2.ParStage`: main loop, workers holding results, collector, the consumer wrapper
  of `autoParallelStage` with `stopped`/dropped items): under EVERY schedule of dispatches and arrivals
  the downstream consumer has received a prefix of what the sequential stage hands it, and exactly the
  sequential result (values, the error and its position, the stop point) once the stage is over.
  `pinned_sticky_error_differs`: the collector as driven before the repair d35d227 (workers returned
  errors, the collector kept the first one that ARRIVED) fails this on a three-element source.
* `stack_noninterference` — threads are sequences of writes/reads on (storage, slot); if the other
  thread never touches a storage of thread A then under EVERY interleaving A reads exactly what it
  reads when run alone. `Oblig/Stages.lean` checks, on the table regenerated from `value/*.go`, that
  every goroutine-spawning stage hands its source producers a fresh stack — the premise of this theorem.
* `shared_storage_witness` — with one shared storage a bad interleaving exists (the shape of the
  defect B6 of the pinned commit, repaired by a `fix:` commit). -/
namespace P2.C06

/-- C06.1: for every start index, every `n` and every permutation `is` of the indices
`start .. start+n-1` in which the worker results arrive, the collector yields the values in index
order. -/
theorem collector_in_order {α : Type} (start n : Nat) (vals : Nat → α) (is : List Nat)
    (hperm : is.Perm (List.range' start n)) :
    P2.Reorder.collect start (is.map fun i => (i, vals i)) = (List.range' start n).map vals :=
  P2.Reorder.collector_in_order start n vals is hperm

/-- non-vacuity: a concrete arrival order -/
example : P2.Reorder.collect 12 ([14, 12, 13].map fun i => (i, i * 10)) = [120, 130, 140] := by decide

/-- C06.2 (safety, every reachable state of every schedule): what the downstream consumer has received
is what the sequential stage hands it for the first `nextOut` source items. -/
theorem parallel_prefix {α β : Type} (items : List α) (f : α → P2.ParStage.Out β)
    (more : List (P2.ParStage.Out β) → Bool) (workers : Nat) (s : P2.ParStage.St β)
    (h : P2.ParStage.Reach items f workers s) :
    s.c.nextOut ≤ items.length ∧
    P2.ParStage.delivered more s = P2.ParStage.seqRun more ((items.map f).take s.c.nextOut) := by
  have hJ := P2.ParStage.reach_J h
  refine ⟨Nat.le_trans (P2.ParStage.nextOut_le_next hJ) hJ.bound, ?_⟩
  unfold P2.ParStage.delivered P2.ParStage.seqRun
  rw [P2.ParStage.out_is_prefix hJ]

/-- C06.2: parallel = sequential. For every source, every (pure) worker function, every downstream
consumer (`more` decides after each delivery whether it wants more), every number of workers and EVERY
schedule: when the stage is over the consumer has received exactly what the sequential stage hands it —
the same values in the same order, the same error at the same position, the same stop point. -/
theorem parallel_eq_sequential {α β : Type} (items : List α) (f : α → P2.ParStage.Out β)
    (more : List (P2.ParStage.Out β) → Bool) (workers : Nat) (s : P2.ParStage.St β)
    (h : P2.ParStage.Reach items f workers s) (hfin : P2.ParStage.final items more s) :
    P2.ParStage.delivered more s = P2.ParStage.seqRun more (items.map f) := by
  have hJ := P2.ParStage.reach_J h
  obtain ⟨hfl, hend⟩ := hfin
  have hpre := (parallel_prefix items f more workers s h).2
  have hn := P2.ParStage.nextOut_eq_next hJ hfl
  rcases hend with hall | hstop
  · rw [hpre, hn, hall]
    have : (items.map f).take items.length = items.map f := by
      rw [List.take_of_length_le]; simp
    rw [this]
  · rw [hpre] at hstop ⊢
    exact (P2.ParStage.seqRun_take_stopped more (items.map f) _ hstop).symm

/-- C06.2 (the schedule always ends): every step of the stage uses up a bounded resource, so no run of
dispatches and arrivals is longer than `2 * items.length`, whatever the schedule -/
theorem parallel_terminates {α β : Type} (items : List α) (f : α → P2.ParStage.Out β) (workers : Nat)
    (s s' : P2.ParStage.St β) (st : P2.ParStage.Step items f workers s s') :
    s'.measure items.length < s.measure items.length :=
  P2.ParStage.step_measure st

/-- C06.2 (no schedule gets stuck): a reachable state in which a result is still held by a worker or a
source item has not been handed out can always move -/
theorem parallel_no_deadlock {α β : Type} (items : List α) (f : α → P2.ParStage.Out β) (workers : Nat)
    (hw : 0 < workers) (s : P2.ParStage.St β) (h : P2.ParStage.Reach items f workers s)
    (hnot : ¬ (s.inflight = [] ∧ s.next = items.length)) :
    ∃ s', P2.ParStage.Step items f workers s s' :=
  P2.ParStage.progress hw s hnot (P2.ParStage.reach_J h).bound

section
open P2.ParStage
/-- non-vacuity: three items on three workers, the results arrive in the order 2, 0, 1; the state is
reachable and final, and the consumer (which stops after two deliveries) got items 0 and 1 -/
example : ∃ s : St Nat, Reach [10, 20, 30] (fun x => Out.val (x + 1)) 3 s ∧
    final [10, 20, 30] (fun d => decide (d.length < 2)) s ∧
    (delivered (fun d => decide (d.length < 2)) s).1 = [.val 11, .val 21] := by
  refine ⟨_, Reach.step (Reach.step (Reach.step (Reach.step (Reach.step (Reach.step Reach.init
    (Step.dispatch _ (by decide) (by decide))) (Step.dispatch _ (by decide) (by decide)))
    (Step.dispatch _ (by decide) (by decide))) (Step.arrive _ 2 (by decide))) (Step.arrive _ 0 (by decide)))
    (Step.arrive _ 1 (by decide)), ?_, ?_⟩
  · unfold final; decide
  · decide

/-- the collector as it was driven before the repair: the result of item 2 (an error) arrives first,
the consumer wanted two items only; it receives the error of item 2 in place of item 0 -/
theorem pinned_sticky_error_differs :
    (collectPinned [(2, Out.err "x"), (0, Out.val 0), (1, Out.val 1)]).foldl
        (emit fun d => decide (d.length < 2)) ([], false)
      ≠ seqRun (fun d => decide (d.length < 2)) [Out.val 0, Out.val 1, Out.err "x"] := by decide

/-- … while the repaired collector, fed the same arrivals, hands them on as they are -/
example : P2.Reorder.collect 0 [(2, Out.err "x"), (0, Out.val 0), (1, Out.val 1)] = [Out.val 0, Out.val 1, Out.err "x"] := by
  decide
end

/-- C06.3: no interference under every schedule when the storages are disjoint -/
theorem stack_noninterference (S : Nat → Prop) (sch : List Bool) (as bs : List P2.Inter.Act)
    (x y : P2.Inter.Stores) (ha : ∀ a ∈ as, S a.sid) (hb : ∀ b ∈ bs, ¬ S b.sid) (h : P2.Inter.Agree S x y) :
    (P2.Inter.runBoth x as bs sch).2.1 = (P2.Inter.runAlone y as).2 :=
  P2.Inter.noninterference S sch as bs x y ha hb h

/-- the pinned commit: upstream and downstream closures of a parallel stage pushed on ONE storage;
a schedule exists under which a callee reads a foreign argument -/
theorem shared_storage_witness :
    (P2.Inter.runBoth (fun _ _ => 0) P2.Inter.tA P2.Inter.tB [true, true, false]).2.1
      ≠ (P2.Inter.runAlone (fun _ _ => 0) P2.Inter.tA).2 := by
  simp [P2.Inter.runBoth, P2.Inter.runAlone, P2.Inter.stepAct, P2.Inter.tA, P2.Inter.tB]

/-- combinators of the external iterator library that start goroutines -/
def spawning : List String := ["MapAuto", "FilterAuto", "MapParallel", "FilterParallel", "Merge", "ToChan", "MergeElements", "Equals"]

/-- combinators the models know (sequential ones are interpreted by `P2.Iter`/`P2.Lang`) -/
def knownCombinators : List String :=
  spawning ++ ["Cross", "Combine", "Combine3", "CombineN", "IirMap", "FirstN", "Skip", "Reduce", "MapReduce",
    "CopyProducer", "Empty", "Append", "Generate", "Map", "Filter", "Single", "Slice", "First", "ToSlice"]

/-- the decidable premise checked on the regenerated stage table -/
def StagesOK (sites : List (String × String × List String)) : Bool :=
  sites.all fun s =>
    knownCombinators.contains s.2.1 &&
    (!spawning.contains s.2.1 || (!s.2.2.isEmpty && s.2.2.all (· == "fresh")))

/-- the table of the pinned commit fails the premise (Map, Accept, Merge handed `st` upstream) -/
theorem pinned_stages_not_ok :
    StagesOK [("Accept", "FilterAuto", ["st"]), ("Map", "MapAuto", ["st"]), ("Merge", "Merge", ["st", "st"])] = false := by decide

end P2.C06
