import P2.Proofs.IterDecide
/-!
# C08 — Laziness: short-circuit consumers demand only the prefix they need

Property (fixed text): *List stages are evaluated on demand: first, top(n), present, indexWhere,
single, membership (~) and multiUse consumers built from them pull at most the elements needed to
decide their result (plus a read-ahead of one element, or of the worker count once a stage runs in
parallel), so they terminate promptly on sources of 10^11 elements, do not evaluate closures for
elements behind the decisive one, and do not report errors that only such later elements would
raise. Building a pipeline (map, accept, skip, top, +, ...) without consuming it evaluates no element
closure at all.*

Model: `P2/Model/Iter.lean` (`feed`/`drive`/`run` over consumer frames, transliterated from
`github.com/hneemann/iterator` and `value/list.go`), spec side `P2/Spec/ListSpec.lean`.
All statements below are about the **sequential profile** (`MapAuto`/`FilterAuto` before their
timing-based switch). Theorem 6 of the design (read-ahead bound under a parallel schedule) needs the
schedule model of C06 and is *not* part of this file.
-/
namespace P2.C08
open P2 P2.Iter
variable {α τ : Type}

/-! ## 1. `drive_prefix` — nothing behind the deciding prefix matters -/

/-- For all frames, all terminal consumers and all source lists `xs ys`: if the chain answers anything
but "go on" while consuming `xs`, then driving `xs ++ ys` is driving `xs` — same result, same frame
states, same closure-call log, same number of elements pulled. -/
theorem drive_prefix (ft : FeedT α τ) (xs ys : List (Item α)) (s : St α τ)
    (h : (drive ft xs s).2 ≠ .more) : drive ft (xs ++ ys) s = drive ft xs s :=
  Iter.drive_prefix ft xs ys s h

/-- no closure is evaluated for, and no error can come from, anything behind the prefix: the suffix can
be replaced by any other one — longer, shorter, full of error items -/
theorem suffix_irrelevant (ft : FeedT α τ) (xs ys zs : List (Item α)) (s : St α τ)
    (h : (drive ft xs s).2 ≠ .more) : drive ft (xs ++ ys) s = drive ft (xs ++ zs) s := by
  rw [Iter.drive_prefix ft xs ys s h, Iter.drive_prefix ft xs zs s h]

/-- the source loop pulls exactly the prefix it fed (never more than the source holds) -/
theorem pulled_le (ft : FeedT α τ) (xs : List (Item α)) (s : St α τ) :
    (drive ft xs s).1.pulled ≤ s.pulled + xs.length := drive_pulled_le ft xs s

/-- non-vacuity: `map · first` over three values stops inside the one-element prefix;
the error item behind it is never seen -/
example : (drive feedTerm [.ok (1 : Int)] ⟨[.map 7 (fun v => .ok (v * 2))], .first, [], 0⟩).2 ≠ .more := by decide
example : (drive feedTerm [.ok (1 : Int), .err, .ok 3] ⟨[.map 7 (fun v => .ok (v * 2))], .first, [], 0⟩).1.sink.finish
    = .ok (.val 2) := by decide

/-- the Go code paths that go on with an element after a downstream `yield(…, err)` answered `true`
are dead for every chain that ends in one of the terminal consumers of value/list.go -/
theorem err_never_answered_more (fs : List (Frame α)) (t : Term α) : (feed feedTerm fs t .err).ctl ≠ .more :=
  feed_err_not_more feedTerm feedTerm_err fs t

/-! ## 2. `decides_at` — when each consumer says stop -/

/-- `first`: after one element has reached it -/
theorem decides_at_first (x : Item α) (xs : List (Item α)) (l : Log α) (p : Nat) :
    drive feedTerm (x :: xs) ⟨[], .first, l, p⟩ = (⟨[], .done (itemRes x), l, p + 1⟩, .stop) :=
  first_decides x xs l p

/-- `single`: after two -/
theorem decides_at_single (a b : α) (xs : List (Item α)) (l : Log α) (p : Nat) :
    drive feedTerm (.ok a :: .ok b :: xs) ⟨[], .single none, l, p⟩ = (⟨[], .done .err, l, p + 2⟩, .stop) :=
  single_decides a b xs l p

/-- `present`: at the first satisfying element; the predicate was called on exactly the elements up to it -/
theorem decides_at_present (id : Nat) (q : α → Res Bool) (pre : List α) (v : α) (rest : List (Item α))
    (hpre : ∀ u ∈ pre, q u = .ok false) (hv : q v = .ok true) (l : Log α) (p : Nat) :
    drive feedTerm (pre.map .ok ++ .ok v :: rest) ⟨[], .present id q, l, p⟩ =
      (⟨[], .done (.ok (.bool true)), (id, [v]) :: callsOn id pre ++ l, p + pre.length + 1⟩, .stop) :=
  present_decides id q pre v rest hpre hv l p

/-- `indexWhere`: at the first satisfying element, answering its index -/
theorem decides_at_indexWhere (id : Nat) (q : α → Res Bool) (pre : List α) (v : α) (rest : List (Item α))
    (hpre : ∀ u ∈ pre, q u = .ok false) (hv : q v = .ok true) (l : Log α) (p : Nat) :
    drive feedTerm (pre.map .ok ++ .ok v :: rest) ⟨[], .indexWhere id q 0, l, p⟩ =
      (⟨[], .done (.ok (.int (pre.length : Int))), (id, [v]) :: callsOn id pre ++ l, p + pre.length + 1⟩, .stop) := by
  simpa using indexWhere_decides id q pre v rest hpre hv 0 l p

/-- `x ~ list`: at the first equal element, without any closure call -/
theorem decides_at_contains (eq : α → Res Bool) (pre : List α) (v : α) (rest : List (Item α))
    (hpre : ∀ u ∈ pre, eq u = .ok false) (hv : eq v = .ok true) (l : Log α) (p : Nat) :
    drive feedTerm (pre.map .ok ++ .ok v :: rest) ⟨[], .contains eq, l, p⟩ =
      (⟨[], .done (.ok (.bool true)), l, p + pre.length + 1⟩, .stop) :=
  contains_decides eq pre v rest hpre hv l p

/-- `top n`: after `n` elements have passed, the next element is answered with stop — without reaching
the stages below and without any closure call (`FirstN`: `if i == n { return }`) -/
theorem decides_at_top (ft : FeedT α τ) (n : Nat) (fs : List (Frame α)) (t : τ) (x : Item α) :
    feed ft (.top (n : Int) n :: fs) t x = ⟨.top n n :: fs, t, [], .stop⟩ := by
  simp [feed, Frame.step]

/-- consumers that need the whole list (`size`, `eval`, collecting a returned list) stop early only on an
error item -/
theorem collect_never_early (xs : List (Item α)) (h : (cutErr xs).2 = false) (l : Log α) (p : Nat) :
    (drive feedTerm xs ⟨[], .collect [], l, p⟩).2 = .more := (collect_drive xs [] l p).2.2 h

example : ∀ u ∈ [(0 : Int), 1, 2], (fun v => Res.ok (v == 3)) u = .ok false := by decide
example : (drive feedTerm ([(0 : Int), 1, 2].map .ok ++ .ok 3 :: [.err, .ok 3])
    ⟨[], .present 5 (fun v => .ok (v == 3)), [], 0⟩).1.pulled = 4 := by decide

/-! ## 3. `stage_demand` — upstream elements pulled to deliver `k` downstream elements

`Frame.need fr xs k` = number of inputs the frame consumes until it has handed `k` items downstream
(read off the state machine). `chain_demand` composes the stage demands along a pipeline;
the closed forms follow. `Returns f` = the closure returns a value or an error on every argument. -/

/-- composition along a pipeline: if the terminal consumer stops after `m` of the items that reach it,
the chain stops with the same answer and result after pulling `needChain fs xs m` source elements -/
theorem stage_demand_compose (ft : FeedT α τ) (fs : List (Frame α)) (xs : List (Item α)) (t : τ)
    (l l₂ : Log α) (p p₂ : Nat)
    (h : (drive ft (transChain fs xs) ⟨[], t, l₂, p₂⟩).2 ≠ .more) :
    (drive ft xs ⟨fs, t, l, p⟩).2 = (drive ft (transChain fs xs) ⟨[], t, l₂, p₂⟩).2 ∧
    (drive ft xs ⟨fs, t, l, p⟩).1.pulled =
      p + needChain fs xs ((drive ft (transChain fs xs) ⟨[], t, l₂, p₂⟩).1.pulled - p₂) ∧
    (drive ft xs ⟨fs, t, l, p⟩).1.sink = (drive ft (transChain fs xs) ⟨[], t, l₂, p₂⟩).1.sink :=
  chain_demand ft fs xs t l l₂ p p₂ h

/-- one stage above a chain that stops after `m` items: `need xs m` inputs are pulled -/
theorem stage_demand_one (ft : FeedT α τ) (xs : List (Item α)) (fr : Frame α) (fs : List (Frame α)) (t : τ)
    (l l₂ : Log α) (p p₂ : Nat) (h : (drive ft (fr.trans xs) ⟨fs, t, l₂, p₂⟩).2 ≠ .more) :
    (drive ft xs ⟨fr :: fs, t, l, p⟩).1.pulled =
      p + fr.need xs ((drive ft (fr.trans xs) ⟨fs, t, l₂, p₂⟩).1.pulled - p₂) :=
  (drive_frame_stop ft xs fr fs t l l₂ p p₂ h).2

/-- `map`: `k` -/
theorem stage_demand_map (id : Nat) (f : α → Res α) (hf : Returns f) (xs : List (Item α)) (k : Nat)
    (hk : k ≤ xs.length) : (Frame.map id f).need xs k = k := by rw [map_need id f hf]; omega
/-- `number`: `k` -/
theorem stage_demand_number (id : Nat) (f : Nat → α → Res α) (hf : ∀ i, Returns (f i)) (xs : List (Item α))
    (k : Nat) (hk : k ≤ xs.length) : (Frame.number id f 0).need xs k = k := by
  rw [number_need id f hf]; omega
/-- `iir`, `iirCombine`: `k` -/
theorem stage_demand_iir (id0 id1 : Nat) (three : Bool) (init : α → Res α) (f : α → α → α → Res α)
    (hi : Returns init) (hf : ∀ a b, Returns (f a b)) (xs : List (Item α)) (k : Nat) (hk : k ≤ xs.length) :
    (Frame.iir id0 id1 three init f none).need xs k = k := by
  rw [iir_need id0 id1 three init f hi hf]; omega
/-- `accept`: the position of the `k`-th element it hands on -/
theorem stage_demand_accept (id : Nat) (q : α → Res Bool) (hq : Returns q) (xs : List (Item α)) (k : Nat) :
    (Frame.accept id q).need xs k = kthPos (acceptPasses q) xs k := accept_need id q hq xs k
/-- `skip n`: `k + n` -/
theorem stage_demand_skip (n : Nat) (vs : List α) (k : Nat) (hk : 1 ≤ k) (hl : n + k ≤ vs.length) :
    (Frame.skip (n : Int) 0).need (vs.map .ok) k = k + n := by rw [skip_need n vs k hk]; omega
/-- `combine`: `k + 1` -/
theorem stage_demand_combine (id : Nat) (f : α → α → Res α) (hf : ∀ a, Returns (f a)) (vs : List α) (k : Nat)
    (hk : 1 ≤ k) (hl : k + 1 ≤ vs.length) : (Frame.combine id f none).need (vs.map .ok) k = k + 1 := by
  rw [combine_need id f hf vs k hk]; omega
/-- `combine3`: `k + 2` -/
theorem stage_demand_combine3 (id : Nat) (f : α → α → α → Res α) (hf : ∀ a b, Returns (f a b)) (vs : List α)
    (k : Nat) (hk : 1 ≤ k) (hl : k + 2 ≤ vs.length) : (Frame.combine3 id f []).need (vs.map .ok) k = k + 2 := by
  rw [combine3_need id f hf vs k hk]; omega
/-- `combineN m`: `k + m − 1` -/
theorem stage_demand_combineN (id m : Nat) (f : List α → Res α) (hf : Returns f) (hm : 1 ≤ m) (vs : List α)
    (k : Nat) (hk : 1 ≤ k) (hl : k + m - 1 ≤ vs.length) :
    (Frame.combineN id m f [] 0).need (vs.map .ok) k = k + m - 1 := by
  rw [combineN_need id m f hf hm vs k hk]; omega
/-- `top n`, `k ≤ n` elements wanted below: `k` … -/
theorem stage_demand_top (n : Nat) (xs : List (Item α)) (k : Nat) (hk : k ≤ n) (hl : k ≤ xs.length) :
    (Frame.top (n : Int) 0).need xs k = k := by rw [top_need n xs k hk]; omega
/-- … and when the chain below never stops, `top n` pulls **at most one** element of read-ahead:
`n + 1` if the source has that many, the whole source otherwise -/
theorem stage_demand_top_readahead (ft : FeedT α τ) (n : Nat) (xs : List (Item α)) (fs : List (Frame α)) (t : τ)
    (l l₂ : Log α) (p p₂ : Nat)
    (h : (drive ft ((Frame.top (n : Int) 0).trans xs) ⟨fs, t, l₂, p₂⟩).2 = .more) :
    (drive ft xs ⟨.top n 0 :: fs, t, l, p⟩).1.pulled = p + min xs.length (n + 1) := by
  rw [drive_frame_more ft xs _ fs t l l₂ p p₂ h, top_span]

example : Returns (fun v : Int => Res.ok (v * 2)) := by intro v; simp
example : (drive feedTerm ((List.range 10).map fun i : Nat => Item.ok (i : Int))
    ⟨[.skip 2 0, .combine 1 (fun a b => .ok (a + b)) none], .first, [], 0⟩).1.pulled = 4 := by decide

/-- non-vacuity of `stage_demand_compose`/`stage_demand_one`: `first` below `skip 2 · combine` stops on what
reaches it, and the composed demand is `(1 + 1) + 2 = 4` source elements -/
example : (drive feedTerm (transChain [.skip 2 0, .combine 1 (fun a b => .ok (a + b)) none]
    ((List.range 10).map fun i : Nat => Item.ok (i : Int))) ⟨[], .first, [], 0⟩).2 ≠ .more := by decide
example : needChain [.skip 2 0, .combine 1 (fun a b => .ok (a + b)) none]
    ((List.range 10).map fun i : Nat => Item.ok (i : Int)) 1 = 4 := by decide
example : (drive feedTerm ((Frame.top (3 : Int) 0).trans ((List.range 10).map fun i : Nat => Item.ok (i : Int)))
    ⟨[], .collect [], [], 0⟩).2 = .more := by decide

/-! ## 4. `size_independent` — 10¹¹ behaves like 10³ -/

/-- For a generator source (`numbers N`, `iterator.Generate`) below any stages and any consumer
(multiUse included): if on a source of `M` elements fewer than `M` elements were pulled, then on every
source of `N ≥ M` elements outcome, closure-call log and pull count are the same. -/
theorem size_independent (g : Nat → Item α) (stages : List (Stage α)) (k : Sink α) (M N : Nat) (hMN : M ≤ N)
    (h : (consume (pipe (.gen M g) stages) k).pulled < M) :
    consume (pipe (.gen N g) stages) k = consume (pipe (.gen M g) stages) k := by
  have hb : ∀ (sts : List (Stage α)) (n : Nat),
      (pipe (.gen n g) sts).buildable = (pipe (.gen M g) sts).buildable := by
    intro sts n
    induction sts with
    | nil => rfl
    | cons st rest ih => simp only [pipe, LList.buildable, ih]
  have hb := hb stages
  cases hB : (pipe (.gen M g) stages).buildable with
  | false => simp [consume, hb N, hB]
  | true =>
    have e := run_pipe_size_independent feedSink g M N hMN stages (initSt k)
      (by simpa [consume, initSt, hB] using h)
    simp only [consume, hb N, hB, e]

/-- the same for `numbers N` (value.go: `iterator.Generate(N, i ↦ Int(i))`) -/
theorem size_independent_numbers (stages : List (Stage Int)) (k : Sink Int) (M N : Nat) (hMN : M ≤ N)
    (h : (consume (pipe (numbers M) stages) k).pulled < M) :
    consume (pipe (numbers N) stages) k = consume (pipe (numbers M) stages) k :=
  size_independent (fun i => Item.ok (i : Int)) stages k M N hMN h

/-- non-vacuity: `numbers(5).map(f).accept(odd).first()` pulls 2 < 5 elements -/
example : (consume (pipe (numbers 5) [.accept 2 (fun v => .ok (v % 2 == 1)), .map 1 (fun v => .ok (v * 3))])
    (.one .first)).pulled < 5 := by decide

/-- **B8** (pinned observation, conforms): `numbers(N).map(e->tick(e)).top(3).size()` is 3 with FOUR calls
of `tick` — `FirstN` sees element 3 before it returns — for every `N ≥ 4`, in particular `N = 10^11` -/
theorem pinned_B8_top3_four_calls (N : Nat) (hN : 4 ≤ N) :
    consume (pipe (numbers N) [.top 3, .map 1 (fun v => .ok v)]) (.one (.collect [])) =
      ⟨.ok [.list [0, 1, 2]], [(1, [0]), (1, [1]), (1, [2]), (1, [3])], 4⟩ := by
  by_cases h : N = 4
  · subst h; decide
  · have h5 : (consume (pipe (numbers 5) [.top 3, .map 1 (fun v => .ok v)]) (.one (.collect []))) =
        ⟨.ok [.list [0, 1, 2]], [(1, [0]), (1, [1]), (1, [2]), (1, [3])], 4⟩ := by decide
    rw [size_independent_numbers _ _ 5 N (by omega) (by rw [h5]; decide), h5]

/-- `top(0)` pulls one element (and calls the closure above it once) before it can say stop -/
theorem pinned_top0_pulls_one (N : Nat) (hN : 1 ≤ N) :
    consume (pipe (numbers N) [.top 0, .map 1 (fun v => .ok v)]) (.one (.collect [])) =
      ⟨.ok [.list []], [(1, [0])], 1⟩ := by
  by_cases h : N = 1
  · subst h; decide
  · have h2 : (consume (pipe (numbers 2) [.top 0, .map 1 (fun v => .ok v)]) (.one (.collect []))) =
        ⟨.ok [.list []], [(1, [0])], 1⟩ := by decide
    rw [size_independent_numbers _ _ 2 N (by omega) (by rw [h2]; decide), h2]

/-- the model evaluates `numbers(10^11)` pipelines by demand (kernel evaluation of the generator loop) -/
example : (consume (pipe (numbers 100000000000) [.top 3, .map 1 (fun v => .ok v)]) (.one (.collect []))).pulled = 4 := by
  rw [pinned_B8_top3_four_calls _ (by decide)]

/-- multiUse: `run` notices a stopped consumer only when it offers the next element — a read-ahead of
one source element beyond the latest decision (here: `first` decides at element 0, `present (=5)` at
element 5, `top 3` at element 3; element 6 is pulled and dropped), for every `N ≥ 8` -/
theorem pinned_multiUse_readahead (N : Nat) (hN : 8 ≤ N) :
    (consume (pipe (numbers N) [.map 0 (fun v => .ok v)])
      (.multi [⟨[], .first, false, false⟩, ⟨[], .present 2 (fun v => .ok (v == 5)), false, false⟩,
               ⟨[.top 3 0], .collect [], false, false⟩])).pulled = 7 := by
  have h8 : (consume (pipe (numbers 8) [.map 0 (fun v => .ok v)])
      (.multi [⟨[], .first, false, false⟩, ⟨[], .present 2 (fun v => .ok (v == 5)), false, false⟩,
               ⟨[.top 3 0], .collect [], false, false⟩])).pulled = 7 := by decide
  rw [size_independent_numbers _ _ 8 N hN (by rw [h8]; decide), h8]

/-! ## 5. `construct_silent` — building a pipeline evaluates no element closure

In the model a list is the *description* of how it was built (`LList`); the frame of a stage — and with
it every possibility to call its closure — comes into existence when a consumer invokes the producer
(`run`, via `Stage.init`). The Go-side observable is the tick log of the program `let l = <list>; 0`. -/

theorem construct_silent (l : LList α) : (Prog.build l).eval.log = [] ∧ (Prog.build l).eval.pulled = 0 := by
  simp only [Prog.eval]; split <;> exact ⟨rfl, rfl⟩

/-- and every consumption starts from fresh frames: consuming a description is a function of the
description (no state survives in the list between two consumptions) -/
theorem consume_deterministic (l : LList α) (k : Sink α) : (Prog.consume l k).eval = consume l k := rfl

/-! ## 7. stage refinement — what C07 builds on

`run` (producer functions invoked against a chain) ends in the state the plain source loop over
`elems l` would reach; the elements of a stage are the documented list function of the elements of its
parent. -/

/-- implementation semantics refines the element list, for every list description (`+` included),
every chain of frames below it and every terminal consumer -/
theorem run_refines (ft : FeedT α τ) (l : LList α) (s : St α τ) (h : (run ft l s).2 = .more) :
    (run ft l s).1.sink = (drive ft (elems l) s).1.sink ∧
    (run ft l s).1.frames = (drive ft (elems l) s).1.frames := Iter.run_refines ft l s h

theorem elems_map (id : Nat) (f : α → Res α) (hf : Returns f) (l : LList α) :
    elems (.stage (.map id f) l) = specMap f (elems l) := by simp [elems, Stage.init, map_trans id f hf]
theorem elems_accept (id : Nat) (q : α → Res Bool) (hq : Returns q) (l : LList α) :
    elems (.stage (.accept id q) l) = specAccept q (elems l) := by simp [elems, Stage.init, accept_trans id q hq]
theorem elems_top (n : Int) (l : LList α) : elems (.stage (.top n) l) = specTop n (elems l) := by
  simp [elems, Stage.init, top_trans]
theorem elems_skip (n : Nat) (l : LList α) : elems (.stage (.skip (n : Int)) l) = specSkip n (elems l) := by
  simp [elems, Stage.init, skip_trans]
theorem elems_number (id : Nat) (f : Nat → α → Res α) (hf : ∀ i, Returns (f i)) (l : LList α) :
    elems (.stage (.number id f) l) = specNumber f 0 (elems l) := by
  simp [elems, Stage.init, number_trans id f hf]
theorem elems_combine (id : Nat) (f : α → α → Res α) (hf : ∀ a, Returns (f a)) (l : LList α) (vs : List α)
    (hl : elems l = vs.map .ok) : elems (.stage (.combine id f) l) = specCombine f vs := by
  simp [elems, Stage.init, hl, combine_trans id f hf]
theorem elems_combine3 (id : Nat) (f : α → α → α → Res α) (hf : ∀ a b, Returns (f a b)) (l : LList α) (vs : List α)
    (hl : elems l = vs.map .ok) : elems (.stage (.combine3 id f) l) = specCombine3 f vs := by
  simp [elems, Stage.init, hl, combine3_trans id f hf]
theorem elems_iir (id0 id1 : Nat) (init : α → α) (f : α → α → α) (l : LList α) (vs : List α)
    (hl : elems l = vs.map .ok) :
    elems (.stage (.iir id0 id1 (fun v => .ok (init v)) (fun a b => .ok (f a b))) l) =
      (specScan init (fun item _ last => f item last) vs).map .ok := by
  simp only [elems, Stage.init, hl]
  exact iir_trans id0 id1 false init (fun item _ last => f item last) vs
theorem elems_append (a b : LList α) : elems (.append a b) = elems a ++ elems b := rfl
theorem elems_numbers (n : Nat) : elems (numbers n) = (List.range n).map fun i : Nat => Item.ok (i : Int) := by
  simp only [elems, numbers]
  suffices h : ∀ n i, genItems (fun i : Nat => Item.ok (i : Int)) n i = (List.range' i n).map fun i : Nat => Item.ok (i : Int) by
    rw [h, List.range_eq_range']
  intro n
  induction n with
  | zero => intro i; rfl
  | succ n ih => intro i; simp [genItems, ih, List.range'_succ]

/-- `stage_refines` for the collecting consumers (`eval`, `size`, `string`, a returned list):
the collected list is the values of `elems l` up to the first error item -/
theorem collect_refines (l : LList α) (hb : l.buildable = true)
    (h : (run feedSink l (initSt (.one (.collect [])))).2 = .more) :
    (consume l (.one (.collect []))).res =
      (bif (cutErr (elems l)).2 then .err else .ok [.list (cutErr (elems l)).1]) := by
  obtain ⟨h1, _⟩ := Iter.run_refines feedSink l (initSt (.one (.collect []))) h
  have hd := drive_one (elems l) (⟨[], .collect [], [], 0⟩ : St α (Term α))
  have hc := (collect_drive (elems l) [] [] 0).1
  simp only [consume, hb, h, h1]
  have : (initSt (Sink.one (Term.collect ([] : List α))) : St α (Sink α)) = St.one ⟨[], .collect [], [], 0⟩ := rfl
  rw [this, hd]
  simp only [St.one, Sink.finish, hc]
  cases (cutErr (elems l)).2 <;> simp

/-- a stage that list.go refuses to build (`combineN` with a width below one) makes the building
expression fail — still without any closure call -/
example : (Prog.build (.stage (.combineN 1 0 (fun _ => .ok 0)) (numbers 5))).eval = ⟨.err, [], 0⟩ := by decide

/-- non-vacuity of `run_refines`/`collect_refines`: a `+` of two pipelines with a `top` in the first operand
returns, and collects the documented elements -/
example : (run feedSink (.append (.stage (.top 2) (numbers 5)) (.stage (.map 1 (fun v => .ok (v * 10))) (numbers 3)))
    (initSt (.one (.collect [])))).2 = .more := by decide
example : (LList.append (.stage (.top 2) (numbers 5)) (.stage (.map 1 (fun v => .ok (v * 10))) (numbers 3))).buildable
    = true := by decide
example : (consume (.append (.stage (.top 2) (numbers 5)) (.stage (.map 1 (fun v => .ok (v * 10))) (numbers 3)))
    (.one (.collect []))).res = .ok [.list [0, 1, 0, 10, 20]] := by decide
example : elems (.append (.stage (.top 2) (numbers 5)) (.stage (.map 1 (fun v => .ok (v * 10))) (numbers 3)))
    = [.ok 0, .ok 1, .ok 0, .ok 10, .ok 20] := by decide

/-! ## 6. parallel profile — not part of this file

Design theorem 6 (once `MapAuto`/`FilterAuto` have switched, the read-ahead is bounded by the number of
workers plus the collector buffer) is a statement about `driveP sched` of the C06 schedule model. The
frames above are the sequential semantics both models share; the harness runs the sequential profile
only and repeats a run whose closure-call order shows that the timing-based switch happened. -/

/-- laws as corollaries: `|combine f l| = |l| − 1` -/
theorem combine_length (f : α → α → Res α) (vs : List α) : (specCombine f vs).length = vs.length - 1 :=
  specCombine_length f vs

end P2.C08
