import P2.Proofs.LangOpt
import P2.Props.C02
/-! # C02 on the value language — `P2.Lang.Opt.optimize` against the reference semantics

## Full statement (NOT proved here; kept as the target)

```
theorem optimize_preserves_eval (S M T cfg) (hcfg : cfg.intAndOr = false ∧ cfg.regroup = false)
    (argNames : List String) (a a' : AST) (args : List Val) (n : Nat) (r : R Val) :
    optimize S M T cfg argNames a = .ok a' →
    eval S M n a (bindParams argNames args).reverse = r → r ≠ .fuel →
    ∃ n' r', eval S M n' a' (bindParams argNames args).reverse = r' ∧ OptRel r r'
```
where `OptRel` is equality on first-order results and, on closures, the logical relation "same
parameters, the body of the right closure is the optimized body of the left one, captured
environments related up to the inlined constant bindings". Two ingredients are missing:

1. **fuel monotonicity** of `eval` and of the whole library (`binop`, `callStatic`, `methodBody`,
   `force`, `valEq`, `toStr`, … with their `ap`/`k` parameters): a folded node was evaluated at the
   fixed fuel `cfg.fuel` in the empty environment, the program evaluates it at whatever fuel is left
   at that position — to identify the two outcomes one needs
   `eval n a env = r → r ≠ .fuel → n ≤ m → eval m a env = r`. The framework has lock-step theorems
   only (C01 runs both semantics at the same fuel), no such lemma exists yet;
2. **a logical relation between closure values** whose bodies differ by optimization (and whose
   environments differ by the inlined `let` constants), with the parametricity of the library for
   it (the analogue of `Proofs/LangLib.lean`, which is specific to reference-vs-compiled closures).

## What is proved (`…_partial`)

Every *folding step with a first-order result* is sound locally, in every environment that is
consistent with the scope the optimizer saw, at the folding fuel: the node evaluates successfully to
a value `v`, and its replacement evaluates to exactly `v` in every environment at every fuel from
`need a'` on (`fold_unary_sound_partial`, `fold_binop_sound_partial`, `fold_index_sound_partial`,
`fold_member_sound_partial`, `fold_static_sound_partial`); the `if` rule is exact with a fuel shift
of one (`if_rule_sound`); a folding step never replaces the call of an impure static function
(`rule_keeps_impure_call`). Not covered by a theorem: method folding (`cvals` evaluates every
argument at the full folding fuel, `evalArgs` at decreasing fuel — again monotonicity), the `&`/`|`
matrices, calls of constant closures and closure constants (logical relation), regrouping (false
in general: open finding, witness below), `let` inlining (substitution lemma under binders).

Pinned witnesses: both open findings of C02 and the behaviour before repair 89b886b are
reproduced as closed facts about variants of `optimize`. -/
namespace P2.C02Lang
open P2.Lang P2.Lang.Opt

variable {S : Statics} {M : Methods} {T : Tables} {cfg : Cfg}

/-! ## the folding rules, one by one -/

/-- unary operator on a first-order constant (optimizer.go 65–75) -/
theorem fold_unary_sound_partial (sc : Scope) (op : String) (x a' : AST) (env : Env)
    (hr : rule S M T cfg sc (.unary op x) = .ok a') (hne : a' ≠ .unary op x)
    (hx : lit x = true) (ha' : lit a' = true) :
    ∃ v, eval S M (cfg.fuel + 1) (.unary op x) env = .ok v ∧
      ∀ env' n, need a' ≤ n → eval S M n a' env' = .ok v := by
  simp only [rule, lit_isConst x hx, if_true] at hr
  rcases foldR_ok hr with h | ⟨v, hv, hre⟩
  · exact absurd h hne
  · refine ⟨v, ?_, fun env' n hn => reify_eval v a' hre ha' env' n hn⟩
    rw [eval_unary, lit_closed x hx]
    exact hv

/-- pure binary operator (not `&`, `|`) on first-order constants (optimizer.go 20–31) -/
theorem fold_binop_sound_partial (sc : Scope) (op : String) (x y a' : AST) (env : Env)
    (hop : op ≠ "&" ∧ op ≠ "|") (hpure : T.opPure op = true)
    (hr : rule S M T cfg sc (.binop op x y) = .ok a') (hne : a' ≠ .binop op x y)
    (hx : lit x = true) (hy : lit y = true) (ha' : lit a' = true) :
    ∃ v, eval S M (cfg.fuel + 1) (.binop op x y) env = .ok v ∧
      ∀ env' n, need a' ≤ n → eval S M n a' env' = .ok v := by
  simp only [rule, lit_isConst x hx, lit_isConst y hy, hpure, if_true, Bool.and_self] at hr
  rcases foldR_ok hr with h | ⟨v, hv, hre⟩
  · exact absurd h hne
  · refine ⟨v, ?_, fun env' n hn => reify_eval v a' hre ha' env' n hn⟩
    rw [eval_binop, if_neg hop.1, if_neg hop.2, lit_closed x hx, lit_closed y hy]
    have hc : ∀ a b, calcOp S M cfg op a b = binop (applyS S M cfg.fuel) cfg.fuel op a b := by
      intro a b
      unfold calcOp
      split
      · exact absurd rfl hop.1
      · exact absurd rfl hop.2
      · rfl
    simpa only [calcK, cval, hc] using hv

/-- list access with first-order constant list and index (optimizer.go 96–106) -/
theorem fold_index_sound_partial (sc : Scope) (i l a' : AST) (env : Env)
    (hr : rule S M T cfg sc (.index i l) = .ok a') (hne : a' ≠ .index i l)
    (hi : lit i = true) (hl : lit l = true) (ha' : lit a' = true) :
    ∃ v, eval S M cfg.fuel (.index i l) env = .ok v ∧
      ∀ env' n, need a' ≤ n → eval S M n a' env' = .ok v := by
  simp only [rule, lit_isConst i hi, lit_isConst l hl, Bool.and_self, if_true] at hr
  rcases foldR_ok hr with h | ⟨v, hv, hre⟩
  · exact absurd h hne
  · refine ⟨v, ?_, fun env' n hn => reify_eval v a' hre ha' env' n hn⟩
    rw [← hv]
    cases hf : cfg.fuel with
    | zero => rfl
    | succ n => rw [eval_index, eval_index, lit_closed i hi, lit_closed l hl]

/-- map access on a first-order constant (optimizer.go 123–131) -/
theorem fold_member_sound_partial (sc : Scope) (m : AST) (key : String) (a' : AST) (env : Env)
    (hr : rule S M T cfg sc (.member m key) = .ok a') (hne : a' ≠ .member m key)
    (hm : lit m = true) (ha' : lit a' = true) :
    ∃ v, eval S M cfg.fuel (.member m key) env = .ok v ∧
      ∀ env' n, need a' ≤ n → eval S M n a' env' = .ok v := by
  simp only [rule, lit_isConst m hm, if_true] at hr
  rcases foldR_ok hr with h | ⟨v, hv, hre⟩
  · exact absurd h hne
  · refine ⟨v, ?_, fun env' n hn => reify_eval v a' hre ha' env' n hn⟩
    rw [← hv]
    cases hf : cfg.fuel with
    | zero => rfl
    | succ n => rw [eval_member, eval_member, lit_closed m hm]

/-- the rule replaces the call of a static function only if the function is declared pure and its
name is not bound in the scope (`Ident.IsFunc`) -/
theorem rule_static_fires (sc : Scope) (name : String) (args : List AST) (a' : AST)
    (hr : rule S M T cfg sc (.call (.ident name) args) = .ok a') (hne : a' ≠ .call (.ident name) args) :
    (∃ arity, S name = some (arity, true)) ∧ sc.find name = none := by
  simp only [rule] at hr
  split at hr
  · rename_i arity h1 h2
    exact ⟨⟨arity, h1⟩, h2⟩
  · simp only [pure, Except.pure, Except.ok.injEq] at hr
    exact absurd hr.symm hne

/-- C02.1 on the model: a folding step never removes the call of an impure static function -/
theorem rule_keeps_impure_call (sc : Scope) (name : String) (args : List AST) (arity : Int)
    (himp : S name = some (arity, false)) :
    rule S M T cfg sc (.call (.ident name) args) = .ok (.call (.ident name) args) := by
  cases h : rule S M T cfg sc (.call (.ident name) args) with
  | error e =>
    simp only [rule, himp] at h
    cases h
  | ok a' =>
    by_cases hne : a' = .call (.ident name) args
    · rw [hne]
    · obtain ⟨⟨ar, h1⟩, _⟩ := rule_static_fires sc name args a' h hne
      rw [himp] at h1; cases h1

/-- pure static function on first-order constants (optimizer.go 135–149); `henv`: every name the
environment binds is in the scope the optimizer saw -/
theorem fold_static_sound_partial (sc : Scope) (name : String) (args : List AST) (a' : AST) (env : Env)
    (hr : rule S M T cfg sc (.call (.ident name) args) = .ok a') (hne : a' ≠ .call (.ident name) args)
    (henv : ∀ x, env.has x = true → sc.find x ≠ none)
    (hargs : litL args = true) (ha' : lit a' = true) :
    ∃ v, eval S M cfg.fuel (.call (.ident name) args) env = .ok v ∧
      ∀ env' n, need a' ≤ n → eval S M n a' env' = .ok v := by
  obtain ⟨⟨arity, hS⟩, hsc⟩ := rule_static_fires sc name args a' hr hne
  have hnot : env.has name = false := by
    cases h : env.has name with
    | false => rfl
    | true => exact absurd hsc (henv name h)
  simp only [rule, hS, hsc] at hr
  split at hr
  · simp only [pure, Except.pure, Except.ok.injEq] at hr; exact absurd hr.symm hne
  · split at hr
    · rcases foldR_ok hr with h | ⟨v, hv, hre⟩
      · exact absurd h hne
      · refine ⟨v, ?_, fun env' n hn => reify_eval v a' hre ha' env' n hn⟩
        rw [← hv]
        cases hf : cfg.fuel with
        | zero => rfl
        | succ n =>
          rw [eval_call_static S M n name args env (by simp [hS, hnot]),
              eval_call_static S M n name args [] (by simp [hS, Env.has, Env.get]),
              litL_closed_args args hargs]
    · simp only [pure, Except.pure, Except.ok.injEq] at hr; exact absurd hr.symm hne

/-- `if` with a constant condition (optimizer.go 77–89): exact, the optimized program needs one
unit of fuel less -/
theorem if_rule_sound (sc : Scope) (b : Bool) (t e : AST) (env : Env) (n : Nat) :
    rule S M T cfg sc (.ifE (.const (.bool b)) t e) = .ok (if b then t else e) ∧
    eval S M (n + 2) (.ifE (.const (.bool b)) t e) env = eval S M (n + 1) (if b then t else e) env := by
  cases b <;> exact ⟨rfl, rfl⟩

/-- a non-bool constant condition is left to fail at run time -/
theorem if_rule_nonbool (sc : Scope) (i : Int) (t e : AST) :
    rule S M T cfg sc (.ifE (.const (.int i)) t e) = .ok (.ifE (.const (.int i)) t e) := rfl

/-! ## non-vacuity and pinned witnesses -/

def M0 : Methods := fun ty name => (methodSig ty name).map (fun k => if k < 0 then k else k + 1)
/-- flags of today's tables (`ValueTables`): everything pure, only `*` commutative -/
def T0 : Tables := { opPure := fun _ => true, opComm := fun op => op == "*", methPure := fun _ _ => true }
/-- the configuration for which the partial theorems are meant: no int `&`/`|`, no regrouping -/
def sound : Cfg := { intAndOr := false, regroup := false, fuel := 30 }
def head : Cfg := { fuel := 30 }
def beforeFix : Cfg := { fuel := 30, closureFieldWins := false }

def outInt : R Val → Option Int
  | .ok (.int i) => some i
  | _ => none
def isErr : R Val → Bool
  | .err => true
  | _ => false
/-- evaluate the optimized program -/
def runOpt (c : Cfg) (names : List String) (a : AST) (args : List Val) : Option Int :=
  match optimize staticSig M0 T0 c names a with
  | .ok a' => outInt (runReference staticSig M0 40 a' names args)
  | .error _ => none
def optIs (c : Cfg) (names : List String) (a : AST) (p : AST → Bool) : Bool :=
  match optimize staticSig M0 T0 c names a with
  | .ok a' => p a'
  | .error _ => false

/-- `let k = 2 + 3; [1, 2][0] + k * a` with argument `a` -/
def prog1 : AST :=
  .letE "k" (.binop "+" (.const (.int 2)) (.const (.int 3)))
    (.binop "+" (.index (.const (.int 0)) (.listLit [.const (.int 1), .const (.int 2)]))
      (.binop "*" (.ident "k") (.ident "a")))

/-- the optimizer really rewrites `prog1` to `1 + 5 * a` (let inlined, two foldings) … -/
example : optIs sound ["a"] prog1 (fun a' => match a' with
    | .binop "+" (.const (.int 1)) (.binop "*" (.const (.int 5)) (.ident "a")) => true
    | _ => false) = true := by decide
/-- … and both programs evaluate to 1 + 5·7 -/
example : outInt (runReference staticSig M0 40 prog1 ["a"] [.int 7]) = some 36 := by decide
example : runOpt sound ["a"] prog1 [.int 7] = some 36 := by decide

/-- the hypotheses of `fold_binop_sound_partial` hold on `2 + 3 ↦ 5` -/
example : rule staticSig M0 T0 sound [("a", none)] (.binop "+" (.const (.int 2)) (.const (.int 3)))
    = .ok (.const (.int 5)) := by rfl
/-- … of `fold_index_sound_partial` on `[1, 2][0] ↦ 1`, of `fold_static_sound_partial` on `abs(-3)` -/
example : rule staticSig M0 T0 sound [] (.index (.const (.int 0)) (.listLit [.const (.int 1), .const (.int 2)]))
    = .ok (.const (.int 1)) := by rfl
example : rule staticSig M0 T0 sound [] (.call (.ident "abs") [.const (.int (-3))]) = .ok (.const (.int 3)) := by
  rfl
/-- a failing folding leaves the node alone: `[1, 2][5]` -/
example : rule staticSig M0 T0 sound [] (.index (.const (.int 5)) (.listLit [.const (.int 1), .const (.int 2)]))
    = .ok (.index (.const (.int 5)) (.listLit [.const (.int 1), .const (.int 2)])) := by rfl
/-- `throw` is declared impure: never folded -/
example : rule staticSig M0 T0 sound [] (.call (.ident "throw") [.const (.str "x")])
    = .ok (.call (.ident "throw") [.const (.str "x")]) := rule_keeps_impure_call [] "throw" _ 1 rfl

/-- rule (f) and the parse-time inlining: `let f = x -> x + 1; f(2)` becomes the constant 3 -/
def prog2 : AST :=
  .letE "f" (.clos ["x"] (.binop "+" (.ident "x") (.const (.int 1))) [] false "")
    (.call (.ident "f") [.const (.int 2)])
example : optIs head [] prog2 (fun a' => match a' with | .const (.int 3) => true | _ => false) = true := by
  decide

/-! ### repair 89b886b: `{get: k -> 42, a: 1}.get("a")` -/

def fieldVsMethod : AST :=
  .method (.mapLit [("get", .clos ["k"] (.const (.int 42)) [] false ""), ("a", .const (.int 1))]) "get"
    [.const (.str "a")]

/-- at run time the closure stored in the field `get` wins -/
theorem fieldVsMethod_reference : outInt (runReference staticSig M0 40 fieldVsMethod [] []) = some 42 := by
  decide
/-- before the repair the optimizer folded the *method* `get`: the optimized program answers 1 -/
theorem pinned_fieldVsMethod_beforeFix : runOpt beforeFix [] fieldVsMethod [] = some 1 := by decide
/-- today the node is left alone -/
theorem current_fieldVsMethod : runOpt head [] fieldVsMethod [] = some 42 := by decide
theorem pinned_fieldVsMethod_witness :
    runOpt beforeFix [] fieldVsMethod [] ≠ outInt (runReference staticSig M0 40 fieldVsMethod [] []) := by
  rw [pinned_fieldVsMethod_beforeFix, fieldVsMethod_reference]; decide

/-! ### open finding `const-int-and-or`: `3 & 5` -/

def intAnd : AST := .binop "&" (.const (.int 3)) (.const (.int 5))

/-- the compiled / reference semantics of `&` accepts bools only -/
theorem intAnd_reference : isErr (runReference staticSig M0 40 intAnd [] []) = true := by decide
/-- HEAD: folding goes through the `And` matrix, which accepts two ints: the program becomes `1` -/
theorem pinned_intAnd_head : runOpt head [] intAnd [] = some 1 := by decide
/-- on bools the matrix and the short-circuit code agree: `true & false` is folded to `false` -/
example : optIs sound [] (.binop "&" (.const (.bool true)) (.const (.bool false))) (fun a' => match a' with
    | .const (.bool false) => true | _ => false) = true := by decide

/-! ### open finding `regroup-mul-int-wrap`: `(2 * x) * 4611686018427387904` -/

def mulChain : AST := .binop "*" (.binop "*" (.const (.int 2)) (.ident "x")) (.const (.int 4611686018427387904))

/-- HEAD regroups to `(2 * 2^62) * x`, and the constant product has wrapped around to −2^63: for the
float argument `x = 0.5` the original program is `(2 * 0.5) * 2^62 = 2^62`, the optimized one
`−2^63 * 0.5 = −2^62` (floats do not reduce in the kernel; the integer fact is the witness) -/
theorem pinned_mulChain_head : optIs head ["x"] mulChain (fun a' => match a' with
    | .binop "*" (.const (.int (-9223372036854775808))) (.ident "x") => true | _ => false) = true := by decide
theorem mulChain_without_regroup : optIs sound ["x"] mulChain (fun a' => match a' with
    | .binop "*" (.binop "*" (.const (.int 2)) (.ident "x")) (.const (.int 4611686018427387904)) => true
    | _ => false) = true := by decide

end P2.C02Lang
