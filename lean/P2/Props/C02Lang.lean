import P2.Proofs.LangOpt
import P2.Proofs.LangOptFree
import P2.Proofs.LangOptSim
import P2.Proofs.LangFSim
import P2.Proofs.LangFPres
import P2.Props.C02
/-! # C02 on the value language — `P2.Lang.Opt.optimize` against the reference semantics

## The statement (proved below: `optimize_preserves_eval`)

```
theorem optimize_preserves_eval (hcfg : cfg.intAndOr = false ∧ cfg.regroup = false ∧ cfg.closureFieldWins = true)
    (argNames : List String) (a a' : AST) (args args' : List Val) (n : Nat) (r : R Val) :
    optimize S M T cfg argNames a = .ok a' → wscoped S argNames a → VsRel args args' →
    eval S M n a (bindParams argNames args).reverse = r → r ≠ .fuel →
    ∃ r', RRel VRel r r' ∧ ∃ m0, ∀ m ≥ m0, eval S M m a' (bindParams argNames args').reverse = r'
```
`VRel` (`F.VRel`, `Proofs/LangFRel.lean`) is equality on first-order values and, on closures, "same
parameters, the body of the right closure is the optimized body of the left one, captured
environments related up to the inlined constants"; `RRel` relates `.ok v` to `.ok v'` with
`VRel v v'` and every failure to the same failure (`.err ↔ .err`, `.panic ↔ .panic`,
`.unmodelled ↔ .unmodelled`). Corollaries: `optimize_preserves_ok`, `optimize_preserves_err`,
`optimize_reflects_err` (if the optimized program fails with an error and the original program has
a definite outcome, that outcome is an error), `optimize_preserves_value` (closure-free arguments and
result: the SAME value), `optimize_preserves_wscoped`, `optimize_preserves_eval_of_generate`.

What happens with the other outcomes: a panic of the original program (in `eval` only an identifier
without binding panics, e.g. when fewer arguments than names are passed) is a panic of the optimized
one; `unmodelled` stays `unmodelled`; NOTHING is claimed when the original program runs out of fuel
at `n`, or when `optimize` answers `Except.error` (a folded value without literal form, a panic /
`unmodelled` / fuel exhaustion inside a folding step, a run-time binder named like a static function,
`let` / closure literal inside a `case` constant).

Side conditions, all necessary on the model: `intAndOr = false`, `regroup = false` (the two open
findings, witnesses below), `closureFieldWins = true` (repair 89b886b, witness below), and
well-scopedness of the input (`(if true then abs else 0)(3)` evaluates an unbound identifier and
panics, while the optimized `abs(3)` is a static call; a function whose own name is declared as
an outer identifier although a constant of that name is in scope reads the constant in the original
and nothing in the optimized program). `cfg.foldClosures` and `cfg.fuel` are arbitrary.

## How

1. **Fuel monotonicity** (`Proofs/LangMono.lean`): `eval_fuel_mono`, `applyS_fuel_mono`,
   `evalArgs/evalList/evalKVs/evalCases_fuel_mono`, `runReference_fuel_mono` — an outcome other than
   `fuel` is the outcome at every larger fuel — for the whole mutual family of `Sem.lean`; the same
   for every library function given a monotone `Apply` (`uncons_mono` … `binop_mono`,
   `callStatic_mono`, `methodBody_mono`, `callMethod_mono`), and for the compiled semantics
   (`exec_fuel_mono`, `applyR_fuel_mono`, `runCompiled_fuel_mono`).

2. **Closure-free programs, exact** (`optimize_preserves_eval_closureFree`,
   `optimize_preserves_runReference_closureFree`; `Proofs/LangOptFree.lean`): for a program without
   closure literals whose identifiers are bound (`closureFree`, decidable) the optimized program has
   EXACTLY the outcome of the original one — same value, or `.err`, `.panic`, `.unmodelled` — in the
   same environment (ARBITRARY argument values, closures included), at every large enough fuel
   (`foldClosures = false`: rule (f) has nothing to apply to in such a program). Not a corollary of
   4: no relation between the arguments is needed.

3. **Everything except rule (f)** (`optimize_preserves_eval_partial`, `…_ok_partial`, `…_err_partial`,
   `optimize_reflects_err_partial`, `…_value_partial`; `Proofs/LangORel.lean`, `LangOLib.lean`,
   `LangOptSim.lean`): the statement under `cfg.foldClosures = false`, with the simpler value relation
   `O.VRel` (first-order constants only, equal values). Superseded by 4 except for the relation.

4. **The whole optimizer** (`optimize_preserves_eval`; `Proofs/LangFRel.lean`, `LangFLib.lean`,
   `LangFSyn.lean`, `LangFSim.lean`, `LangFPres.lean`): closure literals with optimized bodies and
   filtered outer identifiers, constants (closure constants too) inlined into closure bodies, calls
   of constant closures and method calls on constant maps holding them folded, recursive functions,
   closures passed through every library function (naturality of the library for `VRel`: a
   namespaced copy of the C01 proof; continuity of the library in `Apply`; the limit `apLim` of
   `applyS` over the fuel bridges the two runs, which need different amounts of fuel), closures
   stored in map fields and called as methods, `try`/`catch` with a handler closure. A folding step is
   proved relationally: the children are simulated against the empty environment in which the
   optimizer evaluated them, and the folded constant is moved to the environment of its use
   (`F.VRel.rebase`, which needs that the body of a constant closure is closed: `F.gen_wscoped`).
   `optimize` preserves well-scopedness (`F.optimize_wscoped`), so only the input is constrained.

The local rule theorems `fold_*_sound_partial` below are kept as they were.

Pinned witnesses: both open findings of C02 and the behaviour before repair 89b886b are
reproduced as closed facts about variants of `optimize`. -/
namespace P2.C02Lang
open P2.Lang P2.Lang.Opt

variable {S : Statics} {M : Methods} {T : Tables} {cfg : Cfg}

/-! ## the folding rules, one by one -/

/-- unary operator on a first-order constant (optimizer.go 65–75) -/
theorem fold_unary_sound_partial (sc : Scope) (op : String) (x a' : AST) (env : Env)
    (hr : rule S M T cfg sc (.unary op x) = .ok a') (hne : a' ≠ .unary op x)
    (hx : lit x = true) (ha' : lit a' = true) :
    ∃ v, eval S M (cfg.fuel + 1) (.unary op x) env = .ok v ∧
      ∀ env' n, need a' ≤ n → eval S M n a' env' = .ok v := by
  simp only [rule, lit_isConst x hx, if_true] at hr
  rcases foldR_ok hr with h | ⟨v, hv, hre⟩
  · exact absurd h hne
  · refine ⟨v, ?_, fun env' n hn => reify_eval v a' hre ha' env' n hn⟩
    rw [eval_unary, lit_closed x hx]
    exact hv

/-- pure binary operator (not `&`, `|`) on first-order constants (optimizer.go 20–31) -/
theorem fold_binop_sound_partial (sc : Scope) (op : String) (x y a' : AST) (env : Env)
    (hop : op ≠ "&" ∧ op ≠ "|") (hpure : T.opPure op = true)
    (hr : rule S M T cfg sc (.binop op x y) = .ok a') (hne : a' ≠ .binop op x y)
    (hx : lit x = true) (hy : lit y = true) (ha' : lit a' = true) :
    ∃ v, eval S M (cfg.fuel + 1) (.binop op x y) env = .ok v ∧
      ∀ env' n, need a' ≤ n → eval S M n a' env' = .ok v := by
  simp only [rule, lit_isConst x hx, lit_isConst y hy, hpure, if_true, Bool.and_self] at hr
  rcases foldR_ok hr with h | ⟨v, hv, hre⟩
  · exact absurd h hne
  · refine ⟨v, ?_, fun env' n hn => reify_eval v a' hre ha' env' n hn⟩
    rw [eval_binop, if_neg hop.1, if_neg hop.2, lit_closed x hx, lit_closed y hy]
    have hc : ∀ a b, calcOp S M cfg op a b = binop (applyS S M cfg.fuel) cfg.fuel op a b := by
      intro a b
      unfold calcOp
      split
      · exact absurd rfl hop.1
      · exact absurd rfl hop.2
      · rfl
    simpa only [calcK, cval, hc] using hv

/-- list access with first-order constant list and index (optimizer.go 96–106) -/
theorem fold_index_sound_partial (sc : Scope) (i l a' : AST) (env : Env)
    (hr : rule S M T cfg sc (.index i l) = .ok a') (hne : a' ≠ .index i l)
    (hi : lit i = true) (hl : lit l = true) (ha' : lit a' = true) :
    ∃ v, eval S M cfg.fuel (.index i l) env = .ok v ∧
      ∀ env' n, need a' ≤ n → eval S M n a' env' = .ok v := by
  simp only [rule, lit_isConst i hi, lit_isConst l hl, Bool.and_self, if_true] at hr
  rcases foldR_ok hr with h | ⟨v, hv, hre⟩
  · exact absurd h hne
  · refine ⟨v, ?_, fun env' n hn => reify_eval v a' hre ha' env' n hn⟩
    rw [← hv]
    cases hf : cfg.fuel with
    | zero => rfl
    | succ n => rw [eval_index, eval_index, lit_closed i hi, lit_closed l hl]

/-- map access on a first-order constant (optimizer.go 123–131) -/
theorem fold_member_sound_partial (sc : Scope) (m : AST) (key : String) (a' : AST) (env : Env)
    (hr : rule S M T cfg sc (.member m key) = .ok a') (hne : a' ≠ .member m key)
    (hm : lit m = true) (ha' : lit a' = true) :
    ∃ v, eval S M cfg.fuel (.member m key) env = .ok v ∧
      ∀ env' n, need a' ≤ n → eval S M n a' env' = .ok v := by
  simp only [rule, lit_isConst m hm, if_true] at hr
  rcases foldR_ok hr with h | ⟨v, hv, hre⟩
  · exact absurd h hne
  · refine ⟨v, ?_, fun env' n hn => reify_eval v a' hre ha' env' n hn⟩
    rw [← hv]
    cases hf : cfg.fuel with
    | zero => rfl
    | succ n => rw [eval_member, eval_member, lit_closed m hm]

/-- the rule replaces the call of a static function only if the function is declared pure and its
name is not bound in the scope (`Ident.IsFunc`) -/
theorem rule_static_fires (sc : Scope) (name : String) (args : List AST) (a' : AST)
    (hr : rule S M T cfg sc (.call (.ident name) args) = .ok a') (hne : a' ≠ .call (.ident name) args) :
    (∃ arity, S name = some (arity, true)) ∧ sc.find name = none := by
  simp only [rule] at hr
  split at hr
  · rename_i arity h1 h2
    exact ⟨⟨arity, h1⟩, h2⟩
  · simp only [pure, Except.pure, Except.ok.injEq] at hr
    exact absurd hr.symm hne

/-- C02.1 on the model: a folding step never removes the call of an impure static function -/
theorem rule_keeps_impure_call (sc : Scope) (name : String) (args : List AST) (arity : Int)
    (himp : S name = some (arity, false)) :
    rule S M T cfg sc (.call (.ident name) args) = .ok (.call (.ident name) args) := by
  cases h : rule S M T cfg sc (.call (.ident name) args) with
  | error e =>
    simp only [rule, himp] at h
    cases h
  | ok a' =>
    by_cases hne : a' = .call (.ident name) args
    · rw [hne]
    · obtain ⟨⟨ar, h1⟩, _⟩ := rule_static_fires sc name args a' h hne
      rw [himp] at h1; cases h1

/-- pure static function on first-order constants (optimizer.go 135–149); `henv`: every name the
environment binds is in the scope the optimizer saw -/
theorem fold_static_sound_partial (sc : Scope) (name : String) (args : List AST) (a' : AST) (env : Env)
    (hr : rule S M T cfg sc (.call (.ident name) args) = .ok a') (hne : a' ≠ .call (.ident name) args)
    (henv : ∀ x, env.has x = true → sc.find x ≠ none)
    (hargs : litL args = true) (ha' : lit a' = true) :
    ∃ v, eval S M cfg.fuel (.call (.ident name) args) env = .ok v ∧
      ∀ env' n, need a' ≤ n → eval S M n a' env' = .ok v := by
  obtain ⟨⟨arity, hS⟩, hsc⟩ := rule_static_fires sc name args a' hr hne
  have hnot : env.has name = false := by
    cases h : env.has name with
    | false => rfl
    | true => exact absurd hsc (henv name h)
  simp only [rule, hS, hsc] at hr
  split at hr
  · simp only [pure, Except.pure, Except.ok.injEq] at hr; exact absurd hr.symm hne
  · split at hr
    · rcases foldR_ok hr with h | ⟨v, hv, hre⟩
      · exact absurd h hne
      · refine ⟨v, ?_, fun env' n hn => reify_eval v a' hre ha' env' n hn⟩
        rw [← hv]
        cases hf : cfg.fuel with
        | zero => rfl
        | succ n =>
          rw [eval_call_static S M n name args env (by simp [hS, hnot]),
              eval_call_static S M n name args [] (by simp [hS, Env.has, Env.get]),
              litL_closed_args args hargs]
    · simp only [pure, Except.pure, Except.ok.injEq] at hr; exact absurd hr.symm hne

/-- `if` with a constant condition (optimizer.go 77–89): exact, the optimized program needs one
unit of fuel less -/
theorem if_rule_sound (sc : Scope) (b : Bool) (t e : AST) (env : Env) (n : Nat) :
    rule S M T cfg sc (.ifE (.const (.bool b)) t e) = .ok (if b then t else e) ∧
    eval S M (n + 2) (.ifE (.const (.bool b)) t e) env = eval S M (n + 1) (if b then t else e) env := by
  cases b <;> exact ⟨rfl, rfl⟩

/-- a non-bool constant condition is left to fail at run time -/
theorem if_rule_nonbool (sc : Scope) (i : Int) (t e : AST) :
    rule S M T cfg sc (.ifE (.const (.int i)) t e) = .ok (.ifE (.const (.int i)) t e) := rfl

/-! ## the whole optimizer on closure-free programs -/

/-- **C02 for closure-free programs.** `closureFree S argNames a` (decidable, `Proofs/LangOptFree.lean`):
no closure literal occurs in `a` — no lambda, no `func` — and every identifier is bound by an
enclosing `let`, is one of `argNames`, or (in call position) names a static function. Under the
configuration `FreeCfg` (the two open findings `intAndOr`, `regroup` off, repair 89b886b on, rule (f)
off — in a closure-free program it has no closure literal to apply to), whatever the original program
answers at some fuel — a value, an error, a panic, `unmodelled`; anything but running out of fuel —
the optimized program answers EXACTLY the same, in the same environment, at every fuel from some
`m0` on. The arguments are arbitrary values (closures included). -/
theorem optimize_preserves_eval_closureFree (hcfg : FreeCfg cfg) (argNames : List String) (a a' : AST)
    (args : List Val) (n : Nat) (r : R Val)
    (hopt : optimize S M T cfg argNames a = .ok a')
    (hcf : closureFree S argNames a = true)
    (hev : eval S M n a (bindParams argNames args).reverse = r) (hr : r ≠ .fuel) :
    ∃ m0, ∀ m, m0 ≤ m → eval S M m a' (bindParams argNames args).reverse = r := by
  unfold optimize at hopt
  obtain ⟨_, hg, hopt⟩ := ebind_ok hopt
  exact ((simB hcfg n).expr true _ argNames a a' _ _ hopt hcf (EnvB.top argNames args hg)).eq_of hev hr

/-- the same for the top-level run (`runReference`: a panic that reaches the top is an error) -/
theorem optimize_preserves_runReference_closureFree (hcfg : FreeCfg cfg) (argNames : List String) (a a' : AST)
    (args : List Val) (n : Nat) (r : R Val)
    (hopt : optimize S M T cfg argNames a = .ok a')
    (hcf : closureFree S argNames a = true)
    (hev : runReference S M n a argNames args = r) (hr : r ≠ .fuel) :
    ∃ m0, ∀ m, m0 ≤ m → runReference S M m a' argNames args = r := by
  have hne : eval S M n a (bindParams argNames args).reverse ≠ .fuel := by
    intro hf
    simp only [runReference, hf] at hev
    exact hr hev.symm
  obtain ⟨m0, h⟩ := optimize_preserves_eval_closureFree hcfg argNames a a' args n _ hopt hcf rfl hne
  refine ⟨m0, fun m hm => ?_⟩
  unfold runReference at hev ⊢
  rw [h m hm]
  exact hev

/-! ## the whole optimizer, closures included (everything but rule (f)) -/

/-- the tables and the configuration the value relation `O.VRel` depends on -/
abbrev octx (S : Statics) (M : Methods) (T : Tables) (cfg : Cfg) : O.Ctx := ⟨S, M, T, cfg⟩

/-- **C02 on the value language, `…_partial`: all of `optimize` except rule (f).**

Hypotheses. `FreeCfg cfg`: the open findings `intAndOr` and `regroup` are off, repair 89b886b is on,
and rule (f) — closure literals without outer identifiers as constants — is off
(`cfg.foldClosures = false`); `optimize` succeeds (`Except.ok`: it met nothing it does not model);
the program is well-scoped (`O.wscoped`, decidable, `Proofs/LangORel.lean`: identifiers are bound, the
declared outer identifiers of closure literals are in scope, a recursive function has a name that is
not among its outer identifiers — true of every tree the parser produces for a program that
compiles); the two argument lists are related (`O.VsRel`: equal up to closures, which correspond
when the body of the right one is the optimized body of the left one, see `O.VRel.clos`).

Conclusion. Whatever the original program answers at fuel `n`, unless it runs out of fuel, the
optimized program answers one and the same outcome `r'` at every fuel from some `m0` on, and `r'` is
related to `r` (`O.RRel`): a value `.ok v` to `.ok v'` with `O.VRel v v'`; `.err` to `.err`; `.panic`
to `.panic`; `.unmodelled` to `.unmodelled`.

Rule (f) (`foldClosures = true`, the HEAD default) is covered by `optimize_preserves_eval` below, at
the price of one more hypothesis (the optimized tree is well-scoped). -/
theorem optimize_preserves_eval_partial (hcfg : FreeCfg cfg) (argNames : List String) (a a' : AST)
    (args args' : List Val) (n : Nat) (r : R Val)
    (hopt : optimize S M T cfg argNames a = .ok a')
    (hws : O.wscoped S argNames a = true)
    (hargs : O.VsRel (octx S M T cfg) args args')
    (hev : eval S M n a (bindParams argNames args).reverse = r) (hr : r ≠ .fuel) :
    ∃ r', O.RRel (O.VRel (octx S M T cfg)) r r' ∧
      ∃ m0, ∀ m, m0 ≤ m → eval S M m a' (bindParams argNames args').reverse = r' := by
  unfold optimize at hopt
  obtain ⟨_, hg, hopt⟩ := ebind_ok hopt
  exact ((O.simC (S := octx S M T cfg) hcfg n).expr true _ argNames a a' _ _ hopt hws
    (O.EnvC.top argNames hargs hg)).out hev hr

/-- values: the optimized program evaluates to a related value -/
theorem optimize_preserves_ok_partial (hcfg : FreeCfg cfg) (argNames : List String) (a a' : AST)
    (args args' : List Val) (n : Nat) (v : Val)
    (hopt : optimize S M T cfg argNames a = .ok a') (hws : O.wscoped S argNames a = true)
    (hargs : O.VsRel (octx S M T cfg) args args')
    (hev : eval S M n a (bindParams argNames args).reverse = .ok v) :
    ∃ v', O.VRel (octx S M T cfg) v v' ∧
      ∃ m0, ∀ m, m0 ≤ m → eval S M m a' (bindParams argNames args').reverse = .ok v' := by
  obtain ⟨r', hr, h⟩ := optimize_preserves_eval_partial hcfg argNames a a' args args' n _ hopt hws hargs hev (by simp)
  rcases hr.cases (by simp) with ⟨a1, b1, e1, rfl, hab⟩ | ⟨e1, _⟩ | ⟨e1, _⟩ | ⟨e1, _⟩
  · cases e1; exact ⟨b1, hab, h⟩
  · cases e1
  · cases e1
  · cases e1

/-- errors stay errors -/
theorem optimize_preserves_err_partial (hcfg : FreeCfg cfg) (argNames : List String) (a a' : AST)
    (args args' : List Val) (n : Nat)
    (hopt : optimize S M T cfg argNames a = .ok a') (hws : O.wscoped S argNames a = true)
    (hargs : O.VsRel (octx S M T cfg) args args')
    (hev : eval S M n a (bindParams argNames args).reverse = .err) :
    ∃ m0, ∀ m, m0 ≤ m → eval S M m a' (bindParams argNames args').reverse = .err := by
  obtain ⟨r', hr, h⟩ := optimize_preserves_eval_partial hcfg argNames a a' args args' n _ hopt hws hargs hev (by simp)
  rcases hr.cases (by simp) with ⟨a1, b1, e1, _, _⟩ | ⟨_, rfl⟩ | ⟨e1, _⟩ | ⟨e1, _⟩
  · cases e1
  · exact h
  · cases e1
  · cases e1

/-- … and only errors become errors: if the optimized program fails with an error and the original
program has a definite outcome, that outcome is an error (`.err ↔ .err`; likewise a panic of the
original program is a panic of the optimized one and `unmodelled` stays `unmodelled`, by
`optimize_preserves_eval_partial`) -/
theorem optimize_reflects_err_partial (hcfg : FreeCfg cfg) (argNames : List String) (a a' : AST)
    (args args' : List Val) (n m : Nat) (r : R Val)
    (hopt : optimize S M T cfg argNames a = .ok a') (hws : O.wscoped S argNames a = true)
    (hargs : O.VsRel (octx S M T cfg) args args')
    (hev' : eval S M m a' (bindParams argNames args').reverse = .err)
    (hev : eval S M n a (bindParams argNames args).reverse = r) (hr : r ≠ .fuel) : r = .err := by
  obtain ⟨r', hrel, m0, h⟩ := optimize_preserves_eval_partial hcfg argNames a a' args args' n _ hopt hws hargs hev hr
  have h1 := h (max m0 m) (by omega)
  have h2 := eval_fuel_mono S M hev' (by simp) (show m ≤ max m0 m by omega)
  rw [h2] at h1
  subst h1
  rcases hrel.cases hr with ⟨a1, b1, _, e1, _⟩ | ⟨e1, _⟩ | ⟨_, e1⟩ | ⟨_, e1⟩
  · cases e1
  · exact e1
  · cases e1
  · cases e1

/-- closure-free arguments and a closure-free result: the SAME value -/
theorem optimize_preserves_value_partial (hcfg : FreeCfg cfg) (argNames : List String) (a a' : AST)
    (args : List Val) (n : Nat) (v : Val)
    (hopt : optimize S M T cfg argNames a = .ok a') (hws : O.wscoped S argNames a = true)
    (hargs : ClosFreeVs args) (hv : ClosFree v)
    (hev : eval S M n a (bindParams argNames args).reverse = .ok v) :
    ∃ m0, ∀ m, m0 ≤ m → eval S M m a' (bindParams argNames args).reverse = .ok v := by
  obtain ⟨v', hvv, h⟩ := optimize_preserves_ok_partial hcfg argNames a a' args args n v hopt hws
    (O.VsRel.refl_of_closFree hargs) hev
  rw [← O.VRel.eq_of_closFree hv hvv] at h
  exact h

/-! ## the whole optimizer, rule (f) included -/

abbrev fctx (S : Statics) (M : Methods) (T : Tables) (cfg : Cfg) : F.Ctx := ⟨S, M, T, cfg⟩

/-- the simulation at the top level, from the well-scopedness (`F.wscoped`, the plain predicate:
identifiers bound, declared outer identifiers in scope, a recursive function has a name) of BOTH
trees; `optimize_preserves_eval` below derives the second from the first.

Conclusion. Whatever the original program answers at fuel `n`, unless it runs out of fuel, the
optimized program answers one and the same outcome `r'` at every fuel from some `m0` on, with
`F.RRel (F.VRel …) r r'`: `.ok v` ↦ `.ok v'` with `F.VRel v v'` (equal up to closures; closures
correspond when the right body is the optimized left body and the captured environments agree on
what the optimized body can mention), `.err` ↦ `.err`, `.panic` ↦ `.panic`, `.unmodelled` ↦
`.unmodelled`. Nothing is claimed when the original program runs out of fuel at `n`. -/
theorem optimize_preserves_eval_scoped (hcfg : F.FullCfg cfg) (argNames : List String) (a a' : AST)
    (args args' : List Val) (n : Nat) (r : R Val)
    (hopt : optimize S M T cfg argNames a = .ok a')
    (hws : F.wscoped S argNames a = true) (hws' : F.wscoped S argNames a' = true)
    (hargs : F.VsRel (fctx S M T cfg) args args')
    (hev : eval S M n a (bindParams argNames args).reverse = r) (hr : r ≠ .fuel) :
    ∃ r', F.RRel (F.VRel (fctx S M T cfg)) r r' ∧
      ∃ m0, ∀ m, m0 ≤ m → eval S M m a' (bindParams argNames args').reverse = r' := by
  unfold optimize at hopt
  obtain ⟨_, hg, hopt⟩ := ebind_ok hopt
  exact ((F.simC (S := fctx S M T cfg) hcfg n).expr true _ argNames argNames a a' _ _ hopt hws hws'
    (F.EnvC.top argNames hargs hg)).out hev hr

/-- a tree the generator accepts is well-scoped -/
theorem generate_wscoped (a : AST) (argNames : List String) (code : Code)
    (h : generate S {} a argNames = some code) : F.wscoped S argNames a = true := by
  unfold generate at h
  split at h
  · cases h
  · refine F.gen_wscoped a _ _ code argNames h (fun x hx => ?_)
    rcases hx with hx | hx
    · exact (idx_map_some_ne_none_iff_mem argNames x).mp hx
    · simp [idxS] at hx

/-- the same with "both trees compile" in place of the two well-scopedness hypotheses -/
theorem optimize_preserves_eval_of_generate (hcfg : F.FullCfg cfg) (argNames : List String) (a a' : AST)
    (code code' : Code) (args args' : List Val) (n : Nat) (r : R Val)
    (hopt : optimize S M T cfg argNames a = .ok a')
    (hgen : generate S {} a argNames = some code) (hgen' : generate S {} a' argNames = some code')
    (hargs : F.VsRel (fctx S M T cfg) args args')
    (hev : eval S M n a (bindParams argNames args).reverse = r) (hr : r ≠ .fuel) :
    ∃ r', F.RRel (F.VRel (fctx S M T cfg)) r r' ∧
      ∃ m0, ∀ m, m0 ≤ m → eval S M m a' (bindParams argNames args').reverse = r' :=
  optimize_preserves_eval_scoped hcfg argNames a a' args args' n r hopt (generate_wscoped a argNames code hgen)
    (generate_wscoped a' argNames code' hgen') hargs hev hr

/-- **C02 on the value language: `optimize` preserves `eval`** — every rule of the table in
`Model/Lang/Opt.lean`, rule (f) (closure constants) included; `cfg.foldClosures` and the folding fuel
are arbitrary.

Hypotheses. `F.FullCfg cfg`: the open findings `intAndOr` and `regroup` off, repair 89b886b on;
`optimize` succeeds (`Except.ok`: it met nothing it does not model); the ORIGINAL tree is
well-scoped (`O.wscoped`, decidable, `Proofs/LangORel.lean`: identifiers are bound, the declared
outer identifiers of closure literals are in scope, a recursive function has a name, the own name of
a function is not among its outer identifiers — true of every tree the parser produces for a
program that compiles); related argument lists (`F.VsRel`: equal up to closures).

Conclusion. Whatever the original program answers at fuel `n`, unless it runs out of fuel, the
optimized program answers one and the same outcome `r'` at every fuel from some `m0` on, with
`F.RRel (F.VRel …) r r'`: `.ok v` ↦ `.ok v'` with `F.VRel v v'`, `.err` ↦ `.err`, `.panic` ↦ `.panic`,
`.unmodelled` ↦ `.unmodelled`. -/
theorem optimize_preserves_eval (hcfg : F.FullCfg cfg) (argNames : List String) (a a' : AST)
    (args args' : List Val) (n : Nat) (r : R Val)
    (hopt : optimize S M T cfg argNames a = .ok a')
    (hws : O.wscoped S argNames a = true)
    (hargs : F.VsRel (fctx S M T cfg) args args')
    (hev : eval S M n a (bindParams argNames args).reverse = r) (hr : r ≠ .fuel) :
    ∃ r', F.RRel (F.VRel (fctx S M T cfg)) r r' ∧
      ∃ m0, ∀ m, m0 ≤ m → eval S M m a' (bindParams argNames args').reverse = r' :=
  optimize_preserves_eval_scoped hcfg argNames a a' args args' n r hopt (F.wscoped_of_strict a argNames hws)
    (F.optimize_wscoped hcfg argNames a a' hopt hws) hargs hev hr

/-- the optimized tree of a well-scoped program is well-scoped -/
theorem optimize_preserves_wscoped (hcfg : F.FullCfg cfg) (argNames : List String) (a a' : AST)
    (hopt : optimize S M T cfg argNames a = .ok a') (hws : O.wscoped S argNames a = true) :
    F.wscoped S argNames a' = true := F.optimize_wscoped hcfg argNames a a' hopt hws

/-- values: the optimized program evaluates to a related value -/
theorem optimize_preserves_ok (hcfg : F.FullCfg cfg) (argNames : List String) (a a' : AST)
    (args args' : List Val) (n : Nat) (v : Val)
    (hopt : optimize S M T cfg argNames a = .ok a')
    (hws : O.wscoped S argNames a = true)
    (hargs : F.VsRel (fctx S M T cfg) args args')
    (hev : eval S M n a (bindParams argNames args).reverse = .ok v) :
    ∃ v', F.VRel (fctx S M T cfg) v v' ∧
      ∃ m0, ∀ m, m0 ≤ m → eval S M m a' (bindParams argNames args').reverse = .ok v' := by
  obtain ⟨r', hr, h⟩ := optimize_preserves_eval hcfg argNames a a' args args' n _ hopt hws hargs hev (by simp)
  rcases hr.cases (by simp) with ⟨a1, b1, e1, rfl, hab⟩ | ⟨e1, _⟩ | ⟨e1, _⟩ | ⟨e1, _⟩
  · cases e1; exact ⟨b1, hab, h⟩
  · cases e1
  · cases e1
  · cases e1

/-- errors stay errors -/
theorem optimize_preserves_err (hcfg : F.FullCfg cfg) (argNames : List String) (a a' : AST)
    (args args' : List Val) (n : Nat)
    (hopt : optimize S M T cfg argNames a = .ok a')
    (hws : O.wscoped S argNames a = true)
    (hargs : F.VsRel (fctx S M T cfg) args args')
    (hev : eval S M n a (bindParams argNames args).reverse = .err) :
    ∃ m0, ∀ m, m0 ≤ m → eval S M m a' (bindParams argNames args').reverse = .err := by
  obtain ⟨r', hr, h⟩ := optimize_preserves_eval hcfg argNames a a' args args' n _ hopt hws hargs hev (by simp)
  rcases hr.cases (by simp) with ⟨a1, b1, e1, _, _⟩ | ⟨_, rfl⟩ | ⟨e1, _⟩ | ⟨e1, _⟩
  · cases e1
  · exact h
  · cases e1
  · cases e1

/-- … and only errors become errors (given that the original program has a definite outcome) -/
theorem optimize_reflects_err (hcfg : F.FullCfg cfg) (argNames : List String) (a a' : AST)
    (args args' : List Val) (n m : Nat) (r : R Val)
    (hopt : optimize S M T cfg argNames a = .ok a')
    (hws : O.wscoped S argNames a = true)
    (hargs : F.VsRel (fctx S M T cfg) args args')
    (hev' : eval S M m a' (bindParams argNames args').reverse = .err)
    (hev : eval S M n a (bindParams argNames args).reverse = r) (hr : r ≠ .fuel) : r = .err := by
  obtain ⟨r', hrel, m0, h⟩ := optimize_preserves_eval hcfg argNames a a' args args' n _ hopt hws hargs hev hr
  have h1 := h (max m0 m) (by omega)
  have h2 := eval_fuel_mono S M hev' (by simp) (show m ≤ max m0 m by omega)
  rw [h2] at h1
  subst h1
  rcases hrel.cases hr with ⟨a1, b1, _, e1, _⟩ | ⟨e1, _⟩ | ⟨_, e1⟩ | ⟨_, e1⟩
  · cases e1
  · exact e1
  · cases e1
  · cases e1

/-- closure-free arguments and a closure-free result: the SAME value -/
theorem optimize_preserves_value (hcfg : F.FullCfg cfg) (argNames : List String) (a a' : AST)
    (args : List Val) (n : Nat) (v : Val)
    (hopt : optimize S M T cfg argNames a = .ok a')
    (hws : O.wscoped S argNames a = true)
    (hargs : ClosFreeVs args) (hv : ClosFree v)
    (hev : eval S M n a (bindParams argNames args).reverse = .ok v) :
    ∃ m0, ∀ m, m0 ≤ m → eval S M m a' (bindParams argNames args).reverse = .ok v := by
  obtain ⟨v', hvv, h⟩ := optimize_preserves_ok hcfg argNames a a' args args n v hopt hws
    (F.VsRel.refl_of_closFree hargs) hev
  rw [← F.VRel.eq_of_closFree hv hvv] at h
  exact h

/-! ## non-vacuity and pinned witnesses -/

def M0 : Methods := fun ty name => (methodSig ty name).map (fun k => if k < 0 then k else k + 1)
/-- flags of today's tables (`ValueTables`): everything pure, only `*` commutative -/
def T0 : Tables := { opPure := fun _ => true, opComm := fun op => op == "*", methPure := fun _ _ => true }
/-- the configuration for which the partial theorems are meant: no int `&`/`|`, no regrouping -/
def sound : Cfg := { intAndOr := false, regroup := false, fuel := 30 }
def head : Cfg := { fuel := 30 }
def beforeFix : Cfg := { fuel := 30, closureFieldWins := false }

def outInt : R Val → Option Int
  | .ok (.int i) => some i
  | _ => none
def isErr : R Val → Bool
  | .err => true
  | _ => false
/-- evaluate the optimized program -/
def runOpt (c : Cfg) (names : List String) (a : AST) (args : List Val) : Option Int :=
  match optimize staticSig M0 T0 c names a with
  | .ok a' => outInt (runReference staticSig M0 40 a' names args)
  | .error _ => none
def optIs (c : Cfg) (names : List String) (a : AST) (p : AST → Bool) : Bool :=
  match optimize staticSig M0 T0 c names a with
  | .ok a' => p a'
  | .error _ => false

/-- `let k = 2 + 3; [1, 2][0] + k * a` with argument `a` -/
def prog1 : AST :=
  .letE "k" (.binop "+" (.const (.int 2)) (.const (.int 3)))
    (.binop "+" (.index (.const (.int 0)) (.listLit [.const (.int 1), .const (.int 2)]))
      (.binop "*" (.ident "k") (.ident "a")))

/-- the optimizer really rewrites `prog1` to `1 + 5 * a` (let inlined, two foldings) … -/
example : optIs sound ["a"] prog1 (fun a' => match a' with
    | .binop "+" (.const (.int 1)) (.binop "*" (.const (.int 5)) (.ident "a")) => true
    | _ => false) = true := by decide
/-- … and both programs evaluate to 1 + 5·7 -/
example : outInt (runReference staticSig M0 40 prog1 ["a"] [.int 7]) = some 36 := by decide
example : runOpt sound ["a"] prog1 [.int 7] = some 36 := by decide

/-- the configuration of `optimize_preserves_eval_closureFree` -/
def free : Cfg := { intAndOr := false, regroup := false, foldClosures := false, fuel := 30 }
theorem free_ok : FreeCfg free := ⟨rfl, rfl, rfl, rfl⟩

/-- `1 + 5 * a` -/
def prog1Opt : AST := .binop "+" (.const (.int 1)) (.binop "*" (.const (.int 5)) (.ident "a"))

/-- non-vacuity of `optimize_preserves_eval_closureFree`: `prog1` is closure-free, the optimizer
really changes it (let inlined, two foldings), and the theorem yields the value of the optimized
program at every large fuel -/
example : ∃ m0, ∀ m, m0 ≤ m →
    outInt (eval staticSig M0 m prog1Opt (bindParams ["a"] [.int 7]).reverse) = some 36 := by
  have hopt : optimize staticSig M0 T0 free ["a"] prog1 = .ok prog1Opt := by rfl
  have hcf : closureFree staticSig ["a"] prog1 = true := by decide
  have h36 : outInt (eval staticSig M0 40 prog1 (bindParams ["a"] [.int 7]).reverse) = some 36 := by decide
  obtain ⟨m0, h⟩ := optimize_preserves_eval_closureFree free_ok ["a"] prog1 prog1Opt [.int 7] 40 _ hopt hcf rfl
    (by intro hf; rw [hf] at h36; cases h36)
  exact ⟨m0, fun m hm => by rw [h m hm]; exact h36⟩

/-- `let k = 2 + 3; func f(x) x * k + (1 + 1); f(a)` as the parser produces it without an optimizer
(`k` is a variable, hence an outer identifier of `f`) -/
def prog3 : AST :=
  .letE "k" (.binop "+" (.const (.int 2)) (.const (.int 3)))
    (.letE "f" (.clos ["x"] (.binop "+" (.binop "*" (.ident "x") (.ident "k"))
        (.binop "+" (.const (.int 1)) (.const (.int 1)))) ["k"] false "f")
      (.call (.ident "f") [.ident "a"]))
/-- `func f(x) x * 5 + 2; f(a)`: the constant is inlined INTO the closure body, the body is folded,
`k` is no longer an outer identifier -/
def prog3Opt : AST :=
  .letE "f" (.clos ["x"] (.binop "+" (.binop "*" (.ident "x") (.const (.int 5))) (.const (.int 2))) [] false "f")
    (.call (.ident "f") [.ident "a"])

/-- non-vacuity of `optimize_preserves_value_partial` on a program whose closure body changes -/
example : ∃ m0, ∀ m, m0 ≤ m →
    eval staticSig M0 m prog3Opt (bindParams ["a"] [.int 7]).reverse = .ok (.int 37) := by
  have hopt : optimize staticSig M0 T0 free ["a"] prog3 = .ok prog3Opt := by rfl
  have hws : O.wscoped staticSig ["a"] prog3 = true := by decide
  have h37 : outInt (eval staticSig M0 40 prog3 (bindParams ["a"] [.int 7]).reverse) = some 37 := by decide
  have hev : eval staticSig M0 40 prog3 (bindParams ["a"] [.int 7]).reverse = .ok (.int 37) := by
    generalize eval staticSig M0 40 prog3 (bindParams ["a"] [.int 7]).reverse = r at h37
    cases r with
    | ok v =>
      cases v <;> simp [outInt] at h37
      rw [h37]
    | _ => simp [outInt] at h37
  exact optimize_preserves_value_partial free_ok ["a"] prog3 prog3Opt [.int 7] 40 (.int 37) hopt hws
    (.cons (.int 7) .nil) (.int 37) hev

theorem sound_ok : F.FullCfg sound := ⟨rfl, rfl, rfl⟩

/-- `func f(x) x + (1 + 1); f(a) + f(2)`: `f` has no outer identifiers and a pure body -/
def prog4 : AST :=
  .letE "f" (.clos ["x"] (.binop "+" (.ident "x") (.binop "+" (.const (.int 1)) (.const (.int 1)))) [] false "f")
    (.binop "+" (.call (.ident "f") [.ident "a"]) (.call (.ident "f") [.const (.int 2)]))
/-- rule (f): the closure (with folded body) is a constant, inlined at the first use, and the second
call — constant closure, constant argument — is folded: `(x -> x + 2)(a) + 4` -/
def prog4Opt : AST :=
  .binop "+" (.call (.clos ["x"] (.binop "+" (.ident "x") (.const (.int 2))) [] false "f") [.ident "a"])
    (.const (.int 4))

/-- non-vacuity of `optimize_preserves_value` (rule (f) fires twice) -/
example : ∃ m0, ∀ m, m0 ≤ m →
    eval staticSig M0 m prog4Opt (bindParams ["a"] [.int 7]).reverse = .ok (.int 13) := by
  have hopt : optimize staticSig M0 T0 sound ["a"] prog4 = .ok prog4Opt := by rfl
  have hws : O.wscoped staticSig ["a"] prog4 = true := by decide
  have h13 : outInt (eval staticSig M0 40 prog4 (bindParams ["a"] [.int 7]).reverse) = some 13 := by decide
  have hev : eval staticSig M0 40 prog4 (bindParams ["a"] [.int 7]).reverse = .ok (.int 13) := by
    generalize eval staticSig M0 40 prog4 (bindParams ["a"] [.int 7]).reverse = r at h13
    cases r with
    | ok v =>
      cases v <;> simp [outInt] at h13
      rw [h13]
    | _ => simp [outInt] at h13
  exact optimize_preserves_value sound_ok ["a"] prog4 prog4Opt [.int 7] 40 (.int 13) hopt hws
    (.cons (.int 7) .nil) (.int 13) hev

/-- the hypotheses of `fold_binop_sound_partial` hold on `2 + 3 ↦ 5` -/
example : rule staticSig M0 T0 sound [("a", none)] (.binop "+" (.const (.int 2)) (.const (.int 3)))
    = .ok (.const (.int 5)) := by rfl
/-- … of `fold_index_sound_partial` on `[1, 2][0] ↦ 1`, of `fold_static_sound_partial` on `abs(-3)` -/
example : rule staticSig M0 T0 sound [] (.index (.const (.int 0)) (.listLit [.const (.int 1), .const (.int 2)]))
    = .ok (.const (.int 1)) := by rfl
example : rule staticSig M0 T0 sound [] (.call (.ident "abs") [.const (.int (-3))]) = .ok (.const (.int 3)) := by
  rfl
/-- a failing folding leaves the node alone: `[1, 2][5]` -/
example : rule staticSig M0 T0 sound [] (.index (.const (.int 5)) (.listLit [.const (.int 1), .const (.int 2)]))
    = .ok (.index (.const (.int 5)) (.listLit [.const (.int 1), .const (.int 2)])) := by rfl
/-- `throw` is declared impure: never folded -/
example : rule staticSig M0 T0 sound [] (.call (.ident "throw") [.const (.str "x")])
    = .ok (.call (.ident "throw") [.const (.str "x")]) := rule_keeps_impure_call [] "throw" _ 1 rfl

/-- rule (f) and the parse-time inlining: `let f = x -> x + 1; f(2)` becomes the constant 3 -/
def prog2 : AST :=
  .letE "f" (.clos ["x"] (.binop "+" (.ident "x") (.const (.int 1))) [] false "")
    (.call (.ident "f") [.const (.int 2)])
example : optIs head [] prog2 (fun a' => match a' with | .const (.int 3) => true | _ => false) = true := by
  decide

/-! ### repair 89b886b: `{get: k -> 42, a: 1}.get("a")` -/

def fieldVsMethod : AST :=
  .method (.mapLit [("get", .clos ["k"] (.const (.int 42)) [] false ""), ("a", .const (.int 1))]) "get"
    [.const (.str "a")]

/-- at run time the closure stored in the field `get` wins -/
theorem fieldVsMethod_reference : outInt (runReference staticSig M0 40 fieldVsMethod [] []) = some 42 := by
  decide
/-- before the repair the optimizer folded the *method* `get`: the optimized program answers 1 -/
theorem pinned_fieldVsMethod_beforeFix : runOpt beforeFix [] fieldVsMethod [] = some 1 := by decide
/-- today the node is left alone -/
theorem current_fieldVsMethod : runOpt head [] fieldVsMethod [] = some 42 := by decide
theorem pinned_fieldVsMethod_witness :
    runOpt beforeFix [] fieldVsMethod [] ≠ outInt (runReference staticSig M0 40 fieldVsMethod [] []) := by
  rw [pinned_fieldVsMethod_beforeFix, fieldVsMethod_reference]; decide

/-! ### open finding `const-int-and-or`: `3 & 5` -/

def intAnd : AST := .binop "&" (.const (.int 3)) (.const (.int 5))

/-- the compiled / reference semantics of `&` accepts bools only -/
theorem intAnd_reference : isErr (runReference staticSig M0 40 intAnd [] []) = true := by decide
/-- HEAD: folding goes through the `And` matrix, which accepts two ints: the program becomes `1` -/
theorem pinned_intAnd_head : runOpt head [] intAnd [] = some 1 := by decide
/-- on bools the matrix and the short-circuit code agree: `true & false` is folded to `false` -/
example : optIs sound [] (.binop "&" (.const (.bool true)) (.const (.bool false))) (fun a' => match a' with
    | .const (.bool false) => true | _ => false) = true := by decide

/-! ### open finding `regroup-mul-int-wrap`: `(2 * x) * 4611686018427387904` -/

def mulChain : AST := .binop "*" (.binop "*" (.const (.int 2)) (.ident "x")) (.const (.int 4611686018427387904))

/-- HEAD regroups to `(2 * 2^62) * x`, and the constant product has wrapped around to −2^63: for the
float argument `x = 0.5` the original program is `(2 * 0.5) * 2^62 = 2^62`, the optimized one
`−2^63 * 0.5 = −2^62` (floats do not reduce in the kernel; the integer fact is the witness) -/
theorem pinned_mulChain_head : optIs head ["x"] mulChain (fun a' => match a' with
    | .binop "*" (.const (.int (-9223372036854775808))) (.ident "x") => true | _ => false) = true := by decide
theorem mulChain_without_regroup : optIs sound ["x"] mulChain (fun a' => match a' with
    | .binop "*" (.binop "*" (.const (.int 2)) (.ident "x")) (.const (.int 4611686018427387904)) => true
    | _ => false) = true := by decide

/-! ### repair 8aa887a: the purity of a method call comes from its NAME -/

/-- a host registers the method `tickM` as impure -/
def impureTick : Cfg := { fuel := 30, methNamePure := fun n => n != "tickM" }
/-- `v -> v.tickM()`: a closure without outer identifiers whose body calls that method -/
def tickClosure : AST := .clos ["v"] (.method (.ident "v") "tickM" []) [] false ""

/-- pinned: with the name declared impure the closure is NOT a constant (so `(v -> v.tickM())(1)` is not evaluated during
Generate); before the repair - no method name was impure for `GenerateFunc` - it was -/
theorem pinned_impure_method_closure_not_constant :
    isConst staticSig impureTick tickClosure = false ∧ isConst staticSig head tickClosure = true := by
  constructor <;> decide

/-- the application to a constant is left alone by the whole optimizer -/
theorem pinned_impure_method_call_not_folded :
    optIs impureTick ["a"] (.call tickClosure [.const (.int 1)]) (fun a' => match a' with
      | .call (.clos _ _ _ _ _) [.const (.int 1)] => true
      | _ => false) = true := by decide

end P2.C02Lang
