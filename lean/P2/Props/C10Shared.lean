import P2.Model.Shared
import P2.Proofs.Memo
/-! # C10 / C11 — shared state of generator, parser and generated function

`P2.Shared` is the life cycle of the long-lived objects as a state machine, parametric in how the operations READ the shared
state (`Sem`, as permissive as possible) and in which WRITES they perform (`Table`). The theorems below hold for EVERY `Sem`
under the one hypothesis `T.Allowed`: every write reachable from an evaluation is to an object of that evaluation or is
the memo-cell store under the cell's mutex; every write reachable from Generate / Parse / New is private, the memo-cell store, or
the idempotent freeze of the derived tables. `P2.Oblig.SharedWrites` discharges the hypothesis for the table regenerated from
the Go source on every run. The pinned witnesses at the end (the two defects repaired late: cee1484, c0afced) show the
hypothesis cannot be dropped.

The memo cell itself is `P2.Memo`; what an evaluation sees of it after any history is `P2.C10.memo_history_outcome` /
`memo_history_transparent` (cited here through `P2.Memo.step_outcome`), including the one clause where the code is NOT
transparent (an evaluation at the value-stack limit, `memo_cache_hides_overflow`): hence the hypothesis `maxNeed ≤ free`. -/
namespace P2.C10S
open P2.Shared P2.Memo

/-! ## writes of an allowed table leave the shared state alone -/

theorem applyWrite_ok (s : State) (w : Write) (h : w.ok = true) : applyWrite s w = s := by
  cases w with
  | mk loc g v => cases loc <;> simp_all [Write.ok, applyWrite]

theorem writes_ok (s : State) (ws : List Write) (h : ws.all Write.ok = true) : writes s ws = s := by
  induction ws generalizing s with
  | nil => rfl
  | cons w ws ih =>
    simp only [List.all_cons, Bool.and_eq_true] at h
    simp only [writes, List.foldl_cons]
    rw [applyWrite_ok s w h.1]
    exact ih s h.2

theorem allowed_eval {T : Table} (h : T.Allowed = true) : T.evalW.all Write.ok = true := by
  simp only [Table.Allowed, Bool.and_eq_true] at h
  rw [List.all_eq_true] at *
  intro w hw
  exact Write.ok_of_okConc (h.1 w hw)

theorem allowed_rest {T : Table} (h : T.Allowed = true) :
    T.genW.all Write.ok = true ∧ T.parseW.all Write.ok = true ∧ T.newW.all Write.ok = true := by
  simp only [Table.Allowed, Bool.and_eq_true, List.all_append] at h
  exact ⟨h.2.1.1, h.2.1.2, h.2.2⟩

/-- every cell of the state belongs to its function and satisfies the memo invariant (what is stored is what the producer
yields) -/
def Good (s : State) : Prop := ∀ (f : Nat) (fn : Fn) (c : Cell), s.funs[f]? = some (fn, c) → Inv c ∧ c.src = fn.src

/-- what an operation may change: the derived tables get frozen, cells get materialised, functions get added -/
structure Stable (s s' : State) : Prop where
  cfg : s'.cfg = s.cfg
  pkg : s'.pkg = s.pkg
  derived : ∀ d, s.derived = some d → s'.derived = some d
  funs : ∀ (f : Nat) (fn : Fn) (c : Cell), s.funs[f]? = some (fn, c) → ∃ c' : Cell, s'.funs[f]? = some (fn, c')
  good : Good s'

theorem Stable.refl {s : State} (h : Good s) : Stable s s :=
  ⟨rfl, rfl, fun _ h => h, fun _ _ c h => ⟨c, h⟩, h⟩

theorem Stable.trans {a b c : State} (h1 : Stable a b) (h2 : Stable b c) : Stable a c :=
  ⟨h2.cfg.trans h1.cfg, h2.pkg.trans h1.pkg, fun d h => h2.derived d (h1.derived d h),
    fun f fn x h => by
      obtain ⟨c', hc'⟩ := h1.funs f fn x h
      exact h2.funs f fn c' hc',
    h2.good⟩

theorem freeze_cfg (sem : Sem) (s : State) : (freeze sem s).cfg = s.cfg ∧ (freeze sem s).pkg = s.pkg ∧
    (freeze sem s).funs = s.funs ∧ (∀ d, s.derived = some d → (freeze sem s).derived = some d) := by
  unfold freeze
  cases h : s.derived <;> simp_all

theorem set_cell_stable {s : State} (hg : Good s) (f : Nat) (fn : Fn) (c : Cell) (o : Op)
    (hf : s.funs[f]? = some (fn, c)) : Stable s { s with funs := s.funs.set f (fn, (c.step o).1) } := by
  have hc := hg f fn c hf
  refine ⟨rfl, rfl, fun _ h => h, ?_, ?_⟩
  · intro g fn' c' hg'
    by_cases hfg : f = g
    · subst hfg
      rw [hf] at hg'
      cases hg'
      have hlt : f < s.funs.length := by
        rcases Nat.lt_or_ge f s.funs.length with h | h
        · exact h
        · rw [List.getElem?_eq_none h] at hf; cases hf
      exact ⟨(c.step o).1, by simp [List.getElem?_set_self hlt]⟩
    · exact ⟨c', by simpa [List.getElem?_set_ne hfg] using hg'⟩
  · intro g fn' c' hg'
    by_cases hfg : f = g
    · subst hfg
      have hlt : f < s.funs.length := by
        rcases Nat.lt_or_ge f s.funs.length with h | h
        · exact h
        · rw [List.getElem?_eq_none h] at hf; cases hf
      simp only [List.getElem?_set_self hlt, Option.some.injEq, Prod.mk.injEq] at hg'
      obtain ⟨rfl, rfl⟩ := hg'
      exact ⟨step_inv c o hc.1, by rw [step_src]; exact hc.2⟩
    · simp only [List.getElem?_set_ne hfg] at hg'
      exact hg g fn' c' hg'

/-- one operation of the host, under an allowed table -/
theorem step_stable (sem : Sem) (T : Table) (hT : T.Allowed = true) (s : State) (hg : Good s) (o : HOp) :
    Stable s (step sem T s o).1 := by
  obtain ⟨hgen, hparse, hnew⟩ := allowed_rest hT
  have heval := allowed_eval hT
  obtain ⟨fc, fp, ff, fd⟩ := freeze_cfg sem s
  cases o with
  | parse p =>
    simp only [step]
    rw [writes_ok _ _ hparse]
    exact ⟨fc, fp, fd, fun f fn c h => ⟨c, by rw [ff]; exact h⟩, by intro f fn c h; rw [ff] at h; exact hg f fn c h⟩
  | generate p =>
    simp only [step]
    rw [writes_ok _ _ (by rw [List.all_append, hparse, hgen]; rfl)]
    refine ⟨fc, fp, fd, ?_, ?_⟩
    · intro f fn c h
      refine ⟨c, ?_⟩
      have hlt : f < s.funs.length := by
        rcases Nat.lt_or_ge f s.funs.length with h' | h'
        · exact h'
        · rw [List.getElem?_eq_none h'] at h; cases h
      simp only [ff]
      rw [List.getElem?_append_left hlt]
      exact h
    · intro f fn c h
      simp only [ff] at h
      rcases Nat.lt_or_ge f s.funs.length with hlt | hge
      · rw [List.getElem?_append_left hlt] at h
        exact hg f fn c h
      · rw [List.getElem?_append_right hge] at h
        cases hi : f - s.funs.length with
        | zero =>
          rw [hi] at h
          simp only [List.getElem?_cons_zero, Option.some.injEq, Prod.mk.injEq] at h
          obtain ⟨rfl, rfl⟩ := h
          exact ⟨inv_fresh _, rfl⟩
        | succ n =>
          rw [hi] at h
          simp at h
  | eval f args free =>
    simp only [step]
    cases hf : s.funs[f]? with
    | none => exact Stable.refl hg
    | some fc' =>
      obtain ⟨fn, c⟩ := fc'
      simp only
      rw [writes_ok _ _ heval]
      exact set_cell_stable hg f fn c _ hf
  | force f o =>
    simp only [step]
    cases hf : s.funs[f]? with
    | none => exact Stable.refl hg
    | some fc' =>
      obtain ⟨fn, c⟩ := fc'
      exact set_cell_stable hg f fn c _ hf
  | newGen =>
    simp only [step]
    rw [writes_ok _ _ hnew]
    exact Stable.refl hg

theorem run_stable (sem : Sem) (T : Table) (hT : T.Allowed = true) (s : State) (hg : Good s) (hist : List HOp) :
    Stable s (Shared.run sem T s hist) := by
  induction hist generalizing s with
  | nil => exact Stable.refl hg
  | cons o os ih =>
    have h1 := step_stable sem T hT s hg o
    exact h1.trans (ih _ h1.good)

/-- the state at the end of the configuration phase: no function generated yet -/
def configured (cfg pkg : List Nat) (ws : List (Nat × Nat)) : State := configure ⟨cfg, pkg, none, []⟩ ws

theorem configure_funs (s : State) (ws : List (Nat × Nat)) : (configure s ws).funs = s.funs := by
  induction ws generalizing s with
  | nil => rfl
  | cons w ws ih => simp only [configure, List.foldl_cons] at *; rw [ih]

theorem good_configured (cfg pkg : List Nat) (ws : List (Nat × Nat)) : Good (configured cfg pkg ws) := by
  intro f fn c h
  rw [configured, configure_funs] at h
  simp at h

/-! ## The theorems -/

/-- C10S.1 `generate_eval_preserve_config`: after the configuration phase NO history of Parse / Generate / Eval / force /
New operations changes the generator and parser tables or a package-level variable, and once the derived tables are frozen
they stay as they are — for every way the operations read the state and every allowed write table. -/
theorem generate_eval_preserve_config (sem : Sem) (T : Table) (hT : T.Allowed = true) (s : State) (hg : Good s)
    (hist : List HOp) :
    (Shared.run sem T s hist).cfg = s.cfg ∧ (Shared.run sem T s hist).pkg = s.pkg ∧
      ∀ d, s.derived = some d → (Shared.run sem T s hist).derived = some d :=
  let h := run_stable sem T hT s hg hist
  ⟨h.cfg, h.pkg, h.derived⟩

/-- the derived tables, whenever they get frozen, are the ones of the configuration at the end of the configuration phase:
the lazy initialisation in `GetParser` / `Parser.Parse` is idempotent and history-independent -/
theorem derived_tables_history_independent (sem : Sem) (T : Table) (hT : T.Allowed = true) (s : State) (hg : Good s)
    (hist : List HOp) : derivedOf sem (Shared.run sem T s hist) = derivedOf sem s := by
  induction hist generalizing s with
  | nil => rfl
  | cons o os ih =>
    have h1 := step_stable sem T hT s hg o
    simp only [Shared.run]
    rw [ih _ h1.good]
    -- one step: frozen stays, unfrozen is frozen to `derive cfg` or stays unfrozen with the same cfg
    obtain ⟨hgen, hparse, hnew⟩ := allowed_rest hT
    have heval := allowed_eval hT
    cases o with
    | parse p =>
      simp only [step]; rw [writes_ok _ _ hparse]
      unfold derivedOf freeze; cases hd : s.derived <;> simp [hd]
    | generate p =>
      simp only [step]; rw [writes_ok _ _ (by rw [List.all_append, hparse, hgen]; rfl)]
      unfold derivedOf freeze; cases hd : s.derived <;> simp [hd]
    | eval f args free =>
      simp only [step]
      cases s.funs[f]? with
      | none => rfl
      | some fc => simp only; rw [writes_ok _ _ heval]; rfl
    | force f o =>
      simp only [step]
      cases s.funs[f]? with
      | none => rfl
      | some fc => rfl
    | newGen => simp only [step]; rw [writes_ok _ _ hnew]

/-- C10S.2 `generate_independent_of_history`: `Generate(p)` returns the same function whatever happened on the generator
in between (other Generate calls, evaluations of other functions, failing evaluations, another generator being created). -/
theorem generate_independent_of_history (sem : Sem) (T : Table) (hT : T.Allowed = true) (s : State) (hg : Good s)
    (hist : List HOp) (p : Nat) :
    (step sem T (Shared.run sem T s hist) (.generate p)).2 = (step sem T s (.generate p)).2 := by
  have h := run_stable sem T hT s hg hist
  simp only [step, h.cfg, h.pkg]

/-- the same for Parse: the AST of a program text does not depend on the history -/
theorem parse_independent_of_history (sem : Sem) (T : Table) (hT : T.Allowed = true) (s : State) (hg : Good s)
    (hist : List HOp) (p : Nat) :
    (step sem T (Shared.run sem T s hist) (.parse p)).2 = (step sem T s (.parse p)).2 := by
  have h := run_stable sem T hT s hg hist
  simp only [step, h.cfg, derived_tables_history_independent sem T hT s hg hist]

/-- what an evaluation returns on a function nobody has touched since it was generated -/
def isolatedEval (sem : Sem) (cfg pkg : List Nat) (fn : Fn) (args free : Nat) : Out :=
  .val (sem.result cfg pkg fn args (isolated fn.src (sem.cellOp fn args free)))

/-- an evaluation in a good state, with enough stack for the closures of the lazy constant (the memo-cell clause:
`P2.C10.memo_history_transparent`, `P2.C10.memo_cache_hides_overflow`) -/
theorem eval_in_good_state (sem : Sem) (T : Table) (s : State) (hg : Good s) (f : Nat) (fn : Fn) (c : Cell)
    (hf : s.funs[f]? = some (fn, c)) (args free : Nat) (hfree : maxNeed fn.src ≤ (sem.cellOp fn args free).free) :
    (step sem T s (.eval f args free)).2 = isolatedEval sem s.cfg s.pkg fn args free := by
  obtain ⟨hinv, hsrc⟩ := hg f fn c hf
  simp only [step, hf, isolatedEval]
  have h := step_outcome c hinv (sem.cellOp fn args free)
  rw [hsrc] at h
  rcases h with h | ⟨hov, _⟩
  · rw [h]
  · exact absurd hov (isolated_no_overflow fn.src _ hfree)

/-- C10S.3 `eval_independent_of_history`: generate `p` in any good state; then, after ANY history of operations on the
generator, its functions and their lazy constants, `Eval(f, args)` returns what it returns right after Generate — for every
`Sem`, under the allowed-table hypothesis and the memo-cell clause (enough free stack slots for the closures of the lazy
constant; without it: `P2.C10.memo_history_outcome`). -/
theorem eval_independent_of_history (sem : Sem) (T : Table) (hT : T.Allowed = true) (s : State) (hg : Good s) (p : Nat)
    (hist : List HOp) (args free : Nat) :
    let s1 := (step sem T s (.generate p)).1
    let fn := sem.compile s.cfg s.pkg p
    let f := s.funs.length
    maxNeed fn.src ≤ (sem.cellOp fn args free).free →
    (step sem T (Shared.run sem T s1 hist) (.eval f args free)).2 = (step sem T s1 (.eval f args free)).2 := by
  intro s1 fn f hfree
  have h1 : Stable s s1 := step_stable sem T hT s hg (.generate p)
  have h2 : Stable s1 (Shared.run sem T s1 hist) := run_stable sem T hT s1 h1.good hist
  have hf1 : s1.funs[f]? = some (fn, fresh fn.src) := by
    obtain ⟨hgen, hparse, _⟩ := allowed_rest hT
    obtain ⟨_, _, ff, _⟩ := freeze_cfg sem s
    show (step sem T s (.generate p)).1.funs[s.funs.length]? = _
    simp only [step]
    rw [writes_ok _ _ (by rw [List.all_append, hparse, hgen]; rfl)]
    simp only [ff, List.getElem?_append_right (Nat.le_refl _), Nat.sub_self, List.getElem?_cons_zero]
    rfl
  obtain ⟨c', hf2⟩ := h2.funs f fn _ hf1
  rw [eval_in_good_state sem T _ h2.good f fn c' hf2 args free hfree,
    eval_in_good_state sem T _ h1.good f fn _ hf1 args free hfree, h2.cfg, h2.pkg]

/-- C10S.3 for whole histories of evaluations of one function: every outcome is the isolated one -/
theorem eval_history_isolated (sem : Sem) (T : Table) (hT : T.Allowed = true) (s : State) (hg : Good s) (f : Nat)
    (fn : Fn) (c : Cell) (hf : s.funs[f]? = some (fn, c)) (calls : List (Nat × Nat))
    (hfree : ∀ a ∈ calls, maxNeed fn.src ≤ (sem.cellOp fn a.1 a.2).free) :
    outcomes sem T s (calls.map (fun a => .eval f a.1 a.2)) =
      calls.map (fun a => isolatedEval sem s.cfg s.pkg fn a.1 a.2) := by
  induction calls generalizing s c with
  | nil => rfl
  | cons a rest ih =>
    simp only [List.map_cons, outcomes]
    have h1 := step_stable sem T hT s hg (.eval f a.1 a.2)
    obtain ⟨c', hc'⟩ := h1.funs f fn c hf
    rw [eval_in_good_state sem T s hg f fn c hf a.1 a.2 (hfree a (List.mem_cons_self ..)),
      ih _ h1.good c' hc' (fun b hb => hfree b (List.mem_cons_of_mem _ hb)), h1.cfg, h1.pkg]

/-! ## Concurrent evaluations -/

theorem Interleave.mem {as bs : List Acc} {cs : List (Bool × Acc)} (h : Interleave as bs cs) :
    ∀ x ∈ cs, x.2 ∈ as ∨ x.2 ∈ bs := by
  induction h with
  | nil => intro x hx; cases hx
  | left _ ih =>
    intro x hx
    rcases List.mem_cons.1 hx with rfl | h'
    · exact Or.inl (List.mem_cons_self ..)
    · rcases ih x h' with h1 | h1
      · exact Or.inl (List.mem_cons_of_mem _ h1)
      · exact Or.inr h1
  | right _ ih =>
    intro x hx
    rcases List.mem_cons.1 hx with rfl | h'
    · exact Or.inr (List.mem_cons_self ..)
    · rcases ih x h' with h1 | h1
      · exact Or.inl h1
      · exact Or.inr (List.mem_cons_of_mem _ h1)

/-- a step that is harmless for concurrent evaluations: a critical section with enough stack, or a private write -/
def AccOk (sem : Sem) (fn : Fn) : Acc → Prop
  | .cellCrit args free => maxNeed fn.src ≤ (sem.cellOp fn args free).free
  | .cellRaw _ _ => False
  | .w w => w.okConc = true

theorem evalAtoms_ok (sem : Sem) (fn : Fn) (T : Table) (hT : T.Allowed = true) (args free : Nat)
    (hfree : maxNeed fn.src ≤ (sem.cellOp fn args free).free) : ∀ a ∈ evalAtoms T args free, AccOk sem fn a := by
  have hall : T.evalW.all Write.okConc = true := by
    simp only [Table.Allowed, Bool.and_eq_true] at hT; exact hT.1
  have hguard : T.cellGuarded = true := by
    rw [Table.cellGuarded, List.all_eq_true]
    intro w hw
    have := (List.all_eq_true.1 hall) w hw
    cases w with
    | mk loc g v => cases loc <;> cases g <;> simp_all [Write.okConc]
  intro a ha
  simp only [evalAtoms, hguard, if_true, List.mem_cons, List.mem_map, List.mem_filter] at ha
  rcases ha with rfl | ⟨w, ⟨hw, _⟩, rfl⟩
  · exact hfree
  · exact (List.all_eq_true.1 hall) w hw

theorem conflict_ok (sem : Sem) (fn : Fn) (a b : Acc) (ha : AccOk sem fn a) (hb : AccOk sem fn b) : conflict a b = false := by
  cases a with
  | cellRaw _ _ => exact ha.elim
  | cellCrit _ _ =>
    cases b with
    | cellRaw _ _ => exact hb.elim
    | cellCrit _ _ => rfl
    | w w =>
      cases w with
      | mk loc g v => cases loc <;> cases g <;> simp_all [AccOk, Write.okConc, conflict, sameLoc]
  | w w =>
    cases b with
    | cellRaw _ _ => exact hb.elim
    | cellCrit _ _ =>
      cases w with
      | mk loc g v => cases loc <;> cases g <;> simp_all [AccOk, Write.okConc, conflict, sameLoc]
    | w w' =>
      cases w with
      | mk loc g v =>
        cases w' with
        | mk loc' g' v' =>
          cases loc <;> cases g <;> simp_all [AccOk, Write.okConc, conflict, sameLoc] <;>
            cases loc' <;> cases g' <;> simp_all [AccOk, Write.okConc, conflict, sameLoc]

theorem no_race_of_ok (sem : Sem) (fn : Fn) : ∀ (sched : List (Bool × Acc)), (∀ x ∈ sched, AccOk sem fn x.2) →
    hasRace sched = false
  | [], _ => rfl
  | [_], _ => rfl
  | a :: b :: rest, h => by
    simp only [hasRace, Bool.or_eq_false_iff, Bool.and_eq_false_iff]
    refine ⟨Or.inr (conflict_ok sem fn a.2 b.2 (h a (List.mem_cons_self ..))
      (h b (List.mem_cons_of_mem _ (List.mem_cons_self ..)))), ?_⟩
    exact no_race_of_ok sem fn (b :: rest) (fun x hx => h x (List.mem_cons_of_mem _ hx))

theorem cstep_w_ok (sem : Sem) (fn : Fn) (s : CState) (w : Write) (h : w.okConc = true) :
    cstep sem fn s (.w w) = (s, none) := by
  cases w with
  | mk loc g v => cases loc <;> cases g <;> simp_all [Write.okConc, cstep]

theorem cresults_of_ok (sem : Sem) (fn : Fn) : ∀ (sched : List (Bool × Acc)) (s : CState),
    (∀ x ∈ sched, AccOk sem fn x.2) → Inv s.cell → s.cell.src = fn.src →
    cresults sem fn s sched = isolatedResults sem fn s.cfg s.pkg sched
  | [], _, _, _, _ => rfl
  | (t, a) :: rest, s, h, hinv, hsrc => by
    have ha := h (t, a) (List.mem_cons_self ..)
    have hrest : ∀ x ∈ rest, AccOk sem fn x.2 := fun x hx => h x (List.mem_cons_of_mem _ hx)
    cases a with
    | cellRaw _ _ => exact ha.elim
    | cellCrit args free =>
      have ho := step_outcome s.cell hinv (sem.cellOp fn args free)
      rw [hsrc] at ho
      have hiso : (s.cell.step (sem.cellOp fn args free)).2 = isolated fn.src (sem.cellOp fn args free) := by
        rcases ho with h' | ⟨hov, _⟩
        · exact h'
        · exact absurd hov (isolated_no_overflow fn.src _ ha)
      simp only [cresults, cstep, isolatedResults, hiso]
      rw [cresults_of_ok sem fn rest _ hrest (step_inv _ _ hinv) (by simp only [step_src]; exact hsrc)]
    | w w =>
      have hs := cstep_w_ok sem fn s w ha
      simp only [cresults, hs, isolatedResults]
      exact cresults_of_ok sem fn rest s hrest hinv hsrc

/-- C11S `concurrent_evals_commute`: two evaluations of one generated function, in ANY state the function's lazy constant
can be in (`Inv`: reachable by any history), under EVERY interleaving of their atomic steps: no two adjacent steps conflict
(no data race at the granularity of the critical sections), and each evaluation returns what it returns alone on the
untouched function — the only shared write is the memo-cell store under the cell's mutex. For every `Sem`, under the
allowed-table hypothesis and the memo-cell clause. -/
theorem concurrent_evals_commute (sem : Sem) (T : Table) (hT : T.Allowed = true) (fn : Fn) (s : CState)
    (hinv : Inv s.cell) (hsrc : s.cell.src = fn.src) (argsA freeA argsB freeB : Nat) (sched : List (Bool × Acc))
    (hA : maxNeed fn.src ≤ (sem.cellOp fn argsA freeA).free) (hB : maxNeed fn.src ≤ (sem.cellOp fn argsB freeB).free)
    (h : Interleave (evalAtoms T argsA freeA) (evalAtoms T argsB freeB) sched) :
    hasRace sched = false ∧ cresults sem fn s sched = isolatedResults sem fn s.cfg s.pkg sched := by
  have hok : ∀ x ∈ sched, AccOk sem fn x.2 := by
    intro x hx
    rcases Interleave.mem h x hx with h' | h'
    · exact evalAtoms_ok sem fn T hT argsA freeA hA _ h'
    · exact evalAtoms_ok sem fn T hT argsB freeB hB _ h'
  exact ⟨no_race_of_ok sem fn sched hok, cresults_of_ok sem fn sched s hok hinv hsrc⟩

/-! ## Non-vacuity: a concrete `Sem`, table and history satisfy the hypotheses and show the isolated outcomes -/

/-- a semantics that reads EVERYTHING: the compiled code is the sum of all table slots, all package variables and the program;
the result adds tables, package variables, code, argument and the values seen of the lazy constant -/
def demoSem : Sem where
  compile cfg pkg p := ⟨cfg.sum + pkg.sum + p, [⟨7, 1, false⟩, ⟨8, 2, false⟩]⟩
  parse cfg d p := cfg.sum + d + p
  cellOp _ args free := if args % 2 = 0 then .force free else .iter free 1
  result cfg pkg fn args r := cfg.sum + pkg.sum + fn.code + args + r.1.sum
  derive cfg := cfg.length

/-- today's table in model terms: evaluations write their own objects and the memo cell under its mutex; Generate / Parse
write their own objects and freeze the derived tables; New writes the new generator only -/
def demoTable : Table :=
  ⟨[⟨.priv, .none, 0⟩, ⟨.cell, .mutex, 0⟩], [⟨.priv, .none, 0⟩, ⟨.derived, .lazyNil, 0⟩], [⟨.priv, .none, 0⟩, ⟨.derived, .lazyNil, 0⟩],
    [⟨.priv, .none, 0⟩]⟩

example : demoTable.Allowed = true := by decide

/-- a history with two functions, a second Generate in between, a host that
forces the lazy constant, another generator, a Parse: the evaluations of function 0 with argument 4 / 5 always return 239 / 232
(the last one, with 0 free slots, is served from the materialised list — the memo-cell clause), and the second `Generate 2`
returns the function the first one returned -/
example :
    let s0 := configured [1, 2, 3] [100] [(1, 5)]
    outcomes demoSem demoTable s0
        [.generate 2, .eval 0 4 2, .generate 9, .eval 1 4 2, .eval 0 5 2, .force 0 (.force 1), .newGen, .parse 3, .eval 0 4 2,
          .eval 0 5 0, .generate 2] =
      [.fn ⟨111, [⟨7, 1, false⟩, ⟨8, 2, false⟩]⟩, .val 239, .fn ⟨118, [⟨7, 1, false⟩, ⟨8, 2, false⟩]⟩, .val 246, .val 232,
        .seen ([7, 8], none), .unit, .ast 15, .val 239, .val 232, .fn ⟨111, [⟨7, 1, false⟩, ⟨8, 2, false⟩]⟩] := by decide

/-! ## Pinned necessity witnesses: without the hypothesis the statements are FALSE -/

/-- the table of the code before cee1484: `value.New` assigned the package-level type ids on every call -/
def pinnedTypeIdTable : Table := { demoTable with newW := [⟨.pkg 0, .none, 7⟩] }

/-- … it is not allowed, and `eval_independent_of_history` / `generate_independent_of_history` fail for it: creating another
generator between two evaluations changes what the SAME evaluation returns and what Generate returns (the witness of the
defect repaired in cee1484; in the Go code the ids happened to be rewritten with equal values, so what remained was the data
race of the write itself — `pinned_type_id_write_races`) -/
theorem pinned_type_id_write_breaks_purity :
    pinnedTypeIdTable.Allowed = false ∧
    (let s0 := configured [1, 2, 3] [100] []
     outcomes demoSem pinnedTypeIdTable s0 [.generate 2, .eval 0 4 2, .newGen, .eval 0 4 2, .generate 2] =
       [.fn ⟨108, [⟨7, 1, false⟩, ⟨8, 2, false⟩]⟩, .val 233, .unit, .val 140, .fn ⟨15, [⟨7, 1, false⟩, ⟨8, 2, false⟩]⟩]) := by
  decide

/-- the same write seen from a concurrent evaluation: an evaluation whose table contains an unguarded package-level write races
with its twin under the very first interleaving -/
theorem pinned_type_id_write_races :
    let T : Table := { demoTable with evalW := demoTable.evalW ++ [⟨.pkg 0, .none, 7⟩] }
    T.Allowed = false ∧
      ∃ sched, Interleave (evalAtoms T 4 2) (evalAtoms T 4 2) sched ∧ hasRace sched = true := by
  refine ⟨by decide, [(true, .cellCrit 4 2), (true, .w ⟨.priv, .none, 0⟩), (false, .cellCrit 4 2),
    (false, .w ⟨.priv, .none, 0⟩), (true, .w ⟨.pkg 0, .none, 7⟩), (false, .w ⟨.pkg 0, .none, 7⟩)], ?_, by decide⟩
  exact .left (.left (.right (.right (.left (.right .nil)))))

/-- the table of the code before c0afced: `List.Eval` stored items / itemsPresent / producer without a mutex -/
def pinnedUnsyncCellTable : Table := { demoTable with evalW := [⟨.priv, .none, 0⟩, ⟨.cell, .none, 0⟩] }

/-- … it is not allowed, and `concurrent_evals_commute` fails for it: the two materialisations are adjacent conflicting steps
(the data race reported for `let l = numbers(1000).map(e -> e * 2); l[a] + l[a + 1]`) -/
theorem pinned_unsynchronised_cell_races :
    pinnedUnsyncCellTable.Allowed = false ∧
      ∃ sched, Interleave (evalAtoms pinnedUnsyncCellTable 4 2) (evalAtoms pinnedUnsyncCellTable 6 2) sched ∧
        hasRace sched = true := by
  refine ⟨by decide, [(true, .cellRaw 4 2), (false, .cellRaw 6 2), (true, .w ⟨.priv, .none, 0⟩), (false, .w ⟨.priv, .none, 0⟩)], ?_,
    by decide⟩
  exact .left (.right (.left (.right .nil)))

/-- a write to a generator table during an evaluation (a per-generator cache of the last method looked up, a counter) breaks
`generate_eval_preserve_config` and with it the purity of every later Generate -/
theorem pinned_config_write_breaks_generate :
    let T : Table := { demoTable with evalW := demoTable.evalW ++ [⟨.cfg 0, .none, 50⟩] }
    T.Allowed = false ∧
      (let s0 := configured [1, 2, 3] [100] []
       (Shared.run demoSem T s0 [.generate 2, .eval 0 4 2]).cfg ≠ s0.cfg ∧
         (step demoSem T (Shared.run demoSem T s0 [.generate 2, .eval 0 4 2]) (.generate 2)).2 ≠ (step demoSem T s0 (.generate 2)).2) := by
  decide

end P2.C10S
