import P2.Proofs.MapObs
/-! # C13 — All map representations behave as one abstract key-value map

Property theorems only. The model is `P2.MapSt` (`Model/MapSt.lean`): one constructor per `MapStorage`
implementation of the library (`ListMap`, `RealMap`, `emptyMapStorage`, `AppendMap`, `MergeMap`,
`ReplaceMap` with `depth`/`createFlat`, `funcMapType`, `toMapWrapper`, `bin`) with its `Get`/`Iter`/`Size`,
the operations `put`, `+`, `replace`, `eval`, `map`, `accept`, `combine`, map literals (`parseMap`), and
the observers. The spec is `P2.FMap` (`Spec/FMap.lean`): duplicate-free association lists, equal as finite
maps iff they answer every lookup alike iff they are permutations of each other.

The model is that of the **repaired** code (three `fix:` commits: `ReplaceMap.Get` answers only for keys
of the original map; `bin.Size` counts its entries; `Merge` uses a found-flag). The behaviour of the
pinned commit is `P2.MapSt.Pinned`; the theorems at the end refute the property for it on concrete
witnesses (finding B13). Values are an arbitrary type `V`. -/
namespace P2.C13
open P2.FMap P2.MapSt

variable {V W : Type}

/-! ## 0. The spec: finite maps -/

/-- duplicate-free association lists denote the same finite map (all lookups agree) iff they are
permutations of each other -/
theorem fmap_equiv_iff_perm {a b : Entries V} (ha : Valid a) (hb : Valid b) : Equiv a b ↔ a.Perm b :=
  equiv_iff_perm ha hb

/-! ## 1. `WF`: keys unique, `Size` = number of iterated entries, `Get` = lookup in the iterated entries -/

/-- C13.1 `reachable_wf`, by induction over the operation history: every storage produced by any
history of literals, `put`, `+`, `replace` (any depth, flattened or not, the replacement referring to
the original or not), `eval`, `map`, `accept`, `combine`, struct wrappers, hash maps, bins and function
wrappers (used according to their contract `FuncOK`) satisfies `WF`. -/
theorem reachable_wf (cfg : Cfg) (h : Hist V) (env : List (St V)) (s : St V) (hok : HistOK h)
    (henv : ∀ e ∈ env, WF e) (hrun : run cfg env h = .ok s) : WF s :=
  run_wf cfg h env s hok henv hrun

/-- C13.1, by induction over the storage: at **every** nesting of wrappers it is enough that each level
keeps its local condition (`LocalInv`: a put key is new, merged key sets are disjoint, lists and Go maps have
unique keys; nothing is required of a replacement map). -/
theorem nesting_wf (s : St V) (h : LocalInv s) : WF s := localInv_wf s h

/-- a `ListMap` filled by `Append` and a Go map filled by assignment always have unique keys -/
theorem built_maps_wf (es : Entries V) : WF (St.list (fromEntries es)) ∧ WF (realOp es) ∧ WF (wrapOp es) :=
  ⟨wf_list _ (valid_fromEntries es), realOp_wf es, wrap_wf es⟩

/-- each operation preserves `WF` (the single steps of `reachable_wf`) -/
theorem ops_preserve_wf (cfg : Cfg) (s a b : St V) (hs : WF s) (ha : WF a) (hb : WF b) :
    (∀ k v s', putOp s k v = .ok s' → WF s') ∧
    (∀ s', mergeOp a b = .ok s' → WF s') ∧
    (∀ r : St V, WF (replaceOp cfg s r)) ∧
    WF (evalOp s) ∧
    (∀ (f : String → V → Option V) s', mapOp f s = .ok s' → WF s') ∧
    (∀ p s', acceptOp p s = .ok s' → WF s') ∧
    (∀ f s', combineOp f a b = .ok s' → WF s') :=
  ⟨fun _ _ _ h => put_wf hs h, fun _ h => merge_wf ha hb h, fun r => replace_wf cfg s r hs, eval_wf s,
   fun f _ h => map_wf f h, fun p _ h => accept_wf p h, fun f _ h => combine_wf f h⟩

/-- non-vacuity: a put on a merge of a literal with a replaced map (replacement key `z` outside the
original key set) satisfies the local conditions, hence `WF` -/
example : WF (St.append "c" (3 : Int)
    (.merge (.list [("a", 1)]) (.replace (.list [("b", 2)]) (.list [("b", 5), ("z", 9)]) 1))) :=
  nesting_wf _ (by simp [LocalInv, Valid, iter])

/-- non-vacuity of `reachable_wf`: a history with put, merge, a replace whose function refers to its
argument, and eval runs without error -/
def sampleHist : Hist Int :=
  .eval (.replace (.merge (.put (.lit [("a", 1)]) "" 7) (.lit [("b", 2)]))
    (.put (.var 0) "z" 9))
example : (match run ⟨10, 21⟩ [] sampleHist with | .ok s => iter s == [("", 7), ("a", 1), ("b", 2)] | _ => false) = true := by
  decide
example : HistOK sampleHist := ⟨⟨trivial, trivial⟩, trivial⟩

/-! ## 2. On a `WF` storage every observer is a function of `abs s` -/

/-- C13.2 `observers_agree`: member access `.k` and `get`, `isAvail`, `~`, `size`, `list()`,
`string()`, the exporters' "keys by `Iter`, values by `Get`" traversal and the iteration-based methods
`map`/`accept` are all determined by the entry list `abs s` (`Get` = `lookup`). -/
theorem observers_agree (s : St V) (h : WF s) :
    (∀ k, get s k = lookup (abs s) k) ∧
    (∀ k, access s k = Res.ofOption (lookup (abs s) k)) ∧
    (∀ ks, isAvail s ks = ks.all fun k => decide (k ∈ keys (abs s))) ∧
    (∀ k, containsKey s k = decide (k ∈ keys (abs s))) ∧
    size s = (abs s).length ∧
    listObs s = (abs s).map (fun e => St.list [("key", Sum.inl e.1), ("value", Sum.inr e.2)]) ∧
    (∀ sh, toStr sh s = render sh (abs s)) ∧
    (∀ sort, exportKV sort s =
      (sort (keys (abs s))).filterMap fun k => (lookup (abs s) k).map fun v => (k, v)) ∧
    (∀ f : String → V → Option V, absR (mapOp f s) = Res.ofOption (FMap.mapVals f (abs s))) ∧
    (∀ p, absR (acceptOp p s) = Res.ofOption (FMap.filter p (abs s))) :=
  ⟨h.get, access_abs s h, isAvail_abs s h, containsKey_abs s h, h.size, listObs_abs s,
   fun sh => toStr_abs sh s, fun sort => exportKV_abs sort s h,
   fun f => map_refines f s h, fun p => accept_refines p s h⟩

/-- the exporter visits exactly the entries of the map, once each (whatever the sort does to the order) -/
theorem export_sees_all (sort : List String → List String) (hsort : ∀ l, (sort l).Perm l)
    (s : St V) (h : WF s) : (exportKV sort s).Perm (abs s) :=
  exportKV_perm sort hsort s h
example : ∀ l : List String, (List.reverse l).Perm l := fun l => List.reverse_perm l

/-- two storages that denote the same finite map — whatever their representation and iteration order —
are indistinguishable by the key-based observers; the entry-listing observers differ by a permutation -/
theorem observers_repr_indep (a b : St V) (ha : WF a) (hb : WF b) (h : Equiv (abs a) (abs b)) :
    (∀ k, get a k = get b k) ∧
    (∀ k, access a k = access b k) ∧
    (∀ ks, isAvail a ks = isAvail b ks) ∧
    (∀ k, containsKey a k = containsKey b k) ∧
    size a = size b ∧
    (abs a).Perm (abs b) ∧
    (listObs a).Perm (listObs b) ∧
    (∀ sort, (∀ l, (sort l).Perm l) → (exportKV sort a).Perm (exportKV sort b)) := by
  have hg : ∀ k, get a k = get b k := fun k => by rw [ha.get, hb.get]; exact h k
  have hp : (abs a).Perm (abs b) := perm_of_equiv _ _ ha.nodup hb.nodup h
  refine ⟨hg, fun k => by simp only [access, hg], fun ks => by simp only [isAvail, hg],
    fun k => by simp only [containsKey, hg], ?_, hp, ?_, fun sort hs => ?_⟩
  · rw [ha.size, hb.size]; exact hp.length_eq
  · rw [listObs_abs, listObs_abs]; exact hp.map _
  · exact (exportKV_perm sort hs a ha).trans (hp.trans (exportKV_perm sort hs b hb).symm)

/-! ## 3. The operations refine the finite-map operations -/

/-- C13.3 `ops_refine`: `put` = insert-if-absent else error; `+` = disjoint union else error; `replace`
= update of the keys of the original map (at every depth); `eval` = identity; `map`/`accept`/`combine`
pointwise; a literal denotes its entries unless a key is written twice. -/
theorem ops_refine (cfg : Cfg) (s a b : St V) (hs : WF s) (ha : WF a) (hb : WF b) :
    (∀ k v, absR (putOp s k v) = Res.ofOption (FMap.insert (abs s) k v)) ∧
    absR (mergeOp a b) = Res.ofOption (FMap.union (abs a) (abs b)) ∧
    abs (replaceOp cfg a b) = FMap.update (abs a) (abs b) ∧
    abs (evalOp s) = abs s ∧
    (∀ f : String → V → Option V, absR (mapOp f s) = Res.ofOption (FMap.mapVals f (abs s))) ∧
    (∀ p, absR (acceptOp p s) = Res.ofOption (FMap.filter p (abs s))) ∧
    (∀ f, absR (combineOp f a b) = Res.ofOption (FMap.combine f (abs a) (abs b))) ∧
    (∀ es : Entries V, absR (litOp es) = if Valid es then .ok es else .err) :=
  ⟨put_refines s hs, merge_refines a b ha, replace_refines cfg a b ha hb, eval_refines s hs,
   fun f => map_refines f s hs, fun p => accept_refines p s hs,
   fun f => combine_refines f a b ha hb, lit_refines⟩

/-- C13.3 `flatten_id`: `createFlat` (taken at replace depth ≥ 10; a hash map above 20 entries, a list
map below — for **any** values of these two constants) keeps the entries, even their order -/
theorem flatten_id (cfg : Cfg) (s : St V) (hs : WF s) : abs (createFlat cfg s) = abs s :=
  MapSt.flatten_id cfg s hs

/-- keys stay unique: `put` fails exactly for a key that is present, `+` exactly for overlapping key
sets, a literal exactly if a key is written twice — and none of them panics -/
theorem uniqueness_errors_exact (s a b : St V) (hs : WF s) (ha : WF a) :
    (∀ k v, putOp s k v = .err ↔ k ∈ keys (abs s)) ∧
    (mergeOp a b = .err ↔ ∃ k, k ∈ keys (abs a) ∧ k ∈ keys (abs b)) ∧
    (∀ es : Entries V, litOp es = .err ↔ ¬ Valid es) := by
  refine ⟨fun k v => ?_, ?_, fun es => ?_⟩
  · have h := put_refines s hs k v
    rw [← insert_eq_none_iff (abs s) k v]
    cases hp : putOp s k v <;> cases hi : FMap.insert (abs s) k v <;>
      simp [hp, hi, absR, Res.ofOption] at h ⊢
  · have h := merge_refines a b ha
    rw [← union_eq_none_iff (abs a) (abs b)]
    cases hp : mergeOp a b <;> cases hi : FMap.union (abs a) (abs b) <;>
      simp [hp, hi, absR, Res.ofOption] at h ⊢
  · have h := lit_refines es
    cases hp : litOp es <;> by_cases hv : Valid es <;> simp [hp, hv, absR] at h ⊢

/-- the replaced map has the key set of the original, whatever the replacement contains -/
theorem replace_keeps_keys (cfg : Cfg) (o r : St V) (ho : WF o) (hr : WF r) :
    keys (abs (replaceOp cfg o r)) = keys (abs o) := by
  rw [replace_refines cfg o r ho hr]; exact (update_spec _ _).1

/-- a chain of `replace` calls: the 11th (depth 10 reached) flattens into a list map, the 12th starts a
new chain on top of it; the map denoted is always the updated original -/
def deepChain : Nat → Hist Int
  | 0 => .lit [("a", 0), ("b", 0)]
  | n + 1 => .replace (deepChain n) (.lit [("a", (n : Int) + 1), ("z", 5)])
example : (match run ⟨10, 21⟩ [] (deepChain 11) with
    | .ok (.list es) => es == [("a", 11), ("b", 0)]
    | _ => false) = true := by decide
example : (match run ⟨10, 21⟩ [] (deepChain 12) with
    | .ok (.replace (.list _) _ d) => d == 1
    | _ => false) = true := by decide
example : (match run ⟨10, 21⟩ [] (deepChain 12) with
    | .ok s => iter s == [("a", 12), ("b", 0)] && size s == 2 && get s "z" == none
    | _ => false) = true := by decide
example : (match run ⟨10, 21⟩ [] (deepChain 10) with
    | .ok (.replace _ _ d) => d == 10
    | _ => false) = true := by decide

/-- with small constants (`flatDepth = 2`, `realFrom = 3`) the third replace flattens into a hash map;
the replacement key `z` outside the original key set does not appear -/
example : (match run ⟨2, 3⟩ []
      (.replace (.replace (.replace (.lit [("a", (0 : Int)), ("b", 0), ("c", 0)]) (.lit [("a", 1)]))
        (.lit [("b", 2)])) (.lit [("c", 3), ("z", 4)])) with
    | .ok (.real es) => es == [("a", 1), ("b", 2), ("c", 3)]
    | _ => false) = true := by decide

/-! ## 4. Equality depends only on the finite maps -/

/-- C13.4 `equals_repr_indep`, the answer `true`: for any element comparison `eq` (which may fail),
`a = b` is `true` iff the finite maps have the same size and every binding of `abs a` has an equal
binding in `abs b`; hence the answer `true` is the same for all representations and key orders. -/
theorem equals_true_repr_indep (eq : V → V → Option Bool) (a a' b b' : St V)
    (ha : WF a) (ha' : WF a') (hb : WF b) (hb' : WF b')
    (pa : (abs a).Perm (abs a')) (pb : (abs b).Perm (abs b')) :
    equals eq a b = .ok true ↔ equals eq a' b' = .ok true := by
  rw [equals_true_iff eq a b ha hb, equals_true_iff eq a' b' ha' hb']
  exact eqTrue_perm eq hb.nodup pa pb

/-- C13.4 `equals_repr_indep`, full outcome: if the element comparison never fails on the values
involved, the outcome of `a = b` (always a boolean) is the same for all representations and key orders.
(With a failing comparison the outcome can be `false` or an error depending on which entry is visited
first: that is finding `map-eq-mixed-error` of C14, see `equals_order_dependent_with_errors`.) -/
theorem equals_repr_indep (eq : V → V → Option Bool) (htot : ∀ x y, eq x y ≠ none) (a a' b b' : St V)
    (ha : WF a) (ha' : WF a') (hb : WF b) (hb' : WF b')
    (pa : (abs a).Perm (abs a')) (pb : (abs b).Perm (abs b')) :
    equals eq a b = equals eq a' b' := by
  obtain ⟨r, hr⟩ := equals_total eq htot a b
  obtain ⟨r', hr'⟩ := equals_total eq htot a' b'
  have h := equals_true_repr_indep eq a a' b b' ha ha' hb hb' pa pb
  rw [hr, hr'] at h ⊢
  cases r <;> cases r' <;> simp at h ⊢

/-- if the element comparison decides equality of values, `=` on maps decides equality of finite maps -/
theorem equals_decides_same_map [DecidableEq V] (eq : V → V → Option Bool)
    (heq : ∀ x y, eq x y = some (decide (x = y))) (a b : St V) (ha : WF a) (hb : WF b) :
    equals eq a b = .ok true ↔ Equiv (abs a) (abs b) := by
  rw [equals_true_iff eq a b ha hb]
  exact eqTrue_iff_equiv eq heq ha.nodup hb.nodup

/-- non-vacuity: integer equality never fails and decides equality -/
def intEq (x y : Int) : Option Bool := some (decide (x = y))
example : ∀ x y, intEq x y ≠ none := fun _ _ h => by cases h
example : equals intEq (.append "b" 2 (.list [("a", 1)])) (.real [("a", 1), ("b", 2)]) = .ok true := by decide
example : equals intEq (.append "b" 2 (.list [("a", 1)])) (.real [("a", 1), ("b", 3)]) = .ok false := by decide

/-- why `equals_repr_indep` needs `htot`: with a comparison that fails on one pair of values and says
"different" on another, the outcome depends on the iteration order of the left map -/
def partialEq (x y : Int) : Option Bool := if x = 0 ∨ y = 0 then none else some (decide (x = y))
theorem equals_order_dependent_with_errors :
    equals partialEq (.list [("a", 0), ("b", 2)]) (.list [("a", 1), ("b", 3)]) = .err ∧
    equals partialEq (.list [("b", 2), ("a", 0)]) (.list [("a", 1), ("b", 3)]) = .ok false := by decide

/-! ## 5. The contract of the function wrapper -/

/-- `NewFuncMapFactory(fn, keys…)` does not check that `fn` answers exactly for `keys`; without that
the three methods disagree (an assumption on the callers of this constructor, not a finding) -/
theorem func_contract_needed :
    ¬ WF (St.func ["a", "b"] (fun k => if k = "a" ∨ k = "c" then some (1 : Int) else none)) := by
  intro h
  have := h.size
  revert this
  decide

/-! ## 6. The pinned commit violates the property (finding B13, repaired by three `fix:` commits) -/

/-- `{a:1}.replace(m->{z:2})` -/
def pinnedReplaced : St Int := .replace (.list [("a", 1)]) (.list [("z", 2)]) 1

/-- (i) `ReplaceMap.Get` answered for a replacement key outside the original key set while `Iter` and
`Size` did not know it: `.z` = 2 but `size()` = 1 and `string()` = `{a:1}` -/
theorem pinned_replace_get_outside_keys :
    Pinned.get pinnedReplaced "z" = some 2 ∧ Pinned.size pinnedReplaced = 1 ∧
    Pinned.iter pinnedReplaced = [("a", 1)] ∧
    Pinned.get pinnedReplaced "z" ≠ lookup (Pinned.iter pinnedReplaced) "z" := by decide

/-- (i) and the flattening at depth ≥ 10 dropped such a key again: an observer changed its answer -/
theorem pinned_flatten_drops_key :
    Pinned.get pinnedReplaced "z" = some 2 ∧ Pinned.get (Pinned.createFlat pinnedReplaced) "z" = none := by
  decide

/-- the repaired model on the same map: all observers see `{a:1}` -/
theorem repaired_replace_agrees :
    get pinnedReplaced "z" = none ∧ size pinnedReplaced = 1 ∧ iter pinnedReplaced = [("a", 1)] := by decide

/-- (ii) the `bin` storage of `binning` (`{str:"<0", max:0}`) claimed 3 entries and iterated over 2 -/
theorem pinned_bin_size :
    Pinned.size (St.bin false true (0 : Int) 1 2) = 3 ∧ (Pinned.iter (St.bin false true (0 : Int) 1 2)).length = 2 ∧
    size (St.bin false true (0 : Int) 1 2) = 2 := by decide

/-- `{a:1}.put("",1)` and `{b:2}.put("",2)` -/
def pinnedLeft : St Int := .append "" 1 (.list [("a", 1)])
def pinnedRight : St Int := .append "" 2 (.list [("b", 2)])

/-- (iii) `Merge` accepted two maps that both contain the empty key: the result iterates over the key
`""` twice; the repaired check rejects the merge -/
theorem pinned_merge_empty_key :
    (match Pinned.mergeOp pinnedLeft pinnedRight with
      | .ok s => keys (Pinned.iter s) == ["", "a", "", "b"]
      | _ => false) = true ∧
    (match mergeOp pinnedLeft pinnedRight with | .err => true | _ => false) = true := by decide

end P2.C13
