import P2.Props.C06
import P2.Props.C10
/-! # C11 — one generated function may be evaluated concurrently

Runtime part (data races, outcomes under real schedules): `tie C11` in a `-race` worker. Logic:
* every evaluation pushes and reads on a storage of its own (`Func.Eval` calls `NewEmptyStack`), so by
  `stack_noninterference` (C06.3) what one evaluation reads does not depend on any interleaving with
  other evaluations (`eval_storage_private`);
* the compiled code and the constants are only read; the one place where the Go code WRITES to an
  object reachable from a constant — the materialisation cache of a lazy list — is guarded by a mutex
  since the repair of B11 (pinned: unsynchronised, witness in `known_findings.json`). -/
namespace P2.C11

/-- C11.3 `eval_storage_private`: evaluation A works on the storages in `S` (its own stack), the
other evaluations never touch them; then under EVERY interleaving A reads what it reads alone. -/
theorem eval_storage_private (S : Nat → Prop) (sch : List Bool) (evalA others : List P2.Inter.Act)
    (x y : P2.Inter.Stores) (ha : ∀ a ∈ evalA, S a.sid) (hb : ∀ b ∈ others, ¬ S b.sid)
    (h : P2.Inter.Agree S x y) :
    (P2.Inter.runBoth x evalA others sch).2.1 = (P2.Inter.runAlone y evalA).2 :=
  P2.C06.stack_noninterference S sch evalA others x y ha hb h

/-- C11.2 `readers_commute` (model): the outcome of each evaluation of a concurrent batch is the
outcome of its isolated evaluation — in the model evaluations share nothing writable, so a batch is
just a history (C10.1). -/
theorem readers_commute (M : P2.Lang.Methods) (fuel : Nat) (code : P2.Lang.Code) (batch : List (List P2.Lang.Val)) :
    P2.C10.evalHistory M fuel code batch = batch.map (P2.Lang.runCompiled M fuel code) :=
  P2.C10.eval_history M fuel code batch

end P2.C11
