import P2.Props.C06
import P2.Props.C10
/-! # C11 — one generated function may be evaluated concurrently

Runtime part (data races, outcomes under real schedules): `tie C11` in a `-race` worker. Logic:
* every evaluation pushes and reads on a storage of its own (`Func.Eval` calls `NewEmptyStack`), so by
  `stack_noninterference` (C06.3) what one evaluation reads does not depend on any interleaving with
  other evaluations (`eval_storage_private`);
* the compiled code and the constants are only read; the one place where the Go code WRITES to an
  object reachable from a constant — the materialisation cache of a lazy list — is guarded by a mutex
  since the repair of B11 (pinned: unsynchronised, witness in `known_findings.json`). -/
namespace P2.C11

/-- C11.3 `eval_storage_private`: evaluation A works on the storages in `S` (its own stack), the
other evaluations never touch them; then under EVERY interleaving A reads what it reads alone. -/
theorem eval_storage_private (S : Nat → Prop) (sch : List Bool) (evalA others : List P2.Inter.Act)
    (x y : P2.Inter.Stores) (ha : ∀ a ∈ evalA, S a.sid) (hb : ∀ b ∈ others, ¬ S b.sid)
    (h : P2.Inter.Agree S x y) :
    (P2.Inter.runBoth x evalA others sch).2.1 = (P2.Inter.runAlone y evalA).2 :=
  P2.C06.stack_noninterference S sch evalA others x y ha hb h

/-- C11.2 `readers_commute` (model): the outcome of each evaluation of a concurrent batch is the
outcome of its isolated evaluation — in the model evaluations share nothing writable, so a batch is
just a history (C10.1). -/
theorem readers_commute (M : P2.Lang.Methods) (fuel : Nat) (code : P2.Lang.Code) (batch : List (List P2.Lang.Val)) :
    P2.C10.evalHistory M fuel code batch = batch.map (P2.Lang.runCompiled M fuel code) :=
  P2.C10.eval_history M fuel code batch

/-! ## The shared memo cell under concurrent evaluations

`List.Eval` holds the list's mutex for the whole materialisation, `iterable` takes the producer under the mutex and
iterates outside. At the granularity of these critical sections every schedule of concurrent evaluations is a
history of `P2.Memo` operations, and the iteration of a snapshot does not read the cell again. -/

open P2.Memo in
/-- an interleaving of the operations of two evaluations -/
inductive Interleave : List Op → List Op → List Op → Prop
  | nil : Interleave [] [] []
  | left {a as bs cs} : Interleave as bs cs → Interleave (a :: as) bs (a :: cs)
  | right {b as bs cs} : Interleave as bs cs → Interleave as (b :: bs) (b :: cs)

open P2.Memo in
theorem Interleave.mem {as bs cs : List Op} (h : Interleave as bs cs) : ∀ o ∈ cs, o ∈ as ∨ o ∈ bs := by
  induction h with
  | nil => intro o ho; cases ho
  | left _ ih =>
    intro o ho
    rcases List.mem_cons.1 ho with rfl | h'
    · exact Or.inl (List.mem_cons_self ..)
    · rcases ih o h' with h1 | h1
      · exact Or.inl (List.mem_cons_of_mem _ h1)
      · exact Or.inr h1
  | right _ ih =>
    intro o ho
    rcases List.mem_cons.1 ho with rfl | h'
    · exact Or.inr (List.mem_cons_self ..)
    · rcases ih o h' with h1 | h1
      · exact Or.inl h1
      · exact Or.inr (List.mem_cons_of_mem _ h1)

open P2.Memo in
/-- C11 on the memo cell: under EVERY interleaving of two evaluations that have enough stack for the list's own
closures, every operation of either shows what it shows in isolation. -/
theorem memo_concurrent_transparent (src : List Item) (evalA evalB sched : List Op) (h : Interleave evalA evalB sched)
    (ha : ∀ o ∈ evalA, maxNeed src ≤ o.free) (hb : ∀ o ∈ evalB, maxNeed src ≤ o.free) :
    (fresh src).outcomes sched = sched.map (isolated src) :=
  P2.C10.memo_outcomes_transparent src sched (fun o ho => (h.mem o ho).elim (ha o) (hb o))

open P2.Memo in
/-- `iterable` is a snapshot: an iteration that started before other evaluations materialised (or failed to
materialise) the list yields what the atomic operation yields at the moment of the snapshot — the iteration never
reads the cell again, so nothing that happens in between can change it. -/
theorem memo_snapshot_atomic (c : Cell) (between : List Op) (free k : Nat) :
    let s := c.snapshot
    let _later := c.after between
    s.pull free k = (c.step (.iter free k)).2 :=
  snapshot_pull c free k

end P2.C11
