import P2.Proofs.LexRefine
import P2.Proofs.LexLayout
/-! # C15 — Token layout, comments and literal escapes do not change meaning

Property theorems about `P2.Lex.tokenize` (the state-faithful model of the repaired `token.go`,
`pinned = false`), generic in the regenerated tables (`tablesOK`, discharged in `P2.Oblig.LexTables`)
and in the `unicode` oracle. A source text is described as in the property's quantifier: a sequence of
lexemes (`Lexeme`: how a token is written), a separator after each (`Sep`: blanks, tabs, CR, LF, `//`
and `/* */` comments in any order, possibly empty), a leading separator and the end of the input
(`Tail`: nothing or an unterminated `//` comment). `admissible` says that every lexeme can be written
under the configuration and that nothing written after a lexeme merges with it ("none where lexically
possible" — for the empty separator and for a comment written tight against a token alike).

The witnesses at the end are the behaviours of the pinned commit 889ee09 (`pinned = true`, tables of
that commit) that contradict the property: B15, B23 and three found while building this slice. -/
namespace P2.C15
open P2.Lex
open P2.Lex.Spec (juxtaStar openStar)

/-- the hypotheses on the configuration: repaired code, well-formed tables, no NUL inside an operator -/
def scannerOK (cfg : Cfg) : Prop := cfg.pinned = false ∧ tablesOK cfg.tables = true ∧ cfgOK cfg = true

/-- The scanner over a whole source text: the tokens are `expected` — a function of the lexemes, of the
number of LF in each separator (lines) and of "blank outside comments in the separator" (comfort mode).
All theorems below are corollaries. -/
theorem tokenize_layout (cfg : Cfg) (h : scannerOK cfg) (s0 : Sep) (ls : Layout) (tl : Tail)
    (hs0 : s0.wf cfg.comments = true) (htl : tl.wf cfg.comments = true) (hadm : admissible cfg ls tl.text = true) :
    tokenize cfg (source s0 ls tl) = .ok (expected cfg ls (1 + s0.lfs) (blankUpd initRun s0)) := by
  rw [tokenize_refines cfg h.1 h.2.1 h.2.2, spec_tokenize_layout cfg h.2.1 s0 ls tl hs0 htl hadm]

/-! ## 1. layout invariance -/

/-- **C15.1 `layout_invariant`.** Two ways of separating the same lexemes (any admissible mixture of blanks,
tabs, CR, LF, line and block comments, none where lexically possible, comments set off by blanks or written
tight against the neighbouring tokens, several comments in a row, comment at the end of the input; different
leading separators) give the same tokens up to the line numbers — in comfort mode provided the two layouts
agree on the presence of a blank (outside comments) before each `(`. -/
theorem layout_invariant (cfg : Cfg) (h : scannerOK cfg) (ls ls' : Layout) (s0 s0' : Sep) (tl tl' : Tail)
    (hlex : ls.map (·.1) = ls'.map (·.1))
    (hs0 : s0.wf cfg.comments = true) (hs0' : s0'.wf cfg.comments = true)
    (htl : tl.wf cfg.comments = true) (htl' : tl'.wf cfg.comments = true)
    (hadm : admissible cfg ls tl.text = true) (hadm' : admissible cfg ls' tl'.text = true)
    (hblank : cfg.comfort = true → blankAgree ls ls' = true) :
    ∃ ts ts', tokenize cfg (source s0 ls tl) = .ok ts ∧ tokenize cfg (source s0' ls' tl') = .ok ts' ∧
      ts.map strip = ts'.map strip := by
  refine ⟨_, _, tokenize_layout cfg h s0 ls tl hs0 htl hadm, tokenize_layout cfg h s0' ls' tl' hs0' htl' hadm', ?_⟩
  apply expected_strip_congr cfg ls ls' _ _ _ _ hlex hblank
  · rfl
  · intro hi
    simp [blankUpd, initRun] at hi

/-- the tokens a lexeme stands for by itself (no `*` inserted) -/
def ownTokens (cfg : Cfg) (l : Lexeme) : List (Kind × List Char) := (lexToks cfg l initRun 0).1.map strip

theorem expected_plain (cfg : Cfg) (hc : cfg.comfort = false) : ∀ (ls : Layout) (line : Nat) (rs : RunSt),
    rs.lastType = .invalid → (expected cfg ls line rs).map strip = (ls.map (·.1)).flatMap (ownTokens cfg)
  | [], _, _, _ => by simp [expected, expectedG]
  | (l, s) :: more, line, rs, hrs => by
    obtain ⟨h1, _⟩ := lexToks_strip_congr cfg l rs initRun line 0 (by rw [hrs]; rfl)
      (fun hi => by rw [hrs] at hi; exact absurd hi (by decide))
    have ih := expected_plain cfg hc more (line + s.lfs) (blankUpd (lexToks cfg l rs line).2 s)
      (by simp only [blankUpd]; exact lexToks_noComfort cfg hc l rs line)
    simp only [expected] at ih
    simp only [expected, expectedG, List.flatten_cons, List.map_append, h1, ih, List.map_cons, List.flatMap_cons,
      ownTokens]

/-- **C15.1, outside comfort mode:** the (kind, image) stream is exactly the sequence of the lexemes' own tokens
— `kindsImages (tokenize (join ts σ)) = ts` for every admissible separator assignment `σ`. -/
theorem layout_tokens_plain (cfg : Cfg) (h : scannerOK cfg) (hc : cfg.comfort = false) (s0 : Sep) (ls : Layout)
    (tl : Tail) (hs0 : s0.wf cfg.comments = true) (htl : tl.wf cfg.comments = true)
    (hadm : admissible cfg ls tl.text = true) :
    ∃ ts, tokenize cfg (source s0 ls tl) = .ok ts ∧ ts.map strip = (ls.map (·.1)).flatMap (ownTokens cfg) :=
  ⟨_, tokenize_layout cfg h s0 ls tl hs0 htl hadm, expected_plain cfg hc ls _ _ rfl⟩

/-! ## 2. lines -/

/-- the lexeme is written without a line break (a quoted identifier may contain one; the property excludes it) -/
def Lexeme.noLF : Lexeme → Bool
  | .sym _ => true
  | .str _ => true
  | .qident s => !s.contains '\n'
  | .number sp => !sp.contains '\n'
  | .word sp => !sp.contains '\n'
  | .op sp => !sp.contains '\n'

theorem countLF_nil : countLF ([] : List Char) = 0 := rfl

theorem countLF_zero_of_not_mem {s : List Char} (h : '\n' ∉ s) : countLF s = 0 := by
  unfold countLF; exact List.count_eq_zero.mpr h

theorem countLF_escaped : ∀ (s : List Char), countLF (s.flatMap escChar) = 0
  | [] => rfl
  | c :: s => by
    simp only [List.flatMap_cons, countLF_append, countLF_escaped s, Nat.add_zero]
    rcases escChar_cases c with ⟨_, he⟩ | ⟨_, he⟩ | ⟨_, he⟩ | ⟨_, he⟩ | ⟨_, he⟩ | ⟨_, _, h3, _, _, he⟩
    · rw [he]; decide
    · rw [he]; decide
    · rw [he]; decide
    · rw [he]; decide
    · rw [he]; decide
    · rw [he, countLF_singleton]; simp [h3]

theorem spell_noLF (cfg : Cfg) (htb : tablesOK cfg.tables = true) (l : Lexeme) (hwf : l.wf cfg = true)
    (hn : l.noLF = true) : countLF l.spell = 0 := by
  cases l with
  | sym c =>
    simp only [Lexeme.wf, Bool.and_eq_true, bne_iff_ne, ne_eq, Bool.or_eq_true, beq_iff_eq] at hwf
    have hc : c ≠ '\n' := by
      rcases hwf.2 with h | h
      · rw [h]; decide
      · cases hl : cfg.tables.emit.lookup c with
        | none => simp [hl] at h
        | some v =>
          have := tablesOK_emit_notSpecial htb hl
          intro hc; apply this; simp [handSpecial, hc]
    simp [Lexeme.spell, countLF_singleton, hc]
  | str s =>
    have h1 : ('"' : Char) ≠ '\n' := by decide
    simp [Lexeme.spell, countLF_cons, countLF_append, countLF_escaped, h1, countLF_singleton, countLF_nil]
  | qident s =>
    have h1 : ('\'' : Char) ≠ '\n' := by decide
    simp only [Lexeme.noLF, Bool.not_eq_true', List.contains_eq_mem, decide_eq_false_iff_not] at hn
    simp [Lexeme.spell, countLF_cons, countLF_append, h1, countLF_singleton, countLF_zero_of_not_mem hn, countLF_nil]
  | number sp =>
    simp only [Lexeme.noLF, Bool.not_eq_true', List.contains_eq_mem, decide_eq_false_iff_not] at hn
    exact countLF_zero_of_not_mem hn
  | word sp =>
    simp only [Lexeme.noLF, Bool.not_eq_true', List.contains_eq_mem, decide_eq_false_iff_not] at hn
    exact countLF_zero_of_not_mem hn
  | op sp =>
    simp only [Lexeme.noLF, Bool.not_eq_true', List.contains_eq_mem, decide_eq_false_iff_not] at hn
    exact countLF_zero_of_not_mem hn

/-- the source text before lexeme `i` -/
def before (s0 : Sep) (ls : Layout) (i : Nat) : List Char := s0.text ++ joinSrc (ls.take i) []

theorem joinSrc_append : ∀ (a b : Layout) (tl : List Char), joinSrc (a ++ b) tl = joinSrc a [] ++ joinSrc b tl
  | [], b, tl => by simp [joinSrc]
  | (l, s) :: more, b, tl => by simp [joinSrc, joinSrc_append more b tl]

/-- the text before lexeme `i` is a prefix of the source, and lexeme `i` starts right after it -/
theorem source_split (s0 : Sep) (ls : Layout) (tl : Tail) (i : Nat) :
    source s0 ls tl = before s0 ls i ++ joinSrc (ls.drop i) tl.text := by
  unfold source before
  conv => lhs; rw [← List.take_append_drop i ls]
  rw [joinSrc_append, List.append_assoc]

theorem expectedG_lines (cfg : Cfg) (htb : tablesOK cfg.tables = true) : ∀ (ls : Layout) (tlx : List Char),
    admissible cfg ls tlx = true → (∀ p ∈ ls, p.1.noLF = true) →
    ∀ (line : Nat) (rs : RunSt) (i : Nat) (hi : i < (expectedG cfg ls line rs).length),
    ∀ t ∈ (expectedG cfg ls line rs)[i], t.line = line + countLF (joinSrc (ls.take i) [])
  | [], _, _, _, _, _, i, hi => by simp [expectedG] at hi
  | (l, s) :: more, tlx, hadm, hn, line, rs, 0, _ => by
    intro t ht
    simp only [expectedG, List.getElem_cons_zero] at ht
    simp [joinSrc, countLF, lexToks_line cfg l rs line t ht]
  | (l, s) :: more, tlx, hadm, hn, line, rs, i+1, hi => by
    intro t ht
    simp only [admissible, Bool.and_eq_true] at hadm
    simp only [expectedG, List.getElem_cons_succ] at ht
    simp only [expectedG, List.length_cons, Nat.add_lt_add_iff_right] at hi
    have ih := expectedG_lines cfg htb more tlx hadm.2 (fun p hp => hn p (List.mem_cons_of_mem _ hp))
      (line + s.lfs) _ i hi t ht
    have h0 := spell_noLF cfg htb l hadm.1.1.1 (hn (l, s) (List.mem_cons_self ..))
    rw [ih]
    simp only [List.take_succ_cons, joinSrc, countLF_append, h0, Sep.lfs]
    omega

theorem expectedG_length (cfg : Cfg) : ∀ (ls : Layout) (line : Nat) (rs : RunSt), (expectedG cfg ls line rs).length = ls.length
  | [], _, _ => rfl
  | (l, s) :: more, line, rs => by simp [expectedG, expectedG_length cfg more]

/-- **C15.2 `line_formula`.** The tokens come in one group per lexeme, and every token of the group of lexeme `i`
(the token itself, both tokens of a superscript, an inserted `*`) carries the line
`1 + number of LF in the source before the first rune of lexeme i` — LFs inside block comments, after line
comments and before the first token included. The text before lexeme `i` is `before s0 ls i` (`source_split`).
(The line of a syntax error is the line of the token it names: `Token.Errorf`.) -/
theorem line_formula (cfg : Cfg) (h : scannerOK cfg) (s0 : Sep) (ls : Layout) (tl : Tail)
    (hs0 : s0.wf cfg.comments = true) (htl : tl.wf cfg.comments = true) (hadm : admissible cfg ls tl.text = true)
    (hn : ∀ p ∈ ls, p.1.noLF = true) :
    ∃ groups : List (List Token), tokenize cfg (source s0 ls tl) = .ok groups.flatten ∧ groups.length = ls.length ∧
      ∀ (i : Nat) (hi : i < groups.length), ∀ t ∈ groups[i], t.line = 1 + countLF (before s0 ls i) := by
  refine ⟨expectedG cfg ls (1 + s0.lfs) (blankUpd initRun s0), tokenize_layout cfg h s0 ls tl hs0 htl hadm,
    expectedG_length cfg ls _ _, ?_⟩
  intro i hi t ht
  rw [expectedG_lines cfg h.2.1 ls tl.text hadm hn _ _ i hi t ht]
  simp only [before, countLF_append, Sep.lfs]
  omega

/-! ## 3./4. string literals and quoted identifiers -/

/-- **C15.3 `string_literal_roundtrip`.** Every string without NUL — quotes, backslashes, control characters,
comment openers and the typographic alias runes included — written as a literal with the escapes
`\\ \" \n \r \t` is the single token `string s`. -/
theorem string_literal_roundtrip (cfg : Cfg) (h : scannerOK cfg) (s : List Char) (hs : ∀ c ∈ s, c ≠ EOF) :
    tokenize cfg ('"' :: (s.flatMap escChar ++ ['"'])) = .ok [⟨.string, s, 1⟩] := by
  have hwf : (Lexeme.str s).wf cfg = true := by
    simp only [Lexeme.wf, List.all_eq_true, bne_iff_ne, ne_eq]; exact hs
  have := tokenize_layout cfg h [] [(.str s, [])] .none rfl rfl (by simp [admissible, hwf, Sep.wf, Lexeme.followOK])
  simpa [source, Sep.text, joinSrc, Tail.text, Lexeme.spell, expected, expectedG, lexToks, Sep.lfs, countLF] using this

/-- **C15.4 `quoted_ident_exact`.** A quoted identifier denotes exactly its content, whatever it contains
(comment openers, double quotes, operators, alias runes, blanks, line breaks) except `'` and NUL. -/
theorem quoted_ident_exact (cfg : Cfg) (h : scannerOK cfg) (s : List Char) (hs : ∀ c ∈ s, c ≠ '\'' ∧ c ≠ EOF) :
    tokenize cfg ('\'' :: (s ++ ['\''])) = .ok [⟨.ident, s, 1⟩] := by
  have hwf : (Lexeme.qident s).wf cfg = true := by
    simp only [Lexeme.wf, List.all_eq_true, Bool.and_eq_true, bne_iff_ne, ne_eq]; exact hs
  have := tokenize_layout cfg h [] [(.qident s, [])] .none rfl rfl (by simp [admissible, hwf, Sep.wf, Lexeme.followOK])
  simpa [source, Sep.text, joinSrc, Tail.text, Lexeme.spell, expected, expectedG, lexToks, Sep.lfs, countLF] using this

/-! ## 5. aliases and superscripts -/

/-- the lexeme written with the ASCII spelling of every alias rune -/
def Lexeme.canon (cfg : Cfg) : Lexeme → Lexeme
  | .number sp => .number (image cfg sp)
  | .word sp => .word (image cfg sp)
  | .op sp => .op (image cfg sp)
  | l => l

theorem image_idem (cfg : Cfg) (htb : tablesOK cfg.tables = true) (sp : List Char) : image cfg (image cfg sp) = image cfg sp := by
  simp only [image, List.map_map]
  apply List.map_congr_left
  intro c _
  exact tablesOK_alias_idem htb c

theorem lexToks_canon (cfg : Cfg) (htb : tablesOK cfg.tables = true) (l : Lexeme) (rs : RunSt) (line : Nat) :
    lexToks cfg (l.canon cfg) rs line = lexToks cfg l rs line := by
  cases l <;> simp [Lexeme.canon, lexToks, image_idem cfg htb]

theorem expected_canon (cfg : Cfg) (htb : tablesOK cfg.tables = true) : ∀ (ls : Layout) (line : Nat) (rs : RunSt),
    expected cfg (ls.map fun p => (p.1.canon cfg, p.2)) line rs = expected cfg ls line rs
  | [], _, _ => rfl
  | (l, s) :: more, line, rs => by
    have ih := expected_canon cfg htb more
    simp only [expected] at ih
    simp only [List.map_cons, expected, expectedG, lexToks_canon cfg htb, List.flatten_cons, ih]

/-- **C15.5 `alias_equiv`.** Writing alias runes of `peek`'s switch (`• × ÷ – ˆ` in today's table, see
`P2.Oblig.lexAliases_current`) instead of their ASCII targets anywhere in operators and numbers gives the
very same tokens, lines included. -/
theorem alias_equiv (cfg : Cfg) (h : scannerOK cfg) (s0 : Sep) (ls : Layout) (tl : Tail)
    (hs0 : s0.wf cfg.comments = true) (htl : tl.wf cfg.comments = true)
    (hadm : admissible cfg ls tl.text = true)
    (hadm' : admissible cfg (ls.map fun p => (p.1.canon cfg, p.2)) tl.text = true) :
    tokenize cfg (source s0 ls tl) = tokenize cfg (source s0 (ls.map fun p => (p.1.canon cfg, p.2)) tl) := by
  rw [tokenize_layout cfg h s0 ls tl hs0 htl hadm, tokenize_layout cfg h s0 _ tl hs0 htl hadm',
    expected_canon cfg h.2.1]

/-- **C15.5 `superscript_equiv`.** A superscript rune of `run`'s switch (a case that sends `^` and the one-digit
number `d`) gives the very same tokens as `^` directly followed by `d` — in comfort mode too: both count as a
number for a following omitted `*`. -/
theorem superscript_equiv (cfg : Cfg) (h : scannerOK cfg) (c d : Char) (k : Kind)
    (hsup : cfg.tables.emit.lookup c = some ([(.operate, ['^']), (.number, [d])], k))
    (s0 : Sep) (pre post : Layout) (s : Sep) (tl : Tail)
    (hs0 : s0.wf cfg.comments = true) (htl : tl.wf cfg.comments = true)
    (hadm : admissible cfg (pre ++ (.sym c, s) :: post) tl.text = true)
    (hadm' : admissible cfg (pre ++ (.op ['^'], []) :: (.number [d], s) :: post) tl.text = true) :
    tokenize cfg (source s0 (pre ++ (.sym c, s) :: post) tl) =
      tokenize cfg (source s0 (pre ++ (.op ['^'], []) :: (.number [d], s) :: post) tl) := by
  rw [tokenize_layout cfg h s0 _ tl hs0 htl hadm, tokenize_layout cfg h s0 _ tl hs0 htl hadm']
  congr 1
  rw [expected_append, expected_append]
  congr 1
  have hk : k = .number := by
    have hm := lookup_mem _ _ _ hsup
    exact (tablesOK_super h.2.1 hm (by simp [isSuperEntry])).1
  have hcne : c ≠ '(' := by
    intro hc
    have := tablesOK_emit_notSpecial h.2.1 hsup
    apply this; simp [handSpecial, hc]
  have hcar : alias cfg.tables '^' = '^' := tablesOK_alias_struct h.2.1 (by simp)
  have hd : alias cfg.tables d = d := by
    have := tablesOK_emit_images h.2.1 hsup (kd := .number) (im := [d]) (by simp)
    simpa using this
  simp only [expected, expectedG, lexToks, hcne, ↓reduceIte, hsup, hk, List.map_cons, List.map_nil, image, hcar, hd,
    juxtaStar, juxta, List.flatten_cons, Sep.lfs, Sep.text, List.flatMap_nil, countLF, List.count_nil, Nat.add_zero,
    blankUpd, Sep.hasBlank, List.any_nil, Bool.or_false]
  rfl

/-! ## 6. omitted multiplication sign -/

/-- left operand of a juxtaposition: number, (plain) identifier or `)` -/
def isLeft (cfg : Cfg) : Lexeme → Bool
  | .number _ => true
  | .word sp => (cfg.textOps.lookup (image cfg sp)).isNone && !cfg.keywords.contains (image cfg sp)
  | .sym c => c == ')'
  | _ => false

/-- right operand of a juxtaposition: number, (plain) identifier or `(` -/
def isRight (cfg : Cfg) : Lexeme → Bool
  | .number _ => true
  | .word sp => (cfg.textOps.lookup (image cfg sp)).isNone && !cfg.keywords.contains (image cfg sp)
  | .sym c => c == '('
  | _ => false

def isWord : Lexeme → Bool
  | .word _ => true
  | _ => false

theorem juxtaStar_strip_true {rs : RunSt} (h : juxta rs = true) (line : Nat) :
    (juxtaStar rs line).map strip = [(.operate, ['*'])] := by
  simp [juxtaStar, h, strip, starTok]

theorem juxtaStar_invalid (b : Bool) (line : Nat) : juxtaStar ⟨.invalid, b⟩ line = [] := by
  simp [juxtaStar, juxta]

/-- **C15.6 `comfort_juxtaposition`.** In comfort mode, `a sep b` with `a` a number, identifier or `)` and `b` a
number, identifier or `(` — an identifier before `(` needing a blank in `sep` — gives the same (kind, image)
stream as `a sep₁ * sep₂ b`, in every context (`pre`, `post`) and for all admissible separators. -/
theorem comfort_juxtaposition (cfg : Cfg) (h : scannerOK cfg) (hc : cfg.comfort = true)
    (a b : Lexeme) (ha : isLeft cfg a = true) (hb : isRight cfg b = true)
    (s s1 s2 sb : Sep) (hblank : isWord a = true → b = .sym '(' → s.hasBlank = true)
    (s0 : Sep) (pre post : Layout) (tl : Tail)
    (hs0 : s0.wf cfg.comments = true) (htl : tl.wf cfg.comments = true)
    (hadm : admissible cfg (pre ++ (a, s) :: (b, sb) :: post) tl.text = true)
    (hadm' : admissible cfg (pre ++ (a, s1) :: (.op ['*'], s2) :: (b, sb) :: post) tl.text = true) :
    ∃ ts ts', tokenize cfg (source s0 (pre ++ (a, s) :: (b, sb) :: post) tl) = .ok ts ∧
      tokenize cfg (source s0 (pre ++ (a, s1) :: (.op ['*'], s2) :: (b, sb) :: post) tl) = .ok ts' ∧
      ts.map strip = ts'.map strip := by
  refine ⟨_, _, tokenize_layout cfg h s0 _ tl hs0 htl hadm, tokenize_layout cfg h s0 _ tl hs0 htl hadm', ?_⟩
  rw [expected_append, expected_append, List.map_append, List.map_append]
  congr 1
  generalize (endSt cfg pre (1 + s0.lfs) (blankUpd initRun s0)).1 = line
  generalize (endSt cfg pre (1 + s0.lfs) (blankUpd initRun s0)).2 = rs
  have hstar : alias cfg.tables '*' = '*' := tablesOK_alias_struct h.2.1 (by simp)
  have hclose := tablesOK_close h.2.1
  -- the state after `a`
  have hA : (lexToks cfg a rs line).2.lastType = .number ∨ (lexToks cfg a rs line).2.lastType = .close ∨
      ((lexToks cfg a rs line).2.lastType = .ident ∧ isWord a = true) := by
    cases a with
    | number sp => left; simp [lexToks, comfortType, hc]
    | word sp =>
      right; right
      simp only [isLeft, Bool.and_eq_true, Option.isNone_iff_eq_none, Bool.not_eq_true'] at ha
      have hk : ¬ image cfg sp ∈ cfg.keywords := by simpa using ha.2
      simp [lexToks, ha.1, hk, comfortType, hc, isWord]
    | sym c =>
      right; left
      simp only [isLeft, beq_iff_eq] at ha
      subst ha
      have : (')' : Char) ≠ '(' := by decide
      simp [lexToks, this, hclose, comfortType, hc]
    | str s => simp [isLeft] at ha
    | qident s => simp [isLeft] at ha
    | op sp => simp [isLeft] at ha
  -- tokens of `b` after `a sep`: a `*` is inserted; after an explicit `*`: none
  have hB : ∀ (l1 l2 : Nat) (rsA : RunSt),
      rsA.lastType = (lexToks cfg a rs line).2.lastType → rsA.lastBlank = s.hasBlank →
      (lexToks cfg b rsA l1).1.map strip = (.operate, ['*']) :: (lexToks cfg b ⟨.invalid, false⟩ l2).1.map strip := by
    intro l1 l2 rsA hty hbl
    cases b with
    | number sp =>
      have : juxta rsA = true := by
        unfold juxta; rw [hty]
        rcases hA with hA | hA | hA
        · simp [hA]
        · simp [hA]
        · simp [hA.1]
      simp [lexToks, juxtaStar_strip_true this, juxtaStar_invalid, strip]
    | word sp =>
      simp only [isRight, Bool.and_eq_true, Option.isNone_iff_eq_none, Bool.not_eq_true'] at hb
      have : juxta rsA = true := by
        unfold juxta; rw [hty]
        rcases hA with hA | hA | hA
        · simp [hA]
        · simp [hA]
        · simp [hA.1]
      have hk : ¬ image cfg sp ∈ cfg.keywords := by simpa using hb.2
      simp [lexToks, hb.1, hk, juxtaStar_strip_true this, juxtaStar_invalid, strip]
    | sym c =>
      simp only [isRight, beq_iff_eq] at hb
      subst hb
      have hopen : (rsA.lastType = Kind.number ∨ rsA.lastType = Kind.close ∨
          (rsA.lastType = Kind.ident ∧ rsA.lastBlank = true)) := by
        rw [hty, hbl]
        rcases hA with hA | hA | hA
        · exact Or.inl hA
        · exact Or.inr (Or.inl hA)
        · exact Or.inr (Or.inr ⟨hA.1, hblank hA.2 rfl⟩)
      simp [lexToks, openStar, hopen, strip, starTok]
    | str s => simp [isRight] at hb
    | qident s => simp [isRight] at hb
    | op sp => simp [isRight] at hb
  simp only [expected, expectedG, List.flatten_cons, List.map_append]
  have hB' := hB (line + s.lfs) (line + s1.lfs + s2.lfs) (blankUpd (lexToks cfg a rs line).2 s) rfl
    (by
      have : (lexToks cfg a rs line).2.lastBlank = false := by
        cases a with
        | number sp => rfl
        | word sp =>
          simp only [lexToks]
          split
          · rfl
          · split <;> rfl
        | sym c =>
          simp only [lexToks]
          split
          · rfl
          · split <;> rfl
        | str s => rfl
        | qident s => rfl
        | op sp => rfl
      simp [blankUpd, this])
  rw [hB']
  have hopTok : (lexToks cfg (.op ['*']) (blankUpd (lexToks cfg a rs line).2 s1) (line + s1.lfs)).1.map strip =
      [(.operate, ['*'])] := by simp [lexToks, image, hstar, strip]
  have hopSt : (lexToks cfg (.op ['*']) (blankUpd (lexToks cfg a rs line).2 s1) (line + s1.lfs)).2 = ⟨.invalid, false⟩ := rfl
  rw [hopTok, hopSt]
  -- `b` after the explicit `*`: lastType = invalid (whatever lastBlank is)
  have hb2 := lexToks_strip_congr cfg b (blankUpd ⟨.invalid, false⟩ s2) ⟨.invalid, false⟩ (line + s1.lfs + s2.lfs)
    (line + s1.lfs + s2.lfs) rfl (fun hi => by simp [blankUpd] at hi)
  rw [hb2.1]
  simp only [List.cons_append, List.nil_append, List.append_assoc]
  congr 2
  -- the rest: same bookkeeping, other lines
  have hst := lexToks_snd_indep cfg b (blankUpd (lexToks cfg a rs line).2 s) (blankUpd ⟨.invalid, false⟩ s2)
    (line + s.lfs) (line + s1.lfs + s2.lfs)
  rw [hst]
  have := expected_strip_congr cfg post post (line + s.lfs + sb.lfs) (line + s1.lfs + s2.lfs + sb.lfs)
    (blankUpd (lexToks cfg b (blankUpd ⟨.invalid, false⟩ s2) (line + s1.lfs + s2.lfs)).2 sb)
    (blankUpd (lexToks cfg b (blankUpd ⟨.invalid, false⟩ s2) (line + s1.lfs + s2.lfs)).2 sb)
    rfl (fun _ => blankAgree_refl post) rfl (fun _ _ => rfl)
  simp only [expected] at this
  rw [this]

/-! ## Non-vacuity: a concrete configuration (operators and keywords of `value.New()`, ASCII classes)

`sampleTables` is a copy of the tables of the repaired code, `pinnedTables` of the pinned commit (the
superscript cases do not set `thisTokenType`); the obligation module works with the regenerated ones. -/

def superRunes : List Char := "⁰¹²³⁴⁵⁶⁷⁸⁹".toList

def sampleTables : Tables where
  emit := [(')', [(.close, [')'])], .close), ('[', [(.openBracket, ['['])], .invalid), (']', [(.closeBracket, [']'])], .invalid),
    ('{', [(.openCurly, ['{'])], .invalid), ('}', [(.closeCurly, ['}'])], .invalid), ('.', [(.dot, ['.'])], .invalid),
    (':', [(.colon, [':'])], .invalid), (',', [(.comma, [','])], .invalid), (';', [(.semicolon, [';'])], .invalid)]
    ++ (superRunes.zip "0123456789".toList).map fun (c, d) => (c, [(.operate, ['^']), (.number, [d])], .number)
  aliases := [('•', '*'), ('×', '*'), ('÷', '/'), ('–', '-'), ('ˆ', '^')]
  escapes := [('n', '\n'), ('r', '\r'), ('t', '\t'), ('"', '"'), ('\\', '\\')]
  strEnd := [EOF, '\n', '\r']
  numExcl := superRunes
  identExcl := superRunes

def pinnedTables : Tables :=
  { sampleTables with emit := sampleTables.emit.map fun (c, toks, k) => (c, toks, if k == .number then .invalid else k) }

def asciiLetter (c : Char) : Bool := (97 ≤ c.toNat && c.toNat ≤ 122) || (65 ≤ c.toNat && c.toNat ≤ 90)
def asciiNumber (c : Char) : Bool := (48 ≤ c.toNat && c.toNat ≤ 57) || superRunes.contains c

def valueOps : List (List Char) :=
  ["|", "&", "=", "!=", "~", "<", ">", "<=", ">=", "+", "-", "<<", ">>", "*", "%", "/", "^", "=", "->", "-", "!"].map String.toList

def valueKeywords : List (List Char) :=
  ["let", "func", "if", "then", "else", "switch", "case", "default", "const", "try", "catch"].map String.toList

/-- the repaired scanner configured as `value.New().GetParser()` does -/
def exCfg (comments comfort : Bool) : Cfg :=
  { tables := sampleTables, ops := valueOps, textOps := [], keywords := valueKeywords, comments := comments,
    comfort := comfort, isLetter := asciiLetter, isNumber := asciiNumber, pinned := false }

/-- the scanner of the pinned commit, same configuration -/
def pinCfg (comments comfort : Bool) : Cfg :=
  { exCfg comments comfort with tables := pinnedTables, pinned := true }

example : tablesOK sampleTables = true := by decide
example : tablesOK pinnedTables = false := by decide
theorem exCfg_ok (cm cf : Bool) : scannerOK (exCfg cm cf) :=
  ⟨rfl, (by decide : tablesOK sampleTables = true), (by decide : valueOps.all (fun o => !o.contains EOF) = true)⟩

/-- (kind, image) stream of a scanner result -/
def kis : Res (List Token) → List (Kind × List Char)
  | .ok ts => ts.map strip
  | _ => []

/-- `let/*a*/x = 1 /*b*//*c*/ +//d⏎2²  //end`: comments tight against tokens, adjacent comments, a comment after an
operator, a superscript and a comment at the end of the input are an admissible layout -/
def exLayout : Layout :=
  [(.word "let".toList, [.block ['a']]), (.word ['x'], [.blank ' ']), (.op ['='], [.blank ' ']),
   (.number ['1'], [.blank ' ', .block ['b'], .block ['c'], .blank ' ']), (.op ['+'], [.line ['d'] '\n']),
   (.number ['2'], []), (.sym '²', [.blank ' ', .blank ' '])]

example : admissible (exCfg true false) exLayout (Tail.lineComment "end".toList).text = true := by decide
example : source [] exLayout (.lineComment "end".toList) = "let/*a*/x = 1 /*b*//*c*/ +//d\n2²  //end".toList := by decide
example : ∀ p ∈ exLayout, p.1.noLF = true := by decide

/-- the same lexemes, one blank each -/
def exLayoutPlain : Layout := exLayout.map fun p => (p.1, if p.1 = .number ['2'] then [] else [.blank ' '])

example : admissible (exCfg true false) exLayoutPlain Tail.none.text = true := by decide
example : exLayout.map (·.1) = exLayoutPlain.map (·.1) := by decide

/-- `layout_invariant`, `layout_tokens_plain` and `line_formula` applied: all their hypotheses hold together -/
example : ∃ ts ts', tokenize (exCfg true false) (source [] exLayout (.lineComment "end".toList)) = .ok ts ∧
    tokenize (exCfg true false) (source [.blank '\n'] exLayoutPlain .none) = .ok ts' ∧ ts.map strip = ts'.map strip :=
  layout_invariant (exCfg true false) (exCfg_ok _ _) exLayout exLayoutPlain [] [.blank '\n'] (.lineComment "end".toList) .none
    (by decide) rfl (by decide) (by decide) rfl (by decide) (by decide) (fun h => by cases h)

example : ∃ ts, tokenize (exCfg true false) (source [] exLayout (.lineComment "end".toList)) = .ok ts ∧
    ts.map strip = [(.keyword, "let".toList), (.ident, ['x']), (.operate, ['=']), (.number, ['1']), (.operate, ['+']),
      (.number, ['2']), (.operate, ['^']), (.number, ['2'])] :=
  layout_tokens_plain (exCfg true false) (exCfg_ok _ _) rfl [] exLayout (.lineComment "end".toList) rfl (by decide) (by decide)

example := line_formula (exCfg true false) (exCfg_ok _ _) [] exLayout (.lineComment "end".toList) rfl (by decide) (by decide)
  (by decide)

/-- the model run on the two texts (what `layout_invariant` and `line_formula` say about them) -/
example : tokenize (exCfg true false) "let/*a*/x = 1 /*b*//*c*/ +//d\n2²  //end".toList =
    .ok [⟨.keyword, "let".toList, 1⟩, ⟨.ident, ['x'], 1⟩, ⟨.operate, ['='], 1⟩, ⟨.number, ['1'], 1⟩, ⟨.operate, ['+'], 1⟩,
      ⟨.number, ['2'], 2⟩, ⟨.operate, ['^'], 2⟩, ⟨.number, ['2'], 2⟩] := by decide

example : kis (tokenize (exCfg true false) "let/*a*/x = 1 /*b*//*c*/ +//d\n2²  //end".toList) =
    kis (tokenize (exCfg true false) "let x = 1 + 2² ".toList) := by decide

-- strings and quoted identifiers with alias runes, comment openers, quotes, backslashes, control characters
example : (∀ c ∈ "a×b\\\"\n//\t/*".toList, c ≠ EOF) := by decide
example : tokenize (exCfg true true) ('"' :: ("a×b\\\"\n//\t/*".toList.flatMap escChar ++ ['"'])) =
    .ok [⟨.string, "a×b\\\"\n//\t/*".toList, 1⟩] := by decide
example : tokenize (exCfg true true) "'x÷y \"//'".toList = .ok [⟨.ident, "x÷y \"//".toList, 1⟩] := by decide

-- aliases: the spelled form is admissible, its canonical form too
example : admissible (exCfg true false) [(.number ['2'], []), (.op ['×'], []), (.number "1e–5".toList, [])] [] = true := by decide
example : admissible (exCfg true false)
    (([(.number ['2'], []), (.op ['×'], []), (.number "1e–5".toList, [])] : Layout).map
      fun p => (p.1.canon (exCfg true false), p.2)) [] = true := by
  decide
example := alias_equiv (exCfg true false) (exCfg_ok _ _) [] [(.number ['2'], []), (.op ['×'], []), (.number "1e–5".toList, [])]
  .none rfl rfl (by decide) (by decide)
example : tokenize (exCfg true false) "2×1e–5".toList = tokenize (exCfg true false) "2*1e-5".toList := by decide

-- superscripts
example : (exCfg false true).tables.emit.lookup '²' = some ([(.operate, ['^']), (.number, ['2'])], .number) := by decide
example : admissible (exCfg false true) ([(.word ['x'], [])] ++ (.sym '²', [.blank ' ']) :: [(.word ['y'], [])]) [] = true := by decide
example : admissible (exCfg false true)
    ([(.word ['x'], [])] ++ (.op ['^'], []) :: (.number ['2'], [.blank ' ']) :: [(.word ['y'], [])]) [] = true := by decide
example := superscript_equiv (exCfg false true) (exCfg_ok _ _) '²' '2' .number (by decide) [] [(.word ['x'], [])]
  [(.word ['y'], [])] [.blank ' '] .none rfl rfl (by decide) (by decide)
example : tokenize (exCfg false true) "x² y".toList = tokenize (exCfg false true) "x^2 y".toList := by decide

-- juxtaposition: every pattern of the property
example : isLeft (exCfg false true) (.word ['x']) = true ∧ isLeft (exCfg false true) (.word "let".toList) = false := by decide
example : admissible (exCfg true true) ([] ++ (.word ['x'], [.blank ' ']) :: (.sym '(', []) :: [(.number ['2'], []), (.sym ')', [])]) [] = true := by
  decide
example : admissible (exCfg true true)
    ([] ++ (.word ['x'], []) :: (.op ['*'], [.block []]) :: (.sym '(', []) :: [(.number ['2'], []), (.sym ')', [])]) [] = true := by
  decide
example := comfort_juxtaposition (exCfg true true) (exCfg_ok _ _) rfl (.word ['x']) (.sym '(') (by decide) (by decide)
  [.blank ' '] [] [.block []] [] (fun _ _ => rfl) [] [] [(.number ['2'], []), (.sym ')', [])] .none rfl rfl (by decide) (by decide)
example : kis (tokenize (exCfg true true) "2x 2 x x 2 x y".toList) =
    kis (tokenize (exCfg true true) "2*x*2*x*x*2*x*y".toList) := by decide
example : kis (tokenize (exCfg true true) "(x)(y) (x)2 (x)y".toList) =
    kis (tokenize (exCfg true true) "(x)*(y)*(x)*2*(x)*y".toList) := by decide
example : kis (tokenize (exCfg true true) "2(x) x (y) 2/**/3 x²y".toList) =
    kis (tokenize (exCfg true true) "2*(x)*x*(y)*2*3*x^2*y".toList) := by decide
/-- an identifier directly before `(` is a call, also with a comment in between: the meaning comfort mode gives to
    the blank -/
example : kis (tokenize (exCfg true true) "f(2) f/**/(2)".toList) = kis (tokenize (exCfg true true) "f(2)*f(2)".toList) := by decide

/-! ## Witnesses: the pinned commit violates the property (faithful model of the pinned behaviour) -/

/-- B15: a comment written tight after an operator is not skipped (`parseOperator` reads its look-ahead without
    comment skipping and `peek` returns the cached `/`) -/
theorem pinned_comment_after_operator :
    kis (tokenize (pinCfg true false) "1 +/*a*/ 2".toList) ≠ kis (tokenize (pinCfg true false) "1 + 2".toList) := by decide

/-- B15: the second of two adjacent comments is not skipped -/
theorem pinned_adjacent_comments :
    kis (tokenize (pinCfg true false) "1 /*a*//*b*/ + 2".toList) ≠ kis (tokenize (pinCfg true false) "1 + 2".toList) := by decide

/-- B15: a token written tight before a multi-line block comment gets the line after the comment -/
theorem pinned_line_after_comment :
    tokenize (pinCfg true false) "x/*\n\n*/+1".toList = .ok [⟨.ident, ['x'], 3⟩, ⟨.operate, ['+'], 3⟩, ⟨.number, ['1'], 3⟩] := by
  decide

/-- found by this slice: a comment between two words (or numbers) is skipped *inside* the token —
    `let/**/x` is the identifier `letx`, and in comfort mode `2/**/3` is `23` instead of `2*3` -/
theorem pinned_comment_merges_tokens :
    tokenize (pinCfg true false) "let/**/x".toList = .ok [⟨.ident, "letx".toList, 1⟩] ∧
    tokenize (pinCfg true true) "2/**/3".toList = .ok [⟨.number, "23".toList, 1⟩] := by decide

/-- B23: the alias switch of `peek` also rewrites the content of string literals … -/
theorem pinned_alias_in_string :
    tokenize (pinCfg false false) "\"a×b\"".toList = .ok [⟨.string, "a*b".toList, 1⟩] := by decide

/-- … and of quoted identifiers -/
theorem pinned_alias_in_quoted_ident :
    tokenize (pinCfg false false) "'x÷y'".toList = .ok [⟨.ident, "x/y".toList, 1⟩] := by decide

/-- found by this slice: a superscript does not count as a number for a following omitted `*` (comfort mode):
    `2²(3)` is a call of `2`, `2^2(3)` is `2^2*(3)` -/
theorem pinned_superscript_comfort :
    kis (tokenize (pinCfg false true) "2²(3)".toList) ≠ kis (tokenize (pinCfg false true) "2^2(3)".toList) := by decide

-- the repaired scanner on the same inputs
example : kis (tokenize (exCfg true false) "1 +/*a*/ 2".toList) = kis (tokenize (exCfg true false) "1 + 2".toList) := by decide
example : kis (tokenize (exCfg true false) "1 /*a*//*b*/ + 2".toList) = kis (tokenize (exCfg true false) "1 + 2".toList) := by decide
example : tokenize (exCfg true false) "x/*\n\n*/+1".toList = .ok [⟨.ident, ['x'], 1⟩, ⟨.operate, ['+'], 3⟩, ⟨.number, ['1'], 3⟩] := by
  decide
example : kis (tokenize (exCfg false true) "2²(3)".toList) = kis (tokenize (exCfg false true) "2^2(3)".toList) := by decide

end P2.C15
