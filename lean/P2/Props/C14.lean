import P2.Proofs.Cmp
/-! # C14 — Equality and ordering operators obey their algebraic laws

Property: "On all values, = is symmetric and (for values without NaN or closures) reflexive, compares
ints and floats by numeric value, lists element-wise and maps key-wise; < is irreflexive, asymmetric and
transitive on numbers and on strings; and the derived forms are mutually consistent: a!=b is the negation
of a=b, a>b is b<a, a<=b holds exactly when a<b or a=b, a>=b is b<=a, and x~list holds exactly when some
element equals x.  Applied to incomparable operands each of them fails with an error (never a wrong
boolean), and min/max/order/switch agree with these operators."

All statements are about OUTCOMES (`Res Bool`: a boolean, or an error) of the model `P2.Cmp` of
`value.New()`'s operators, for every float carrier `F` whose operations satisfy `FloatOrder`
(the IEEE facts; `optOps_order` shows they are satisfiable with a NaN), ints restricted to |x| < 2^53
where a law needs `float64(int)` to be exact (`numInRange`), maps with pairwise different keys (`wf`,
what C13 establishes for every storage).  `cfg.nestedDeep` is the regenerated fact "the comparator handed
to `List.Equals`/`Map.Equals` is the deep one" (false at the pinned commit: `[[1]] = [[1]]` is an error). -/
namespace P2.C14
open P2 P2.Cmp

variable {F : Type}

/-! ## `=` is symmetric

FULL STATEMENT (does not hold, at the pinned commit and after the fix — finding `map-eq-mixed-error`):
`theorem eq_symm : ∀ a b, equal cfg O a b = equal cfg O b a`.
`Map.Equals` iterates the LEFT map and stops at the first entry that is not equal, so with one entry
that differs and one that is incomparable the outcome is `false` one way and an error the other
(`eq_symm_fails_witness`).  Proved instead: full symmetry whenever one operand contains no map
(`eq_symm_partial`), and for all values: `true` is symmetric (`eq_symm_true`) and the ONLY possible
asymmetry is `false` against `error` (`eq_symm_upto_mixed_error`). -/

theorem eq_symm_partial {O : FloatOps F} (hO : FloatOrder O) (cfg : Cfg) (a b : Value F)
    (h : mapFree a = true ∨ mapFree b = true) : equal cfg O a b = equal cfg O b a := by
  rcases h with h | h
  · exact equal_symm_mapFree hO cfg a b h
  · exact (equal_symm_mapFree hO cfg b a h).symm

theorem eq_symm_true {O : FloatOps F} (hO : FloatOrder O) (cfg : Cfg) (a b : Value F)
    (ha : wf a = true) (hb : wf b = true) : equal cfg O a b = .ok true ↔ equal cfg O b a = .ok true :=
  ⟨equal_symm_true hO cfg a b ha hb, equal_symm_true hO cfg b a hb ha⟩

/-- `=` never panics and never runs out of fuel: a boolean or an ordinary error -/
theorem eq_outcome_total (cfg : Cfg) (O : FloatOps F) (a b : Value F) :
    equal cfg O a b = .ok true ∨ equal cfg O a b = .ok false ∨ equal cfg O a b = .err :=
  (equal_tri cfg O a b).cases

theorem eq_symm_upto_mixed_error {O : FloatOps F} (hO : FloatOrder O) (cfg : Cfg) (a b : Value F)
    (ha : wf a = true) (hb : wf b = true) :
    equal cfg O a b = equal cfg O b a ∨
    (equal cfg O a b = .ok false ∧ equal cfg O b a = .err) ∨
    (equal cfg O a b = .err ∧ equal cfg O b a = .ok false) := by
  have hs := eq_symm_true hO cfg a b ha hb
  rcases eq_outcome_total cfg O a b with h1 | h1 | h1 <;>
    rcases eq_outcome_total cfg O b a with h2 | h2 | h2 <;> simp_all

/-- the two maps of the finding: `{x:1, y:"s"}` and `{y:2, x:5}` -/
def mixedL : Value (Option Int) := .map [(['x'], .int 1), (['y'], .str ['s'])]
def mixedR : Value (Option Int) := .map [(['y'], .int 2), (['x'], .int 5)]

/-- negation of the full `eq_symm` on a witness, before and after the fix -/
theorem eq_symm_fails_witness :
    (equal cfgPinned optOps mixedL mixedR = .ok false ∧ equal cfgPinned optOps mixedR mixedL = .err) ∧
    (equal cfgFixed optOps mixedL mixedR = .ok false ∧ equal cfgFixed optOps mixedR mixedL = .err) := by
  decide

example : wf mixedL = true ∧ wf mixedR = true ∧ mapFree mixedL = false := by decide
example : mapFree (.list true [.int 1, .list false [.flt (some 2)]] : Value (Option Int)) = true := by decide

/-! ## `=` is reflexive on values without NaN and closures

Holds for the deep comparator (`cfg.nestedDeep = true`, obligation `P2.Oblig.cmpCfg_nestedDeep` over the
regenerated fact).  At the pinned commit the elements of lists and maps are compared with the scalar
matrix, so every value of nesting depth 2 fails (`eq_refl_fails_pinned`). -/

theorem eq_refl {O : FloatOps F} (hO : FloatOrder O) (cfg : Cfg) (hc : cfg.nestedDeep = true) (a : Value F)
    (hw : wf a = true) (hp : plain O a = true) : equal cfg O a a = .ok true :=
  equal_refl hO cfg hc a hw hp

/-- `[[1]]` and `{a: {b: 1}}` -/
def nestedL : Value (Option Int) := .list true [.list true [.int 1]]
def nestedM : Value (Option Int) := .map [(['a'], .map [(['b'], .int 1)])]

theorem eq_refl_fails_pinned :
    equal cfgPinned optOps nestedL nestedL = .err ∧ equal cfgPinned optOps nestedM nestedM = .err := by decide

example : wf nestedL = true ∧ plain optOps nestedL = true ∧ equal cfgFixed optOps nestedL nestedL = .ok true ∧
    equal cfgFixed optOps nestedM nestedM = .ok true := by decide
/-- NaN and closures are rightly excluded -/
example : equal cfgFixed optOps (.flt none) (.flt none) = .ok false ∧
    equal cfgFixed optOps (.clo 1) (.clo 1) = .err := by decide

/-! ## ints and floats by numeric value -/

/-- `=` and `<` on two numbers are the float comparison of their numeric values (`float64(i)` for an
int, exact for |i| < 2^53) — the same for int/int, int/float, float/int and float/float -/
theorem eq_num {O : FloatOps F} (hO : FloatOrder O) (cfg : Cfg) (a b : Value F) (x y : F)
    (ha : numVal O a = some x) (hb : numVal O b = some y)
    (hra : numInRange a = true) (hrb : numInRange b = true) :
    equal cfg O a b = .ok (O.feq x y) ∧ less O a b = .ok (O.flt x y) :=
  ⟨equal_num hO cfg a b x y ha hb hra hrb, less_num hO a b x y ha hb hra hrb⟩

example : numVal optOps (.int 3) = some (some 3) ∧ numVal optOps (.flt (some 3)) = some (some 3) ∧
    numInRange (.int 3 : Value (Option Int)) = true ∧
    equal cfgFixed optOps (.int 3) (.flt (some 3)) = .ok true := by decide

/-! ## lists element-wise, maps key-wise -/

/-- the outcome of `=` on two lists: `false` for different lengths, otherwise the first element
comparison that is not `true` decides -/
theorem eq_list_outcome (cfg : Cfg) (hc : cfg.nestedDeep = true) (O : FloatOps F) (p q : Bool) (xs ys : List (Value F)) :
    equal cfg O (.list p xs) (.list q ys) =
      if xs.length ≠ ys.length then .ok false else listEquals (equal cfg O) xs ys := by
  rw [equal_unfold]
  simp [deepCalc, inner, hc]

theorem eq_list (cfg : Cfg) (hc : cfg.nestedDeep = true) (O : FloatOps F) (p q : Bool) (xs ys : List (Value F)) :
    equal cfg O (.list p xs) (.list q ys) = .ok true ↔
      xs.length = ys.length ∧ ∀ e ∈ xs.zip ys, equal cfg O e.1 e.2 = .ok true := by
  rw [eq_list_outcome cfg hc]
  by_cases hl : xs.length = ys.length
  · rw [if_neg (fun hne => hne hl), listEquals_true_iff]
  · simp [hl]

/-- the outcome of `=` on two maps: `false` for different sizes, otherwise the entries of the LEFT map
are visited in its iteration order and the first one that is missing / not `true` decides -/
theorem eq_map_outcome (cfg : Cfg) (hc : cfg.nestedDeep = true) (O : FloatOps F) (a b : List (List Char × Value F)) :
    equal cfg O (.map a) (.map b) =
      if a.length ≠ b.length then .ok false else mapEquals (equal cfg O) a b := by
  rw [equal_unfold]
  simp [deepCalc, inner, hc]

theorem eq_map (cfg : Cfg) (hc : cfg.nestedDeep = true) (O : FloatOps F) (a b : List (List Char × Value F)) :
    equal cfg O (.map a) (.map b) = .ok true ↔
      a.length = b.length ∧ ∀ kv ∈ a, ∃ o, lookupKey kv.1 b = some o ∧ equal cfg O o kv.2 = .ok true := by
  rw [eq_map_outcome cfg hc]
  by_cases hl : a.length = b.length
  · rw [if_neg (fun hne => hne hl), mapEquals_true_iff]
    simp [hl]
  · simp [hl]

/-- `true` does not depend on the representation (iteration order) of either map -/
theorem eq_map_repr_indep (cfg : Cfg) (hc : cfg.nestedDeep = true) (O : FloatOps F)
    (a a' b b' : List (List Char × Value F)) (ha : a.Perm a') (hb : b.Perm b') (hn : keysNodup b = true) :
    equal cfg O (.map a) (.map b) = .ok true ↔ equal cfg O (.map a') (.map b') = .ok true := by
  have hnb : (keys b).Nodup := (keysNodup_iff b).mp hn
  have hnb' : (keys b').Nodup := (List.Perm.nodup_iff (List.Perm.map Prod.fst hb)).mp hnb
  have hlk : ∀ k o, lookupKey k b = some o ↔ lookupKey k b' = some o := by
    intro k o
    constructor
    · intro h; exact lookupKey_of_mem_nodup k o b' hnb' (hb.mem_iff.mp (lookupKey_mem k b o h))
    · intro h; exact lookupKey_of_mem_nodup k o b hnb (hb.mem_iff.mpr (lookupKey_mem k b' o h))
  rw [eq_map cfg hc, eq_map cfg hc, ha.length_eq, hb.length_eq]
  constructor
  · rintro ⟨hl, h⟩
    refine ⟨hl, fun kv hkv => ?_⟩
    rcases h kv (ha.mem_iff.mpr hkv) with ⟨o, ho, he⟩
    exact ⟨o, (hlk _ _).mp ho, he⟩
  · rintro ⟨hl, h⟩
    refine ⟨hl, fun kv hkv => ?_⟩
    rcases h kv (ha.mem_iff.mp hkv) with ⟨o, ho, he⟩
    exact ⟨o, (hlk _ _).mpr ho, he⟩

example : equal cfgFixed optOps (.map [(['p'], .int 1), (['q'], .int 2)]) (.map [(['q'], .flt (some 2)), (['p'], .int 1)]) = .ok true := by
  decide
example : ([(['p'], (.int 1 : Value (Option Int))), (['q'], .int 2)]).Perm [(['q'], .int 2), (['p'], .int 1)] ∧
    keysNodup [(['p'], (.int 1 : Value (Option Int))), (['q'], .int 2)] = true :=
  ⟨List.Perm.swap _ _ _, by decide⟩

/-! ## `<` is irreflexive, asymmetric and transitive on numbers and on strings
(on every other operand pair it is an error, see `incomparable_is_error`) -/

theorem lt_irrefl {O : FloatOps F} (hO : FloatOrder O) (a : Value F) : less O a a ≠ .ok true :=
  less_irrefl hO a

theorem lt_asymm {O : FloatOps F} (hO : FloatOrder O) (a b : Value F) :
    less O a b = .ok true → less O b a = .ok false :=
  less_asymm hO a b

theorem lt_trans {O : FloatOps F} (hO : FloatOrder O) (a b c : Value F)
    (ha : numInRange a = true) (hb : numInRange b = true) (hc : numInRange c = true) :
    less O a b = .ok true → less O b c = .ok true → less O a c = .ok true :=
  less_trans hO a b c ha hb hc

example : numInRange (.int 9007199254740991 : Value (Option Int)) = true ∧
    numInRange (.int 9007199254740992 : Value (Option Int)) = false ∧ numInRange (.flt none : Value (Option Int)) = true := by decide
example : less optOps (.int 1) (.flt (some 2)) = .ok true ∧ less optOps (.flt (some 2)) (.int 3) = .ok true ∧
    less optOps (.str ['a']) (.str ['a', 'b']) = .ok true ∧ less optOps (.str ['a', 'b']) (.str ['b']) = .ok true := by
  decide

/-! ## the derived operators -/

/-- `a != b` is the negation of `a = b` (an error stays an error) -/
theorem ne_is_not_eq (cfg : Cfg) (O : FloatOps F) (a b : Value F) :
    (∀ v, equal cfg O a b = .ok v → notEqual cfg O a b = .ok (!v)) ∧
    (equal cfg O a b = .err → notEqual cfg O a b = .err) ∧
    (∀ v, notEqual cfg O a b = .ok v → equal cfg O a b = .ok (!v)) := by
  simp only [notEqual]
  refine ⟨fun v h => by simp [h], fun h => by simp [h], fun v h => ?_⟩
  cases h' : equal cfg O a b with
  | ok w => simp [h'] at h; simp [← h]
  | err => simp [h'] at h
  | panic => simp [h'] at h
  | fuel => simp [h'] at h

/-- `a > b` is `b < a` -/
theorem gt_is_flip (O : FloatOps F) (a b : Value F) : greater O a b = less O b a := rfl

/-- `a <= b` is `a < b or a = b`: where `<` is defined so is `=`, and `<=` is their disjunction;
where `<` is an error so is `<=` -/
theorem le_iff_lt_or_eq (cfg : Cfg) (O : FloatOps F) (a b : Value F) :
    (∀ l, less O a b = .ok l → ∃ e, equal cfg O a b = .ok e ∧ lessEq cfg O a b = .ok (l || e)) ∧
    (less O a b = .err → lessEq cfg O a b = .err) := by
  refine ⟨fun l h => ?_, fun h => by simp [lessEq, h]⟩
  rcases less_ok_equal_ok cfg O a b l h with ⟨e, he⟩
  refine ⟨e, he, ?_⟩
  cases l <;> simp [lessEq, h, he]

/-- `a >= b` is `b <= a` -/
theorem ge_is_flip_le {O : FloatOps F} (hO : FloatOrder O) (cfg : Cfg) (a b : Value F) :
    greaterEq cfg O a b = lessEq cfg O b a :=
  greaterEq_eq_lessEq_flip hO cfg a b

/-! ## `x ~ list` holds exactly when some element equals `x`

FULL STATEMENT (does not hold — finding `tilde-lhs-is-list`): for EVERY `x`,
`tilde cfg O x (.list p l) = containsItem cfg O x l` (true iff an element equals `x`, evaluated left to right).
With a list on the left the operator means "all items of the left list are contained in the right one"
(`List.containsAllItems`): `[1] ~ [[1]]` is an error although the element `[1]` equals `x`
(`tilde_lhs_list_witness`).  The extra hypothesis of the partial theorem is exactly "x is not a list". -/

theorem tilde_iff_exists_partial (cfg : Cfg) (O : FloatOps F) (x : Value F) (p : Bool) (l : List (Value F))
    (hx : x.ty ≠ .list) :
    (tilde cfg O x (.list p l) = .ok true ↔
      ∃ pre v post, l = pre ++ v :: post ∧ equal cfg O x v = .ok true ∧ ∀ u ∈ pre, equal cfg O x u = .ok false) ∧
    (tilde cfg O x (.list p l) = .ok false ↔ ∀ u ∈ l, equal cfg O x u = .ok false) := by
  have : tilde cfg O x (.list p l) = containsItem cfg O x l := by
    cases x <;> simp_all [tilde, Value.ty]
  rw [this]
  exact ⟨containsItem_true_iff cfg O x l, containsItem_false_iff cfg O x l⟩

/-- the map-key and substring cases of `~` -/
theorem tilde_map_key (cfg : Cfg) (O : FloatOps F) (k : List Char) (m : List (List Char × Value F)) :
    tilde cfg O (.str k) (.map m) = .ok (decide (k ∈ keys m)) := by
  simp only [tilde]
  congr 1
  cases h : lookupKey k m with
  | none =>
    have : ¬ k ∈ keys m := fun hk => by
      rcases lookupKey_isSome_of_key k m hk with ⟨v, hv⟩
      simp [hv] at h
    simp [this]
  | some v => simp [key_of_mem (lookupKey_mem k m v h)]

theorem tilde_substring (cfg : Cfg) (O : FloatOps F) (a b : List Char) :
    tilde cfg O (.str a) (.str b) = .ok true ↔ ∃ p s, b = p ++ a ++ s := by
  simp only [tilde, Res.ok.injEq]
  exact isInfix_iff a b

/-- `[1] ~ [[1]]`: an element of the right list equals the left operand, yet the outcome is an error;
`[] ~ []` is true although the right list has no element -/
theorem tilde_lhs_list_witness :
    equal cfgFixed optOps (.list true [.int 1]) (.list true [.int 1]) = .ok true ∧
    tilde cfgFixed optOps (.list true [.int 1]) (.list true [.list true [.int 1]]) = .err ∧
    tilde cfgPinned optOps (.list true [.int 1]) (.list true [.list true [.int 1]]) = .err ∧
    tilde cfgFixed optOps (.list true []) (.list true []) = .ok true := by decide

example : (Value.int 2 : Value (Option Int)).ty ≠ .list := by decide
example : tilde cfgFixed optOps (.int 2) (.list false [.int 1, .flt (some 2), .str ['a']]) = .ok true ∧
    tilde cfgFixed optOps (.int 3) (.list false [.int 1, .flt (some 2), .str ['a']]) = .err := by decide

/-! ## incomparable operands: an error, never a boolean -/

/-- For every operator and every pair of operand types outside the operator's dispatch table
(`opDefined`; obligation `P2.Oblig.cmpMatrix_eq_dispatch`: it is the table probed from the live
operators) the outcome is an error. -/
theorem incomparable_is_error (cfg : Cfg) (O : FloatOps F) (op : Op) (a b : Value F)
    (h : opDefined op a.ty b.ty = false) : evalOp cfg O op a b = .err := by
  cases op <;> simp only [evalOp]
  · exact equal_err_of_undefined cfg O a b h
  · simp [notEqual, equal_err_of_undefined cfg O a b h]
  · exact less_err_of_undefined O a b h
  · exact less_err_of_undefined O b a h
  · simp [lessEq, less_err_of_undefined O a b h]
  · simp [greaterEq, less_err_of_undefined O b a h]
  · exact tilde_err_of_undefined cfg O a b h

/-- conversely, on scalars inside the table the six relational operators return a boolean -/
theorem comparable_scalars_bool (cfg : Cfg) (O : FloatOps F) (op : Op) (a b : Value F) (hop : op ≠ .tilde)
    (ha : depth a = 0) (hb : depth b = 0) (h : opDefined op a.ty b.ty = true) :
    ∃ v, evalOp cfg O op a b = .ok v := by
  have heq : eqMatrix a.ty b.ty = true → ∃ v, equal cfg O a b = .ok v := fun hm => by
    rw [equal_scalar cfg O a b ha]; exact (simple_ok_iff O a b).mpr hm
  have hsc : opDefined .eq a.ty b.ty = true → eqMatrix a.ty b.ty = true := by
    cases a <;> cases b <;> simp_all [opDefined, Value.ty, depth]
  cases op <;> simp only [evalOp]
  · exact heq (hsc h)
  · rcases heq (hsc h) with ⟨v, hv⟩
    exact ⟨!v, by simp [notEqual, hv]⟩
  · exact (less_ok_iff O a b).mpr h
  · exact (less_ok_iff O b a).mpr h
  · rcases (less_ok_iff O a b).mpr h with ⟨l, hl⟩
    rcases ((le_iff_lt_or_eq cfg O a b).1 l hl) with ⟨e, _, he⟩
    exact ⟨_, he⟩
  · rcases (less_ok_iff O b a).mpr h with ⟨l, hl⟩
    rcases heq (ltMatrix_sub_eqMatrix _ _ (by rw [ltMatrix_symm]; exact h)) with ⟨e, he⟩
    cases l <;> simp [greaterEq, hl, he]
  · exact absurd rfl hop

example : Op.le ≠ .tilde ∧ depth (.int 1 : Value (Option Int)) = 0 ∧
    opDefined .le (Value.int 1 : Value (Option Int)).ty (Value.flt none : Value (Option Int)).ty = true := by decide
example : opDefined .lt (Value.bool true : Value (Option Int)).ty (Value.bool true : Value (Option Int)).ty = false ∧
    opDefined .eq (Value.clo 1 : Value (Option Int)).ty (Value.clo 1 : Value (Option Int)).ty = false ∧
    opDefined .tilde (Value.int 1 : Value (Option Int)).ty (Value.map [] : Value (Option Int)).ty = false := by decide

/-! ## min / max / order / switch agree with the operators -/

/-- `min(a, b)` is `b` if `b < a`, `a` if not, an error if `b < a` is an error; `max(a, b)` likewise
with `a < b`.  `list.min()` / `list.max()` run the same loop. -/
theorem min_max_two (O : FloatOps F) (a b : Value F) :
    (less O b a = .ok true → minStatic O [a, b] = .ok (some b)) ∧
    (less O b a = .ok false → minStatic O [a, b] = .ok (some a)) ∧
    (less O b a = .err → minStatic O [a, b] = .err) ∧
    (less O a b = .ok true → maxStatic O [a, b] = .ok (some b)) ∧
    (less O a b = .ok false → maxStatic O [a, b] = .ok (some a)) ∧
    (less O a b = .err → maxStatic O [a, b] = .err) := by
  refine ⟨?_, ?_, ?_, ?_, ?_, ?_⟩ <;> intro h <;> simp [minStatic, maxStatic, minFold, maxFold, h]

/-- the result of `min` is one of the arguments and no argument is less than it; the result of `max`
is one of the arguments and is less than none (any number of arguments; the same loop serves
`list.min()` / `list.max()`) -/
theorem min_max_agree {O : FloatOps F} (hO : FloatOrder O) (x : Value F) (xs : List (Value F)) (r : Value F)
    (hr : ∀ v ∈ x :: xs, numInRange v = true) :
    (minStatic O (x :: xs) = .ok (some r) → r ∈ x :: xs ∧ ∀ v ∈ x :: xs, less O v r ≠ .ok true) ∧
    (maxStatic O (x :: xs) = .ok (some r) → r ∈ x :: xs ∧ ∀ v ∈ x :: xs, less O r v ≠ .ok true) ∧
    (listMin O (x :: xs) = .ok r ↔ minStatic O (x :: xs) = .ok (some r)) ∧
    (listMax O (x :: xs) = .ok r ↔ maxStatic O (x :: xs) = .ok (some r)) := by
  refine ⟨?_, ?_, ?_, ?_⟩
  · intro h
    simp only [minStatic] at h
    cases hm : minFold O x xs with
    | ok m =>
      simp only [hm, Res.ok.injEq, Option.some.injEq] at h
      subst h
      have := minFold_spec hO xs x m hr hm
      refine ⟨this.1, fun v hv => ?_⟩
      rcases List.mem_cons.mp hv with rfl | hv
      · rcases this.2.1 with h1 | h1
        · rw [less_asymm hO m v h1]; simp
        · rw [h1]; exact less_irrefl hO v
      · exact this.2.2 v hv
    | err => simp [hm] at h
    | panic => simp [hm] at h
    | fuel => simp [hm] at h
  · intro h
    simp only [maxStatic] at h
    cases hm : maxFold O x xs with
    | ok m =>
      simp only [hm, Res.ok.injEq, Option.some.injEq] at h
      subst h
      have := maxFold_spec hO xs x m hr hm
      refine ⟨this.1, fun v hv => ?_⟩
      rcases List.mem_cons.mp hv with rfl | hv
      · rcases this.2.1 with h1 | h1
        · rw [less_asymm hO v m h1]; simp
        · rw [h1]; exact less_irrefl hO v
      · exact this.2.2 v hv
    | err => simp [hm] at h
    | panic => simp [hm] at h
    | fuel => simp [hm] at h
  · simp only [listMin, minStatic]
    cases minFold O x xs <;> simp
  · simp only [listMax, maxStatic]
    cases maxFold O x xs <;> simp

example : (∀ v ∈ [(.int 3 : Value (Option Int)), .flt (some 1), .int 2], numInRange v = true) ∧
    minStatic optOps [.int 3, .flt (some 1), .int 2] = .ok (some (.flt (some 1))) ∧
    maxStatic optOps [.int 3, .flt (some 1), .int 2] = .ok (some (.int 3)) ∧
    minStatic optOps [.int 3, .str ['a']] = .err := by
  exact ⟨by decide, rfl, rfl, rfl⟩

/-- `order`: if it succeeds the result is a permutation of the list in which every element is
comparable with its predecessor and not less than it (all values, NaN included); an incomparable pair
met by the sort is an error (`orderBy` returns no list then). -/
theorem order_sorted_by_lt {O : FloatOps F} (hO : FloatOrder O) (xs ys : List (Value F)) :
    orderBy O xs = .ok ys → AscSorted O ys ∧ ys.Perm xs := by
  intro h
  have := orderLoop_spec hO xs [] ys trivial h
  exact ⟨this.1, by simpa using this.2⟩

/-- on lists without NaN (ints |x| < 2^53) the result is sorted pair-wise: NO later element is less than
an earlier one -/
theorem order_sorted_pairwise {O : FloatOps F} (hO : FloatOrder O) (xs ys : List (Value F))
    (hr : ∀ v ∈ xs, numInRange v = true) (hp : ∀ v ∈ xs, plain O v = true) :
    orderBy O xs = .ok ys → ys.Pairwise (fun earlier later => less O later earlier = .ok false) := by
  intro h
  have hs := order_sorted_by_lt hO xs ys h
  apply chain_pairwise ys _ hs.1
  intro a ha b hb c hc h1 h2
  have ma := hs.2.mem_iff.mp ha
  have mb := hs.2.mem_iff.mp hb
  have mc := hs.2.mem_iff.mp hc
  exact less_negtrans hO a b c (hr a ma) (hr b mb) (hr c mc) (hp a ma) (hp b mb) (hp c mc) h1 h2

example : (∀ v ∈ [(.int 3 : Value (Option Int)), .flt (some 1), .int 2], numInRange v = true) ∧
    (∀ v ∈ [(.int 3 : Value (Option Int)), .flt (some 1), .int 2], plain optOps v = true) := by decide
/-- with a NaN only neighbours are in order: `[2, NaN, 1]` stays as it is -/
example : orderBy optOps [.int 2, .flt none, .int 1] = .ok [.int 2, .flt none, .int 1] := rfl

/-- two elements: `order` swaps exactly when the second is less than the first -/
theorem order_two (O : FloatOps F) (a b : Value F) :
    (less O b a = .ok true → orderBy O [a, b] = .ok [b, a]) ∧
    (less O b a = .ok false → orderBy O [a, b] = .ok [a, b]) ∧
    (less O b a = .err → orderBy O [a, b] = .err) := by
  refine ⟨?_, ?_, ?_⟩ <;> intro h <;> simp [orderBy, orderLoop, insRev, h]

example : orderBy optOps [.int 3, .flt (some 1), .int 2] = .ok [.flt (some 1), .int 2, .int 3] ∧
    orderBy optOps [.int 3, .str ['a'], .int 2] = .err := ⟨rfl, rfl⟩

/-- `switch v case c₀ … case cₙ default`: case `i` is selected exactly when `v = cᵢ` is true and
`v = cⱼ` is false for all earlier `j`; the default exactly when all are false (so an error of an
earlier comparison is an error of the switch) -/
theorem switch_selects_by_eq (cfg : Cfg) (O : FloatOps F) (v : Value F) (cs : List (Value F)) :
    (∀ i, switchSel cfg O v cs = .ok (some i) ↔
      ∃ c, cs[i]? = some c ∧ equal cfg O v c = .ok true ∧ ∀ u ∈ cs.take i, equal cfg O v u = .ok false) ∧
    (switchSel cfg O v cs = .ok none ↔ ∀ c ∈ cs, equal cfg O v c = .ok false) :=
  ⟨switchSel_some_iff cfg O v cs, switchSel_none_iff cfg O v cs⟩

example : switchSel cfgFixed optOps (.int 2) [.int 1, .flt (some 2), .str ['a']] = .ok (some 1) ∧
    switchSel cfgFixed optOps (.int 3) [.int 1, .flt (some 2), .str ['a']] = .err ∧
    switchSel cfgFixed optOps (.int 3) [.int 1, .flt (some 2)] = .ok none := by decide

end P2.C14
