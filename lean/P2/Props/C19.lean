import P2.Proofs.GenericScope
import P2.Proofs.GenericTables
/-! # C19 — The generic generator is correct for any value type

Property (fixed text): *instantiated with a minimal value type — booleans with `^ = | &` and `!`, or
floats with comparison, arithmetic, unary minus, implicit multiplication and functions — the
parser/optimizer/compiler chain computes, for every expression and every assignment of its variables,
exactly the value given by the operators' own definitions under the declared priorities, with the
optimizer enabled and disabled alike.*

## What is proved here, and how the chain is cut

The chain `text → tokens → AST → (optimised AST) → Go closures → value` is covered by **three stage
theorems**, two of which are composed in Lean:

* **parser stage** (text/tokens → AST, priorities, left associativity, unary minus at its table
  position, parentheses): C03's `parse_render`, for every operator table.  It lives in the C03 slice,
  over C03's own tree type, and is **not composed** with the statements below in Lean; the link is the
  bounded-exhaustive harness `tie/c19.go` (every expression up to the node bound is rendered, sent
  through the real `Generate`, and compared with direct evaluation of the tree).
* **optimizer stage** (`optimize_sound`, `frontend_sound`): identifier resolution with constant-`let`
  substitution, the inline optimisation of `let` values and the final `Optimize` pass preserve the
  value in every environment, errors included, for **every table that satisfies `Laws`**.
* **compiler stage** (`gen_correct`, `run_correct`): `GenerateFunc` on the closure-free fragment
  (identifiers → stack slots, `let` pushes, one-argument static calls through `Push`/`CreateFrame`,
  `if` through `toBool`) computes the environment semantics, never panics, for **every** table.
* **composed in Lean** (`generic_chain_correct`): optimizer stage ∘ compiler stage, optimizer on and
  off, for every table with `Laws` and every well-scoped source expression — the formal reading of
  "for any value type".  `bool_chain_correct` and `float_chain_correct` are its instances at the
  semantics of `example/bool.go` (all flag assignments) and of `example/minimal.go` over exact
  numbers (`Rat`; flag assignments inside the lawful set `{+, *}`).

`Laws` is an obligation on the *flags* of the table; the flags of the two shipped example tables are
regenerated from the live generators on every run and the obligation is discharged by `decide` in
`P2/Oblig/ExampleTables.lean` (bool) and `P2/Oblig/ExampleTablesMinimal.lean` (minimal).

Floats: the theorems are about exact arithmetic.  float64 `+` and `*` are commutative but not
associative (rounding), so regrouping may change the last bit; on the property's domain — operands on
a grid of exactly representable numbers, division by powers of two only, every intermediate result
exact — float64 arithmetic coincides with `Rat` arithmetic and nothing is observable.  That domain
restriction is part of the property's quantifier; the harness re-checks exactness with math/big. -/
namespace P2.C19
open P2.Generic
variable {V : Type}

/-! ## optimizer stage (shared with C02) -/

/-- C02.1 / C19: each rewrite of `optimizer.Optimize` — binary fold, `(c₁∘x)∘c₂ ⇒ (c₁∘c₂)∘x`,
`(x∘c₁)∘c₂ ⇒ x∘(c₁∘c₂)`, unary fold, constant `if`, pure static call on a constant — preserves the
value in every environment, errors included, under `Laws`. -/
theorem rule_sound (t : Table V) (hl : Laws t) (env : Env V) (e : E V) :
    eval t (rule t e) env = eval t e env :=
  P2.Generic.rule_sound t hl env e

/-- C02.2 / C19: the optimised tree denotes the same value (or the same error) as the tree itself,
for every expression, environment and table with `Laws`. -/
theorem optimize_sound (t : Table V) (hl : Laws t) (e : E V) (env : Env V) :
    eval t (optimize t e) env = eval t e env :=
  P2.Generic.optimize_sound t hl e env

/-- the whole front end after the token level, optimizer on (needs `Laws`) or off (needs nothing):
constant identifiers, constant-`let` substitution, inline optimisation of `let` values, final pass. -/
theorem frontend_sound (t : Table V) (on : Bool) (hl : on = true → Laws t) (cs : Consts V) (e : E V)
    (env : Env V) : eval t (frontend t on cs e) env = eval t e (overlay cs env) :=
  P2.Generic.frontend_sound t on hl cs e env

/-- `Laws` is not a formality: without it the statement is false.  `example/minimal.go` at the pinned
commit registers `=` (result coded as 1/0) with `isCommutative = true`.  (B19) -/
def pinnedMinimalOps : List OpRow :=
  [("=", true, true), ("<", true, false), (">", true, false), ("+", true, true), ("-", true, false),
   ("*", true, true), ("/", true, false), ("^", true, false)]

/-- the same table with the proposed repair (`=` not flagged) -/
def repairedMinimalOps : List OpRow :=
  [("=", true, false), ("<", true, false), (">", true, false), ("+", true, true), ("-", true, false),
   ("*", true, true), ("/", true, false), ("^", true, false)]

def minimalStaticsPinned : List (String × Int × Bool) :=
  [("cos", 1, true), ("exp", 1, true), ("ln", 1, true), ("sin", 1, true), ("sqr", 1, true),
   ("sqrt", 1, true), ("tan", 1, true)]

/-- `(2 = a) = 1` -/
def b19 : E Rat := .op "=" (.op "=" (.const 2) (.var "a")) (.const 1)

/-- B19 on the faithful model of the pinned table: with `a = 2` the optimizer regroups to
`(2 = 1) = a` and the function returns 0; without the optimizer it returns 1. -/
theorem pinned_b19_diverges :
    chain (minimalTable pinnedMinimalOps minimalStaticsPinned) true Consts.none b19 ["a"] [2] = .value 0 ∧
    chain (minimalTable pinnedMinimalOps minimalStaticsPinned) false Consts.none b19 ["a"] [2] = .value 1 := by
  decide +kernel

theorem pinned_minimal_not_lawful : ¬ Laws (minimalTable pinnedMinimalOps minimalStaticsPinned) := by
  intro h
  exact minimal_eq_unlawful (h.to_ops "=" (by decide))

/-- the pinned flags are outside the lawful set; the repaired ones are inside -/
theorem pinned_flags_not_lawful : ¬ ∀ o ∈ flaggedCommutative pinnedMinimalOps, o ∈ minimalLawful := by decide
theorem repaired_flags_lawful : ∀ o ∈ flaggedCommutative repairedMinimalOps, o ∈ minimalLawful := by decide

theorem repaired_b19_agrees :
    chain (minimalTable repairedMinimalOps minimalStaticsPinned) true Consts.none b19 ["a"] [2] = .value 1 ∧
    chain (minimalTable repairedMinimalOps minimalStaticsPinned) false Consts.none b19 ["a"] [2] = .value 1 := by
  decide +kernel

/-! ## compiler stage -/

/-- C19 (compiler stage; C01.1 restricted to the closure-free fragment, generic in `V`): if
`GenerateFunc` accepts the tree and the stack window holds the environment, the generated code returns
the value of the reference semantics, or `.err` exactly when the reference semantics has an error;
it never panics (no slot access outside the storage, no "stack overflow" within the limit) and does
not disturb the live part of the shared storage. -/
theorem gen_correct (t : Table V) (a : E V) (am : Names) (env : Env V) (st : Stack V) (c : Code V)
    (hg : gen t a am = some c) (hr : EnvRel am env st)
    (hd : st.offs + st.size + depth a ≤ stackLimit + 1) :
    (∀ v, eval t a env = some v → ∃ d, exec t c st = .ok (v, d) ∧ Preserves st d) ∧
    (eval t a env = none → exec t c st = .err) :=
  P2.Generic.gen_correct t a am env st c hg hr hd

/-- `Generate(exp, args…)` then `Eval(vals…)` -/
theorem run_correct (t : Table V) (e : E V) (args : List String) (vals : List V) (c : Code V)
    (hg : gen t e args = some c) (hlen : args.length = vals.length)
    (hd : vals.length + depth e ≤ stackLimit + 1) :
    run t e args vals = Outcome.ofOption (eval t e (envOf args vals)) :=
  P2.Generic.run_correct t e args vals c hg hlen hd

/-! ## composed: optimizer ∘ compiler, "for any value type" -/

/-- names visible to a program: the parser's constants and the argument names -/
def visOf (cs : Consts V) (args : List String) : String → Bool :=
  fun y => (cs y).isSome || (idx args y).isSome

theorem scopeInv_visOf (cs : Consts V) (args : List String) : ScopeInv cs args (visOf cs args) := by
  intro y; simp [visOf]

/-- **C19.3 `generic_chain_correct`** — for every value type `V`, every table whose flags satisfy
`Laws` (not needed with the optimizer off), every well-scoped expression `e` (identifiers are
constants, arguments or enclosing `let`s; `let` names are fresh), every argument list and every
assignment: `Generate` succeeds and the generated function returns exactly the value that the
operators' own definitions give to `e` — optimizer on and off alike. -/
theorem generic_chain_correct (t : Table V) (on : Bool) (hl : on = true → Laws t) (cs : Consts V)
    (e : E V) (args : List String) (vals : List V) (hws : WS t e (visOf cs args))
    (hlen : args.length = vals.length) (hd : vals.length + depth e ≤ stackLimit + 1) :
    chain t on cs e args vals = Outcome.ofOption (eval t e (overlay cs (envOf args vals))) :=
  chain_correct_ws t on hl cs e args vals _ hws (scopeInv_visOf cs args) hlen hd

/-- the same without well-scopedness, conditional on `Generate` accepting the program -/
theorem generic_chain_correct_accepted (t : Table V) (on : Bool) (hl : on = true → Laws t) (cs : Consts V)
    (e : E V) (args : List String) (vals : List V) (c : Code V)
    (hg : gen t (frontend t on cs e) args = some c) (hlen : args.length = vals.length)
    (hd : vals.length + depth e ≤ stackLimit + 1) :
    chain t on cs e args vals = Outcome.ofOption (eval t e (overlay cs (envOf args vals))) :=
  chain_correct t on hl cs e args vals c hg hlen hd

/-- corollary: the optimizer is unobservable on the closure-free fragment -/
theorem generic_on_off_agree (t : Table V) (hl : Laws t) (cs : Consts V)
    (e : E V) (args : List String) (vals : List V) (hws : WS t e (visOf cs args))
    (hlen : args.length = vals.length) (hd : vals.length + depth e ≤ stackLimit + 1) :
    chain t true cs e args vals = chain t false cs e args vals := by
  rw [generic_chain_correct t true (fun _ => hl) cs e args vals hws hlen hd,
    generic_chain_correct t false (fun h => by cases h) cs e args vals hws hlen hd]

/-- **C19.1 `bool_chain_correct`** — the semantics of `example/bool.go` with *any* assignment of the
`IsPure`/`IsCommutative` flags (all four operators are associative and commutative on `Bool`, proved
by `decide`): every well-scoped boolean expression of any size, every assignment, optimizer on/off. -/
theorem bool_chain_correct (ops : List OpRow) (on : Bool) (e : E Bool) (args : List String)
    (vals : List Bool) (hws : WS (boolTable ops) e (visOf boolConsts args))
    (hlen : args.length = vals.length) (hd : vals.length + depth e ≤ stackLimit + 1) :
    chain (boolTable ops) on boolConsts e args vals
      = Outcome.ofOption (eval (boolTable ops) e (overlay boolConsts (envOf args vals))) :=
  generic_chain_correct _ on (fun _ => boolTable_laws ops) _ e args vals hws hlen hd

/-- **C19.2 `float_chain_correct`** — the semantics of `example/minimal.go` over exact numbers, for
every flag assignment that stays inside the lawful set `{+, *}`. -/
theorem float_chain_correct (ops : List OpRow) (statics : List (String × Int × Bool))
    (hflags : ∀ o ∈ flaggedCommutative ops, o ∈ minimalLawful)
    (on : Bool) (cs : Consts Rat) (e : E Rat) (args : List String) (vals : List Rat)
    (hws : WS (minimalTable ops statics) e (visOf cs args))
    (hlen : args.length = vals.length) (hd : vals.length + depth e ≤ stackLimit + 1) :
    chain (minimalTable ops statics) on cs e args vals
      = Outcome.ofOption (eval (minimalTable ops statics) e (overlay cs (envOf args vals))) :=
  generic_chain_correct _ on
    (fun _ => laws_of_flags minimalSem minimalLawful minimal_lawful ops hflags _ rfl rfl) cs e args vals hws hlen hd

/-! ## non-vacuity: the hypotheses are satisfiable by non-trivial instances -/

/-- the flags of `example/bool.go` as of the pinned commit -/
def boolOpsPinned : List OpRow := [("^", true, true), ("=", true, true), ("|", true, true), ("&", true, true)]

/-- `let x = a ^ true; if x then !b else x & (true | c)` — a `let`, an `if`, all operator kinds,
a constant subterm and a regrouping chain -/
def sampleBool : E Bool :=
  .letE "x" (.op "^" (.var "a") (.var "true"))
    (.ite (.var "x") (.un "!" (.var "b")) (.op "&" (.op "&" (.var "true") (.var "x")) (.op "|" (.var "true") (.var "c"))))

example : WS (boolTable boolOpsPinned) sampleBool (visOf boolConsts ["a", "b", "c"]) := by
  simp [WS, sampleBool, visOf, boolConsts, boolTable, idx]

example : Laws (boolTable boolOpsPinned) := boolTable_laws _

/-- the optimizer really rewrites the sample (the statement is not about the identity function) -/
example : chain (boolTable boolOpsPinned) true boolConsts sampleBool ["a", "b", "c"] [true, true, false]
    = .value false := by decide

/-- `EnvRel` for the initial stack of `Eval` -/
example : EnvRel ["a", "b"] (envOf ["a", "b"] [true, false]) (initStack [true, false]) :=
  initial_rel _ _ rfl

/-- a well-scoped float program with `let`, unary minus, a function call and a `+` chain -/
def sampleFloat : E Rat :=
  .letE "x" (.op "+" (.op "+" (.const 2) (.var "a")) (.const 3))
    (.ite (.op "<" (.var "x") (.const 0)) (.un "-" (.var "x")) (.call "sqr" (.var "x")))

example : WS (minimalTable repairedMinimalOps minimalStaticsPinned) sampleFloat (visOf (Consts.none : Consts Rat) ["a"]) := by
  simp [WS, sampleFloat, visOf, Consts.none, minimalTable, minimalFn, minimalStaticsPinned, idx]

example : chain (minimalTable repairedMinimalOps minimalStaticsPinned) true Consts.none sampleFloat ["a"] [1/2]
    = .value (121/4) := by decide +kernel

/-- a table that violates nothing because it flags nothing: `Laws` is satisfiable for any semantics -/
example (t : Table V) (h : ∀ o, t.comm o = false) : Laws t := Laws.of_no_comm t h

end P2.C19
