import P2.Proofs.ScopeMapMode
import P2.Model.Lang.Sem
/-! # C16 — Implicit-attribute mode equals explicit member access everywhere

"A function generated with `GenerateWithMap(exp, m)` behaves exactly like `Generate(exp', m)` where
`exp'` is `exp` with every free identifier `x` (one that is not a constant, static function or local
binding) written as `m.x` — wherever the identifier occurs, including inside closure bodies, func
bodies, nested closures and let values — and local bindings and constants shadow attributes of the
same name."

Model: `P2.Scope.resolve` (`Model/Scope.lean`) is the identifier resolution the parser performs while
parsing (`Identifiers` chain with the `outersUsed` / `recursive` variables), on shaped trees `Raw`;
`expand` is the rewriting `exp ↦ exp'`. The grammar (text ↔ `Raw`) is not part of this slice. -/
namespace P2.C16
open P2.Lang P2.Scope

/-! ## 1. identical trees -/

/-- **mapmode_eq_explicit.** For every generator chain `base` of constants and static functions, every
non-empty map name `m` and every tree `t` that does not itself bind the name `m` (as a `let`, a
`func` name or a parameter): the parser run by `GenerateWithMap(t, m)` and the parser run by
`Generate(expand t, m)` return the *same* tree or both fail — the same nodes, and for every closure
and `func` the same `OuterIdents` (same order) and the same `Recursive` flag.

`m` may well be the name of a constant or of a static function: the argument layer shadows it in both
spellings. Both remaining side conditions are necessary (`binder_m_*` below). -/
theorem mapmode_eq_explicit (base : Scope) (m : String) (t : Raw)
    (hbase : BaseOK base) (hm : m ≠ "") (hbind : m ∉ binders t) :
    parse true (mapScope base m) t = parse true (explicitScope base m) (expandTop m base t) := by
  have hwf : WF m (.args [m] none :: .map m :: base) := ⟨rfl, rfl, hbase⟩
  have h := resolve_dropMap hm t _ (.args [m] none :: base) hwf (by simp [dropMap_base hbase]) hbind
  simp only [dropMap_args, dropMap_map, dropMap_base hbase] at h
  show (resolve true (.args [m] none :: .map m :: base) t).map (·.1)
      = (resolve true (.args [m] none :: base) (expand m (.args [m] none :: base) t)).map (·.1)
  rw [h]
  cases resolve true (.args [m] none :: .map m :: base) t <;> rfl

/-- the same statement for every chain that occurs during the parse (inside closures, funcs, lets),
including the contents of all accumulators that are still open -/
theorem mapmode_eq_explicit_anywhere {m : String} (hm : m ≠ "") (t : Raw) (s : Scope)
    (hwf : WF m s) (hbind : m ∉ binders t) :
    resolve true (dropMap s) (expand m (dropMap s) t)
      = (resolve true s t).map (fun p => (p.1, dropMap p.2)) :=
  resolve_dropMap hm t s (dropMap s) hwf rfl hbind

/-! ## 2. what `expand` rewrites -/

/-- does the layer bind the name? (constant, static function, `let`/`func` name, parameter, the
`func`'s own name inside its body) -/
def Layer.binds : Layer → String → Bool
  | .const n _, x => x == n
  | .func n, x => x == n
  | .plain n, x => x == n
  | .args ns _, x => ns.contains x
  | .this n _, x => x == n
  | .map _, _ => false

theorem find_eq_none_iff (e : Scope) (x : String) (he : ∀ l ∈ e, l.isMap = false) :
    find e x = none ↔ ∀ l ∈ e, Layer.binds l x = false := by
  induction e with
  | nil => simp [find]
  | cons l e ih =>
    have ih := ih (fun l hl => he l (List.mem_cons_of_mem _ hl))
    cases l with
    | const n v => by_cases hx : x = n <;> simp [find, Layer.binds, hx, ih]
    | func n => by_cases hx : x = n <;> simp [find, Layer.binds, hx, ih]
    | plain n => by_cases hx : x = n <;> simp [find, Layer.binds, hx, ih]
    | this n u => by_cases hx : x = n <;> simp [find, Layer.binds, hx, ih]
    | args ns a => by_cases hx : x ∈ ns <;> simp [find, Layer.binds, hx, ih]
    | map t => simpa [Layer.isMap] using he (.map t) (List.mem_cons_self ..)

/-- what a bound identifier resolves to in the explicit chain: a constant, a static function or a
local binding — never an attribute -/
theorem find_explicit_kind (e : Scope) (x : String) (he : ∀ l ∈ e, l.isMap = false) (i : Ident)
    (h : find e x = some i) : i.this = "" := by
  induction e with
  | nil => simp [find] at h
  | cons l e ih =>
    have ih := ih (fun l hl => he l (List.mem_cons_of_mem _ hl))
    cases l with
    | const n v => by_cases hx : x = n <;> simp_all [find] <;> (subst h; rfl)
    | func n => by_cases hx : x = n <;> simp_all [find] <;> (subst h; rfl)
    | plain n => by_cases hx : x = n <;> simp_all [find] <;> (subst h; rfl)
    | this n u => by_cases hx : x = n <;> simp_all [find] <;> (subst h; rfl)
    | args ns a => by_cases hx : x ∈ ns <;> simp_all [find] <;> (subst h; rfl)
    | map t => simpa [Layer.isMap] using he (.map t) (List.mem_cons_self ..)

/-- **expand_spec.** At a position whose enclosing binders (and the generator's constants and static
functions) form the chain `e`, an identifier occurrence `x` is rewritten to `m.x` iff no layer of `e`
binds `x` — i.e. iff it is neither a constant, nor a static function, nor a local binding (argument,
`let`, `func`, closure parameter) at that position; otherwise it is left alone. -/
theorem expand_spec (m : String) (e : Scope) (x : String) (he : ∀ l ∈ e, l.isMap = false) :
    (expand m e (.ident x) = .member (.ident m) x ↔ ∀ l ∈ e, Layer.binds l x = false) ∧
    (expand m e (.ident x) = .ident x ↔ ∃ l ∈ e, Layer.binds l x = true) := by
  have h := find_eq_none_iff e x he
  cases hf : find e x with
  | none =>
    have := h.mp hf
    constructor
    · simp only [expand, hf, Option.isSome_none, Bool.false_eq_true, if_false, true_iff]
      exact this
    · simp only [expand, hf, Option.isSome_none, Bool.false_eq_true, if_false]
      constructor
      · intro h'; cases h'
      · rintro ⟨l, hl, hb⟩; rw [this l hl] at hb; cases hb
  | some i =>
    have hne : ¬ ∀ l ∈ e, Layer.binds l x = false := fun h' => by rw [h.mpr h'] at hf; cases hf
    constructor
    · simp only [expand, hf, Option.isSome_some, if_true]
      constructor
      · intro h'; cases h'
      · intro h'; exact absurd h' hne
    · simp only [expand, hf, Option.isSome_some, if_true, true_iff]
      apply Classical.byContradiction
      intro hc
      exact hne (fun l hl => by
        cases hb : Layer.binds l x with
        | false => rfl
        | true => exact absurd ⟨l, hl, hb⟩ hc)

/-- the position-dependent part of `expand_spec`: which layers each binding form puts on the chain
for which subtree (every other form passes the chain on unchanged) — a `let` binds its name in the
inner expression only (as a constant if its rewritten value is one), a `func` binds the parameters
and its own name in the body and its name in the rest, a closure binds its parameters in the body. -/
theorem expand_scoping (m : String) (e : Scope) :
    (∀ x v i c, constVal e (expand m e v) = some c →
      expand m e (.letE x v i) = .letE x (expand m e v) (expand m (.const x c :: e) i)) ∧
    (∀ x v i, constVal e (expand m e v) = none →
      expand m e (.letE x v i) = .letE x (expand m e v) (expand m (.plain x :: e) i)) ∧
    (∀ f ps body rest, expand m e (.func f ps body rest) =
      .func f ps (expand m (.this f false :: .args ps (some []) :: e) body) (expand m (.plain f :: e) rest)) ∧
    (∀ ps body, expand m e (.clos ps body) = .clos ps (expand m (.args ps (some []) :: e) body)) := by
  refine ⟨?_, ?_, ?_, ?_⟩
  · intro x v i c h; simp [expand, h]
  · intro x v i h; simp [expand, h]
  · intro f ps body rest; simp [expand]
  · intro ps body; simp [expand]

/-- the rewritten occurrences are exactly the ones map mode resolves as attributes: in every chain of
a `GenerateWithMap` parse, `x` is unbound without the map layer iff the chain answers "attribute of
`m`" for it -/
theorem expand_rewrites_attributes {m : String} (hm : m ≠ "") {s : Scope} (hwf : WF m s) (x : String) :
    find (dropMap s) x = none ↔ find s x = some ⟨.plain, m⟩ := by
  cases lookup_cases hm hwf x with
  | same i h1 h2 h3 h4 =>
    constructor
    · intro h; rw [h3] at h; cases h
    · intro h; rw [h1] at h; cases h; exact absurd h2 hm
  | attr h1 h2 h3 h4 => simp [h1, h2]

/-! ## 3. identical behaviour (with C01) -/

/-- **Corollary.** The generator receives the same tree, so `generateIntern` produces the same code
(or fails in both spellings), and the compiled and the reference semantics give the same outcome on
every argument map — at every nesting level, since the trees are equal as a whole. -/
theorem mapmode_same_behaviour (base : Scope) (m : String) (t : Raw)
    (hbase : BaseOK base) (hm : m ≠ "") (hbind : m ∉ binders t)
    (S : Statics) (M : Methods) (V : Variant) :
    (parse true (mapScope base m) t).map (fun a => generate S V a [m])
      = (parse true (explicitScope base m) (expandTop m base t)).map (fun a => generate S V a [m])
    ∧ (∀ fuel arg,
      (parse true (mapScope base m) t).map (fun a => (generate S V a [m]).map (fun c => runCompiled M fuel c [arg]))
        = (parse true (explicitScope base m) (expandTop m base t)).map
            (fun a => (generate S V a [m]).map (fun c => runCompiled M fuel c [arg])))
    ∧ (∀ fuel arg,
      (parse true (mapScope base m) t).map (fun a => runReference S M fuel a [m] [arg])
        = (parse true (explicitScope base m) (expandTop m base t)).map
            (fun a => runReference S M fuel a [m] [arg])) := by
  rw [mapmode_eq_explicit base m t hbase hm hbind]
  exact ⟨rfl, fun _ _ => rfl, fun _ _ => rfl⟩


/-! ## 4. the pinned commit (B16)

At the pinned commit `AddArgs` appended the *looked-up* name to `outersUsed` (`fixed = false`): for an
attribute used inside a closure the closure then claims to capture `x`, which exists nowhere, and
`GenerateFunc` fails (`not found: x`). Statement 1 is false for the faithful model of that code. -/

def exBase : Scope :=
  [.const "pi" (.flt 3.141592653589793), .const "true" (.bool true), .func "abs", .func "max"]

/-- `[1,2].map(e -> e + x)` -/
def exClosure : Raw :=
  .method (.listLit [.const (.int 1), .const (.int 2)]) "map"
    [.clos ["e"] (.binop "+" (.ident "e") (.ident "x"))]

/-- the tree of `[1,2].map(e -> e + m.x)` with the given `OuterIdents` of the closure -/
def exClosureAST (outer : List String) : AST :=
  .method (.listLit [.const (.int 1), .const (.int 2)]) "map"
    [.clos ["e"] (.binop "+" (.ident "e") (.member (.ident "m") "x")) outer false ""]

theorem pinned_records_attribute_name :
    parse false (mapScope exBase "m") exClosure = some (exClosureAST ["x"])
    ∧ parse false (explicitScope exBase "m") (expandTop "m" exBase exClosure) = some (exClosureAST ["m"]) :=
  ⟨rfl, rfl⟩

/-- statement 1 fails at the pinned commit -/
theorem pinned_mapmode_differs :
    parse false (mapScope exBase "m") exClosure
      ≠ parse false (explicitScope exBase "m") (expandTop "m" exBase exClosure) := by
  rw [pinned_records_attribute_name.1, pinned_records_attribute_name.2]
  simp [exClosureAST]

/-- … and `Generate` rejects the tree map mode produced there, whatever the static functions are
(the explicit spelling compiles) -/
theorem pinned_generate_fails (S : Statics) (V : Variant) :
    generate S V (exClosureAST ["x"]) ["m"] = none
    ∧ (generate S V (exClosureAST ["m"]) ["m"]).isSome = true := by
  obtain ⟨a, b⟩ := V
  cases a <;> exact ⟨rfl, rfl⟩

/-- the repaired code on the same program -/
theorem repaired_on_witness :
    parse true (mapScope exBase "m") exClosure = some (exClosureAST ["m"]) := rfl

/-! ## 5. non-vacuity, and the side conditions are necessary -/

/-- `func f(n) if n <= 0 then x else f(n - 1) + y;
    [1].map(a -> [2].map(b -> [3].map(c -> a + x + f(c) + pi + abs(max(y, let x = c; x, let k = 1; k + z)))))`:
attributes `x`, `y`, `z` at top level of a recursive func, three closures deep, next to a constant, a
static function, a shadowing non-constant `let x` and a constant `let` inside call arguments -/
def exDeep : Raw :=
  .func "f" ["n"]
    (.ifE (.binop "<=" (.ident "n") (.const (.int 0))) (.ident "x")
      (.binop "+" (.call (.ident "f") [.binop "-" (.ident "n") (.const (.int 1))]) (.ident "y")))
    (.method (.listLit [.const (.int 1)]) "map" [.clos ["a"]
      (.method (.listLit [.const (.int 2)]) "map" [.clos ["b"]
        (.method (.listLit [.const (.int 3)]) "map" [.clos ["c"]
          (.binop "+" (.binop "+" (.binop "+" (.binop "+" (.ident "a") (.ident "x"))
              (.call (.ident "f") [.ident "c"])) (.ident "pi"))
            (.call (.ident "abs") [.call (.ident "max")
              [.ident "y", .letE "x" (.ident "c") (.ident "x"),
               .letE "k" (.const (.int 1)) (.binop "+" (.ident "k") (.ident "z"))]]))])])])

example : BaseOK exBase := rfl
example : "m" ∉ binders exDeep := by decide
/-- both sides of statement 1 are a tree (not `none = none`) on this instance … -/
example : (parse true (mapScope exBase "m") exDeep).isSome = true := rfl
/-- … in which the recursive func captures `m`, is marked recursive, and the closures capture
`["m", "f"]`, `["a", "m", "f"]` (first use order), the constant `let` is gone, `pi` is the constant
and the static functions `abs`, `max` are not attributes: -/
example : parse true (mapScope exBase "m") exDeep = some
  (.letE "f" (.clos ["n"]
      (.ifE (.binop "<=" (.ident "n") (.const (.int 0))) (.member (.ident "m") "x")
        (.binop "+" (.call (.ident "f") [.binop "-" (.ident "n") (.const (.int 1))]) (.member (.ident "m") "y")))
      ["m"] true "f")
    (.method (.listLit [.const (.int 1)]) "map" [.clos ["a"]
      (.method (.listLit [.const (.int 2)]) "map" [.clos ["b"]
        (.method (.listLit [.const (.int 3)]) "map" [.clos ["c"]
          (.binop "+" (.binop "+" (.binop "+" (.binop "+" (.ident "a") (.member (.ident "m") "x"))
              (.call (.ident "f") [.ident "c"])) (.const (.flt 3.141592653589793)))
            (.call (.ident "abs") [.call (.ident "max")
              [.member (.ident "m") "y", .letE "x" (.ident "c") (.ident "x"),
               .binop "+" (.const (.int 1)) (.member (.ident "m") "z")]]))
          ["a", "m", "f"] false ""]) ["a", "m", "f"] false ""]) ["m", "f"] false ""])) := rfl
example : parse true (mapScope exBase "m") exDeep
    = parse true (explicitScope exBase "m") (expandTop "m" exBase exDeep) :=
  mapmode_eq_explicit exBase "m" exDeep rfl (by decide) (by decide)

/-- `expand_spec` on instances: below `let x = c;` the occurrence of `x` stays, `z` is rewritten, the
constant `pi` and the static function `abs` stay -/
example : expand "m" (.plain "x" :: .args ["c"] (some []) :: explicitScope exBase "m") (.ident "x") = .ident "x" := rfl
example : expand "m" (.plain "x" :: .args ["c"] (some []) :: explicitScope exBase "m") (.ident "z")
    = .member (.ident "m") "z" := rfl
example : expand "m" (explicitScope exBase "m") (.binop "+" (.ident "pi") (.call (.ident "abs") [.ident "pi2"]))
    = .binop "+" (.ident "pi") (.call (.ident "abs") [.member (.ident "m") "pi2"]) := rfl

/-- side condition `m ∉ binders t` is necessary (1): a parameter named like the map. `m -> x` captures
the outer `m` in map mode, `m -> m.x` captures nothing (the generated functions still agree: both read
attribute `x` of the parameter) -/
theorem binder_m_param_differs :
    parse true (mapScope exBase "m") (.clos ["m"] (.ident "x"))
      = some (.clos ["m"] (.member (.ident "m") "x") ["m"] false "")
    ∧ parse true (explicitScope exBase "m") (expandTop "m" exBase (.clos ["m"] (.ident "x")))
      = some (.clos ["m"] (.member (.ident "m") "x") [] false "") :=
  ⟨rfl, rfl⟩

/-- side condition `m ∉ binders t` is necessary (2): a constant `let` named like the map. In
`let m = 5; x` map mode still reads the argument map (the constant never reaches the generator), the
text `let m = 5; m.x` reads the constant — the rewriting `x ↦ m.x` is captured by the new binding -/
theorem binder_m_const_let_differs :
    parse true (mapScope exBase "m") (.letE "m" (.const (.int 5)) (.ident "x"))
      = some (.member (.ident "m") "x")
    ∧ parse true (explicitScope exBase "m") (expandTop "m" exBase (.letE "m" (.const (.int 5)) (.ident "x")))
      = some (.member (.const (.int 5)) "x") :=
  ⟨rfl, rfl⟩

/-- `BaseOK` is necessary: an entry made with `Identifiers.Add` below the map layer is hidden by it -/
theorem base_plain_is_hidden :
    parse true (mapScope [.plain "y"] "m") (.ident "y") = some (.member (.ident "m") "y")
    ∧ parse true (explicitScope [.plain "y"] "m") (expandTop "m" [.plain "y"] (.ident "y")) = some (.ident "y") :=
  ⟨rfl, rfl⟩

/-- `m ≠ ""` is necessary: `AddMap("")` yields identifiers with an empty `ThisName`, which
`parseLiteral` treats as plain identifiers -/
theorem empty_map_name_differs :
    parse true (mapScope exBase "") (.ident "x") = some (.ident "x")
    ∧ parse true (explicitScope exBase "") (expandTop "" exBase (.ident "x")) = some (.member (.ident "") "x") :=
  ⟨rfl, rfl⟩

/-- `m` may be the name of a constant: `GenerateWithMap(exp, "pi")` -/
example : parse true (mapScope exBase "pi") exClosure
    = parse true (explicitScope exBase "pi") (expandTop "pi" exBase exClosure) :=
  mapmode_eq_explicit exBase "pi" exClosure rfl (by decide) (by decide)

end P2.C16
