import P2.Props.C01
import P2.Proofs.LangMono
/-! # C10 — a generated function is a pure function of its arguments across evaluations

In the model `Func.Eval` is `runCompiled M fuel code`: every evaluation starts from a fresh storage
(`NewEmptyStack().Init(args)`) and the compiled code is immutable, so the model has no state that
survives an evaluation. What the Go implementation additionally keeps between evaluations — the
materialisation cache of list objects reachable from constants (shown unobservable by C09
`abs_stable`), the optimizer's scratch stack (only used during Generate) and package-level variables —
is outside this model and is covered by the history harness `tie C10`, which compares every outcome
of a 50-step history with the isolated first evaluation and with this model. -/
namespace P2.C10
open P2.Lang P2.C01

/-- the outcomes of a history of evaluations in the model: a fold that threads NO state -/
def evalHistory (M : Methods) (fuel : Nat) (code : Code) : List (List Val) → List (R Val)
  | [] => []
  | args :: rest => runCompiled M fuel code args :: evalHistory M fuel code rest

/-- C10.1 `eval_history`: each evaluation of a history returns what the isolated evaluation with its
own arguments returns, whatever was evaluated before — for every program, history and fuel. -/
theorem eval_history (M : Methods) (fuel : Nat) (code : Code) (hist : List (List Val)) :
    evalHistory M fuel code hist = hist.map (runCompiled M fuel code) := by
  induction hist with
  | nil => rfl
  | cons a rest ih => simp [evalHistory, ih]

/-- C10.1 with C01: every evaluation of a history agrees with the lexically scoped reference
semantics of the program text on its own arguments (closure-free arguments and results). -/
theorem eval_history_reference (S : Statics) (M : Methods) (fuel : Nat) (a : AST) (names : List String)
    (code : Code) (hwa : WA S names names a) (hg : generate S {} a names = some code)
    (hist : List (List Val)) (args : List Val) (v : Val) (hmem : args ∈ hist)
    (hlen : names.length = args.length) (hargs : ClosFreeVs args)
    (hv : runReference S M fuel a names args = .ok v) (hcf : ClosFree v) :
    R.ok v ∈ (evalHistory M fuel code hist).map id := by
  rw [eval_history]
  simp only [List.map_id, List.mem_map]
  exact ⟨args, hmem, generate_correct_eq S M fuel a names args code v hlen hargs hwa hg hv hcf⟩

/-- C10.3 `failing_eval_harmless` (model): a failing evaluation in the middle of a history changes
no later outcome -/
theorem failing_eval_harmless (M : Methods) (fuel : Nat) (code : Code) (h1 h2 : List (List Val)) (bad : List Val) :
    evalHistory M fuel code (h1 ++ bad :: h2) =
      evalHistory M fuel code h1 ++ runCompiled M fuel code bad :: evalHistory M fuel code h2 := by
  simp [eval_history]

/-- C10 and the fuel budget: an evaluation that ends (value, error, `unmodelled` — anything but
running out of fuel) ends the same way under every larger budget, so the outcomes of a history do
not depend on how much fuel the evaluations were given (`Proofs/LangMono.lean`) -/
theorem eval_fuel_irrelevant (M : Methods) (fuel fuel' : Nat) (code : Code) (args : List Val) (r : R Val)
    (h : runCompiled M fuel code args = r) (hr : r ≠ .fuel) (hle : fuel ≤ fuel') :
    runCompiled M fuel' code args = r := runCompiled_fuel_mono M h hr hle

end P2.C10
