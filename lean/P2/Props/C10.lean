import P2.Props.C01
import P2.Proofs.LangMono
import P2.Proofs.Memo
/-! # C10 — a generated function is a pure function of its arguments across evaluations

In the model `Func.Eval` is `runCompiled M fuel code`: every evaluation starts from a fresh storage
(`NewEmptyStack().Init(args)`) and the compiled code is immutable, so the model has no state that
survives an evaluation. What the Go implementation additionally keeps between evaluations — the
materialisation cache of list objects reachable from constants (shown unobservable by C09
`abs_stable`), the optimizer's scratch stack (only used during Generate) and package-level variables —
is outside THAT model; the materialisation cache is modelled on its own as a memo cell (`P2.Memo`, second half of
this file: `memo_history_outcome`, `memo_history_transparent`, `memo_failing_step_harmless`, with the witness
`memo_cache_hides_overflow` that full transparency fails exactly at the value-stack limit), the rest is covered by
the history harness `tie C10`, which compares every outcome of a 50-step history with the isolated first evaluation
and with this model. -/
namespace P2.C10
open P2.Lang P2.C01

/-- the outcomes of a history of evaluations in the model: a fold that threads NO state -/
def evalHistory (M : Methods) (fuel : Nat) (code : Code) : List (List Val) → List (R Val)
  | [] => []
  | args :: rest => runCompiled M fuel code args :: evalHistory M fuel code rest

/-- C10.1 `eval_history`: each evaluation of a history returns what the isolated evaluation with its
own arguments returns, whatever was evaluated before — for every program, history and fuel. -/
theorem eval_history (M : Methods) (fuel : Nat) (code : Code) (hist : List (List Val)) :
    evalHistory M fuel code hist = hist.map (runCompiled M fuel code) := by
  induction hist with
  | nil => rfl
  | cons a rest ih => simp [evalHistory, ih]

/-- C10.1 with C01: every evaluation of a history agrees with the lexically scoped reference
semantics of the program text on its own arguments (closure-free arguments and results). -/
theorem eval_history_reference (S : Statics) (M : Methods) (fuel : Nat) (a : AST) (names : List String)
    (code : Code) (hwa : WA S names names a) (hg : generate S {} a names = some code)
    (hist : List (List Val)) (args : List Val) (v : Val) (hmem : args ∈ hist)
    (hlen : names.length = args.length) (hargs : ClosFreeVs args)
    (hv : runReference S M fuel a names args = .ok v) (hcf : ClosFree v) :
    R.ok v ∈ (evalHistory M fuel code hist).map id := by
  rw [eval_history]
  simp only [List.map_id, List.mem_map]
  exact ⟨args, hmem, generate_correct_eq S M fuel a names args code v hlen hargs hwa hg hv hcf⟩

/-- C10.3 `failing_eval_harmless` (model): a failing evaluation in the middle of a history changes
no later outcome -/
theorem failing_eval_harmless (M : Methods) (fuel : Nat) (code : Code) (h1 h2 : List (List Val)) (bad : List Val) :
    evalHistory M fuel code (h1 ++ bad :: h2) =
      evalHistory M fuel code h1 ++ runCompiled M fuel code bad :: evalHistory M fuel code h2 := by
  simp [eval_history]

/-- C10 and the fuel budget: an evaluation that ends (value, error, `unmodelled` — anything but
running out of fuel) ends the same way under every larger budget, so the outcomes of a history do
not depend on how much fuel the evaluations were given (`Proofs/LangMono.lean`) -/
theorem eval_fuel_irrelevant (M : Methods) (fuel fuel' : Nat) (code : Code) (args : List Val) (r : R Val)
    (h : runCompiled M fuel code args = r) (hr : r ≠ .fuel) (hle : fuel ≤ fuel') :
    runCompiled M fuel' code args = r := runCompiled_fuel_mono M h hr hle

/-! ## The state that does survive an evaluation: the memo cell of a shared lazy list (`P2.Memo`)

A list reachable from a constant (or kept by the host) is shared by all evaluations; `List.Eval` stores the items
on the first complete materialisation. An evaluation sees the cell through `force` (everything that materialises)
and `iter` (everything that only iterates); what it contributes is its number of free value-stack slots. -/
open P2.Memo in
/-- C10 (memo cell, full statement as far as it is TRUE of the code): after ANY history of operations by earlier
evaluations — succeeding, failing, partially consuming, with any number of free slots — an operation shows what it
shows on an untouched list, or, where the untouched list would make this evaluation run out of value stack, what it
shows with enough stack. -/
theorem memo_history_outcome (src : List Item) (hist : List Op) (o : Op) :
    (((fresh src).after hist).step o).2 = isolated src o ∨
      ((isolated src o).2 = some .overflow ∧
        (((fresh src).after hist).step o).2 = isolated src (o.withFree (maxNeed src))) := by
  have h := step_outcome ((fresh src).after hist) (after_inv _ hist (inv_fresh src)) o
  rw [after_src] at h
  exact h

open P2.Memo in
/-- C10.1 on the memo cell (`…_partial`: the hypothesis `maxNeed src ≤ o.free` excludes the evaluations that sit at the
value-stack limit; `memo_cache_hides_overflow` shows it cannot be dropped): an evaluation with enough stack for the
list's own closures sees exactly what the first evaluation with its arguments sees, whatever happened before. -/
theorem memo_history_transparent (src : List Item) (hist : List Op) (o : Op) (hfree : maxNeed src ≤ o.free) :
    (((fresh src).after hist).step o).2 = isolated src o := by
  rcases memo_history_outcome src hist o with h | ⟨hov, _⟩
  · exact h
  · exact absurd hov (isolated_no_overflow src o hfree)

open P2.Memo in
/-- the same for whole histories: the outcomes of a history are the isolated outcomes, one by one -/
theorem memo_outcomes_transparent (src : List Item) (hist : List Op) (hfree : ∀ o ∈ hist, maxNeed src ≤ o.free) :
    (fresh src).outcomes hist = hist.map (isolated src) := by
  suffices h : ∀ (pre : List Op), ((fresh src).after pre).outcomes hist = hist.map (isolated src) from h []
  induction hist with
  | nil => intro _; rfl
  | cons o os ih =>
    intro pre
    simp only [Cell.outcomes, List.map_cons]
    have h1 := memo_history_transparent src pre o (hfree o (List.mem_cons_self ..))
    have h2 := ih (fun o' ho' => hfree o' (List.mem_cons_of_mem _ ho')) (pre ++ [o])
    have h3 : (fresh src).after (pre ++ [o]) = (((fresh src).after pre).step o).1 := after_snoc _ pre o
    rw [h3] at h2
    rw [h1, h2]

open P2.Memo in
/-- C10.3 on the memo cell: an operation that fails (stack overflow or error item, at ANY point of the
materialisation) leaves the cell exactly as it was — nothing of an aborted materialisation is kept. -/
theorem memo_failing_step_harmless (c : Cell) (o : Op) (h : (c.step o).2.2 ≠ none) : (c.step o).1 = c :=
  failing_step_unchanged c o h

open P2.Memo in
/-- iteration without materialisation (first, top, a downstream stage, printing) never changes the cell -/
theorem memo_partial_consumption_harmless (c : Cell) (free k : Nat) : (c.step (.iter free k)).1 = c :=
  iter_unchanged c free k

open P2.Memo in
/-- what is kept is right: in every reachable cell the stored items are the values of the producer -/
theorem memo_cache_correct (src : List Item) (hist : List Op) (xs : List Nat)
    (h : ((fresh src).after hist).cache = some xs) : xs = vals src := by
  have := after_inv (fresh src) hist (inv_fresh src) xs h
  rw [after_src] at this
  exact this.1

open P2.Memo in
/-- The hypothesis of `memo_history_transparent` is needed — and the CODE behaves like the model here (open finding
`C10-stack-limit-hidden-by-materialised-constant`): an evaluation that would run out of value stack while it
materialises the list succeeds when an earlier evaluation has materialised it. -/
theorem memo_cache_hides_overflow :
    let src : List Item := [⟨7, 1, false⟩, ⟨8, 2, false⟩]
    isolated src (.force 1) = ([], some .overflow) ∧
      (((fresh src).after [.force 2]).step (.force 1)).2 = ([7, 8], none) := by decide

open P2.Memo in
/-- the premises are satisfiable on a history that fails in the middle and succeeds later -/
example :
    let src : List Item := [⟨7, 1, false⟩, ⟨8, 2, false⟩]
    (fresh src).outcomes [.force 1, .iter 2 1, .force 2, .iter 0 5, .force 0] =
      [([], some .overflow), ([7], none), ([7, 8], none), ([7, 8], none), ([7, 8], none)] := by decide

open P2.Memo in
/-- The cell of a seeded change (`Eval` appends straight into `l.items`) is NOT transparent even with enough stack:
the aborted first materialisation leaves its first item behind. -/
theorem memo_pinned_append_in_place_differs :
    let src : List Item := [⟨7, 1, false⟩, ⟨8, 2, false⟩]
    let p0 : Pinned := ⟨src, [], false⟩
    ((p0.force 1).1.force 2).2 = ([7, 7, 8], none) ∧ isolated src (.force 2) = ([7, 8], none) := by decide

end P2.C10
