import P2.Proofs.JsonDoc
/-! # C17 — JSON export is always valid JSON that preserves structure and text

Property theorems only. The model (`P2.Json.exportDoc`) is parametric in the per-character escape
table, which `tie extract` regenerates from the real `jsonExporter.String` for **every** Unicode scalar
value on every run (`P2/Generated/JsonEsc.lean`); `P2/Oblig/JsonEsc.lean` discharges `TableOK` for the
table of today's source by `decide` and instantiates the theorems below. -/
namespace P2.C17
open P2.Json

/-- C17.1: every string (any characters, any length) survives `encode` then the reference decoder,
for every escape table that satisfies the decidable criterion `TableOK`. -/
theorem json_string_roundtrip (T : EscTable) (h : TableOK T = true) (s rest : List Char) :
    decodeString (encodeString (escOf T) s ++ rest) = some (s, rest) :=
  string_roundtrip _ (escOK_of_tableOK T h) s rest

/-- C17.2: for every value tree of any depth and width the exported document is accepted by the
reference decoder and decodes to the same structure: arrays in order, objects with the same entries
(keys sorted, as `Export` sorts them), every scalar the JSON string of its string form. -/
theorem json_export_roundtrip (T : EscTable) (h : TableOK T = true) (t : JTree) :
    decodeDoc (exportDoc (escOf T) t) = some (sortTree t) :=
  doc_roundtrip _ (escOK_of_tableOK T h) (sortTree t)

/-- sorting the entries of an object changes their order only (same key/value entries) -/
theorem insertKV_perm (kv : List Char × JTree) (l : List (List Char × JTree)) :
    (insertKV kv l).Perm (kv :: l) := by
  induction l with
  | nil => simp [insertKV]
  | cons x xs ih =>
    simp only [insertKV]
    split
    · exact List.Perm.refl _
    · exact (List.Perm.cons x ih).trans (List.Perm.swap kv x xs)

theorem sortKVs_perm (l : List (List Char × JTree)) : (sortKVs l).Perm l := by
  induction l with
  | nil => simp [sortKVs]
  | cons x xs ih => exact (insertKV_perm x (sortKVs xs)).trans (List.Perm.cons x ih)

/-- non-vacuity: a table satisfying `TableOK` exists (the escaper with `\" \\ \n \r \t \u00XY`). -/
def sampleTable : EscTable :=
  [('"', ['\\', '"']), ('\\', ['\\', '\\']), ('\n', ['\\', 'n']), ('\r', ['\\', 'r']), ('\t', ['\\', 't'])] ++
  ((List.range 0x20).filter (fun n => n != 9 && n != 10 && n != 13)).map
    (fun n => (Char.ofNat n, ['\\', 'u', '0', '0', hexDigitChar (n / 16), hexDigitChar (n % 16)]))
example : TableOK sampleTable = true := by decide

/-- the escaper of the pinned commit (only `"`, TAB, CR, LF escaped): the criterion fails, and the
round trip fails on the concrete strings `a\b` and U+0001 (finding B17, repaired by a `fix:` commit). -/
def pinnedTable : EscTable :=
  [('"', ['\\', '"']), ('\n', ['\\', 'n']), ('\r', ['\\', 'r']), ('\t', ['\\', 't'])]
theorem pinned_table_not_ok : TableOK pinnedTable = false := by decide
theorem pinned_backslash_witness :
    decodeString (encodeString (escOf pinnedTable) ['a', '\\', 'b']) ≠ some (['a', '\\', 'b'], []) := by decide
theorem pinned_control_witness :
    decodeString (encodeString (escOf pinnedTable) [Char.ofNat 1]) = none := by decide

end P2.C17
