import P2.Proofs.Binning
/-! # C20 — Binning conserves mass and is additive

Property theorems only. Model: `P2/Model/Binning.lean` (line-by-line model of `value/binning.go`,
generic in the number carrier). The theorems are about the **exact instance** `exactOps` — numbers are
integer multiples of a common power-of-two unit, i.e. exactly the "exactly representable values" of the
property, with bignum range (±1e300, ±2^63 are ordinary values) — and about the **repaired**
`axis.getIndex` (`getIndex`; `fix:` commit "clamp in the float domain before converting to int").
The pinned `getIndex` (`getIndexPinned`: `int(math.Floor(q))+1` with Go/amd64's `MinInt64` for an
out-of-range conversion) is kept as a model of its own; it is proved equal to the repaired one whenever
`⌊q⌋ < 2^63 - 1` and proved wrong on concrete witnesses (finding B20) at the end of this file.

`count : Nat` is the count argument of the call (`count ≥ 0`; the property's quantifier is 0..64, the
theorems hold for every `count`); the axis then has `count + 2` bins. Records are the numbers the index
and value closures returned: `(x, value)` in one, `(x, y, value)` in two dimensions. -/
namespace P2.C20
open P2.Binning

/-! ## C20.1 `index_in_range` -/

/-- every value (of any carrier: also NaN, ±Inf, any rounding) gets a valid slice index -/
theorem index_in_range {F} (ops : NumOps F) (start size : F) (count : Nat) (v : F) :
    0 ≤ getIndex ops ⟨start, size, count + 2⟩ v ∧
    getIndex ops ⟨start, size, count + 2⟩ v < (count : Int) + 2 := by
  have := getIndex_range ops ⟨start, size, count + 2⟩ v (by simp)
  simp only [Int.natCast_add] at this
  exact this

/-- consequently `binning` never panics or fails for `count ≥ 0` and numeric records, and returns
`count + 2` descriptions and `count + 2` values (any carrier) -/
theorem binning_returns {F} (ops : NumOps F) (start size : F) (count : Nat) (recs : List (F × F)) :
    ∃ r, binning ops start size (count : Int) recs = .ok r ∧
      r.descr.length = count + 2 ∧ r.values.length = count + 2 := by
  refine ⟨_, binningWith_ok ops _ (giOK_getIndex ops) start size count recs, ?_, ?_⟩
  · simp [descrs]
  · simp [length_foldP, length_zeros]

theorem binning2d_returns {F} (ops : NumOps F) (xs xz : F) (xc : Nat) (ys yz : F) (yc : Nat)
    (recs : List (F × F × F)) :
    ∃ r, binning2d ops xs xz (xc : Int) ys yz (yc : Int) recs = .ok r ∧
      r.yDescr.length = yc + 2 ∧ r.values.length = xc + 2 ∧ ∀ row ∈ r.values, row.row.length = yc + 2 := by
  refine ⟨_, binning2dWith_ok ops _ (giOK_getIndex ops) xs xz xc ys yz yc recs, ?_, ?_, ?_⟩
  · simp [descrs]
  · have h := shape_foldP2 ops.add (fun v => (getIndex ops ⟨xs, xz, xc + 2⟩ v).toNat)
      (fun v => (getIndex ops ⟨ys, yz, yc + 2⟩ v).toNat) _ _ recs _ (shape_zeros2 ops (xc + 2) (yc + 2))
    have := congrArg List.length (map_row_rowsOf ops ⟨xs, xz, xc + 2⟩ 0
      (foldP2 ops.add (fun v => (getIndex ops ⟨xs, xz, xc + 2⟩ v).toNat)
        (fun v => (getIndex ops ⟨ys, yz, yc + 2⟩ v).toNat) (zeros2 ops (xc + 2) (yc + 2)) recs))
    rw [List.length_map, h.1] at this
    exact this
  · intro row hrow
    have h := shape_foldP2 ops.add (fun v => (getIndex ops ⟨xs, xz, xc + 2⟩ v).toNat)
      (fun v => (getIndex ops ⟨ys, yz, yc + 2⟩ v).toNat) _ _ recs _ (shape_zeros2 ops (xc + 2) (yc + 2))
    apply h.2
    rw [← map_row_rowsOf ops ⟨xs, xz, xc + 2⟩ 0
      (foldP2 ops.add (fun v => (getIndex ops ⟨xs, xz, xc + 2⟩ v).toNat)
        (fun v => (getIndex ops ⟨ys, yz, yc + 2⟩ v).toNat) (zeros2 ops (xc + 2) (yc + 2)) recs)]
    exact List.mem_map_of_mem hrow

/-! ## C20.2 `index_spec` -/

/-- for `size > 0` the index is given by the interval rule of the property: the underflow bin 0 below
`start`, bin `i` for `start+(i-1)·size ≤ v < start+i·size`, the overflow bin `count+1` from
`start+count·size` — for every exact `v`, however large -/
theorem index_spec (start size : Int) (count : Nat) (hs : 0 < size) (v : Int) :
    (getIndex exactOps ⟨start, size, count + 2⟩ v = 0 ↔ v < start) ∧
    (∀ i : Nat, 1 ≤ i → i ≤ count →
      (getIndex exactOps ⟨start, size, count + 2⟩ v = (i : Int) ↔
        start + ((i : Int) - 1) * size ≤ v ∧ v < start + (i : Int) * size)) ∧
    (getIndex exactOps ⟨start, size, count + 2⟩ v = (count : Int) + 1 ↔ start + (count : Int) * size ≤ v) :=
  ⟨index_zero start size count hs v, fun i h1 h2 => index_inner start size count hs v i h1 h2,
   index_over start size count hs v⟩

example : (0 : Int) < 3 := by decide   -- non-vacuity of `hs`
example : getIndex exactOps ⟨-8, 3, 4 + 2⟩ (-2) = 3 := by decide   -- -8+2·3 ≤ -2 < -8+3·3

/-! ## C20.3 `mass_conserved` -/

/-- the bins sum to the sum of the per-element values (any `size`, also ≤ 0), one dimension -/
theorem mass_conserved (start size : Int) (count : Nat) (recs : List (Int × Int)) :
    ∃ r, binning exactOps start size (count : Int) recs = .ok r ∧
      sum r.values = sum (recs.map (·.2)) := by
  refine ⟨_, binningWith_ok exactOps _ (giOK_getIndex exactOps) start size count recs, ?_⟩
  simp only
  rw [sum_foldP _ (count + 2) (fun v => by
        have := getIndex_range exactOps ⟨start, size, count + 2⟩ v (by simp)
        simp only [Int.natCast_add] at this
        omega) recs _ (length_zeros _ _), sum_zeros]
  simp

/-- … and two dimensions: all cells together sum to the sum of the per-element values -/
theorem mass_conserved2d (xs xz : Int) (xc : Nat) (ys yz : Int) (yc : Nat) (recs : List (Int × Int × Int)) :
    ∃ r, binning2d exactOps xs xz (xc : Int) ys yz (yc : Int) recs = .ok r ∧
      sum2 (r.values.map (·.row)) = sum (recs.map (·.2.2)) := by
  refine ⟨_, binning2dWith_ok exactOps _ (giOK_getIndex exactOps) xs xz xc ys yz yc recs, ?_⟩
  simp only
  rw [map_row_rowsOf]
  rw [sum2_foldP2 _ _ (xc + 2) (yc + 2)
      (fun v => by
        have := getIndex_range exactOps ⟨xs, xz, xc + 2⟩ v (by simp)
        simp only [Int.natCast_add] at this
        omega)
      (fun v => by
        have := getIndex_range exactOps ⟨ys, yz, yc + 2⟩ v (by simp)
        simp only [Int.natCast_add] at this
        omega) recs _ (shape_zeros2 _ _ _), sum2_zeros2]
  simp

/-! ## C20.4 `descr_matches` (and: every element is counted in exactly the bin whose description
contains it) -/

/-- the descriptions are the intervals of `index_spec`, presence of `min`/`max` included -/
theorem descr_spec (start size : Int) (count : Nat) :
    getDescr exactOps ⟨start, size, count + 2⟩ 0 = ⟨none, some start⟩ ∧
    (∀ i : Nat, 1 ≤ i → i ≤ count →
      getDescr exactOps ⟨start, size, count + 2⟩ i =
        ⟨some (start + ((i : Int) - 1) * size), some (start + (i : Int) * size)⟩) ∧
    getDescr exactOps ⟨start, size, count + 2⟩ (count + 1) = ⟨some (start + (count : Int) * size), none⟩ :=
  ⟨descr_first start size count, fun i h1 h2 => descr_inner start size count i h1 h2,
   descr_last start size count⟩

/-- an element gets index `i` iff description `i` contains it (`min ≤ v` when `min` is present,
`v < max` when `max` is present) -/
theorem descr_matches (start size : Int) (count : Nat) (hs : 0 < size) (v : Int) (i : Nat) (hi : i < count + 2) :
    getIndex exactOps ⟨start, size, count + 2⟩ v = (i : Int) ↔
      (getDescr exactOps ⟨start, size, count + 2⟩ i).contains v = true :=
  index_iff_contains start size count hs v i hi

/-- the complete result of `binning` in one equation: `descr` lists the `count+2` descriptions and
`values[i]` is the sum of the per-element values of exactly those elements that lie in the interval
`descr[i]` names (so each element is counted once, in the bin the interval rule gives) -/
theorem bins_are_histogram (start size : Int) (count : Nat) (hs : 0 < size) (recs : List (Int × Int)) :
    binning exactOps start size (count : Int) recs =
      .ok ⟨(List.range (count + 2)).map (getDescr exactOps ⟨start, size, count + 2⟩),
           ((List.range (count + 2)).map (getDescr exactOps ⟨start, size, count + 2⟩)).map
             (fun d => sum ((recs.filter (fun r => d.contains r.1)).map (·.2)))⟩ := by
  unfold binning
  rw [binningWith_ok exactOps _ (giOK_getIndex exactOps) start size count recs, foldP_zeros_eq]
  simp only [descrs, List.map_map]
  congr 2
  apply List.map_congr_left
  intro i hi
  exact binTotal_by_descr start size count hs recs i (List.mem_range.mp hi)

/-- two dimensions: `yDescr` lists the y descriptions, row `i` carries the x description `xd` and
`row[j]` is the sum over exactly the elements with `x` in `xd` and `y` in `yDescr[j]` -/
theorem bins_are_histogram2d (xs xz : Int) (xc : Nat) (ys yz : Int) (yc : Nat) (hx : 0 < xz) (hy : 0 < yz)
    (recs : List (Int × Int × Int)) :
    binning2d exactOps xs xz (xc : Int) ys yz (yc : Int) recs =
      .ok ⟨(List.range (yc + 2)).map (getDescr exactOps ⟨ys, yz, yc + 2⟩),
           ((List.range (xc + 2)).map (getDescr exactOps ⟨xs, xz, xc + 2⟩)).map (fun xd =>
             ⟨xd, ((List.range (yc + 2)).map (getDescr exactOps ⟨ys, yz, yc + 2⟩)).map (fun yd =>
                sum ((recs.filter (fun r => xd.contains r.1 && yd.contains r.2.1)).map (·.2.2)))⟩)⟩ := by
  unfold binning2d
  rw [binning2dWith_ok exactOps _ (giOK_getIndex exactOps) xs xz xc ys yz yc recs, foldP2_zeros_eq,
    rowsOf_range]
  simp only [descrs, List.map_map]
  congr 2
  apply List.map_congr_left
  intro i hi
  simp only [Function.comp]
  congr 1
  apply List.map_congr_left
  intro j hj
  rw [cell_total]
  congr 2
  apply List.filter_congr
  intro r _
  have hi' := List.mem_range.mp hi
  have hj' := List.mem_range.mp hj
  have hrx := getIndex_range exactOps ⟨xs, xz, xc + 2⟩ r.1 (by simp)
  have hry := getIndex_range exactOps ⟨ys, yz, yc + 2⟩ r.2.1 (by simp)
  have ex := index_iff_contains xs xz xc hx r.1 i hi'
  have ey := index_iff_contains ys yz yc hy r.2.1 j hj'
  rw [← toNat_eq_iff _ _ hrx.1] at ex
  rw [← toNat_eq_iff _ _ hry.1] at ey
  rw [Bool.eq_iff_iff]
  simp only [Bool.and_eq_true, decide_eq_true_eq]
  exact and_congr ex ey

example : binning exactOps (-2) 2 3 [(-3, 1), (-2, 2), (-1, 4), (0, 8), (3, 16), (4, 32), (100, 64)] =
    .ok ⟨[⟨none, some (-2)⟩, ⟨some (-2), some 0⟩, ⟨some 0, some 2⟩, ⟨some 2, some 4⟩, ⟨some 4, none⟩],
         [1, 6, 8, 16, 96]⟩ := by decide

/-! ## C20.5 `additive` -/

/-- `parts.map(p -> p.binning(start,size,count,..)).collectBinning()` equals
`parts.flatten.binning(start,size,count,..)` — descriptions and values — for every splitting of a list
into one or more parts (parts may be empty lists); any `size` -/
theorem additive (start size : Int) (count : Nat) (parts : List (List (Int × Int))) (h : parts ≠ []) :
    (mapRes (binning exactOps start size (count : Int)) parts >>= collect1 exactOps) =
      binning exactOps start size (count : Int) parts.flatten := by
  unfold binning
  rw [mapRes_ok _ _ (fun p => binningWith_ok exactOps _ (giOK_getIndex exactOps) start size count p),
    binningWith_ok exactOps _ (giOK_getIndex exactOps)]
  cases parts with
  | nil => exact absurd rfl h
  | cons p ps =>
    simp only [Res.bind_ok, List.map_cons, collect1, List.map_map]
    have := collectVals_parts (fun v => (getIndex exactOps ⟨start, size, count + 2⟩ v).toNat) (count + 2)
      (p :: ps) (zeros exactOps (count + 2)) (length_zeros _ _)
    simp only [List.map_cons] at this
    rw [length_foldP, length_zeros]
    simp only [Function.comp_def]
    rw [this]

/-- the same in two dimensions -/
theorem additive2d (xs xz : Int) (xc : Nat) (ys yz : Int) (yc : Nat)
    (parts : List (List (Int × Int × Int))) (h : parts ≠ []) :
    (mapRes (binning2d exactOps xs xz (xc : Int) ys yz (yc : Int)) parts >>= collect2 exactOps) =
      binning2d exactOps xs xz (xc : Int) ys yz (yc : Int) parts.flatten := by
  unfold binning2d
  rw [mapRes_ok _ _ (fun p => binning2dWith_ok exactOps _ (giOK_getIndex exactOps) xs xz xc ys yz yc p),
    binning2dWith_ok exactOps _ (giOK_getIndex exactOps)]
  cases parts with
  | nil => exact absurd rfl h
  | cons p ps =>
    have hz := shape_zeros2 exactOps (xc + 2) (yc + 2)
    have hp := shape_foldP2 exactOps.add (fun v => (getIndex exactOps ⟨xs, xz, xc + 2⟩ v).toNat)
      (fun v => (getIndex exactOps ⟨ys, yz, yc + 2⟩ v).toNat) _ _ p _ hz
    have hall := shape_foldP2 exactOps.add (fun v => (getIndex exactOps ⟨xs, xz, xc + 2⟩ v).toNat)
      (fun v => (getIndex exactOps ⟨ys, yz, yc + 2⟩ v).toNat) _ _ (p :: ps).flatten _ hz
    have := collectRows_parts (fun v => (getIndex exactOps ⟨xs, xz, xc + 2⟩ v).toNat)
      (fun v => (getIndex exactOps ⟨ys, yz, yc + 2⟩ v).toNat) (xc + 2) (yc + 2) (p :: ps) _ hz
    simp only [List.map_cons] at this
    simp only [Res.bind_ok, List.map_cons, collect2, List.map_map, Function.comp_def, map_row_rowsOf]
    rw [map_zeros_shape (yc + 2) (xc + 2) _ hp, this]
    simp only
    rw [zipRows_rowsOf _ _ _ _ _ (by rw [hp.1, hall.1])]

example : ([[(1, 1)], [], [(2, 1), (-5, 1)]] : List (List (Int × Int))) ≠ [] := by decide
example : (mapRes (binning exactOps 0 1 2) [[(1, 1)], [], [(1, 4), (-5, 2)]] >>= collect1 exactOps) =
    .ok ⟨[⟨none, some 0⟩, ⟨some 0, some 1⟩, ⟨some 1, some 2⟩, ⟨some 2, none⟩], [2, 0, 5, 0]⟩ := by decide
/-- `collectBinning` of no parts is the error "no items" — why `additive` needs `parts ≠ []` -/
example : collect1 exactOps [] = .err := rfl

/-- additivity and mass conservation do not depend on *which* index function is used (they hold for
the pinned `getIndex` as well: B20 breaks the interval rule only) -/
theorem additive_pinned (start size : Int) (count : Nat) (parts : List (List (Int × Int))) (h : parts ≠ []) :
    (mapRes (binningPinned exactOps start size (count : Int)) parts >>= collect1 exactOps) =
      binningPinned exactOps start size (count : Int) parts.flatten := by
  unfold binningPinned
  rw [mapRes_ok _ _ (fun p => binningWith_ok exactOps _ (giOK_getIndexPinned exactOps) start size count p),
    binningWith_ok exactOps _ (giOK_getIndexPinned exactOps)]
  cases parts with
  | nil => exact absurd rfl h
  | cons p ps =>
    simp only [Res.bind_ok, List.map_cons, collect1, List.map_map]
    have := collectVals_parts (fun v => (getIndexPinned exactOps ⟨start, size, count + 2⟩ v).toNat) (count + 2)
      (p :: ps) (zeros exactOps (count + 2)) (length_zeros _ _)
    simp only [List.map_cons] at this
    rw [length_foldP, length_zeros]
    simp only [Function.comp_def]
    rw [this]

/-! ## C20.6 `conversion_faithful` and the pinned behaviour (finding B20) -/

/-- Go's `int(math.Floor(q))+1` followed by the integer clamp (pinned code) equals the repaired
float-domain clamp — and hence the exact index of `index_spec` — whenever `⌊q⌋ < 2^63 - 1`
(no lower bound is needed: far below the range both give bin 0) -/
theorem conversion_faithful (start size : Int) (count : Nat) (hs : 0 < size) (v : Int)
    (hq : (v - start) / size < 9223372036854775807) :
    getIndexPinned exactOps ⟨start, size, count + 2⟩ v = getIndex exactOps ⟨start, size, count + 2⟩ v := by
  have hf : exactOps.floorDiv (exactOps.sub v start) size = .fin ((v - start) / size) := by
    simp only [exactOps, exactFloorDiv]
    rw [if_neg (by omega), Int.fdiv_eq_ediv_of_nonneg _ (by omega)]
  apply pinned_eq_repaired
  · intro n hn
    simp only at hn
    rw [hf] at hn
    cases hn
    exact hq
  · simp only
    rw [hf]
    exact fun e => by cases e

example : ((-(10 : Int) ^ 30) - 0) / 1 < 9223372036854775807 := by decide   -- non-vacuity

/-- the same for every carrier (also IEEE floats): the two index computations differ only when
`math.Floor(q)` is `+Inf` or `≥ 2^63 - 1` -/
theorem conversion_faithful_any {F} (ops : NumOps F) (a : Axis F) (v : F)
    (hfin : ∀ n, ops.floorDiv (ops.sub v a.start) a.size = .fin n → n < 9223372036854775807)
    (hinf : ops.floorDiv (ops.sub v a.start) a.size ≠ .pinf) :
    getIndexPinned ops a v = getIndex ops a v :=
  pinned_eq_repaired ops a v hfin hinf

/-- B20, general form: at the pinned commit **every** element with `⌊(v-start)/size⌋ ≥ 2^63 - 1` is
counted in the underflow bin 0 although `v ≥ start + count·size`; the repaired code counts it in the
overflow bin -/
theorem pinned_huge_quotient_underflows (start size : Int) (count : Nat) (hs : 0 < size) (v : Int)
    (hc : (count : Int) < 9223372036854775807) (hq : 9223372036854775807 ≤ (v - start) / size) :
    getIndexPinned exactOps ⟨start, size, count + 2⟩ v = 0 ∧
    getIndex exactOps ⟨start, size, count + 2⟩ v = (count : Int) + 1 ∧
    ¬ v < start := by
  have hf : exactOps.floorDiv (exactOps.sub v start) size = .fin ((v - start) / size) := by
    simp only [exactOps, exactFloorDiv]
    rw [if_neg (by omega), Int.fdiv_eq_ediv_of_nonneg _ (by omega)]
  refine ⟨pinned_huge_in_bin0 exactOps _ v (Or.inr ⟨_, hf, hq⟩), ?_, ?_⟩
  · have := repaired_huge_in_last exactOps ⟨start, size, count + 2⟩ v (Or.inr ⟨_, hf, by simp only [Int.natCast_add]; omega⟩)
    rw [this]; simp only [Int.natCast_add]; omega
  · intro hlt
    have := (quot_neg_iff (v - start) size hs).mpr (by omega)
    omega

/-- the float64 nearest to `1e300` (= 0x1.7e43c8800759cp+996), an integer -/
def f1e300 : Int := 1000000000000000052504760255204420248704468581108159154915854115511802457988908195786371375080447864043704443832883878176942523235360430575644792184786706982848387200926575803737830233794788090059368953234970799945081119038967640880074652742780142494579258788820056842838115669472196386865459400540160

example : (9223372036854775807 : Int) ≤ (f1e300 - 0) / 1 := by decide   -- non-vacuity of `hq` above

/-- B20, the witness of DESIGN Appendix B: `[1e300].binning(0,1,4,e->e,e->1).values` at the pinned
commit is `[1,0,0,0,0,0]` … -/
theorem pinned_1e300_witness :
    binningPinned exactOps 0 1 4 [(f1e300, 1)] =
      .ok ⟨[⟨none, some 0⟩, ⟨some 0, some 1⟩, ⟨some 1, some 2⟩, ⟨some 2, some 3⟩, ⟨some 3, some 4⟩, ⟨some 4, none⟩],
           [1, 0, 0, 0, 0, 0]⟩ := by decide

/-- … so the pinned code violates `index_spec`/`bins_are_histogram`: the element is not below `start`,
yet it is counted in the bin described as "< 0" -/
theorem pinned_violates_index_spec :
    ¬ (getIndexPinned exactOps ⟨0, 1, 4 + 2⟩ f1e300 = 0 ↔ f1e300 < 0) := by decide

/-- the smallest float64 affected is `2^63` (with `start = 0`, `size = 1`) -/
theorem pinned_two63_witness :
    getIndexPinned exactOps ⟨0, 1, 4 + 2⟩ 9223372036854775808 = 0 ∧
    getIndexPinned exactOps ⟨0, 1, 4 + 2⟩ (9223372036854775808 - 1024) = 5 := by decide

/-- the repaired code on the same inputs -/
theorem repaired_1e300 :
    binning exactOps 0 1 4 [(f1e300, 1)] =
      .ok ⟨[⟨none, some 0⟩, ⟨some 0, some 1⟩, ⟨some 1, some 2⟩, ⟨some 2, some 3⟩, ⟨some 3, some 4⟩, ⟨some 4, none⟩],
           [0, 0, 0, 0, 0, 1]⟩ := by decide

end P2.C20
