import P2.Proofs.Recover
import P2.Props.C06
import P2.Props.C05
/-! # C05 — panic containment: no goroutine of an evaluation dies of a panic, and the fault reaches the caller

`P2.Props.C05` speaks about the single-goroutine language model. This file is about the mechanism that keeps a Go panic
from killing the process (`P2.Recover`): goroutines are stacks of frames, the deferred recovers are a DATA table
(`Table`: site → `none` / `indirect` / `direct conversion`), and every theorem is generic in it. The table of the code
is regenerated on every run and the predicates `Disciplined`/`Conversions` are discharged on it by `decide`
(`P2.Oblig.RecoverSites`).

* `no_crash`, `panic_always_contained` — with the discipline, for EVERY schedule (any interleaving of spawn / call /
  return / fault / unwind / re-raise steps of any number of goroutines, any nesting depth, a fault in any frame of any
  goroutine) no reachable state is crashed, and every goroutine that is unwinding has a frame below that stops it.
* `recover_necessary` — drop the recover of ANY of the seven critical sites, or make it indirect (recover() called in a
  helper of the deferred function), or make it panic again: a crashed state is reachable.
* `stage_outcome_sequential`, `fault_reaches_caller` — the call that iterates a parallel stage comes back, under every
  schedule, with the outcome of the sequential run; when that is a fault (an error item that the consumer received —
  also one made from a panic on a worker — or a panic of the consumer on the collector goroutine) the evaluation call
  returns an ERROR through every depth of user frames.
* `try_catches_remote_fault` — a try frame on the calling goroutine takes the catch branch for such a fault.
* `nested_fault_reaches_caller` — the same when the stage runs inside the worker closure of an outer parallel stage.
* `reraise_necessary`, `try_needs_recover`, `toplevel_needs_recover` — necessity at the level of outcomes. -/
namespace P2.C05R
open P2.Recover

/-! ## containment under every schedule -/

/-- C05 (containment): with the discipline no reachable state is crashed — for every schedule, every number of
goroutines of every kind, every nesting depth of frames and a fault in any frame that runs parser2's or the user's code -/
theorem no_crash (T : Table) (hT : Disciplined T = true) (s : State) (h : Reach T s) : s.crashed = false :=
  (reach_inv hT h).1

/-- … because in every reachable state a goroutine that is unwinding a panic still has, below the frames it has left,
a frame whose direct recover stops the panic (with only inert library frames below that one) -/
theorem panic_always_contained (T : Table) (hT : Disciplined T = true) (s : State) (h : Reach T s) :
    ∀ g ∈ s.gs, g.pan = true → prot T g.frames = true :=
  fun g hg => ((reach_inv hT h).2 g hg).2

/-- the table read from the code has the discipline and the conversions -/
theorem pinned_disciplined : Disciplined pinned = true ∧ Conversions pinned = true := by decide

/-- non-vacuity of `no_crash`: a panic three user frames deep in a `map` closure on a worker goroutine; after four
unwind steps the worker is back in the library's loop, nothing has crashed -/
example : (run pinned [.call 0 .topLevel, .call 0 .user, .call 0 .stage, .spawn 0 .worker, .call 1 .workerMap,
      .call 1 .user, .call 1 .user, .call 1 .user, .fault 1, .unwind 1, .unwind 1, .unwind 1, .unwind 1] init)
    = some { gs := [{ frames := [.stage, .user, .topLevel, .host], pan := false, owner := 0, pending := 0 },
                    { frames := [.libWorker], pan := false, owner := 0, pending := 0 }], crashed := false } := by decide

/-- non-vacuity, the stored panic: the downstream consumer panics on the collector goroutine; the wrapper stores it, the
stage frame raises it again on the calling goroutine, where it unwinds to the generated function, which stops it -/
example : (run pinned [.call 0 .topLevel, .call 0 .user, .call 0 .stage, .spawn 0 .collector, .call 1 .stageConsumer,
      .call 1 .user, .fault 1, .unwind 1, .unwind 1, .ret 1, .reraise 0, .unwind 0, .unwind 0, .unwind 0] init)
    = some { gs := [{ frames := [.host], pan := false, owner := 0, pending := 0 },
                    { frames := [], pan := false, owner := 0, pending := 0 }], crashed := false } := by decide

/-- … and while `consumerPanic` is set the stage frame cannot return normally -/
example : (run pinned [.call 0 .topLevel, .call 0 .user, .call 0 .stage, .spawn 0 .collector, .call 1 .stageConsumer,
      .call 1 .user, .fault 1, .unwind 1, .unwind 1, .ret 0] init) = none := by decide

/-! ## necessity -/

/-- the sites whose recover is what stands between a panic and the end of the process -/
def critical : List Site := [.topLevel, .workerMap, .workerAccept, .stageConsumer, .mergeA, .mergeB, .muConsumer]

/-- the ways to lose a recover: none; `recover()` called in a helper of the deferred function; raising it again -/
def broken : List Rec := [.none, .indirect, .direct .rethrow]

/-- a schedule that crashes when the recover of the site is lost -/
def crashWitness : Site → List Act
  | .topLevel => [.call 0 .topLevel, .call 0 .user, .fault 0, .unwind 0, .unwind 0, .unwind 0, .unwind 0]
  | .workerMap => [.spawn 0 .worker, .call 1 .workerMap, .call 1 .user, .fault 1, .unwind 1, .unwind 1, .unwind 1, .unwind 1]
  | .workerAccept => [.spawn 0 .worker, .call 1 .workerAccept, .call 1 .user, .fault 1, .unwind 1, .unwind 1, .unwind 1, .unwind 1]
  | .stageConsumer => [.spawn 0 .collector, .call 1 .stageConsumer, .call 1 .user, .fault 1, .unwind 1, .unwind 1, .unwind 1, .unwind 1]
  | .mergeA => [.spawn 0 .mergeProducer, .call 1 .mergeA, .call 1 .user, .fault 1, .unwind 1, .unwind 1, .unwind 1, .unwind 1]
  | .mergeB => [.spawn 0 .mergeProducer, .call 1 .mergeB, .call 1 .user, .fault 1, .unwind 1, .unwind 1, .unwind 1, .unwind 1]
  | .muConsumer => [.spawn 0 .muConsumer, .call 1 .user, .fault 1, .unwind 1, .unwind 1, .unwind 1]
  | _ => []

theorem crashWitness_crashes : ∀ s ∈ critical, ∀ r ∈ broken,
    (run (breakAt pinned s r) (crashWitness s) init).map (·.crashed) = some true := by decide

/-- C05 (necessity): lose the recover of any single critical site — drop it, call `recover()` in a helper instead of
directly in the deferred function, or panic again — and a crashed state is reachable -/
theorem recover_necessary : ∀ s ∈ critical, ∀ r ∈ broken,
    ∃ st, Reach (breakAt pinned s r) st ∧ st.crashed = true := by
  intro s hs r hr
  have key := crashWitness_crashes s hs r hr
  cases hrun : run (breakAt pinned s r) (crashWitness s) init with
  | none => simp [hrun] at key
  | some st => exact ⟨st, reach_of_run _ _ _ Reach.init hrun, by simpa [hrun] using key⟩

/-- … and `Disciplined` says so: each of these tables fails the predicate -/
theorem broken_tables_fail : ∀ s ∈ critical, ∀ r ∈ broken, Disciplined (breakAt pinned s r) = false := by decide

/-- a goroutine kind whose root neither is inert nor stops panics (a `go` statement on user code without a recover):
the same with one more kind of root; here the multiUse consumer without its recover stands for it -/
example : ∃ st, Reach (breakAt pinned .muConsumer .none) st ∧ st.crashed = true :=
  recover_necessary .muConsumer (by decide) .none (by decide)

/-! ## the fault reaches the caller -/

open P2.ParStage in
/-- under the conversions of the code the worker closures stop every panic: the worker function is `contain ∘ raw` -/
theorem worker_contains {β} (T : Table) (hT : Conversions T = true) (r : Raw β) :
    workerOut (T .workerMap) r = some (contain r) ∧ workerOut (T .workerAccept) r = some (contain r) := by
  simp only [Conversions, Bool.and_eq_true, beq_iff_eq] at hT
  obtain ⟨⟨⟨⟨⟨⟨⟨⟨⟨⟨_, _⟩, hm⟩, ha⟩, _⟩, _⟩, _⟩, _⟩, _⟩, _⟩, _⟩ := hT
  cases r <;> simp [workerOut, contain, hm, ha, effect]

open P2.ParStage in
/-- C05 (outcome): for every source, every behaviour `raw` of the user's closure on the elements (values, errors,
PANICS, rejections), every consumer (which may itself panic on a delivery), every number of workers and EVERY schedule:
when the stage is over, the call that iterated it has the outcome of the sequential run -/
theorem stage_outcome_sequential {α β γ : Type} (items : List α) (raw : α → Raw β) (c : Consumer β γ) (reraise : Bool)
    (workers : Nat) (s : St β) (h : P2.ParStage.Reach items (fun x => contain (raw x)) workers s)
    (hfin : final items c.more s) :
    parOutcome reraise c s = seqOutcome reraise c (items.map fun x => contain (raw x)) := by
  unfold parOutcome seqOutcome
  rw [P2.C06.parallel_eq_sequential items _ c.more workers s h hfin]

theorem through_fault_user {γ} (T : Table) : ∀ (ctx : List (Ctx γ)) (o : CallOut γ),
    (∀ f ∈ ctx, f.isUser = true) → o.faulted = true → through T ctx o = o
  | [], _, _, _ => rfl
  | f :: fs, o, hu, ho => by
    have hf : throughFrame T f o = o := by
      cases f with
      | user k => cases o <;> simp_all [throughFrame, CallOut.faulted]
      | tryF c => have := hu (.tryF c) (by simp); simp [Ctx.isUser] at this
    simp only [through, hf]
    exact through_fault_user T fs o (fun f' hf' => hu f' (by simp [hf'])) ho

/-- a faulted outcome becomes the error of the evaluation call, whatever the depth of user frames it passes -/
theorem fault_is_error {γ} (T : Table) (hT : Conversions T = true) (ctx : List (Ctx γ)) (o : CallOut γ)
    (hu : ∀ f ∈ ctx, f.isUser = true) (ho : o.faulted = true) : evalCall T ctx o = .err o.msg := by
  simp only [Conversions, Bool.and_eq_true, beq_iff_eq] at hT
  have htop : T .topLevel = .direct .errResult := hT.1.1.1.1.1.1.1.1.1.1
  unfold evalCall
  rw [through_fault_user T ctx o hu ho]
  cases o <;> simp_all [topLevel, CallOut.faulted, CallOut.msg, effect]

open P2.ParStage in
/-- C05 (the fault reaches the caller): the stage runs in parallel under ANY schedule, below ANY depth of user frames
of the calling goroutine. The evaluation call returns what the sequential run returns; and whenever the sequential run
comes back with a fault — an error item the consumer received (also one a worker made from a panic) or a panic of the
consumer — the evaluation call returns an error, not a value. -/
theorem fault_reaches_caller {α β γ : Type} (T : Table) (hT : Conversions T = true) (items : List α) (raw : α → Raw β)
    (c : Consumer β γ) (workers : Nat) (s : St β)
    (h : P2.ParStage.Reach items (fun x => contain (raw x)) workers s) (hfin : final items c.more s)
    (ctx : List (Ctx γ)) (hu : ∀ f ∈ ctx, f.isUser = true) :
    evalCall T ctx (parOutcome true c s) = evalCall T ctx (seqOutcome true c (items.map fun x => contain (raw x))) ∧
    ((seqOutcome true c (items.map fun x => contain (raw x))).faulted = true →
      evalCall T ctx (parOutcome true c s) = .err (seqOutcome true c (items.map fun x => contain (raw x))).msg) := by
  rw [stage_outcome_sequential items raw c true workers s h hfin]
  exact ⟨rfl, fun hf => fault_is_error T hT ctx _ hu hf⟩

open P2.ParStage in
/-- when does the sequential run come back with a fault: the elements before the first failing one are values the
consumer wants more of, the failing element's outcome (an error, or a PANIC on whatever goroutine ran the closure) is
delivered as an error item, and the consumer answers an error item by returning an error (as every consumer of
`value/list.go` does: `if err != nil { return …, err }`) or by panicking -/
theorem first_fault_is_demanded {β γ : Type} (c : Consumer β γ) (pre : List β) (e : String) (post : List (Out β))
    (hmore : ∀ k, 0 < k → k ≤ pre.length → c.dem ((pre.take k).map Out.val) = .more)
    (hstop : c.dem (pre.map Out.val ++ [.err e]) ≠ .more)
    (hfaith : ∃ e', c.fin (pre.map Out.val ++ [.err e]) = .err e') (reraise : Bool) :
    (seqOutcome reraise c (pre.map Out.val ++ .err e :: post) : CallOut γ).faulted = true := by
  have hrun : ∀ (todo done : List β), done ++ todo = pre →
      (todo.map Out.val ++ Out.err e :: post).foldl (emit c.more) (done.map Out.val, false)
        = (pre.map Out.val ++ [.err e], true) := by
    intro todo
    induction todo with
    | nil =>
      intro done hd
      simp only [List.append_nil] at hd
      subst hd
      have hm : c.more (done.map Out.val ++ [.err e]) = false := by
        unfold Consumer.more; split <;> simp_all
      simp only [List.map_nil, List.nil_append, List.foldl_cons, emit, hm]
      exact P2.ParStage.emit_stopped c.more _ post
    | cons b todo ih =>
      intro done hd
      have hk : c.dem (((done ++ [b]).map Out.val)) = .more := by
        have htk : pre.take (done.length + 1) = done ++ [b] := by
          rw [← hd, show done ++ b :: todo = (done ++ [b]) ++ todo by simp]
          exact List.take_left' (by simp)
        have := hmore (done.length + 1) (by omega) (by rw [← hd]; simp)
        rwa [htk] at this
      have hm : c.more (done.map Out.val ++ [.val b]) = true := by
        unfold Consumer.more; simp only [List.map_append, List.map_cons, List.map_nil] at hk; rw [hk]
      simp only [List.map_cons, List.cons_append, List.foldl_cons, emit, hm]
      have := ih (done ++ [b]) (by simp [← hd])
      simpa using this
  have h0 := hrun pre [] (by simp)
  obtain ⟨e', he'⟩ := hfaith
  unfold seqOutcome stageOutcome seqRun
  simp only [List.map_nil] at h0
  rw [h0]
  have hl : lastDem c (pre.map Out.val ++ [Out.err e]) = c.dem (pre.map Out.val ++ [Out.err e]) := by
    unfold lastDem; split
    · next h => simp at h
    · rfl
  rw [hl]
  split
  · split <;> simp [CallOut.faulted, he']
  · simp [CallOut.faulted, he']

theorem through_append {γ} (T : Table) : ∀ (a b : List (Ctx γ)) (o : CallOut γ),
    through T (a ++ b) o = through T b (through T a o)
  | [], _, _ => rfl
  | f :: fs, b, o => by simp only [List.cons_append, through]; exact through_append T fs b _

open P2.ParStage in
/-- C05 (catchable): a try frame on the calling goroutine around the consuming expression (any depth of user frames
`inner` in between, any frames `outer` around) takes the catch branch for a fault raised on a worker or on the
collector goroutine, under every schedule: the evaluation goes on with the catch function applied to the text of the
fault of the sequential run. -/
theorem try_catches_remote_fault {α β γ : Type} (T : Table) (hT : Conversions T = true) (items : List α) (raw : α → Raw β)
    (c : Consumer β γ) (workers : Nat) (s : St β)
    (h : P2.ParStage.Reach items (fun x => contain (raw x)) workers s) (hfin : final items c.more s)
    (inner outer : List (Ctx γ)) (handler : String → CallOut γ) (hu : ∀ f ∈ inner, f.isUser = true)
    (hfault : (seqOutcome true c (items.map fun x => contain (raw x))).faulted = true) :
    evalCall T (inner ++ .tryF handler :: outer) (parOutcome true c s) =
      evalCall T outer (handler (seqOutcome true c (items.map fun x => contain (raw x))).msg) := by
  rw [stage_outcome_sequential items raw c true workers s h hfin]
  simp only [Conversions, Bool.and_eq_true, beq_iff_eq] at hT
  have htry : T .tryFrame = .direct .errResult := hT.1.1.1.1.1.1.1.1.1.2
  unfold evalCall
  rw [through_append, through_fault_user T inner _ hu hfault]
  generalize seqOutcome true c _ = o at hfault ⊢
  cases o <;> simp_all [through, throughFrame, CallOut.faulted, CallOut.msg, effect]

open P2.ParStage in
/-- C05 (nesting): the faulting stage runs INSIDE the worker closure of an outer parallel stage — on a worker
goroutine, below any depth `wctx` of user frames there. Whatever schedules the inner stages (one per outer element) and
the outer stage take, the evaluation call returns what the all-sequential run returns. The outer theorem is generic in
`raw`, so this step can be repeated for any depth of nesting. -/
theorem nested_fault_reaches_caller {α α' β γ : Type} (T : Table) (hT : Conversions T = true)
    (items : List α) (inner : α → List α') (raw : α → α' → Raw β) (ci : α → Consumer β β) (wctx : List (Ctx β))
    (wi : α → Nat) (si : α → St β)
    (hi : ∀ x, P2.ParStage.Reach (inner x) (fun y => contain (raw x y)) (wi x) (si x))
    (hfi : ∀ x, final (inner x) (ci x).more (si x))
    (c : Consumer β γ) (workers : Nat) (s : St β)
    (h : P2.ParStage.Reach items (fun x => contain (toRaw (through T wctx (parOutcome true (ci x) (si x))))) workers s)
    (hfin : final items c.more s) (ctx : List (Ctx γ)) (hu : ∀ f ∈ ctx, f.isUser = true) :
    evalCall T ctx (parOutcome true c s) =
      evalCall T ctx (seqOutcome true c (items.map fun x =>
        contain (toRaw (through T wctx (seqOutcome true (ci x) ((inner x).map fun y => contain (raw x y))))))) := by
  have hinner : (fun x => contain (toRaw (through T wctx (parOutcome true (ci x) (si x))))) =
      (fun x => contain (toRaw (through T wctx (seqOutcome true (ci x) ((inner x).map fun y => contain (raw x y)))))) := by
    funext x
    rw [stage_outcome_sequential (inner x) (raw x) (ci x) true (wi x) (si x) (hi x) (hfi x)]
  rw [hinner] at h
  exact (fault_reaches_caller T hT items
    (fun x => toRaw (through T wctx (seqOutcome true (ci x) ((inner x).map fun y => contain (raw x y)))))
    c workers s h hfin ctx hu).1

/-! ## non-vacuity and necessity at the level of outcomes -/

section examples
open P2.ParStage

/-- `reduce`-like consumer over naturals: wants everything, answers an error item by returning the error -/
def sumConsumer : Consumer Nat Nat where
  dem l := match l.getLast? with
    | some (.err _) => .stop
    | _ => .more
  fin l := match l.getLast? with
    | some (.err e) => .err e
    | _ => .ret (l.foldl (fun a o => match o with | .val b => a + b | _ => a) 0)

/-- a consumer that panics when it sees the value 7 (a host function in a downstream closure) -/
def panickyConsumer : Consumer Nat Nat where
  dem l := match l.getLast? with
    | some (.val 7) => .panic "seven"
    | some (.err _) => .stop
    | _ => .more
  fin l := .ret l.length

/-- the closure panics on element 20 -/
def rawEx (x : Nat) : Raw Nat := if x = 20 then .panic "boom" else .val (x + 1)

/-- non-vacuity of the hypotheses of `fault_reaches_caller`: three items on three workers, the closure panics on the
second one, the results arrive in the order 2, 0, 1; the state is reachable and final, and the iterating call comes back
with the error made from the panic -/
example : ∃ s : St Nat, P2.ParStage.Reach [10, 20, 30] (fun x => contain (rawEx x)) 3 s ∧
    final [10, 20, 30] sumConsumer.more s ∧ parOutcome true sumConsumer s = .err "panic: boom" := by
  refine ⟨_, P2.ParStage.Reach.step (.step (.step (.step (.step (.step .init
    (Step.dispatch _ (by decide) (by decide))) (Step.dispatch _ (by decide) (by decide)))
    (Step.dispatch _ (by decide) (by decide))) (Step.arrive _ 2 (by decide))) (Step.arrive _ 0 (by decide)))
    (Step.arrive _ 1 (by decide)), ?_, ?_⟩
  · unfold final; decide
  · decide

/-- non-vacuity of `fault_reaches_caller`: the panic on the worker of the second element is the error of the
evaluation, two user frames above the consuming call -/
example : seqOutcome true sumConsumer ([10, 20, 30].map fun x => contain (rawEx x)) = .err "panic: boom" ∧
    evalCall pinned [.user .ret, .user fun v => .ret (v + 1)]
      (seqOutcome true sumConsumer ([10, 20, 30].map fun x => contain (rawEx x))) = .err "panic: boom" := by decide

/-- the hypotheses of `first_fault_is_demanded` hold for it -/
example : (∀ k, 0 < k → k ≤ [11].length → sumConsumer.dem (([11].take k).map Out.val) = .more) ∧
    sumConsumer.dem ([11].map Out.val ++ [.err "panic: boom"]) ≠ .more ∧
    (∃ e', sumConsumer.fin ([11].map Out.val ++ [.err "panic: boom"]) = .err e') := by
  refine ⟨?_, by decide, ⟨_, rfl⟩⟩
  intro k h0 h1
  have : k = 1 := by simp at h1; omega
  subst this; decide

/-- non-vacuity of `try_catches_remote_fault`: `try <consumer> catch e -> 0`-like handler -/
example : evalCall pinned ([.user .ret] ++ .tryF (fun _ => .ret 0) :: [.user fun v => .ret (v + 5)])
    (seqOutcome true sumConsumer ([10, 20, 30].map fun x => contain (rawEx x))) = .ok 5 := by decide

/-- the consumer's own panic (on the collector goroutine in parallel mode) comes back as a panic of the iterating call
and is the error of the evaluation -/
example : seqOutcome true panickyConsumer [.val 1, .val 7, .val 9] = .panic "seven" ∧
    evalCall pinned [] (seqOutcome true panickyConsumer [.val 1, .val 7, .val 9]) = .err "seven" := by decide

/-- C05 (necessity of the re-raise): without `if consumerPanic != nil { panic(consumerPanic) }` the stored panic is
lost and the evaluation returns a VALUE although the consumer faulted.
(Out of model: every consumer of `value/list.go` is the body of a range-over-func loop; for those the Go runtime (≥ 1.23)
raises a panic of its own — "range function recovered a loop body panic and did not resume panicking" — on the iterating
goroutine when the stage returns, so with the re-raise removed the real code still returns an error, with another text.
The harness finds no failing input for that change; the obligation `consumer_panic_reraised` reports it.) -/
theorem reraise_necessary :
    evalCall pinned [] (seqOutcome false panickyConsumer [.val 1, .val 7, .val 9]) = .ok 2 ∧
    evalCall pinned [] (seqOutcome true panickyConsumer [.val 1, .val 7, .val 9]) = .err "seven" := by decide

/-- C05 (necessity, try): with the recover of the try frame lost (dropped or indirect) a panic is not catchable: the
catch branch is not taken, the evaluation returns the error -/
theorem try_needs_recover : ∀ r ∈ broken,
    evalCall (breakAt pinned .tryFrame r) [.tryF fun _ => .ret 0] (.panic "seven" : CallOut Nat) = .err "seven" ∧
    evalCall pinned [.tryF fun _ => .ret 0] (.panic "seven" : CallOut Nat) = .ok 0 := by decide

/-- C05 (necessity, generated function): with its recover lost the panic leaves the evaluation call -/
theorem toplevel_needs_recover : ∀ r ∈ broken,
    evalCall (breakAt pinned .topLevel r) [] (.panic "seven" : CallOut Nat) = .hostPanic := by decide

/-- with the worker's recover lost the worker function is not total: the panic leaves the closure -/
theorem worker_needs_recover : ∀ r ∈ broken, workerOut (β := Nat) r (.panic "boom") = none := by decide

end examples

end P2.C05R
