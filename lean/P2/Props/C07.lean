import P2.Proofs.LibSpecRefine
import P2.Proofs.LibSpecLaws
import P2.Proofs.LibSpecMisuse
import P2.Proofs.LibSpecExt
/-! # C07 — Built-in list, map, string and numeric library matches its documented model

Property theorems only. Spec: `P2/Spec/LibSpec.lean` — an independent EAGER reference of every
covered built-in, written with plain list functions over the observable content of a list
(`Str` = the good elements, then the regular end or a failure). Proofs:
`P2/Proofs/LibSpec{Refine,Laws,Misuse}.lean`.

* Part (a) ties the spec to the lazy library model `P2.Lang.Lib` that C01 proves compile-correct:
  `drain ap k l` is the observable content of the lazy list `l`; every terminal of the model is
  EQUAL to the spec function on `drain` of the receiver — for every fuel, list and callback,
  failures included; every lazy stage has the spec's content as soon as the fuel suffices.
* Part (b) are the laws that make the spec "mathematically evident", each for all inputs.
* Part (c): misuse is exactly `err` — never `ok`, never `panic`.
* Tie 1 (`Oblig/LibCovered.lean`): every built-in of today's `value.New()` is covered with the same
  arity or explicitly unmodelled. Tie 2 (`tie/c07.go`): differential run of the real code against this
  spec (request `SPEC`).

The push-iterator model `P2.Iter` (C08) states the corresponding stage refinements on consumer
frames (`collect (drive (s l)) = spec_s (elems l)`); this file does not depend on it. -/
namespace P2.C07
open P2.Lang P2.LibSpec

/-! ## (a) the lazy library model refines the spec -/

/-- C07.a0: all elements of a lazy list (`force`) are its observable content read as "all, or the failure" -/
theorem force_is_drain (ap : Apply) (k : Nat) (l : LList) : force ap k l = (drain ap k l).all :=
  force_eq_drain ap k l

/-- C07.a1 `map`, exact: with one more unit of fuel than the source, for all lists and callbacks,
failing ones included -/
theorem map_stage (ap : Apply) (f : Val) (k : Nat) (l : LList) :
    drain ap (k+1) (.map f l) = mapS ap f (drain ap k l) := drain_map ap f k l

/-- C07.a1 in the form "whenever the fuel suffices and every callback application succeeds":
forcing the lazy result gives `List.map` of the callback results over the forced receiver -/
theorem map_refines_force (ap : Apply) (f : Val) (g : Val → Val) (k : Nat) (l : LList) (xs : List Val)
    (hl : force ap k l = .ok xs) (hf : ∀ x, x ∈ xs → ap f [x] = .ok (g x)) :
    ∀ m, k + 1 ≤ m → force ap m (.map f l) = .ok (xs.map g) := by
  intro m hm
  rw [force_eq_drain] at hl ⊢
  have hs : drain ap k l = ⟨xs, none⟩ := by
    generalize drain ap k l = s at hl
    obtain ⟨items, stop⟩ := s
    cases stop with
    | none => simp only [Str.all] at hl; cases hl; rfl
    | some e => cases e <;> cases hl
  have hnf : NoFuel (drain ap k l) := by rw [hs]; intro h; cases h
  obtain ⟨K, hK⟩ : ∃ K, K = k + 1 := ⟨_, rfl⟩
  obtain ⟨m', rfl⟩ : ∃ m', m = m' + 1 := ⟨m - 1, by omega⟩
  rw [drain_map, drain_mono_le ap k l hnf m' (by omega), hs, mapS_eq_map ap f g ⟨xs, none⟩ hf]
  rfl

/-- C07.a2 lazy stages `map, accept, top, skip, +`: as soon as the fuel suffices the stage's content
is the spec function of the source's content (the source must not have run out of fuel) -/
theorem stages_refine (ap : Apply) (f : Val) (n : Int) (k : Nat) (l : LList) (h : NoFuel (drain ap k l)) :
    (∃ K, ∀ m, K ≤ m → drain ap m (.map f l) = mapS ap f (drain ap k l)) ∧
    (∃ K, ∀ m, K ≤ m → drain ap m (.accept f l) = acceptS ap f (drain ap k l)) ∧
    (∃ K, ∀ m, K ≤ m → drain ap m (.top n l) = topS n (drain ap k l)) ∧
    (∃ K, ∀ m, K ≤ m → drain ap m (.skip n l) = skipS n (drain ap k l)) ∧
    (∀ b kb, NoFuel (drain ap kb b) →
      ∃ K, ∀ m, K ≤ m → drain ap m (.append l b) = appendS (drain ap k l) (drain ap kb b)) :=
  ⟨map_refines ap f k l h, accept_refines ap f k l h, top_refines ap n k l h, skip_refines ap k n l h,
   fun b kb hb => append_refines ap b kb hb k l h⟩

/-- C07.a3 terminals `reduce, mapReduce, size, first, last, reverse, append, indexWhere, present`:
the model's method body equals the spec on the receiver's content — every fuel, every outcome -/
theorem terminals_refine (ap : Apply) (k : Nat) (l : LList) (f init x : Val) :
    mReduce ap k (.list l) [f] = (if isClosN f 2 then reduceS ap f (drain ap k l) else .err) ∧
    mMapReduce ap k (.list l) [init, f] = (if isClosN f 2 then mapReduceS ap init f (drain ap k l) else .err) ∧
    mSize ap k (.list l) [] = sizeS (drain ap k l) ∧
    mFirst ap k (.list l) [] = firstS (drain ap k l) ∧
    mLast ap k (.list l) [] = lastS (drain ap k l) ∧
    mReverse ap k (.list l) [] = reverseS (drain ap k l) ∧
    mAppend ap k (.list l) [x] = appendItemS x (drain ap k l) ∧
    mIndexWhere ap k (.list l) [f] = (if isClosN f 1 then indexWhereS ap f (drain ap k l) else .err) ∧
    mPresent ap k (.list l) [f] = (if isClosN f 1 then presentS ap f (drain ap k l) else .err) :=
  ⟨reduce_refines ap k l f, mapReduce_refines ap k l init f, size_refines ap k l, first_refines ap k l,
   last_refines ap k l, reverse_refines ap k l, appendItem_refines ap k l x, indexWhere_refines ap k l f,
   present_refines ap k l f⟩

/-- C07.a4 `sum`. Full statement: `mSum ap k (.list l) [] = sumS ap K (drain ap k l)` for all lists.
Proved when the first element is not a string (then no accumulator is a string; `+` with a string
on the left converts the right operand with `ToString` at the current fuel, and the model's loop and
the spec hand different fuels to it — equal as soon as both suffice, which is not proved). -/
theorem sum_refines_partial (ap : Apply) (k K : Nat) (l : LList)
    (h1 : ∀ x, (drain ap k l).items.head? = some x → NotStr x) :
    mSum ap k (.list l) [] = sumS ap K (drain ap k l) := P2.LibSpec.sum_refines_partial ap k K l h1

/-- C07.a5 map methods `get, put, size, isAvail, map, accept` (the model's `map`/`accept` loops need
one unit of fuel per entry) -/
theorem map_methods_refine (ap : Apply) (k : Nat) (kvs : KVs) (a v f : Val) (keys : List Val) :
    mGetS kvs [a] = liftV (mGet (.map kvs) [a]) ∧
    mPutS kvs [a, v] = liftV (mPut (.map kvs) [a, v]) ∧
    mSizeS kvs [] = liftV (mSize ap k (.map kvs) []) ∧
    mIsAvailS kvs keys = liftV (mIsAvail (.map kvs) keys) ∧
    (kvs.length < k → mMapS ap kvs [f] = liftV (mMap ap k (.map kvs) [f])) ∧
    (kvs.length < k → mAcceptS ap kvs [f] = liftV (mAccept ap k (.map kvs) [f])) :=
  ⟨map_get_refines kvs a, map_put_refines kvs a v, map_size_refines ap k kvs, map_isAvail_refines kvs keys,
   map_map_refines ap k kvs f, map_accept_refines ap k kvs f⟩

/-- C07.a6 string methods `len` (UTF-8 bytes) and `contains` -/
theorem string_methods_refine (s : String) (a : Val) :
    sLen s.toList [] = liftV (mLen (.str s) []) ∧ sContains s.toList [a] = liftV (mContains (.str s) [a]) :=
  ⟨len_refines s, contains_refines s a⟩

/-- C07.a7 static functions `throw string isFloat isInt float int abs sign sqr round goto sqrt floor
ceil trunc` (ints inside int64), `min`, `max` (at least one argument; the model leaves the call
without arguments unmodelled, the spec makes it an error), and `numbers` -/
theorem statics_refine (ap : Apply) (k : Nat) (v : Val) (hv : ∀ i, v = .int i → InInt64 i) (vs : List Val) :
    fThrow [v] = liftV (callStatic ap k "throw" [v]) ∧
    fString ap k [v] = liftV (callStatic ap k "string" [v]) ∧
    fIsFloat [v] = liftV (callStatic ap k "isFloat" [v]) ∧
    fIsInt [v] = liftV (callStatic ap k "isInt" [v]) ∧
    fFloat [v] = liftV (callStatic ap k "float" [v]) ∧
    fInt [v] = liftV (callStatic ap k "int" [v]) ∧
    fAbs [v] = liftV (callStatic ap k "abs" [v]) ∧
    fSign [v] = liftV (callStatic ap k "sign" [v]) ∧
    fSqr [v] = liftV (callStatic ap k "sqr" [v]) ∧
    fRound [v] = liftV (callStatic ap k "round" [v]) ∧
    fGoto [v] = liftV (callStatic ap k "goto" [v]) ∧
    fSqrt [v] = liftV (callStatic ap k "sqrt" [v]) ∧
    fFloor [v] = liftV (callStatic ap k "floor" [v]) ∧
    fCeil [v] = liftV (callStatic ap k "ceil" [v]) ∧
    fTrunc [v] = liftV (callStatic ap k "trunc" [v]) ∧
    fMin (v :: vs) = liftV (callStatic ap k "min" (v :: vs)) ∧
    fMax (v :: vs) = liftV (callStatic ap k "max" (v :: vs)) := by
  have h := static_refines ap k v hv
  have h2 := static_minmax_refines ap k v vs
  exact ⟨h.1, h.2.1, h.2.2.1, h.2.2.2.1, h.2.2.2.2.1, h.2.2.2.2.2.1, h.2.2.2.2.2.2.1, h.2.2.2.2.2.2.2.1,
    h.2.2.2.2.2.2.2.2.1, h.2.2.2.2.2.2.2.2.2.1, h.2.2.2.2.2.2.2.2.2.2.1, h.2.2.2.2.2.2.2.2.2.2.2.1,
    h.2.2.2.2.2.2.2.2.2.2.2.2.1, h.2.2.2.2.2.2.2.2.2.2.2.2.2.1, h.2.2.2.2.2.2.2.2.2.2.2.2.2.2, h2.1, h2.2⟩

/-- `numbers(n)` produces `0, 1, …, n−1` -/
theorem numbers_refines (ap : Apply) (n : Int) (hn : 0 ≤ n) (k : Nat) (hk : n.toNat + 1 < k) :
    drain ap k (.numbers 0 n) = .ofList ((List.range n.toNat).map (fun (j : Nat) => Val.int (Int.ofNat j))) := by
  have := drain_numbers ap n.toNat 0 n (by omega) k hk
  simpa using this

/-! ## (b) laws of the spec -/

/-- C07.b1 `size (map f l) = size l`; `map` is `List.map` of the callback -/
theorem size_map (ap : Apply) (f : Val) (s : Str) (h : (mapS ap f s).stop = none) :
    (mapS ap f s).items.length = s.items.length := P2.LibSpec.size_map ap f s h
theorem map_is_list_map (ap : Apply) (f : Val) (g : Val → Val) (s : Str)
    (hf : ∀ x, x ∈ s.items → ap f [x] = .ok (g x)) : mapS ap f s = ⟨s.items.map g, s.stop⟩ :=
  mapS_eq_map ap f g s hf
/-- `accept` is `List.filter` -/
theorem accept_is_list_filter (ap : Apply) (f : Val) (q : Val → Bool) (s : Str)
    (hf : ∀ x, x ∈ s.items → ap f [x] = .ok (.bool (q x))) : acceptS ap f s = ⟨s.items.filter q, s.stop⟩ :=
  filterR_eq_filter _ q _ _ (fun x hx => by rw [hf x hx]; rfl)

/-- C07.b2 `top n l ++ skip n l = l` (n ≥ 0) -/
theorem top_append_skip (n : Int) (s : Str) (hn : 0 ≤ n) :
    (topS n s).items ++ (skipS n s).items = s.items := P2.LibSpec.top_append_skip n s hn

/-- C07.b3 `|combine f l| = |l| − 1`, `|combine3 f l| = |l| − 2`, `|combineN n f l| = |l| − n + 1`;
the `i`-th window is the `n` elements from position `i` on, oldest first -/
theorem size_combine (ap : Apply) (f : Val) (s : Str) (h : (combineS ap f s).stop = none) :
    (combineS ap f s).items.length = s.items.length - 1 := P2.LibSpec.size_combine ap f s h
theorem size_combine3 (ap : Apply) (f : Val) (s : Str) (h : (combine3S ap f s).stop = none) :
    (combine3S ap f s).items.length = s.items.length - 2 := P2.LibSpec.size_combine3 ap f s h
theorem size_combineN (ap : Apply) (n : Nat) (f : Val) (s : Str) (hn : 1 ≤ n)
    (h : (combineNS ap n f s).stop = none) :
    (combineNS ap n f s).items.length = s.items.length + 1 - n := P2.LibSpec.size_combineN ap n f s hn h
theorem combineN_window (n : Nat) (hn : 1 ≤ n) (xs : List Val) (i : Nat) :
    (windows n xs)[i]? = if i + n ≤ xs.length then some ((xs.drop i).take n) else none :=
  windows_getElem? n hn xs i

/-- C07.b4 `|cross| = |a|·|b|` -/
theorem size_cross (ap : Apply) (f : Val) (a b : Str) (h : (crossS ap f a b).stop = none) :
    (crossS ap f a b).items.length = a.items.length * b.items.length := P2.LibSpec.size_cross ap f a b h

/-- C07.b5 merge of sorted inputs is a sorted permutation (`lt` = what the callback computes, a
strict weak order on the elements present) -/
theorem merge_sorted_perm (ap : Apply) (f : Val) (lt : Val → Val → Bool) (as bs : List Val)
    (hlt : ∀ a b, ap f [a, b] = .ok (.bool (lt a b)))
    (P : Val → Prop) (sw : StrictWeak P lt) (pa : ∀ x, x ∈ as → P x) (pb : ∀ x, x ∈ bs → P x)
    (ha : Sorted lt as) (hb : Sorted lt bs) :
    ∃ ms, mergeS ap f (.ofList as) (.ofList bs) = ⟨ms, none⟩ ∧ ms.Perm (as ++ bs) ∧ Sorted lt ms :=
  P2.LibSpec.merge_sorted_perm ap f lt as bs hlt P sw pa pb ha hb

/-- C07.b6 `iir` is a scan: its last element is the left fold; `|iir| = |l|` -/
theorem iir_is_scan (ap : Apply) (init f : Val) (x : Val) (xs : List Val) :
    lastS (iirS ap init f ⟨x :: xs, none⟩) =
      (do let y ← ap init [x]; foldR (fun acc e => ap f [e, acc]) y xs none) :=
  P2.LibSpec.iir_is_scan ap init f x xs
theorem size_iir (ap : Apply) (init f : Val) (s : Str) (h : (iirS ap init f s).stop = none) :
    (iirS ap init f s).items.length = s.items.length := P2.LibSpec.size_iir ap init f s h

/-- C07.b7 `reverse (reverse l) = l`; `append` and `set` length laws -/
theorem reverse_reverse (xs : List Val) :
    reverseS (.ofList xs) = .ok (listV xs.reverse) ∧ reverseS (.ofList xs.reverse) = .ok (listV xs) :=
  P2.LibSpec.reverse_reverse xs
theorem append_law (xs : List Val) (x : Val) :
    ∃ ys, appendItemS x (.ofList xs) = .ok (listV ys) ∧ ys.length = xs.length + 1 ∧ ys.getLast? = some x ∧
      ys.take xs.length = xs := P2.LibSpec.append_law xs x
theorem set_law (xs : List Val) (i : Int) (x : Val) :
    (0 ≤ i ∧ i < xs.length →
      ∃ ys, setS i x (.ofList xs) = .ok (listV ys) ∧ ys.length = xs.length ∧ ys[i.toNat]? = some x ∧
        ∀ j, j ≠ i.toNat → ys[j]? = xs[j]?) ∧
    (i < 0 ∨ xs.length ≤ i → setS i x (.ofList xs) = .err) := P2.LibSpec.set_law xs i x

/-- C07.b8 `order`/`orderRev`: a permutation; every pair carries its item's key; sorted by key
whenever `<` is a strict weak order on the keys present. The implementation may return any
permutation with the same key sequence (Go's sort is not stable); the harness checks exactly that. -/
theorem order_sorted_perm (ap : Apply) (rev : Bool) (f : Val) (xs : List Val) (r : List (Val × Val))
    (h : orderS ap rev f (.ofList xs) = .ok r) :
    (r.map (·.2)).Perm xs ∧
    (2 ≤ xs.length → ∀ p, p ∈ r → ap f [p.2] = .ok p.1) ∧
    (∀ (lt : Val → Val → Bool) (P : Val → Prop), (∀ p, p ∈ r → P p.1) →
      (∀ a b, P a → P b → valLess a b = .ok (lt a b)) →
      StrictWeak P lt → SortedK (fun a b => if rev then lt b a else lt a b) r) :=
  P2.LibSpec.order_sorted_perm ap rev f xs r h
theorem orderLess_sorted_perm (ap : Apply) (f : Val) (xs : List Val) (r : List (Val × Val))
    (h : orderLessS ap f (.ofList xs) = .ok r) :
    (r.map (·.2)).Perm xs ∧ (∀ p, p ∈ r → p.1 = p.2) ∧
    (∀ (lt : Val → Val → Bool) (P : Val → Prop), (∀ x, x ∈ xs → P x) →
      (∀ a b, P a → P b → ap f [a, b] = .ok (.bool (lt a b))) → StrictWeak P lt → SortedK lt r) :=
  P2.LibSpec.orderLess_sorted_perm ap f xs r h

/-- C07.b9 `groupBy*` is a partition by key: concatenating the groups gives a permutation of the
input, the keys are pairwise different, every member has its group's key, the order inside a group
is the input order, no group is empty. (`groupByString/Int/Equal` are `groupR` with the respective
key function and the `=` of the language.) -/
theorem groupBy_partition (keyOf : Val → R Val) (eq : Val → Val → R Bool) (xs : List Val) (gs : Groups)
    (h : groupR keyOf eq [] xs none = .ok gs) :
    (gs.flatMap (·.2)).Perm xs ∧
    (gs.map (·.1)).Pairwise (fun a b => eq a b = .ok false) ∧
    (∀ g, g ∈ gs → ∀ v, v ∈ g.2 → HasKey keyOf eq g.1 v) ∧
    (∀ g, g ∈ gs → g.2.Sublist xs) ∧
    (∀ g, g ∈ gs → g.2 ≠ []) :=
  let inv := P2.LibSpec.groupBy_partition keyOf eq xs gs h
  ⟨inv.perm, inv.keys, inv.member, inv.order, inv.nonempty⟩
/-- `unique*`: pairwise different keys, every input element's key is represented -/
theorem unique_law (keyOf : Val → R Val) (eq : Val → Val → R Bool) (xs : List Val) (gs : Groups)
    (h : groupR keyOf eq [] xs none = .ok gs) :
    (gs.map (·.1)).Pairwise (fun a b => eq a b = .ok false) ∧
    ∀ x, x ∈ xs → ∃ k, k ∈ gs.map (·.1) ∧ HasKey keyOf eq k x := P2.LibSpec.unique_law keyOf eq xs gs h

/-- C07.b10 `join sep (split s sep) = s` (non-empty separator); an empty separator splits into the
code points; `replace(old, old)` is the identity -/
theorem join_split (s sep : List Char) (hsep : sep ≠ []) : joinL sep (splitS s sep) = s :=
  P2.LibSpec.join_split s sep hsep
theorem concat_split_empty (s : List Char) : (splitS s []).flatten = s := P2.LibSpec.concat_split_empty s
theorem replace_self (s old : List Char) (h : old ≠ []) : replaceS s old old = s := P2.LibSpec.replace_self s old h

/-! ## (c) misuse is an error -/

theorem misuse_is_error_callback_shape (ap : Apply) (k : Nat) (s : Str) (v init : Val) :
    (NotFn v 1 →
      lAccept ap s [v] = .err ∧ lMap ap s [v] = .err ∧ lMinMax ap s [v] = .err ∧ lReplaceList ap s [v] = .err ∧
      lIndexWhere ap s [v] = .err ∧ lPresent ap s [v] = .err ∧ lGroupByString ap k s [v] = .err ∧
      lGroupByInt ap k s [v] = .err ∧ lGroupByEqual ap k s [v] = .err ∧ lUniqueString ap k s [v] = .err ∧
      lUniqueInt ap k s [v] = .err ∧ lOrder ap false s [v] = .err ∧ lOrder ap true s [v] = .err ∧
      lMovingWindow ap s [v] = .err ∧ lMovingWindowRemove ap s [v] = .err) ∧
    (NotFn v 2 →
      lReduce ap s [v] = .err ∧ lCombine ap s [v] = .err ∧ lCompact ap s [v] = .err ∧
      lOrderLess ap s [v] = .err ∧ lFsm ap s [v] = .err ∧ lNumber ap s [v] = .err ∧
      lMapReduce ap s [init, v] = .err) ∧
    (NotFn v 3 → lCombine3 ap s [v] = .err) :=
  ⟨misuse_fn1 ap k s v, fun h => let m := misuse_fn2 ap s v h
    ⟨m.1, m.2.1, m.2.2.1, m.2.2.2.1, m.2.2.2.2.1, m.2.2.2.2.2, misuse_mapReduce ap s init v h⟩,
   misuse_combine3 ap s v⟩

theorem misuse_is_error_two_callbacks (ap : Apply) (k : Nat) (s : Str) (a b : Val) :
    (NotFn a 1 ∨ NotFn b 2 → lIir ap s [a, b] = .err) ∧
    (NotFn a 1 ∨ NotFn b 3 → lIirCombine ap s [a, b] = .err) ∧
    (NotFn b 2 → lCross ap k s [a, b] = .err ∧ lMerge ap k s [a, b] = .err) ∧
    (NotList a → lCross ap k s [a, b] = .err ∧ lMerge ap k s [a, b] = .err) ∧
    (NotInt a → lCombineN ap s [a, b] = .err) ∧
    (∀ i, a = .int i → NotFn b 1 → lCombineN ap s [a, b] = .err) ∧
    (∀ i, a = .int i → i < 1 → lCombineN ap s [a, b] = .err) :=
  ⟨(misuse_iir ap s a b).1, (misuse_iir ap s a b).2, (misuse_cross_merge ap k s a b).1,
   (misuse_cross_merge ap k s a b).2, (misuse_combineN ap s a b).1, (misuse_combineN ap s a b).2.1,
   (misuse_combineN ap s a b).2.2⟩

theorem misuse_is_error_numeric (s : Str) (n x : Val) (xs : List Val) (i : Int) :
    (NotInt n → lTop s [n] = .err ∧ lSkip s [n] = .err ∧ lSet s [n, x] = .err) ∧
    (i < 0 ∨ xs.length ≤ i → lSet (.ofList xs) [.int i, x] = .err) :=
  ⟨misuse_index s n x, misuse_set_range xs i x⟩

theorem misuse_is_error_empty (ap : Apply) (k : Nat) (f : Val) :
    lReduce ap .nil [f] = .err ∧ lSum ap k .nil [] = .err ∧ lMean ap k .nil [] = .err ∧
    lMin .nil [] = .err ∧ lMax .nil [] = .err ∧ lFirst .nil [] = .err ∧ lLast .nil [] = .err ∧
    lSingle .nil [] = .err := misuse_empty ap k f

theorem misuse_is_error_callback_result (ap : Apply) (k : Nat) (f x y v : Val) (xs : List Val) (t : Option Stop)
    (hv : NotBool v) :
    (ap f [x] = .ok v →
      acceptS ap f ⟨x :: xs, t⟩ = .fail .err ∧ presentS ap f ⟨x :: xs, t⟩ = .err ∧
      indexWhereS ap f ⟨x :: xs, t⟩ = .err ∧ sizeS (acceptS ap f ⟨x :: xs, t⟩) = .err) ∧
    (ap f [x, y] = .ok v → (compactS ap f ⟨x :: y :: xs, t⟩).stop = some .err) ∧
    (ap f [x, y] = .ok v → mergeS ap f ⟨x :: xs, t⟩ ⟨y :: xs, t⟩ = .fail .err) ∧
    (ap f [y, x] = .ok v → orderLessS ap f (.ofList [x, y]) = .err) ∧
    (ap f [listV [x, y]] = .ok v → movingWindowRemoveS ap f (.ofList (x :: y :: xs)) = .err) ∧
    (∀ w, NotInt w → ap f [x] = .ok w → groupByIntS ap k f ⟨x :: xs, t⟩ = .err) ∧
    (∀ w, NotNum w → ap f [x] = .ok w → movingWindowS ap f (.ofList (x :: xs)) = .err) :=
  ⟨fun hx => let m := misuse_pred_result ap f x v xs t hx hv
      ⟨m.1, m.2.1, m.2.2, misuse_accept_size ap f x v xs t hx hv⟩,
   fun hx => misuse_compact_result ap f x y v xs t hx hv,
   fun hx => misuse_merge_result ap f x y v xs xs t t hx hv,
   fun hx => misuse_orderLess_result ap f x y v hx hv,
   fun hx => misuse_movingWindowRemove_result ap f x y v xs hx hv,
   fun w hw hx => misuse_groupByInt_result ap k f x w xs t hx hw,
   fun w hw hx => misuse_movingWindow_result ap f x w xs hx hw⟩

/-- a failing callback: the error is the outcome of every consumer that needs the element -/
theorem misuse_is_error_callback_fails (ap : Apply) (f x : Val) (xs : List Val) (t : Option Stop)
    (hx : ap f [x] = .err) :
    mapS ap f ⟨x :: xs, t⟩ = .fail .err ∧ sizeS (mapS ap f ⟨x :: xs, t⟩) = .err ∧
    reduceS ap f (mapS ap f ⟨x :: xs, t⟩) = .err := misuse_callback_error ap f x xs t hx

theorem misuse_is_error_maps (ap : Apply) (kvs : KVs) (a v : Val) :
    (NotString a → mGetS kvs [a] = .err ∧ mPutS kvs [a, v] = .err ∧ mIsAvailS kvs [a] = .err) ∧
    (∀ key, a = .str key → mapGet kvs key = none → mGetS kvs [a] = .err) ∧
    (∀ key, a = .str key → (mapGet kvs key).isSome → mPutS kvs [a, v] = .err) ∧
    (NotFn a 2 → mMapS ap kvs [a] = .err ∧ mAcceptS ap kvs [a] = .err) ∧
    (NotFn a 1 → mReplaceS ap kvs [a] = .err ∧ mReplaceMapS ap kvs [a] = .err) ∧
    (NotFn v 2 → mCombineS ap kvs [a, v] = .err) ∧
    (NotMap a → mCombineS ap kvs [a, v] = .err) := misuse_map_methods ap kvs a v

theorem misuse_is_error_strings (cs : List Char) (a b : Val) :
    (NotString a → sContains cs [a] = .err ∧ sIndexOf cs [a] = .err ∧ sSplit cs [a] = .err ∧
      sReplace cs [a, b] = .err ∧ sReplace cs [b, a] = .err) ∧
    (NotInt a → sCut cs [a, b] = .err ∧ sCut cs [b, a] = .err) ∧
    (atoiS cs = none → sToInt cs [] = .err) := misuse_string_methods cs a b

theorem misuse_is_error_statics (v w : Val) :
    (NotNum v → fFloat [v] = .err ∧ fInt [v] = .err ∧ fAbs [v] = .err ∧ fSign [v] = .err ∧ fSqr [v] = .err ∧
      fRound [v] = .err ∧ fSqrt [v] = .err ∧ fFloor [v] = .err ∧ fCeil [v] = .err ∧ fTrunc [v] = .err) ∧
    (NotInt v → fNumbers [v] = .err ∧ fGoto [v] = .err ∧ fBinAnd [v, w] = .err ∧ fBinOr [v, w] = .err ∧
      fBinAnd [w, v] = .err ∧ fBinOr [w, v] = .err) ∧
    fThrow [v] = .err := misuse_statics v w

/-- `min()`/`max()` without arguments, and of incomparable values -/
theorem misuse_is_error_minmax (v w : Val) :
    fMin [] = .err ∧ fMax [] = .err ∧
    (valLess w v = .err → valLess v w = .err → fMin [v, w] = .err ∧ fMax [v, w] = .err) :=
  ⟨rfl, rfl, misuse_minmax v w⟩

/-- the dispatcher routes each name to its method (so the statements above are about what the
`SPEC` request evaluates) -/
theorem dispatch_examples (ap : Apply) (k : Nat) (s : Str) (kvs : KVs) (str : String) (args : List Val) :
    listMethod ap k "map" s args = some (lMap ap s args) ∧
    listMethod ap k "reduce" s args = some (lReduce ap s args) ∧
    listMethod ap k "combineN" s args = some (lCombineN ap s args) ∧
    listMethod ap k "orderRev" s args = some (lOrder ap true s args) ∧
    listMethod ap k "visit" s args = some (lMapReduce ap s args) ∧
    mapMethod ap k "combine" kvs args = some (mCombineS ap kvs args) ∧
    stringMethod "cut" str args = some (sCut str.toList args) ∧
    staticFn ap k "abs" args = some (fAbs args) :=
  ⟨rfl, rfl, rfl, rfl, rfl, rfl, rfl, rfl⟩


/-! ## (d) second part of the specification (`Spec/LibSpecExt.lean`): `behind`, `behindList`,
`multiUse`, `linearReg`, `createInterpolation`, `bisection`, `createLowPass`

The numeric functions are stated over an arbitrary carrier `F` with operations `N : Num F` (the
driver runs them on IEEE doubles, `floatNum`); hypotheses about `N` are named where a statement
needs them (none of them holds for ALL doubles: NaN is not `≤` itself, `(a+b)/2` can overflow).

Stated, not proved (goals for a later round):
* `interpolate N pts x_i = ok y_i` at an INTERIOR node, for strictly increasing nodes over an
  ordered field (`a − a = 0`, `0 / d = 0`, `d · 0 = 0`, `y + 0 = y`): `interpolate_first/last`
  below cover the end nodes, `bsearch_bracket` + `interpolate_inside` reduce the interior case to
  those four arithmetic laws;
* the program text of the returned functions (`interpClos`, `lineFuncClos`) evaluates, in the
  reference semantics, to `interpolate floatNum` / `a·x + b` (today: tied by the differential run);
* `regAB` of exactly collinear points over an exact field is the line through them (needs ring
  normalisation; the harness checks the integer instance on the implementation). -/

/-- C07.d1 `behind`: the text is cut at the FIRST occurrence of the prefix — `s = before ++ pre ++ r`
with no occurrence starting inside `before` — and `afterFirst` fails exactly when `contains` does -/
theorem behind_cuts_at_first (pre s r : List Char) (h : afterFirst pre s = some r) :
    ∃ before, s = before ++ pre ++ r ∧ ∀ k, k < before.length → pre.isPrefixOf (s.drop k) = false :=
  afterFirst_some pre s r h
theorem behind_absent_iff (pre s : List Char) : afterFirst pre s = none ↔ infixOf pre s = false :=
  afterFirst_none_iff pre s
/-- the first line that contains the prefix decides; no such line: the empty string -/
theorem behind_first_line (pre r ln : List Char) (l1 l2 : List (List Char))
    (hn : ∀ l, l ∈ l1 → afterFirst pre l = none) (h : afterFirst pre ln = some r) :
    behindLines pre (l1 ++ ln :: l2) = trimS r := behindLines_first pre r ln l2 l1 hn h
theorem behind_no_line (pre : List Char) (ls : List (List Char)) (hn : ∀ l, l ∈ ls → afterFirst pre l = none) :
    behindLines pre ls = [] := behindLines_none pre ls hn
/-- the lines `behind` looks at are the lines of the text -/
theorem behind_lines_are_the_text (s : List Char) : joinL nl (splitS s nl) = s :=
  P2.LibSpec.join_split s nl (by decide)

/-- C07.d2 `behindList`: exactly the lines between the key line and the next empty line -/
theorem behindList_spec (k : List Char) (pre items rest : List (List Char)) (hp : ∀ l, l ∈ pre → l ≠ k)
    (hi : ∀ i, i ∈ items → i ≠ []) (hr : rest = [] ∨ rest.head? = some []) :
    behindListOf (pre ++ k :: (items ++ rest)) k = items := behindListOf_spec k items rest hi hr pre hp
theorem behindList_absent (k : List Char) (ls : List (List Char)) (hp : ∀ l, l ∈ ls → l ≠ k) :
    behindListOf ls k = [] := behindListOf_absent k ls hp

/-- C07.d3 `multiUse_spec`: the result map has the keys of the consumer map in the same order, and
under each key the (deep-evaluated) result of that consumer applied to the list — all consumers
see the same element sequence `l`; any failing consumer (which includes every consumer that reaches
a failure of the source) makes the whole call fail -/
theorem multiUse_spec (ap : Apply) (k : Nat) (l : LList) (kvs rs : KVs) :
    multiUseS ap k l kvs = .ok rs ↔
      Forall2 (fun kv r => r.1 = kv.1 ∧ consumerResult ap k l kv.2 = .ok r.2) kvs rs :=
  multiUseS_ok_iff ap k l kvs rs
theorem multiUse_error (ap : Apply) (k : Nat) (l : LList) (kvs : KVs) (kv : String × Val) (hm : kv ∈ kvs)
    (hf : ∀ v, consumerResult ap k l kv.2 ≠ .ok v) : ∀ rs, multiUseS ap k l kvs ≠ .ok rs :=
  multiUseS_fails ap k l kvs kv hm hf
theorem misuse_is_error_multiUse (ap : Apply) (k : Nat) (s : Str) (a : Val) (kvs : KVs) :
    (NotMap a → lMultiUse ap k s [a] = .err) ∧
    lMultiUse ap k s [.map []] = .err ∧
    ((∃ kv, kv ∈ kvs ∧ NotFn kv.2 1) → lMultiUse ap k s [.map kvs] = .err) := misuse_multiUse ap k s a kvs

/-- C07.d4 `bisection`: an `ok` answer is a point at which the function is below `eps`; the loop
gives up (error) after `bisectBound = 1001` midpoints; the answer lies in the bracket for every
carrier in which a midpoint lies between its ends -/
theorem bisection_result_small {F : Type} (N : Num F) (f : F → R F) (a b eps r : F)
    (h : bisect N f a b eps = .ok r) : ∃ y, f r = .ok y ∧ N.lt (N.abs y) eps = true :=
  bisect_ok_small N f a b eps r h
theorem bisection_bounded {F : Type} (N : Num F) (f : F → R F) (eps a ya b : F) :
    bisectLoop N f eps 0 a ya b = .err ∧ bisectBound = 1001 := ⟨rfl, rfl⟩
theorem bisection_in_bracket {F : Type} (N : Num F) (f : F → R F) (eps : F)
    (hmid : ∀ a b, N.le a b = true → N.le a (N.div (N.add a b) (N.ofNat 2)) = true ∧ N.le (N.div (N.add a b) (N.ofNat 2)) b = true)
    (htrans : ∀ a b c, N.le a b = true → N.le b c = true → N.le a c = true)
    (n : Nat) (a ya b r : F) (hab : N.le a b = true) (h : bisectLoop N f eps n a ya b = .ok r) :
    N.le a r = true ∧ N.le r b = true := bisectLoop_in_bracket N f eps hmid htrans n a ya b r hab h

/-- C07.d5 `createInterpolation`: at or outside the end nodes the end values (exactly `y₀` AT the
first node when `≤` is reflexive); inside, the search ends at two NEIGHBOURING nodes that bracket
`x`, and the value is the straight line through exactly these two -/
theorem interpolation_ends {F : Type} (N : Num F) (p0 pl : F × F) (rest : List (F × F)) (x : F)
    (hl : (p0 :: rest).getLast? = some pl) :
    (N.le x p0.1 = true → interpolate N (p0 :: rest) x = .ok p0.2) ∧
    (N.le x p0.1 = false → N.le pl.1 x = true → interpolate N (p0 :: rest) x = .ok pl.2) ∧
    ((∀ a, N.le a a = true) → interpolate N (p0 :: rest) p0.1 = .ok p0.2) :=
  ⟨interpolate_first N p0 rest x, interpolate_last N p0 pl rest x hl,
   fun h => interpolate_first N p0 rest p0.1 (h _)⟩
theorem interpolation_neighbours {F : Type} (N : Num F) (xs : List F) (x : F) (fuel n0 n1 m0 m1 : Nat)
    (h : bsearch N xs x fuel n0 n1 = .ok (m0, m1)) (hlt : n0 < n1)
    (h0 : ∀ a, xs[n0]? = some a → N.lt x a = false) (h1 : ∀ b, xs[n1]? = some b → N.lt x b = true) :
    m1 = m0 + 1 ∧ (∀ a, xs[m0]? = some a → N.lt x a = false) ∧ (∀ b, xs[m1]? = some b → N.lt x b = true) :=
  bsearch_bracket N xs x fuel n0 n1 m0 m1 h hlt h0 h1
theorem interpolation_inside {F : Type} (N : Num F) (p0 pl a b : F × F) (rest : List (F × F)) (x : F) (m0 m1 : Nat)
    (hl : (p0 :: rest).getLast? = some pl) (h0 : N.le x p0.1 = false) (h : N.le pl.1 x = false)
    (hs : bsearch N ((p0 :: rest).map (·.1)) x ((p0 :: rest).length + 1) 0 ((p0 :: rest).length - 1) = .ok (m0, m1))
    (ha : (p0 :: rest)[m0]? = some a) (hb : (p0 :: rest)[m1]? = some b) :
    interpolate N (p0 :: rest) x = .ok (lineAt N a b x) :=
  interpolate_inside N p0 pl a b rest x m0 m1 hl h0 h hs ha hb

/-- C07.d6 `linearReg`: the sums are a left fold in list order (what makes the bit patterns
comparable), `n` is the number of points -/
theorem linearReg_sums {F : Type} (N : Num F) (pts : List (F × F)) (p : F × F) :
    regSums N (pts ++ [p]) = regStep N (regSums N pts) p ∧ (regSums N pts).n = pts.length :=
  ⟨regSums_snoc N pts p, regSums_count N pts⟩

/-- C07.d7 misuse of the numeric built-ins and of `behind*` is an error -/
theorem misuse_is_error_numeric2 (ap : Apply) (s : Str) (f g a b : Val) (rest : List Val) :
    (NotFn f 1 ∨ NotFn g 1 → lLinearReg ap s [f, g] = .err ∧ lCreateInterpolation ap s [f, g] = .err) ∧
    (NotFn f 1 → fBisection ap (f :: a :: b :: rest) = .err) ∧
    (NotNum a ∨ NotNum b → fBisection ap (f :: a :: b :: rest) = .err) ∧
    (rest.length > 1 → fBisection ap (f :: a :: b :: rest) = .err) ∧
    fBisection ap [f, a] = .err ∧
    (NotString f → fCreateLowPass [f, g, a, b] = .err) ∧
    (NotFn g 1 ∨ NotFn a 1 ∨ NotNum b → ∀ n, fCreateLowPass [.str n, g, a, b] = .err) :=
  misuse_numeric ap s f g a b rest
theorem misuse_is_error_behind (cs : List Char) (a : Val) (h : NotString a) :
    sBehind cs [a] = .err ∧ sBehindList cs [a] = .err := misuse_behind cs a h

/-- the extended dispatchers route the new names (and fall back to the first part) -/
theorem dispatch_examples2 (ap : Apply) (k : Nat) (s : Str) (str : String) (args : List Val) :
    methodX ap k "behind" (.val (.str str)) args = some (sBehind str.toList args) ∧
    methodX ap k "multiUse" (.str s) args = some (lMultiUse ap k s args) ∧
    methodX ap k "createInterpolation" (.str s) args = some (lCreateInterpolation ap s args) ∧
    methodX ap k "map" (.str s) args = some (lMap ap s args) ∧
    staticFnX ap k "bisection" args = some (fBisection ap args) ∧
    staticFnX ap k "abs" args = some (fAbs args) :=
  ⟨rfl, rfl, rfl, rfl, rfl, rfl⟩

/-! non-vacuity of (d) -/
example : afterFirst "b:".toList "a b: 2 b: 3".toList = some " 2 b: 3".toList := by decide
example : behindS "a: 1\nb:  2 \nb: 3".toList "b:".toList = "2".toList := by decide
example : behindS "abc".toList "z".toList = [] ∧ behindS "abab".toList [] = "abab".toList := by decide
example : behindListS "pre\n h \n a \nb\n\nrest".toList "h".toList = ["a".toList, "b".toList] := by decide
/-- an exact carrier for the examples: integers with truncating division -/
def intNum : Num Int := ⟨(· + ·), (· - ·), (· * ·), (· / ·), fun a b => a < b, fun a b => a ≤ b, fun a => a.natAbs, fun n => n⟩
example : interpolate intNum [(0, 10), (10, 30), (20, 0)] 0 = .ok 10 ∧ interpolate intNum [(0, 10), (10, 30), (20, 0)] 10 = .ok 30 ∧
    interpolate intNum [(0, 10), (10, 30), (20, 0)] 25 = .ok 0 ∧ interpolate intNum [] 1 = .err := ⟨rfl, rfl, rfl, rfl⟩
example : bsearch intNum [0, 10, 20, 30] 15 5 0 3 = .ok (1, 2) := rfl
example : ∀ a b : Int, intNum.le a b = true → intNum.le a (intNum.div (intNum.add a b) (intNum.ofNat 2)) = true ∧
    intNum.le (intNum.div (intNum.add a b) (intNum.ofNat 2)) b = true := by
  intro a b h; simp [intNum] at h ⊢; omega
example : bisect intNum (fun x => .ok (x - 7)) 0 16 1 = .ok 7 := rfl
example : regAB intNum (regSums intNum [(0, 2), (1, 5), (2, 8), (3, 11), (4, 14)]) = (3, 2) := by decide
example : (consumerUses (.sclos ["q"] (.method (.method (.ident "q") "map" [.ident "f"]) "sum" []) [] false "")) = some 1 ∧
    (consumerUses (.sclos ["q"] (.const (.int 1)) [] false "")) = some 0 ∧
    (consumerUses (.sclos ["q"] (.binop "+" (.method (.ident "q") "sum" []) (.method (.ident "q") "size" [])) [] false "")) = some 2 ∧
    (consumerUses (.sclos ["q"] (.letE "w" (.ident "q") (.ident "w")) [] false "")) = none := by decide

/-! ## non-vacuity: the hypotheses above have non-trivial instances -/

/-- a synthetic callback application: unary closures double, binary ones subtract / compare -/
def apDemo : Apply := fun f args =>
  match f.closArity, args with
  | some 1, [.int x] => .ok (.int (2 * x))
  | some 2, [.int x, .int y] => .ok (.bool (x < y))
  | _, _ => .err

def fn1 : Val := .sclos ["e"] (.ident "e") [] false ""
def fn2 : Val := .sclos ["x", "y"] (.ident "x") [] false ""

def ints : List Val → List Int
  | [] => []
  | .int i :: r => i :: ints r
  | _ :: r => ints r

def vals (l : List Int) : List Val := l.map Val.int

example : NotFn (.int 1) 1 ∧ NotFn fn1 2 ∧ NotFn fn2 1 ∧ ¬ NotFn fn1 1 := by
  unfold NotFn; decide
example : NotInt (.str "2") ∧ NotBool (.int 1) ∧ NotString (.int 1) ∧ NotList (.int 1) ∧ NotMap (.int 1) :=
  ⟨fun _ h => (by cases h), fun _ h => (by cases h), fun _ h => (by cases h), fun _ h => (by cases h),
   fun _ h => (by cases h)⟩
example : NotNum (.str "x") := rfl
example : ints (mapS apDemo fn1 (.ofList (vals [1, 2, 3]))).items = [2, 4, 6] := by decide
example : (mapS apDemo fn1 (.ofList (vals [1, 2, 3]))).stop = none := by decide
example : NoFuel (drain apDemo 10 (.items (vals [1, 2, 3]))) := by unfold NoFuel; decide
example : ints (drain apDemo 10 (.map fn1 (.accept fn2 (.items (vals [1, 2, 3]))))).items = [] := by decide
example : ints (drain apDemo 10 (.map fn1 (.skip 1 (.items (vals [1, 2, 3]))))).items = [4, 6] := by decide
example : ints (mergeS apDemo fn2 (.ofList (vals [1, 4, 6])) (.ofList (vals [2, 3, 7]))).items = [1, 2, 3, 4, 6, 7] := by decide
example : ints (combineNS apDemo 2 fn1 (.ofList (vals [1, 2, 3]))).items = [] ∧
    (windows 2 (vals [1, 2, 3])).map ints = [[1, 2], [2, 3]] := by decide
example : splitS "a,b,,c".toList ",".toList = ["a".toList, "b".toList, [], "c".toList] := by decide
example : replaceS "abc".toList [] "-".toList = "-a-b-c-".toList := by decide
example : cutS "héllo".toList 1 2 = "él".toList ∧ cutS "abc".toList 5 1 = [] ∧ cutS "abc".toList 1 0 = "bc".toList := by decide
example : indexOfL "l".toList "héllo".toList 0 = 3 := by decide
example : InInt64 (-9223372036854775808) := by unfold InInt64; decide

/-! ## behaviours of the pinned commit that violate the property (witnesses on faithful models) -/

/-- B7, pinned `CombineN` + `List.CombineN`: the callback is handed the iterator's ring buffer
itself (slot `j` holds the newest element whose position is ≡ `j` mod `n`), not a window in element
order. `ringWindows` is what a callback that reads its argument at once (`w -> w.string()`) sees. -/
def ringStep (n : Nat) : (List Val × Nat × Nat) → List Val → List (List Val)
  | _, [] => []
  | (buf, pos, present), x :: xs =>
    let buf' := buf.set pos x
    let pos' := if pos + 1 = n then 0 else pos + 1
    let present' := if present < n then present + 1 else present
    if present' = n then buf' :: ringStep n (buf', pos', present') xs
    else ringStep n (buf', pos', present') xs
def ringWindows (n : Nat) (xs : List Val) : List (List Val) :=
  ringStep n (List.replicate n (.int 0), 0, 0) xs

/-- `numbers(5).combineN(3, w -> w.string())` at the pinned commit: `[0,1,2], [3,1,2], [3,4,2]` -/
theorem pinned_combineN_rotated :
    (ringWindows 3 (vals [0, 1, 2, 3, 4])).map ints = [[0, 1, 2], [3, 1, 2], [3, 4, 2]] := by decide
/-- the documented model (and the repaired code): `[0,1,2], [1,2,3], [2,3,4]` -/
theorem spec_combineN_windows :
    (windows 3 (vals [0, 1, 2, 3, 4])).map ints = [[0, 1, 2], [1, 2, 3], [2, 3, 4]] := by decide
theorem pinned_combineN_witness :
    (ringWindows 3 (vals [0, 1, 2, 3, 4])).map ints ≠ (windows 3 (vals [0, 1, 2, 3, 4])).map ints := by decide

/-- B7, pinned `String.Cut`: when nothing is left at `pos` (and the first loop did not run) the
second loop decodes the empty string once and writes `utf8.RuneError` -/
def cutPinned (s : List Char) (p n : Int) : List Char :=
  let r := s.drop p.toNat
  if r.isEmpty ∧ p ≤ 0 then [Char.ofNat 0xFFFD] else if n ≤ 0 then r else r.take n.toNat

theorem pinned_cut_witness : cutPinned [] 0 1 = [Char.ofNat 0xFFFD] ∧ cutS [] 0 1 = [] := by decide

/-- pinned `OrderLess`: `SortableLess` has value receivers, the error registered in `Less` is lost
and the result is `ok`; the spec (and the repaired code) answer `err` when the callback fails -/
theorem spec_orderLess_error (ap : Apply) (f x y : Val) (h : ap f [y, x] = .err) :
    orderLessS ap f (.ofList [x, y]) = .err := by
  simp [orderLessS, Str.ofList, Str.all, isortR, insertR, h, toBoolR]

/-- pinned `IIrApply`: the error of a missing `filter` entry was dropped (and the nil function
panicked when the list was consumed); the spec (and the repaired code) answer `err` at the call -/
theorem spec_iirApply_missing_filter (ap : Apply) (s : Str) (i : Val) :
    lIirApply ap s [.map [("initial", i)]] = .err := by
  simp [lIirApply, mapGet]

end P2.C07
