import P2.Proofs.XmlShape
/-! # C18 — XML and HTML export are well-formed and data can never inject markup

Property theorems only. Models: `P2.Xml.W` (xmlWriter), `P2.Xml.xmlExport` (xml.go + export.go),
`P2.Xml.htmlExport` (ToHtml of html.go, custom == nil, without table formats). Reference decoder:
`P2.Xml.tokens` / `tokensDoc` with `wellFormed` / `wellFormedDoc` (`P2/Spec/XmlDec.lean`, stricter than
XML 1.0, with line-end and attribute-value normalisation). Specification of the expected token stream:
`P2.Xml.layout` over element forests (`P2/Spec/XmlDoc.lean`): the exact strings plus the pretty printer's
`\n`/`\t` at positions that depend on the structure only.

The models are parametric in the two per-character escape tables, which `tie extract` regenerates from the
real writer for **every** Unicode scalar value on every run (`P2/Generated/XmlEsc.lean`), and in the rule
that decides which map keys may become attribute names. `P2/Oblig/XmlEsc.lean` discharges the table
criteria by `decide` and instantiates the theorems; `P2/Oblig/XmlSites.lean` checks the regenerated list of
all `Open`/`Attr` call sites (literal names are XML names known to the model; the only data-dependent name
is the guarded site of the simple-map form). -/
namespace P2.C18
open P2.Xml
open P2.Json (EscTable escOf)

/-- C18.1 `writer_faithful`, call-sequence form. For every escape-table pair satisfying the decidable
criteria, every writer state `w` in step with a token-level state `s`, and **every** call sequence that
follows the protocol (`TS.run … = some …`: balanced prefix, `Attr` only directly after `Open`, no repeated
attribute name, names with `isXmlName`, strings of legal XML characters, no raw HTML): the writer does not
panic, and the bytes `x` it appends take the reference decoder from the mode of `s` to the mode of `s'`
emitting exactly the tokens `o` of the token-level writer — start tags with the very attribute strings
passed, the very characters of every text — and `o` is balanced relative to the open elements. -/
theorem writer_faithful (Tt Ta : EscTable) (ht : TextTableOK Tt = true) (ha : AttrTableOK Ta = true)
    (pp av : Bool) (w : W) (s s' : TS) (o : List Tok) (calls : List Call)
    (hsim : Sim pp av w s) (hinv : s.Inv) (hn : NInv s) (hrun : TS.run pp av s calls = some (s', o)) :
    ∃ w' x, W.run (escOf Tt) (escOf Ta) w calls = .ok w' ∧ w'.out = w.out ++ x ∧
      feed (modeOf s) x = some (modeOf s', o) ∧ balance o (opened s) = some (opened s') ∧
      Sim pp av w' s' := by
  obtain ⟨w', hw', ⟨hs', _, x, hx, hg⟩, _, hb⟩ :=
    run_sim (textEscOK_of_table Tt ht) (attrEscOK_of_table Ta ha) calls hsim hinv hn hrun
  exact ⟨w', x, hw', hx, hg, hb, hs'⟩

/-- C18.1 `writer_faithful`, forest form: a fresh writer (any flags, any bytes already in the buffer) run
over the calls of **any** forest whose names are XML names, attribute names unique per element and strings
legal does not panic; the appended bytes decode to exactly `layout` of that forest and are well-formed
content. -/
theorem writer_faithful_forest (Tt Ta : EscTable) (ht : TextTableOK Tt = true) (ha : AttrTableOK Ta = true)
    (w : W) (hw : w.stack = [] ∧ w.depth = -1 ∧ w.inLine = false ∧ w.tagIsOpen = false)
    (ns : List Node) (hns : nodesOK ns = true) :
    ∃ w' x, W.run (escOf Tt) (escOf Ta) w (flattenL ns) = .ok w' ∧ w'.out = w.out ++ x ∧
      tokens x = some (layout w.prettyPrint ns) ∧ wellFormed (layout w.prettyPrint ns) = true :=
  forest_faithful (textEscOK_of_table Tt ht) (attrEscOK_of_table Ta ha) w hw ns hns

/-- how a text that is the only child of an element is laid out: between the start tag and the end tag
there is exactly the string, nothing else (this is the form of every scalar in the XML export) -/
theorem sole_text_exact (pp : Bool) (d : Int) (il : Bool) (n : List Char) (as : Attrs) (s : List Char) :
    (layNode pp d il (.elem n as [.text s])).1 =
      (if il then nlT pp else []) ++ (indT pp (d + 1) ++ (.start n as :: (chrs s ++ (.stop n :: nlT pp)))) := by
  simp [layNode, layNodes]

/-- C18.2 `xml_export_safe`. For every escape-table pair satisfying the criteria, every key rule that only
accepts XML names, and **every** value tree (any depth and width, all wrappers) whose strings and keys are
legal XML characters and whose maps have distinct keys: the exporter does not fail, the reference decoder
accepts the document, and it decodes to exactly the pretty-printed layout of the forest `xmlNodes` — lists
as `<list>` of `<entry>`s in order, maps as `<map>` of `<entry key=…>`s (keys sorted as `Export` sorts them,
exactly as given) or as attributes, every scalar its exact text — which is balanced with valid names and
unique attributes. -/
theorem xml_export_safe (Tt Ta : EscTable) (ht : TextTableOK Tt = true) (ha : AttrTableOK Ta = true)
    (keyOK : List Char → Bool) (hkey : ∀ k, keyOK k = true → isXmlName k = true)
    (v : V) (hl : legalV v = true) (hd : distinctV v = true) :
    ∃ out, xmlExport (escOf Tt) (escOf Ta) keyOK v = .ok out ∧
      tokensDoc out = some (.chr '\n' :: layout true (xmlNodes keyOK (sortV v))) ∧
      wellFormed (.chr '\n' :: layout true (xmlNodes keyOK (sortV v))) = true := by
  have hok := xmlNodes_ok keyOK hkey (sortV v) (by rw [legalV_sortV]; exact hl) (by rw [distinctV_sortV]; exact hd)
  obtain ⟨w', x, hrun, hout, htok, hwf⟩ :=
    writer_faithful_forest Tt Ta ht ha xmlW0 ⟨rfl, rfl, rfl, rfl⟩ _ hok
  rw [← xmlCalls_eq] at hrun
  have e : xmlW0.prettyPrint = true := rfl
  rw [e] at htok hwf
  refine ⟨w'.out, by simp [xmlExport, hrun], ?_, ?_⟩
  · rw [hout]
    simp only [tokensDoc, xmlW0, skipDecl_prolog, Option.bind_some]
    exact tokens_nl x _ htok
  · simpa [wellFormed, balance] using hwf

/-- C18.2, document level: for a list or map (also behind `Format`/`Link`) the export is a well-formed
*document*: exactly one root element, only white space around it. -/
theorem xml_export_document (Tt Ta : EscTable) (ht : TextTableOK Tt = true) (ha : AttrTableOK Ta = true)
    (keyOK : List Char → Bool) (hkey : ∀ k, keyOK k = true → isXmlName k = true)
    (v : V) (hl : legalV v = true) (hd : distinctV v = true) (hc : isContainerV v = true) :
    ∃ out toks, xmlExport (escOf Tt) (escOf Ta) keyOK v = .ok out ∧ tokensDoc out = some toks ∧
      wellFormedDoc toks = true := by
  obtain ⟨out, h1, h2, h3⟩ := xml_export_safe Tt Ta ht ha keyOK hkey v hl hd
  refine ⟨out, _, h1, h2, ?_⟩
  obtain ⟨n, as, kids, hroot⟩ := xmlNodes_root keyOK (sortV v) (by rw [isContainerV_sortV]; exact hc)
  simp only [wellFormedDoc, h3, Bool.true_and]
  rw [hroot]
  simp [rootCount, isSpace, rootCount_single]

/- C18.3 `no_injection`, full statement: for the XML exporter **and** for `ToHtml` the element/attribute
structure of the output is a function of the value's shape only. Proved: generically for forests
(`no_injection_forest`: texts and attribute values never reach the skeleton) and for the XML exporter as a
function of `xshape` (`no_injection`). Missing for `ToHtml`: the shape function — there the statement is
only the forest-level one composed with `html_export_safe_partial` (the skeleton consists of the literal
names of the forest the exporter's calls flatten; which forest it is depends on the value through the
model `htmlV`, e.g. on the link rule `http://…` of strings, the cut-off, styles present or not). -/

/-- C18.3 `no_injection`, generic: whatever the texts and attribute values of a forest are, the
element/attribute skeleton of the decoded output consists of the forest's names only. -/
theorem no_injection_forest (pp : Bool) (ns : List Node) : skeleton (layout pp ns) = skelNodes ns :=
  skeleton_layNodes pp ns (-1) false

/-- C18.3 `no_injection` for the XML exporter: the skeleton of the decoded document is a function of the
shape of the value (`xshape`: list lengths, nesting, which maps are in attribute form with their
rule-approved keys). Hence two values of equal shape — whatever their strings, other keys, link targets,
style strings and file names — give documents with equal skeletons. -/
theorem no_injection (Tt Ta : EscTable) (ht : TextTableOK Tt = true) (ha : AttrTableOK Ta = true)
    (keyOK : List Char → Bool) (hkey : ∀ k, keyOK k = true → isXmlName k = true)
    (v1 v2 : V) (hl1 : legalV v1 = true) (hd1 : distinctV v1 = true) (hl2 : legalV v2 = true)
    (hd2 : distinctV v2 = true) (hshape : xshape keyOK (sortV v1) = xshape keyOK (sortV v2)) :
    ∃ out1 out2 t1 t2, xmlExport (escOf Tt) (escOf Ta) keyOK v1 = .ok out1 ∧
      xmlExport (escOf Tt) (escOf Ta) keyOK v2 = .ok out2 ∧ tokensDoc out1 = some t1 ∧ tokensDoc out2 = some t2 ∧
      skeleton t1 = skelShape (xshape keyOK (sortV v1)) ∧ skeleton t1 = skeleton t2 := by
  obtain ⟨o1, a1, b1, _⟩ := xml_export_safe Tt Ta ht ha keyOK hkey v1 hl1 hd1
  obtain ⟨o2, a2, b2, _⟩ := xml_export_safe Tt Ta ht ha keyOK hkey v2 hl2 hd2
  refine ⟨o1, o2, _, _, a1, a2, b1, b2, ?_, ?_⟩
  · simp [skeleton, no_injection_forest, skel_xmlNodes]
  · simp [skeleton, no_injection_forest, skel_xmlNodes, hshape]

/- C18.2 `html_export_safe`, full statement (DESIGN §C18): for **every** value — including table formats
(style-map entry `table` with per-row/column/cell formats and closures of one or three arguments), values
outside `V` (`nil`, closures as data, `ToHtmlInterface` implementors), lazy lists whose elements fail, and
`FormatedFloat.MathMl` — the call sequence of `toHtml` satisfies the premises of `writer_faithful`, so that
the output decodes to the forest the shape dictates, with every string exactly as passed.

Proved below (`html_export_safe_partial`) for the modelled fragment of `ToHtml` with `custom == nil`: strings
with the link rule, floats, lists as simple lists and as tables with the `maxListSize` cut-off, `plainList`,
maps, `Format` with string / map / one-argument-closure styles, `Cell`, `ColSpan`, inline and class styles,
`Link`, `File`. Missing: table formats, `nil`, failing lazy elements, MathML — these are covered by the
predicate of the correspondence harness only (tie/c18.go: `hexp.html`, `formatCell`). `custom` producers
write raw markup by design (`WriteHTML`, type `template.HTML`) and are outside the property. -/

/-- C18.2 `html_export_safe` for the modelled fragment: for every value with legal strings either the
exporter itself reports an error (a style closure on the way fails) — the writer never does — or the output
decodes to exactly the layout of a forest satisfying the protocol whose flattening is the exporter's call
sequence (so every text and attribute value is the very string the exporter passed), and is well-formed
content. -/
theorem html_export_safe_partial (Tt Ta : EscTable) (ht : TextTableOK Tt = true) (ha : AttrTableOK Ta = true)
    (maxListSize : Nat) (inlineStyle : Bool) (v : V) (hl : legalV v = true) :
    (htmlCallsOf maxListSize inlineStyle v = .err ∧
        htmlExport (escOf Tt) (escOf Ta) maxListSize inlineStyle v = .err) ∨
    ∃ out classes ns, htmlExport (escOf Tt) (escOf Ta) maxListSize inlineStyle v = .ok (out, classes) ∧
      htmlCallsOf maxListSize inlineStyle v = .ok (flattenL ns, classes) ∧ nodesOK ns = true ∧
      tokens out = some (layout true ns) ∧ wellFormed (layout true ns) = true := by
  have hlv : legalV (sortV v) = true := by rw [legalV_sortV]; exact hl
  -- from a flat call sequence to the result
  have fin : ∀ (cs : List Call) (classes : List (List Char)), IsFlat cs →
      htmlCallsOf maxListSize inlineStyle v = .ok (cs, classes) →
      ∃ out classes ns, htmlExport (escOf Tt) (escOf Ta) maxListSize inlineStyle v = .ok (out, classes) ∧
        htmlCallsOf maxListSize inlineStyle v = .ok (flattenL ns, classes) ∧ nodesOK ns = true ∧
        tokens out = some (layout true ns) ∧ wellFormed (layout true ns) = true := by
    intro cs classes hflat hcalls
    obtain ⟨ns, hns, rfl⟩ := hflat
    obtain ⟨w', x, hrun, hout, htok, hwf⟩ :=
      writer_faithful_forest Tt Ta ht ha htmlW0 ⟨rfl, rfl, rfl, rfl⟩ ns hns
    refine ⟨w'.out, classes, ns, by simp [htmlExport, hcalls, hrun], hcalls, hns, ?_, hwf⟩
    rw [hout]
    simpa [htmlW0] using htok
  cases hinl : inlineStyle with
  | true =>
    have h1 := htmlV_flat { maxListSize := maxListSize, inlineStyle := true, className := id } (Or.inl rfl)
      (sortV v) .none hlv rfl
    cases hv : htmlV { maxListSize := maxListSize, inlineStyle := true, className := id } (sortV v) .none with
    | ok cs =>
      rw [hv] at h1
      exact Or.inr (hinl ▸ fin cs [] h1 (by simp [htmlCallsOf, hinl, hv]))
    | err => exact Or.inl ⟨by simp [htmlCallsOf, hv], by simp [htmlExport, htmlCallsOf, hv]⟩
    | panic => rw [hv] at h1; exact absurd h1 id
    | fuel => rw [hv] at h1; exact absurd h1 id
  | false =>
    cases hv : htmlV { maxListSize := maxListSize, inlineStyle := false, className := id } (sortV v) .none with
    | ok cs0 =>
      have h2 := htmlV_flat
        { maxListSize := maxListSize, inlineStyle := false, className := classNameIn (classesOf cs0 []) }
        (Or.inr (classNameIn_legal _)) (sortV v) .none hlv rfl
      cases hv2 : htmlV { maxListSize := maxListSize, inlineStyle := false, className := classNameIn (classesOf cs0 []) } (sortV v) .none with
      | ok cs =>
        rw [hv2] at h2
        exact Or.inr (hinl ▸ fin cs (classesOf cs0 []) h2 (by simp [htmlCallsOf, hinl, hv, hv2]))
      | err => exact Or.inl ⟨by simp [htmlCallsOf, hv, hv2], by simp [htmlExport, htmlCallsOf, hv, hv2]⟩
      | panic => rw [hv2] at h2; exact absurd h2 id
      | fuel => rw [hv2] at h2; exact absurd h2 id
    | err => exact Or.inl ⟨by simp [htmlCallsOf, hv], by simp [htmlExport, htmlCallsOf, hv]⟩
    | panic =>
      have := htmlV_okErr { maxListSize := maxListSize, inlineStyle := false, className := id } (sortV v) .none
      rw [hv] at this; exact absurd this id
    | fuel =>
      have := htmlV_okErr { maxListSize := maxListSize, inlineStyle := false, className := id } (sortV v) .none
      rw [hv] at this; exact absurd this id

/-! ### C18.4 `toHtml_reports_errors`

Full statement: failing elements and failing closures give an error, panics are contained. The model has no
failing list elements (lazy producers are outside `V`), so the theorems below speak about failing style
closures and about panics; failing elements and failing table-format closures are checked by the predicate
of the harness. -/

/-- a panic inside `ToHtml` is contained (the `recover`): the result is never a panic -/
theorem toHtml_no_panic (et ea : Char → List Char) (maxListSize : Nat) (inlineStyle : Bool) (v : V) :
    htmlExport et ea maxListSize inlineStyle v ≠ .panic := by
  unfold htmlExport
  split
  · split <;> simp
  all_goals simp

/-- a style closure that fails where `toHtml` applies it is the error of `toHtml` … -/
theorem toHtml_failing_closure (cfg : HCfg) (cell : Bool) (span : Nat) (v : V) (sty : Sty) :
    htmlV cfg (.fmtCl none cell span v) sty = .err := by
  simp [htmlV, htmlOpt]

/-- … errors are never swallowed on the way up … -/
theorem toHtml_error_on_the_way (cs : List Call) (b : Res (List Call)) :
    seq .err b = .err ∧ seq (.ok cs) .err = .err ∧ pre cs .err = .err := by
  simp [seq, pre]

/-- … and an error of `toHtml` is the error of `ToHtml` (no partial output). -/
theorem toHtml_reports_errors (et ea : Char → List Char) (maxListSize : Nat) (inlineStyle : Bool) (v : V)
    (h : htmlV { maxListSize := maxListSize, inlineStyle := inlineStyle, className := id } (sortV v) .none = .err) :
    htmlExport et ea maxListSize inlineStyle v = .err := by
  simp [htmlExport, htmlCallsOf, h]

/-! ### non-vacuity and pinned witnesses -/

/-- the escape tables of the repaired writer -/
def fixedTextEsc : EscTable :=
  [('"', ['&', 'q', 'u', 'o', 't', ';']), ('&', ['&', 'a', 'm', 'p', ';']), ('\'', ['&', 'a', 'p', 'o', 's', ';']),
   ('<', ['&', 'l', 't', ';']), ('>', ['&', 'g', 't', ';']), ('\r', ['&', '#', 'x', 'D', ';'])]
def fixedAttrEsc : EscTable :=
  fixedTextEsc ++ [('\t', ['&', '#', 'x', '9', ';']), ('\n', ['&', '#', 'x', 'A', ';'])]
example : TextTableOK fixedTextEsc = true := by decide
example : AttrTableOK fixedAttrEsc = true := by decide
example : ∀ k, attrKeyOK k = true → isXmlName k = true := attrKeyOK_isXmlName

/-- a value with markup in strings, keys, link target and style -/
def sampleV : V :=
  .arr [.str ['<', 'a', '>', '&', ']', ']', '>', '\r', '\n'],
        .obj [(['a', '=', '"', '1', '"', ' ', 'b'], .str ['q']), (['k'], .arr [])],
        .obj [(['a'], .str ['A', '\t']), (['b'], .link ['"', '>'] (.str ['B']))],
        .fmt (.str ['x', '"']) false 2 (.str [' ', 'h', 't', 't', 'p', ':', '/', '/'])]
example : legalV sampleV = true ∧ distinctV sampleV = true ∧ isContainerV sampleV = true := by decide

/-- the escape table of the pinned commit (only the five predefined entities, for text and attributes) -/
def pinnedEsc : EscTable :=
  [('"', ['&', 'q', 'u', 'o', 't', ';']), ('&', ['&', 'a', 'm', 'p', ';']), ('\'', ['&', 'a', 'p', 'o', 's', ';']),
   ('<', ['&', 'l', 't', ';']), ('>', ['&', 'g', 't', ';'])]

theorem pinned_tables_not_ok : TextTableOK pinnedEsc = false ∧ AttrTableOK pinnedEsc = false := by decide

/-- did the export decode to the specified layout? -/
def decodesToSpec (et ea : Char → List Char) (keyOK : List Char → Bool) (v : V) : Bool :=
  match xmlExport et ea keyOK v with
  | .ok out => tokensDoc out == some (.chr '\n' :: layout true (xmlNodes keyOK (sortV v)))
  | _ => false

set_option maxRecDepth 100000 in
/-- B18 (ii) at the pinned commit: `["x\ry"]` does not decode to its text (CR comes back as LF);
repaired by writing `&#xD;` -/
theorem pinned_cr_witness :
    decodesToSpec (escOf pinnedEsc) (escOf pinnedEsc) attrKeyOK (.arr [.str ['x', '\r', 'y']]) = false ∧
    decodesToSpec (escOf fixedTextEsc) (escOf fixedAttrEsc) attrKeyOK (.arr [.str ['x', '\r', 'y']]) = true := by
  decide

set_option maxRecDepth 100000 in
/-- B18 (ii), attribute values: `{k:"a\tb"}` comes back as `a b`; repaired by `&#x9;` -/
theorem pinned_attr_whitespace_witness :
    decodesToSpec (escOf pinnedEsc) (escOf pinnedEsc) attrKeyOK (.obj [(['k'], .str ['a', '\t', 'b'])]) = false ∧
    decodesToSpec (escOf fixedTextEsc) (escOf fixedAttrEsc) attrKeyOK (.obj [(['k'], .str ['a', '\t', 'b'])]) = true := by
  decide

/-- skeleton of the decoded export, `none` if the decoder rejects it -/
def decodedSkeleton (et ea : Char → List Char) (keyOK : List Char → Bool) (v : V) :
    Option (List (Bool × List Char × List (List Char))) :=
  match xmlExport et ea keyOK v with
  | .ok out => (tokensDoc out).map skeleton
  | _ => none

set_option maxRecDepth 100000 in
/-- B18 (i) at the pinned commit (every key of a simple map becomes an attribute name): the one entry
`{'a="1" b':"q"}` yields the **two** attributes `a` and `b` — data injected markup. Under the repaired rule
the map is written in the `<entry key=…>` form. -/
theorem pinned_key_injection_witness :
    (decodedSkeleton (escOf fixedTextEsc) (escOf fixedAttrEsc) anyKeyOK
        (.obj [(['a', '=', '"', '1', '"', ' ', 'b'], .str ['q'])]) ==
      some [(true, tMap, [['a'], ['b']]), (false, tMap, [])]) = true ∧
    (decodedSkeleton (escOf fixedTextEsc) (escOf fixedAttrEsc) attrKeyOK
        (.obj [(['a', '=', '"', '1', '"', ' ', 'b'], .str ['q'])]) ==
      some [(true, tMap, []), (true, tEntry, [tKey]), (false, tEntry, []), (false, tMap, [])]) = true := by
  decide

set_option maxRecDepth 100000 in
/-- B18 (i): with a blank in the key the pinned commit's output is not well-formed at all -/
theorem pinned_key_not_wellformed_witness :
    (decodedSkeleton (escOf fixedTextEsc) (escOf fixedAttrEsc) anyKeyOK (.obj [(['a', ' ', 'b'], .str ['q'])])).isSome = false ∧
    (decodedSkeleton (escOf fixedTextEsc) (escOf fixedAttrEsc) attrKeyOK (.obj [(['a', ' ', 'b'], .str ['q'])])).isSome = true := by
  decide

/-- `ToHtml`: a failing style closure applied to a list inside a cell is reported as an error -/
theorem toHtml_error_witness :
    htmlExport (escOf fixedTextEsc) (escOf fixedAttrEsc) 10 true
      (.arr [.str ['a'], .fmtCl none false 0 (.arr [.str ['b']])]) = .err := by
  apply toHtml_reports_errors
  simp [htmlV, htmlSimpleRows, htmlTD, htmlOpt, sortV, sortVs, sortVOpt, listKind, isArr, hasPlain, pre, seq,
    toStyleStr, htmlString, isPrefix]

end P2.C18
