import P2.Proofs.ParseRound
import P2.Proofs.ParseSound
import P2.Proofs.ParseSoundFull
import P2.Proofs.ParseSoundKw
import P2.Proofs.ParseNoPanic
import P2.Proofs.ParseMono
import P2.Proofs.ParseFuel
import P2.Proofs.OpDetect
import P2.Proofs.ParseBalanced
import P2.Proofs.ParseKeywords
/-! # C03 — Operator priority, associativity and grouping for any operator table

Property theorems only. The model is `P2.Parse.parse` (`P2/Model/Parse.lean`: a transliteration of
`Parser.Parse`, `parseLet`, `parseExpression`, `parseOp`/`nextParserCall`, `parseUnary`,
`parseNonOperator`, `parseLiteral`, `parseArgs`, `parseMap`, `parseIdentList` on the token stream), generic
in the operator table `t` and the identifier scope `σ`; the reference is the renderer
`P2.Parse.render` (`P2/Spec/Render.lean`) with minimal parentheses plus a decoration `ρ` of redundant
parentheses and trailing commas. `t.pinned = false` is the code as it is now (B3 repaired by the `fix:`
commit e62d38e), `t.pinned = true` the behaviour of the pinned commit, kept for the witnesses below;
`TableWF` includes `pinned = false`.

What the statements say, in the words of the property:
* `parse_render` — for every table, every tree over it and every parenthesisation (minimal, redundant,
  full) the AST is the tree: operands are grouped by declared priority, equal priority associates to the
  left, explicit parentheses are honoured, postfix forms bind tightest, a prefix operator that is also
  binary takes the maximal operand built from strictly higher levels, a pure prefix operator takes the
  postfix expression — all of that is *defined* by `render` (where it puts parentheses) and *proved* by
  the round trip; it covers every form of the language (postfix forms with argument lists and trailing
  commas, `let/func/if/switch/try`, closures, list and map literals).
* `parse_sound` — what is accepted is a rendering of what is returned (nothing truncated, dropped or
  regrouped) — for **every form of the language** (`if/try/switch`, `let/func` included) under the side
  condition `NoConstLet` (no `let` binds a constant: the parser substitutes such bindings and drops the
  `let`, `let_const_not_a_rendering`); with `parse_render` an *iff*: the parser accepts **exactly** the
  renderings (`parse_iff`). `parse_sound_noletfunc` / `parse_iff_noletfunc`: no side condition at all for
  token lists without the keywords `let`/`func`.
* `parse_no_panic`, `parse_total` — no table and no input reaches a Go panic; the answer is a tree that
  consumed all tokens, or an error.
* `detector_longest` — maximal munch of the operator trie under its side condition. -/
namespace P2.C03
open P2.Parse

/-! ## C03.1 round trip -/

/-- **C03.1** `parse_render`: ∀ table, scope, tree (all forms), decoration: the parser — run with its
concrete fuel — returns exactly the tree on every rendering of it and consumes all tokens. -/
theorem parse_render {t : Table} (hwf : TableWF t) (σ : Scope) (e : E) (ρ : Deco) (hw : WF t σ true e) :
    parse t σ (render t ρ 0 .none e) = .ok e [] := by
  obtain ⟨f0, hf0⟩ := P2.Parse.parse_render_ev hwf σ e ρ hw
  have hne := parse_fuel_enough t σ (render t ρ 0 .none e)
  unfold parse at hne ⊢
  rw [← parseTop_mono t _ f0 σ _ hne]
  exact hf0 _ (by omega)

/-- the three renderings of the property's quantifier are instances -/
theorem parse_render_min {t : Table} (hwf : TableWF t) (σ : Scope) (e : E) (hw : WF t σ true e) :
    parse t σ (renderMin t e) = .ok e [] := parse_render hwf σ e Deco.min hw
theorem parse_render_full {t : Table} (hwf : TableWF t) (σ : Scope) (e : E) (hw : WF t σ true e) :
    parse t σ (renderFull t e) = .ok e [] := parse_render hwf σ e Deco.full hw

/-- the same for all sufficiently large fuel (what the structural proof establishes directly) -/
theorem parse_render_ev {t : Table} (hwf : TableWF t) (σ : Scope) (e : E) (ρ : Deco) (hw : WF t σ true e) :
    ∃ f0, ∀ f, f0 ≤ f → parseTop t f σ (render t ρ 0 .none e) = .ok e [] :=
  P2.Parse.parse_render_ev hwf σ e ρ hw

/-! ### non-vacuity -/

def tbl : Table := { ops := ["+", "-", "*", "^"], unary := ["-", "!"] }
def σ0 : Scope := [("a", .var), ("b", .var), ("f", .func), ("pi", .cst (.cst "pi"))]

example : TableWF tbl := ⟨by decide, by decide, by decide, rfl⟩

/-- `let x = a * -b ^ pi; if x then [f(x), !x,].m else (p, q) -> {k: p - q - x}` -/
def sample : E :=
  .letE "x" (.bin "*" (.ident "a") (.un "-" (.bin "^" (.ident "b") (.cst "pi"))))
    (.ite (.ident "x")
      (.member (.list [.call (.ident "f") [.ident "x"], .un "!" (.ident "x")]) "m")
      (.clos ["p", "q"] (.map [("k", .bin "-" (.bin "-" (.ident "p") (.ident "q")) (.ident "x"))])))

example : WF tbl σ0 true sample := by
  simp [sample, WF, WFs, WFm, tbl, σ0, E.isConst, lookup, varsOf, isVarOrFunc, isCstOf, Table.pos, posOf]

/-- `-a * b` with `-` below `*`: the prefix operator takes `a * b`; `(-a) * b` needs the parentheses -/
example : renderMin tbl (.bin "*" (.un "-" (.ident "a")) (.ident "b"))
    = [.lp, .op "-", .ident "a", .rp, .op "*", .ident "b"] := by decide
example : parse tbl σ0 [.op "-", .ident "a", .op "*", .ident "b"]
    = .ok (.un "-" (.bin "*" (.ident "a") (.ident "b"))) [] := by rfl
/-- left associativity and priority on a concrete input -/
example : parse tbl σ0 [.ident "a", .op "-", .ident "b", .op "-", .ident "a", .op "*", .ident "b"]
    = .ok (.bin "-" (.bin "-" (.ident "a") (.ident "b")) (.bin "*" (.ident "a") (.ident "b"))) [] := by rfl

/-! ## C03.2 soundness (accepted ⇒ a rendering of the result) -/

/- Full statement as first written:
   `TableWF t → HostScope σ → parse t σ ts = .ok e [] → ∃ ρ, ts = render t ρ 0 .none e`.
   It is FALSE as it stands (`let_const_not_a_rendering`): `parseLet` substitutes a `let` that binds a
   constant (`let x = 1; x` gives the tree `1`) and drops the `let`, so the returned tree is then not a
   rendering of the input. It is proved below, for every form of the language — binary and prefix
   operators, call, index, member access, method call, argument lists with trailing commas, list and map
   literals, both closure forms, any parentheses, `if/then/else`, `try/catch` (the catch part is any
   expression, in particular a closure `e -> …`), `switch/case/default`, `let`, `func` — under the side
   condition that excludes exactly that branch:

   `NoConstLet cs ts` (decidable, on the token list): no position of `ts` starts with
   `let x = (…( c )…) ;` where `c` is a number token, a string token or an identifier of `cs`;
   `cs = constNames σ` are the names the host scope maps to constants. (`tie/c03.go`,
   `c3LetConstSuspect`, is the same scan, negated, with a larger name set: the harness' pool of constant
   names plus every `let`-bound name of the token list.)
   The predicate is syntactic and therefore slightly conservative: it also excludes a `let` whose value
   is an identifier of `cs` that is shadowed at that position by a parameter or a `let` variable of the same
   name (there the parser does not substitute). Nothing else is missing: `func` never substitutes in the
   model (no optimizer is installed, see `Model/Parse.lean`), and token lists without `let`/`func`
   (`NoLetFunc`) satisfy the condition trivially, so for them soundness holds outright
   (`parse_sound_noletfunc`). `HostScope σ` says that the scope the host passes in maps constant names
   to host constants (no `let`-bound constant is in scope at the start). -/

/-- **C03.2 soundness, every form**: if no `let` binds a constant (`NoConstLet`), whatever is accepted is
a rendering of the returned tree with some choice of redundant parentheses and trailing commas — nothing
is truncated, dropped or regrouped — and the result is well-formed over the table and the scope. -/
theorem parse_sound {t : Table} (hwf : TableWF t) {σ : Scope} (hσ : HostScope σ) (ts : List Tok) (e : E)
    (hk : NoConstLet (constNames σ) ts = true) (h : parse t σ ts = .ok e []) :
    ∃ ρ : Deco, ts = render t ρ 0 .none e ∧ WF t σ true e :=
  parseTop_sound hwf (scopeOK_of_host hσ) _ ts e hk h

/-- **C03.1 + C03.2**: under the side condition the parser accepts **exactly** the renderings of
well-formed trees — every form of the language -/
theorem parse_iff {t : Table} (hwf : TableWF t) {σ : Scope} (hσ : HostScope σ) (ts : List Tok) (e : E)
    (hk : NoConstLet (constNames σ) ts = true) :
    parse t σ ts = .ok e [] ↔ ∃ ρ : Deco, ts = render t ρ 0 .none e ∧ WF t σ true e := by
  constructor
  · exact fun h => parse_sound hwf hσ ts e hk h
  · rintro ⟨ρ, rfl, hw⟩
    exact parse_render hwf σ e ρ hw

/-- the same for any over-approximation `cs` of the constant names in scope -/
theorem parse_sound_names {t : Table} (hwf : TableWF t) {σ : Scope} (cs : List String) (hσ : ScopeOK cs σ)
    (ts : List Tok) (e : E) (hk : NoConstLet cs ts = true) (h : parse t σ ts = .ok e []) :
    ∃ ρ : Deco, ts = render t ρ 0 .none e ∧ WF t σ true e :=
  parseTop_sound hwf hσ _ ts e hk h

/-- soundness without side condition on the program when the keywords `let`/`func` do not occur:
operators, postfix forms, literals, closures, `if/then/else`, `try/catch`, `switch/case/default` -/
theorem parse_sound_noletfunc {t : Table} (hwf : TableWF t) {σ : Scope} (hσ : HostScope σ) (ts : List Tok) (e : E)
    (hk : NoLetFunc ts = true) (h : parse t σ ts = .ok e []) :
    ∃ ρ : Deco, ts = render t ρ 0 .none e ∧ WF t σ true e :=
  parse_sound hwf hσ ts e (adm_of_noLetFunc _ ts hk) h

theorem parse_iff_noletfunc {t : Table} (hwf : TableWF t) {σ : Scope} (hσ : HostScope σ) (ts : List Tok) (e : E)
    (hk : NoLetFunc ts = true) :
    parse t σ ts = .ok e [] ↔ ∃ ρ : Deco, ts = render t ρ 0 .none e ∧ WF t σ true e :=
  parse_iff hwf hσ ts e (adm_of_noLetFunc _ ts hk)

/-- the side condition is needed: `let x = 1; x` is accepted, the `let` is dropped and `1` is returned,
which no decoration renders as the input -/
theorem let_const_not_a_rendering :
    parse tbl σ0 [.kw "let", .ident "x", .op "=", .num "1", .semi, .ident "x"] = .ok (.num "1") [] ∧
    (∀ ρ : Deco, [.kw "let", .ident "x", .op "=", .num "1", .semi, .ident "x"] ≠ render tbl ρ 0 .none (.num "1")) ∧
    NoConstLet (constNames σ0) [.kw "let", .ident "x", .op "=", .num "1", .semi, .ident "x"] = false := by
  refine ⟨by rfl, fun ρ h => ?_, by decide⟩
  have hr : render tbl ρ 0 .none (.num "1") = parenN ρ.par [.num "1"] := by
    simp [render, wrap, nPar, E.isLet, needs, shape]
    split <;> simp_all [parenN]
  rw [hr] at h
  cases hp : ρ.par <;> simp [hp, parenN] at h

/-- the keyword-free special case (kept under its earlier name; subsumed by `parse_sound`) -/
theorem parse_sound_partial {t : Table} (hwf : TableWF t) {σ : Scope} (hσ : HostScope σ) (ts : List Tok) (e : E)
    (hk : NoKw ts) (h : parse t σ ts = .ok e []) :
    ∃ ρ : Deco, ts = render t ρ 0 .none e ∧ WF t σ true e :=
  parseTop_sound_nokw hwf hσ _ ts e hk h

/-- with C03.1: on keyword-free token lists the parser accepts **exactly** the renderings -/
theorem parse_iff_nokw {t : Table} (hwf : TableWF t) {σ : Scope} (hσ : HostScope σ) (ts : List Tok) (e : E)
    (hk : NoKw ts) :
    parse t σ ts = .ok e [] ↔ ∃ ρ : Deco, ts = render t ρ 0 .none e ∧ WF t σ true e := by
  constructor
  · exact fun h => parse_sound_partial hwf hσ ts e hk h
  · rintro ⟨ρ, rfl, hw⟩
    exact parse_render hwf σ e ρ hw

/-- soundness at every level of the precedence climb and with a remainder, every form: the parse at level
`k` consumed exactly a rendering for that level (followed by what the remainder starts with) and stopped
only where level `k` cannot continue -/
theorem level_sound {t : Table} (hwf : TableWF t) {σ : Scope} (hσ : HostScope σ) (f k : Nat)
    (ts : List Tok) (e : E) (r : List Tok) (hk : k ≤ t.n + 1) (ha : NoConstLet (constNames σ) ts = true)
    (h : entry t f σ k ts = .ok e r) :
    ∃ ρ : Deco, ts = render t ρ k (followOf t r) e ++ r ∧ WF t σ false e ∧ StopLt t k r :=
  entry_sound hwf (scopeOK_of_host hσ) f k ts e r hk ha h

/-- the operator core alone, under the weaker condition that the input does not *start* with a keyword
and the result is built from identifiers, constants, binary and prefix operators -/
theorem parse_sound_core {t : Table} (hwf : TableWF t) {σ : Scope} (hσ : HostScope σ) (ts : List Tok) (e : E)
    (hkw : ∀ s tl, ts ≠ .kw s :: tl) (h : parse t σ ts = .ok e []) (hc : CoreE e) :
    ∃ ρ : Deco, ts = render t ρ 0 .none e ∧ WF t σ true e :=
  parseTop_sound_core hwf hσ _ ts e hkw h hc

/-- the same at every level of the precedence climb and with a remainder: the parse at level `k`
consumed exactly a rendering for that level and stopped only where level `k` cannot continue -/
theorem level_sound_core {t : Table} (hwf : TableWF t) {σ : Scope} (hσ : HostScope σ) (f k : Nat)
    (ts : List Tok) (e : E) (r : List Tok) (hk : k ≤ t.n + 1) (h : entry t f σ k ts = .ok e r) (hc : CoreE e) :
    ∃ ρ : Deco, ts = render t ρ k (followOf t r) e ++ r ∧ WF t σ false e ∧ StopLt t k r :=
  entry_sound_core hwf hσ f k ts e r hk h hc

example : NoKw [.ident "f", .lp, .ident "a", .comma, .rp, .dot, .ident "m"] := by
  intro s h; simp at h

example : HostScope σ0 := by
  intro s e h
  simp only [σ0, lookup] at h
  repeat' split at h
  all_goals simp_all

/-! non-vacuity of `parse_sound` / `parse_sound_noletfunc`: for each keyword form a token list that is
accepted and satisfies the hypotheses -/

example : constNames σ0 = ["pi"] := by decide

/-- `if a then b else f(a)` -/
example : NoLetFunc [.kw "if", .ident "a", .kw "then", .ident "b", .kw "else", .ident "f", .lp, .ident "a", .rp]
    = true := by decide
example : parse tbl σ0 [.kw "if", .ident "a", .kw "then", .ident "b", .kw "else", .ident "f", .lp, .ident "a", .rp]
    = .ok (.ite (.ident "a") (.ident "b") (.call (.ident "f") [.ident "a"])) [] := by rfl

/-- `try a catch b` and `try a catch e -> e + b` (both catch forms) -/
example : NoLetFunc [.kw "try", .ident "a", .kw "catch", .ident "b"] = true := by decide
example : parse tbl σ0 [.kw "try", .ident "a", .kw "catch", .ident "b"]
    = .ok (.tryC (.ident "a") (.ident "b")) [] := by rfl
example : NoLetFunc [.kw "try", .ident "a", .kw "catch", .ident "e", .op "->", .ident "e", .op "+", .ident "b"]
    = true := by decide
example : parse tbl σ0 [.kw "try", .ident "a", .kw "catch", .ident "e", .op "->", .ident "e", .op "+", .ident "b"]
    = .ok (.tryC (.ident "a") (.clos ["e"] (.bin "+" (.ident "e") (.ident "b")))) [] := by rfl

/-- `switch a case 1: b case pi: (a) default -a` -/
example : NoLetFunc [.kw "switch", .ident "a", .kw "case", .num "1", .colon, .ident "b", .kw "case", .ident "pi",
    .colon, .lp, .ident "a", .rp, .kw "default", .op "-", .ident "a"] = true := by decide
example : parse tbl σ0 [.kw "switch", .ident "a", .kw "case", .num "1", .colon, .ident "b", .kw "case", .ident "pi",
    .colon, .lp, .ident "a", .rp, .kw "default", .op "-", .ident "a"]
    = .ok (.switch (.ident "a") [(.num "1", .ident "b"), (.cst "pi", .ident "a")] (.un "-" (.ident "a"))) [] := by rfl

/-- `let x = a * pi; if x then x else 1` — the value is not a constant, the `let` stays -/
example : NoConstLet (constNames σ0) [.kw "let", .ident "x", .op "=", .ident "a", .op "*", .ident "pi", .semi,
    .kw "if", .ident "x", .kw "then", .ident "x", .kw "else", .num "1"] = true := by decide
example : parse tbl σ0 [.kw "let", .ident "x", .op "=", .ident "a", .op "*", .ident "pi", .semi,
    .kw "if", .ident "x", .kw "then", .ident "x", .kw "else", .num "1"]
    = .ok (.letE "x" (.bin "*" (.ident "a") (.cst "pi")) (.ite (.ident "x") (.ident "x") (.num "1"))) [] := by rfl

/-- `let x = (a); x` — a parenthesised variable is not a constant -/
example : NoConstLet (constNames σ0) [.kw "let", .ident "x", .op "=", .lp, .ident "a", .rp, .semi, .ident "x"]
    = true := by decide

/-- `func g(p, q) p + q; g(a, 1)` -/
example : NoConstLet (constNames σ0) [.kw "func", .ident "g", .lp, .ident "p", .comma, .ident "q", .rp,
    .ident "p", .op "+", .ident "q", .semi, .ident "g", .lp, .ident "a", .comma, .num "1", .rp] = true := by decide
example : parse tbl σ0 [.kw "func", .ident "g", .lp, .ident "p", .comma, .ident "q", .rp,
    .ident "p", .op "+", .ident "q", .semi, .ident "g", .lp, .ident "a", .comma, .num "1", .rp]
    = .ok (.funcE "g" ["p", "q"] (.bin "+" (.ident "p") (.ident "q")) (.call (.ident "g") [.ident "a", .num "1"])) [] := by
  rfl

/-- the forbidden pattern: number, string, host constant, in any parentheses -/
example : NoConstLet (constNames σ0) [.kw "let", .ident "x", .op "=", .lp, .lp, .ident "pi", .rp, .rp, .semi, .ident "x"]
    = false := by decide
example : NoConstLet (constNames σ0) [.ident "f", .lp, .kw "let", .ident "x", .op "=", .str "s", .semi, .ident "x", .rp]
    = false := by decide

/-- malformed inputs over `tbl`: unbalanced bracket, missing operand, trailing token — errors -/
example : parse tbl σ0 [.lp, .ident "a", .op "+", .ident "b"] = .err := by rfl
example : parse tbl σ0 [.ident "a", .op "+", .op "*", .ident "b"] = .err := by rfl
example : parse tbl σ0 [.ident "a", .op "+", .ident "b", .rp] = .err := by rfl
example : parse tbl σ0 [.ident "a", .ident "b"] = .err := by rfl
example : parse tbl σ0 [.kw "if", .ident "a", .kw "then", .ident "b"] = .err := by rfl

/-! ### malformed input, all forms: unbalanced brackets are rejected -/

/-- every accepted program — any table (pinned or repaired), any scope, **all forms** of the language —
has as many `(` as `)`, `[` as `]`, `{` as `}` -/
theorem parse_balanced (t : Table) (σ : Scope) (ts : List Tok) (e : E) (h : parse t σ ts = .ok e []) :
    dP ts = 0 ∧ dB ts = 0 ∧ dC ts = 0 :=
  parseTop_balanced t _ σ ts e h

/-- hence no single-token insertion of a bracket into an accepted program is accepted … -/
theorem bracket_insertion_rejected (t : Table) (σ : Scope) (l1 l2 : List Tok) (b : Tok) (hb : isBracket b = true)
    (e : E) (h : parse t σ (l1 ++ l2) = .ok e []) (e' : E) : parse t σ (l1 ++ b :: l2) ≠ .ok e' [] :=
  fun h' => not_both_accepted t _ _ σ σ l1 l2 b hb e e' h h'

/-- … and no single-token deletion of a bracket from an accepted program is accepted -/
theorem bracket_deletion_rejected (t : Table) (σ : Scope) (l1 l2 : List Tok) (b : Tok) (hb : isBracket b = true)
    (e : E) (h : parse t σ (l1 ++ b :: l2) = .ok e []) (e' : E) : parse t σ (l1 ++ l2) ≠ .ok e' [] :=
  fun h' => not_both_accepted t _ _ σ σ l1 l2 b hb e' e h' h

/-! ### malformed input, all forms: missing `then/else/catch/default` are rejected -/

/-- every accepted program (any table, any scope, all forms) has as many `then` as `if`, as many `else`
as `if`, as many `catch` as `try` and as many `default` as `switch` -/
theorem parse_keywords_paired (t : Table) (σ : Scope) (ts : List Tok) (e : E) (h : parse t σ ts = .ok e []) :
    dK "if" "then" ts = 0 ∧ dK "if" "else" ts = 0 ∧ dK "try" "catch" ts = 0 ∧ dK "switch" "default" ts = 0 :=
  parseTop_kw t _ σ ts e h

/-- hence deleting a single `then`, `else`, `catch` or `default` from an accepted program (or inserting
one) never gives an accepted program -/
theorem keyword_mutation_rejected (t : Table) (σ : Scope) (l1 l2 : List Tok) (s : String)
    (hs : s = "then" ∨ s = "else" ∨ s = "catch" ∨ s = "default") (e e' : E)
    (h1 : parse t σ (l1 ++ l2) = .ok e []) (h2 : parse t σ (l1 ++ .kw s :: l2) = .ok e' []) : False := by
  have a := parse_keywords_paired t σ _ e h1
  have b := parse_keywords_paired t σ _ e' h2
  simp only [dK_append, dK] at a b
  rcases hs with rfl | rfl | rfl | rfl <;> simp (config := { decide := true }) only [kwW, if_true, if_false] at b <;> omega

/-! ## C03.3 no panic, totality -/

/-- **C03.3** for the current code: no table, scope or token list reaches `p.operators[op]` out of range
(no hypothesis on the table at all: duplicates, empty operator list, prefix = highest binary included) -/
theorem parse_no_panic (t : Table) (hp : t.pinned = false) (σ : Scope) (ts : List Tok) :
    parse t σ ts ≠ .panic :=
  parseTop_ne_panic t (fun h => by simp [hp] at h) _ σ ts

/-- C03.3 at the pinned commit: under `PinnedOK` (at least one binary operator and no prefix operator
that is also the highest-priority binary operator) -/
theorem parse_no_panic_pinned (t : Table) (h : PinnedOK t) (σ : Scope) (ts : List Tok) :
    parse t σ ts ≠ .panic :=
  parseTop_ne_panic t (fun _ => h) _ σ ts

/-- the fuel of `parse` always suffices (C04.2 on this model) -/
theorem parse_fuel_enough (t : Table) (σ : Scope) (ts : List Tok) : parse t σ ts ≠ .fuel :=
  P2.Parse.parse_fuel_enough t σ ts

/-- every input is answered by a tree that consumed all tokens, or by an error — never a panic, never
a silently ignored rest -/
theorem parse_total (t : Table) (hp : t.pinned = false) (σ : Scope) (ts : List Tok) :
    (∃ e, parse t σ ts = .ok e []) ∨ parse t σ ts = .err := by
  have h1 := parse_no_panic t hp σ ts
  have h2 := parse_fuel_enough t σ ts
  unfold parse parseTop at *
  cases h : parseLet t (fuelFor t ts) σ ts with
  | ok e rest => cases rest <;> simp_all
  | err => simp_all
  | panic => simp_all
  | fuel => simp_all

/-- B3, pinned behaviour: `NewParser().Op("+","-").Unary("-")` on `-a` panics; so does a parser without
binary operators; the repaired code returns the tree -/
def tB3 : Table := { ops := ["+", "-"], unary := ["-"], pinned := true }
theorem pinned_unary_highest_panics :
    (parse tB3 [("a", .var)] [.op "-", .ident "a"]).isPanic = true := by decide
theorem pinned_no_binary_panics :
    (parse { ops := [], unary := [], pinned := true } [("a", .var)] [.ident "a"]).isPanic = true := by decide
theorem pinned_not_ok : ¬ PinnedOK tB3 := fun h => by
  have := h.un "-" (by decide) 1 (by decide)
  simp [tB3, Table.n] at this
theorem repaired_unary_highest_ok :
    parse { ops := ["+", "-"], unary := ["-"], pinned := false } [("a", .var)] [.op "-", .ident "a"] =
      .ok (.un "-" (.ident "a")) [] := by rfl
theorem repaired_no_binary_ok :
    parse { ops := [], unary := ["!"], pinned := false } [("a", .var), ("f", .func)]
        [.op "!", .ident "f", .lp, .ident "a", .rp] =
      .ok (.un "!" (.call (.ident "f") [.ident "a"])) [] := by rfl

/-! ## C03.4 operator detector -/

/-- **C03.4** `detector_longest`: if the input at the cursor starts with the operator `o` and no operator
of the table has `o` followed by the next input rune as a prefix, the scanner returns exactly `o` and
leaves the rest (maximal munch of `NewOperatorDetector`'s trie as walked by `parseOperator`) -/
theorem detector_longest (ops : List (List Char)) (o : List Char) (ho : o ∈ ops) (hne : o ≠ [])
    (rest : List Char) (hmax : ∀ o' ∈ ops, ¬ (o ++ [P2.OpDetect.nextRune rest]) <+: o') :
    P2.OpDetect.scanOp ops (o ++ rest) = (o, true, rest) :=
  P2.OpDetect.detector_longest ops o ho hne rest hmax

/-- a `true` answer always names an operator of the table -/
theorem detector_sound (ops : List (List Char)) (input op rest : List Char)
    (h : P2.OpDetect.scanOp ops input = (op, true, rest)) :
    op ∈ ops ∧ op ≠ [] ∧ ((rest ≠ [] ∨ ∀ o ∈ ops, P2.OpDetect.nul ∉ o) → input = op ++ rest) :=
  P2.OpDetect.detector_sound ops input op rest h

/-- the walk is greedy without backtracking: with `<` and `<=>` in the table, `<= ` is not scanned as
`<` — the side condition of `detector_longest` is needed -/
theorem detector_not_longest_witness :
    P2.OpDetect.scanOp ["<".toList, "<=>".toList] "<= ".toList = ("<=".toList, false, " ".toList) :=
  P2.OpDetect.detector_not_longest_witness

end P2.C03
