import P2.Proofs.HeapClosed
import P2.Proofs.HeapListMap
/-! # C09 — Lists and maps are persistent values: no operation changes an existing value

Model: `P2/Model/Heap.lean` (slices over shared backing arrays, list objects with `Eval`/`Append`
mutating the object, lazily derived lists reading the parent object when iterated, immutable map
storages, `ListMap.Append` with in-place overwrite).  All theorems hold for **every** growth policy
`cfg.grow` of the Go runtime (no assumption at all: the model raises a too small answer to the needed
length) and for every window order `cfg.rot`, and are generic in the facts `F` that `tie extract`
regenerates from `value/list.go`; `Oblig/HeapFacts.lean` instantiates them with today's facts.

Histories: `run F cfg St.init ops` for an arbitrary list `ops` of the 34 operations of `Op`
(no bound on length or on the number of handles). -/
namespace P2.C09
open P2.Heap

/-! ## 1–2. the ownership invariant and its preservation by every operation -/

/-- `Inv` (C09.1): (I1) every slice lies inside its backing array; (I2) a spare cell of a slice — a
cell the next `append` to it may write — is shown by **no** materialised list on that array; (I3) the
spare ranges of two list objects on one array are disjoint, i.e. at most one of them can grow in place.
(I2) is the clause "no index below the length of a live slice is written after the slice became
reachable": the only cells `append` writes are spare cells. -/
theorem inv_def (h : H) : Inv h ↔
    ((∀ i s, h.sl i = some s → s.arr < h.arrays.length ∧ s.len ≤ s.cap ∧
        s.off + s.cap ≤ (h.arrayOf s.arr).length) ∧
     (∀ i j s1 s2, h.sl i = some s1 → h.sl j = some s2 → s1.arr = s2.arr → ∀ p, spare s1 p → ¬ vis s2 p) ∧
     (∀ i j s1 s2, i ≠ j → h.sl i = some s1 → h.sl j = some s2 → s1.arr = s2.arr →
        ∀ p, spare s1 p → ¬ spare s2 p)) :=
  ⟨fun ⟨a, b, c⟩ => ⟨a, b, c⟩, fun ⟨a, b, c⟩ => ⟨a, b, c⟩⟩

/-- C09.2 for the micro operations: allocation, lazy derivation, `Eval`, both branches of `append`
followed by the cap line, capacity-capped sub-slices and new map storages keep the invariant and the
elements of every existing list — for every growth function. -/
theorem micro_inv (cfg : Cfg) (h : H) (m : Micro) (hs : m.safe = true) (hinv : Inv h) :
    Inv (micro cfg h m) ∧ Ext cfg.rot h (micro cfg h m) := micro_safe cfg h m hs hinv

/-- C09.2 `step_inv`: every operation of the language (append, set, reverse, order*, `+`, map, accept,
top, skip, eval, first, indexing, size, movingWindow*, combineN, groupBy*, the host idiom on `ToSlice`,
put, merge, replace, eval/map/accept/combine on maps, …) preserves `Inv`, for every growth function. -/
theorem step_inv {F : Facts} (hF : F.OK = true) (cfg : Cfg) (st : St) (op : Op) (hinv : Inv st.h) :
    Inv (step F cfg st op).h := (step_ok hF cfg st op hinv).1

/-- every state of every history satisfies the invariant -/
theorem run_inv {F : Facts} (hF : F.OK = true) (cfg : Cfg) (ops : List Op) :
    Inv (run F cfg St.init ops).h := (run_ok hF cfg ops St.init inv_init).1

/-! ## 3. no observation of an existing handle ever changes -/

/-- C09.3 at the level of elements: in every history, at every later point, every list object that
exists yields the same elements in the same order (the same scalars and the *same* nested list and map
objects), hence the same size. No hypothesis on the history. -/
theorem elems_stable {F : Facts} (hF : F.OK = true) (cfg : Cfg) (ops1 ops2 : List Op) (o : Nat)
    (ho : o < (run F cfg St.init ops1).h.objs.length) :
    elems cfg.rot (run F cfg (run F cfg St.init ops1) ops2).h o =
      elems cfg.rot (run F cfg St.init ops1).h o :=
  (run_ok hF cfg ops2 _ (run_inv hF cfg ops1)).2.1.elems o ho

/-- C09.5a: map storages never mutate — the store of map objects only grows, every existing storage
keeps its iteration, its `Get` answers and its `Size()`. -/
theorem maps_never_mutate {F : Facts} (hF : F.OK = true) (cfg : Cfg) (ops1 ops2 : List Op) :
    (∃ extra, (run F cfg (run F cfg St.init ops1) ops2).h.maps = (run F cfg St.init ops1).h.maps ++ extra) ∧
    ∀ m, m < (run F cfg St.init ops1).h.maps.length →
      minfo (run F cfg (run F cfg St.init ops1) ops2).h m = minfo (run F cfg St.init ops1).h m := by
  have h := (run_ok hF cfg ops2 _ (run_inv hF cfg ops1)).2.1.maps
  exact ⟨h, fun m hm => mtable_ext h m hm⟩

/-- a handle keeps denoting the same object -/
theorem handles_stable {F : Facts} (cfg : Cfg) (ops1 ops2 : List Op) (k : Nat) (v : Val)
    (hk : (run F cfg St.init ops1).pool[k]? = some v) :
    (run F cfg (run F cfg St.init ops1) ops2).pool[k]? = some v := by
  have : ∀ (ops : List Op) (st : St), ∃ extra, (run F cfg st ops).pool = st.pool ++ extra := by
    intro ops
    induction ops with
    | nil => intro st; exact ⟨[], by simp [run]⟩
    | cons op ops ih =>
      intro st
      obtain ⟨e1, he1⟩ := newPool_prefix (runMicros cfg st.h (plan F cfg st op).1) st.pool (plan F cfg st op).2
      obtain ⟨e2, he2⟩ := ih (step F cfg st op)
      refine ⟨e1 ++ e2, ?_⟩
      show (run F cfg (step F cfg st op) ops).pool = _
      rw [he2]
      show newPool (runMicros cfg st.h (plan F cfg st op).1) st.pool (plan F cfg st op).2 ++ e2 = _
      rw [he1, List.append_assoc]
  obtain ⟨extra, he⟩ := this ops2 (run F cfg St.init ops1)
  rw [he, List.getElem?_append_left (List.getElem?_eq_some_iff.mp hk).1]
  exact hk

/-- every value stored in a reachable list or map, and every handle, names an existing object -/
theorem run_closed {F : Facts} (hF : F.OK = true) (cfg : Cfg) (ops : List Op) :
    Closed (run F cfg St.init ops) := P2.Heap.run_closed hF cfg ops St.init inv_init closed_init

/-- C09.3 `abs_stable`: for every history `ops1 ++ ops2`, every handle `k ↦ v` that exists after `ops1`
and every depth `d`: the handle still denotes `v`, and the deep observation of `v` (size, elements in
order, keys with their values and the answer of `size()`, recursively — hence string form and equality)
after `ops1 ++ ops2` is the one after `ops1`. -/
theorem abs_stable {F : Facts} (hF : F.OK = true) (cfg : Cfg) (ops1 ops2 : List Op) (d k : Nat)
    (v : Val) (hk : (run F cfg St.init ops1).pool[k]? = some v) :
    (run F cfg (run F cfg St.init ops1) ops2).pool[k]? = some v ∧
    abs cfg.rot d (run F cfg (run F cfg St.init ops1) ops2).h v = abs cfg.rot d (run F cfg St.init ops1).h v := by
  have hc := run_closed hF cfg ops1
  have hv : vok (run F cfg St.init ops1).h v = true := hc.pool v (List.mem_of_getElem? hk)
  exact ⟨handles_stable cfg ops1 ops2 k v hk,
    abs_ext cfg.rot (run_ok hF cfg ops2 _ (run_inv hF cfg ops1)).2.1 d v
      (no_dangling cfg.rot _ hc.arr hc.maps d v hv)⟩

/-! ## 4. siblings -/

/-- `append` returns the parent's elements followed by the new one (both branches of Go's `append`,
lazy or materialised parent) -/
theorem append_returns {F : Facts} (cfg : Cfg) (st : St) (hinv : Inv st.h) (o : Nat)
    (xs : List Val) (v : Val) (he : elems cfg.rot st.h o = .ok xs) (hv : vok st.h v = true) :
    (step F cfg st (.app (.ref o) v)).pool = st.pool ++ [.ref st.h.objs.length] ∧
    elems cfg.rot (step F cfg st (.app (.ref o) v)).h st.h.objs.length = .ok (xs ++ [v]) := by
  have hplan : plan F cfg st (.app (.ref o) v) = ([.mat o, .app o v F.appendCapsParent], newRef st) := by
    simp [plan, withRef, withElems, he]
  obtain ⟨ob, hob, hp, hw, hlen⟩ := mat_spec cfg st.h o xs he
  have hm := micro_safe cfg st.h (.mat o) rfl hinv
  have hv1 : vok (micro cfg st.h (.mat o)) v = true :=
    vok_mono hm.2.objs (by obtain ⟨e, he'⟩ := hm.2.maps; rw [he']; simp) v hv
  have hspec := app_spec cfg (micro cfg st.h (.mat o)) hm.1 o ob v F.appendCapsParent hob hp hv1
  rw [hlen, hw] at hspec
  have hlt := elems_ok_lt cfg.rot hspec
  constructor
  · simp only [step, hplan, runMicros, List.foldl, newPool, newRef, isHandle, vok, Bool.true_and,
      decide_eq_true_eq]
    rw [if_pos hlt]
  · simp only [step, hplan, runMicros, List.foldl]
    exact hspec

/-- C09.4 `siblings_independent`: two appends to the same parent — in whatever capacity state the
parent is, with arbitrary operations before, between and after — give two lists that show the parent's
elements followed by their own element, and the parent still shows its elements. (`vok`: the appended
values exist, e.g. any scalar or any handle of the state `before`.) -/
theorem siblings_independent {F : Facts} (hF : F.OK = true) (cfg : Cfg)
    (before between after : List Op) (o : Nat) (xs : List Val) (v1 v2 : Val)
    (he : elems cfg.rot (run F cfg St.init before).h o = .ok xs)
    (hv1 : vok (run F cfg St.init before).h v1 = true) (hv2 : vok (run F cfg St.init before).h v2 = true) :
    let s0 := run F cfg St.init before
    let s1 := step F cfg s0 (.app (.ref o) v1)
    let s1' := run F cfg s1 between
    let s2 := step F cfg s1' (.app (.ref o) v2)
    let s3 := run F cfg s2 after
    elems cfg.rot s3.h s0.h.objs.length = .ok (xs ++ [v1]) ∧
    elems cfg.rot s3.h s1'.h.objs.length = .ok (xs ++ [v2]) ∧
    elems cfg.rot s3.h o = .ok xs := by
  intro s0 s1 s1' s2 s3
  have i0 : Inv s0.h := run_inv hF cfg before
  have ho : o < s0.h.objs.length := elems_ok_lt cfg.rot he
  obtain ⟨_, a1⟩ := append_returns (F := F) cfg s0 i0 o xs v1 he hv1
  obtain ⟨i1, e01, _⟩ := step_ok hF cfg s0 (.app (.ref o) v1) i0
  have hn1 : s0.h.objs.length < s1.h.objs.length := elems_ok_lt cfg.rot a1
  obtain ⟨i1', e11', _⟩ := run_ok hF cfg between s1 i1
  have he1' : elems cfg.rot s1'.h o = .ok xs := by
    rw [e11'.elems o (Nat.lt_of_lt_of_le ho e01.objs), e01.elems o ho]; exact he
  have hv2' : vok s1'.h v2 = true :=
    vok_mono (Nat.le_trans e01.objs e11'.objs)
      (by obtain ⟨x, hx⟩ := (e01.trans e11').maps; rw [hx]; simp) v2 hv2
  obtain ⟨_, a2⟩ := append_returns (F := F) cfg s1' i1' o xs v2 he1' hv2'
  obtain ⟨i2, e1'2, _⟩ := step_ok hF cfg s1' (.app (.ref o) v2) i1'
  have hn2 : s1'.h.objs.length < s2.h.objs.length := elems_ok_lt cfg.rot a2
  obtain ⟨_, e23, _⟩ := run_ok hF cfg after s2 i2
  have e13 : Ext cfg.rot s1.h s3.h := (e11'.trans e1'2).trans e23
  refine ⟨?_, ?_, ?_⟩
  · rw [e13.elems _ hn1]; exact a1
  · rw [e23.elems _ hn2]; exact a2
  · rw [e13.elems o (Nat.lt_of_lt_of_le ho e01.objs), e01.elems o ho]; exact he

/-! ## 5. `ListMap.Append` -/

/-- C09.5b `listmap_linear`: a `ListMap` built by one linear chain `x = New(n); x = x.Append(k,v); …`
(for every initial capacity `n`, every growth function and every key sequence, repeated keys included)
has exactly the entries of the functional `upsert` fold, and the chain writes to no array that existed
before it — so the in-place overwrite and the in-place append cannot be observed through any map that
was built earlier. The call sites of `Append` are regenerated from the source and checked to be of this
shape in `Oblig/HeapFacts.lean`. -/
theorem listmap_linear (grow : Nat → Nat) (st : LMStore) (n : Nat) (kvs : List (String × Val)) :
    lmAbs (lmChain grow (lmNew st n) kvs).1 (lmChain grow (lmNew st n) kvs).2 = upsertAll kvs ∧
    ∀ a, a < st.length → lmArrayOf (lmChain grow (lmNew st n) kvs).1 a = lmArrayOf st a := by
  have hwf : LMWF (lmNew st n).1 (lmNew st n).2 :=
    ⟨by simp [lmNew], by simp [lmNew], by simp [lmNew, lmArrayOf, lmPad]⟩
  obtain ⟨h1, h2⟩ := lmChain_spec grow st.length kvs (lmNew st n) hwf (by simp [lmNew])
  refine ⟨?_, ?_⟩
  · rw [h1]; simp [lmNew, lmAbs, upsertAll]
  · intro a ha
    rw [h2 a ha]
    simp [lmNew, lmArrayOf, List.getElem?_append_left ha]

/-- without linearity the overwrite is observable: `x1 = New(2).Append(a,1); y = x1.Append(a,2)` changes `x1` -/
theorem listmap_nonlinear_overwrite_visible :
    let s1 := lmAppend (fun c => 2 * c) (lmNew [] 2).1 (lmNew [] 2).2 "a" (.int 1)
    let s2 := lmAppend (fun c => 2 * c) s1.1 s1.2 "a" (.int 2)
    lmAbs s1.1 s1.2 = [("a", .int 1)] ∧ lmAbs s2.1 s1.2 = [("a", .int 2)] := by decide

/-- … and two appends to the same intermediate map share the spare cell -/
theorem listmap_nonlinear_siblings_interfere :
    let s1 := lmAppend (fun c => 2 * c) (lmNew [] 3).1 (lmNew [] 3).2 "a" (.int 1)
    let y := lmAppend (fun c => 2 * c) s1.1 s1.2 "b" (.int 2)
    let z := lmAppend (fun c => 2 * c) y.1 s1.2 "c" (.int 3)
    lmAbs y.1 y.2 = [("a", .int 1), ("b", .int 2)] ∧ lmAbs z.1 y.2 = [("a", .int 1), ("c", .int 3)] := by
  decide

/-! ## the pinned commit, and why each fact is needed (negations on concrete witnesses) -/

def goGrow (c : Nat) : Nat := if c = 0 then 1 else 2 * c
def cfgGo : Cfg := ⟨true, goGrow⟩
def cfgPinned : Cfg := ⟨false, goGrow⟩

/-- the facts of the pinned commit do not satisfy `Facts.OK` … -/
theorem pinned_facts_not_ok : Facts.pinned.OK = false := by decide

/-- … because `combineN` hands the closure the iterator's ring buffer: the micro operations of
`numbers(5).combineN(3, w->w).eval()` contain writes to visible cells … -/
theorem pinned_combineN_not_safe :
    (plan Facts.pinned cfgPinned (run Facts.pinned cfgPinned St.init [.num 5]) (.cmbe 3 (.ref 0))).1.all
      Micro.safe = false := by decide

/-- … and the window stored first (`[0,1,2]`) shows `[3,1,2]` as soon as the iteration proceeds, and
`[3,4,2]` at the end: B7 of DESIGN.md, `numbers(5).combineN(3, w->w)` = `[[3,4,2],[3,4,2],[3,4,2]]`. -/
theorem pinned_combineN_window_changes :
    let st := run Facts.pinned cfgPinned St.init [.num 5]
    let ms := (plan Facts.pinned cfgPinned st (.cmbe 3 (.ref 0))).1
    elems false (runMicros cfgPinned st.h (ms.take 5)) 2 = .ok [.int 0, .int 1, .int 2] ∧
    elems false (runMicros cfgPinned st.h (ms.take 6)) 2 = .ok [.int 3, .int 1, .int 2] ∧
    elems false (runMicros cfgPinned st.h ms) 2 = .ok [.int 3, .int 4, .int 2] := by decide

/-- the repaired `combineN` (rotated copy): the same program stores `[[0,1,2],[1,2,3],[2,3,4]]` -/
theorem repaired_combineN_windows :
    let st := run Facts.good cfgGo St.init [.num 5, .cmbe 3 (.ref 0)]
    st.pool = [.ref 0, .ref 4] ∧
    abs true 3 st.h (.ref 4) =
      [.lb, .lb, .int 0, .int 1, .int 2, .rb, .lb, .int 1, .int 2, .int 3, .rb,
       .lb, .int 2, .int 3, .int 4, .rb, .rb] := by decide

/-- without the cap line of `Append`, two appends to a materialised lazy list interfere -/
theorem cap_line_needed :
    let F := { Facts.good with appendCapsParent := false }
    let s1 := run F cfgGo St.init [.num 3, .app (.ref 0) (.int 7)]
    let s2 := step F cfgGo s1 (.app (.ref 0) (.int 9))
    abs true 2 s1.h (.ref 1) = [.lb, .int 0, .int 1, .int 2, .int 7, .rb] ∧
    abs true 2 s2.h (.ref 1) = [.lb, .int 0, .int 1, .int 2, .int 9, .rb] := by decide

/-- `Set` on the result of `ToSlice` instead of `CopyToSlice` changes the receiver -/
theorem set_copy_needed :
    let F := { Facts.good with setCopies := false }
    let s1 := run F cfgGo St.init [.lit [.int 1, .int 2, .int 3]]
    let s2 := step F cfgGo s1 (.set (.ref 0) 0 (.int 9))
    abs true 2 s1.h (.ref 0) = [.lb, .int 1, .int 2, .int 3, .rb] ∧
    abs true 2 s2.h (.ref 0) = [.lb, .int 9, .int 2, .int 3, .rb] := by decide

/-- uncapped windows of `movingWindow`: appending to a window overwrites the next element of the list -/
theorem window_cap_needed :
    let F := { Facts.good with windowCapped := false }
    let s1 := run F cfgGo St.init [.lit [.int 1, .int 2, .int 5], .mw (.ref 0), .idx (.ref 4) 0]
    let s2 := step F cfgGo s1 (.app (.ref 1) (.int 9))
    abs true 2 s1.h (.ref 0) = [.lb, .int 1, .int 2, .int 5, .rb] ∧
    abs true 2 s2.h (.ref 0) = [.lb, .int 1, .int 9, .int 5, .rb] := by decide

/-! ## non-vacuity -/

example : Facts.good.OK = true := by decide

/-- a state with shared backing arrays in every capacity state satisfies the hypotheses: branching
appends on a lazily produced list (spare capacity from `Eval`, then the cap trick, then `len = cap`),
windows on a shared array, a list stored in a map -/
example :
    let st := run Facts.good cfgGo St.init
      [.num 3, .map (.mul 2) (.ref 0), .app (.ref 1) (.int 7), .app (.ref 1) (.int 9), .app (.ref 2) (.int 1),
       .mw (.ref 2), .mlit [("l", .ref 2)], .put (.mref 0) "k" (.ref 3)]
    st.pool.length = 8 ∧ (st.h.objs.map (fun o => (o.items.arr, o.items.len, o.items.cap))).length = 10 ∧
    Tok.dangling ∉ abs true 4 st.h (.mref 1) ∧
    abs true 4 st.h (.mref 1) =
      [.mlb 2, .key "k", .lb, .int 0, .int 2, .int 4, .int 9, .rb,
       .key "l", .lb, .int 0, .int 2, .int 4, .int 7, .rb, .mrb] := by decide

example : elems true (run Facts.good cfgGo St.init [.num 3]).h 0 = .ok [.int 0, .int 1, .int 2] := by decide

/-- the hypotheses of `siblings_independent` hold for appending a scalar and an existing handle to a
lazily produced list -/
example :
    elems true (run Facts.good cfgGo St.init [.num 3, .lit [.int 5]]).h 0 = .ok [.int 0, .int 1, .int 2] ∧
    vok (run Facts.good cfgGo St.init [.num 3, .lit [.int 5]]).h (.int 7) = true ∧
    vok (run Facts.good cfgGo St.init [.num 3, .lit [.int 5]]).h (.ref 1) = true := by decide

end P2.C09
