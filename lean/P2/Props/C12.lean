import P2.Model.Proc
/-! # C12 — Parse leaves no goroutine behind (protocol model of the token channel)

The runtime statement (goroutine profile returns to the baseline) is decided by `tie C12` in a worker
process. The logic of the channel protocol is proved here for every input length and every point at
which parsing stops. -/
namespace P2.C12
open P2.Proc

theorem settle_idem (p : Producer) : settle (settle p) = settle p := by
  cases p with
  | none => rfl
  | some n => cases n <;> rfl

theorem recvN_some (r k : Nat) : recvN r (some k) = if k ≤ r then none else some (k - r) := by
  induction r generalizing k with
  | zero => cases k <;> simp [recvN, settle]
  | succ r ih =>
    cases k with
    | zero =>
      simp only [recvN, recv, settle]
      have : ∀ r, recvN r none = none := by
        intro r; induction r with
        | zero => rfl
        | succ r ih => simpa [recvN, recv, settle] using ih
      simp [this]
    | succ k =>
      simp only [recvN, recv, settle]
      cases k with
      | zero =>
        have : ∀ r, recvN r none = none := by
          intro r; induction r with
          | zero => rfl
          | succ r ih => simpa [recvN, recv, settle] using ih
        simp [this]
      | succ k =>
        show recvN r (some (k+1)) = _
        rw [ih (k+1)]
        by_cases h : k + 1 ≤ r
        · simp [h]
        · simp [h]

/-- C12.1 `tokenizer_done_iff_drained`: after the consumer performed `r` receives and stopped, the
tokenizer goroutine has terminated iff `r` is at least the number of tokens. -/
theorem tokenizer_done_iff_drained (tokens r : Nat) :
    terminated (parsePinned tokens r) = true ↔ tokens ≤ r := by
  unfold parsePinned start terminated
  rw [recvN_some]
  by_cases h : tokens ≤ r
  · simp [h, settle]
  · simp only [h, if_false]
    have : tokens - r = (tokens - r - 1) + 1 := by omega
    rw [this]; simp [settle]

/-- the pinned commit strands the goroutine on every early exit: witness `1 + + 2 3 4 5 6`
(8 tokens, the syntax error is raised after 3 receives plus 2 tokens of look-ahead) -/
theorem pinned_leaks_witness : terminated (parsePinned 8 5) = false := by decide

theorem drain_some (f k : Nat) (h : k < f) : drain f (some k) = none := by
  induction f generalizing k with
  | zero => omega
  | succ f ih =>
    cases k with
    | zero => simp [drain, recv, settle]
    | succ k =>
      cases k with
      | zero =>
        simp only [drain, recv, settle]
        cases f with
        | zero => omega
        | succ f => simp [drain, recv, settle]
      | succ k =>
        simp only [drain, recv, settle, if_true]
        exact ih (k+1) (by omega)

theorem drain_none (f : Nat) : drain f none = none := by
  cases f <;> simp [drain, recv, settle]

/-- C12.1 `parse_drains` (full statement, repaired code): for EVERY number of tokens and EVERY
number of receives after which parsing stops — success, syntax error or trailing tokens — the
tokenizer goroutine has terminated when `Parse` returns. -/
theorem parse_drains (tokens r : Nat) : terminated (parseFixed tokens r) = true := by
  unfold parseFixed start
  rw [recvN_some]
  by_cases h : tokens ≤ r
  · simp [h, drain_none, terminated, settle]
  · simp only [h, if_false]
    rw [drain_some _ _ (by omega)]
    simp [terminated, settle]

/-- non-vacuity / sanity: the same witness input is drained by the repaired consumer -/
example : terminated (parseFixed 8 5) = true := parse_drains 8 5

end P2.C12

/-! ## C12.3 `parallel_cleanup`: a parallel stage leaves no worker, closer or collector behind -/
namespace P2.C12
open P2.Proc

theorem step_measure {fixed : Bool} {s s' : Par} (h : Step fixed s s') : s'.measure < s.measure := by
  cases h with
  | dispatch h1 h2 h3 h4 => simp only [Par.measure]; omega
  | mainEnd h1 h2 => simp [Par.measure, h1]
  | deliver h1 h2 => simp only [Par.measure]; omega
  | deliverStop h1 h2 h3 =>
    simp only [Par.measure, h2, if_true]
    cases fixed <;> simp <;> omega
  | workerExit h1 h2 => simp only [Par.measure]; omega
  | collectorEnd h1 h2 h3 h4 => simp [Par.measure, h1]

/-- invariant of the repaired stage: the collector stays alive until every worker has exited, and no
worker exits before `source` is closed -/
def StageInv (workers : Nat) (s : Par) : Prop :=
  (s.collector = true ∨ (s.mainDone = true ∧ s.idle = 0 ∧ s.holding = 0)) ∧
  (s.mainDone = false → s.idle + s.holding = workers)

theorem reach_inv {workers : Nat} {s0 s : Par} (h0 : StageInv workers s0) (h : Reach true s0 s) :
    StageInv workers s := by
  induction h with
  | refl => exact h0
  | step _ hs ih =>
    obtain ⟨ih1, ih2⟩ := ih
    cases hs with
    | dispatch h1 h2 h3 h4 =>
      refine ⟨?_, fun _ => ?_⟩
      · rcases ih1 with h | ⟨h, _, _⟩
        · exact Or.inl h
        · simp [h] at h1
      · have := ih2 h1; simp only; omega
    | mainEnd h1 h2 =>
      refine ⟨?_, fun h => by simp at h⟩
      rcases ih1 with h | ⟨h, _, _⟩
      · exact Or.inl h
      · simp [h] at h1
    | deliver h1 h2 =>
      refine ⟨Or.inl h2, fun hm => ?_⟩
      have := ih2 hm; simp only; omega
    | deliverStop h1 h2 h3 =>
      refine ⟨Or.inl rfl, fun hm => ?_⟩
      have := ih2 hm; simp only; omega
    | workerExit h1 h2 =>
      refine ⟨?_, fun hm => by simp [h1] at hm⟩
      rcases ih1 with h | ⟨_, h, _⟩
      · exact Or.inl h
      · omega
    | collectorEnd h1 h2 h3 h4 =>
      exact ⟨Or.inr ⟨h2, h3, h4⟩, fun hm => by simp [h2] at hm⟩

theorem init_inv (items workers : Nat) : StageInv workers (Par.init items workers) :=
  ⟨Or.inl rfl, fun _ => by simp [Par.init]⟩

/-- C12.3 (progress): in the repaired stage every reachable state that is not final has a successor —
no process is ever stuck, whatever the interleaving, however many items and workers (at least one),
and whenever the consumer stops. -/
theorem parallel_progress (items workers : Nat) (hw : 0 < workers) (s : Par)
    (h : Reach true (Par.init items workers) s) : s.final ∨ ∃ s', Step true s s' := by
  obtain ⟨hinv, hcount⟩ := reach_inv (init_inv items workers) h
  by_cases hh : 0 < s.holding
  · rcases hinv with hc | ⟨_, _, h0⟩
    · exact Or.inr ⟨_, Step.deliver s hh hc⟩
    · omega
  · have hh0 : s.holding = 0 := by omega
    cases hm : s.mainDone with
    | false =>
      by_cases hstop : s.src = 0 ∨ s.stopped = true
      · exact Or.inr ⟨_, Step.mainEnd s hm hstop⟩
      · have h1 : 0 < s.src := by
          by_cases hz : s.src = 0
          · exact absurd (Or.inl hz) hstop
          · omega
        have h2 : s.stopped = false := by
          cases hs : s.stopped with
          | false => rfl
          | true => exact absurd (Or.inr hs) hstop
        have hi : 0 < s.idle := by have := hcount hm; omega
        exact Or.inr ⟨_, Step.dispatch s hm h2 h1 hi⟩
    | true =>
      by_cases hi : 0 < s.idle
      · exact Or.inr ⟨_, Step.workerExit s hm hi⟩
      · have hi0 : s.idle = 0 := by omega
        cases hc : s.collector with
        | true => exact Or.inr ⟨_, Step.collectorEnd s hc hm hi0 hh0⟩
        | false => exact Or.inl ⟨hm, hi0, hh0, hc⟩

/-- C12.3 (termination): every run of the stage is finite — with `step_measure` no run has more than
`measure init` steps; together with `parallel_progress` every run of the repaired stage ends in the
state in which main loop, all workers, closer and collector have terminated. -/
theorem parallel_cleanup (items workers : Nat) (hw : 0 < workers) (s : Par)
    (h : Reach true (Par.init items workers) s) (hstuck : ¬ ∃ s', Step true s s') : s.final := by
  rcases parallel_progress items workers hw s h with hf | hs
  · exact hf
  · exact absurd hs hstuck

/-- the pinned behaviour (the collector returns when the consumer stops): a reachable state in which a
worker holds a result that nobody will ever receive — stuck and not final (the leak of B12) -/
def pinnedStuck : Par := { src := 3, idle := 0, holding := 1, mainDone := true, collector := false, stopped := true }

theorem pinned_stuck_reachable : Reach false (Par.init 5 2) pinnedStuck := by
  have s1 := Reach.step (Reach.refl (fixed := false) (s0 := Par.init 5 2))
    (Step.dispatch (Par.init 5 2) rfl rfl (by decide) (by decide))
  have s2 := Reach.step s1 (Step.dispatch _ rfl rfl (by decide) (by decide))
  have s3 := Reach.step s2 (Step.deliverStop _ (by decide) rfl rfl)
  have s4 := Reach.step s3 (Step.mainEnd _ rfl (Or.inr rfl))
  have s5 := Reach.step s4 (Step.workerExit _ rfl (by decide))
  exact s5

theorem pinned_stuck_is_stuck : ¬ pinnedStuck.final ∧ ¬ ∃ s', Step false pinnedStuck s' := by
  refine ⟨fun h => by simp [Par.final, pinnedStuck] at h, fun ⟨s', hs⟩ => ?_⟩
  cases hs <;> simp_all [pinnedStuck]

/-! ## multiUse -/
open P2.Proc in
/-- C12 `multiuse_cleanup`: whatever the map of `multiUse` contains (any mix of valid and invalid entries, in any order),
no consumer goroutine is left waiting — they are started only when every entry was found valid, and then the source is
run (`P2.Oblig.multiUse_runs_what_it_started`: no return path between the two). -/
theorem multiuse_cleanup (entries : List Bool) : (multiUse entries).clean = true := by
  unfold multiUse MU.clean
  split <;> simp

open P2.Proc in
/-- the seeded variant (consumers started while the entries are still being checked) strands a consumer as soon as an
invalid entry follows a valid one -/
theorem multiuse_eager_leaks : (multiUseEager [true, false] 0).clean = false := by decide

open P2.Proc in
/-- … and it is exactly that situation: with the invalid entry first, or none, the eager variant is clean too -/
example : (multiUseEager [false, true] 0).clean = true ∧ (multiUseEager [true, true] 0).clean = true := by decide

end P2.C12
