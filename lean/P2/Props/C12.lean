import P2.Model.Proc
/-! # C12 — Parse leaves no goroutine behind (protocol model of the token channel)

The runtime statement (goroutine profile returns to the baseline) is decided by `tie C12` in a worker
process. The logic of the channel protocol is proved here for every input length and every point at
which parsing stops. -/
namespace P2.C12
open P2.Proc

theorem settle_idem (p : Producer) : settle (settle p) = settle p := by
  cases p with
  | none => rfl
  | some n => cases n <;> rfl

theorem recvN_some (r k : Nat) : recvN r (some k) = if k ≤ r then none else some (k - r) := by
  induction r generalizing k with
  | zero => cases k <;> simp [recvN, settle]
  | succ r ih =>
    cases k with
    | zero =>
      simp only [recvN, recv, settle]
      have : ∀ r, recvN r none = none := by
        intro r; induction r with
        | zero => rfl
        | succ r ih => simpa [recvN, recv, settle] using ih
      simp [this]
    | succ k =>
      simp only [recvN, recv, settle]
      cases k with
      | zero =>
        have : ∀ r, recvN r none = none := by
          intro r; induction r with
          | zero => rfl
          | succ r ih => simpa [recvN, recv, settle] using ih
        simp [this]
      | succ k =>
        show recvN r (some (k+1)) = _
        rw [ih (k+1)]
        by_cases h : k + 1 ≤ r
        · simp [h]
        · simp [h]

/-- C12.1 `tokenizer_done_iff_drained`: after the consumer performed `r` receives and stopped, the
tokenizer goroutine has terminated iff `r` is at least the number of tokens. -/
theorem tokenizer_done_iff_drained (tokens r : Nat) :
    terminated (parsePinned tokens r) = true ↔ tokens ≤ r := by
  unfold parsePinned start terminated
  rw [recvN_some]
  by_cases h : tokens ≤ r
  · simp [h, settle]
  · simp only [h, if_false]
    have : tokens - r = (tokens - r - 1) + 1 := by omega
    rw [this]; simp [settle]

/-- the pinned commit strands the goroutine on every early exit: witness `1 + + 2 3 4 5 6`
(8 tokens, the syntax error is raised after 3 receives plus 2 tokens of look-ahead) -/
theorem pinned_leaks_witness : terminated (parsePinned 8 5) = false := by decide

theorem drain_some (f k : Nat) (h : k < f) : drain f (some k) = none := by
  induction f generalizing k with
  | zero => omega
  | succ f ih =>
    cases k with
    | zero => simp [drain, recv, settle]
    | succ k =>
      cases k with
      | zero =>
        simp only [drain, recv, settle]
        cases f with
        | zero => omega
        | succ f => simp [drain, recv, settle]
      | succ k =>
        simp only [drain, recv, settle, if_true]
        exact ih (k+1) (by omega)

theorem drain_none (f : Nat) : drain f none = none := by
  cases f <;> simp [drain, recv, settle]

/-- C12.1 `parse_drains` (full statement, repaired code): for EVERY number of tokens and EVERY
number of receives after which parsing stops — success, syntax error or trailing tokens — the
tokenizer goroutine has terminated when `Parse` returns. -/
theorem parse_drains (tokens r : Nat) : terminated (parseFixed tokens r) = true := by
  unfold parseFixed start
  rw [recvN_some]
  by_cases h : tokens ≤ r
  · simp [h, drain_none, terminated, settle]
  · simp only [h, if_false]
    rw [drain_some _ _ (by omega)]
    simp [terminated, settle]

/-- non-vacuity / sanity: the same witness input is drained by the repaired consumer -/
example : terminated (parseFixed 8 5) = true := parse_drains 8 5

end P2.C12
