import P2.Proofs.LangTop
/-! # C01 — Compiled evaluation equals lexically-scoped reference semantics

Property theorems only. Model: `P2/Model/Lang/*` — `gen` (the compiler `GenerateFunc` +
`value.GenerateCustom`), `exec` (the compiled closures run on the shared stack storage), `eval` (the
reference semantics: environments, call-by-value, left to right), the library `Lib.lean` written once
and used by both through `ap : Apply`. Proofs: `P2/Proofs/Lang{Rel,Eq,Frame,Lib,Main,Top}.lean`.

All theorems hold for **every** static-function table `S` and **every** method table `M` (the
regenerated tables are only consulted for "is this name a static function / its arity" and "does this
type have this method / its arity"; the bodies are the shared library), for every fuel `n` (the two
semantics burn fuel in lock step, so they also run out of fuel together), for **every** node kind of
the AST and for **every** modelled built-in (no `Natural…` hypothesis is left).

The only hypothesis on the program besides "the compiler accepts it" is `WA S sc vis a`
(`P2/Proofs/LangRel.lean`): wherever the *name of a static function* is used in call position while a
local of that name is lexically in scope, the enclosing closure has captured that local
(`OuterIdents`). The compiler cannot check this by itself (it would silently compile a static call)
and the parser guarantees it (it records every identifier a closure body takes from an enclosing
scope, call positions included). In particular `WA` holds whenever no binder carries the name of a
static function (`wa_of_noStaticShadow`); all other annotation errors (`OuterIdents` too small, a
missing `Recursive` flag, a self name among the outer identifiers) make `gen` fail and are therefore
covered by the hypothesis `gen … = some code`. -/
namespace P2.C01
open P2.Lang

/-- C01.1 (`exec_refines_eval`): for every fuel, AST, compile-time slot list `am` (with anonymous
slots for already pushed call arguments), closure-context names `cm`, environment, stack and closure
context: if the compiler accepts the AST and the frame / context hold the values of the environment
(`EnvRel`), then the compiled code and the reference semantics have related outcomes — both `ok`
with `VRel`-related values and the caller's slots untouched (`Preserves`), or both the same failure
(`err`, `panic`, `fuel`, `unmodelled`). -/
theorem exec_refines_eval (S : Statics) (M : Methods) (n : Nat) (a : AST) (sc vis : List String)
    (am : Names) (cm : List String) (env : Env) (st : Stack) (cs : List Val) (code : Code)
    (hwa : WA S sc vis a) (hg : gen S {} a am cm = some code) (hr : EnvRel S sc vis am cm env st cs) :
    ORel S st (eval S M n a env) (exec M n code st cs) :=
  (main S M n).expr a sc vis am cm env st cs code hwa hg hr

/-- C01.1 for argument lists: each argument is compiled with one more anonymous slot, evaluated left
to right and pushed; afterwards the `k` new slots hold values related to the reference values. -/
theorem execArgs_refines_evalArgs (S : Statics) (M : Methods) (n : Nat) (as : List AST)
    (sc vis : List String) (am : Names) (cm : List String) (env : Env) (st : Stack) (cs : List Val)
    (codes : List Code) (hwa : WAs S sc vis as) (hg : genArgs S {} as am cm = some codes)
    (hr : EnvRel S sc vis am cm env st cs) :
    RRel (ArgsPost S st as.length) (evalArgs S M n as env) (execArgs M n codes st cs) :=
  (main S M n).args as sc vis am cm env st cs codes hwa hg hr

/-- C01.1 for closure values called from the library (`Function.Eval`): related closures applied to
related arguments give related outcomes, at every fuel. -/
theorem apply_related (S : Statics) (M : Methods) (n : Nat) : ApRel S (applyS S M n) (applyR M n) :=
  (main S M n).ap

/-! ## C01.2 — naturality of the library: **all** modelled built-ins

`aps`, `apr` are the two ways of calling a closure. If they are related, every library entry point
maps related inputs to related outcomes (non-`ok` outcomes included). -/

theorem uncons_natural {S : Statics} {aps apr : Apply} (hap : ApRel S aps apr) (k : Nat) {l l' : LList}
    (h : LRel S l l') : RRel (UncRel S) (uncons aps k l) (uncons apr k l') := uncons_nat hap k h

theorem force_natural {S : Statics} {aps apr : Apply} (hap : ApRel S aps apr) (k : Nat) {l l' : LList}
    (h : LRel S l l') : RRel (VsRel S) (force aps k l) (force apr k l') := force_nat hap k h

theorem toStr_natural {S : Statics} {aps apr : Apply} (hap : ApRel S aps apr) (k : Nat) {v v' : Val}
    (h : VRel S v v') : RRel Eq (toStr aps k v) (toStr apr k v') := toStr_nat hap k h

theorem valEq_natural {S : Statics} {aps apr : Apply} (hap : ApRel S aps apr) (k : Nat)
    {a a' b b' : Val} (ha : VRel S a a') (hb : VRel S b b') :
    RRel Eq (valEq aps k a b) (valEq apr k a' b') := valEq_nat hap k ha hb

theorem unop_natural {S : Statics} (op : String) {a a' : Val} (ha : VRel S a a') :
    RRel (VRel S) (unop op a) (unop op a') := unop_nat op ha

/-- every binary operator of `value.New` (`= != < > <= >= ~ + - * / % << >> ^ & |`, unknown: error) -/
theorem binop_natural {S : Statics} {aps apr : Apply} (hap : ApRel S aps apr) (k : Nat) (op : String)
    {a a' b b' : Val} (ha : VRel S a a') (hb : VRel S b b') :
    RRel (VRel S) (binop aps k op a b) (binop apr k op a' b') := binop_nat hap k op ha hb

/-- every static function (`throw string isFloat isInt float int abs sign sqr round numbers goto sqrt
floor ceil trunc min max`; any other name: `unmodelled` on both sides) -/
theorem callStatic_natural {S : Statics} {aps apr : Apply} (hap : ApRel S aps apr) (k : Nat)
    (name : String) {vs vs' : List Val} (hvs : VsRel S vs vs') :
    RRel (VRel S) (callStatic aps k name vs) (callStatic apr k name vs') := callStatic_nat hap k name hvs

/-- every method (`map accept top skip size eval string first last reduce mapReduce sum append
reverse indexWhere present get put isAvail len contains args invoke` on their receiver types; any
other name / receiver / argument shape: `unmodelled` on both sides) -/
theorem methodBody_natural {S : Statics} {aps apr : Apply} (hap : ApRel S aps apr) (k : Nat)
    (name : String) {r r' : Val} {vs vs' : List Val} (hr : VRel S r r') (hvs : VsRel S vs vs') :
    RRel (VRel S) (methodBody aps k name r vs) (methodBody apr k name r' vs') :=
  methodBody_nat hap k name hr hvs

/-! ## C01.3 — top level: `Generate` + `Func.Eval` -/

/-- outcome relation at top level: the same value up to `VRel`, or the same failure
(`Func.Eval` and the reference runner both turn a panic into an error) -/
abbrev ORelTop (S : Statics) : R Val → R Val → Prop := RRel (VRel S)

/-- C01.3 (`generate_correct`): for every AST, distinct argument names and related argument tuples
(one value per name): if `Generate` succeeds, the generated function applied to the arguments and
the reference semantics under the environment `names ↦ args` have the same outcome. -/
theorem generate_correct (S : Statics) (M : Methods) (n : Nat) (a : AST) (names : List String)
    (args args' : List Val) (code : Code)
    (hlen : names.length = args.length) (hargs : VsRel S args args')
    (hwa : WA S names names a) (hg : generate S {} a names = some code) :
    ORelTop S (runReference S M n a names args) (runCompiled M n code args') := by
  obtain ⟨hnd, hgen⟩ := generate_inv hg
  exact run_rel ((main S M n).expr a names names _ [] _ _ [] code hwa hgen (EnvRel.init hnd hlen hargs))

/-- C01.3 for argument values that contain no closures (the arguments a host program passes):
the same tuple is given to both sides. -/
theorem generate_correct_closFree (S : Statics) (M : Methods) (n : Nat) (a : AST) (names : List String)
    (args : List Val) (code : Code)
    (hlen : names.length = args.length) (hargs : ClosFreeVs args)
    (hwa : WA S names names a) (hg : generate S {} a names = some code) :
    ORelTop S (runReference S M n a names args) (runCompiled M n code args) :=
  generate_correct S M n a names args args code hlen (VsRel.refl_of_closFree hargs) hwa hg

/-- … and when the reference result contains no closure either, the two results are *equal* -/
theorem generate_correct_eq (S : Statics) (M : Methods) (n : Nat) (a : AST) (names : List String)
    (args : List Val) (code : Code) (v : Val)
    (hlen : names.length = args.length) (hargs : ClosFreeVs args)
    (hwa : WA S names names a) (hg : generate S {} a names = some code)
    (hv : runReference S M n a names args = .ok v) (hcf : ClosFree v) :
    runCompiled M n code args = .ok v := by
  have h := generate_correct_closFree S M n a names args code hlen hargs hwa hg
  rw [hv] at h
  rcases h.cases with ⟨x, y, hx, hy, hxy⟩ | ⟨e, he, _⟩
  · cases hx
    rw [hy, ← VRel.eq_of_closFree hcf hxy]
  · cases e <;> cases he

/-- C01.4: the hypothesis `WA` follows from the simpler condition "no binder (let name, func name,
closure parameter, argument name) is the name of a static function" — so no `…_partial` version of
the theorems above is needed. -/
theorem wa_of_noStaticShadow (S : Statics) (a : AST) (names : List String)
    (hnames : ∀ x, x ∈ names → S x = none) (h : NoStaticShadow S a) : WA S names names a :=
  WA_of_noStaticShadow a names names hnames h

/-! ## C01.5 — non-vacuity -/

/-- observation of an integer result (`Val` contains `Float`, so outcomes have no decidable equality) -/
def outInt : R Val → Option Int
  | .ok (.int i) => some i
  | _ => none

/-- `Generate` with variant `V`, then `Func.Eval` -/
def compiledOut (S : Statics) (V : Variant) (M : Methods) (fuel : Nat) (a : AST) (names : List String)
    (args : List Val) : R Val :=
  match generate S V a names with
  | some code => runCompiled M fuel code args
  | none => .err

/-- a method table in the format of the regenerated one (declared `Args` include the receiver) -/
def sampleMethods : Methods := fun ty name => (methodSig ty name).map (fun k => if k < 0 then k else k + 1)

/-- `let k = 10; (x -> y -> z -> a + k + x + y + z)(1)(2)(3)` with argument `a`: a closure three
levels deep that captures an argument (`a`), a let (`k`) and outer closure parameters (`x`, `y`) -/
def deep : AST :=
  .letE "k" (.const (.int 10))
    (.call (.call (.call
      (.clos ["x"]
        (.clos ["y"]
          (.clos ["z"]
            (.binop "+" (.binop "+" (.binop "+" (.binop "+" (.ident "a") (.ident "k")) (.ident "x")) (.ident "y"))
              (.ident "z"))
            ["a", "k", "x", "y"] false "")
          ["a", "k", "x"] false "")
        ["a", "k"] false "")
      [.const (.int 1)]) [.const (.int 2)]) [.const (.int 3)])

example : WA staticSig ["a"] ["a"] deep := by
  simp [deep, WA, WAs, CallOK]
example : (generate staticSig {} deep ["a"]).isSome = true := by decide
example : ClosFreeVs [.int 3] := .cons (.int 3) .nil
example : outInt (runReference staticSig sampleMethods 30 deep ["a"] [.int 3]) = some 19 := by decide
example : outInt (compiledOut staticSig {} sampleMethods 30 deep ["a"] [.int 3]) = some 19 := by decide

/-- a recursive function stored in a `let`, called through a list method with a closure argument:
`let f = (func fac(n) if n = 0 then 1 else n * fac(n-1)); [1,2,3].map(v -> fac(v) + a).sum()` -/
def recur : AST :=
  .letE "fac"
    (.clos ["n"]
      (.ifE (.binop "=" (.ident "n") (.const (.int 0))) (.const (.int 1))
        (.binop "*" (.ident "n") (.call (.ident "fac") [.binop "-" (.ident "n") (.const (.int 1))])))
      [] true "fac")
    (.method
      (.method (.listLit [.const (.int 1), .const (.int 2), .const (.int 3)]) "map"
        [.clos ["v"] (.binop "+" (.call (.ident "fac") [.ident "v"]) (.ident "a")) ["fac", "a"] false ""])
      "sum" [])

example : WA staticSig ["a"] ["a"] recur := by
  simp [recur, WA, WAs, CallOK, staticSig]
example : (generate staticSig {} recur ["a"]).isSome = true := by decide
example : outInt (runReference staticSig sampleMethods 40 recur ["a"] [.int 100]) = some 309 := by decide
example : outInt (compiledOut staticSig {} sampleMethods 40 recur ["a"] [.int 100]) = some 309 := by decide

/-! ## C01.6 — the compiler of the pinned commit violates the property (witnesses) -/

/-- B1: the pinned compiler did not account for already pushed call arguments
(`Variant.pushedSlots := false`): in `max(a, a+1, let x = a*10; x)` the `let` in the third argument
reads the slot of the first pushed argument. -/
def witnessB1 : AST :=
  .call (.ident "max") [.ident "a", .binop "+" (.ident "a") (.const (.int 1)),
    .letE "x" (.binop "*" (.ident "a") (.const (.int 10))) (.ident "x")]

example : WA staticSig ["a"] ["a"] witnessB1 := by
  simp [witnessB1, WA, WAs, CallOK, staticSig]

theorem pinned_pushedSlots_compiled :
    outInt (compiledOut staticSig { pushedSlots := false } sampleMethods 10 witnessB1 ["a"] [.int 3]) = some 4 := by
  decide
theorem pinned_pushedSlots_reference :
    outInt (runReference staticSig sampleMethods 10 witnessB1 ["a"] [.int 3]) = some 30 := by decide
/-- the compiled result of the pinned compiler differs from the reference semantics (4 vs 30) -/
theorem pinned_pushedSlots_witness :
    compiledOut staticSig { pushedSlots := false } sampleMethods 10 witnessB1 ["a"] [.int 3] ≠
    runReference staticSig sampleMethods 10 witnessB1 ["a"] [.int 3] := by
  intro h
  have h1 := pinned_pushedSlots_compiled
  rw [h, pinned_pushedSlots_reference] at h1
  cases h1
/-- the repaired compiler agrees (as `generate_correct` says it must) -/
theorem current_pushedSlots :
    outInt (compiledOut staticSig {} sampleMethods 10 witnessB1 ["a"] [.int 3]) = some 30 := by decide

/-- B24: at the pinned commit a call `abs(…)` was compiled as a call of the static function even
when a local `abs` was in scope (`Variant.localShadowsStatic := false`):
`let abs = x -> x + a; abs(0-3)` with `a = 10` gives `|−3| = 3` instead of `−3 + 10 = 7`. -/
def witnessB24 : AST :=
  .letE "abs" (.clos ["x"] (.binop "+" (.ident "x") (.ident "a")) ["a"] false "")
    (.call (.ident "abs") [.binop "-" (.const (.int 0)) (.const (.int 3))])

/-- the witness satisfies `WA` (the local `abs` is visible where it is called), although a binder
carries the name of a static function -/
example : WA staticSig ["a"] ["a"] witnessB24 := by
  simp [witnessB24, WA, WAs, CallOK]

theorem pinned_localShadowsStatic_compiled :
    outInt (compiledOut staticSig { localShadowsStatic := false } sampleMethods 10 witnessB24 ["a"] [.int 10]) =
      some 3 := by decide
theorem pinned_localShadowsStatic_reference :
    outInt (runReference staticSig sampleMethods 10 witnessB24 ["a"] [.int 10]) = some 7 := by decide
theorem pinned_localShadowsStatic_witness :
    compiledOut staticSig { localShadowsStatic := false } sampleMethods 10 witnessB24 ["a"] [.int 10] ≠
    runReference staticSig sampleMethods 10 witnessB24 ["a"] [.int 10] := by
  intro h
  have h1 := pinned_localShadowsStatic_compiled
  rw [h, pinned_localShadowsStatic_reference] at h1
  cases h1
theorem current_localShadowsStatic :
    outInt (compiledOut staticSig {} sampleMethods 10 witnessB24 ["a"] [.int 10]) = some 7 := by decide

/-- `WA` is not redundant: a closure that calls a shadowed static name without capturing the local
(`let abs = x -> x + a; (y -> abs(y))(0-3)` with `OuterIdents = []`, which the parser never
produces) is accepted by the compiler, violates `WA`, and the two semantics disagree. -/
def badAnnotation : AST :=
  .letE "abs" (.clos ["x"] (.binop "+" (.ident "x") (.ident "a")) ["a"] false "")
    (.call (.clos ["y"] (.call (.ident "abs") [.ident "y"]) [] false "")
      [.binop "-" (.const (.int 0)) (.const (.int 3))])

theorem badAnnotation_not_WA : ¬ WA staticSig ["a"] ["a"] badAnnotation := by
  simp [badAnnotation, WA, WAs, CallOK, staticSig]
theorem badAnnotation_differs :
    outInt (compiledOut staticSig {} sampleMethods 12 badAnnotation ["a"] [.int 10]) = some 3 ∧
    outInt (runReference staticSig sampleMethods 12 badAnnotation ["a"] [.int 10]) = some 7 := by decide

end P2.C01
