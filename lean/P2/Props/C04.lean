import P2.Props.C03
import P2.Props.C15
import P2.Props.C12
import P2.Model.Lang.Gen
/-! # C04 — parsing is total: any input yields an AST or an error, never a panic or hang

The runtime statement (wall-clock, Go stack growth, the real goroutines) is decided by the watchdog
worker of `tie C04` on byte strings up to 64 KiB under nine configurations. The logic is proved on the
scanner model (`P2.Lex`, C15 slice), the parser model (`P2.Parse`, C03 slice), the channel model
(`P2.Proc`, C12) and the compiler model (`P2.Lang.gen`), stage by stage:

1. the scanner, run with fuel `|src|+1`, returns a token list for EVERY rune sequence — it never runs
   out of fuel (every loop iteration consumes a rune: progress on invalid UTF-8 = U+FFFD, on NUL, on
   unterminated strings/comments/quoted identifiers) and no slice expression of `peek` is out of range;
2. the parser, run with fuel `fuelFor t ts` (linear in the token count times the table size), answers
   EVERY token list, well-formed or not, with a tree that consumed all tokens or with an error —
   never `fuel`, never `panic`, never a silently ignored rest;
3. every receive of the parser is answered (token or "closed") and the tokenizer goroutine has
   terminated when `Parse` returns (no deadlock, no leak);
4. the compiler `gen` is a total function into `Option Code` (no panic site).

The stages are not composed into one Lean function from bytes to `Code`: UTF-8 decoding and the
`unicode` classes are oracles of the scanner model, and the parser model works on the scanner's tokens
as delivered by the real tokenizer (hook `VerifTokens`); the composition is what the harness observes. -/
namespace P2.C04

/-- C04.1 `tokenize_total`: for every configuration of the repaired scanner with lawful tables and
NUL-free operators and for every input there is a token list. -/
theorem tokenize_total (cfg : P2.Lex.Cfg) (hp : cfg.pinned = false) (htb : P2.Lex.tablesOK cfg.tables = true)
    (hcfg : P2.Lex.cfgOK cfg = true) (src : List Char) : ∃ ts, P2.Lex.tokenize cfg src = .ok ts :=
  P2.Lex.tokenize_total cfg hp htb hcfg src

/-- C04.1 `tokenize_fuel_enough`: fuel `|src|+1` is never exhausted -/
theorem tokenize_fuel_enough (cfg : P2.Lex.Cfg) (hp : cfg.pinned = false) (htb : P2.Lex.tablesOK cfg.tables = true)
    (hcfg : P2.Lex.cfgOK cfg = true) (src : List Char) : P2.Lex.tokenize cfg src ≠ .fuel :=
  P2.Lex.tokenize_fuel_enough cfg hp htb hcfg src

/-- C04.3 `tokenize_no_panic` -/
theorem tokenize_no_panic (cfg : P2.Lex.Cfg) (hp : cfg.pinned = false) (htb : P2.Lex.tablesOK cfg.tables = true)
    (hcfg : P2.Lex.cfgOK cfg = true) (src : List Char) : P2.Lex.tokenize cfg src ≠ .panic :=
  P2.Lex.tokenize_no_panic cfg hp htb hcfg src

/-- C04.2 `parse_fuel_enough`: with its concrete, linear fuel the parser never answers `fuel`, on ANY
token list and ANY table -/
theorem parse_fuel_enough (t : P2.Parse.Table) (σ : P2.Parse.Scope) (ts : List P2.Parse.Tok) :
    P2.Parse.parse t σ ts ≠ .fuel :=
  P2.C03.parse_fuel_enough t σ ts

/-- C04.3 `parse_no_panic`: no operator table (also none with a unary operator that is the highest
binary operator, none without binary operators) and no input reaches the index expression
`p.operators[op]` out of range -/
theorem parse_no_panic (t : P2.Parse.Table) (hp : t.pinned = false) (σ : P2.Parse.Scope) (ts : List P2.Parse.Tok) :
    P2.Parse.parse t σ ts ≠ .panic :=
  P2.C03.parse_no_panic t hp σ ts

/-- C04 for the parser stage: every input is answered by a tree that consumed all tokens or by an error -/
theorem parse_total (t : P2.Parse.Table) (hp : t.pinned = false) (σ : P2.Parse.Scope) (ts : List P2.Parse.Tok) :
    (∃ e, P2.Parse.parse t σ ts = .ok e []) ∨ P2.Parse.parse t σ ts = .err :=
  P2.C03.parse_total t hp σ ts

/-- C04.4 `channel_progress`: in the process model every receive of the consumer is answered — by a
token while tokens are left, by "closed" afterwards — so `Parse` cannot block on the channel … -/
theorem channel_progress (p : P2.Proc.Producer) :
    (P2.Proc.recv p).2 = true ∨ (P2.Proc.recv p).1 = none := by
  unfold P2.Proc.recv
  split <;> simp

/-- … and the producer has terminated when `Parse` returns, wherever parsing stopped (C12.1) -/
theorem parse_leaves_no_producer (tokens r : Nat) :
    P2.Proc.terminated (P2.Proc.parseFixed tokens r) = true :=
  P2.C12.parse_drains tokens r

/-- C04.3 `gen_no_panic`: the compiler model is a total function into `Option Code`; `Generate`
reports `none` as an error -/
theorem gen_total (S : P2.Lang.Statics) (V : P2.Lang.Variant) (a : P2.Lang.AST) (am : P2.Lang.Names)
    (cm : List String) : (∃ c, P2.Lang.gen S V a am cm = some c) ∨ P2.Lang.gen S V a am cm = none := by
  cases P2.Lang.gen S V a am cm with
  | none => exact Or.inr rfl
  | some c => exact Or.inl ⟨c, rfl⟩

-- the two panics of the pinned commit (configurations inside the property's quantifier): witnesses
-- `P2.C03.pinned_unary_highest_panics`, `P2.C03.pinned_no_binary_panics` (proved by `decide` in Props/C03.lean)

end P2.C04
