import P2.Proofs.ScopeResolve
/-! # Map mode = explicit member access (C16, main induction)

For every chain `s` that occurs while `GenerateWithMap(exp, m)` parses (`WF m s`), parsing the
rewritten subtree in the chain without the map layer gives the same node and the same accumulator
contents as parsing the original subtree in `s`. -/
namespace P2.Scope
open P2.Lang

theorem skel_dropMap_of {s s' : Scope} (h : skel s' = skel s) : skel (dropMap s') = skel (dropMap s) := by
  rw [← dropMap_skel, h, dropMap_skel]

/-- forget the map layer in the returned chain -/
def F {α : Type} (p : α × Scope) : α × Scope := (p.1, dropMap p.2)

variable {m : String}

mutual
theorem resolve_dropMap (hm : m ≠ "") :
    ∀ (t : Raw) (s e : Scope), WF m s → skel e = skel (dropMap s) → m ∉ binders t →
      resolve true (dropMap s) (expand m e t) = (resolve true s t).map F
  | .const c, s, e, _, _, _ => by simp [expand, resolve, F]
  | .ident x, s, e, hwf, he, _ => by
    cases lookup_cases hm hwf x with
    | same i h1 h2 h3 h4 =>
      have : find e x = some i := by rw [find_congr he, h3]
      simp [expand, this, resolve, h1, h3, h4, F]
    | attr h1 h2 h3 h4 =>
      have : find e x = none := by rw [find_congr he, h2]
      simp [expand, this, resolve, h1, h3, h4, F, identAST, hm]
  | .letE x v i, s, e, hwf, he, hb => by
    simp only [binders, List.mem_cons, List.mem_append, not_or] at hb
    have ihv := resolve_dropMap hm v s e hwf he hb.2.1
    cases hv : resolve true s v with
    | none =>
      simp only [expand]
      split <;> simp [resolve, ihv, hv]
    | some p1 =>
      have k1 := resolve_skel true v s p1 hv
      have w1 : WF m p1.2 := WF_of_skel_eq k1 hwf
      have hv' : resolve true (dropMap s) (expand m e v) = some (p1.1, dropMap p1.2) := by
        rw [ihv, hv]; rfl
      have hc : constVal e (expand m e v) = astConst? p1.1 := by
        rw [constVal_congr _ he]; exact (resolve_const true _ _ _ hv').symm
      simp only [expand, hc]
      cases hk : astConst? p1.1 with
      | some c =>
        have w2 : WF m (.const x c :: p1.2) := ⟨Ne.symm hb.1, w1⟩
        have e2 : skel (.const x c :: e) = skel (dropMap (.const x c :: p1.2)) := by
          simp [he, skel_dropMap_of k1]
        have ihi := resolve_dropMap hm i _ _ w2 e2 hb.2.2
        simp only [dropMap_const] at ihi
        simp only [resolve, hv', hv, hk, Option.bind_eq_bind, Option.bind_some, ihi]
        cases hi : resolve true (.const x c :: p1.2) i with
        | none => simp
        | some p2 =>
          have w3 : WF m p2.2 := WF_of_skel_eq (resolve_skel true i _ p2 hi) w2
          simp [F, w3.dropMap_tail]
      | none =>
        have w2 : WF m (.plain x :: p1.2) := ⟨Ne.symm hb.1, w1⟩
        have e2 : skel (.plain x :: e) = skel (dropMap (.plain x :: p1.2)) := by
          simp [he, skel_dropMap_of k1]
        have ihi := resolve_dropMap hm i _ _ w2 e2 hb.2.2
        simp only [dropMap_plain] at ihi
        simp only [resolve, hv', hv, hk, Option.bind_eq_bind, Option.bind_some, ihi]
        cases hi : resolve true (.plain x :: p1.2) i with
        | none => simp
        | some p2 =>
          have w3 : WF m p2.2 := WF_of_skel_eq (resolve_skel true i _ p2 hi) w2
          simp [F, w3.dropMap_tail]
  | .func name ps body rest, s, e, hwf, he, hb => by
    simp only [binders, List.mem_cons, List.mem_append, not_or] at hb
    simp only [expand, resolve]
    by_cases hp : paramsOK ps = true
    · have w0 : WF m (.this name false :: .args ps (some []) :: s) := ⟨Ne.symm hb.1, hb.2.1, hwf⟩
      have e0 : skel (.this name false :: .args ps (some []) :: e)
          = skel (dropMap (.this name false :: .args ps (some []) :: s)) := by simp [he]
      have ihb := resolve_dropMap hm body _ _ w0 e0 hb.2.2.1
      simp only [dropMap_this, dropMap_args] at ihb
      simp only [hp, Bool.not_true, Bool.false_eq_true, if_false, Option.bind_eq_bind, ihb]
      cases hbody : resolve true (.this name false :: .args ps (some []) :: s) body with
      | none => simp
      | some p1 =>
        have k1 := resolve_skel true body _ p1 hbody
        obtain ⟨l1, r1, hp1, hl1, k2⟩ := skel_eq_cons k1
        obtain ⟨u, rfl⟩ := Layer.skel_eq_this hl1
        obtain ⟨l2, r2, rfl, hl2, k3⟩ := skel_eq_cons k2
        obtain ⟨a, rfl⟩ := Layer.skel_eq_args hl2
        have w1 : WF m r2 := WF_of_skel_eq k3 hwf
        have w2 : WF m (.plain name :: r2) := ⟨Ne.symm hb.1, w1⟩
        have e2 : skel (.plain name :: e) = skel (dropMap (.plain name :: r2)) := by
          simp [he, skel_dropMap_of k3]
        have ihr := resolve_dropMap hm rest _ _ w2 e2 hb.2.2.2
        simp only [dropMap_plain] at ihr
        simp only [Option.map_some, Option.bind_some, F, hp1, dropMap_this, dropMap_args, List.tail_cons, ihr,
          topAcc, topUsed]
        cases hrest : resolve true (.plain name :: r2) rest with
        | none => simp
        | some p2 =>
          have w3 : WF m p2.2 := WF_of_skel_eq (resolve_skel true rest _ p2 hrest) w2
          simp [F, w3.dropMap_tail]
    · simp [hp]
  | .clos ps body, s, e, hwf, he, hb => by
    simp only [binders, List.mem_append, not_or] at hb
    simp only [expand, resolve]
    by_cases hp : paramsOK ps = true
    · have w0 : WF m (.args ps (some []) :: s) := ⟨hb.1, hwf⟩
      have e0 : skel (.args ps (some []) :: e) = skel (dropMap (.args ps (some []) :: s)) := by simp [he]
      have ihb := resolve_dropMap hm body _ _ w0 e0 hb.2
      simp only [dropMap_args] at ihb
      simp only [hp, Bool.not_true, Bool.false_eq_true, if_false, Option.bind_eq_bind, ihb]
      cases hbody : resolve true (.args ps (some []) :: s) body with
      | none => simp
      | some p1 =>
        have k1 := resolve_skel true body _ p1 hbody
        obtain ⟨l2, r2, hp1, hl2, k3⟩ := skel_eq_cons k1
        obtain ⟨a, rfl⟩ := Layer.skel_eq_args hl2
        simp [F, hp1, topAcc]
    · simp [hp]
  | .ifE c t f, s, e, hwf, he, hb => by
    simp only [binders, List.mem_append, not_or] at hb
    simp only [expand, resolve, Option.bind_eq_bind, resolve_dropMap hm c s e hwf he hb.1]
    cases h1 : resolve true s c with
    | none => simp
    | some p1 =>
      have k1 := resolve_skel true c s p1 h1
      have w1 : WF m p1.2 := WF_of_skel_eq k1 hwf
      have e1 : skel e = skel (dropMap p1.2) := by rw [he, skel_dropMap_of k1]
      simp only [Option.map_some, Option.bind_some, F, resolve_dropMap hm t _ e w1 e1 hb.2.1]
      cases h2 : resolve true p1.2 t with
      | none => simp
      | some p2 =>
        have k2 := resolve_skel true t _ p2 h2
        have w2 : WF m p2.2 := WF_of_skel_eq k2 w1
        have e2 : skel e = skel (dropMap p2.2) := by rw [e1, skel_dropMap_of k2]
        simp only [Option.map_some, Option.bind_some, F, resolve_dropMap hm f _ e w2 e2 hb.2.2]
        cases h3 : resolve true p2.2 f <;> simp [F]
  | .switchE v cases dflt, s, e, hwf, he, hb => by
    simp only [binders, List.mem_append, not_or] at hb
    simp only [expand, resolve, Option.bind_eq_bind, resolve_dropMap hm v s e hwf he hb.1]
    cases h1 : resolve true s v with
    | none => simp
    | some p1 =>
      have k1 := resolve_skel true v s p1 h1
      have w1 : WF m p1.2 := WF_of_skel_eq k1 hwf
      have e1 : skel e = skel (dropMap p1.2) := by rw [he, skel_dropMap_of k1]
      simp only [Option.map_some, Option.bind_some, F, resolveCases_dropMap hm cases _ e w1 e1 hb.2.1]
      cases h2 : resolveCases true p1.2 cases with
      | none => simp
      | some p2 =>
        have k2 := resolveCases_skel true cases _ p2 h2
        have w2 : WF m p2.2 := WF_of_skel_eq k2 w1
        have e2 : skel e = skel (dropMap p2.2) := by rw [e1, skel_dropMap_of k2]
        simp only [Option.map_some, Option.bind_some, F, resolve_dropMap hm dflt _ e w2 e2 hb.2.2]
        cases h3 : resolve true p2.2 dflt <;> simp [F]
  | .tryE t c, s, e, hwf, he, hb => by
    simp only [binders, List.mem_append, not_or] at hb
    simp only [expand, resolve, Option.bind_eq_bind, resolve_dropMap hm t s e hwf he hb.1]
    cases h1 : resolve true s t with
    | none => simp
    | some p1 =>
      have k1 := resolve_skel true t s p1 h1
      have w1 : WF m p1.2 := WF_of_skel_eq k1 hwf
      have e1 : skel e = skel (dropMap p1.2) := by rw [he, skel_dropMap_of k1]
      simp only [Option.map_some, Option.bind_some, F, resolve_dropMap hm c _ e w1 e1 hb.2]
      cases h2 : resolve true p1.2 c <;> simp [F]
  | .unary op a, s, e, hwf, he, hb => by
    simp only [binders] at hb
    simp only [expand, resolve, Option.bind_eq_bind, resolve_dropMap hm a s e hwf he hb]
    cases h1 : resolve true s a <;> simp [F]
  | .binop op a b, s, e, hwf, he, hb => by
    simp only [binders, List.mem_append, not_or] at hb
    simp only [expand, resolve, Option.bind_eq_bind, resolve_dropMap hm a s e hwf he hb.1]
    cases h1 : resolve true s a with
    | none => simp
    | some p1 =>
      have k1 := resolve_skel true a s p1 h1
      have w1 : WF m p1.2 := WF_of_skel_eq k1 hwf
      have e1 : skel e = skel (dropMap p1.2) := by rw [he, skel_dropMap_of k1]
      simp only [Option.map_some, Option.bind_some, F, resolve_dropMap hm b _ e w1 e1 hb.2]
      cases h2 : resolve true p1.2 b <;> simp [F]
  | .listLit items, s, e, hwf, he, hb => by
    simp only [binders] at hb
    simp only [expand, resolve, Option.bind_eq_bind, resolveList_dropMap hm items s e hwf he hb]
    cases h1 : resolveList true s items <;> simp [F]
  | .index idx lst, s, e, hwf, he, hb => by
    simp only [binders, List.mem_append, not_or] at hb
    simp only [expand, resolve, Option.bind_eq_bind, resolve_dropMap hm lst s e hwf he hb.2]
    cases h1 : resolve true s lst with
    | none => simp
    | some p1 =>
      have k1 := resolve_skel true lst s p1 h1
      have w1 : WF m p1.2 := WF_of_skel_eq k1 hwf
      have e1 : skel e = skel (dropMap p1.2) := by rw [he, skel_dropMap_of k1]
      simp only [Option.map_some, Option.bind_some, F, resolve_dropMap hm idx _ e w1 e1 hb.1]
      cases h2 : resolve true p1.2 idx <;> simp [F]
  | .mapLit kvs, s, e, hwf, he, hb => by
    simp only [binders] at hb
    simp only [expand, resolve, Option.bind_eq_bind, resolveKVs_dropMap hm kvs s e hwf he hb]
    cases h1 : resolveKVs true s kvs <;> simp [F]
  | .member r key, s, e, hwf, he, hb => by
    simp only [binders] at hb
    simp only [expand, resolve, Option.bind_eq_bind, resolve_dropMap hm r s e hwf he hb]
    cases h1 : resolve true s r <;> simp [F]
  | .call f args, s, e, hwf, he, hb => by
    simp only [binders, List.mem_append, not_or] at hb
    simp only [expand, resolve, Option.bind_eq_bind, resolve_dropMap hm f s e hwf he hb.1]
    cases h1 : resolve true s f with
    | none => simp
    | some p1 =>
      have k1 := resolve_skel true f s p1 h1
      have w1 : WF m p1.2 := WF_of_skel_eq k1 hwf
      have e1 : skel e = skel (dropMap p1.2) := by rw [he, skel_dropMap_of k1]
      simp only [Option.map_some, Option.bind_some, F, resolveList_dropMap hm args _ e w1 e1 hb.2]
      cases h2 : resolveList true p1.2 args <;> simp [F]
  | .method recv name args, s, e, hwf, he, hb => by
    simp only [binders, List.mem_append, not_or] at hb
    simp only [expand, resolve, Option.bind_eq_bind, resolve_dropMap hm recv s e hwf he hb.1]
    cases h1 : resolve true s recv with
    | none => simp
    | some p1 =>
      have k1 := resolve_skel true recv s p1 h1
      have w1 : WF m p1.2 := WF_of_skel_eq k1 hwf
      have e1 : skel e = skel (dropMap p1.2) := by rw [he, skel_dropMap_of k1]
      simp only [Option.map_some, Option.bind_some, F, resolveList_dropMap hm args _ e w1 e1 hb.2]
      cases h2 : resolveList true p1.2 args <;> simp [F]
theorem resolveList_dropMap (hm : m ≠ "") :
    ∀ (ts : List Raw) (s e : Scope), WF m s → skel e = skel (dropMap s) → m ∉ bindersList ts →
      resolveList true (dropMap s) (expandList m e ts) = (resolveList true s ts).map F
  | [], s, e, _, _, _ => by simp [expandList, resolveList, F]
  | a :: as, s, e, hwf, he, hb => by
    simp only [bindersList, List.mem_append, not_or] at hb
    simp only [expandList, resolveList, Option.bind_eq_bind, resolve_dropMap hm a s e hwf he hb.1]
    cases h1 : resolve true s a with
    | none => simp
    | some p1 =>
      have k1 := resolve_skel true a s p1 h1
      have w1 : WF m p1.2 := WF_of_skel_eq k1 hwf
      have e1 : skel e = skel (dropMap p1.2) := by rw [he, skel_dropMap_of k1]
      simp only [Option.map_some, Option.bind_some, F, resolveList_dropMap hm as _ e w1 e1 hb.2]
      cases h2 : resolveList true p1.2 as <;> simp [F]
theorem resolveKVs_dropMap (hm : m ≠ "") :
    ∀ (ts : List (String × Raw)) (s e : Scope), WF m s → skel e = skel (dropMap s) → m ∉ bindersKVs ts →
      resolveKVs true (dropMap s) (expandKVs m e ts) = (resolveKVs true s ts).map F
  | [], s, e, _, _, _ => by simp [expandKVs, resolveKVs, F]
  | (k, a) :: as, s, e, hwf, he, hb => by
    simp only [bindersKVs, List.mem_append, not_or] at hb
    simp only [expandKVs, resolveKVs, Option.bind_eq_bind, resolve_dropMap hm a s e hwf he hb.1]
    cases h1 : resolve true s a with
    | none => simp
    | some p1 =>
      have k1 := resolve_skel true a s p1 h1
      have w1 : WF m p1.2 := WF_of_skel_eq k1 hwf
      have e1 : skel e = skel (dropMap p1.2) := by rw [he, skel_dropMap_of k1]
      simp only [Option.map_some, Option.bind_some, F, resolveKVs_dropMap hm as _ e w1 e1 hb.2]
      cases h2 : resolveKVs true p1.2 as <;> simp [F]
theorem resolveCases_dropMap (hm : m ≠ "") :
    ∀ (ts : List (Raw × Raw)) (s e : Scope), WF m s → skel e = skel (dropMap s) → m ∉ bindersCases ts →
      resolveCases true (dropMap s) (expandCases m e ts) = (resolveCases true s ts).map F
  | [], s, e, _, _, _ => by simp [expandCases, resolveCases, F]
  | (c, r) :: rest, s, e, hwf, he, hb => by
    simp only [bindersCases, List.mem_append, not_or] at hb
    simp only [expandCases, resolveCases, Option.bind_eq_bind, resolve_dropMap hm c s e hwf he hb.1]
    cases h1 : resolve true s c with
    | none => simp
    | some p1 =>
      have k1 := resolve_skel true c s p1 h1
      have w1 : WF m p1.2 := WF_of_skel_eq k1 hwf
      have e1 : skel e = skel (dropMap p1.2) := by rw [he, skel_dropMap_of k1]
      simp only [Option.map_some, Option.bind_some, F, resolve_dropMap hm r _ e w1 e1 hb.2.1]
      cases h2 : resolve true p1.2 r with
      | none => simp
      | some p2 =>
        have k2 := resolve_skel true r _ p2 h2
        have w2 : WF m p2.2 := WF_of_skel_eq k2 w1
        have e2 : skel e = skel (dropMap p2.2) := by rw [e1, skel_dropMap_of k2]
        simp only [Option.map_some, Option.bind_some, F, resolveCases_dropMap hm rest _ e w2 e2 hb.2.2]
        cases h3 : resolveCases true p2.2 rest <;> simp [F]
end

end P2.Scope
