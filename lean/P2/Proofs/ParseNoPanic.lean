import P2.Model.Parse
/-! # C03.3 `parse_no_panic`: the only modelled panic site (`p.operators[op]`) is unreachable

For the repaired code (`t.pinned = false`) for **every** table and token list; for the pinned commit
exactly under `PinnedOK` (at least one binary operator and no prefix operator that is also the
highest-priority binary operator). By induction on the fuel over all eleven mutually recursive
functions of the model. -/
namespace P2.Parse

/-- the tables on which the code of the pinned commit cannot panic -/
structure PinnedOK (t : Table) : Prop where
  pos : 0 < t.n
  un : ∀ u, u ∈ t.unary → ∀ i, t.pos u = some i → i + 1 < t.n

theorem PR.fail_np {α β : Type} {r : PR α} (h : r ≠ .panic) : (r.fail : PR β) ≠ .panic := by
  cases r <;> simp_all [PR.fail]

structure NP (t : Table) (f : Nat) : Prop where
  pLet : ∀ σ ts, parseLet t f σ ts ≠ .panic
  pOp : ∀ σ k ts, k < t.n → parseOp t f σ k ts ≠ .panic
  pLoop : ∀ σ k o a ts, loopOp t f σ k o a ts ≠ .panic
  pUn : ∀ σ ts, parseUnary t f σ ts ≠ .panic
  pNon : ∀ σ ts, parseNonOp t f σ ts ≠ .panic
  pPost : ∀ σ e ts, postfixLoop t f σ e ts ≠ .panic
  pLit : ∀ σ ts, parseLit t f σ ts ≠ .panic
  pArgs : ∀ σ br ts, parseArgs t f σ br ts ≠ .panic
  pArgsL : ∀ σ br ts, argsLoop t f σ br ts ≠ .panic
  pMap : ∀ σ keys ts, parseMap t f σ keys ts ≠ .panic
  pCases : ∀ σ ts, parseCases t f σ ts ≠ .panic

theorem identLit_ne_panic (σ : Scope) (name : String) (rest : List Tok) : identLit σ name rest ≠ .panic := by
  unfold identLit; repeat' split
  all_goals simp

-- closes every leaf of an unfolded parser function
set_option hygiene false in
local macro "np_leaf" : tactic =>
  `(tactic| first
    | (simp; done)
    | exact identLit_ne_panic _ _ _
    | exact ih.pLet _ _
    | exact ih.pUn _ _
    | exact ih.pNon _ _
    | exact ih.pLit _ _
    | exact ih.pLoop _ _ _ _ _
    | exact ih.pPost _ _ _
    | exact ih.pArgs _ _ _
    | exact ih.pArgsL _ _ _
    | exact ih.pMap _ _ _
    | exact ih.pCases _ _
    | exact ih.pOp _ _ _ (by first | assumption | exact (h ‹_›).pos | exact (h ‹_›).un _ ‹_› _ ‹_›)
    | (apply PR.fail_np; exact ih.pLet _ _)
    | (apply PR.fail_np; exact ih.pCases _ _)
    | (apply PR.fail_np; exact ih.pMap _ _ _)
    | (apply PR.fail_np; exact ih.pArgs _ _ _)
    | (apply PR.fail_np; exact ih.pArgsL _ _ _)
    | (apply PR.fail_np; exact ih.pUn _ _)
    | (apply PR.fail_np; exact ih.pOp _ _ _ (by first | assumption | exact (h ‹_›).pos)))

theorem np_zero (t : Table) : NP t 0 := by
  constructor <;> intros <;> simp [parseLet, parseOp, loopOp, parseUnary, parseNonOp, postfixLoop, parseLit,
    parseArgs, argsLoop, parseMap, parseCases]

theorem np_succ (t : Table) (h : t.pinned = true → PinnedOK t) (f : Nat) (ih : NP t f) : NP t (f+1) := by
  constructor
  · intro σ ts; simp only [parseLet]; repeat' split
    all_goals np_leaf
  · intro σ k ts hk
    have ho : t.ops[k]? = some (t.ops[k]'hk) := by simp [Table.n] at hk; simp [hk]
    simp only [parseOp, ho]; repeat' split
    all_goals np_leaf
  · intro σ k o a ts; simp only [loopOp]; repeat' split
    all_goals np_leaf
  · intro σ ts; simp only [parseUnary]; repeat' split
    all_goals np_leaf
  · intro σ ts; simp only [parseNonOp]; repeat' split
    all_goals np_leaf
  · intro σ e ts; simp only [postfixLoop]; repeat' split
    all_goals np_leaf
  · intro σ ts; simp only [parseLit]; repeat' split
    all_goals np_leaf
  · intro σ br ts; simp only [parseArgs]; repeat' split
    all_goals np_leaf
  · intro σ br ts; simp only [argsLoop]; repeat' split
    all_goals np_leaf
  · intro σ keys ts; simp only [parseMap]; repeat' split
    all_goals np_leaf
  · intro σ ts; simp only [parseCases]; repeat' split
    all_goals np_leaf

theorem np_all (t : Table) (h : t.pinned = true → PinnedOK t) : ∀ f, NP t f
  | 0 => np_zero t
  | f+1 => np_succ t h f (np_all t h f)

theorem parseTop_ne_panic (t : Table) (h : t.pinned = true → PinnedOK t) (f : Nat) (σ : Scope) (ts : List Tok) :
    parseTop t f σ ts ≠ .panic := by
  unfold parseTop
  have := (np_all t h f).pLet σ ts
  repeat' split
  all_goals simp_all

end P2.Parse
