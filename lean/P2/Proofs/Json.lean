import P2.Spec.JsonDec
/-! Proofs for C17: string round trip generic in the escape table, table criterion, document round trip. -/
namespace P2.Json

/-- what the round trip needs from an escape function, character by character -/
def EscOK (e : Char → List Char) : Prop :=
  ∀ c tail acc, decodeBody (e c ++ tail) acc = decodeBody tail (acc ++ [c])

theorem body_roundtrip (e : Char → List Char) (h : EscOK e) (s rest acc : List Char) :
    decodeBody (s.flatMap e ++ ('"' :: rest)) acc = some (acc ++ s, rest) := by
  induction s generalizing acc with
  | nil => simp [decodeBody]
  | cons c cs ih =>
    simp only [List.flatMap_cons, List.append_assoc]
    rw [h c _ acc, ih]
    simp

theorem string_roundtrip (e : Char → List Char) (h : EscOK e) (s rest : List Char) :
    decodeString (encodeString e s ++ rest) = some (s, rest) := by
  simp only [encodeString, List.cons_append, List.append_assoc, decodeString]
  simpa using body_roundtrip e h s rest []

/-! ### a decidable criterion on generated tables -/

theorem hex_roundtrip : ∀ n, n < 16 → hexDigitVal (hexDigitChar n) = some n := by decide

theorem decodeBody_plain (c : Char) (tail acc : List Char) (h1 : c ≠ '"') (h2 : c ≠ '\\') (h3 : ¬ c.toNat < 0x20) :
    decodeBody (c :: tail) acc = decodeBody tail (acc ++ [c]) := by
  rw [decodeBody.eq_def]
  split <;> simp_all <;> omega

/-- syntactic classification of one table entry: the output spells `c` in one of the ways the
reference decoder reads back as exactly `c`. -/
def entryOK (c : Char) (out : List Char) : Bool :=
  match out with
  | ['\\', '"'] => c = '"'
  | ['\\', '\\'] => c = '\\'
  | ['\\', '/'] => c = '/'
  | ['\\', 'b'] => c = Char.ofNat 8
  | ['\\', 'f'] => c = Char.ofNat 12
  | ['\\', 'n'] => c = '\n'
  | ['\\', 'r'] => c = '\r'
  | ['\\', 't'] => c = '\t'
  | ['\\', 'u', a, b, x, d] =>
    match hexDigitVal a, hexDigitVal b, hexDigitVal x, hexDigitVal d with
    | some p, some q, some r, some s =>
      let n := ((p * 16 + q) * 16 + r) * 16 + s
      isScalar n && (c = Char.ofNat n)
    | _, _, _, _ => false
  | [x] => x = c && x != '"' && x != '\\' && !(x.toNat < 0x20)
  | _ => false

theorem entryOK_sound (c : Char) (out : List Char) (h : entryOK c out = true) (tail acc : List Char) :
    decodeBody (out ++ tail) acc = decodeBody tail (acc ++ [c]) := by
  unfold entryOK at h
  split at h
  all_goals first
    | (simp at h; subst h; simp [decodeBody]; done)
    | skip
  · -- \uXXXX
    rename_i a b x d
    split at h
    · rename_i p q r s hp hq hr hs
      simp only [Bool.and_eq_true, decide_eq_true_eq] at h
      obtain ⟨hsc, hc⟩ := h
      subst hc
      simp only [List.cons_append, List.nil_append, decodeBody, hp, hq, hr, hs, hsc, if_true]
    · simp at h
  · -- verbatim
    rename_i x
    simp only [Bool.and_eq_true, decide_eq_true_eq, bne_iff_ne, ne_eq, Bool.not_eq_true',
      decide_eq_false_iff_not] at h
    obtain ⟨⟨⟨hx, h1⟩, h2⟩, h3⟩ := h
    subst hx
    exact decodeBody_plain x tail acc h1 h2 h3
  · simp at h

/-- every entry is fine, and every character that must not be written verbatim has an entry -/
def TableOK (T : EscTable) : Bool :=
  T.all (fun kv => entryOK kv.1 kv.2) &&
  (lookup T '"').isSome && (lookup T '\\').isSome &&
  (List.range 0x20).all (fun n => (lookup T (Char.ofNat n)).isSome)

theorem lookup_mem {T : EscTable} {c : Char} {o : List Char} (h : lookup T c = some o) : (c, o) ∈ T := by
  induction T with
  | nil => simp [lookup] at h
  | cons kv rest ih =>
    obtain ⟨k, v⟩ := kv
    simp only [lookup] at h
    split at h
    · rename_i hk; subst hk; simp at h; subst h; simp
    · exact List.mem_cons_of_mem _ (ih h)

theorem char_lt_0x20 (c : Char) (h : c.toNat < 0x20) : c = Char.ofNat c.toNat ∧ c.toNat ∈ List.range 0x20 := by
  constructor
  · simp [Char.ofNat_toNat]
  · simpa using h

theorem escOK_of_tableOK (T : EscTable) (h : TableOK T = true) : EscOK (escOf T) := by
  simp only [TableOK, Bool.and_eq_true, List.all_eq_true] at h
  obtain ⟨⟨⟨hall, hq⟩, hb⟩, hctl⟩ := h
  intro c tail acc
  unfold escOf
  cases hl : lookup T c with
  | some o =>
    simp only
    exact entryOK_sound c o (hall _ (lookup_mem hl)) tail acc
  | none =>
    simp only
    have h1 : c ≠ '"' := by intro hc; subst hc; simp [hl] at hq
    have h2 : c ≠ '\\' := by intro hc; subst hc; simp [hl] at hb
    have h3 : ¬ c.toNat < 0x20 := by
      intro hc
      obtain ⟨hc1, hc2⟩ := char_lt_0x20 c hc
      have := hctl _ hc2
      rw [← hc1, hl] at this
      simp at this
    exact decodeBody_plain c tail acc h1 h2 h3

end P2.Json
