import P2.Spec.Render
/-! # Basic lemmas for the round trip of the Parse model

`Ev g r` ("for all sufficiently large fuel `g` answers `r`"), table facts, and the single steps of every
function of the model in hypothesis form (never `match` in a statement). Everything here is for the
repaired model (`t.pinned = false`). -/
namespace P2.Parse

/-- for all sufficiently large fuel the result is `r` -/
def Ev {ρ : Type} (g : Nat → ρ) (r : ρ) : Prop := ∃ f0, ∀ f, f0 ≤ f → g f = r

theorem Ev.const {ρ : Type} (r : ρ) : Ev (fun _ => r) r := ⟨0, fun _ _ => rfl⟩

theorem Ev.step0 {ρ : Type} {h : Nat → ρ} {r : ρ} (hh : ∀ f, h (f+1) = r) : Ev h r := by
  refine ⟨1, fun f hle => ?_⟩
  obtain ⟨f', rfl⟩ : ∃ f', f = f' + 1 := ⟨f - 1, by omega⟩
  exact hh f'

theorem Ev.step1 {ρ1 ρ : Type} {g1 : Nat → ρ1} {h : Nat → ρ} {r1 : ρ1} {r : ρ}
    (e1 : Ev g1 r1) (hh : ∀ f, g1 f = r1 → h (f+1) = r) : Ev h r := by
  obtain ⟨f1, hf1⟩ := e1
  refine ⟨f1 + 1, fun f hle => ?_⟩
  obtain ⟨f', rfl⟩ : ∃ f', f = f' + 1 := ⟨f - 1, by omega⟩
  exact hh f' (hf1 f' (by omega))

theorem Ev.step2 {ρ1 ρ2 ρ : Type} {g1 : Nat → ρ1} {g2 : Nat → ρ2} {h : Nat → ρ} {r1 : ρ1} {r2 : ρ2} {r : ρ}
    (e1 : Ev g1 r1) (e2 : Ev g2 r2) (hh : ∀ f, g1 f = r1 → g2 f = r2 → h (f+1) = r) : Ev h r := by
  obtain ⟨f1, hf1⟩ := e1
  obtain ⟨f2, hf2⟩ := e2
  refine ⟨f1 + f2 + 1, fun f hle => ?_⟩
  obtain ⟨f', rfl⟩ : ∃ f', f = f' + 1 := ⟨f - 1, by omega⟩
  exact hh f' (hf1 f' (by omega)) (hf2 f' (by omega))

theorem Ev.step3 {ρ1 ρ2 ρ3 ρ : Type} {g1 : Nat → ρ1} {g2 : Nat → ρ2} {g3 : Nat → ρ3} {h : Nat → ρ}
    {r1 : ρ1} {r2 : ρ2} {r3 : ρ3} {r : ρ}
    (e1 : Ev g1 r1) (e2 : Ev g2 r2) (e3 : Ev g3 r3)
    (hh : ∀ f, g1 f = r1 → g2 f = r2 → g3 f = r3 → h (f+1) = r) : Ev h r := by
  obtain ⟨f1, hf1⟩ := e1
  obtain ⟨f2, hf2⟩ := e2
  obtain ⟨f3, hf3⟩ := e3
  refine ⟨f1 + f2 + f3 + 1, fun f hle => ?_⟩
  obtain ⟨f', rfl⟩ : ∃ f', f = f' + 1 := ⟨f - 1, by omega⟩
  exact hh f' (hf1 f' (by omega)) (hf2 f' (by omega)) (hf3 f' (by omega))

/-- the same function at fuel `f+1` -/
theorem Ev.succ {ρ : Type} {g h : Nat → ρ} {r : ρ} (hg : Ev g r) (hh : ∀ f, h (f+1) = g f) : Ev h r :=
  Ev.step1 hg (fun f hf => by rw [hh, hf])

/-- sequencing: first computation eventually `r1`, continuation eventually `r` -/
theorem Ev.seq {ρ1 ρ : Type} {g1 : Nat → ρ1} {g2 h : Nat → ρ} {r1 : ρ1} {r : ρ}
    (h1 : Ev g1 r1) (h2 : Ev g2 r) (hh : ∀ f, g1 f = r1 → h (f+1) = g2 f) : Ev h r :=
  Ev.step2 h1 h2 (fun f a b => by rw [hh f a, b])

theorem Ev.seq2 {ρ1 ρ2 ρ : Type} {g1 : Nat → ρ1} {g2 : Nat → ρ2} {g3 h : Nat → ρ} {r1 : ρ1} {r2 : ρ2} {r : ρ}
    (h1 : Ev g1 r1) (h2 : Ev g2 r2) (h3 : Ev g3 r) (hh : ∀ f, g1 f = r1 → g2 f = r2 → h (f+1) = g3 f) : Ev h r :=
  Ev.step3 h1 h2 h3 (fun f a b c => by rw [hh f a b, c])

theorem Ev.unique {ρ : Type} {g : Nat → ρ} {r r' : ρ} (h : Ev g r) (h' : Ev g r') : r = r' := by
  obtain ⟨f1, hf1⟩ := h
  obtain ⟨f2, hf2⟩ := h'
  rw [← hf1 (f1 + f2) (by omega), hf2 (f1 + f2) (by omega)]

theorem Ev.congr {ρ : Type} {g g' : Nat → ρ} {r : ρ} (h : Ev g r) (hg : ∀ f, g' f = g f) : Ev g' r := by
  obtain ⟨f0, hf⟩ := h
  exact ⟨f0, fun f hle => by rw [hg, hf f hle]⟩

/-! ### table facts (`posOf` = index of the last occurrence) -/

theorem posOf_get : ∀ {l : List String} {o : String} {k : Nat}, posOf l o = some k → l[k]? = some o
  | [], _, _, h => by simp [posOf] at h
  | x :: xs, o, k, h => by
    simp only [posOf] at h
    cases hx : posOf xs o with
    | some j =>
      simp only [hx, Option.some.injEq] at h; subst h
      simpa using posOf_get hx
    | none =>
      simp only [hx] at h
      split at h
      · cases h; simp_all
      · cases h

theorem posOf_lt {l : List String} {o : String} {k : Nat} (h : posOf l o = some k) : k < l.length :=
  (List.getElem?_eq_some_iff.mp (posOf_get h)).1

theorem posOf_none_of_not_mem : ∀ {l : List String} {o : String}, o ∉ l → posOf l o = none
  | [], _, _ => rfl
  | x :: xs, o, h => by
    have h1 : o ∉ xs := fun hm => h (List.mem_cons_of_mem _ hm)
    have h2 : x ≠ o := fun he => h (by simp [he])
    simp [posOf, posOf_none_of_not_mem h1, h2]

theorem posOf_of_get : ∀ {l : List String} {o : String} {k : Nat}, l.Nodup → l[k]? = some o → posOf l o = some k
  | [], _, _, _, h => by simp at h
  | x :: xs, o, k, hnd, h => by
    simp only [posOf]
    cases k with
    | zero =>
      simp at h; subst h
      simp [posOf_none_of_not_mem (List.nodup_cons.mp hnd).1]
    | succ k =>
      simp at h
      simp [posOf_of_get (List.nodup_cons.mp hnd).2 h]

theorem pos_lt_n {t : Table} {o : String} {k : Nat} (h : t.pos o = some k) : k < t.n := posOf_lt h
theorem pos_get {t : Table} {o : String} {k : Nat} (h : t.pos o = some k) : t.ops[k]? = some o := posOf_get h
theorem pos_of_get {t : Table} (hwf : TableWF t) {o : String} {k : Nat} (h : t.ops[k]? = some o) :
    t.pos o = some k := posOf_of_get hwf.nodup h
theorem lvl_of_pos {t : Table} {o : String} {k : Nat} (h : t.pos o = some k) : t.lvl o = k := by
  simp [Table.lvl, h]
theorem pos_ne_arrow {t : Table} (hwf : TableWF t) {o : String} {k : Nat} (h : t.pos o = some k) : o ≠ "->" := by
  intro he; subst he
  exact hwf.arrowOp (List.mem_of_getElem? (pos_get h))

/-! ### the levels under one name -/

theorem level_eq {t : Table} {j : Nat} (hj : j ≤ t.n) (f : Nat) (σ : Scope) (ts : List Tok) :
    (if j < t.n then parseOp t f σ j ts else parseUnary t f σ ts) = entry t f σ j ts := by
  unfold entry
  by_cases h : j < t.n
  · simp [h]
  · have : j = t.n := by omega
    simp [this]

theorem plevel_eq {t : Table} {j : Nat} (hp : t.pinned = false) (hj : j ≤ t.n) (f : Nat) (σ : Scope)
    (ts : List Tok) :
    (if t.pinned = true then parseOp t f σ j ts
      else if j < t.n then parseOp t f σ j ts else parseUnary t f σ ts) = entry t f σ j ts := by
  simp only [hp, Bool.false_eq_true, if_false]
  exact level_eq hj f σ ts

theorem entry_lt {t : Table} {k : Nat} (hk : k < t.n) (f : Nat) (σ : Scope) (ts : List Tok) :
    entry t f σ k ts = parseOp t f σ k ts := by simp [entry, hk]
theorem entry_n (t : Table) (f : Nat) (σ : Scope) (ts : List Tok) :
    entry t f σ t.n ts = parseUnary t f σ ts := by simp [entry]
theorem entry_n1 (t : Table) (f : Nat) (σ : Scope) (ts : List Tok) :
    entry t f σ (t.n + 1) ts = parseNonOp t f σ ts := by
  have h1 : ¬ t.n + 1 < t.n := by omega
  have h2 : ¬ t.n + 1 = t.n := by omega
  simp [entry, h1, h2]
theorem entry_lit {t : Table} {k : Nat} (hk : t.n + 1 < k) (f : Nat) (σ : Scope) (ts : List Tok) :
    entry t f σ k ts = parseLit t f σ ts := by
  have h1 : ¬ k < t.n := by omega
  have h2 : ¬ k = t.n := by omega
  have h3 : ¬ k = t.n + 1 := by omega
  simp [entry, h1, h2, h3]

/-! ### single steps -/

theorem entry_bin_step {t : Table} {k : Nat} {o : String} (hk : k < t.n) (ho : t.ops[k]? = some o)
    (f : Nat) (σ : Scope) (ts : List Tok) {a : E} {rest : List Tok}
    (h : entry t f σ (k+1) ts = .ok a rest) :
    entry t (f+1) σ k ts = loopOp t f σ k o a rest := by
  rw [entry_lt hk]
  simp only [parseOp, ho, level_eq (show k + 1 ≤ t.n by omega), h]

theorem loop_step {t : Table} {k : Nat} (hk : k < t.n) (f : Nat) (σ : Scope) (o : String) (a : E)
    (rest : List Tok) {b : E} {rest' : List Tok} (h : entry t f σ (k+1) rest = .ok b rest') :
    loopOp t (f+1) σ k o a (.op o :: rest) = loopOp t f σ k o (.bin o a b) rest' := by
  simp only [loopOp, if_true, level_eq (show k + 1 ≤ t.n by omega), h]

theorem loop_stop (t : Table) (f : Nat) (σ : Scope) (k : Nat) (o : String) (a : E) (ts : List Tok)
    (h : ∀ tl, ts ≠ .op o :: tl) : loopOp t (f+1) σ k o a ts = .ok a ts := by
  simp only [loopOp]
  split
  · split
    · rename_i s rest hs; subst hs; exact absurd rfl (h _)
    · rfl
  · rfl

theorem unary_skip (t : Table) (f : Nat) (σ : Scope) (ts : List Tok)
    (h : ∀ s tl, ts = .op s :: tl → s ∉ t.unary) :
    entry t (f+1) σ t.n ts = entry t f σ (t.n+1) ts := by
  rw [entry_n, entry_n1]
  simp only [parseUnary]
  split
  · rename_i s rest
    simp [h s rest rfl]
  · rfl

theorem unary_some {t : Table} (hp : t.pinned = false) (f : Nat) (σ : Scope) {s : String} {i : Nat}
    (rest : List Tok) (hs : s ∈ t.unary) (hpos : t.pos s = some i) {a : E} {r : List Tok}
    (h : entry t f σ (i+1) rest = .ok a r) :
    entry t (f+1) σ t.n (.op s :: rest) = .ok (.un s a) r := by
  rw [entry_n]
  have hi := pos_lt_n hpos
  simp only [parseUnary, hs, if_true, hpos, plevel_eq hp (show i + 1 ≤ t.n by omega), h]

theorem unary_none {t : Table} (f : Nat) (σ : Scope) {s : String}
    (rest : List Tok) (hs : s ∈ t.unary) (hpos : t.pos s = none) {a : E} {r : List Tok}
    (h : entry t f σ (t.n+1) rest = .ok a r) :
    entry t (f+1) σ t.n (.op s :: rest) = .ok (.un s a) r := by
  rw [entry_n]
  rw [entry_n1] at h
  simp only [parseUnary, hs, if_true, hpos, h]

theorem nonop_step (t : Table) (f : Nat) (σ : Scope) (ts : List Tok) {e : E} {rest : List Tok}
    (h : parseLit t f σ ts = .ok e rest) :
    entry t (f+1) σ (t.n+1) ts = postfixLoop t f σ e rest := by
  rw [entry_n1]
  simp only [parseNonOp, h]

/-- tokens that continue an expression in the postfix loop -/
def isPostfixTok : Tok → Bool
  | .dot => true | .lp => true | .lb => true | _ => false

theorem postfix_stop (t : Table) (f : Nat) (σ : Scope) (e : E) (ts : List Tok)
    (h : ∀ x tl, ts = x :: tl → isPostfixTok x = false) : postfixLoop t (f+1) σ e ts = .ok e ts := by
  simp only [postfixLoop]
  split
  · exact absurd (h _ _ rfl) (by simp [isPostfixTok])
  · exact absurd (h _ _ rfl) (by simp [isPostfixTok])
  · exact absurd (h _ _ rfl) (by simp [isPostfixTok])
  · rfl

theorem postfix_member (t : Table) (f : Nat) (σ : Scope) (e : E) (key : String) (rest : List Tok)
    (h : ∀ tl, rest ≠ .lp :: tl) :
    postfixLoop t (f+1) σ e (.dot :: .ident key :: rest) = postfixLoop t f σ (.member e key) rest := by
  cases rest with
  | nil => simp only [postfixLoop]
  | cons x tl =>
    cases x <;> first | exact absurd rfl (h _) | simp only [postfixLoop]

theorem postfix_method (t : Table) (f : Nat) (σ : Scope) (e : E) (name : String) (rest : List Tok)
    {args : List E} {r : List Tok} (h : parseArgs t f σ false rest = .ok args r) :
    postfixLoop t (f+1) σ e (.dot :: .ident name :: .lp :: rest) = postfixLoop t f σ (.method e name args) r := by
  simp only [postfixLoop, h]

theorem postfix_call (t : Table) (f : Nat) (σ : Scope) (e : E) (rest : List Tok)
    {args : List E} {r : List Tok} (h : parseArgs t f σ false rest = .ok args r) :
    postfixLoop t (f+1) σ e (.lp :: rest) = postfixLoop t f σ (.call e args) r := by
  simp only [postfixLoop, h]

theorem postfix_index {t : Table} (hp : t.pinned = false) (f : Nat) (σ : Scope) (e : E) (rest : List Tok)
    {i : E} {r : List Tok} (h : entry t f σ 0 rest = .ok i (.rb :: r)) :
    postfixLoop t (f+1) σ e (.lb :: rest) = postfixLoop t f σ (.index e i) r := by
  simp only [postfixLoop, plevel_eq hp (Nat.zero_le _), h]

/-! ### `parseLit` -/

theorem lit_num (t : Table) (f : Nat) (σ : Scope) (s : String) (rest : List Tok) :
    parseLit t (f+1) σ (.num s :: rest) = .ok (.num s) rest := by simp only [parseLit]

theorem lit_str (t : Table) (f : Nat) (σ : Scope) (s : String) (rest : List Tok) :
    parseLit t (f+1) σ (.str s :: rest) = .ok (.str s) rest := by simp only [parseLit]

theorem lit_ident (t : Table) (f : Nat) (σ : Scope) (s : String) (rest : List Tok)
    (h : ∀ tl, rest ≠ .op "->" :: tl) :
    parseLit t (f+1) σ (.ident s :: rest) = identLit σ s rest := by
  simp only [parseLit]
  split
  · split
    · rename_i s' r hs; subst hs; exact absurd rfl (h _)
    · rfl
  · rfl

theorem lit_paren {t : Table} (hp : t.pinned = false) (f : Nat) (σ : Scope) (rest : List Tok)
    (hs : startsIdentComma rest = false) {e : E} {r : List Tok}
    (h : entry t f σ 0 rest = .ok e (.rp :: r)) :
    parseLit t (f+1) σ (.lp :: rest) = .ok e r := by
  simp only [parseLit, hs, Bool.false_eq_true, if_false, plevel_eq hp (Nat.zero_le _), h]

theorem lit_clos1 (t : Table) (f : Nat) (σ : Scope) (x : String) (rest : List Tok) {body : E} {r : List Tok}
    (h : parseLet t f ((x, .var) :: σ) rest = .ok body r) :
    parseLit t (f+1) σ (.ident x :: .op "->" :: rest) = .ok (.clos [x] body) r := by
  simp only [parseLit, if_true, h]

theorem lit_closN (t : Table) (f : Nat) (σ : Scope) (toks rest : List Tok) {names : List String}
    (hs : startsIdentComma toks = true)
    (hl : parseIdentList [] toks = some (names, .op "->" :: rest)) {body : E} {r : List Tok}
    (h : parseLet t f (varsOf names ++ σ) rest = .ok body r) :
    parseLit t (f+1) σ (.lp :: toks) = .ok (.clos names body) r := by
  simp only [parseLit, hs, if_true, hl, h]

theorem lit_list (t : Table) (f : Nat) (σ : Scope) (rest : List Tok) {items : List E} {r : List Tok}
    (h : parseArgs t f σ true rest = .ok items r) :
    parseLit t (f+1) σ (.lb :: rest) = .ok (.list items) r := by
  simp only [parseLit, h]

theorem lit_map (t : Table) (f : Nat) (σ : Scope) (rest : List Tok) {m : List (String × E)} {r : List Tok}
    (h : parseMap t f σ [] rest = .ok m r) :
    parseLit t (f+1) σ (.lc :: rest) = .ok (.map m) r := by
  simp only [parseLit, h]

theorem lit_try (t : Table) (f : Nat) (σ : Scope) (rest : List Tok) {a c : E} {r1 r : List Tok}
    (h1 : parseLet t f σ rest = .ok a (.kw "catch" :: r1)) (h2 : parseLet t f σ r1 = .ok c r) :
    parseLit t (f+1) σ (.kw "try" :: rest) = .ok (.tryC a c) r := by
  simp only [parseLit, if_true, h1, h2]

theorem lit_if {t : Table} (hp : t.pinned = false) (f : Nat) (σ : Scope) (rest : List Tok) {c a b : E}
    {r1 r2 r : List Tok}
    (h1 : entry t f σ 0 rest = .ok c (.kw "then" :: r1)) (h2 : parseLet t f σ r1 = .ok a (.kw "else" :: r2))
    (h3 : parseLet t f σ r2 = .ok b r) :
    parseLit t (f+1) σ (.kw "if" :: rest) = .ok (.ite c a b) r := by
  have e1 : ("if" : String) ≠ "try" := by decide
  simp only [parseLit, e1, if_false, if_true, plevel_eq hp (Nat.zero_le _), h1, h2, h3]

theorem lit_switch {t : Table} (hp : t.pinned = false) (f : Nat) (σ : Scope) (rest : List Tok) {v d : E}
    {cs : List (E × E)} {r1 r : List Tok}
    (h1 : entry t f σ 0 rest = .ok v r1) (h2 : parseCases t f σ r1 = .ok (cs, d) r) :
    parseLit t (f+1) σ (.kw "switch" :: rest) = .ok (.switch v cs d) r := by
  have e1 : ("switch" : String) ≠ "try" := by decide
  have e2 : ("switch" : String) ≠ "if" := by decide
  simp only [parseLit, e1, e2, if_false, if_true, plevel_eq hp (Nat.zero_le _), h1, h2]

/-! ### `parseLet` -/

theorem let_fall {t : Table} (hp : t.pinned = false) (f : Nat) (σ : Scope) (ts : List Tok)
    (h : ∀ tl, ts ≠ .kw "let" :: tl ∧ ts ≠ .kw "func" :: tl) :
    parseLet t (f+1) σ ts = entry t f σ 0 ts := by
  simp only [parseLet, plevel_eq hp (Nat.zero_le _)]
  split
  · rename_i s rest
    split
    · rename_i hs; subst hs; exact absurd rfl (h _).1
    · split
      · rename_i hs; subst hs; exact absurd rfl (h _).2
      · rfl
  · rfl

theorem let_let {t : Table} (hp : t.pinned = false) (f : Nat) (σ : Scope) (name : String) (rest : List Tok)
    {v inner : E} {r1 r : List Tok} (hc : v.isConst = false)
    (h1 : entry t f σ 0 rest = .ok v (.semi :: r1))
    (h2 : parseLet t f ((name, .var) :: σ) r1 = .ok inner r) :
    parseLet t (f+1) σ (.kw "let" :: .ident name :: .op "=" :: rest) = .ok (.letE name v inner) r := by
  simp only [parseLet, if_true, plevel_eq hp (Nat.zero_le _), h1, hc, Bool.false_eq_true, if_false, h2]

theorem let_func (t : Table) (f : Nat) (σ : Scope) (name : String) (toks : List Tok)
    {names : List String} {rest : List Tok} (hl : parseIdentList [] toks = some (names, rest))
    {body inner : E} {r1 r : List Tok}
    (h1 : parseLet t f ((name, .var) :: (varsOf names ++ σ)) rest = .ok body (.semi :: r1))
    (h2 : parseLet t f ((name, .var) :: σ) r1 = .ok inner r) :
    parseLet t (f+1) σ (.kw "func" :: .ident name :: .lp :: toks) = .ok (.funcE name names body inner) r := by
  have e1 : ("func" : String) ≠ "let" := by decide
  simp only [parseLet, e1, if_false, if_true, hl, h1, h2]

/-! ### argument lists, map literals, `case` lists -/

def closeTok (br : Bool) : Tok := if br then .rb else .rp

@[simp] theorem isClose_closeTok (br : Bool) : isClose br (closeTok br) = true := by
  cases br <;> rfl

theorem args_empty (t : Table) (f : Nat) (σ : Scope) (br : Bool) (rest : List Tok) :
    parseArgs t (f+1) σ br (closeTok br :: rest) = .ok [] rest := by
  simp only [parseArgs, isClose_closeTok, if_true]

theorem args_start (t : Table) (f : Nat) (σ : Scope) (br : Bool) (ts : List Tok)
    (h : ∀ x tl, ts = x :: tl → isClose br x = false) :
    parseArgs t (f+1) σ br ts = argsLoop t f σ br ts := by
  simp only [parseArgs]
  split
  · rename_i x rest; simp [h x rest rfl]
  · rfl

theorem argsLoop_last (t : Table) (f : Nat) (σ : Scope) (br : Bool) (ts : List Tok) {a : E} {rest : List Tok}
    (h : parseLet t f σ ts = .ok a (closeTok br :: rest)) :
    argsLoop t (f+1) σ br ts = .ok [a] rest := by
  simp only [argsLoop, h, isClose_closeTok, if_true]

theorem argsLoop_trail (t : Table) (f : Nat) (σ : Scope) (br : Bool) (ts : List Tok) {a : E} {rest : List Tok}
    (h : parseLet t f σ ts = .ok a (.comma :: closeTok br :: rest)) :
    argsLoop t (f+1) σ br ts = .ok [a] rest := by
  have : isClose br .comma = false := by cases br <;> rfl
  simp only [argsLoop, h, this, Bool.false_eq_true, if_false, if_true, isClose_closeTok]

theorem argsLoop_more (t : Table) (f : Nat) (σ : Scope) (br : Bool) (ts : List Tok) {a : E} {rest : List Tok}
    {as : List E} {r : List Tok}
    (h : parseLet t f σ ts = .ok a (.comma :: rest))
    (hn : ∀ x tl, rest = x :: tl → isClose br x = false)
    (h2 : argsLoop t f σ br rest = .ok as r) :
    argsLoop t (f+1) σ br ts = .ok (a :: as) r := by
  have : isClose br .comma = false := by cases br <;> rfl
  simp only [argsLoop, h, this, Bool.false_eq_true, if_false, if_true]
  split
  · rename_i y rest'
    simp only [hn y rest' rfl, Bool.false_eq_true, if_false, h2]
  · simp only [h2]

theorem map_end (t : Table) (f : Nat) (σ : Scope) (keys : List String) (rest : List Tok) :
    parseMap t (f+1) σ keys (.rc :: rest) = .ok [] rest := by simp only [parseMap]

theorem map_entry_comma (t : Table) (f : Nat) (σ : Scope) (keys : List String) (key : String)
    (ts : List Tok) {v : E} {rest : List Tok} {m : List (String × E)} {r : List Tok} (hk : key ∉ keys)
    (h1 : parseLet t f σ ts = .ok v (.comma :: rest))
    (h2 : parseMap t f σ (key :: keys) rest = .ok m r) :
    parseMap t (f+1) σ keys (.ident key :: .colon :: ts) = .ok ((key, v) :: m) r := by
  simp only [parseMap, hk, if_false, h1, h2]

theorem map_entry_last (t : Table) (f : Nat) (σ : Scope) (keys : List String) (key : String)
    (ts : List Tok) {v : E} {rest : List Tok} {m : List (String × E)} {r : List Tok} (hk : key ∉ keys)
    (h1 : parseLet t f σ ts = .ok v (.rc :: rest))
    (h2 : parseMap t f σ (key :: keys) (.rc :: rest) = .ok m r) :
    parseMap t (f+1) σ keys (.ident key :: .colon :: ts) = .ok ((key, v) :: m) r := by
  simp only [parseMap, hk, if_false, h1, h2]

theorem cases_default (t : Table) (f : Nat) (σ : Scope) (ts : List Tok) {d : E} {r : List Tok}
    (h : parseLet t f σ ts = .ok d r) :
    parseCases t (f+1) σ (.kw "default" :: ts) = .ok ([], d) r := by
  have e1 : ("default" : String) ≠ "case" := by decide
  simp only [parseCases, e1, if_false, if_true, h]

theorem cases_case {t : Table} (hp : t.pinned = false) (f : Nat) (σ : Scope) (ts : List Tok) {c v d : E}
    {r1 r2 r : List Tok} {cs : List (E × E)}
    (h1 : entry t f σ 0 ts = .ok c (.colon :: r1)) (h2 : parseLet t f σ r1 = .ok v r2)
    (h3 : parseCases t f σ r2 = .ok (cs, d) r) :
    parseCases t (f+1) σ (.kw "case" :: ts) = .ok ((c, v) :: cs, d) r := by
  simp only [parseCases, if_true, plevel_eq hp (Nat.zero_le _), h1, h2, h3]

end P2.Parse
