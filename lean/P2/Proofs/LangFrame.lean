import P2.Proofs.LangEq
/-! # C01: frames — the invariant at closure creation, at closure entry and for pushed arguments -/
namespace P2.Lang
variable {S : Statics}

/-! ## unfolding `WA` -/
theorem WA_letE {sc vis x v i} : WA S sc vis (.letE x v i) ↔ WA S sc vis v ∧ WA S (x :: sc) (x :: vis) i := by
  simp only [WA]
theorem WA_ifE {sc vis c t e} : WA S sc vis (.ifE c t e) ↔ WA S sc vis c ∧ WA S sc vis t ∧ WA S sc vis e := by
  simp only [WA]
theorem WA_switchE {sc vis v cases d} :
    WA S sc vis (.switchE v cases d) ↔ WA S sc vis v ∧ WA S sc vis d ∧ WAcases S sc vis cases := by
  simp only [WA]
theorem WA_tryE {sc vis t c} : WA S sc vis (.tryE t c) ↔ WA S sc vis t ∧ WA S sc vis c := by
  simp only [WA]
theorem WA_unary {sc vis op a} : WA S sc vis (.unary op a) ↔ WA S sc vis a := by
  simp only [WA]
theorem WA_binop {sc vis op a b} : WA S sc vis (.binop op a b) ↔ WA S sc vis a ∧ WA S sc vis b := by
  simp only [WA]
theorem WA_clos {sc vis names body outer r this} : WA S sc vis (.clos names body outer r this) ↔
    WA S (names ++ (if r then [this] else []) ++ sc) (names ++ outer ++ (if r then [this] else [])) body := by
  simp only [WA]
theorem WA_listLit {sc vis items} : WA S sc vis (.listLit items) ↔ WAs S sc vis items := by
  simp only [WA]
theorem WA_index {sc vis i l} : WA S sc vis (.index i l) ↔ WA S sc vis i ∧ WA S sc vis l := by
  simp only [WA]
theorem WA_mapLit {sc vis kvs} : WA S sc vis (.mapLit kvs) ↔ WAkvs S sc vis kvs := by
  simp only [WA]
theorem WA_member {sc vis m key} : WA S sc vis (.member m key) ↔ WA S sc vis m := by
  simp only [WA]
theorem WA_call {sc vis f args} : WA S sc vis (.call f args) ↔
    WA S sc vis f ∧ WAs S sc vis args ∧ CallOK S sc vis f := by
  simp only [WA]
theorem WA_call_ident {sc vis name args} (h : WA S sc vis (.call (.ident name) args)) :
    (S name).isSome → name ∈ sc → name ∈ vis := (WA_call.mp h).2.2
theorem WA_method {sc vis recv name args} :
    WA S sc vis (.method recv name args) ↔ WA S sc vis recv ∧ WAs S sc vis args := by
  simp only [WA]
theorem WAs_cons {sc vis a as} : WAs S sc vis (a :: as) ↔ WA S sc vis a ∧ WAs S sc vis as := by
  simp only [WAs]
theorem WAkvs_cons {sc vis k a as} : WAkvs S sc vis ((k, a) :: as) ↔ WA S sc vis a ∧ WAkvs S sc vis as := by
  simp only [WAkvs]
theorem WAcases_cons {sc vis c r rest} :
    WAcases S sc vis ((c, r) :: rest) ↔ WA S sc vis c ∧ WA S sc vis r ∧ WAcases S sc vis rest := by
  simp only [WAcases]

theorem VRel.ofScalar (c : Scalar) : VRel S (ofScalar c) (ofScalar c) := by
  cases c <;> constructor

/-! ## closure creation -/

theorem capture_sound {sc vis am cm env st cs} (h : EnvRel S sc vis am cm env st cs) :
    ∀ (outer : List String) (cap), captureOf am cm outer = some cap →
      ∃ ctx, readCapture st cs cap = .ok ctx ∧ CtxRel S env outer ctx
  | [], cap, hc => by
    simp [captureOf] at hc; subst hc; exact ⟨[], rfl, .nil⟩
  | x :: xs, cap, hc => by
    simp only [captureOf] at hc
    cases hi : idx am x with
    | some i =>
      simp only [hi, Option.bind_eq_bind, Option.bind_some] at hc
      cases hr : captureOf am cm xs with
      | none => simp [hr] at hc
      | some cap' =>
        simp [hr] at hc; subst hc
        obtain ⟨ctx, h1, h2⟩ := capture_sound h xs cap' hr
        obtain ⟨sv, rv, a, b, c⟩ := h.slots x i hi
        exact ⟨rv :: ctx, by simp [readCapture, Stack.get, R.ofIndex, b, h1], .cons a c h2⟩
    | none =>
      simp only [hi] at hc
      cases hj : idxS cm x with
      | none => simp [hj] at hc
      | some j =>
        cases hr : captureOf am cm xs with
        | none => simp [hj, hr] at hc
        | some cap' =>
          simp [hj, hr] at hc; subst hc
          obtain ⟨ctx, h1, h2⟩ := capture_sound h xs cap' hr
          obtain ⟨sv, rv, a, b, c⟩ := h.cslots x j hi hj
          exact ⟨rv :: ctx, by simp [readCapture, R.ofIndex, b, h1], .cons a c h2⟩

/-! ## closure entry -/

theorem bindParams_get_mem {names : List String} {vs : List Val} {x : String}
    (hlen : names.length = vs.length) (h : Env.get (bindParams names vs) x ≠ none) : x ∈ names := by
  have hbp := bindParams_get names vs x hlen
  cases hi : idx (names.map some) x with
  | none => rw [hi] at hbp; exact absurd hbp h
  | some i => exact (idx_map_some_ne_none_iff_mem names x).mp (by simp [hi])

/-- the callee's frame and its environment: parameters in the frame, captured values and (for a
recursive closure) the closure itself in the context -/
theorem EnvRel.frame {names : List String} {cenv : Env} {r : Bool} {this : String} {outer : List String}
    {ctx : List Val} {sc0 : List String}
    (hsc0 : ∀ x, Env.get cenv x ≠ none → x ∈ sc0)
    (hthis : r = true → idxS outer this = none)
    (hctx : CtxRel S cenv outer ctx)
    {fS fR : Val} (hself : r = true → VRel S fS fR)
    {data : List Val} {base : Nat} {vs : List Val} (hlen : vs.length = names.length)
    (hbound : base + names.length ≤ data.length)
    (hfr : ∀ j, j < names.length → ∃ sv rv, vs[j]? = some sv ∧ data[base + j]? = some rv ∧ VRel S sv rv) :
    EnvRel S (names ++ (if r then [this] else []) ++ sc0) (names ++ outer ++ (if r then [this] else []))
      (names.map some) (outer ++ (if r then [this] else []))
      (bindParams names vs ++ (if r then [(this, fS)] else []) ++ cenv)
      ⟨data, base, names.length⟩ (ctx ++ (if r then [fR] else [])) := by
  have hthisget : ∀ x, ¬ (r = true ∧ this = x) →
      Env.get (if r then [(this, fS)] else []) x = none := by
    intro x hne
    by_cases hr1 : r = true
    · simp only [hr1, if_true, Env.get]
      rw [if_neg (fun h => hne ⟨hr1, h⟩)]
    · simp [hr1, Env.get]
  refine ⟨by simp, hbound, ?_, ?_, ?_, ?_⟩
  · intro x i hi
    have hbp := bindParams_get names vs x hlen.symm
    rw [hi] at hbp
    obtain ⟨hget, hilt⟩ := hbp
    obtain ⟨sv', rv', a1, a2, a3⟩ := hfr i (by omega)
    refine ⟨sv', rv', ?_, a2, a3⟩
    rw [List.append_assoc, Env.get_append, hget, a1]
  · intro x j hi hj
    have hbp := bindParams_get names vs x hlen.symm
    rw [hi] at hbp
    rw [idxS_append] at hj
    have hcl := hctx.length
    cases hjo : idxS outer x with
    | some j0 =>
      simp [hjo] at hj; subst hj
      obtain ⟨sv', rv', a1, a2, a3⟩ := hctx.lookup hjo
      have hne : ¬ (r = true ∧ this = x) := by
        rintro ⟨hr1, rfl⟩; rw [hthis hr1] at hjo; cases hjo
      refine ⟨sv', rv', ?_, ?_, a3⟩
      · rw [List.append_assoc, Env.get_append, hbp, Env.get_append]
        simp only [hthisget x hne, a1]
      · have := idxS_lt hjo
        rw [List.getElem?_append_left (by omega)]; exact a2
    | none =>
      simp only [hjo] at hj
      by_cases hr1 : r = true
      · simp only [hr1, if_true, idxS] at hj ⊢
        by_cases hx : this = x
        · subst hx
          simp at hj; subst hj
          refine ⟨_, _, ?_, ?_, hself hr1⟩
          · rw [List.append_assoc, Env.get_append, hbp]
            simp [Env.get]
          · rw [← hcl]; simp
        · simp [hx] at hj
      · simp [hr1, idxS] at hj
  · intro x hx
    rw [List.append_assoc, Env.get_append] at hx
    cases hg : Env.get (bindParams names vs) x with
    | some v =>
      have := bindParams_get_mem hlen.symm (x := x) (by simp [hg])
      simp [this]
    | none =>
      simp only [hg, Env.get_append] at hx
      by_cases hne : r = true ∧ this = x
      · obtain ⟨hr1, rfl⟩ := hne; simp [hr1]
      · simp only [hthisget x hne] at hx
        have := hsc0 x hx
        simp [this]
  · intro x hx
    simp only [List.mem_append] at hx
    rcases hx with (hx | hx) | hx
    · exact .inl ((idx_map_some_ne_none_iff_mem names x).mpr hx)
    · exact .inr ((idxS_ne_none_iff_mem _ x).mpr (by simp [hx]))
    · exact .inr ((idxS_ne_none_iff_mem _ x).mpr (by simp [hx]))

/-! ## pushed arguments -/

/-- what `execArgs` establishes: `k` new slots above the caller's frame holding values related to
the reference argument values -/
def ArgsPost (S : Statics) (st : Stack) (k : Nat) (vs : List Val) (st' : Stack) : Prop :=
  st'.offs = st.offs ∧ st'.size = st.size + k ∧ Preserves st st'.data ∧ vs.length = k ∧
  ∀ j, j < k → ∃ sv rv, vs[j]? = some sv ∧ st'.data[st.offs + st.size + j]? = some rv ∧ VRel S sv rv

theorem ArgsPost.bound {st k vs st'} (h : ArgsPost S st k vs st') (hb : st.offs + st.size ≤ st.data.length) :
    st.offs + st.size + k ≤ st'.data.length := by
  obtain ⟨_, _, hp, _, hfr⟩ := h
  cases k with
  | zero => have := hp.1; omega
  | succ k =>
    obtain ⟨_, rv', _, a2, _⟩ := hfr k (by omega)
    have := (List.getElem?_eq_some_iff.mp a2).1
    omega

theorem pointwise_VsRel : ∀ (vs : List Val) (d : List Val) (base : Nat),
    (∀ j, j < vs.length → ∃ sv rv, vs[j]? = some sv ∧ d[base + j]? = some rv ∧ VRel S sv rv) →
    VsRel S vs ((d.drop base).take vs.length)
  | [], d, base, _ => by simp; exact .nil
  | v :: vs, d, base, h => by
    obtain ⟨sv, rv, h1, h2, h3⟩ := h 0 (by simp)
    simp at h1; subst h1
    have hlt : base < d.length := (List.getElem?_eq_some_iff.mp (by simpa using h2)).1
    have hd : d.drop base = rv :: d.drop (base + 1) := by
      rw [List.drop_eq_getElem_cons hlt]
      congr 1
      have := (List.getElem?_eq_some_iff.mp (by simpa using h2)).2
      exact this
    rw [hd]
    simp only [List.length_cons, List.take_succ_cons]
    refine .cons h3 (pointwise_VsRel vs d (base + 1) ?_)
    intro j hj
    obtain ⟨sv', rv', a1, a2, a3⟩ := h (j + 1) (by simp; omega)
    refine ⟨sv', rv', by simpa using a1, ?_, a3⟩
    rw [← a2]; congr 1; omega

/-- the pushed values, read back as the argument vector of a built-in -/
theorem ArgsPost.argv {st k vs st'} (h : ArgsPost S st k vs st') :
    VsRel S vs ((st'.data.drop (st.offs + st.size)).take k) := by
  obtain ⟨_, _, _, hlen, hfr⟩ := h
  subst hlen
  exact pointwise_VsRel vs st'.data _ hfr

theorem VsRel.pointwise : ∀ {vs vs' : List Val}, VsRel S vs vs' →
    ∀ j, j < vs.length → ∃ sv rv, vs[j]? = some sv ∧ vs'[j]? = some rv ∧ VRel S sv rv
  | _, _, .cons hv _, 0, _ => ⟨_, _, by simp, by simp, hv⟩
  | _, _, .cons _ h, j+1, hj => by
    obtain ⟨sv, rv, a, b, c⟩ := VsRel.pointwise h j (by simpa using hj)
    exact ⟨sv, rv, by simpa using a, by simpa using b, c⟩

theorem pushAll_fresh : ∀ (d vs : List Val), pushAll ⟨d, 0, d.length⟩ vs = ⟨d ++ vs, 0, d.length + vs.length⟩
  | d, [] => by simp [pushAll]
  | d, v :: vs => by
    have h : (⟨d, 0, d.length⟩ : Stack).push v = ⟨d ++ [v], 0, (d ++ [v]).length⟩ := by
      simp [Stack.push, setAt]
    simp only [pushAll, h, pushAll_fresh (d ++ [v]) vs]
    simp [Nat.add_assoc, Nat.add_comm 1]

theorem pushAll_empty (vs : List Val) : pushAll ⟨[], 0, 0⟩ vs = ⟨vs, 0, vs.length⟩ := by
  simpa using pushAll_fresh [] vs

end P2.Lang
