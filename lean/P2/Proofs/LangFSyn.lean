import P2.Proofs.LangFRel
/-! # C02 on the value language, rule (f): syntactic lemmas

* `kv e k`: the value of a constant form `k` in the environment `e` (`kv_eval`), `reify_kv`;
* `wscoped` is monotone in the name list and follows from the success of `gen` (`gen_wscoped`), hence a
  constant form is well-scoped in the empty name list (`isConst_wscoped`). -/
namespace P2.Lang.F
open P2.Lang P2.Lang.Opt

/-! ## the value of a constant form -/

mutual
def kv (e : Env) : AST → Val
  | .const c => ofScalar c
  | .listLit items => .list (.items (kvL e items))
  | .mapLit kvs => .map (kvKVs e kvs)
  | .clos names body _ r this => .sclos names body e r this
  | _ => .int 0
def kvL (e : Env) : List AST → List Val
  | [] => []
  | a :: as => kv e a :: kvL e as
def kvKVs (e : Env) : List (String × AST) → List (String × Val)
  | [] => []
  | (k, a) :: as => (k, kv e a) :: kvKVs e as
end

variable {S : Statics} {M : Methods} {cfg : Cfg}

mutual
theorem kv_eval : ∀ (k : AST), isConst S cfg k = true →
    ∃ m0, ∀ (e : Env) (m : Nat), m0 ≤ m → eval S M m k e = .ok (kv e k)
  | .const c, _ => ⟨1, fun e m hm => by
      cases m with
      | zero => omega
      | succ m => rfl⟩
  | .listLit xs, h => by
    simp only [isConst] at h
    obtain ⟨m0, h0⟩ := kvL_eval xs h
    refine ⟨m0 + 1, fun e m hm => ?_⟩
    cases m with
    | zero => omega
    | succ m => rw [eval_listLit, h0 e m (by omega)]; rfl
  | .mapLit kvs, h => by
    simp only [isConst] at h
    obtain ⟨m0, h0⟩ := kvKVs_eval kvs h
    refine ⟨m0 + 1, fun e m hm => ?_⟩
    cases m with
    | zero => omega
    | succ m => rw [eval_mapLit, h0 e m (by omega)]; rfl
  | .clos names body outer r this, _ => ⟨1, fun e m hm => by
      cases m with
      | zero => omega
      | succ m => rfl⟩
  | .ident _, h => by simp [isConst] at h
  | .letE .., h => by simp [isConst] at h
  | .ifE .., h => by simp [isConst] at h
  | .switchE .., h => by simp [isConst] at h
  | .tryE .., h => by simp [isConst] at h
  | .unary .., h => by simp [isConst] at h
  | .binop .., h => by simp [isConst] at h
  | .index .., h => by simp [isConst] at h
  | .member .., h => by simp [isConst] at h
  | .call .., h => by simp [isConst] at h
  | .method .., h => by simp [isConst] at h
theorem kvL_eval : ∀ (ks : List AST), allConst S cfg ks = true →
    ∃ m0, ∀ (e : Env) (m : Nat), m0 ≤ m → evalList S M m ks e = .ok (kvL e ks)
  | [], _ => ⟨1, fun e m hm => by
      cases m with
      | zero => omega
      | succ m => rfl⟩
  | a :: as, h => by
    simp only [allConst, Bool.and_eq_true] at h
    obtain ⟨m1, h1⟩ := kv_eval a h.1
    obtain ⟨m2, h2⟩ := kvL_eval as h.2
    refine ⟨max m1 m2 + 1, fun e m hm => ?_⟩
    cases m with
    | zero => omega
    | succ m => rw [evalList_cons, h1 e m (by omega), h2 e m (by omega)]; rfl
theorem kvKVs_eval : ∀ (ks : List (String × AST)), allConstKVs S cfg ks = true →
    ∃ m0, ∀ (e : Env) (m : Nat), m0 ≤ m → evalKVs S M m ks e = .ok (kvKVs e ks)
  | [], _ => ⟨1, fun e m hm => by
      cases m with
      | zero => omega
      | succ m => rfl⟩
  | (key, a) :: as, h => by
    simp only [allConstKVs, Bool.and_eq_true] at h
    obtain ⟨m1, h1⟩ := kv_eval a h.1
    obtain ⟨m2, h2⟩ := kvKVs_eval as h.2
    refine ⟨max m1 m2 + 1, fun e m hm => ?_⟩
    cases m with
    | zero => omega
    | succ m => rw [evalKVs_cons, h1 e m (by omega), h2 e m (by omega)]; rfl
end

mutual
theorem reify_kv : ∀ (v : Val) (k : AST), reify v = some k → v = kv [] k
  | .int i, k, h => by simp only [reify, Option.some.injEq] at h; subst h; rfl
  | .flt f, k, h => by simp only [reify, Option.some.injEq] at h; subst h; rfl
  | .str s, k, h => by simp only [reify, Option.some.injEq] at h; subst h; rfl
  | .bool b, k, h => by simp only [reify, Option.some.injEq] at h; subst h; rfl
  | .list l, k, h => by
    simp only [reify] at h
    rw [reifyL_kv l k h]
  | .map kvs, k, h => by
    simp only [reify, Option.map_eq_some_iff] at h
    obtain ⟨ks, hks, rfl⟩ := h
    simp only [kv]
    rw [reifyKVs_kv kvs ks hks]
  | .sclos names body env r this, k, h => by
    simp only [reify] at h
    split at h
    · simp only [Option.some.injEq] at h; subst h; rfl
    · simp at h
  | .rclos .., _, h => by simp [reify] at h
theorem reifyL_kv : ∀ (l : LList) (k : AST), reifyL l = some k → Val.list l = kv [] k
  | .items xs, k, h => by
    simp only [reifyL, Option.map_eq_some_iff] at h
    obtain ⟨ks, hks, rfl⟩ := h
    simp only [kv]
    rw [reifyVs_kv xs ks hks]
  | .numbers .., _, h => by simp [reifyL] at h
  | .map .., _, h => by simp [reifyL] at h
  | .accept .., _, h => by simp [reifyL] at h
  | .top .., _, h => by simp [reifyL] at h
  | .skip .., _, h => by simp [reifyL] at h
  | .append .., _, h => by simp [reifyL] at h
theorem reifyVs_kv : ∀ (vs : List Val) (ks : List AST), reifyVs vs = some ks → vs = kvL [] ks
  | [], ks, h => by simp only [reifyVs, Option.some.injEq] at h; subst h; rfl
  | v :: vs, ks, h => by
    simp only [reifyVs, Option.bind_eq_bind, Option.bind_eq_some_iff, Option.pure_def, Option.some.injEq] at h
    obtain ⟨a, ha, as, has, rfl⟩ := h
    simp only [kvL]
    rw [← reify_kv v a ha, ← reifyVs_kv vs as has]
theorem reifyKVs_kv : ∀ (kvs : List (String × Val)) (ks : List (String × AST)),
    reifyKVs kvs = some ks → kvs = kvKVs [] ks
  | [], ks, h => by simp only [reifyKVs, Option.some.injEq] at h; subst h; rfl
  | (key, v) :: kvs, ks, h => by
    simp only [reifyKVs, Option.bind_eq_bind, Option.bind_eq_some_iff, Option.pure_def, Option.some.injEq] at h
    obtain ⟨a, ha, as, has, rfl⟩ := h
    simp only [kvKVs]
    rw [← reify_kv v a ha, ← reifyKVs_kv kvs as has]
end

/-! ## `wscoped` is monotone -/

mutual
theorem wscoped_mono : ∀ (a : AST) (L L2 : List String), (∀ x, x ∈ L → x ∈ L2) →
    wscoped S L a = true → wscoped S L2 a = true
  | .const _, _, _, _, _ => rfl
  | .ident x, L, L2, hl, h => by
    simp only [wscoped, List.contains_iff_mem] at h ⊢; exact hl x h
  | .letE x v i, L, L2, hl, h => by
    simp only [wscoped, Bool.and_eq_true] at h ⊢
    exact ⟨wscoped_mono v L L2 hl h.1, wscoped_mono i (x :: L) (x :: L2)
      (fun y hy => by
        rcases List.mem_cons.mp hy with rfl | hy
        · simp
        · exact List.mem_cons_of_mem _ (hl y hy)) h.2⟩
  | .ifE c t e, L, L2, hl, h => by
    simp only [wscoped, Bool.and_eq_true] at h ⊢
    exact ⟨⟨wscoped_mono c L L2 hl h.1.1, wscoped_mono t L L2 hl h.1.2⟩, wscoped_mono e L L2 hl h.2⟩
  | .switchE v cases d, L, L2, hl, h => by
    simp only [wscoped, Bool.and_eq_true] at h ⊢
    exact ⟨⟨wscoped_mono v L L2 hl h.1.1, wscopedCases_mono cases L L2 hl h.1.2⟩, wscoped_mono d L L2 hl h.2⟩
  | .tryE t c, L, L2, hl, h => by
    simp only [wscoped, Bool.and_eq_true] at h ⊢
    exact ⟨wscoped_mono t L L2 hl h.1, wscoped_mono c L L2 hl h.2⟩
  | .unary _ a, L, L2, hl, h => by
    simp only [wscoped] at h ⊢; exact wscoped_mono a L L2 hl h
  | .binop _ a b, L, L2, hl, h => by
    simp only [wscoped, Bool.and_eq_true] at h ⊢
    exact ⟨wscoped_mono a L L2 hl h.1, wscoped_mono b L L2 hl h.2⟩
  | .clos names body outer r this, L, L2, hl, h => by
    simp only [wscoped, Bool.and_eq_true, List.all_eq_true, List.contains_iff_mem] at h ⊢
    exact ⟨⟨h.1.1, fun x hx => hl x (h.1.2 x hx)⟩, h.2⟩
  | .listLit items, L, L2, hl, h => by
    simp only [wscoped] at h ⊢; exact wscopedList_mono items L L2 hl h
  | .index i l, L, L2, hl, h => by
    simp only [wscoped, Bool.and_eq_true] at h ⊢
    exact ⟨wscoped_mono i L L2 hl h.1, wscoped_mono l L L2 hl h.2⟩
  | .mapLit kvs, L, L2, hl, h => by
    simp only [wscoped] at h ⊢; exact wscopedKVs_mono kvs L L2 hl h
  | .member m _, L, L2, hl, h => by
    simp only [wscoped] at h ⊢; exact wscoped_mono m L L2 hl h
  | .call f args, L, L2, hl, h => by
    simp only [wscoped, Bool.and_eq_true] at h ⊢
    refine ⟨?_, wscopedList_mono args L L2 hl h.2⟩
    have h1 := h.1
    cases f with
    | ident name =>
      simp only [Bool.or_eq_true, List.contains_iff_mem] at h1 ⊢
      rcases h1 with h1 | h1
      · exact .inl (hl name h1)
      · exact .inr h1
    | _ => exact wscoped_mono _ L L2 hl h1
  | .method recv _ args, L, L2, hl, h => by
    simp only [wscoped, Bool.and_eq_true] at h ⊢
    exact ⟨wscoped_mono recv L L2 hl h.1, wscopedList_mono args L L2 hl h.2⟩
theorem wscopedList_mono : ∀ (as : List AST) (L L2 : List String), (∀ x, x ∈ L → x ∈ L2) →
    wscopedList S L as = true → wscopedList S L2 as = true
  | [], _, _, _, _ => rfl
  | a :: as, L, L2, hl, h => by
    simp only [wscopedList, Bool.and_eq_true] at h ⊢
    exact ⟨wscoped_mono a L L2 hl h.1, wscopedList_mono as L L2 hl h.2⟩
theorem wscopedKVs_mono : ∀ (as : List (String × AST)) (L L2 : List String), (∀ x, x ∈ L → x ∈ L2) →
    wscopedKVs S L as = true → wscopedKVs S L2 as = true
  | [], _, _, _, _ => rfl
  | (_, a) :: as, L, L2, hl, h => by
    simp only [wscopedKVs, Bool.and_eq_true] at h ⊢
    exact ⟨wscoped_mono a L L2 hl h.1, wscopedKVs_mono as L L2 hl h.2⟩
theorem wscopedCases_mono : ∀ (cs : List (AST × AST)) (L L2 : List String), (∀ x, x ∈ L → x ∈ L2) →
    wscopedCases S L cs = true → wscopedCases S L2 cs = true
  | [], _, _, _, _ => rfl
  | (c, r) :: rest, L, L2, hl, h => by
    simp only [wscopedCases, Bool.and_eq_true] at h ⊢
    exact ⟨⟨wscoped_mono c L L2 hl h.1.1, wscoped_mono r L L2 hl h.1.2⟩, wscopedCases_mono rest L L2 hl h.2⟩
end

/-! ## what `gen` accepts is well-scoped -/

theorem captureOf_mem : ∀ (am : Names) (cm : List String) (outer : List String) (cap : List (Bool × Nat)),
    captureOf am cm outer = some cap → ∀ x, x ∈ outer → idx am x ≠ none ∨ idxS cm x ≠ none
  | _, _, [], _, _, x, hx => by simp at hx
  | am, cm, y :: ys, cap, h, x, hx => by
    simp only [captureOf] at h
    cases hi : idx am y with
    | some i =>
      simp only [hi, Option.bind_eq_bind, Option.bind_some] at h
      cases hcs : captureOf am cm ys with
      | none => simp [hcs] at h
      | some cs =>
        rcases List.mem_cons.mp hx with rfl | hx
        · exact .inl (by simp [hi])
        · exact captureOf_mem am cm ys cs hcs x hx
    | none =>
      simp only [hi, Option.bind_eq_bind] at h
      cases hj : idxS cm y with
      | none => simp [hj] at h
      | some j =>
        cases hcs : captureOf am cm ys with
        | none => simp [hj, hcs] at h
        | some cs =>
          rcases List.mem_cons.mp hx with rfl | hx
          · exact .inr (by simp [hj])
          · exact captureOf_mem am cm ys cs hcs x hx

theorem gen_clos_named {V : Variant} {names body outer r this am cm code}
    (h : gen S V (.clos names body outer r this) am cm = some code) : r = true → this ≠ "" := by
  simp only [gen] at h
  split at h
  · cases h
  · rename_i hchk
    intro hr ht
    exact hchk ⟨hr, .inr ht⟩

mutual
theorem gen_wscoped : ∀ (a : AST) (am : Names) (cm : List String) (code : Code) (L : List String),
    gen S {} a am cm = some code → (∀ x, idx am x ≠ none ∨ idxS cm x ≠ none → x ∈ L) →
    wscoped S L a = true
  | .const _, _, _, _, _, _, _ => rfl
  | .ident x, am, cm, code, L, h, hl => by
    simp only [wscoped, List.contains_iff_mem]
    rcases gen_ident_inv h with ⟨i, hi, _⟩ | ⟨j, _, hj, _⟩
    · exact hl x (.inl (by simp [hi]))
    · exact hl x (.inr (by simp [hj]))
  | .letE x v i, am, cm, code, L, h, hl => by
    obtain ⟨cv, ci, h1, _, h2, _⟩ := gen_letE_inv h
    simp only [wscoped, Bool.and_eq_true]
    refine ⟨gen_wscoped v am cm cv L h1 hl, gen_wscoped i (am ++ [some x]) cm ci (x :: L) h2 ?_⟩
    intro y hy
    rw [idx_append] at hy
    cases hi : idx am y with
    | some j => exact List.mem_cons_of_mem _ (hl y (.inl (by simp [hi])))
    | none =>
      simp only [hi] at hy
      by_cases hxy : some x = some y
      · have : x = y := by simpa using hxy
        simp [this]
      · simp only [hxy, if_false, ne_eq, not_true_eq_false, false_or] at hy
        exact List.mem_cons_of_mem _ (hl y (.inr hy))
  | .ifE c t e, am, cm, code, L, h, hl => by
    obtain ⟨cc, ct, ce, h1, h2, h3, _⟩ := gen_ifE_inv h
    simp only [wscoped, Bool.and_eq_true]
    exact ⟨⟨gen_wscoped c am cm cc L h1 hl, gen_wscoped t am cm ct L h2 hl⟩, gen_wscoped e am cm ce L h3 hl⟩
  | .switchE v cases d, am, cm, code, L, h, hl => by
    obtain ⟨cv, cd, ccs, h1, h2, h3, _⟩ := gen_switchE_inv h
    simp only [wscoped, Bool.and_eq_true]
    exact ⟨⟨gen_wscoped v am cm cv L h1 hl, genCases_wscoped cases am cm ccs L h3 hl⟩,
      gen_wscoped d am cm cd L h2 hl⟩
  | .tryE t c, am, cm, code, L, h, hl => by
    obtain ⟨ct, cc, h1, h2, _⟩ := gen_tryE_inv h
    simp only [wscoped, Bool.and_eq_true]
    exact ⟨gen_wscoped t am cm ct L h1 hl, gen_wscoped c am cm cc L h2 hl⟩
  | .unary _ a, am, cm, code, L, h, hl => by
    obtain ⟨ca, h1, _⟩ := gen_unary_inv h
    simp only [wscoped]
    exact gen_wscoped a am cm ca L h1 hl
  | .binop _ a b, am, cm, code, L, h, hl => by
    obtain ⟨ca, cb, h1, h2, _⟩ := gen_binop_inv h
    simp only [wscoped, Bool.and_eq_true]
    exact ⟨gen_wscoped a am cm ca L h1 hl, gen_wscoped b am cm cb L h2 hl⟩
  | .clos names body outer r this, am, cm, code, L, h, hl => by
    have hnamed := gen_clos_named h
    obtain ⟨cb, cap, _, h1, h2, _⟩ := gen_clos_inv h
    simp only [wscoped, Bool.and_eq_true, List.all_eq_true, List.contains_iff_mem, Bool.or_eq_true,
      Bool.not_eq_true', bne_iff_ne, ne_eq]
    refine ⟨⟨?_, fun x hx => hl x (captureOf_mem am cm outer cap h2 x hx)⟩, ?_⟩
    · cases r with
      | false => exact .inl rfl
      | true => exact .inr (hnamed rfl)
    · refine gen_wscoped body (names.map some) (outer ++ (if r then [this] else [])) cb _ h1 ?_
      intro x hx
      rcases hx with hx | hx
      · have := (idx_map_some_ne_none_iff_mem names x).mp hx
        simp [this]
      · have := (idxS_ne_none_iff_mem _ x).mp hx
        simp only [List.mem_append] at this ⊢
        rcases this with h3 | h3
        · exact .inl (.inr h3)
        · exact .inr h3
  | .listLit items, am, cm, code, L, h, hl => by
    obtain ⟨cs, h1, _⟩ := gen_listLit_inv h
    simp only [wscoped]
    exact genList_wscoped items am cm cs L h1 hl
  | .index i l, am, cm, code, L, h, hl => by
    obtain ⟨ci, cl, h1, h2, _⟩ := gen_index_inv h
    simp only [wscoped, Bool.and_eq_true]
    exact ⟨gen_wscoped i am cm ci L h1 hl, gen_wscoped l am cm cl L h2 hl⟩
  | .mapLit kvs, am, cm, code, L, h, hl => by
    obtain ⟨cs, h1, _⟩ := gen_mapLit_inv h
    simp only [wscoped]
    exact genKVs_wscoped kvs am cm cs L h1 hl
  | .member m _, am, cm, code, L, h, hl => by
    obtain ⟨c, h1, _⟩ := gen_member_inv h
    simp only [wscoped]
    exact gen_wscoped m am cm c L h1 hl
  | .call f args, am, cm, code, L, h, hl => by
    simp only [wscoped, Bool.and_eq_true]
    by_cases hst : ∃ name arity p, f = .ident name ∧ S name = some (arity, p) ∧
        ¬ (({} : Variant).localShadowsStatic = true ∧ ((idx am name).isSome ∨ (idxS cm name).isSome))
    · obtain ⟨name, arity, p, rfl, hs, hv⟩ := hst
      obtain ⟨cas, h1, _⟩ := gen_call_static_inv h hs hv
      refine ⟨?_, genArgs_wscoped args am cm cas L h1 hl⟩
      simp [hs]
    · have hd : ∀ name, f = .ident name → S name = none ∨
          (({} : Variant).localShadowsStatic = true ∧ ((idx am name).isSome ∨ (idxS cm name).isSome)) := by
        intro name hf
        cases hs : S name with
        | none => exact .inl rfl
        | some q =>
          obtain ⟨arity, p⟩ := q
          right
          apply Classical.byContradiction
          intro hv
          exact hst ⟨name, arity, p, hf, hs, hv⟩
      obtain ⟨cf, cas, h1, h2, _⟩ := gen_call_dyn_inv h hd
      refine ⟨?_, genArgs_wscoped args am cm cas L h2 hl⟩
      have hf := gen_wscoped f am cm cf L h1 hl
      cases f with
      | ident name =>
        simp only [wscoped, List.contains_iff_mem] at hf
        simp only [Bool.or_eq_true, List.contains_iff_mem]
        exact .inl hf
      | _ => exact hf
  | .method recv _ args, am, cm, code, L, h, hl => by
    obtain ⟨cr, cas, h1, h2, _⟩ := gen_method_inv h
    simp only [wscoped, Bool.and_eq_true]
    refine ⟨gen_wscoped recv am cm cr L h1 hl, genArgs_wscoped args _ cm cas L h2 ?_⟩
    intro x hx
    simp only [if_true] at hx
    rw [idx_append_none] at hx
    exact hl x hx
theorem genArgs_wscoped : ∀ (as : List AST) (am : Names) (cm : List String) (codes : List Code) (L : List String),
    genArgs S {} as am cm = some codes → (∀ x, idx am x ≠ none ∨ idxS cm x ≠ none → x ∈ L) →
    wscopedList S L as = true
  | [], _, _, _, _, _, _ => rfl
  | a :: as, am, cm, codes, L, h, hl => by
    obtain ⟨c, cs, h1, h2, _⟩ := genArgs_cons_inv h
    simp only [wscopedList, Bool.and_eq_true]
    refine ⟨gen_wscoped a am cm c L h1 hl, genArgs_wscoped as _ cm cs L h2 ?_⟩
    intro x hx
    simp only [if_true] at hx
    rw [idx_append_none] at hx
    exact hl x hx
theorem genList_wscoped : ∀ (as : List AST) (am : Names) (cm : List String) (codes : List Code) (L : List String),
    genList S {} as am cm = some codes → (∀ x, idx am x ≠ none ∨ idxS cm x ≠ none → x ∈ L) →
    wscopedList S L as = true
  | [], _, _, _, _, _, _ => rfl
  | a :: as, am, cm, codes, L, h, hl => by
    obtain ⟨c, cs, h1, h2, _⟩ := genList_cons_inv h
    simp only [wscopedList, Bool.and_eq_true]
    exact ⟨gen_wscoped a am cm c L h1 hl, genList_wscoped as am cm cs L h2 hl⟩
theorem genKVs_wscoped : ∀ (as : List (String × AST)) (am : Names) (cm : List String)
    (codes : List (String × Code)) (L : List String),
    genKVs S {} as am cm = some codes → (∀ x, idx am x ≠ none ∨ idxS cm x ≠ none → x ∈ L) →
    wscopedKVs S L as = true
  | [], _, _, _, _, _, _ => rfl
  | (k, a) :: as, am, cm, codes, L, h, hl => by
    obtain ⟨c, cs, h1, h2, _⟩ := genKVs_cons_inv h
    simp only [wscopedKVs, Bool.and_eq_true]
    exact ⟨gen_wscoped a am cm c L h1 hl, genKVs_wscoped as am cm cs L h2 hl⟩
theorem genCases_wscoped : ∀ (cs : List (AST × AST)) (am : Names) (cm : List String)
    (codes : List (Code × Code)) (L : List String),
    genCases S {} cs am cm = some codes → (∀ x, idx am x ≠ none ∨ idxS cm x ≠ none → x ∈ L) →
    wscopedCases S L cs = true
  | [], _, _, _, _, _, _ => rfl
  | (c, r) :: rest, am, cm, codes, L, h, hl => by
    obtain ⟨cc, cr, cs, h1, h2, h3, _⟩ := genCases_cons_inv h
    simp only [wscopedCases, Bool.and_eq_true]
    exact ⟨⟨gen_wscoped c am cm cc L h1 hl, gen_wscoped r am cm cr L h2 hl⟩,
      genCases_wscoped rest am cm cs L h3 hl⟩
end

mutual
/-- a constant form mentions no free identifier -/
theorem isConst_wscoped : ∀ (k : AST), isConst S cfg k = true → wscoped S [] k = true
  | .const _, _ => rfl
  | .listLit xs, h => by simp only [isConst] at h; simp only [wscoped]; exact allConst_wscoped xs h
  | .mapLit kvs, h => by simp only [isConst] at h; simp only [wscoped]; exact allConstKVs_wscoped kvs h
  | .clos names body outer r this, h => by
    simp only [isConst, Bool.and_eq_true, Bool.not_eq_true', List.isEmpty_iff] at h
    obtain ⟨⟨⟨⟨_, ho⟩, hr⟩, _⟩, hg⟩ := h
    subst ho; subst hr
    cases hgen : gen S {} body (names.map some) [] with
    | none => simp [hgen] at hg
    | some code =>
      simp only [wscoped, Bool.and_eq_true, List.all_nil, Bool.not_false, Bool.true_or, true_and]
      refine gen_wscoped body (names.map some) [] code _ hgen ?_
      intro x hx
      rcases hx with hx | hx
      · have := (idx_map_some_ne_none_iff_mem names x).mp hx
        simp [this]
      · simp [idxS] at hx
  | .ident _, h => by simp [isConst] at h
  | .letE .., h => by simp [isConst] at h
  | .ifE .., h => by simp [isConst] at h
  | .switchE .., h => by simp [isConst] at h
  | .tryE .., h => by simp [isConst] at h
  | .unary .., h => by simp [isConst] at h
  | .binop .., h => by simp [isConst] at h
  | .index .., h => by simp [isConst] at h
  | .member .., h => by simp [isConst] at h
  | .call .., h => by simp [isConst] at h
  | .method .., h => by simp [isConst] at h
theorem allConst_wscoped : ∀ (ks : List AST), allConst S cfg ks = true → wscopedList S [] ks = true
  | [], _ => rfl
  | a :: as, h => by
    simp only [allConst, Bool.and_eq_true] at h
    simp only [wscopedList, Bool.and_eq_true]
    exact ⟨isConst_wscoped a h.1, allConst_wscoped as h.2⟩
theorem allConstKVs_wscoped : ∀ (ks : List (String × AST)), allConstKVs S cfg ks = true →
    wscopedKVs S [] ks = true
  | [], _ => rfl
  | (_, a) :: as, h => by
    simp only [allConstKVs, Bool.and_eq_true] at h
    simp only [wscopedKVs, Bool.and_eq_true]
    exact ⟨isConst_wscoped a h.1, allConstKVs_wscoped as h.2⟩
end

end P2.Lang.F
