import P2.Proofs.MapSt
/-! Proofs for C13, observers: on a well-formed storage every observer is a function of the abstract
entry list, and the order-insensitive ones do not change under a permutation of it. -/
namespace P2.MapSt
open P2.FMap

variable {V W : Type}

/-! ### `Get`-based observers -/

theorem access_abs (s : St V) (h : WF s) (k : String) : access s k = Res.ofOption (lookup (abs s) k) := by
  simp only [access, h.get]

theorem containsKey_abs (s : St V) (h : WF s) (k : String) :
    containsKey s k = decide (k ∈ keys (abs s)) := by
  simp only [containsKey, h.get, abs]
  by_cases hm : k ∈ keys (iter s)
  · simp [hm, (lookup_isSome_iff (iter s) k).mpr hm]
  · simp [hm, (lookup_eq_none_iff (iter s) k).mpr hm]

theorem isAvail_abs (s : St V) (h : WF s) (ks : List String) :
    isAvail s ks = ks.all fun k => decide (k ∈ keys (abs s)) := by
  simp only [isAvail]
  congr 1
  funext k
  exact containsKey_abs s h k

/-! ### `Iter`-based observers -/

theorem listObs_abs (s : St V) :
    listObs s = (abs s).map fun e => St.list [("key", Sum.inl e.1), ("value", Sum.inr e.2)] := by
  simp only [listObs, abs]
  congr 1

/-- every element of `list()` is itself a well-formed two-entry map -/
theorem listObs_wf (s : St V) : ∀ m ∈ listObs s, WF m := by
  intro m hm
  rw [listObs_abs] at hm
  obtain ⟨e, _, rfl⟩ := List.mem_map.mp hm
  exact wf_list _ (by simp [Valid])

/-- `string()` in terms of the entries: the pieces `key:value` in iteration order -/
def render (sh : V → Option String) (es : Entries V) : Res String :=
  match es.mapM fun e => (sh e.2).map fun t => e.1 ++ ":" ++ t with
  | none => .err
  | some parts => .ok ("{" ++ ", ".intercalate parts ++ "}")

theorem toStr_abs (sh : V → Option String) (s : St V) : toStr sh s = render sh (abs s) := rfl

/-! ### export: keys by `Iter`, sorted, values by `Get` -/

theorem map_lookup_self : ∀ (es l : Entries V), Valid es → (∀ e ∈ l, e ∈ es) →
    l.filterMap (fun e => (lookup es e.1).map fun v => (e.1, v)) = l
  | _, [], _, _ => rfl
  | es, (k, v) :: rest, hv, hs => by
    simp only [List.filterMap_cons]
    rw [lookup_of_mem es hv k v (hs _ List.mem_cons_self)]
    simp only [Option.map_some]
    rw [map_lookup_self es rest hv (fun e he => hs e (List.mem_cons_of_mem _ he))]

theorem exportKV_abs (sort : List String → List String) (s : St V) (h : WF s) :
    exportKV sort s = (sort (keys (abs s))).filterMap fun k => (lookup (abs s) k).map fun v => (k, v) := by
  simp only [exportKV, abs]
  congr 1
  funext k
  rw [h.get]

/-- the exported entries are exactly the entries of the map (in the exporter's key order) -/
theorem exportKV_perm (sort : List String → List String) (hsort : ∀ l, (sort l).Perm l) (s : St V) (h : WF s) :
    (exportKV sort s).Perm (abs s) := by
  rw [exportKV_abs sort s h]
  have h1 : ((keys (abs s)).filterMap fun k => (lookup (abs s) k).map fun v => (k, v)) = abs s := by
    have := map_lookup_self (abs s) (abs s) h.nodup (fun _ he => he)
    simpa [keys, List.filterMap_map, Function.comp_def] using this
  have h2 := (hsort (keys (abs s))).filterMap fun k => (lookup (abs s) k).map fun v => (k, v)
  rw [h1] at h2
  exact h2

/-! ### equality -/

theorem equalsLoop_true_iff (eq : V → V → Option Bool) (other : St V) : ∀ (es : Entries V),
    equalsLoop eq other es = .ok true ↔
      ∀ k v, (k, v) ∈ es → ∃ o, get other k = some o ∧ eq o v = some true
  | [] => by simp [equalsLoop]
  | (k, v) :: rest => by
    simp only [equalsLoop]
    constructor
    · intro h k' v' hm
      cases hg : get other k with
      | none => simp [hg] at h
      | some o =>
        cases he : eq o v with
        | none => simp [hg, he] at h
        | some b =>
          cases b with
          | false => simp [hg, he] at h
          | true =>
            simp only [hg, he] at h
            rcases List.mem_cons.mp hm with hm | hm
            · cases hm; exact ⟨o, hg, he⟩
            · exact (equalsLoop_true_iff eq other rest).mp h k' v' hm
    · intro h
      obtain ⟨o, hg, he⟩ := h k v List.mem_cons_self
      simp only [hg, he]
      exact (equalsLoop_true_iff eq other rest).mpr fun k' v' hm => h k' v' (List.mem_cons_of_mem _ hm)

theorem equalsLoop_total (eq : V → V → Option Bool) (htot : ∀ x y, eq x y ≠ none) (other : St V) :
    ∀ (es : Entries V), ∃ b, equalsLoop eq other es = .ok b
  | [] => ⟨true, rfl⟩
  | (k, v) :: rest => by
    simp only [equalsLoop]
    cases hg : get other k with
    | none => exact ⟨false, rfl⟩
    | some o =>
      cases he : eq o v with
      | none => exact absurd he (htot o v)
      | some b =>
        cases b with
        | false => exact ⟨false, by simp only [he]⟩
        | true => simp only [he]; exact equalsLoop_total eq htot other rest

/-- `=` says `true` exactly if the two finite maps have the same size and every binding of the left one
is matched by an equal binding of the right one -/
theorem equals_true_iff (eq : V → V → Option Bool) (a b : St V) (ha : WF a) (hb : WF b) :
    equals eq a b = .ok true ↔ EqTrue eq (abs a) (abs b) := by
  simp only [equals, EqTrue, abs]
  by_cases hs : size a = size b
  · have hl : (iter a).length = (iter b).length := by rw [← ha.size, ← hb.size]; exact hs
    simp only [hs, ne_eq, not_true_eq_false, if_false, hl, true_and]
    rw [equalsLoop_true_iff]
    simp only [hb.get]
  · have hl : ¬ (iter a).length = (iter b).length := by rw [← ha.size, ← hb.size]; exact hs
    simp [hs, hl]

theorem eqTrue_perm (eq : V → V → Option Bool) {a a' b b' : Entries V} (hb : Valid b)
    (pa : a.Perm a') (pb : b.Perm b') : EqTrue eq a b ↔ EqTrue eq a' b' := by
  simp only [EqTrue]
  rw [pa.length_eq, pb.length_eq]
  constructor
  · rintro ⟨hl, h⟩
    refine ⟨hl, fun k v hm => ?_⟩
    obtain ⟨o, ho, he⟩ := h k v (pa.mem_iff.mpr hm)
    exact ⟨o, by rw [← lookup_perm hb pb k]; exact ho, he⟩
  · rintro ⟨hl, h⟩
    refine ⟨hl, fun k v hm => ?_⟩
    obtain ⟨o, ho, he⟩ := h k v (pa.mem_iff.mp hm)
    exact ⟨o, by rw [lookup_perm hb pb k]; exact ho, he⟩

theorem equals_total (eq : V → V → Option Bool) (htot : ∀ x y, eq x y ≠ none) (a b : St V) :
    ∃ r, equals eq a b = .ok r := by
  simp only [equals]
  split
  · exact ⟨false, rfl⟩
  · exact equalsLoop_total eq htot b (iter a)

/-- with a comparison that decides equality of values, `=` on maps decides "same finite map" -/
theorem eqTrue_iff_equiv [DecidableEq V] (eq : V → V → Option Bool)
    (heq : ∀ x y, eq x y = some (decide (x = y))) {a b : Entries V} (ha : Valid a) (hb : Valid b) :
    EqTrue eq a b ↔ Equiv a b := by
  constructor
  · rintro ⟨hl, h⟩
    have hp := perm_of_incl_length a b ha hb hl (fun k v hm => by
      obtain ⟨o, ho, he⟩ := h k v hm
      rw [heq] at he
      simp only [Option.some.injEq, decide_eq_true_eq] at he
      exact he ▸ ho)
    exact fun k => lookup_perm ha hp k
  · intro h
    have hp := perm_of_equiv a b ha hb h
    refine ⟨hp.length_eq, fun k v hm => ⟨v, ?_, by simp [heq]⟩⟩
    rw [← h k]; exact lookup_of_mem a ha k v hm

end P2.MapSt
