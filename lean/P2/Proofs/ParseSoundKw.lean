import P2.Proofs.ParseSoundFull
/-! # Soundness for all forms: keyword forms `if/try/switch` and `let/func` included

`ParseSoundFull` proves "accepted ⇒ a rendering of the result" for token lists without keyword tokens.
Here the same induction on the fuel is carried out for **all** token lists that are admissible in the
sense of `NoConstLet cs ts`: no position of the token list starts with
`let x = (…( c )…) ;` where `c` is a number token, a string token or an identifier of `cs` (the names
of the host constants). This is the (decidable, syntactic) condition under which the parser never takes
the branch of `parseLet` that substitutes a constant binding and drops the `let` — the only place where
the returned tree is **not** a rendering of the input. Token lists without `let`/`func` (`NoLetFunc`)
satisfy it trivially. -/
namespace P2.Parse

/-! ### the side condition -/

/-- drop leading `(` -/
def stripL : List Tok → List Tok
  | .lp :: ts => stripL ts
  | ts => ts

/-- drop leading `)` -/
def stripR : List Tok → List Tok
  | .rp :: ts => stripR ts
  | ts => ts

/-- a token the parser turns into a `Const`: number, string, identifier that may name a host constant -/
def constTok (cs : List String) : Tok → Bool
  | .num _ => true
  | .str _ => true
  | .ident s => decide (s ∈ cs)
  | _ => false

def startsSemi : List Tok → Bool
  | .semi :: _ => true
  | _ => false

/-- the list starts with `let x = (…( c )…) ;`, `c` a number, a string or a name of `cs` -/
def constLetHead (cs : List String) : List Tok → Bool
  | .kw s :: .ident _ :: .op eq :: rest =>
    s == "let" && eq == "=" &&
      (match stripL rest with
       | x :: rest' => constTok cs x && startsSemi (stripR rest')
       | [] => false)
  | _ => false

/-- **the side condition of soundness**: no position of the token list starts with a `let` whose value is
a single (parenthesised) number, string or identifier that may name a constant (`cs`) — the syntactic
form of "no `let` binds a constant" (the harness' `c3LetConstSuspect` is the same scan, negated, with a
larger name set) -/
def NoConstLet (cs : List String) : List Tok → Bool
  | [] => true
  | x :: ts => !constLetHead cs (x :: ts) && NoConstLet cs ts

/-- the keywords `let` and `func` do not occur -/
def NoLetFunc (ts : List Tok) : Bool := ts.all fun x => x != .kw "let" && x != .kw "func"

/-- names the scope maps to a constant -/
def constNames : Scope → List String
  | [] => []
  | (n, .cst _) :: σ => n :: constNames σ
  | _ :: σ => constNames σ

/-- `Adm cs ts`: the token list is admissible -/
def Adm (cs : List String) (ts : List Tok) : Prop := NoConstLet cs ts = true

theorem Adm.nil (cs : List String) : Adm cs [] := rfl

theorem Adm.tail {cs : List String} {x : Tok} {ts : List Tok} (h : Adm cs (x :: ts)) : Adm cs ts := by
  simp only [Adm, NoConstLet, Bool.and_eq_true] at h
  exact h.2

theorem Adm.suffix {cs : List String} : ∀ {a r : List Tok}, Adm cs (a ++ r) → Adm cs r
  | [], _, h => h
  | _ :: a, _, h => Adm.suffix (a := a) (Adm.tail h)

theorem Adm.head {cs : List String} {x : Tok} {ts : List Tok} (h : Adm cs (x :: ts)) :
    constLetHead cs (x :: ts) = false := by
  simp only [Adm, NoConstLet, Bool.and_eq_true, Bool.not_eq_true'] at h
  exact h.1

theorem constLetHead_of_noLetFunc (cs : List String) (x : Tok) (ts : List Tok)
    (h : (x != .kw "let") = true) : constLetHead cs (x :: ts) = false := by
  unfold constLetHead
  split
  · rename_i s _ _ _ heq
    cases heq
    have : (s == "let") = false := by
      cases hs : s == "let"
      · rfl
      · have := eq_of_beq hs; subst this; simp at h
    simp [this]
  · rfl

theorem adm_of_noLetFunc (cs : List String) : ∀ (ts : List Tok), NoLetFunc ts = true → Adm cs ts
  | [], _ => rfl
  | x :: ts, h => by
    simp only [NoLetFunc, List.all_cons, Bool.and_eq_true] at h
    simp only [Adm, NoConstLet, Bool.and_eq_true, Bool.not_eq_true']
    exact ⟨constLetHead_of_noLetFunc cs x ts h.1.1, adm_of_noLetFunc cs ts (by simpa [NoLetFunc] using h.2)⟩

/-- a keyword-free token list has no `let`/`func` -/
theorem noLetFunc_of_noKw : ∀ (ts : List Tok), NoKw ts → NoLetFunc ts = true
  | [], _ => rfl
  | x :: ts, h => by
    simp only [NoLetFunc, List.all_cons, Bool.and_eq_true]
    refine ⟨⟨?_, ?_⟩, by simpa [NoLetFunc] using noLetFunc_of_noKw ts h.tail⟩
    · cases x <;> first | rfl | exact absurd h.head_ne id
    · cases x <;> first | rfl | exact absurd h.head_ne id

/-- a parenthesised single token: `stripL` finds the token, `stripR` what follows the parentheses -/
theorem stripL_parenN {x : Tok} (hx : x ≠ .lp) : ∀ (m : Nat) (rest : List Tok),
    ∃ R, stripL (parenN m [x] ++ rest) = x :: R ∧ stripR R = stripR rest
  | 0, rest => ⟨rest, by cases x <;> simp_all [parenN, stripL], rfl⟩
  | m+1, rest => by
    obtain ⟨R, h1, h2⟩ := stripL_parenN hx m (.rp :: rest)
    refine ⟨R, ?_, by rw [h2]; simp [stripR]⟩
    rw [parenN_succ_append]
    simpa [stripL] using h1

/-- the forbidden pattern -/
theorem constLetHead_paren (cs : List String) (name : String) {x : Tok} (hx : constTok cs x = true) (m : Nat)
    (rest : List Tok) :
    constLetHead cs (.kw "let" :: .ident name :: .op "=" :: (parenN m [x] ++ .semi :: rest)) = true := by
  have hne : x ≠ .lp := by rintro rfl; simp [constTok] at hx
  obtain ⟨R, h1, h2⟩ := stripL_parenN hne m (.semi :: rest)
  simp only [constLetHead, h1, hx, h2]
  simp [stripR, startsSemi]

/-! ### the scope invariant -/

/-- constants in scope are host constants, and their names are in `cs` -/
def ScopeOK (cs : List String) (σ : Scope) : Prop :=
  ∀ s e, lookup σ s = some (.cst e) → e = .cst s ∧ s ∈ cs

theorem ScopeOK.host {cs : List String} {σ : Scope} (h : ScopeOK cs σ) : HostScope σ :=
  fun s e hl => (h s e hl).1

theorem scopeOK_var {cs : List String} {σ : Scope} (h : ScopeOK cs σ) (name : String) :
    ScopeOK cs ((name, .var) :: σ) := by
  intro s e hl
  simp only [lookup] at hl
  split at hl
  · cases hl
  · exact h s e hl

theorem scopeOK_vars {cs : List String} {σ : Scope} (h : ScopeOK cs σ) (names : List String) :
    ScopeOK cs (varsOf names ++ σ) := by
  induction names with
  | nil => simpa [varsOf] using h
  | cons x xs ih => exact scopeOK_var ih x

theorem lookup_constNames : ∀ (σ : Scope) (s : String) (e : E), lookup σ s = some (.cst e) → s ∈ constNames σ
  | [], _, _, h => by simp [lookup] at h
  | (n, k) :: σ, s, e, h => by
    simp only [lookup] at h
    split at h
    · rename_i hn
      cases h
      subst hn
      simp [constNames]
    · have := lookup_constNames σ s e h
      cases k <;> simp [constNames, this]

theorem scopeOK_of_host {σ : Scope} (h : HostScope σ) : ScopeOK (constNames σ) σ :=
  fun s e hl => ⟨h s e hl, lookup_constNames σ s e hl⟩

/-! ### building `Printed` for the keyword forms -/

theorem Printed.ite {t : Table} {c a b : E} {k : Nat} {Ac Aa Ab : List Tok}
    (hc : Printed t 0 .none c Ac) (ha : Printed t 0 .none a Aa) (hb : Printed t 0 .none b Ab) :
    Printed t k .none (.ite c a b) (.kw "if" :: (Ac ++ .kw "then" :: (Aa ++ .kw "else" :: Ab))) := by
  obtain ⟨ρc, _, hC⟩ := hc
  obtain ⟨ρa, _, hA⟩ := ha
  obtain ⟨ρb, _, hB⟩ := hb
  have hn : needs t k .none (.ite c a b) = false := by simp [needs]
  refine ⟨Deco.mk' 0 false (fun j => if j = 0 then ρc else if j = 1 then ρa else ρb), Or.inr hn, ?_⟩
  rw [render_noauto rfl (Or.inr hn)]
  simp [parenN, shape_ite, ← hC, ← hA, ← hB]

theorem Printed.tryC {t : Table} {a c : E} {k : Nat} {Aa Ac : List Tok}
    (ha : Printed t 0 .none a Aa) (hc : Printed t 0 .none c Ac) :
    Printed t k .none (.tryC a c) (.kw "try" :: (Aa ++ .kw "catch" :: Ac)) := by
  obtain ⟨ρa, _, hA⟩ := ha
  obtain ⟨ρc, _, hC⟩ := hc
  have hn : needs t k .none (.tryC a c) = false := by simp [needs]
  refine ⟨Deco.mk' 0 false (fun j => if j = 0 then ρa else ρc), Or.inr hn, ?_⟩
  rw [render_noauto rfl (Or.inr hn)]
  simp [parenN, shape_try, ← hA, ← hC]

theorem Printed.switch {t : Table} {v d : E} {cs : List (E × E)} {k : Nat} {Av : List Tok}
    (hv : Printed t 0 .none v Av) (ρ : Deco) :
    Printed t k .none (.switch v cs d)
      (.kw "switch" :: (Av ++ (shapeCases t ρ 2 cs ++ .kw "default" :: render t (ρ.sub 1) 0 .none d))) := by
  obtain ⟨ρv, _, hV⟩ := hv
  have hn : needs t k .none (.switch v cs d) = false := by simp [needs]
  refine ⟨Deco.mk' 0 false (fun j => if j = 0 then ρv else ρ.sub j), Or.inr hn, ?_⟩
  rw [render_noauto rfl (Or.inr hn)]
  have h1 : shapeCases t (Deco.mk' 0 false (fun j => if j = 0 then ρv else ρ.sub j)) 2 cs = shapeCases t ρ 2 cs :=
    shapeCases_congr t cs 2 (fun m hm => by simp [show m ≠ 0 by omega])
  simp [parenN, shape_switch, h1, ← hV]

theorem Printed.letE {t : Table} {name : String} {v inner : E} {k : Nat} {fol : Follow} {Av Ai : List Tok}
    (hv : Printed t 0 .none v Av) (hi : Printed t 0 .none inner Ai) :
    Printed t k fol (.letE name v inner) (.kw "let" :: .ident name :: .op "=" :: (Av ++ .semi :: Ai)) := by
  obtain ⟨ρv, _, hV⟩ := hv
  obtain ⟨ρi, _, hI⟩ := hi
  refine ⟨Deco.mk' 0 false (fun j => if j = 0 then ρv else ρi), Or.inr (by simp [needs]), ?_⟩
  rw [render_nopar (by simp [nPar, E.isLet])]
  simp [shape_let, ← hV, ← hI]

theorem Printed.funcE {t : Table} {name : String} {names : List String} {body inner : E} {k : Nat} {fol : Follow}
    {Ab Ai : List Tok} (hb : Printed t 0 .none body Ab) (hi : Printed t 0 .none inner Ai) :
    Printed t k fol (.funcE name names body inner)
      (.kw "func" :: .ident name :: .lp :: (identList names ++ .rp :: (Ab ++ .semi :: Ai))) := by
  obtain ⟨ρb, _, hB⟩ := hb
  obtain ⟨ρi, _, hI⟩ := hi
  refine ⟨Deco.mk' 0 false (fun j => if j = 0 then ρb else ρi), Or.inr (by simp [needs]), ?_⟩
  rw [render_nopar (by simp [nPar, E.isLet])]
  simp [shape_func, ← hB, ← hI]

/-- a constant that level 0 printed is a single token in parentheses -/
theorem printed_const {t : Table} {cs : List String} {σ : Scope} (hσ : ScopeOK cs σ) {v : E} {A : List Tok}
    (hc : v.isConst = true) (hp : Printed t 0 .none v A) (hw : WF t σ false v) :
    ∃ x m, constTok cs x = true ∧ A = parenN m [x] := by
  obtain ⟨ρ, hn, hA⟩ := hp
  cases v <;> simp [E.isConst] at hc
  case num s =>
    rw [render_noauto rfl hn] at hA
    exact ⟨.num s, ρ.par, rfl, by simpa [shape] using hA⟩
  case str s =>
    rw [render_noauto rfl hn] at hA
    exact ⟨.str s, ρ.par, rfl, by simpa [shape] using hA⟩
  case cst s =>
    rw [render_noauto rfl hn] at hA
    refine ⟨.ident s, ρ.par, ?_, by simpa [shape] using hA⟩
    simp only [WF] at hw
    cases hl : lookup σ s with
    | none => simp [hl, isCstOf] at hw
    | some kd =>
      cases kd with
      | var => simp [hl, isCstOf] at hw
      | func => simp [hl, isCstOf] at hw
      | cst e' => simp [constTok, (hσ s e' hl).2]

/-- after a successful `parseLet` nothing that continues an expression follows -/
theorem followOf_kw (t : Table) (s : String) (tl : List Tok) : followOf t (.kw s :: tl) = .none := rfl

variable {cs : List String}

/-! ### the induction on the fuel -/

structure SndK (t : Table) (cs : List String) (f : Nat) : Prop where
  ent : ∀ σ k ts e r, ScopeOK cs σ → Adm cs ts → k ≤ t.n + 1 → entry t f σ k ts = .ok e r →
    ∃ A, ts = A ++ r ∧ Printed t k (followOf t r) e A ∧ WF t σ false e ∧ StopLt t k r ∧ NoPost r
  lit : ∀ σ ts e r, ScopeOK cs σ → Adm cs ts → parseLit t f σ ts = .ok e r →
    ∃ A, ts = A ++ r ∧ Printed t (t.n + 1) (followOf t r) e A ∧ WF t σ false e
  loop : ∀ σ k o a ts e r, ScopeOK cs σ → Adm cs ts → t.pos o = some k → loopOp t f σ k o a ts = .ok e r →
    ∀ A0, Printed t (if sameOp o a then k else k + 1) (followOf t ts) a A0 → WF t σ false a →
      StopLt t (k + 1) ts → NoPost ts →
      ∃ A, A0 ++ ts = A ++ r ∧ Printed t k (followOf t r) e A ∧ WF t σ false e ∧ StopLt t k r ∧ NoPost r
  post : ∀ σ a ts e r, ScopeOK cs σ → Adm cs ts → postfixLoop t f σ a ts = .ok e r →
    ∀ A0, Printed t (t.n + 1) (followOf t ts) a A0 → WF t σ false a →
      ∃ A, A0 ++ ts = A ++ r ∧ Printed t (t.n + 1) (followOf t r) e A ∧ WF t σ false e ∧ NoPost r
  lt : ∀ σ ts e r, ScopeOK cs σ → Adm cs ts → parseLet t f σ ts = .ok e r →
    ∃ A, ts = A ++ r ∧ Printed t 0 (followOf t r) e A ∧ WF t σ true e ∧ StopLt t 0 r ∧ NoPost r
  args : ∀ σ br ts as r i, ScopeOK cs σ → Adm cs ts → parseArgs t f σ br ts = .ok as r →
    ∃ ρ : Deco, ts = shapeArgs t ρ i as ++ (trailTok ρ as ++ closeTok br :: r) ∧ WFs t σ as
  argsL : ∀ σ br ts as r i, ScopeOK cs σ → Adm cs ts → argsLoop t f σ br ts = .ok as r →
    ∃ ρ : Deco, as ≠ [] ∧ ts = shapeArgs t ρ i as ++ (trailTok ρ as ++ closeTok br :: r) ∧ WFs t σ as
  map : ∀ σ keys ts es r i, ScopeOK cs σ → Adm cs ts → parseMap t f σ keys ts = .ok es r →
    ∃ ρ : Deco, ts = shapeEntries t ρ i es ++ (trailTok ρ es ++ .rc :: r) ∧ WFm t σ keys es
  cases : ∀ σ ts cd r i, ScopeOK cs σ → Adm cs ts → 2 ≤ i → parseCases t f σ ts = .ok cd r →
    ∃ ρ : Deco, ts = shapeCases t ρ i cd.1 ++ .kw "default" :: (render t (ρ.sub 1) 0 .none cd.2 ++ r) ∧
      followOf t ts = .none ∧ WFc t σ cd.1 ∧ WF t σ true cd.2 ∧ StopLt t 0 r ∧ NoPost r

theorem sndK_zero (t : Table) : SndK t cs 0 := by
  refine ⟨?_, ?_, ?_, ?_, ?_, ?_, ?_, ?_, ?_⟩
  · intro σ k ts e r _ _ _ h; simp [entry, parseOp, parseUnary, parseNonOp, parseLit] at h
  · intro σ ts e r _ _ h; simp [parseLit] at h
  · intro σ k o a ts e r _ _ _ h; simp [loopOp] at h
  · intro σ a ts e r _ _ h; simp [postfixLoop] at h
  · intro σ ts e r _ _ h; simp [parseLet] at h
  · intro σ br ts as r i _ _ h; simp [parseArgs] at h
  · intro σ br ts as r i _ _ h; simp [argsLoop] at h
  · intro σ keys ts es r i _ _ h; simp [parseMap] at h
  · intro σ ts cd r i _ _ _ h; simp [parseCases] at h

theorem sndK_lt {t : Table} (hwf : TableWF t) (f : Nat) (ih : SndK t cs f) :
    ∀ σ ts e r, ScopeOK cs σ → Adm cs ts → parseLet t (f+1) σ ts = .ok e r →
    ∃ A, ts = A ++ r ∧ Printed t 0 (followOf t r) e A ∧ WF t σ true e ∧ StopLt t 0 r ∧ NoPost r := by
  intro σ ts e r hσ hk h
  have fall : entry t f σ 0 ts = .ok e r →
      ∃ A, ts = A ++ r ∧ Printed t 0 (followOf t r) e A ∧ WF t σ true e ∧ StopLt t 0 r ∧ NoPost r := by
    intro h'
    obtain ⟨A, hA, hp, hw, hs, hn⟩ := ih.ent σ 0 ts e r hσ hk (Nat.zero_le _) h'
    exact ⟨A, hA, hp, WF_true_of_false hw, hs, hn⟩
  simp only [parseLet, plevel_eq hwf.fixed (Nat.zero_le _)] at h
  split at h
  · rename_i s rest
    split at h
    · -- let
      rename_i hs
      subst hs
      split at h
      · rename_i name rest1
        split at h
        · rename_i eq rest2
          split at h
          · rename_i heq
            subst heq
            split at h
            · rename_i v rest3 hv
              obtain ⟨Av, hAv, hpv, hwv, _, _⟩ :=
                ih.ent σ 0 rest2 v (.semi :: rest3) hσ hk.tail.tail.tail (Nat.zero_le _) hv
              rw [followOf_stopper _ rfl] at hpv
              split at h
              · -- a constant binding: excluded by the side condition
                rename_i hc
                obtain ⟨x, m, hx, hAx⟩ := printed_const hσ hc hpv hwv
                have := hk.head
                rw [hAv, hAx, constLetHead_paren cs name hx m rest3] at this
                cases this
              · rename_i hc
                split at h
                · rename_i inner r' hin
                  cases h
                  have hk3 : Adm cs rest3 := by
                    have := hk.tail.tail.tail; rw [hAv] at this; exact this.suffix.tail
                  obtain ⟨Ai, hAi, hpi, hwi, hsi, hni⟩ := ih.lt _ rest3 inner r (scopeOK_var hσ name) hk3 hin
                  rw [followOf_none hsi hni] at hpi ⊢
                  exact ⟨.kw "let" :: .ident name :: .op "=" :: (Av ++ .semi :: Ai), by simp [hAv, hAi],
                    Printed.letE hpv hpi, by simp only [WF]; exact ⟨trivial, by simpa using hc, hwv, hwi⟩, hsi, hni⟩
                · rename_i hne; exact absurd h (hne _ _)
            · cases h
            · rename_i _ hne; exact absurd h (hne _ _)
          · cases h
        · cases h
      · cases h
    · split at h
      · -- func
        rename_i hs
        subst hs
        split at h
        · rename_i name rest1
          split at h
          · rename_i rest2
            split at h
            · rename_i names rest3 hil
              obtain ⟨names0, hn0, hne0, hrest, hnd, _⟩ := identList_sound rest2 [] names _ hil
              simp only [List.reverse_nil, List.nil_append] at hn0
              subst hn0
              have hk3 : Adm cs rest3 := by
                have := hk.tail.tail.tail; rw [hrest] at this; exact this.suffix.tail
              split at h
              · rename_i body rest4 hb
                obtain ⟨Ab, hAb, hpb, hwb, _, _⟩ :=
                  ih.lt _ rest3 body (.semi :: rest4) (scopeOK_var (scopeOK_vars hσ names) name) hk3 hb
                rw [followOf_stopper _ rfl] at hpb
                have hk4 : Adm cs rest4 := by rw [hAb] at hk3; exact hk3.suffix.tail
                split at h
                · rename_i inner r' hin
                  cases h
                  obtain ⟨Ai, hAi, hpi, hwi, hsi, hni⟩ := ih.lt _ rest4 inner r (scopeOK_var hσ name) hk4 hin
                  rw [followOf_none hsi hni] at hpi ⊢
                  exact ⟨.kw "func" :: .ident name :: .lp :: (identList names ++ .rp :: (Ab ++ .semi :: Ai)),
                    by simp [hrest, hAb, hAi], Printed.funcE hpb hpi,
                    by simp only [WF]; exact ⟨trivial, hne0, hnd, hwb, hwi⟩, hsi, hni⟩
                · rename_i hne; exact absurd h (hne _ _)
              · cases h
              · rename_i _ hne; exact absurd h (hne _ _)
            · cases h
          · cases h
        · cases h
      · exact fall h
  · exact fall h

theorem sndK_args (t : Table) (f : Nat) (ih : SndK t cs f) :
    ∀ σ br ts as r i, ScopeOK cs σ → Adm cs ts → parseArgs t (f+1) σ br ts = .ok as r →
    ∃ ρ : Deco, ts = shapeArgs t ρ i as ++ (trailTok ρ as ++ closeTok br :: r) ∧ WFs t σ as := by
  intro σ br ts as r i hσ hk h
  simp only [parseArgs] at h
  split at h
  · rename_i x rest
    split at h
    · rename_i hc
      cases h
      exact ⟨Deco.min, by simp [shapeArgs, trailTok, isClose_eq_closeTok hc], by simp [WFs]⟩
    · obtain ⟨ρ, _, h1, h2⟩ := ih.argsL σ br _ as r i hσ hk h
      exact ⟨ρ, h1, h2⟩
  · obtain ⟨ρ, _, h1, h2⟩ := ih.argsL σ br _ as r i hσ hk h
    exact ⟨ρ, h1, h2⟩

theorem sndK_argsL (t : Table) (f : Nat) (ih : SndK t cs f) :
    ∀ σ br ts as r i, ScopeOK cs σ → Adm cs ts → argsLoop t (f+1) σ br ts = .ok as r →
    ∃ ρ : Deco, as ≠ [] ∧ ts = shapeArgs t ρ i as ++ (trailTok ρ as ++ closeTok br :: r) ∧ WFs t σ as := by
  intro σ br ts as r i hσ hk h
  simp only [argsLoop] at h
  split at h
  · rename_i a x rest heq
    obtain ⟨A, hA, hp, hw, _, _⟩ := ih.lt σ ts a (x :: rest) hσ hk heq
    have hkr : Adm cs (x :: rest) := by rw [hA] at hk; exact hk.suffix
    split at h
    · -- the closing bracket
      rename_i hc
      cases h
      have hx := isClose_eq_closeTok hc
      subst hx
      rw [followOf_stopper _ (stopper_close br)] at hp
      obtain ⟨ρa, hρ⟩ := render_of_printed_none hp
      refine ⟨Deco.mk' 0 false (fun _ => ρa), by simp, ?_, by simp [WFs, hw]⟩
      rw [shapeArgs_one]
      simp [trailTok, hA, hρ]
    · split at h
      · rename_i hcomma
        subst hcomma
        rw [followOf_stopper _ rfl] at hp
        obtain ⟨ρa, hρ⟩ := render_of_printed_none hp
        split at h
        · rename_i y rest'
          split at h
          · -- trailing comma
            rename_i hc
            cases h
            have hy := isClose_eq_closeTok hc
            subst hy
            refine ⟨Deco.mk' 0 true (fun _ => ρa), by simp, ?_, by simp [WFs, hw]⟩
            rw [shapeArgs_one]
            simp [trailTok, hA, hρ]
          · split at h
            · rename_i as' r' heq2
              cases h
              obtain ⟨ρ2, hne, h1, h2⟩ := ih.argsL σ br _ as' r (i + 1) hσ hkr.tail heq2
              obtain ⟨b, bs, rfl⟩ : ∃ b bs, as' = b :: bs := by
                cases as' with
                | nil => exact absurd rfl hne
                | cons b bs => exact ⟨b, bs, rfl⟩
              refine ⟨ρ2.setSub i ρa, by simp, ?_, by simp [WFs, hw] at h2 ⊢; exact h2⟩
              have e1 : shapeArgs t (ρ2.setSub i ρa) (i + 1) (b :: bs) = shapeArgs t ρ2 (i + 1) (b :: bs) :=
                shapeArgs_congr t _ _ (fun m hm => by simp [Deco.setSub, show m ≠ i by omega])
              have e2 : trailTok (ρ2.setSub i ρa) (a :: b :: bs) = trailTok ρ2 (b :: bs) := by
                simp [trailTok, Deco.setSub]
              rw [shapeArgs_more, e1, e2, hA, hρ, h1]
              simp [Deco.setSub]
            · rename_i hne; exact absurd h (hne _ _)
        · split at h
          · rename_i as' r' heq2
            -- the argument loop on the empty list fails
            obtain ⟨ρ2, _, h1, _⟩ := ih.argsL σ br [] as' r' (i + 1) hσ (Adm.nil cs) heq2
            have := congrArg List.length h1
            simp at this
          · rename_i hne; exact absurd h (hne _ _)
      · cases h
  · cases h
  · rename_i hne _; cases hr : parseLet t f σ ts <;> simp_all [PR.fail]

theorem sndK_map (t : Table) (f : Nat) (ih : SndK t cs f) :
    ∀ σ keys ts es r i, ScopeOK cs σ → Adm cs ts → parseMap t (f+1) σ keys ts = .ok es r →
    ∃ ρ : Deco, ts = shapeEntries t ρ i es ++ (trailTok ρ es ++ .rc :: r) ∧ WFm t σ keys es := by
  intro σ keys ts es r i hσ hk h
  simp only [parseMap] at h
  split at h
  · cases h
    exact ⟨Deco.min, by simp [shapeEntries, trailTok], by simp [WFm]⟩
  · rename_i key rest
    split at h
    · cases h
    · rename_i hkey
      split at h
      · rename_i rest1
        split at h
        · rename_i v rest2 heq
          split at h
          · rename_i rest3
            split at h
            · rename_i m r' heq2
              cases h
              obtain ⟨A, hA, hp, hw, _, _⟩ := ih.lt σ rest1 v (.comma :: rest3) hσ hk.tail.tail heq
              have hk2 : Adm cs (.comma :: rest3) := by have := hk.tail.tail; rw [hA] at this; exact this.suffix
              rw [followOf_stopper _ rfl] at hp
              obtain ⟨ρv, hρ⟩ := render_of_printed_none hp
              obtain ⟨ρ2, h1, h2⟩ := ih.map σ (key :: keys) rest3 m r (i + 1) hσ hk2.tail heq2
              cases m with
              | nil =>
                refine ⟨Deco.mk' 0 true (fun _ => ρv), ?_, by simp [WFm, hkey, hw]⟩
                simp only [shapeEntries, trailTok, List.isEmpty_nil, Bool.not_true, Bool.and_false,
                  Bool.false_eq_true, if_false, List.nil_append] at h1
                rw [shapeEntries_one]
                simp [trailTok, hA, hρ, h1]
              | cons e2 m' =>
                refine ⟨ρ2.setSub i ρv, ?_, by simp only [WFm]; exact ⟨hkey, hw, h2⟩⟩
                have e1 : shapeEntries t (ρ2.setSub i ρv) (i + 1) (e2 :: m') = shapeEntries t ρ2 (i + 1) (e2 :: m') :=
                  shapeEntries_congr t _ _ (fun m hm => by simp [Deco.setSub, show m ≠ i by omega])
                have e3 : trailTok (ρ2.setSub i ρv) ((key, v) :: e2 :: m') = trailTok ρ2 (e2 :: m') := by
                  simp [trailTok, Deco.setSub]
                rw [shapeEntries_more, e1, e3, hA, hρ, h1]
                simp [Deco.setSub]
            · rename_i hne; exact absurd h (hne _ _)
          · rename_i rest3
            split at h
            · rename_i m r' heq2
              cases h
              obtain ⟨rfl, rfl⟩ := map_rc t f σ _ _ _ _ heq2
              obtain ⟨A, hA, hp, hw, _, _⟩ := ih.lt σ rest1 v (.rc :: r) hσ hk.tail.tail heq
              rw [followOf_stopper _ rfl] at hp
              obtain ⟨ρv, hρ⟩ := render_of_printed_none hp
              refine ⟨Deco.mk' 0 false (fun _ => ρv), ?_, by simp [WFm, hkey, hw]⟩
              rw [shapeEntries_one]
              simp [trailTok, hA, hρ]
            · rename_i hne; exact absurd h (hne _ _)
          · cases h
        · rename_i hne; cases hr : parseLet t f σ rest1 <;> simp_all [PR.fail]
      · cases h
  · cases h

theorem sndK_post {t : Table} (hwf : TableWF t) (f : Nat) (ih : SndK t cs f) :
    ∀ σ a ts e r, ScopeOK cs σ → Adm cs ts → postfixLoop t (f+1) σ a ts = .ok e r →
    ∀ A0, Printed t (t.n + 1) (followOf t ts) a A0 → WF t σ false a →
      ∃ A, A0 ++ ts = A ++ r ∧ Printed t (t.n + 1) (followOf t r) e A ∧ WF t σ false e ∧ NoPost r := by
  intro σ a ts e r hσ hk h A0 hA0 hwa
  simp only [postfixLoop, plevel_eq hwf.fixed (Nat.zero_le _)] at h
  split at h
  · rename_i rest
    have hA0' : Printed t (t.n + 1) .post a A0 := by simpa [followOf] using hA0
    split at h
    · rename_i name rest1
      split at h
      · rename_i rest2
        split at h
        · rename_i args r2 heq
          obtain ⟨ρA, h1, h2⟩ := ih.args σ false rest2 args r2 1 hσ hk.tail.tail.tail heq
          have hk2 : Adm cs r2 := by
            have := hk.tail.tail.tail; rw [h1] at this; exact this.suffix.suffix.tail
          have hp' : Printed t (t.n + 1) (followOf t r2) (.method a name args)
              (A0 ++ .dot :: .ident name :: .lp :: (shapeArgs t ρA 1 args ++ (trailTok ρA args ++ [.rp]))) :=
            Printed.method hA0' ρA
          obtain ⟨A, hA, hp, hw, hn⟩ := ih.post σ _ r2 e r hσ hk2 h _ hp' (by simp [WF, hwa, h2])
          exact ⟨A, by rw [← hA, h1]; simp [closeTok], hp, hw, hn⟩
        · rename_i hne; cases hr : parseArgs t f σ false rest2 <;> simp_all [PR.fail]
      · rename_i hnlp
        have hp' : Printed t (t.n + 1) (followOf t rest1) (.member a name) (A0 ++ [.dot, .ident name]) :=
          Printed.member (followOf_ne_call (fun tl he => hnlp tl he)) hA0'
        obtain ⟨A, hA, hp, hw, hn⟩ := ih.post σ _ rest1 e r hσ hk.tail.tail h _ hp' (by simp [WF, hwa])
        exact ⟨A, by rw [← hA]; simp, hp, hw, hn⟩
    · cases h
  · rename_i rest
    have hA0' : Printed t (t.n + 1) .call a A0 := by simpa [followOf] using hA0
    split at h
    · rename_i args r2 heq
      obtain ⟨ρA, h1, h2⟩ := ih.args σ false rest args r2 1 hσ hk.tail heq
      have hk2 : Adm cs r2 := by
        have := hk.tail; rw [h1] at this; exact this.suffix.suffix.tail
      have hp' : Printed t (t.n + 1) (followOf t r2) (.call a args)
          (A0 ++ .lp :: (shapeArgs t ρA 1 args ++ (trailTok ρA args ++ [.rp]))) :=
        Printed.call hA0' ρA
      obtain ⟨A, hA, hp, hw, hn⟩ := ih.post σ _ r2 e r hσ hk2 h _ hp' (by simp [WF, hwa, h2])
      exact ⟨A, by rw [← hA, h1]; simp [closeTok], hp, hw, hn⟩
    · rename_i hne; cases hr : parseArgs t f σ false rest <;> simp_all [PR.fail]
  · rename_i rest
    have hA0' : Printed t (t.n + 1) .post a A0 := by simpa [followOf] using hA0
    split at h
    · rename_i i r2 heq
      obtain ⟨Ai, hAi, hpi, hwi, _, _⟩ := ih.ent σ 0 rest i (.rb :: r2) hσ hk.tail (Nat.zero_le _) heq
      have hk2 : Adm cs r2 := by
        have := hk.tail; rw [hAi] at this; exact this.suffix.tail
      rw [followOf_stopper _ rfl] at hpi
      have hp' : Printed t (t.n + 1) (followOf t r2) (.index a i) (A0 ++ .lb :: (Ai ++ [.rb])) :=
        Printed.index hA0' hpi
      obtain ⟨A, hA, hp, hw, hn⟩ := ih.post σ _ r2 e r hσ hk2 h _ hp' (by simp [WF, hwa, hwi])
      exact ⟨A, by rw [← hA, hAi]; simp, hp, hw, hn⟩
    · cases h
    · rename_i _ hne; exact absurd h (hne _ _)
  · rename_i h1 h2 h3
    cases h
    refine ⟨A0, rfl, hA0, hwa, ?_⟩
    intro x tl he
    subst he
    cases x <;> first | rfl | exact absurd rfl (h1 _) | exact absurd rfl (h2 _) | exact absurd rfl (h3 _)

theorem sndK_lit {t : Table} (hwf : TableWF t) (f : Nat) (ih : SndK t cs f) :
    ∀ σ ts e r, ScopeOK cs σ → Adm cs ts → parseLit t (f+1) σ ts = .ok e r →
    ∃ A, ts = A ++ r ∧ Printed t (t.n + 1) (followOf t r) e A ∧ WF t σ false e := by
  intro σ ts e r hσ hk h
  match ts, hk, h with
  | [], _, h => simp [parseLit] at h
  | x :: rest, hk, h =>
    cases x <;> simp only [parseLit, plevel_eq hwf.fixed (Nat.zero_le _)] at h
    case kw s =>
      split at h
      · -- try a catch b
        rename_i hs
        subst hs
        split at h
        · rename_i a c rest1 ha
          obtain ⟨Aa, hAa, hpa, hwa, _, _⟩ := ih.lt σ rest a (.kw c :: rest1) hσ hk.tail ha
          rw [followOf_kw] at hpa
          have hk1 : Adm cs rest1 := by have := hk.tail; rw [hAa] at this; exact this.suffix.tail
          split at h
          · rename_i hc
            subst hc
            split at h
            · rename_i b r' hb
              cases h
              obtain ⟨Ab, hAb, hpb, hwb, hsb, hnb⟩ := ih.lt σ rest1 b r hσ hk1 hb
              rw [followOf_none hsb hnb] at hpb ⊢
              exact ⟨.kw "try" :: (Aa ++ .kw "catch" :: Ab), by simp [hAa, hAb], Printed.tryC hpa hpb,
                by simp only [WF]; exact ⟨hwa, hwb⟩⟩
            · rename_i hne; exact absurd h (hne _ _)
          · cases h
        · cases h
        · rename_i _ hne; exact absurd h (hne _ _)
      · split at h
        · -- if c then a else b
          rename_i hs
          subst hs
          split at h
          · rename_i c th rest1 hc
            obtain ⟨Ac, hAc, hpc, hwc, _, _⟩ := ih.ent σ 0 rest c (.kw th :: rest1) hσ hk.tail (Nat.zero_le _) hc
            rw [followOf_kw] at hpc
            have hk1 : Adm cs rest1 := by have := hk.tail; rw [hAc] at this; exact this.suffix.tail
            split at h
            · rename_i hth
              subst hth
              split at h
              · rename_i a el rest2 ha
                obtain ⟨Aa, hAa, hpa, hwa, _, _⟩ := ih.lt σ rest1 a (.kw el :: rest2) hσ hk1 ha
                rw [followOf_kw] at hpa
                have hk2 : Adm cs rest2 := by rw [hAa] at hk1; exact hk1.suffix.tail
                split at h
                · rename_i hel
                  subst hel
                  split at h
                  · rename_i b r' hb
                    cases h
                    obtain ⟨Ab, hAb, hpb, hwb, hsb, hnb⟩ := ih.lt σ rest2 b r hσ hk2 hb
                    rw [followOf_none hsb hnb] at hpb ⊢
                    exact ⟨.kw "if" :: (Ac ++ .kw "then" :: (Aa ++ .kw "else" :: Ab)), by simp [hAc, hAa, hAb],
                      Printed.ite hpc hpa hpb, by simp only [WF]; exact ⟨hwc, hwa, hwb⟩⟩
                  · rename_i hne; exact absurd h (hne _ _)
                · cases h
              · cases h
              · rename_i _ hne; exact absurd h (hne _ _)
            · cases h
          · cases h
          · rename_i _ hne; exact absurd h (hne _ _)
        · split at h
          · -- switch v case … default d
            rename_i hs
            subst hs
            split at h
            · rename_i v rest1 hv
              obtain ⟨Av, hAv, hpv, hwv, _, _⟩ := ih.ent σ 0 rest v rest1 hσ hk.tail (Nat.zero_le _) hv
              have hk1 : Adm cs rest1 := by have := hk.tail; rw [hAv] at this; exact this.suffix
              split at h
              · rename_i cd r' hcd
                cases h
                obtain ⟨ρ, h1, hf, hwc, hwd, hsd, hnd⟩ := ih.cases σ rest1 cd r 2 hσ hk1 (Nat.le_refl _) hcd
                rw [hf] at hpv
                rw [followOf_none hsd hnd]
                exact ⟨.kw "switch" :: (Av ++ (shapeCases t ρ 2 cd.1 ++ .kw "default" :: render t (ρ.sub 1) 0 .none cd.2)),
                  by rw [hAv, h1]; simp, Printed.switch hpv ρ, by simp only [WF]; exact ⟨hwv, hwc, hwd⟩⟩
              · rename_i hne; cases hr : parseCases t f σ rest1 <;> simp_all [PR.fail]
            · rename_i hne; exact absurd h (hne _ _)
          · cases h
    case num s =>
      cases h
      exact ⟨[.num s], rfl,
        (printedAny_atom (fun _ _ => by simp [shape]) (fun _ _ => by simp [needs]) rfl).printed _ _, by simp [WF]⟩
    case str s =>
      cases h
      exact ⟨[.str s], rfl,
        (printedAny_atom (fun _ _ => by simp [shape]) (fun _ _ => by simp [needs]) rfl).printed _ _, by simp [WF]⟩
    case ident name =>
      split at h
      · rename_i s rest1
        split at h
        · rename_i hs
          subst hs
          split at h
          · rename_i body r' heq
            cases h
            have hσ' : ScopeOK cs ((name, .var) :: σ) := scopeOK_var hσ name
            obtain ⟨Ab, hAb, hpb, hwb, hsb, hnb⟩ := ih.lt _ rest1 body r hσ' hk.tail.tail heq
            rw [followOf_none hsb hnb] at hpb ⊢
            exact ⟨.ident name :: .op "->" :: Ab, by simp [hAb], Printed.clos1 hpb,
              by simp only [WF, varsOf]; exact ⟨by simp, by simp, hwb⟩⟩
          · rename_i hne; exact absurd h (hne _ _)
        · obtain ⟨rfl, hp, hw⟩ := identLit_sound (t := t) hσ.host h
          exact ⟨[.ident name], rfl, hp.printed _ _, hw⟩
      · obtain ⟨rfl, hp, hw⟩ := identLit_sound (t := t) hσ.host h
        exact ⟨[.ident name], rfl, hp.printed _ _, hw⟩
    case lc =>
      split at h
      · rename_i m r' heq
        cases h
        obtain ⟨ρ, h1, h2⟩ := ih.map σ [] rest m r 0 hσ hk.tail heq
        exact ⟨.lc :: (shapeEntries t ρ 0 m ++ (trailTok ρ m ++ [.rc])), by rw [h1]; simp,
          (printedAny_map m ρ).printed _ _, by simp [WF, h2]⟩
      · rename_i hne; cases hr : parseMap t f σ [] rest <;> simp_all [PR.fail]
    case lb =>
      split at h
      · rename_i items r' heq
        cases h
        obtain ⟨ρ, h1, h2⟩ := ih.args σ true rest items r 0 hσ hk.tail heq
        exact ⟨.lb :: (shapeArgs t ρ 0 items ++ (trailTok ρ items ++ [.rb])), by rw [h1]; simp [closeTok],
          (printedAny_list items ρ).printed _ _, by simp [WF, h2]⟩
      · rename_i hne; cases hr : parseArgs t f σ true rest <;> simp_all [PR.fail]
    case lp =>
      split at h
      · rename_i hsc
        split at h
        · rename_i names rest1 hil
          split at h
          · rename_i s rest2
            split at h
            · rename_i hs
              subst hs
              split at h
              · rename_i body r' heq
                cases h
                obtain ⟨names0, hn0, hne0, hrest, hnd, _⟩ := identList_sound rest [] names _ hil
                simp only [List.reverse_nil, List.nil_append] at hn0
                subst hn0
                have hk2 : Adm cs rest2 := by
                  have := hk.tail; rw [hrest] at this; exact this.suffix.tail.tail
                obtain ⟨Ab, hAb, hpb, hwb, hsb, hnb⟩ :=
                  ih.lt _ rest2 body r (scopeOK_vars hσ names) hk2 heq
                rw [followOf_none hsb hnb] at hpb ⊢
                match names, hne0, hrest, hnd, hwb with
                | [], hne0, _, _, _ => exact absurd rfl hne0
                | [x], _, hrest, _, _ =>
                  rw [hrest] at hsc; simp [identList, startsIdentComma] at hsc
                | x :: y :: more, _, hrest, hnd, hwb =>
                  exact ⟨.lp :: (identList (x :: y :: more) ++ .rp :: .op "->" :: Ab), by rw [hrest, hAb]; simp,
                    Printed.closN hpb, by simp only [WF]; exact ⟨by simp, hnd, hwb⟩⟩
              · rename_i hne; exact absurd h (hne _ _)
            · cases h
          · cases h
        · cases h
      · split at h
        · rename_i e' r' heq
          cases h
          obtain ⟨A, hA, hp, hw, _, _⟩ := ih.ent σ 0 rest e (.rp :: r) hσ hk.tail (Nat.zero_le _) heq
          rw [followOf_stopper _ rfl] at hp
          exact ⟨.lp :: (A ++ [.rp]), by simp [hA], (hp.paren' (WF_not_let hw)).printed _ _, hw⟩
        · cases h
        · rename_i _ hne; exact absurd h (hne _ _)
    all_goals cases h

theorem sndK_loop {t : Table} (f : Nat) (ih : SndK t cs f) :
    ∀ σ k o a ts e r, ScopeOK cs σ → Adm cs ts → t.pos o = some k → loopOp t (f+1) σ k o a ts = .ok e r →
    ∀ A0, Printed t (if sameOp o a then k else k + 1) (followOf t ts) a A0 → WF t σ false a →
      StopLt t (k + 1) ts → NoPost ts →
      ∃ A, A0 ++ ts = A ++ r ∧ Printed t k (followOf t r) e A ∧ WF t σ false e ∧ StopLt t k r ∧ NoPost r := by
  intro σ k o a ts e r hσ hk hp h A0 hA0 hwa hstop hnp
  have hkn := pos_lt_n hp
  have stop : ∀ (hne : ∀ tl, ts ≠ .op o :: tl), e = a → r = ts →
      ∃ A, A0 ++ ts = A ++ r ∧ Printed t k (followOf t r) e A ∧ WF t σ false e ∧ StopLt t k r ∧ NoPost r := by
    intro hne he hr
    subst he; subst hr
    refine ⟨A0, rfl, hA0.mono (WF_not_let hwa) (by split <;> omega), hwa, ?_, hnp⟩
    intro o' tl j h1 h2
    have hj := hstop o' tl j h1 h2
    by_cases hjk : j = k
    · subst hjk
      have h3 := pos_get h2
      rw [pos_get hp] at h3
      cases h3
      exact absurd h1 (hne tl)
    · omega
  simp only [loopOp, level_eq (show k + 1 ≤ t.n by omega)] at h
  split at h
  · rename_i s rest1
    split at h
    · rename_i hs; subst hs
      split at h
      · rename_i b rest2 heq
        obtain ⟨B, hB, hpb, hwb, hsb, hnb⟩ := ih.ent σ (k+1) rest1 b rest2 hσ hk.tail (by omega) heq
        have hk2 : Adm cs rest2 := by have := hk.tail; rw [hB] at this; exact this.suffix
        rw [followOf_op hp] at hA0
        have hpa' : Printed t k (followOf t rest2) (.bin s a b) (A0 ++ .op s :: B) := Printed.bin hp hA0 hpb
        have hwab : WF t σ false (.bin s a b) := by simp [WF, hp, hwa, hwb]
        obtain ⟨A, hA, hpe, hwe, hse, hne⟩ := ih.loop σ k s (.bin s a b) rest2 e r hσ hk2 hp h (A0 ++ .op s :: B)
          (by simpa [sameOp] using hpa') hwab hsb hnb
        exact ⟨A, by rw [← hA, hB]; simp, hpe, hwe, hse, hne⟩
      · rename_i hne; exact absurd h (hne _ _)
    · rename_i hs
      cases h
      exact stop (fun tl he => by cases he; exact hs rfl) rfl rfl
  · rename_i hne
    cases h
    exact stop (fun tl he => hne _ _ he) rfl rfl

theorem sndK_ent {t : Table} (hwf : TableWF t) (f : Nat) (ih : SndK t cs f) :
    ∀ σ k ts e r, ScopeOK cs σ → Adm cs ts → k ≤ t.n + 1 → entry t (f+1) σ k ts = .ok e r →
    ∃ A, ts = A ++ r ∧ Printed t k (followOf t r) e A ∧ WF t σ false e ∧ StopLt t k r ∧ NoPost r := by
  intro σ k ts e r hσ hk hkn1 h
  by_cases hkn : k < t.n
  · obtain ⟨o, ho⟩ : ∃ o, t.ops[k]? = some o := ⟨t.ops[k]'hkn, by simp [Table.n] at hkn; simp [hkn]⟩
    have hp := pos_of_get hwf ho
    rw [entry_lt hkn] at h
    simp only [parseOp, ho, level_eq (show k + 1 ≤ t.n by omega)] at h
    split at h
    · rename_i a rest1 heq
      obtain ⟨A1, hA1, hpa, hwa, hsa, hna⟩ := ih.ent σ (k+1) ts a rest1 hσ hk (by omega) heq
      have hk2 : Adm cs rest1 := by rw [hA1] at hk; exact hk.suffix
      have hpa' : Printed t (if sameOp o a then k else k + 1) (followOf t rest1) a A1 := by
        split
        · exact hpa.mono (WF_not_let hwa) (by omega)
        · exact hpa
      obtain ⟨A, hA, hpe, hwe, hse, hne⟩ := ih.loop σ k o a rest1 e r hσ hk2 hp h A1 hpa' hwa hsa hna
      exact ⟨A, by rw [hA1, hA], hpe, hwe, hse, hne⟩
    · rename_i hne; exact absurd h (hne _ _)
  · by_cases hke : k = t.n
    · subst hke
      rw [entry_n] at h
      have skip : parseNonOp t f σ ts = .ok e r →
          ∃ A, ts = A ++ r ∧ Printed t t.n (followOf t r) e A ∧ WF t σ false e ∧ StopLt t t.n r ∧ NoPost r := by
        intro h'
        rw [← entry_n1] at h'
        obtain ⟨A, hA, hp, hw, _, hn⟩ := ih.ent σ (t.n+1) ts e r hσ hk (Nat.le_refl _) h'
        exact ⟨A, hA, hp.mono (WF_not_let hw) (by omega), hw, stopLt_n t _ (Nat.le_refl _) r, hn⟩
      simp only [parseUnary, hwf.fixed, Bool.false_eq_true, if_false] at h
      split at h
      · rename_i s rest
        split at h
        · rename_i hs
          split at h
          · rename_i i hpos
            have hi := pos_lt_n hpos
            rw [level_eq (show i + 1 ≤ t.n by omega)] at h
            split at h
            · rename_i a r' heq
              cases h
              obtain ⟨A, hA, hpa, hwa, hsa, hna⟩ := ih.ent σ (i+1) rest a r hσ hk.tail (by omega) heq
              exact ⟨.op s :: A, by simp [hA], Printed.un_some hpos (Nat.le_refl _) (not_swallows hsa) hpa,
                by simp [WF, hs, hwa], stopLt_n t _ (Nat.le_refl _) r, hna⟩
            · rename_i hne; exact absurd h (hne _ _)
          · rename_i hpos
            split at h
            · rename_i a r' heq
              cases h
              rw [← entry_n1] at heq
              obtain ⟨A, hA, hpa, hwa, _, hna⟩ := ih.ent σ (t.n+1) rest a r hσ hk.tail (Nat.le_refl _) heq
              exact ⟨.op s :: A, by simp [hA], Printed.un_none hpos (Nat.le_refl _) hpa,
                by simp [WF, hs, hwa], stopLt_n t _ (Nat.le_refl _) r, hna⟩
            · rename_i hne; exact absurd h (hne _ _)
        · exact skip h
      · exact skip h
    · have hk1 : k = t.n + 1 := by omega
      subst hk1
      rw [entry_n1] at h
      simp only [parseNonOp] at h
      split at h
      · rename_i e0 rest0 heq
        obtain ⟨A0, hA0, hp0, hw0⟩ := ih.lit σ ts e0 rest0 hσ hk heq
        have hk2 : Adm cs rest0 := by rw [hA0] at hk; exact hk.suffix
        obtain ⟨A, hA, hp, hw, hn⟩ := ih.post σ e0 rest0 e r hσ hk2 h A0 hp0 hw0
        exact ⟨A, by rw [hA0, hA], hp, hw, stopLt_n t _ (by omega) r, hn⟩
      · rename_i hne; exact absurd h (hne _ _)

theorem sndK_cases {t : Table} (hwf : TableWF t) (f : Nat) (ih : SndK t cs f) :
    ∀ σ ts cd r i, ScopeOK cs σ → Adm cs ts → 2 ≤ i → parseCases t (f+1) σ ts = .ok cd r →
    ∃ ρ : Deco, ts = shapeCases t ρ i cd.1 ++ .kw "default" :: (render t (ρ.sub 1) 0 .none cd.2 ++ r) ∧
      followOf t ts = .none ∧ WFc t σ cd.1 ∧ WF t σ true cd.2 ∧ StopLt t 0 r ∧ NoPost r := by
  intro σ ts cd r i hσ hk hi h
  simp only [parseCases, plevel_eq hwf.fixed (Nat.zero_le _)] at h
  split at h
  · rename_i s rest
    split at h
    · -- case c : v
      rename_i hs
      subst hs
      split at h
      · rename_i c rest1 hc
        obtain ⟨Ac, hAc, hpc, hwc, _, _⟩ := ih.ent σ 0 rest c (.colon :: rest1) hσ hk.tail (Nat.zero_le _) hc
        rw [followOf_stopper _ rfl] at hpc
        obtain ⟨ρc, hρc⟩ := render_of_printed_none hpc
        have hk1 : Adm cs rest1 := by have := hk.tail; rw [hAc] at this; exact this.suffix.tail
        split at h
        · rename_i v rest2 hv
          obtain ⟨Av, hAv, hpv, hwv, hsv, hnv⟩ := ih.lt σ rest1 v rest2 hσ hk1 hv
          rw [followOf_none hsv hnv] at hpv
          obtain ⟨ρv, hρv⟩ := render_of_printed_none hpv
          have hk2 : Adm cs rest2 := by rw [hAv] at hk1; exact hk1.suffix
          split at h
          · rename_i cd' r' hcd
            cases h
            obtain ⟨ρ2, h1, _, hwcs, hwd, hsd, hnd⟩ := ih.cases σ rest2 cd' r (i + 2) hσ hk2 (by omega) hcd
            refine ⟨(ρ2.setSub i ρc).setSub (i + 1) ρv, ?_, rfl, by simp only [WFc]; exact ⟨hwc, hwv, hwcs⟩,
              hwd, hsd, hnd⟩
            have e1 : shapeCases t ((ρ2.setSub i ρc).setSub (i + 1) ρv) (i + 2) cd'.1 = shapeCases t ρ2 (i + 2) cd'.1 :=
              shapeCases_congr t _ _ (fun m hm => by
                simp [Deco.setSub, show m ≠ i by omega, show m ≠ i + 1 by omega])
            have e2 : ((ρ2.setSub i ρc).setSub (i + 1) ρv).sub 1 = ρ2.sub 1 := by
              simp [Deco.setSub, show (1 : Nat) ≠ i by omega, show i ≠ 0 by omega]
            have e3 : ((ρ2.setSub i ρc).setSub (i + 1) ρv).sub i = ρc := by simp [Deco.setSub]
            have e4 : ((ρ2.setSub i ρc).setSub (i + 1) ρv).sub (i + 1) = ρv := by simp [Deco.setSub]
            rw [shapeCases_cons, e1, e2, e3, e4, hAc, hρc, hAv, hρv, h1]
            simp
          · rename_i hne; exact absurd h (hne _ _)
        · rename_i hne; cases hr : parseLet t f σ rest1 <;> simp_all [PR.fail]
      · cases h
      · rename_i _ hne; cases hr : entry t f σ 0 rest <;> simp_all [PR.fail]
    · split at h
      · -- default d
        rename_i hs
        subst hs
        split at h
        · rename_i d r' hd
          cases h
          obtain ⟨Ad, hAd, hpd, hwd, hsd, hnd⟩ := ih.lt σ rest d r hσ hk.tail hd
          rw [followOf_none hsd hnd] at hpd
          obtain ⟨ρd, hρd⟩ := render_of_printed_none hpd
          refine ⟨Deco.mk' 0 false (fun _ => ρd), ?_, rfl, by simp [WFc], hwd, hsd, hnd⟩
          simp [shapeCases, hAd, hρd]
        · rename_i hne; cases hr : parseLet t f σ rest <;> simp_all [PR.fail]
      · cases h
  · cases h

theorem sndK_all {t : Table} (hwf : TableWF t) : ∀ f, SndK t cs f
  | 0 => sndK_zero t
  | f+1 =>
    have ih := sndK_all hwf f
    ⟨sndK_ent hwf f ih, sndK_lit hwf f ih, sndK_loop f ih, sndK_post hwf f ih, sndK_lt hwf f ih,
      sndK_args t f ih, sndK_argsL t f ih, sndK_map t f ih, sndK_cases hwf f ih⟩

/-- **soundness, all forms**: under the side condition `NoConstLet` (no `let` binds a constant), whatever is
accepted is a rendering of the returned tree (with the redundant parentheses and trailing commas of the
input as decoration), and the tree is well-formed over the table and the scope -/
theorem parseTop_sound {t : Table} (hwf : TableWF t) {σ : Scope} (hσ : ScopeOK cs σ) (f : Nat)
    (ts : List Tok) (e : E) (hk : NoConstLet cs ts = true) (h : parseTop t f σ ts = .ok e []) :
    ∃ ρ : Deco, ts = render t ρ 0 .none e ∧ WF t σ true e := by
  have hl : parseLet t f σ ts = .ok e [] := by
    unfold parseTop at h
    split at h
    · rename_i heq; cases h; exact heq
    · cases h
    · rename_i hne _; exact absurd h (hne _)
  obtain ⟨A, hA, ⟨ρ, _, hρ⟩, hw, _, _⟩ := (sndK_all hwf f).lt σ ts e [] hσ hk hl
  exact ⟨ρ, by simpa [followOf, hρ] using hA, hw⟩

/-- the same at every level of the precedence climb and with a remainder, every form -/
theorem entry_sound {t : Table} (hwf : TableWF t) {σ : Scope} (hσ : ScopeOK cs σ) (f k : Nat)
    (ts : List Tok) (e : E) (r : List Tok) (hk : k ≤ t.n + 1) (ha : NoConstLet cs ts = true)
    (h : entry t f σ k ts = .ok e r) :
    ∃ ρ : Deco, ts = render t ρ k (followOf t r) e ++ r ∧ WF t σ false e ∧ StopLt t k r := by
  obtain ⟨A, hA, ⟨ρ, _, hρ⟩, hw, hs, _⟩ := (sndK_all hwf f).ent σ k ts e r hσ ha hk h
  exact ⟨ρ, by rw [hA, hρ], hw, hs⟩

end P2.Parse
