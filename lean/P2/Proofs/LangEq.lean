import P2.Proofs.LangRel
/-! # C01: unfolding equations of `eval` / `exec` (one per node kind, all by `rfl`) and inversion
lemmas for `gen`. They isolate the `do`-notation plumbing from the simulation proof. -/
namespace P2.Lang

section Eval
variable (S : Statics) (M : Methods)

theorem eval_zero (a env) : eval S M 0 a env = .fuel := rfl
theorem eval_const (n c env) : eval S M (n+1) (.const c) env = .ok (ofScalar c) := rfl
theorem eval_ident (n x env) : eval S M (n+1) (.ident x) env = R.ofIndex (Env.get env x) := rfl
theorem eval_letE (n x v i env) : eval S M (n+1) (.letE x v i) env =
    (eval S M n v env >>= fun xv => eval S M n i ((x, xv) :: env)) := rfl
theorem eval_ifE (n c t e env) : eval S M (n+1) (.ifE c t e) env =
    (eval S M n c env >>= fun cv => match cv with
      | .bool true => eval S M n t env
      | .bool false => eval S M n e env
      | _ => .err) := rfl
theorem eval_switchE (n v cases d env) : eval S M (n+1) (.switchE v cases d) env =
    (eval S M n v env >>= fun x => evalCases S M n x cases d env) := rfl
theorem eval_tryE (n t c env) : eval S M (n+1) (.tryE t c) env =
    (match eval S M n t env with
      | .ok r => .ok r
      | .err => eval S M n c env >>= fun cv =>
          match cv with
          | .sclos [_] _ _ _ _ => applyS S M n cv [.str "<error>"]
          | _ => pure cv
      | .panic => eval S M n c env >>= fun cv =>
          match cv with
          | .sclos [_] _ _ _ _ => applyS S M n cv [.str "<error>"]
          | _ => pure cv
      | .fuel => .fuel
      | .unmodelled => .unmodelled) := rfl
theorem eval_unary (n op a env) : eval S M (n+1) (.unary op a) env =
    (eval S M n a env >>= fun x => unop op x) := rfl
theorem eval_binop (n op a b env) : eval S M (n+1) (.binop op a b) env =
    (if op = "&" then
      eval S M n a env >>= fun x => match x with
        | .bool false => pure (.bool false)
        | .bool true => eval S M n b env >>= fun y => match y with
            | .bool v => pure (.bool v)
            | _ => .err
        | _ => .err
    else if op = "|" then
      eval S M n a env >>= fun x => match x with
        | .bool true => pure (.bool true)
        | .bool false => eval S M n b env >>= fun y => match y with
            | .bool v => pure (.bool v)
            | _ => .err
        | _ => .err
    else
      eval S M n a env >>= fun x => eval S M n b env >>= fun y => binop (applyS S M n) n op x y) := rfl
theorem eval_clos (n names body outer r this env) :
    eval S M (n+1) (.clos names body outer r this) env = .ok (.sclos names body env r this) := rfl
theorem eval_listLit (n items env) : eval S M (n+1) (.listLit items) env =
    (evalList S M n items env >>= fun vs => pure (.list (.items vs))) := rfl
theorem eval_index (n i l env) : eval S M (n+1) (.index i l) env =
    (eval S M n i env >>= fun iv => eval S M n l env >>= fun lv =>
      match lv, iv with
      | .list ll, .int k =>
        if k < 0 then .err else
        force (applyS S M n) n ll >>= fun xs =>
        match xs[k.toNat]? with
        | some v => pure v
        | none => .err
      | _, _ => .err) := rfl
theorem eval_mapLit (n kvs env) : eval S M (n+1) (.mapLit kvs) env =
    (evalKVs S M n kvs env >>= fun vs => pure (.map vs)) := rfl
theorem eval_member (n m key env) : eval S M (n+1) (.member m key) env =
    (eval S M n m env >>= fun mv => match mv with
      | .map kvs => R.ofOption (mapGet kvs key)
      | _ => .err) := rfl

/-- the dynamic part of a call (function value already computed) -/
def evalCallK (n : Nat) (args : List AST) (env : Env) (fv : Val) : R Val :=
  match fv with
  | .sclos names body cenv r this =>
    if names.length ≠ args.length then .err else
    evalArgs S M n args env >>= fun vs =>
    eval S M n body (bindParams names vs ++ (if r then [(this, fv)] else []) ++ cenv)
  | _ => .err

theorem eval_call_static (n name args env) (h : (S name).isSome ∧ !Env.has env name) :
    eval S M (n+1) (.call (.ident name) args) env =
    (evalArgs S M n args env >>= fun vs => callStatic (applyS S M n) n name vs) := by
  simp only [eval, h, and_self, if_true]
theorem eval_call_ident_dyn (n name args env) (h : ¬ ((S name).isSome ∧ !Env.has env name)) :
    eval S M (n+1) (.call (.ident name) args) env =
    (eval S M n (.ident name) env >>= fun fv => evalCallK S M n args env fv) := by
  simp only [eval, h, if_false]
  rfl
theorem eval_call_dyn (n f args env) (h : ∀ name, f ≠ .ident name) :
    eval S M (n+1) (.call f args) env =
    (eval S M n f env >>= fun fv => evalCallK S M n args env fv) := by
  cases f <;> first | rfl | exact absurd rfl (h _)

/-- the part of a method call after the receiver -/
def evalMethodK (n : Nat) (name : String) (args : List AST) (env : Env) (rv : Val) : R Val :=
  let field : Option Val := match rv with
    | .map kvs => match mapGet kvs name with
      | some (.sclos names body cenv r this) => some (.sclos names body cenv r this)
      | _ => none
    | _ => none
  match field with
  | some (.sclos names body cenv r this) =>
    if names.length ≠ args.length then .err else
    evalArgs S M n args env >>= fun vs =>
    eval S M n body (bindParams names vs ++ (if r then [(this, .sclos names body cenv r this)] else []) ++ cenv)
  | _ =>
    match M (typeName rv) name with
    | none => .err
    | some declared =>
      if declared > 0 ∧ declared ≠ args.length + 1 then .err else
      evalArgs S M n args env >>= fun vs =>
      methodBody (applyS S M n) n name rv vs

theorem eval_method (n recv name args env) : eval S M (n+1) (.method recv name args) env =
    (eval S M n recv env >>= fun rv => evalMethodK S M n name args env rv) := rfl

theorem evalArgs_zero (as env) : evalArgs S M 0 as env = .fuel := rfl
theorem evalArgs_nil (n env) : evalArgs S M (n+1) [] env = .ok [] := rfl
theorem evalArgs_cons (n a as env) : evalArgs S M (n+1) (a :: as) env =
    (eval S M n a env >>= fun v => evalArgs S M n as env >>= fun vs => pure (v :: vs)) := rfl
theorem evalList_zero (as env) : evalList S M 0 as env = .fuel := rfl
theorem evalList_nil (n env) : evalList S M (n+1) [] env = .ok [] := rfl
theorem evalList_cons (n a as env) : evalList S M (n+1) (a :: as) env =
    (eval S M n a env >>= fun v => evalList S M n as env >>= fun vs => pure (v :: vs)) := rfl
theorem evalKVs_zero (as env) : evalKVs S M 0 as env = .fuel := rfl
theorem evalKVs_nil (n env) : evalKVs S M (n+1) [] env = .ok [] := rfl
theorem evalKVs_cons (n k a as env) : evalKVs S M (n+1) ((k, a) :: as) env =
    (eval S M n a env >>= fun v => evalKVs S M n as env >>= fun vs => pure ((k, v) :: vs)) := rfl
theorem evalCases_zero (x cs d env) : evalCases S M 0 x cs d env = .fuel := rfl
theorem evalCases_nil (n x d env) : evalCases S M (n+1) x [] d env = eval S M n d env := rfl
theorem evalCases_cons (n x c r rest d env) : evalCases S M (n+1) x ((c, r) :: rest) d env =
    (eval S M n c env >>= fun cv => valEq (applyS S M n) n x cv >>= fun eq =>
      if eq then eval S M n r env else evalCases S M n x rest d env) := rfl
theorem applyS_zero (f args) : applyS S M 0 f args = .fuel := rfl
theorem applyS_sclos (n names body cenv r this args) :
    applyS S M (n+1) (.sclos names body cenv r this) args =
    (if names.length ≠ args.length then .err else
      eval S M n body (bindParams names args ++ (if r then [(this, .sclos names body cenv r this)] else []) ++ cenv)) := rfl
end Eval

section Exec
variable (M : Methods)

theorem exec_zero (c st cs) : exec M 0 c st cs = .fuel := rfl
theorem exec_const (n v st cs) : exec M (n+1) (.const v) st cs = .ok (ofScalar v, st.data) := rfl
theorem exec_stk (n i st cs) : exec M (n+1) (.stk i) st cs =
    (st.get i >>= fun v => pure (v, st.data)) := rfl
theorem exec_cs (n j st cs) : exec M (n+1) (.cs j) st cs =
    (R.ofIndex (cs[j]?) >>= fun v => pure (v, st.data)) := rfl
theorem exec_letE (n v i st cs) : exec M (n+1) (.letE v i) st cs =
    (exec M n v st cs >>= fun p => exec M n i ({ st with data := p.2 }.push p.1) cs) := rfl
theorem exec_ifE (n c t e st cs) : exec M (n+1) (.ifE c t e) st cs =
    (exec M n c st cs >>= fun p => match p.1 with
      | .bool true => exec M n t { st with data := p.2 } cs
      | .bool false => exec M n e { st with data := p.2 } cs
      | _ => .err) := rfl
theorem exec_switchE (n v cases d st cs) : exec M (n+1) (.switchE v cases d) st cs =
    (exec M n v st cs >>= fun p => execCases M n p.1 cases d { st with data := p.2 } cs) := rfl
theorem exec_tryE (n t c st cs) : exec M (n+1) (.tryE t c) st cs =
    (match exec M n t st cs with
      | .ok r => .ok r
      | .err => exec M n c st cs >>= fun p =>
          match p.1 with
          | .rclos 1 _ _ _ => applyR M n p.1 [.str "<error>"] >>= fun v => pure (v, p.2)
          | _ => pure (p.1, p.2)
      | .panic => exec M n c st cs >>= fun p =>
          match p.1 with
          | .rclos 1 _ _ _ => applyR M n p.1 [.str "<error>"] >>= fun v => pure (v, p.2)
          | _ => pure (p.1, p.2)
      | .fuel => .fuel
      | .unmodelled => .unmodelled) := rfl
theorem exec_unary (n op a st cs) : exec M (n+1) (.unary op a) st cs =
    (exec M n a st cs >>= fun p => unop op p.1 >>= fun r => pure (r, p.2)) := rfl
theorem exec_binop (n op a b st cs) : exec M (n+1) (.binop op a b) st cs =
    (exec M n a st cs >>= fun p => exec M n b { st with data := p.2 } cs >>= fun q =>
      binop (applyR M n) n op p.1 q.1 >>= fun r => pure (r, q.2)) := rfl
theorem exec_andE (n a b st cs) : exec M (n+1) (.andE a b) st cs =
    (exec M n a st cs >>= fun p => match p.1 with
      | .bool false => pure (.bool false, p.2)
      | .bool true => exec M n b { st with data := p.2 } cs >>= fun q => match q.1 with
          | .bool v => pure (.bool v, q.2)
          | _ => .err
      | _ => .err) := rfl
theorem exec_orE (n a b st cs) : exec M (n+1) (.orE a b) st cs =
    (exec M n a st cs >>= fun p => match p.1 with
      | .bool true => pure (.bool true, p.2)
      | .bool false => exec M n b { st with data := p.2 } cs >>= fun q => match q.1 with
          | .bool v => pure (.bool v, q.2)
          | _ => .err
      | _ => .err) := rfl
theorem exec_clos (n na body cap r st cs) : exec M (n+1) (.clos na body cap r) st cs =
    (readCapture st cs cap >>= fun ctx => pure (.rclos na body ctx r, st.data)) := rfl
theorem exec_listLit (n items st cs) : exec M (n+1) (.listLit items) st cs =
    (execList M n items st cs >>= fun p => pure (.list (.items p.1), p.2)) := rfl
theorem exec_index (n i l st cs) : exec M (n+1) (.index i l) st cs =
    (exec M n i st cs >>= fun p => exec M n l { st with data := p.2 } cs >>= fun q =>
      match q.1, p.1 with
      | .list ll, .int k =>
        if k < 0 then .err else
        force (applyR M n) n ll >>= fun xs =>
        match xs[k.toNat]? with
        | some v => pure (v, q.2)
        | none => .err
      | _, _ => .err) := rfl
theorem exec_mapLit (n kvs st cs) : exec M (n+1) (.mapLit kvs) st cs =
    (execKVs M n kvs st cs >>= fun p => pure (.map p.1, p.2)) := rfl
theorem exec_member (n m key st cs) : exec M (n+1) (.member m key) st cs =
    (exec M n m st cs >>= fun p => match p.1 with
      | .map kvs => match mapGet kvs key with
        | some v => pure (v, p.2)
        | none => .err
      | _ => .err) := rfl
theorem exec_callStatic (n name args st cs) : exec M (n+1) (.callStatic name args) st cs =
    (execArgs M n args st cs >>= fun st' =>
      callStatic (applyR M n) n name ((st'.data.drop (st.offs + st.size)).take args.length) >>= fun r =>
      pure (r, st'.data)) := rfl

/-- the part of a dynamic call after the function value -/
def execCallK (n : Nat) (args : List Code) (st : Stack) (cs : List Val) (fv : Val) (d : List Val) :
    R (Val × List Val) :=
  match fv with
  | .rclos na body ctx r =>
    if na ≠ args.length then .err else
    execArgs M n args { st with data := d } cs >>= fun st' =>
    exec M n body { data := st'.data, offs := st'.offs + st'.size - na, size := na }
      (ctx ++ (if r then [fv] else []))
  | _ => .err

theorem exec_call (n f args st cs) : exec M (n+1) (.call f args) st cs =
    (exec M n f st cs >>= fun p => execCallK M n args st cs p.1 p.2) := rfl

/-- the part of a method call after the receiver -/
def execMethodK (n : Nat) (name : String) (args : List Code) (st : Stack) (cs : List Val) (rv : Val)
    (d : List Val) : R (Val × List Val) :=
  let st1 : Stack := { st with data := d }
  let field : Option Val := match rv with
    | .map kvs => match mapGet kvs name with
      | some (.rclos na body ctx r) => some (.rclos na body ctx r)
      | _ => none
    | _ => none
  match field with
  | some (.rclos na body ctx r) =>
    if na ≠ args.length then .err else
    execArgs M n args (st1.push rv) cs >>= fun st' =>
    exec M n body { data := st'.data, offs := st'.offs + st'.size - na, size := na }
      (ctx ++ (if r then [.rclos na body ctx r] else []))
  | _ =>
    match M (typeName rv) name with
    | none => .err
    | some declared =>
      if declared > 0 ∧ declared ≠ args.length + 1 then .err else
      execArgs M n args (st1.push rv) cs >>= fun st' =>
      methodBody (applyR M n) n name rv ((st'.data.drop (st.offs + st.size + 1)).take args.length) >>= fun r =>
      pure (r, st'.data)

theorem exec_method (n recv name args st cs) : exec M (n+1) (.method recv name args) st cs =
    (exec M n recv st cs >>= fun p => execMethodK M n name args st cs p.1 p.2) := rfl

theorem execArgs_zero (as st cs) : execArgs M 0 as st cs = .fuel := rfl
theorem execArgs_nil (n st cs) : execArgs M (n+1) [] st cs = .ok st := rfl
theorem execArgs_cons (n a as st cs) : execArgs M (n+1) (a :: as) st cs =
    (exec M n a st cs >>= fun p => execArgs M n as ({ st with data := p.2 }.push p.1) cs) := rfl
theorem execList_zero (as st cs) : execList M 0 as st cs = .fuel := rfl
theorem execList_nil (n st cs) : execList M (n+1) [] st cs = .ok ([], st.data) := rfl
theorem execList_cons (n a as st cs) : execList M (n+1) (a :: as) st cs =
    (exec M n a st cs >>= fun p => execList M n as { st with data := p.2 } cs >>= fun q =>
      pure (p.1 :: q.1, q.2)) := rfl
theorem execKVs_zero (as st cs) : execKVs M 0 as st cs = .fuel := rfl
theorem execKVs_nil (n st cs) : execKVs M (n+1) [] st cs = .ok ([], st.data) := rfl
theorem execKVs_cons (n k a as st cs) : execKVs M (n+1) ((k, a) :: as) st cs =
    (exec M n a st cs >>= fun p => execKVs M n as { st with data := p.2 } cs >>= fun q =>
      pure ((k, p.1) :: q.1, q.2)) := rfl
theorem execCases_zero (x cases d st cs) : execCases M 0 x cases d st cs = .fuel := rfl
theorem execCases_nil (n x d st cs) : execCases M (n+1) x [] d st cs = exec M n d st cs := rfl
theorem execCases_cons (n x c r rest d st cs) : execCases M (n+1) x ((c, r) :: rest) d st cs =
    (exec M n c st cs >>= fun p => valEq (applyR M n) n x p.1 >>= fun eq =>
      if eq then exec M n r { st with data := p.2 } cs
      else execCases M n x rest d { st with data := p.2 } cs) := rfl
theorem applyR_zero (f args) : applyR M 0 f args = .fuel := rfl
theorem applyR_rclos (n na body ctx r args) :
    applyR M (n+1) (.rclos na body ctx r) args =
    (if na ≠ args.length then .err else
      exec M n body (pushAll ⟨[], 0, 0⟩ args) (ctx ++ (if r then [.rclos na body ctx r] else [])) >>= fun p =>
      pure p.1) := rfl
end Exec

/-! ## inversion of `gen` -/
section Gen
variable {S : Statics} {V : Variant}

theorem gen_const_inv {c am cm code} (h : gen S V (.const c) am cm = some code) : code = .const c := by
  simp only [gen] at h; exact (Option.some.inj h).symm

theorem gen_ident_inv {x am cm code} (h : gen S V (.ident x) am cm = some code) :
    (∃ i, idx am x = some i ∧ code = .stk i) ∨ (∃ j, idx am x = none ∧ idxS cm x = some j ∧ code = .cs j) := by
  simp only [gen] at h
  cases hi : idx am x with
  | some i => simp [hi] at h; exact .inl ⟨i, rfl, h.symm⟩
  | none =>
    simp [hi] at h
    obtain ⟨j, hj, rfl⟩ := h
    exact .inr ⟨j, rfl, hj, rfl⟩

theorem gen_letE_inv {x v i am cm code} (h : gen S V (.letE x v i) am cm = some code) :
    ∃ cv ci, gen S V v am cm = some cv ∧ idx am x = none ∧ gen S V i (am ++ [some x]) cm = some ci ∧
      code = .letE cv ci := by
  simp only [gen] at h
  cases hcv : gen S V v am cm with
  | none => simp [hcv] at h
  | some cv =>
    simp only [hcv, Option.bind_eq_bind, Option.bind_some] at h
    split at h
    · cases h
    · rename_i hfresh
      cases hci : gen S V i (am ++ [some x]) cm with
      | none => simp [hci] at h
      | some ci =>
        simp [hci] at h
        refine ⟨cv, ci, rfl, ?_, rfl, h.symm⟩
        cases hidx : idx am x with
        | none => rfl
        | some j => simp [hidx] at hfresh

theorem gen_ifE_inv {c t e am cm code} (h : gen S V (.ifE c t e) am cm = some code) :
    ∃ cc ct ce, gen S V c am cm = some cc ∧ gen S V t am cm = some ct ∧ gen S V e am cm = some ce ∧
      code = .ifE cc ct ce := by
  simp only [gen] at h
  cases hcc : gen S V c am cm with
  | none => simp [hcc] at h
  | some cc =>
    cases hct : gen S V t am cm with
    | none => simp [hcc, hct] at h
    | some ct =>
      cases hce : gen S V e am cm with
      | none => simp [hcc, hct, hce] at h
      | some ce => simp [hcc, hct, hce] at h; exact ⟨cc, ct, ce, rfl, rfl, rfl, h.symm⟩

theorem gen_switchE_inv {v cases d am cm code} (h : gen S V (.switchE v cases d) am cm = some code) :
    ∃ cv cd ccs, gen S V v am cm = some cv ∧ gen S V d am cm = some cd ∧
      genCases S V cases am cm = some ccs ∧ code = .switchE cv ccs cd := by
  simp only [gen] at h
  cases hcv : gen S V v am cm with
  | none => simp [hcv] at h
  | some cv =>
    cases hcd : gen S V d am cm with
    | none => simp [hcv, hcd] at h
    | some cd =>
      cases hcs : genCases S V cases am cm with
      | none => simp [hcv, hcd, hcs] at h
      | some ccs => simp [hcv, hcd, hcs] at h; exact ⟨cv, cd, ccs, rfl, rfl, rfl, h.symm⟩

theorem gen_tryE_inv {t c am cm code} (h : gen S V (.tryE t c) am cm = some code) :
    ∃ ct cc, gen S V t am cm = some ct ∧ gen S V c am cm = some cc ∧ code = .tryE ct cc := by
  simp only [gen] at h
  cases hct : gen S V t am cm with
  | none => simp [hct] at h
  | some ct =>
    cases hcc : gen S V c am cm with
    | none => simp [hct, hcc] at h
    | some cc => simp [hct, hcc] at h; exact ⟨ct, cc, rfl, rfl, h.symm⟩

theorem gen_unary_inv {op a am cm code} (h : gen S V (.unary op a) am cm = some code) :
    ∃ ca, gen S V a am cm = some ca ∧ code = .unary op ca := by
  simp only [gen] at h
  cases hca : gen S V a am cm with
  | none => simp [hca] at h
  | some ca => simp [hca] at h; exact ⟨ca, rfl, h.symm⟩

theorem gen_binop_inv {op a b am cm code} (h : gen S V (.binop op a b) am cm = some code) :
    ∃ ca cb, gen S V a am cm = some ca ∧ gen S V b am cm = some cb ∧
      code = (if op = "&" then .andE ca cb else if op = "|" then .orE ca cb else .binop op ca cb) := by
  simp only [gen] at h
  cases hca : gen S V a am cm with
  | none => simp [hca] at h
  | some ca =>
    cases hcb : gen S V b am cm with
    | none => simp [hca, hcb] at h
    | some cb => simp [hca, hcb] at h; exact ⟨ca, cb, rfl, rfl, h.symm⟩

theorem gen_clos_inv {names body outer r thisN am cm code}
    (h : gen S V (.clos names body outer r thisN) am cm = some code) :
    ∃ cb cap, (r = true → idxS outer thisN = none) ∧
      gen S V body (names.map some) (outer ++ (if r then [thisN] else [])) = some cb ∧
      captureOf am cm outer = some cap ∧ code = .clos names.length cb cap r := by
  simp only [gen] at h
  split at h
  · cases h
  · rename_i hchk
    cases hcb : gen S V body (names.map some) (outer ++ (if r then [thisN] else [])) with
    | none => simp [hcb] at h
    | some cb =>
      cases hcap : captureOf am cm outer with
      | none => simp [hcb, hcap] at h
      | some cap =>
        simp [hcb, hcap] at h
        refine ⟨cb, cap, ?_, rfl, rfl, h.symm⟩
        intro hr
        cases hi : idxS outer thisN with
        | none => rfl
        | some j =>
          exfalso; apply hchk
          refine ⟨hr, .inl ?_⟩
          have h1 : idxS outer thisN ≠ none := by simp [hi]
          have h2 := (idxS_ne_none_iff_mem outer thisN).mp h1
          simpa using h2

theorem gen_listLit_inv {items am cm code} (h : gen S V (.listLit items) am cm = some code) :
    ∃ cs, genList S V items am cm = some cs ∧ code = .listLit cs := by
  simp only [gen] at h
  cases hc : genList S V items am cm with
  | none => simp [hc] at h
  | some cs => simp [hc] at h; exact ⟨cs, rfl, h.symm⟩

theorem gen_index_inv {i l am cm code} (h : gen S V (.index i l) am cm = some code) :
    ∃ ci cl, gen S V i am cm = some ci ∧ gen S V l am cm = some cl ∧ code = .index ci cl := by
  simp only [gen] at h
  cases hci : gen S V i am cm with
  | none => simp [hci] at h
  | some ci =>
    cases hcl : gen S V l am cm with
    | none => simp [hci, hcl] at h
    | some cl => simp [hci, hcl] at h; exact ⟨ci, cl, rfl, rfl, h.symm⟩

theorem gen_mapLit_inv {kvs am cm code} (h : gen S V (.mapLit kvs) am cm = some code) :
    ∃ cs, genKVs S V kvs am cm = some cs ∧ code = .mapLit cs := by
  simp only [gen] at h
  cases hc : genKVs S V kvs am cm with
  | none => simp [hc] at h
  | some cs => simp [hc] at h; exact ⟨cs, rfl, h.symm⟩

theorem gen_member_inv {m key am cm code} (h : gen S V (.member m key) am cm = some code) :
    ∃ c, gen S V m am cm = some c ∧ code = .member c key := by
  simp only [gen] at h
  cases hc : gen S V m am cm with
  | none => simp [hc] at h
  | some c => simp [hc] at h; exact ⟨c, rfl, h.symm⟩

theorem gen_method_inv {recv name args am cm code} (h : gen S V (.method recv name args) am cm = some code) :
    ∃ cr cas, gen S V recv am cm = some cr ∧
      genArgs S V args (if V.pushedSlots then am ++ [none] else am) cm = some cas ∧
      code = .method cr name cas := by
  simp only [gen] at h
  cases hcr : gen S V recv am cm with
  | none => simp [hcr] at h
  | some cr =>
    cases hcas : genArgs S V args (if V.pushedSlots then am ++ [none] else am) cm with
    | none => simp [hcr, hcas] at h
    | some cas => simp [hcr, hcas] at h; exact ⟨cr, cas, rfl, rfl, h.symm⟩

/-- a call whose callee is not an identifier, or an identifier that is not a static function or is
shadowed by a visible local: dynamic call -/
theorem gen_call_dyn_inv {f args am cm code} (h : gen S V (.call f args) am cm = some code)
    (hd : ∀ name, f = .ident name →
      S name = none ∨ (V.localShadowsStatic = true ∧ ((idx am name).isSome ∨ (idxS cm name).isSome))) :
    ∃ cf cas, gen S V f am cm = some cf ∧ genArgs S V args am cm = some cas ∧ code = .call cf cas := by
  have key : ∀ (o : Option (String × Int)), o = none →
      (match o with
        | some (name, arity) =>
            (if arity ≥ 0 ∧ arity ≠ args.length then none else
              (genArgs S V args am cm).bind fun cas => some (Code.callStatic name cas))
        | none => (gen S V f am cm).bind fun cf => (genArgs S V args am cm).bind fun cas =>
            some (Code.call cf cas)) = some code →
      ∃ cf cas, gen S V f am cm = some cf ∧ genArgs S V args am cm = some cas ∧ code = .call cf cas := by
    intro o ho h
    subst ho
    simp only at h
    cases hcf : gen S V f am cm with
    | none => simp [hcf] at h
    | some cf =>
      cases hcas : genArgs S V args am cm with
      | none => simp [hcf, hcas] at h
      | some cas => simp [hcf, hcas] at h; exact ⟨cf, cas, rfl, rfl, h.symm⟩
  cases f with
  | ident name =>
    simp only [gen] at h
    rcases hd name rfl with hs | ⟨hl, hv⟩
    · simp only [hs] at h
      exact key _ rfl h
    · cases hs : S name with
      | none => simp only [hs] at h; exact key _ rfl h
      | some p =>
        obtain ⟨arity, pure⟩ := p
        simp only [hs, hl, hv, and_self, if_true] at h
        exact key _ rfl h
  | _ => simp only [gen] at h; exact key _ rfl h

/-- a call of a static function that no visible local shadows -/
theorem gen_call_static_inv {name args am cm code} {arity : Int} {pure : Bool}
    (h : gen S V (.call (.ident name) args) am cm = some code)
    (hs : S name = some (arity, pure))
    (hv : ¬ (V.localShadowsStatic = true ∧ ((idx am name).isSome ∨ (idxS cm name).isSome))) :
    ∃ cas, genArgs S V args am cm = some cas ∧ code = .callStatic name cas := by
  simp only [gen, hs, hv, if_false] at h
  split at h
  · cases h
  · cases hcas : genArgs S V args am cm with
    | none => simp [hcas] at h
    | some cas => simp [hcas] at h; exact ⟨cas, rfl, h.symm⟩

theorem genArgs_nil_inv {am cm codes} (h : genArgs S V [] am cm = some codes) : codes = [] := by
  simp only [genArgs] at h; exact (Option.some.inj h).symm
theorem genArgs_cons_inv {a as am cm codes} (h : genArgs S V (a :: as) am cm = some codes) :
    ∃ c cs, gen S V a am cm = some c ∧
      genArgs S V as (if V.pushedSlots then am ++ [none] else am) cm = some cs ∧ codes = c :: cs := by
  simp only [genArgs] at h
  cases hc : gen S V a am cm with
  | none => simp [hc] at h
  | some c =>
    cases hcs : genArgs S V as (if V.pushedSlots then am ++ [none] else am) cm with
    | none => simp [hc, hcs] at h
    | some cs => simp [hc, hcs] at h; exact ⟨c, cs, rfl, rfl, h.symm⟩

theorem genList_nil_inv {am cm codes} (h : genList S V [] am cm = some codes) : codes = [] := by
  simp only [genList] at h; exact (Option.some.inj h).symm
theorem genList_cons_inv {a as am cm codes} (h : genList S V (a :: as) am cm = some codes) :
    ∃ c cs, gen S V a am cm = some c ∧ genList S V as am cm = some cs ∧ codes = c :: cs := by
  simp only [genList] at h
  cases hc : gen S V a am cm with
  | none => simp [hc] at h
  | some c =>
    cases hcs : genList S V as am cm with
    | none => simp [hc, hcs] at h
    | some cs => simp [hc, hcs] at h; exact ⟨c, cs, rfl, rfl, h.symm⟩

theorem genKVs_nil_inv {am cm codes} (h : genKVs S V [] am cm = some codes) : codes = [] := by
  simp only [genKVs] at h; exact (Option.some.inj h).symm
theorem genKVs_cons_inv {k a as am cm codes} (h : genKVs S V ((k, a) :: as) am cm = some codes) :
    ∃ c cs, gen S V a am cm = some c ∧ genKVs S V as am cm = some cs ∧ codes = (k, c) :: cs := by
  simp only [genKVs] at h
  cases hc : gen S V a am cm with
  | none => simp [hc] at h
  | some c =>
    cases hcs : genKVs S V as am cm with
    | none => simp [hc, hcs] at h
    | some cs => simp [hc, hcs] at h; exact ⟨c, cs, rfl, rfl, h.symm⟩

theorem genCases_nil_inv {am cm codes} (h : genCases S V [] am cm = some codes) : codes = [] := by
  simp only [genCases] at h; exact (Option.some.inj h).symm
theorem genCases_cons_inv {c r rest am cm codes} (h : genCases S V ((c, r) :: rest) am cm = some codes) :
    ∃ cc cr cs, gen S V c am cm = some cc ∧ gen S V r am cm = some cr ∧
      genCases S V rest am cm = some cs ∧ codes = (cc, cr) :: cs := by
  simp only [genCases] at h
  cases hcc : gen S V c am cm with
  | none => simp [hcc] at h
  | some cc =>
    cases hcr : gen S V r am cm with
    | none => simp [hcc, hcr] at h
    | some cr =>
      cases hcs : genCases S V rest am cm with
      | none => simp [hcc, hcr, hcs] at h
      | some cs => simp [hcc, hcr, hcs] at h; exact ⟨cc, cr, cs, rfl, rfl, rfl, h.symm⟩

theorem genArgs_length : ∀ (as : List AST) (am cm codes), genArgs S V as am cm = some codes →
    codes.length = as.length
  | [], _, _, codes, h => by simp [genArgs_nil_inv h]
  | a :: as, am, cm, codes, h => by
    obtain ⟨c, cs, _, hcs, rfl⟩ := genArgs_cons_inv h
    simp [genArgs_length as _ _ cs hcs]

end Gen
end P2.Lang
