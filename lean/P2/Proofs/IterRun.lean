import P2.Proofs.IterSim
/-! `run` (producer functions invoked against a chain) refines `drive` over the list's elements. -/
namespace P2.Iter
variable {α τ : Type}

/-- log and pull counter are write-only -/
theorem drive_congr (ft : FeedT α τ) (xs : List (Item α)) (fs : List (Frame α)) (t : τ)
    (l l' : Log α) (p p' : Nat) :
    (drive ft xs ⟨fs, t, l, p⟩).1.sink = (drive ft xs ⟨fs, t, l', p'⟩).1.sink ∧
    (drive ft xs ⟨fs, t, l, p⟩).1.frames = (drive ft xs ⟨fs, t, l', p'⟩).1.frames ∧
    (drive ft xs ⟨fs, t, l, p⟩).2 = (drive ft xs ⟨fs, t, l', p'⟩).2 := by
  induction xs generalizing fs t l l' p p' with
  | nil => simp
  | cons x xs ih =>
    simp only [drive_cons]
    by_cases hk : (feed ft fs t x).ctl = .more
    · simp only [hk, if_true, St.apply]; exact ih _ _ _ _ _ _
    · simp [hk, St.apply]

theorem drive_congr' (ft : FeedT α τ) (xs : List (Item α)) (s s' : St α τ)
    (hs : s.sink = s'.sink) (hf : s.frames = s'.frames) :
    (drive ft xs s).1.sink = (drive ft xs s').1.sink ∧
    (drive ft xs s).1.frames = (drive ft xs s').1.frames ∧ (drive ft xs s).2 = (drive ft xs s').2 := by
  obtain ⟨f, t, l, p⟩ := s
  obtain ⟨f', t', l', p'⟩ := s'
  simp only at hs hf
  subst hs hf
  exact drive_congr ft xs f t l l' p p'

theorem tap_trans (xs : List (Item α)) : (Frame.tap false : Frame α).trans xs = xs := by
  induction xs with
  | nil => rfl
  | cons x xs ih =>
    have e : ((Frame.tap false : Frame α).step x).emit = .pass x := rfl
    have e2 : (Frame.tap false : Frame α).next x = .tap false := rfl
    rw [trans_pass _ _ _ e, e2, ih]

/-- the `tap` frame records exactly whether the chain below it has answered anything but `more` -/
theorem drive_tap (ft : FeedT α τ) (xs : List (Item α)) (fs : List (Frame α)) (t : τ)
    (l l₂ : Log α) (p p₂ : Nat) :
    tapStopped (drive ft xs ⟨.tap false :: fs, t, l, p⟩).1.frames = ((drive ft xs ⟨fs, t, l₂, p₂⟩).2 != .more) := by
  induction xs generalizing fs t l l₂ p p₂ with
  | nil => simp [tapStopped]
  | cons x xs ih =>
    have e : ((Frame.tap false : Frame α).step x).emit = .pass x := rfl
    rw [drive_cons, drive_cons]
    simp only [feed_pass ft _ fs t x e]
    by_cases hk : (feed ft fs t x).ctl = .more
    · simp only [hk, if_true, St.apply]
      have : ((Frame.tap false : Frame α).step x).frame.after .more = .tap false := rfl
      rw [this]; exact ih _ _ _ _ _ _
    · simp only [hk, if_false, St.apply]
      have hb : ((feed ft fs t x).ctl != .more) = true := by simp [hk]
      simp [Frame.step, Frame.after, tapStopped, hb]

theorem drive_tap' (ft : FeedT α τ) (xs : List (Item α)) (s : St α τ) :
    tapStopped (drive ft xs (s.push (.tap false))).1.frames = ((drive ft xs s).2 != .more) ∧
    (drive ft xs (s.push (.tap false))).1.sink = (drive ft xs s).1.sink ∧
    (drive ft xs (s.push (.tap false))).1.frames.tail = (drive ft xs s).1.frames := by
  obtain ⟨f, t, l, p⟩ := s
  have g := drive_frame_sink ft xs (.tap false) f t l l p p
  rw [tap_trans] at g
  exact ⟨drive_tap ft xs f t l l p p, g.1, g.2⟩

theorem run_ne_stop (ft : FeedT α τ) (l : LList α) (s : St α τ) : (run ft l s).2 ≠ .stop := by
  induction l generalizing s with
  | items xs => simp only [run]; cases (drive ft (xs.map .ok) s).2 <;> simp [Ctl.returned]
  | gen n g => simp only [run]; cases (driveGen ft g n 0 s).2 <;> simp [Ctl.returned]
  | stage st l ih =>
    simp only [run]
    cases st.init with
    | none => simp
    | some fr => exact ih _
  | append a b iha ihb =>
    simp only [run]
    split
    · exact iha _
    · split
      · simp
      · exact ihb _

theorem not_abort_more {c : Ctl} (h1 : c ≠ .stop) (h2 : c.isAbort = false) : c = .more := by
  cases c <;> simp_all [Ctl.isAbort]

/-- **Refinement of the implementation semantics.** If invoking the producer of `l` against a chain
returns, consumer and frames end in the state they would reach if the source loop ran over the
list's elements `elems l`. -/
theorem run_refines (ft : FeedT α τ) (l : LList α) (s : St α τ) (h : (run ft l s).2 = .more) :
    (run ft l s).1.sink = (drive ft (elems l) s).1.sink ∧
    (run ft l s).1.frames = (drive ft (elems l) s).1.frames := by
  induction l generalizing s with
  | items xs => simp [run, elems]
  | gen n g => simp [run, elems, driveGen_eq_drive]
  | stage st l ih =>
    simp only [run, elems] at h ⊢
    cases hi : st.init with
    | none => simp [hi] at h
    | some fr =>
      simp only [hi] at h ⊢
      obtain ⟨h1, h2⟩ := ih _ h
      obtain ⟨g1, g2⟩ := drive_frame_sink ft (elems l) fr s.frames s.sink s.log s.log s.pulled s.pulled
      exact ⟨h1.trans g1, by simp only [St.pop]; rw [h2]; exact g2⟩
  | append a b iha ihb =>
    simp only [run, elems] at h ⊢
    have hns := run_ne_stop ft a (s.push (.tap false))
    have iha' := iha (s.push (.tap false))
    obtain ⟨t1, t2, t3⟩ := drive_tap' ft (elems a) s
    generalize run ft a (s.push (.tap false)) = ra at h hns iha' ⊢
    by_cases hab : ra.2.isAbort = true
    · simp only [hab, if_true] at h
      rw [h] at hab; simp [Ctl.isAbort] at hab
    · simp only [hab] at h ⊢
      have hmore := not_abort_more hns (by simpa using hab)
      obtain ⟨a1, a2⟩ := iha' hmore
      rw [a2, t1] at h ⊢
      have hpS : ra.1.pop.sink = (drive ft (elems a) s).1.sink := by simp only [St.pop]; rw [a1, t2]
      have hpF : ra.1.pop.frames = (drive ft (elems a) s).1.frames := by simp only [St.pop]; rw [a2, t3]
      by_cases hc : (drive ft (elems a) s).2 = .more
      · have hb : ((drive ft (elems a) s).2 != .more) = false := by simp [hc]
        simp only [hb] at h ⊢
        obtain ⟨b1, b2⟩ := ihb _ h
        obtain ⟨c1, c2, _⟩ := drive_congr' ft (elems b) ra.1.pop (drive ft (elems a) s).1 hpS hpF
        rw [drive_append_more ft _ _ _ hc]
        exact ⟨by simp only [Bool.false_eq_true, if_false]; exact b1.trans c1,
               by simp only [Bool.false_eq_true, if_false]; exact b2.trans c2⟩
      · have hb : ((drive ft (elems a) s).2 != .more) = true := by simp [hc]
        simp only [hb, if_true]
        rw [drive_prefix ft _ _ _ hc]
        exact ⟨hpS, hpF⟩

end P2.Iter
