import P2.Proofs.LexBasic
/-! C04.1 / C15: the state-faithful scanner model (repaired code, `pinned = false`) computes the reference
scanner: never out of fuel, never a slice panic. -/
namespace P2.Lex
open P2.Lex.Spec

namespace Spec
/-- rest of the input from the LF/CR that ends a `//` comment -/
def dropLine : List Char → Option (List Char)
  | [] => none
  | c :: rest => if c = '\n' ∨ c = '\r' then some (c :: rest) else dropLine rest

/-- rest of the input after the `*/` that ends a block comment, and the line there;
    `none` if the input ends before or with the `*/` -/
def dropBlock : List Char → Nat → Option (List Char × Nat)
  | [], _ => none
  | [_], _ => none
  | c :: d :: r, line =>
    if c = '*' then
      if d = '/' then (match r with | [] => none | _ :: _ => some (r, line))
      else dropBlock (d :: r) line
    else dropBlock (d :: r) (if c = '\n' then line + 1 else line)

theorem skipC_line : ∀ (r : List Char) (line : Nat),
    skipC .line r line = (dropLine r).bind (fun s => skipC .code s line)
  | [], _ => by simp [skipC, dropLine]
  | c :: rest, line => by
    simp only [skipC, dropLine]
    split
    · rename_i h
      have hc : c ≠ '/' := by rcases h with h | h <;> (subst h; decide)
      simp [skipC_code_ne _ _ _ hc]
    · exact skipC_line rest line

theorem skipC_block : ∀ (r : List Char) (line : Nat),
    skipC .block r line = (dropBlock r line).bind (fun p => skipC .code p.1 p.2)
  | [], _ => by simp [skipC, dropBlock]
  | [_], _ => by simp [skipC, dropBlock]
  | c :: d :: r, line => by
    simp only [skipC, dropBlock]
    split
    · split
      · cases r with
        | nil => simp [skipC]
        | cons x xs => simp
      · exact skipC_block (d :: r) line
    · exact skipC_block (d :: r) _

theorem dropLine_ne : ∀ (r s : List Char), dropLine r = some s → s ≠ [] ∧ s.length ≤ r.length
  | [], _, h => by simp [dropLine] at h
  | c :: rest, s, h => by
    unfold dropLine at h
    split at h
    · cases h; simp
    · have := dropLine_ne rest s h
      exact ⟨this.1, by simp; omega⟩

theorem dropBlock_ne : ∀ (r : List Char) (line : Nat) (s : List Char) (l : Nat),
    dropBlock r line = some (s, l) → s ≠ [] ∧ s.length ≤ r.length
  | [], _, _, _, h => by simp [dropBlock] at h
  | [_], _, _, _, h => by simp [dropBlock] at h
  | c :: d :: r, line, s, l, h => by
    unfold dropBlock at h
    split at h
    · split at h
      · cases r with
        | nil => simp at h
        | cons x xs => simp at h; obtain ⟨rfl, _⟩ := h; simp
      · have := dropBlock_ne (d :: r) line s l h
        exact ⟨this.1, by simp at this ⊢; omega⟩
    · have := dropBlock_ne (d :: r) _ s l h
      exact ⟨this.1, by simp at this ⊢; omega⟩
end Spec

theorem slice_ok (s : List Char) (k : Nat) (h : k ≤ s.length) : slice s k = .ok (s.drop k) := by
  simp [slice, h]

theorem runeError_ne_lf : runeError ≠ '\n' := by decide
theorem runeError_ne_cr : runeError ≠ '\r' := by decide
theorem runeError_ne_star : runeError ≠ '*' := by decide

/-! ### the comment loops -/

theorem lineLoop_spec : ∀ (f : Nat) (str : List Char) (il : Bool) (la : Char) (ls : List Char) (ln : Nat),
    str.length < f →
    lineLoop f ⟨str, il, la, ls, ln⟩ = .ok (match dropLine str with
      | some s => (⟨s, il, la, ls, ln⟩, false)
      | none => (⟨[], il, la, ls, ln⟩, true))
  | 0, _, _, _, _, _, h => by simp at h
  | f+1, [], il, la, ls, ln, _ => by
    simp [lineLoop, decode, runeError_ne_lf, runeError_ne_cr, slice, dropLine]
  | f+1, c :: rest, il, la, ls, ln, h => by
    have hf : rest.length < f := by simp at h; omega
    by_cases h1 : c = '\n'
    · simp [lineLoop, decode, dropLine, h1]
    by_cases h2 : c = '\r'
    · simp [lineLoop, decode, dropLine, h2]
    cases rest with
    | nil => simp [lineLoop, decode, dropLine, h1, h2, slice]
    | cons d r =>
      have ih := lineLoop_spec f (d :: r) il la ls ln hf
      simp [lineLoop, decode, dropLine, h1, h2, slice, ih]

theorem blockLoop_spec : ∀ (f : Nat) (str : List Char) (il : Bool) (la : Char) (ls : List Char) (ln : Nat),
    str.length < f →
    (∀ s l, dropBlock str ln = some (s, l) → blockLoop f ⟨str, il, la, ls, ln⟩ = .ok (⟨s, il, la, ls, l⟩, false)) ∧
    (dropBlock str ln = none → ∃ l, blockLoop f ⟨str, il, la, ls, ln⟩ = .ok (⟨[], il, la, ls, l⟩, true))
  | 0, _, _, _, _, _, h => by simp at h
  | f+1, [], il, la, ls, ln, _ => by
    refine ⟨by simp [dropBlock], fun _ => ⟨ln, ?_⟩⟩
    simp [blockLoop, decode, runeError_ne_star, runeError_ne_lf, slice]
  | f+1, [c], il, la, ls, ln, _ => by
    refine ⟨by simp [dropBlock], fun _ => ?_⟩
    by_cases h1 : c = '\n'
    · exact ⟨ln + 1, by simp [blockLoop, decode, slice, h1]⟩
    · exact ⟨ln, by simp [blockLoop, decode, slice, h1]⟩
  | f+1, c :: d :: r, il, la, ls, ln, h => by
    have hf : (d :: r).length < f := by simp at h ⊢; omega
    by_cases hc : c = '*'
    · by_cases hd : d = '/'
      · cases r with
        | nil =>
          refine ⟨by simp [dropBlock, hc, hd], fun _ => ⟨ln, ?_⟩⟩
          simp [blockLoop, decode, slice, hc, hd]
        | cons x xs =>
          refine ⟨fun s l hs => ?_, by simp [dropBlock, hc, hd]⟩
          simp [dropBlock, hc, hd] at hs
          obtain ⟨rfl, rfl⟩ := hs
          simp [blockLoop, decode, slice, hc, hd]
      · have ih := blockLoop_spec f (d :: r) il la ls ln hf
        have hb : blockLoop (f+1) ⟨c :: d :: r, il, la, ls, ln⟩ = blockLoop f ⟨d :: r, il, la, ls, ln⟩ := by
          simp [blockLoop, decode, slice, hc, hd]
        rw [hb]
        simpa [dropBlock, hc, hd] using ih
    · have ih := blockLoop_spec f (d :: r) il la ls (if c = '\n' then ln + 1 else ln) hf
      have hb : blockLoop (f+1) ⟨c :: d :: r, il, la, ls, ln⟩ =
          blockLoop f ⟨d :: r, il, la, ls, if c = '\n' then ln + 1 else ln⟩ := by
        by_cases h1 : c = '\n'
        · simp [blockLoop, decode, slice, hc, h1]
        · simp [blockLoop, decode, slice, hc, h1]
      rw [hb]
      simpa [dropBlock, hc] using ih

theorem commentLoop_spec (cfg : Cfg) (hp : cfg.pinned = false) :
    ∀ (f : Nat) (c0 : Char) (rest : List Char) (il : Bool) (ls : List Char) (ln : Nat),
    (c0 :: rest).length < f →
    (∀ c s l, skipC .code (c0 :: rest) ln = some (c :: s, l) →
      commentLoop cfg f ⟨c0 :: rest, il, c0, ls, ln⟩ 1 = .ok (⟨c :: s, il, c, ls, l⟩, 1, false)) ∧
    (skipC .code (c0 :: rest) ln = none →
      ∃ la l, commentLoop cfg f ⟨c0 :: rest, il, c0, ls, ln⟩ 1 = .ok (⟨[], il, la, ls, l⟩, 1, true))
  | 0, _, _, _, _, _, h => by simp at h
  | f+1, c0, rest, il, ls, ln, h => by
    by_cases hc : c0 = '/'
    · subst hc
      have hc : ('/' : Char) = '/' := rfl
      cases rest with
      | nil =>
        refine ⟨fun c s l hs => ?_, by simp [skipC]⟩
        simp [skipC] at hs
        obtain ⟨⟨rfl, rfl⟩, rfl⟩ := hs
        simp [commentLoop]
      | cons d r =>
        have hr : r.length + 2 < f + 1 := by simp at h; omega
        by_cases hd : d = '/'
        · have hsk : skipC .code ('/' :: d :: r) ln = (dropLine r).bind (fun s => skipC .code s ln) := by
            simp [skipC, hc, hd, skipC_line]
          have hll := lineLoop_spec (r.length + 1) r il '/' ls ln (Nat.lt_succ_self _)
          cases hdl : dropLine r with
          | none =>
            refine ⟨by simp [hsk, hdl], fun _ => ⟨'/', ln, ?_⟩⟩
            rw [hdl] at hll
            simp [commentLoop, hc, slice, decode, hd, hll]
          | some s2 =>
            obtain ⟨hne, hlen⟩ := dropLine_ne r s2 hdl
            rw [hdl] at hll
            cases s2 with
            | nil => exact absurd rfl hne
            | cons c2 s2' =>
              have ih := commentLoop_spec cfg hp f c2 s2' il ls ln (by simp at hlen ⊢; omega)
              have hstep : commentLoop cfg (f+1) ⟨'/' :: d :: r, il, '/', ls, ln⟩ 1 =
                  commentLoop cfg f ⟨c2 :: s2', il, c2, ls, ln⟩ 1 := by
                simp [commentLoop, hc, slice, decode, hd, hll, hp]
              rw [hstep, hsk, hdl]
              simpa using ih
        · by_cases hd2 : d = '*'
          · have hsk : skipC .code ('/' :: d :: r) ln = (dropBlock r ln).bind (fun p => skipC .code p.1 p.2) := by
              simp [skipC, hc, hd2, skipC_block]
            have hbl := blockLoop_spec (r.length + 1) r il '/' ls ln (Nat.lt_succ_self _)
            cases hdb : dropBlock r ln with
            | none =>
              obtain ⟨l, hl⟩ := hbl.2 hdb
              refine ⟨by simp [hsk, hdb], fun _ => ⟨'/', l, ?_⟩⟩
              simp [commentLoop, hc, slice, decode, hd2, hl]
            | some p =>
              obtain ⟨s2, l2⟩ := p
              obtain ⟨hne, hlen⟩ := dropBlock_ne r ln s2 l2 hdb
              have hl := hbl.1 s2 l2 hdb
              cases s2 with
              | nil => exact absurd rfl hne
              | cons c2 s2' =>
                have ih := commentLoop_spec cfg hp f c2 s2' il ls l2 (by simp at hlen ⊢; omega)
                have hstep : commentLoop cfg (f+1) ⟨'/' :: d :: r, il, '/', ls, ln⟩ 1 =
                    commentLoop cfg f ⟨c2 :: s2', il, c2, ls, l2⟩ 1 := by
                  simp [commentLoop, hc, slice, decode, hd2, hl, hp]
                rw [hstep, hsk, hdb]
                simpa using ih
          · refine ⟨fun c s l hs => ?_, by simp [skipC, hc, hd, hd2]⟩
            simp [skipC, hc, hd, hd2] at hs
            obtain ⟨⟨rfl, rfl⟩, rfl⟩ := hs
            simp [commentLoop, hc, slice, decode, hd, hd2]
    · refine ⟨fun c s l hs => ?_, by simp [skipC_code_ne _ _ _ hc]⟩
      simp [skipC_code_ne _ _ _ hc] at hs
      obtain ⟨⟨rfl, rfl⟩, rfl⟩ := hs
      simp [commentLoop, hc]

/-! ### `peek`, `next`, `unread` at a position without cached rune -/

/-- what `peek` looks at in mode `m`: the input after comment skipping (mode `betweenTokens`) -/
def view (cfg : Cfg) (m : Mode) (str : List Char) (line : Nat) : Option (List Char × Nat) :=
  if m = .betweenTokens then skipCode cfg str line
  else match str with
    | [] => none
    | _ :: _ => some (str, line)

/-- the alias switch in mode `m` -/
def al (cfg : Cfg) (m : Mode) (c : Char) : Char := if m = .verbatim then c else alias cfg.tables c

theorem view_nil (cfg : Cfg) (m : Mode) (line : Nat) : view cfg m [] line = none := by
  unfold view skipCode
  cases m <;> simp [skipC]

theorem peek_spec (cfg : Cfg) (hp : cfg.pinned = false) (m : Mode) (str : List Char) (la : Char)
    (ls : List Char) (ln : Nat) :
    (∀ c s l, view cfg m str ln = some (c :: s, l) →
      peek cfg m ⟨str, false, la, ls, ln⟩ = .ok (al cfg m c, ⟨s, true, al cfg m c, c :: s, l⟩)) ∧
    (view cfg m str ln = none →
      ∃ la' ls' l, peek cfg m ⟨str, false, la, ls, ln⟩ = .ok (EOF, ⟨[], false, la', ls', l⟩)) := by
  cases str with
  | nil =>
    refine ⟨by simp [view_nil], fun _ => ⟨EOF, [], ln, ?_⟩⟩
    simp [peek]
  | cons c0 rest =>
    by_cases hcm : cfg.comments = true ∧ m = .betweenTokens
    · obtain ⟨hcomm, rfl⟩ := hcm
      have hv : view cfg .betweenTokens (c0 :: rest) ln = skipC .code (c0 :: rest) ln := by
        simp [view, skipCode, hcomm]
      have hcl := commentLoop_spec cfg hp (rest.length + 1 + 1) c0 rest false ls ln (by simp)
      rw [hv]
      refine ⟨fun c s l hs => ?_, fun hn => ?_⟩
      · have := hcl.1 c s l hs
        simp [peek, decode, hcomm, skips, this, aliases, al, slice]
      · obtain ⟨la', l, h⟩ := hcl.2 hn
        exact ⟨la', ls, l, by simp [peek, decode, hcomm, skips, h]⟩
    · have hv : view cfg m (c0 :: rest) ln = some (c0 :: rest, ln) := by
        unfold view skipCode
        by_cases hm : m = .betweenTokens
        · subst hm
          have : cfg.comments = false := by
            cases hcc : cfg.comments with
            | false => rfl
            | true => exact absurd ⟨hcc, rfl⟩ hcm
          simp [this]
        · simp [hm]
      rw [hv]
      refine ⟨fun c s l hs => ?_, by simp⟩
      simp at hs
      obtain ⟨⟨rfl, rfl⟩, rfl⟩ := hs
      have hsk : (cfg.comments = true ∧ skips m = true) = False := by
        simp only [skips, beq_iff_eq, eq_iff_iff, iff_false]
        exact hcm
      cases m <;> simp [peek, decode, hsk, aliases, al, slice, hp]

theorem next_spec (cfg : Cfg) (hp : cfg.pinned = false) (m : Mode) (str : List Char) (la : Char)
    (ls : List Char) (ln : Nat) :
    (∀ c s l, view cfg m str ln = some (c :: s, l) →
      next cfg m ⟨str, false, la, ls, ln⟩ = .ok (al cfg m c, ⟨s, false, al cfg m c, c :: s, l⟩)) ∧
    (view cfg m str ln = none →
      ∃ l, next cfg m ⟨str, false, la, ls, ln⟩ = .ok (EOF, ⟨[], false, EOF, [], l⟩)) := by
  have hpk := peek_spec cfg hp m str la ls ln
  refine ⟨fun c s l hs => ?_, fun hn => ?_⟩
  · simp [next, hpk.1 c s l hs, consume]
  · obtain ⟨la', ls', l, h⟩ := hpk.2 hn
    refine ⟨l, ?_⟩
    have h2 : peek cfg m ⟨[], false, la', ls', l⟩ = .ok (EOF, ⟨[], false, EOF, [], l⟩) := by simp [peek]
    simp only [next, h, Res.bind_ok, consume]
    simp [h2]

theorem next_cached (cfg : Cfg) (m : Mode) (s : List Char) (a : Char) (ls : List Char) (l : Nat) :
    next cfg m ⟨s, true, a, ls, l⟩ = .ok (a, ⟨s, false, a, ls, l⟩) := by
  simp [next, peek, consume]

theorem unread_clean (cfg : Cfg) (hp : cfg.pinned = false) (s : List Char) (a : Char) (ls : List Char) (l : Nat) :
    unread cfg ⟨s, false, a, ls, l⟩ = ⟨ls, false, a, ls, l⟩ := by
  simp [unread, hp]

theorem view_plain (cfg : Cfg) (m : Mode) (hm : m ≠ .betweenTokens) (c : Char) (s : List Char) (l : Nat) :
    view cfg m (c :: s) l = some (c :: s, l) := by
  simp [view, hm]

theorem next_nil (cfg : Cfg) (m : Mode) (la : Char) (ls : List Char) (ln : Nat) :
    next cfg m ⟨[], false, la, ls, ln⟩ = .ok (EOF, ⟨[], false, EOF, [], ln⟩) := by
  simp [next, peek, consume]

theorem next_cons (cfg : Cfg) (hp : cfg.pinned = false) (m : Mode) (hm : m ≠ .betweenTokens) (c : Char)
    (s : List Char) (la : Char) (ls : List Char) (ln : Nat) :
    next cfg m ⟨c :: s, false, la, ls, ln⟩ = .ok (al cfg m c, ⟨s, false, al cfg m c, c :: s, ln⟩) :=
  (next_spec cfg hp m (c :: s) la ls ln).1 c s ln (view_plain cfg m hm c s ln)

/-! ### the loops that read through `next` -/

theorem readWhile_spec (cfg : Cfg) (hp : cfg.pinned = false) (m : Mode) (hm : m ≠ .betweenTokens)
    (valid : Char → Char → Bool) (a : Char → Char) (ha : ∀ c, al cfg m c = a c) :
    ∀ (f : Nat) (prev : Char) (str acc : List Char) (la : Char) (ls : List Char) (ln : Nat), str.length < f →
    ∃ la' ls', readWhile cfg m valid f prev ⟨str, false, la, ls, ln⟩ acc =
      .ok (acc ++ (readWhileS a valid prev str).1, ⟨(readWhileS a valid prev str).2, false, la', ls', ln⟩)
  | 0, _, _, _, _, _, _, h => by simp at h
  | f+1, prev, [], acc, la, ls, ln, _ => by
    refine ⟨EOF, [], ?_⟩
    simp [readWhile, next_nil, readWhileS, unread, hp]
  | f+1, prev, c :: rest, acc, la, ls, ln, h => by
    have hf : rest.length < f := by simp at h; omega
    by_cases hc : a c ≠ EOF ∧ valid prev (a c) = true
    · obtain ⟨la', ls', ih⟩ := readWhile_spec cfg hp m hm valid a ha f (a c) rest (acc ++ [a c]) (a c) (c :: rest) ln hf
      refine ⟨la', ls', ?_⟩
      simp only [readWhile, next_cons cfg hp m hm, ha, Res.bind_ok, hc, and_self, ↓reduceIte, ih, readWhileS,
        ne_eq, not_false_eq_true, List.append_assoc, List.singleton_append]
    · refine ⟨a c, c :: rest, ?_⟩
      simp only [readWhile, next_cons cfg hp m hm, ha, Res.bind_ok, hc, ↓reduceIte, readWhileS, unread, hp,
        Res.pure_eq, List.append_nil, Bool.false_eq_true]

theorem readWhile_cached (cfg : Cfg) (hp : cfg.pinned = false) (m : Mode) (hm : m ≠ .betweenTokens)
    (valid : Char → Char → Bool) (a : Char → Char) (ha : ∀ c, al cfg m c = a c)
    (prev c0 : Char) (rest : List Char) (ln : Nat) :
    ∃ la' ls', readWhile cfg m valid (rest.length + 2) prev ⟨rest, true, a c0, c0 :: rest, ln⟩ [] =
      .ok ((readWhileS a valid prev (c0 :: rest)).1, ⟨(readWhileS a valid prev (c0 :: rest)).2, false, la', ls', ln⟩) := by
  by_cases hc : a c0 ≠ EOF ∧ valid prev (a c0) = true
  · obtain ⟨la', ls', ih⟩ := readWhile_spec cfg hp m hm valid a ha (rest.length + 1) (a c0) rest ([] ++ [a c0])
      (a c0) (c0 :: rest) ln (Nat.lt_succ_self _)
    refine ⟨la', ls', ?_⟩
    show readWhile cfg m valid ((rest.length + 1) + 1) prev _ [] = _
    rw [readWhile]
    simp only [next_cached, Res.bind_ok, hc, and_self, ↓reduceIte, ne_eq, not_false_eq_true]
    rw [ih]
    simp [readWhileS, hc]
  · refine ⟨a c0, c0 :: rest, ?_⟩
    show readWhile cfg m valid ((rest.length + 1) + 1) prev _ [] = _
    rw [readWhile]
    simp only [next_cached, Res.bind_ok, hc, ↓reduceIte, readWhileS, unread, hp,
      Res.pure_eq, Bool.false_eq_true]

theorem eof_ne_quote : EOF ≠ '"' := by decide
theorem eof_ne_bs : EOF ≠ '\\' := by decide

theorem readStr_spec (cfg : Cfg) (hp : cfg.pinned = false) (htb : tablesOK cfg.tables = true) :
    ∀ (f : Nat) (str acc : List Char) (la : Char) (ls : List Char) (ln : Nat), str.length < f →
    ∃ la' ls', readStr cfg f ⟨str, false, la, ls, ln⟩ acc =
      .ok (⟨(readStrS cfg.tables str acc).1.1, (readStrS cfg.tables str acc).1.2, ln⟩,
        ⟨(readStrS cfg.tables str acc).2, false, la', ls', ln⟩)
  | 0, _, _, _, _, _, h => by simp at h
  | f+1, [], acc, la, ls, ln, _ => by
    refine ⟨EOF, [], ?_⟩
    have hmem : EOF ∈ cfg.tables.strEnd := by simpa using tablesOK_strEnd_eof htb
    simp [readStr, next_nil, eof_ne_quote, hmem, readStrS]
  | f+1, c :: rest, acc, la, ls, ln, h => by
    have hf : rest.length < f := by simp at h; omega
    have hn := next_cons cfg hp .verbatim (by decide) c rest la ls ln
    have hal : ∀ x, al cfg .verbatim x = x := fun x => by simp [al]
    rw [hal] at hn
    by_cases h1 : c = '"'
    · subst h1
      exact ⟨'"', '"' :: rest, by simp [readStr, hn, readStrS_cons]⟩
    by_cases h2 : c ∈ cfg.tables.strEnd
    · exact ⟨c, c :: rest, by simp [readStr, hn, h1, h2, readStrS_cons]⟩
    by_cases h3 : c = '\\'
    · subst h3
      have h3 : ('\\' : Char) = '\\' := rfl
      cases rest with
      | nil =>
        have hn2 := next_nil cfg .verbatim '\\' ['\\'] ln
        cases hl : cfg.tables.escapes.lookup EOF with
        | none =>
          obtain ⟨la', ls', ih⟩ := readStr_spec cfg hp htb f [] (acc ++ ['\\', EOF]) EOF [] ln hf
          refine ⟨la', ls', ?_⟩
          simp [readStr, hn, h1, h2, h3, hn2, hl, ih, readStrS_cons, readStrS]
        | some d =>
          obtain ⟨la', ls', ih⟩ := readStr_spec cfg hp htb f [] (acc ++ [d]) EOF [] ln hf
          refine ⟨la', ls', ?_⟩
          simp [readStr, hn, h1, h2, h3, hn2, hl, ih, readStrS_cons, readStrS]
      | cons i r =>
        have hf2 : r.length < f := by simp at hf; omega
        have hn2 := next_cons cfg hp .verbatim (by decide) i r '\\' ('\\' :: i :: r) ln
        rw [hal] at hn2
        cases hl : cfg.tables.escapes.lookup i with
        | none =>
          obtain ⟨la', ls', ih⟩ := readStr_spec cfg hp htb f r (acc ++ ['\\', i]) i (i :: r) ln hf2
          refine ⟨la', ls', ?_⟩
          simp [readStr, hn, h1, h2, h3, hn2, hl, ih, readStrS_cons]
        | some d =>
          obtain ⟨la', ls', ih⟩ := readStr_spec cfg hp htb f r (acc ++ [d]) i (i :: r) ln hf2
          refine ⟨la', ls', ?_⟩
          simp [readStr, hn, h1, h2, h3, hn2, hl, ih, readStrS_cons]
    · obtain ⟨la', ls', ih⟩ := readStr_spec cfg hp htb f rest (acc ++ [c]) c (c :: rest) ln hf
      refine ⟨la', ls', ?_⟩
      simp [readStr, hn, h1, h2, h3, ih, readStrS_cons]

theorem opLoop_spec (cfg : Cfg) (hp : cfg.pinned = false) (hcfg : cfgOK cfg = true) :
    ∀ (f : Nat) (str op : List Char) (la : Char) (ls : List Char) (ln : Nat), str.length < f →
    ∃ la' ls', opLoop cfg f ⟨str, false, la, ls, ln⟩ op =
      .ok ((opWalkS cfg op str).1, ⟨(opWalkS cfg op str).2, false, la', ls', ln⟩)
  | 0, _, _, _, _, _, h => by simp at h
  | f+1, [], op, la, ls, ln, _ => by
    refine ⟨EOF, [], ?_⟩
    simp [opLoop, next_nil, cfgOK_noEOF hcfg, opWalkS, unread, hp]
  | f+1, c :: rest, op, la, ls, ln, h => by
    have hf : rest.length < f := by simp at h; omega
    have hn := next_cons cfg hp .inToken (by decide) c rest la ls ln
    have hal : ∀ x, al cfg .inToken x = alias cfg.tables x := fun x => by simp [al]
    rw [hal] at hn
    by_cases hx : extends_ cfg (op ++ [alias cfg.tables c]) = true
    · obtain ⟨la', ls', ih⟩ := opLoop_spec cfg hp hcfg f rest (op ++ [alias cfg.tables c]) (alias cfg.tables c) (c :: rest) ln hf
      exact ⟨la', ls', by simp [opLoop, hn, hx, ih, opWalkS]⟩
    · exact ⟨alias cfg.tables c, c :: rest, by simp [opLoop, hn, hx, opWalkS, unread, hp]⟩

theorem prepend_ok (toks l : List Token) : prepend toks (.ok l) = .ok (toks ++ l) := rfl

/-! ### the main loop -/

theorem run_refines (cfg : Cfg) (hp : cfg.pinned = false) (htb : tablesOK cfg.tables = true)
    (hcfg : cfgOK cfg = true) :
    ∀ (f : Nat) (str : List Char) (la : Char) (ls : List Char) (ln : Nat) (rs : RunSt), str.length < f →
    run cfg f ⟨str, false, la, ls, ln⟩ rs = .ok (Spec.run cfg str ln rs)
  | 0, _, _, _, _, _, h => by simp at h
  | f+1, str, la, ls, ln, rs, h => by
    have ih := run_refines cfg hp htb hcfg f
    rw [Spec.run_unfold cfg htb, step]
    have hnx := next_spec cfg hp .betweenTokens str la ls ln
    have hview : view cfg .betweenTokens str ln = skipCode cfg str ln := by simp [view]
    rw [hview] at hnx
    cases hsk : skipCode cfg str ln with
    | none =>
      obtain ⟨l, hn⟩ := hnx.2 hsk
      have e1 : EOF ≠ '\n' := by decide
      have e2 : ¬ (EOF = ' ' ∨ EOF = '\r' ∨ EOF = '\t') := by decide
      rw [run]
      simp only [hn, Res.bind_ok, e1, e2, ↓reduceIte, Res.pure_eq]
    | some p =>
      obtain ⟨s0, l⟩ := p
      obtain ⟨hlen, hne⟩ := skipCode_len cfg str ln s0 l hsk
      cases s0 with
      | nil => exact absurd rfl hne
      | cons c0 rest =>
      have hrest : rest.length < f := by simp at hlen h; omega
      have hn := hnx.1 c0 rest l hsk
      have hal : al cfg .betweenTokens c0 = alias cfg.tables c0 := by simp [al]
      rw [hal] at hn
      simp only
      generalize hnd : alias cfg.tables c0 = n at hn ⊢
      rw [run]
      simp only [hn, Res.bind_ok]
      unfold stepAt
      by_cases h1 : n = '\n'
      · simp only [h1, ↓reduceIte, ih rest _ _ _ _ hrest, List.nil_append]
      simp only [h1, ↓reduceIte]
      by_cases h2 : n = ' ' ∨ n = '\r' ∨ n = '\t'
      · simp only [h2, ↓reduceIte, ih rest _ _ _ _ hrest, List.nil_append]
      simp only [h2, ↓reduceIte]
      by_cases h3 : n = EOF
      · simp only [h3, ↓reduceIte, Res.pure_eq]
      simp only [h3, ↓reduceIte]
      by_cases h4 : n = '('
      · simp only [h4, ↓reduceIte, ih rest _ _ _ _ hrest, prepend_ok, openStar]
      simp only [h4, ↓reduceIte]
      by_cases h5 : n = '"'
      · obtain ⟨la', ls', hrs⟩ := readStr_spec cfg hp htb (rest.length + 1) rest [] n (c0 :: rest) l (Nat.lt_succ_self _)
        have hl2 := readStrS_len cfg.tables rest.length rest [] (Nat.le_refl _)
        simp only [h5, ↓reduceIte] at hrs ⊢
        simp only [hrs, Res.bind_ok, ih _ _ _ _ _ (Nat.lt_of_le_of_lt hl2 hrest), prepend_ok]
      simp only [h5, ↓reduceIte]
      by_cases h6 : n = '\''
      · have hid : ∀ c, al cfg .verbatim c = id c := fun c => by simp [al]
        obtain ⟨la', ls', hrw⟩ := readWhile_spec cfg hp .verbatim (by decide) (fun _ c => c != '\'') id hid
          (rest.length + 1) EOF rest [] n (c0 :: rest) l (Nat.lt_succ_self _)
        have hl2 := readWhileS_len id (fun _ c => c != '\'') rest EOF
        simp only [h6, ↓reduceIte] at hrw ⊢
        simp only [hrw, Res.bind_ok, List.nil_append]
        cases hr2 : (readWhileS id (fun _ c => c != '\'') EOF rest).2 with
        | nil =>
          simp only [next_nil, Res.bind_ok, List.drop_nil, ih [] _ _ _ _ (Nat.lt_of_le_of_lt (Nat.zero_le _) hrest),
            prepend_ok]
        | cons q r3 =>
          have hl3 : r3.length < f := by rw [hr2] at hl2; simp at hl2; omega
          simp only [next_cons cfg hp .verbatim (by decide), Res.bind_ok, List.drop_succ_cons, List.drop_zero,
            ih r3 _ _ _ _ hl3, prepend_ok]
      simp only [h6, ↓reduceIte]
      cases hlook : cfg.tables.emit.lookup n with
      | some v =>
        obtain ⟨toks, k⟩ := v
        simp only [ih rest _ _ _ _ hrest, prepend_ok]
      | none =>
        simp only
        have hidem := skipCode_idem cfg str ln _ _ hsk
        have hpk := (peek_spec cfg hp .betweenTokens (c0 :: rest) n (c0 :: rest) l).1 c0 rest l
          (by simp [view, hidem])
        rw [hal, hnd] at hpk
        simp only [unread_clean cfg hp, hpk, Res.bind_ok]
        unfold stepDefault
        have hrm : readMode cfg = .inToken := by simp [readMode, hp]
        have halt : ∀ c, al cfg .inToken c = alias cfg.tables c := fun c => by simp [al]
        by_cases h7 : numberStart cfg n = true
        · have hex := default_notExcl htb h1 h2 h3 h4 h5 h6 hlook
          have hv := numberNext_first cfg h7 hex
          obtain ⟨la', ls', hrw⟩ := readWhile_cached cfg hp .inToken (by decide) (numberNext cfg) (alias cfg.tables) halt
            EOF c0 rest l
          rw [hnd] at hrw
          have hl2 := readWhileS_first (alias cfg.tables) (numberNext cfg) EOF c0 rest (by rw [hnd]; exact h3)
            (by rw [hnd]; exact hv)
          simp only [h7, ↓reduceIte, hrm, hrw, Res.bind_ok, ih _ _ _ _ _ (Nat.lt_of_le_of_lt hl2 hrest), prepend_ok,
            juxtaStar]
        simp only [h7, ↓reduceIte, Bool.false_eq_true]
        by_cases h8 : identStart cfg n = true
        · have hv := identNext_first cfg h8
          obtain ⟨la', ls', hrw⟩ := readWhile_cached cfg hp .inToken (by decide) (identNext cfg) (alias cfg.tables) halt
            EOF c0 rest l
          rw [hnd] at hrw
          have hl2 := readWhileS_first (alias cfg.tables) (identNext cfg) EOF c0 rest (by rw [hnd]; exact h3)
            (by rw [hnd]; exact hv)
          have hlt := Nat.lt_of_le_of_lt hl2 hrest
          simp only [h8, ↓reduceIte, hrm, hrw, Res.bind_ok]
          cases cfg.textOps.lookup (readWhileS (alias cfg.tables) (identNext cfg) EOF (c0 :: rest)).1 with
          | some o => simp only [ih _ _ _ _ _ hlt, prepend_ok]
          | none =>
            simp only
            by_cases h9 : cfg.keywords.contains (readWhileS (alias cfg.tables) (identNext cfg) EOF (c0 :: rest)).1 = true
            · simp only [h9, ↓reduceIte, ih _ _ _ _ _ hlt, prepend_ok]
            · simp only [h9, ↓reduceIte, ih _ _ _ _ _ hlt, prepend_ok, juxtaStar, Bool.false_eq_true]
        simp only [h8, ↓reduceIte, Bool.false_eq_true, parseOperator, next_cached, Res.bind_ok]
        by_cases h10 : extends_ cfg [n] = true
        · obtain ⟨la', ls', hol⟩ := opLoop_spec cfg hp hcfg (rest.length + 2) rest [n] n (c0 :: rest) l (by omega)
          have hl2 := opWalkS_len cfg rest [n]
          simp only [h10, ↓reduceIte, hol, Res.bind_ok, ih _ _ _ _ _ (Nat.lt_of_le_of_lt hl2 hrest), prepend_ok]
        · simp only [h10, ↓reduceIte, Bool.false_eq_true, Res.pure_eq, Res.bind_ok, ih rest _ _ _ _ hrest, prepend_ok]

/-- C04.1 (`tokenize_total` / `tokenize_fuel_enough` / `tokenize_no_panic`) in one statement: with fuel
`|src|+1` the state-faithful model of the repaired scanner returns exactly the token list of the
reference scanner — it never runs out of fuel and no slice expression panics, for every input. -/
theorem tokenize_refines (cfg : Cfg) (hp : cfg.pinned = false) (htb : tablesOK cfg.tables = true)
    (hcfg : cfgOK cfg = true) (src : List Char) :
    tokenize cfg src = .ok (Spec.tokenize cfg src) :=
  run_refines cfg hp htb hcfg (src.length + 1) src EOF [] 1 initRun (Nat.lt_succ_self _)

/-- C04.1 `tokenize_total` / `tokenize_fuel_enough`: the fuel `|src|+1` is never exhausted (every iteration of
`run`, of the comment loops, of `readStr`, `readSkip` and `parseOperator` consumes a rune) -/
theorem tokenize_fuel_enough (cfg : Cfg) (hp : cfg.pinned = false) (htb : tablesOK cfg.tables = true)
    (hcfg : cfgOK cfg = true) (src : List Char) : tokenize cfg src ≠ .fuel := by
  rw [tokenize_refines cfg hp htb hcfg]; exact fun h => by cases h

/-- C04.3 `tokenize_no_panic`: no slice expression of `peek` is out of range, for every input -/
theorem tokenize_no_panic (cfg : Cfg) (hp : cfg.pinned = false) (htb : tablesOK cfg.tables = true)
    (hcfg : cfgOK cfg = true) (src : List Char) : tokenize cfg src ≠ .panic := by
  rw [tokenize_refines cfg hp htb hcfg]; exact fun h => by cases h

/-- C04.1 `tokenize_total`: the scanner returns a token list for every rune sequence -/
theorem tokenize_total (cfg : Cfg) (hp : cfg.pinned = false) (htb : tablesOK cfg.tables = true)
    (hcfg : cfgOK cfg = true) (src : List Char) : ∃ ts, tokenize cfg src = .ok ts :=
  ⟨_, tokenize_refines cfg hp htb hcfg src⟩

end P2.Lex
