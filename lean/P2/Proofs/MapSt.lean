import P2.Model.MapSt
import P2.Proofs.FMap
/-! Proofs for C13: the invariant `WF` (unique keys, `Size` = number of iterated entries, `Get` = lookup
in the iterated entries), its preservation by every storage constructor and every operation, and the
refinement of the finite-map operations. -/
namespace P2.MapSt
open P2.FMap

variable {V W : Type}

theorem Res.bind_eq_ok {α β : Type} {x : Res α} {f : α → Res β} {b : β} :
    x.bind f = .ok b ↔ ∃ a, x = .ok a ∧ f a = .ok b := by
  cases x <;> simp [Res.bind]

/-! ### `setEntry` / `fromEntries` (ListMap.Append, Go map assignment) -/

theorem setEntry_of_not_mem : ∀ (es : Entries V) (k : String) (v : V), k ∉ keys es →
    setEntry es k v = es ++ [(k, v)]
  | [], _, _, _ => rfl
  | (k', v') :: rest, k, v, h => by
    simp only [keys_cons, List.mem_cons, not_or] at h
    simp only [setEntry]
    rw [if_neg (fun e => h.1 e.symm), setEntry_of_not_mem rest k v h.2]
    rfl

theorem keys_setEntry_of_mem : ∀ (es : Entries V) (k : String) (v : V), k ∈ keys es →
    keys (setEntry es k v) = keys es
  | [], _, _, h => by cases h
  | (k', v') :: rest, k, v, h => by
    simp only [setEntry]
    by_cases hk : k' = k
    · rw [if_pos hk]; rfl
    · rw [if_neg hk]
      simp only [keys_cons, List.mem_cons] at h
      have := keys_setEntry_of_mem rest k v (h.resolve_left fun e => hk e.symm)
      simp [keys_cons, this]

theorem valid_setEntry (es : Entries V) (k : String) (v : V) (h : Valid es) : Valid (setEntry es k v) := by
  by_cases hk : k ∈ keys es
  · simp only [Valid]; rw [keys_setEntry_of_mem es k v hk]; exact h
  · rw [setEntry_of_not_mem es k v hk]
    simp only [Valid, keys_append, keys_cons, keys_nil]
    refine List.nodup_append.mpr ⟨h, by simp, fun x hx y hy hxy => ?_⟩
    simp only [List.mem_singleton] at hy
    exact hk (hy ▸ hxy ▸ hx)

theorem lookup_setEntry : ∀ (es : Entries V) (k : String) (v : V) (x : String),
    lookup (setEntry es k v) x = if k = x then some v else lookup es x
  | [], k, v, x => by simp [setEntry, lookup]
  | (k', v') :: rest, k, v, x => by
    simp only [setEntry]
    by_cases hk : k' = k
    · subst hk; rw [if_pos rfl]; simp only [lookup]; split <;> rfl
    · rw [if_neg hk]
      simp only [lookup, lookup_setEntry rest k v x]
      by_cases hx : k' = x
      · have hkx : ¬ k = x := fun e => hk (hx.trans e.symm)
        simp [hx, hkx]
      · simp [hx]

theorem valid_foldl_setEntry (es acc : Entries V) (h : Valid acc) :
    Valid (es.foldl (fun acc e => setEntry acc e.1 e.2) acc) := by
  induction es generalizing acc with
  | nil => exact h
  | cons e es ih => exact ih _ (valid_setEntry acc e.1 e.2 h)

/-- whatever is written into a `ListMap` by `Append` / into a Go map by assignment: keys stay unique -/
theorem valid_fromEntries (es : Entries V) : Valid (fromEntries es) :=
  valid_foldl_setEntry es [] (by simp [Valid])

theorem foldl_setEntry_of_valid (es acc : Entries V) (h : Valid (acc ++ es)) :
    es.foldl (fun acc e => setEntry acc e.1 e.2) acc = acc ++ es := by
  induction es generalizing acc with
  | nil => simp
  | cons e es ih =>
    simp only [List.foldl_cons]
    have hk : e.1 ∉ keys acc := by
      simp only [Valid, keys_append, keys_cons] at h
      have := (List.nodup_append.mp h).2.2
      exact fun hm => this e.1 hm e.1 List.mem_cons_self rfl
    rw [setEntry_of_not_mem acc e.1 e.2 hk, ih]
    · simp
    · simpa using h

/-- copying duplicate-free entries one by one reproduces them, in order -/
theorem fromEntries_of_valid (es : Entries V) (h : Valid es) : fromEntries es = es := by
  have := foldl_setEntry_of_valid es [] (by simpa using h)
  simpa [fromEntries] using this

theorem lookup_foldl_setEntry (es acc : Entries V) (x : String) :
    lookup (es.foldl (fun acc e => setEntry acc e.1 e.2) acc) x =
      match lookup es.reverse x with | some v => some v | none => lookup acc x := by
  induction es generalizing acc with
  | nil => simp [lookup]
  | cons e es ih =>
    simp only [List.foldl_cons, List.reverse_cons]
    rw [ih, lookup_append, lookup_setEntry]
    cases lookup es.reverse x with
    | some v => rfl
    | none =>
      simp only [lookup]
      by_cases hx : e.1 = x <;> simp [hx]

/-- Go map assignment semantics: the last assignment to a key wins -/
theorem lookup_fromEntries (es : Entries V) (x : String) :
    lookup (fromEntries es) x = lookup es.reverse x := by
  simp only [fromEntries]
  rw [lookup_foldl_setEntry]
  cases lookup es.reverse x <;> rfl

/-! ### the invariant -/

/-- C13.1: the three methods of a storage describe one duplicate-free association list -/
structure WF (s : St V) : Prop where
  nodup : Valid (iter s)
  size : size s = (iter s).length
  get : ∀ x, get s x = lookup (iter s) x

/-- what `NewFuncMapFactory(fn, keys…)` expects of its caller: no key listed twice and `fn` answers
exactly for the listed keys -/
def FuncOK (ks : List String) (f : String → Option V) : Prop :=
  ks.Nodup ∧ ∀ k, (f k).isSome = true ↔ k ∈ ks

theorem wf_list (es : Entries V) (h : Valid es) : WF (.list es) := ⟨h, rfl, fun _ => rfl⟩
theorem wf_real (es : Entries V) (h : Valid es) : WF (.real es) := ⟨h, rfl, fun _ => rfl⟩
theorem wf_wrap (es : Entries V) (h : Valid es) : WF (.wrap es) := ⟨h, rfl, fun _ => rfl⟩
theorem wf_empty : WF (.empty : St V) := ⟨by simp [iter, Valid], rfl, fun _ => rfl⟩

/-- `AppendMap` over any well-formed parent, provided the key is new -/
theorem wf_append (k : String) (v : V) (p : St V) (hp : WF p) (habs : get p k = none) :
    WF (.append k v p) := by
  refine ⟨?_, by simp [size, iter, hp.size], fun x => ?_⟩
  · simp only [iter, Valid, keys_cons, List.nodup_cons]
    rw [hp.get] at habs
    exact ⟨(lookup_eq_none_iff _ k).mp habs, hp.nodup⟩
  · simp only [get, iter, lookup]
    by_cases hx : x = k
    · simp [hx]
    · rw [if_neg hx, if_neg (fun h => hx h.symm)]; exact hp.get x

/-- `MergeMap` over any two well-formed storages with disjoint key sets -/
theorem wf_merge (a b : St V) (ha : WF a) (hb : WF b)
    (hdis : ∀ x ∈ keys (iter b), get a x = none) : WF (.merge a b) := by
  refine ⟨?_, by simp [size, iter, ha.size, hb.size], fun x => ?_⟩
  · simp only [iter, Valid, keys_append]
    refine List.nodup_append.mpr ⟨ha.nodup, hb.nodup, fun x hxa y hyb hxy => ?_⟩
    subst hxy
    have h1 := hdis x hyb
    rw [ha.get] at h1
    exact (lookup_eq_none_iff _ x).mp h1 hxa
  · simp only [get, iter, lookup_append, ha.get, hb.get]
    cases lookup (iter a) x <;> rfl

/-- `ReplaceMap` (repaired `Get`) over any well-formed original; nothing is required of the replacement -/
theorem wf_replace (o r : St V) (d : Nat) (ho : WF o) : WF (.replace o r d) := by
  refine ⟨?_, by simp [size, iter, ho.size], fun x => ?_⟩
  · simp only [iter, Valid]
    rw [keys_map_val (fun k v => (get r k).getD v)]
    exact ho.nodup
  · simp only [get, iter]
    rw [lookup_map_val (fun k v => (get r k).getD v), ← ho.get]
    cases get o x with
    | none => rfl
    | some v => cases get r x <;> rfl

private theorem keys_filterMap_func (f : String → Option V) : ∀ (ks : List String),
    (∀ k ∈ ks, (f k).isSome = true) → keys (ks.filterMap fun k => (f k).map fun v => (k, v)) = ks
  | [], _ => rfl
  | k :: ks, h => by
    have hk := h k List.mem_cons_self
    cases hf : f k with
    | none => rw [hf] at hk; cases hk
    | some v =>
      simp only [List.filterMap_cons, hf, Option.map_some, keys_cons]
      rw [keys_filterMap_func f ks (fun x hx => h x (List.mem_cons_of_mem _ hx))]

/-- `funcMapType` under the contract of its constructor -/
theorem wf_func (ks : List String) (f : String → Option V) (h : FuncOK ks f) : WF (.func ks f) := by
  have hkeys := keys_filterMap_func f ks (fun k hk => (h.2 k).mpr hk)
  have hval : Valid (iter (.func ks f)) := by simp only [iter, Valid, hkeys]; exact h.1
  refine ⟨hval, ?_, fun x => ?_⟩
  · have : (keys (iter (.func ks f))).length = ks.length := by simp only [iter, hkeys]
    simpa [keys, size] using this.symm
  · simp only [get]
    cases hf : f x with
    | none =>
      symm
      refine (lookup_eq_none_iff _ x).mpr ?_
      simp only [iter, hkeys]
      intro hm
      have := (h.2 x).mpr hm
      rw [hf] at this; cases this
    | some v =>
      symm
      refine lookup_of_mem _ hval x v ?_
      simp only [iter, List.mem_filterMap]
      exact ⟨x, (h.2 x).mp (by simp [hf]), by simp [hf]⟩

/-- `bin` (repaired `Size`) -/
theorem wf_bin (isMin isMax : Bool) (s mn mx : V) : WF (.bin isMin isMax s mn mx) := by
  refine ⟨?_, ?_, fun x => ?_⟩
  · cases isMin <;> cases isMax <;> simp [iter, Valid]
  · cases isMin <;> cases isMax <;> simp [iter, size]
  · by_cases h1 : x = "str"
    · subst h1; simp [get, iter, lookup]
    · by_cases h2 : x = "min"
      · subst h2; cases isMin <;> cases isMax <;> simp [get, iter, lookup]
      · by_cases h3 : x = "max"
        · subst h3; cases isMin <;> cases isMax <;> simp [get, iter, lookup]
        · have e1 : ¬ "str" = x := fun e => h1 e.symm
          have e2 : ¬ "min" = x := fun e => h2 e.symm
          have e3 : ¬ "max" = x := fun e => h3 e.symm
          cases isMin <;> cases isMax <;> simp [get, iter, lookup, h1, h2, h3, e1, e2, e3]

/-- structural form of the invariant: what has to hold at every level of a wrapper nesting -/
def LocalInv : St V → Prop
  | .list es => Valid es
  | .real es => Valid es
  | .wrap es => Valid es
  | .empty => True
  | .append k _ p => LocalInv p ∧ k ∉ keys (iter p)
  | .merge a b => LocalInv a ∧ LocalInv b ∧ ∀ x ∈ keys (iter b), x ∉ keys (iter a)
  | .replace o _ _ => LocalInv o
  | .func ks f => FuncOK ks f
  | .bin _ _ _ _ _ => True

/-- induction over the storage: `LocalInv` at every level gives `WF` of the whole, for every nesting -/
theorem localInv_wf : ∀ (s : St V), LocalInv s → WF s
  | .list es, h => wf_list es h
  | .real es, h => wf_real es h
  | .wrap es, h => wf_wrap es h
  | .empty, _ => wf_empty
  | .append k v p, h => by
    have hp := localInv_wf p h.1
    exact wf_append k v p hp (by rw [hp.get]; exact (lookup_eq_none_iff _ k).mpr h.2)
  | .merge a b, h => by
    have ha := localInv_wf a h.1
    exact wf_merge a b ha (localInv_wf b h.2.1)
      (fun x hx => by rw [ha.get]; exact (lookup_eq_none_iff _ x).mpr (h.2.2 x hx))
  | .replace o r d, h => wf_replace o r d (localInv_wf o h)
  | .func ks f, h => wf_func ks f h
  | .bin a b s mn mx, _ => wf_bin a b s mn mx

/-! ### operations preserve the invariant and refine the finite-map operations -/

def absR : Res (St V) → Res (Entries V)
  | .ok s => .ok (abs s)
  | .err => .err
  | .panic => .panic
  | .fuel => .fuel

theorem put_wf {s s' : St V} {k : String} {v : V} (hs : WF s) (h : putOp s k v = .ok s') : WF s' := by
  simp only [putOp] at h
  cases hg : get s k with
  | some w => simp [hg] at h
  | none =>
    simp only [hg, Res.ok.injEq] at h
    subst h
    exact wf_append k v s hs hg

/-- `put` = insert-if-absent, an error exactly for a key already present -/
theorem put_refines (s : St V) (hs : WF s) (k : String) (v : V) :
    absR (putOp s k v) = Res.ofOption (FMap.insert (abs s) k v) := by
  simp only [putOp, FMap.insert, abs, ← hs.get]
  cases get s k <;> rfl

theorem merge_wf {a b s : St V} (ha : WF a) (hb : WF b) (h : mergeOp a b = .ok s) : WF s := by
  simp only [mergeOp] at h
  split at h
  · cases h
  · rename_i hn
    cases h
    refine wf_merge a b ha hb (fun x hx => ?_)
    obtain ⟨e, he, rfl⟩ := List.mem_map.mp hx
    cases hg : get a e.1 with
    | none => rfl
    | some w => exact absurd (List.any_eq_true.mpr ⟨e, he, by simp [hg]⟩) hn

/-- `+` = disjoint union, an error exactly for overlapping key sets -/
theorem merge_refines (a b : St V) (ha : WF a) :
    absR (mergeOp a b) = Res.ofOption (FMap.union (abs a) (abs b)) := by
  have : (keys (iter b)).any (fun k => (lookup (iter a) k).isSome) =
      (iter b).any (fun e => (get a e.1).isSome) := by
    simp only [keys, List.any_map, Function.comp_def, ha.get]
  simp only [mergeOp, FMap.union, abs, this]
  split <;> rfl

theorem createFlat_wf (cfg : Cfg) (s : St V) : WF (createFlat cfg s) := by
  simp only [createFlat]
  split
  · exact wf_real _ (valid_fromEntries _)
  · exact wf_list _ (valid_fromEntries _)

/-- C13.3 `flatten_id`: flattening a deep replace chain does not change the map (same entries, same order) -/
theorem flatten_id (cfg : Cfg) (s : St V) (hs : WF s) : abs (createFlat cfg s) = abs s := by
  simp only [createFlat, abs]
  split <;> simp only [iter] <;> exact fromEntries_of_valid _ hs.nodup

theorem replace_wf (cfg : Cfg) (o r : St V) (ho : WF o) : WF (replaceOp cfg o r) := by
  simp only [replaceOp]
  split
  · exact createFlat_wf cfg _
  · exact wf_replace o r _ ho

/-- `replace` = update of the keys of the original map, at every depth (with or without flattening) -/
theorem replace_refines (cfg : Cfg) (o r : St V) (ho : WF o) (hr : WF r) :
    abs (replaceOp cfg o r) = FMap.update (abs o) (abs r) := by
  have h1 : ∀ d, abs (.replace o r d) = FMap.update (abs o) (abs r) := fun d => by
    simp only [abs, iter, FMap.update, hr.get]
  simp only [replaceOp]
  split
  · rw [flatten_id cfg _ (wf_replace o r _ ho)]; exact h1 _
  · exact h1 _

theorem eval_wf (s : St V) : WF (evalOp s) := wf_real _ (valid_fromEntries _)

/-- `eval` = identity -/
theorem eval_refines (s : St V) (hs : WF s) : abs (evalOp s) = abs s := by
  simp only [evalOp, abs, iter]; exact fromEntries_of_valid _ hs.nodup

/-- the outcome of the callback loop as a pure function of the entries -/
def collectSpec (g : String → V → Option (Option W)) : Entries V → Option (Entries W)
  | [] => some []
  | (k, v) :: rest =>
    match g k v, collectSpec g rest with
    | some (some w), some t => some ((k, w) :: t)
    | some none, some t => some t
    | _, _ => none

theorem keys_collectSpec_sub (g : String → V → Option (Option W)) : ∀ (es : Entries V) (t : Entries W),
    collectSpec g es = some t → ∀ x ∈ keys t, x ∈ keys es
  | [], t, h, x, hx => by simp [collectSpec] at h; subst h; cases hx
  | (k, v) :: rest, t, h, x, hx => by
    simp only [collectSpec] at h
    cases hg : g k v with
    | none => simp [hg] at h
    | some r =>
      cases hc : collectSpec g rest with
      | none => cases r <;> simp [hg, hc] at h
      | some t' =>
        have ih := keys_collectSpec_sub g rest t' hc
        cases r with
        | none =>
          simp only [hg, hc, Option.some.injEq] at h
          subst h
          exact List.mem_cons_of_mem _ (ih x hx)
        | some w =>
          simp only [hg, hc, Option.some.injEq] at h
          subst h
          simp only [keys_cons, List.mem_cons] at hx ⊢
          exact hx.imp id (ih x)

theorem collectSpec_congr {g g' : String → V → Option (Option W)} (h : ∀ k v, g k v = g' k v) :
    ∀ (es : Entries V), collectSpec g es = collectSpec g' es
  | [] => rfl
  | (k, v) :: rest => by simp only [collectSpec, h k v, collectSpec_congr h rest]

theorem collect_spec (g : String → V → Option (Option W)) : ∀ (es : Entries V) (acc : Entries W),
    Valid es → (∀ x ∈ keys es, x ∉ keys acc) →
    collect g acc es = match collectSpec g es with | some t => .ok (acc ++ t) | none => .err
  | [], acc, _, _ => by simp [collect, collectSpec]
  | (k, v) :: rest, acc, hv, hd => by
    simp only [Valid, keys_cons, List.nodup_cons] at hv
    simp only [collect, collectSpec]
    cases hg : g k v with
    | none => rfl
    | some r =>
      cases r with
      | none =>
        simp only []
        rw [collect_spec g rest acc hv.2 (fun x hx => hd x (List.mem_cons_of_mem _ hx))]
        cases collectSpec g rest <;> rfl
      | some w =>
        simp only []
        have hk : k ∉ keys acc := hd k List.mem_cons_self
        rw [setEntry_of_not_mem acc k w hk,
          collect_spec g rest (acc ++ [(k, w)]) hv.2 (fun x hx => by
            simp only [keys_append, keys_cons, keys_nil, List.mem_append, List.mem_singleton, not_or]
            exact ⟨hd x (List.mem_cons_of_mem _ hx), fun e => hv.1 (e ▸ hx)⟩)]
        cases collectSpec g rest <;> simp

theorem collect_valid (g : String → V → Option (Option W)) : ∀ (es : Entries V) (acc r : Entries W),
    Valid acc → collect g acc es = .ok r → Valid r
  | [], acc, r, ha, h => by simp only [collect, Res.ok.injEq] at h; exact h ▸ ha
  | (k, v) :: rest, acc, r, ha, h => by
    simp only [collect] at h
    cases hg : g k v with
    | none => simp [hg] at h
    | some o =>
      cases o with
      | none => simp only [hg] at h; exact collect_valid g rest acc r ha h
      | some w => simp only [hg] at h; exact collect_valid g rest _ r (valid_setEntry acc k w ha) h

theorem listRes_wf {r : Res (Entries W)} {s : St W} (h : listRes r = .ok s)
    (hv : ∀ es, r = .ok es → Valid es) : WF s := by
  cases r with
  | ok es => simp only [listRes, Res.ok.injEq] at h; exact h ▸ wf_list es (hv es rfl)
  | err => cases h
  | panic => cases h
  | fuel => cases h

theorem map_wf {s : St V} {s' : St W} (f : String → V → Option W) (h : mapOp f s = .ok s') : WF s' :=
  listRes_wf h fun _ he => collect_valid _ _ _ _ (by simp [Valid]) he

theorem accept_wf {s s' : St V} (p : String → V → Option Bool) (h : acceptOp p s = .ok s') : WF s' :=
  listRes_wf h fun _ he => collect_valid _ _ _ _ (by simp [Valid]) he

theorem combine_wf {a b s' : St V} (f : V → V → Option V) (h : combineOp f a b = .ok s') : WF s' :=
  listRes_wf h fun _ he => collect_valid _ _ _ _ (by simp [Valid]) he

theorem absR_listRes (r : Res (Entries W)) : absR (listRes r) = r := by cases r <;> rfl

theorem collect_nil_spec (g : String → V → Option (Option W)) (es : Entries V) (h : Valid es) :
    collect g [] es = Res.ofOption (collectSpec g es) := by
  rw [collect_spec g es [] h (fun _ _ hm => by cases hm)]
  cases collectSpec g es <;> simp [Res.ofOption]

theorem mapVals_eq_collectSpec (f : String → V → Option W) : ∀ (es : Entries V),
    collectSpec (fun k v => (f k v).map some) es = FMap.mapVals f es
  | [] => rfl
  | (k, v) :: rest => by
    simp only [collectSpec, FMap.mapVals, mapVals_eq_collectSpec f rest]
    cases f k v <;> cases FMap.mapVals f rest <;> rfl

theorem filter_eq_collectSpec (p : String → V → Option Bool) : ∀ (es : Entries V),
    collectSpec (fun k v => (p k v).map fun b => if b then some v else none) es = FMap.filter p es
  | [] => rfl
  | (k, v) :: rest => by
    simp only [collectSpec, FMap.filter, filter_eq_collectSpec p rest]
    cases hp : p k v with
    | none => cases FMap.filter p rest <;> rfl
    | some b => cases b <;> cases FMap.filter p rest <;> rfl

/-- `map` = pointwise on the values (an error iff the callback fails on some entry) -/
theorem map_refines (f : String → V → Option W) (s : St V) (hs : WF s) :
    absR (mapOp f s) = Res.ofOption (FMap.mapVals f (abs s)) := by
  simp only [mapOp, absR_listRes, collect_nil_spec _ _ hs.nodup, mapVals_eq_collectSpec]

/-- `accept` = the sub-map of the accepted entries -/
theorem accept_refines (p : String → V → Option Bool) (s : St V) (hs : WF s) :
    absR (acceptOp p s) = Res.ofOption (FMap.filter p (abs s)) := by
  simp only [acceptOp, absR_listRes, collect_nil_spec _ _ hs.nodup, filter_eq_collectSpec]

/-- `combine` = pointwise on the keys of the left map (an error iff a key is missing on the right or the
callback fails) -/
theorem combine_refines (f : V → V → Option V) (a b : St V) (ha : WF a) (hb : WF b) :
    absR (combineOp f a b) = Res.ofOption (FMap.combine f (abs a) (abs b)) := by
  simp only [combineOp, absR_listRes, collect_nil_spec _ _ ha.nodup, FMap.combine]
  congr 1
  rw [← mapVals_eq_collectSpec]
  exact collectSpec_congr (fun k v => by
    simp only [abs, hb.get]; cases lookup (iter b) k <;> rfl) _

theorem parseMapLoop_spec : ∀ (es acc : Entries V), Valid acc →
    parseMapLoop acc es = if Valid (acc ++ es) then .ok (acc ++ es) else .err
  | [], acc, ha => by simp [parseMapLoop, ha]
  | (k, a) :: rest, acc, ha => by
    simp only [parseMapLoop]
    cases hl : lookup acc k with
    | some w =>
      have hm : k ∈ keys acc := (lookup_isSome_iff acc k).mp (by simp [hl])
      have : ¬ Valid (acc ++ (k, a) :: rest) := fun hv => by
        simp only [Valid, keys_append, keys_cons] at hv
        exact (List.nodup_append.mp hv).2.2 k hm k List.mem_cons_self rfl
      simp [this]
    | none =>
      have hk := (lookup_eq_none_iff acc k).mp hl
      simp only []
      rw [setEntry_of_not_mem acc k a hk, parseMapLoop_spec rest _ (by
        rw [← setEntry_of_not_mem acc k a hk]; exact valid_setEntry acc k a ha)]
      simp

/-- a map literal is accepted exactly if no key is written twice, and then denotes the written entries -/
theorem lit_refines (es : Entries V) :
    absR (litOp es) = if Valid es then .ok es else .err := by
  simp only [litOp, absR_listRes]
  rw [parseMapLoop_spec es [] (by simp [Valid])]
  simp only [List.nil_append]
  split
  · rename_i h
    simp [Res.bind, fromEntries_of_valid es h]
  · rfl

theorem lit_wf {es : Entries V} {s : St V} (h : litOp es = .ok s) : WF s := by
  refine listRes_wf h fun m hm => ?_
  cases hp : parseMapLoop [] es with
  | ok m' =>
    simp only [hp, Res.bind, Res.ok.injEq] at hm
    exact hm ▸ valid_fromEntries _
  | err => simp [hp, Res.bind] at hm
  | panic => simp [hp, Res.bind] at hm
  | fuel => simp [hp, Res.bind] at hm

theorem wrap_wf (attrs : Entries V) : WF (wrapOp attrs) := wf_wrap _ (valid_fromEntries _)
theorem realOp_wf (es : Entries V) : WF (realOp es) := wf_real _ (valid_fromEntries _)

/-- a struct wrapper answers with the last getter registered under a name -/
theorem wrap_get (attrs : Entries V) (x : String) : get (wrapOp attrs) x = lookup attrs.reverse x :=
  lookup_fromEntries attrs x

/-! ### histories -/

/-- the only hypothesis on a history: function wrappers are used according to their contract -/
def HistOK : Hist V → Prop
  | .func ks f => FuncOK ks f
  | .put h _ _ => HistOK h
  | .merge a b => HistOK a ∧ HistOK b
  | .replace o r => HistOK o ∧ HistOK r
  | .eval h => HistOK h
  | .map h _ => HistOK h
  | .accept h _ => HistOK h
  | .combine a b _ => HistOK a ∧ HistOK b
  | _ => True

/-- C13.1 `reachable_wf`: induction over the operation history. Whatever sequence of literal, put, +,
replace (any depth, flattened or not), eval, map, accept, combine, wrappers and bins produced a storage,
it satisfies `WF`. -/
theorem run_wf (cfg : Cfg) : ∀ (h : Hist V) (env : List (St V)) (s : St V), HistOK h → (∀ e ∈ env, WF e) →
    run cfg env h = .ok s → WF s
  | .lit es, _, s, _, _, hr => lit_wf hr
  | .emptyMap, _, s, _, _, hr => by simp only [run, Res.ok.injEq] at hr; exact hr ▸ wf_empty
  | .var i, env, s, _, he, hr => by
    simp only [run] at hr
    cases hi : env[i]? with
    | none => simp [hi] at hr
    | some e =>
      simp only [hi, Res.ok.injEq] at hr
      exact hr ▸ he e (List.mem_of_getElem? hi)
  | .put h k v, env, s, ho, he, hr => by
    simp only [run] at hr
    obtain ⟨x, hx, hp⟩ := Res.bind_eq_ok.mp hr
    exact put_wf (run_wf cfg h env x ho he hx) hp
  | .merge a b, env, s, ho, he, hr => by
    simp only [run] at hr
    obtain ⟨x, hx, hr⟩ := Res.bind_eq_ok.mp hr
    obtain ⟨y, hy, hm⟩ := Res.bind_eq_ok.mp hr
    exact merge_wf (run_wf cfg a env x ho.1 he hx) (run_wf cfg b env y ho.2 he hy) hm
  | .replace o r, env, s, ho, he, hr => by
    simp only [run] at hr
    obtain ⟨x, hx, hr⟩ := Res.bind_eq_ok.mp hr
    obtain ⟨y, _, hm⟩ := Res.bind_eq_ok.mp hr
    simp only [Res.ok.injEq] at hm
    exact hm ▸ replace_wf cfg x y (run_wf cfg o env x ho.1 he hx)
  | .eval h, env, s, _, _, hr => by
    simp only [run] at hr
    obtain ⟨x, _, hm⟩ := Res.bind_eq_ok.mp hr
    simp only [Res.ok.injEq] at hm
    exact hm ▸ eval_wf x
  | .map h f, env, s, _, _, hr => by
    simp only [run] at hr
    obtain ⟨x, _, hm⟩ := Res.bind_eq_ok.mp hr
    exact map_wf f hm
  | .accept h p, env, s, _, _, hr => by
    simp only [run] at hr
    obtain ⟨x, _, hm⟩ := Res.bind_eq_ok.mp hr
    exact accept_wf p hm
  | .combine a b f, env, s, _, _, hr => by
    simp only [run] at hr
    obtain ⟨x, _, hr⟩ := Res.bind_eq_ok.mp hr
    obtain ⟨y, _, hm⟩ := Res.bind_eq_ok.mp hr
    exact combine_wf f hm
  | .func ks f, _, s, ho, _, hr => by
    simp only [run, Res.ok.injEq] at hr; exact hr ▸ wf_func ks f ho
  | .wrap attrs, _, s, _, _, hr => by
    simp only [run, Res.ok.injEq] at hr; exact hr ▸ wrap_wf attrs
  | .real es, _, s, _, _, hr => by
    simp only [run, Res.ok.injEq] at hr; exact hr ▸ realOp_wf es
  | .bin a b st mn mx, _, s, _, _, hr => by
    simp only [run, Res.ok.injEq] at hr; exact hr ▸ wf_bin a b st mn mx

end P2.MapSt
