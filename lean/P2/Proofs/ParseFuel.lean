import P2.Model.Parse
/-! # C04.2 `parse_fuel_enough`: the fuel `(|tokens|+1)·(n+8)` of `parse` always suffices

Two inductions on the fuel over all eleven mutually recursive functions of the Parse model, for **every**
table (pinned or repaired), scope and token list:

* `len_all` (`Len t f`): what a successful call leaves over is strictly shorter than its input
  (`loopOp`/`postfixLoop`: not longer) — for every fuel, no precondition;
* `nf_all` (`NF t f`): a call whose fuel covers the potential `W t ts = (|ts|+1)·(n+8)` minus the offset
  of the function (its position in the chain of calls that do not consume a token,
  `parseArgs → argsLoop → parseLet → parseOp 0 → … → parseOp (n-1) → parseUnary → parseNonOp → parseLit`)
  never answers `fuel`.

Technique: the length facts are attached to the scrutinee equations `X = .ok a rest` produced by `split`
by rewriting with `(X = .ok a rest) = (Mk X (.ok a rest) ∧ rest.length < ts.length)` (`Mk` is an opaque
copy of `=` that stops the rewriting), after which `omega` sees them. -/
namespace P2.Parse

/-! ### the potential -/

/-- the potential of a token list -/
def W (t : Table) (ts : List Tok) : Nat := (ts.length + 1) * (t.n + 8)

theorem W_eq_fuelFor (t : Table) (ts : List Tok) : W t ts = fuelFor t ts := rfl

theorem W_cons (t : Table) (x : Tok) (ts : List Tok) : W t (x :: ts) = W t ts + (t.n + 8) := by
  simp [W, Nat.succ_mul]

theorem W_mono (t : Table) {a b : List Tok} (h : a.length ≤ b.length) : W t a ≤ W t b := by
  unfold W; exact Nat.mul_le_mul_right _ (by omega)

theorem W_pos (t : Table) (ts : List Tok) : t.n + 8 ≤ W t ts := by
  unfold W; exact Nat.le_mul_of_pos_left _ (by omega)

theorem W_lt (t : Table) {a b : List Tok} (h : a.length < b.length) : W t a + (t.n + 8) ≤ W t b := by
  have h1 : W t a + (t.n + 8) = (a.length + 1 + 1) * (t.n + 8) := by
    unfold W; rw [Nat.succ_mul (a.length + 1)]
  rw [h1]; unfold W; exact Nat.mul_le_mul_right _ (by omega)

/-- fuel `f` covers the potential of `ts` minus the offset `off` -/
def Fits (t : Table) (ts : List Tok) (off f : Nat) : Prop := W t ts ≤ f + off

theorem Fits.zero {t : Table} {ts : List Tok} {off : Nat} (h : Fits t ts off 0) (ho : off < t.n + 8) : False := by
  have := W_pos t ts; unfold Fits at h; omega

/-- a call on a shorter list is always affordable, a call on the same list needs a larger offset -/
theorem fits {t : Table} {a b : List Tok} {offa offb f : Nat} (hf : Fits t b offb (f+1))
    (h : (a.length < b.length ∧ offb + 1 ≤ t.n + 8) ∨ (a.length ≤ b.length ∧ offb + 1 ≤ offa)) :
    Fits t a offa f := by
  unfold Fits at *
  rcases h with ⟨h1, h2⟩ | ⟨h1, h2⟩
  · have := W_lt t h1; omega
  · have := W_mono t h1; omega

/-! ### marking -/

/-- an opaque copy of `=` (stops `simp` from rewriting the same equation again) -/
def Mk {α : Type} (x y : α) : Prop := x = y

theorem mark_lt {α : Type} {r : PR α} {n : Nat} (h : ∀ a rest, r = .ok a rest → rest.length < n)
    (a : α) (rest : List Tok) : (r = .ok a rest) = (Mk r (.ok a rest) ∧ rest.length < n) :=
  propext ⟨fun e => ⟨e, h a rest e⟩, fun e => e.1⟩

theorem mark_le {α : Type} {r : PR α} {n : Nat} (h : ∀ a rest, r = .ok a rest → rest.length ≤ n)
    (a : α) (rest : List Tok) : (r = .ok a rest) = (Mk r (.ok a rest) ∧ rest.length ≤ n) :=
  propext ⟨fun e => ⟨e, h a rest e⟩, fun e => e.1⟩

theorem PR.fail_ne_ok {α β : Type} (r : PR α) (b : β) (rest : List Tok) : ((r.fail : PR β) = .ok b rest) = False := by
  cases r <;> simp [PR.fail]

theorem PR.fail_ne_fuel {α β : Type} {r : PR α} (h : r ≠ .fuel) : (r.fail : PR β) ≠ .fuel := by
  cases r <;> simp_all [PR.fail]

theorem identLit_ne_fuel (σ : Scope) (name : String) (rest : List Tok) : identLit σ name rest ≠ .fuel := by
  unfold identLit; repeat' split
  all_goals simp

theorem identLit_ok (σ : Scope) (name : String) (rest : List Tok) (a : E) (r : List Tok) :
    (identLit σ name rest = .ok a r) = (Mk (identLit σ name rest) (.ok a r) ∧ r.length = rest.length) := by
  refine propext ⟨fun e => ⟨e, ?_⟩, fun e => e.1⟩
  unfold identLit at e
  repeat' split at e
  all_goals first | (cases e; rfl) | cases e

theorem parseIdentList_lt (acc : List String) (ts : List Tok) (names : List String) (rest : List Tok) :
    parseIdentList acc ts = some (names, rest) → rest.length < ts.length := by
  fun_induction parseIdentList acc ts with
  | case1 => intro h; cases h
  | case2 => intro h; cases h; simp only [List.length_cons]; omega
  | case3 => intro h; cases h
  | case4 acc s rest' hs ih => intro h; have := ih h; simp only [List.length_cons]; omega
  | case5 => intro h; cases h

theorem identList_ok (acc names : List String) (ts rest : List Tok) :
    (parseIdentList acc ts = some (names, rest)) =
      (Mk (parseIdentList acc ts) (some (names, rest)) ∧ rest.length < ts.length) :=
  propext ⟨fun e => ⟨e, parseIdentList_lt _ _ _ _ e⟩, fun e => e.1⟩

theorem ops_ok (t : Table) (k : Nat) (o : String) :
    (t.ops[k]? = some o) = (Mk (t.ops[k]?) (some o) ∧ k < t.n) := by
  refine propext ⟨fun e => ⟨e, ?_⟩, fun e => e.1⟩
  have := (List.getElem?_eq_some_iff.mp e).1
  exact this

/-! ### part A: what a successful call leaves over -/

structure Len (t : Table) (f : Nat) : Prop where
  pLet : ∀ σ ts a rest, parseLet t f σ ts = .ok a rest → rest.length < ts.length
  pOp : ∀ σ k ts a rest, parseOp t f σ k ts = .ok a rest → rest.length < ts.length
  pLoop : ∀ σ k o e ts a rest, loopOp t f σ k o e ts = .ok a rest → rest.length ≤ ts.length
  pUn : ∀ σ ts a rest, parseUnary t f σ ts = .ok a rest → rest.length < ts.length
  pNon : ∀ σ ts a rest, parseNonOp t f σ ts = .ok a rest → rest.length < ts.length
  pPost : ∀ σ e ts a rest, postfixLoop t f σ e ts = .ok a rest → rest.length ≤ ts.length
  pLit : ∀ σ ts a rest, parseLit t f σ ts = .ok a rest → rest.length < ts.length
  pArgs : ∀ σ br ts a rest, parseArgs t f σ br ts = .ok a rest → rest.length < ts.length
  pArgsL : ∀ σ br ts a rest, argsLoop t f σ br ts = .ok a rest → rest.length < ts.length
  pMap : ∀ σ keys ts a rest, parseMap t f σ keys ts = .ok a rest → rest.length < ts.length
  pCases : ∀ σ ts a rest, parseCases t f σ ts = .ok a rest → rest.length < ts.length

section
variable {t : Table} {f : Nat} (L : Len t f)
include L

theorem Len.mLet σ ts a rest : (parseLet t f σ ts = .ok a rest) = (Mk (parseLet t f σ ts) (.ok a rest) ∧ rest.length < ts.length) :=
  mark_lt (L.pLet σ ts) a rest
theorem Len.mOp σ k ts a rest : (parseOp t f σ k ts = .ok a rest) = (Mk (parseOp t f σ k ts) (.ok a rest) ∧ rest.length < ts.length) :=
  mark_lt (L.pOp σ k ts) a rest
theorem Len.mLoop σ k o e ts a rest : (loopOp t f σ k o e ts = .ok a rest) = (Mk (loopOp t f σ k o e ts) (.ok a rest) ∧ rest.length ≤ ts.length) :=
  mark_le (L.pLoop σ k o e ts) a rest
theorem Len.mUn σ ts a rest : (parseUnary t f σ ts = .ok a rest) = (Mk (parseUnary t f σ ts) (.ok a rest) ∧ rest.length < ts.length) :=
  mark_lt (L.pUn σ ts) a rest
theorem Len.mNon σ ts a rest : (parseNonOp t f σ ts = .ok a rest) = (Mk (parseNonOp t f σ ts) (.ok a rest) ∧ rest.length < ts.length) :=
  mark_lt (L.pNon σ ts) a rest
theorem Len.mPost σ e ts a rest : (postfixLoop t f σ e ts = .ok a rest) = (Mk (postfixLoop t f σ e ts) (.ok a rest) ∧ rest.length ≤ ts.length) :=
  mark_le (L.pPost σ e ts) a rest
theorem Len.mLit σ ts a rest : (parseLit t f σ ts = .ok a rest) = (Mk (parseLit t f σ ts) (.ok a rest) ∧ rest.length < ts.length) :=
  mark_lt (L.pLit σ ts) a rest
theorem Len.mArgs σ br ts a rest : (parseArgs t f σ br ts = .ok a rest) = (Mk (parseArgs t f σ br ts) (.ok a rest) ∧ rest.length < ts.length) :=
  mark_lt (L.pArgs σ br ts) a rest
theorem Len.mArgsL σ br ts a rest : (argsLoop t f σ br ts = .ok a rest) = (Mk (argsLoop t f σ br ts) (.ok a rest) ∧ rest.length < ts.length) :=
  mark_lt (L.pArgsL σ br ts) a rest
theorem Len.mMap σ keys ts a rest : (parseMap t f σ keys ts = .ok a rest) = (Mk (parseMap t f σ keys ts) (.ok a rest) ∧ rest.length < ts.length) :=
  mark_lt (L.pMap σ keys ts) a rest
theorem Len.mCases σ ts a rest : (parseCases t f σ ts = .ok a rest) = (Mk (parseCases t f σ ts) (.ok a rest) ∧ rest.length < ts.length) :=
  mark_lt (L.pCases σ ts) a rest

/-- `nextParserCall` -/
theorem Len.mLevel σ j ts a rest :
    ((if j < t.n then parseOp t f σ j ts else parseUnary t f σ ts) = .ok a rest) =
      (Mk (if j < t.n then parseOp t f σ j ts else parseUnary t f σ ts) (.ok a rest) ∧ rest.length < ts.length) := by
  refine mark_lt ?_ a rest
  intro a rest h
  split at h
  · exact L.pOp _ _ _ _ _ h
  · exact L.pUn _ _ _ _ h

/-- pinned or repaired level call -/
theorem Len.mPLevel σ j ts a rest :
    ((if t.pinned = true then parseOp t f σ j ts else if j < t.n then parseOp t f σ j ts else parseUnary t f σ ts) = .ok a rest) =
      (Mk (if t.pinned = true then parseOp t f σ j ts else if j < t.n then parseOp t f σ j ts else parseUnary t f σ ts) (.ok a rest)
        ∧ rest.length < ts.length) := by
  refine mark_lt ?_ a rest
  intro a rest h
  repeat' split at h
  · exact L.pOp _ _ _ _ _ h
  · exact L.pOp _ _ _ _ _ h
  · exact L.pUn _ _ _ _ h
end

-- closes a leaf `h : leaf = .ok a rest ⊢ rest.length < ts.length` of an unfolded function
set_option hygiene false in
local macro "len_leaf" : tactic =>
  `(tactic| (
    try (cases h)
    all_goals ((try simp only [ih.mLet, ih.mOp, ih.mLoop, ih.mUn, ih.mNon, ih.mPost, ih.mLit, ih.mArgs, ih.mArgsL, ih.mMap,
      ih.mCases, ih.mLevel, ih.mPLevel, identLit_ok, identList_ok, PR.fail_ne_ok, List.length_cons] at *) <;> omega)))

theorem len_zero (t : Table) : Len t 0 := by
  constructor <;> intros <;> simp_all [parseLet, parseOp, loopOp, parseUnary, parseNonOp, postfixLoop, parseLit,
    parseArgs, argsLoop, parseMap, parseCases]

theorem len_succ (t : Table) (f : Nat) (ih : Len t f) : Len t (f+1) := by
  constructor
  · intro σ ts a rest h; simp only [parseLet] at h; repeat' split at h
    all_goals len_leaf
  · intro σ k ts a rest h; simp only [parseOp] at h; repeat' split at h
    all_goals len_leaf
  · intro σ k o e ts a rest h; simp only [loopOp] at h; repeat' split at h
    all_goals len_leaf
  · intro σ ts a rest h; simp only [parseUnary] at h; repeat' split at h
    all_goals len_leaf
  · intro σ ts a rest h; simp only [parseNonOp] at h; repeat' split at h
    all_goals len_leaf
  · intro σ e ts a rest h; simp only [postfixLoop] at h; repeat' split at h
    all_goals len_leaf
  · intro σ ts a rest h
    cases ts with
    | nil => simp only [parseLit] at h; cases h
    | cons x xs => cases x <;> simp only [parseLit] at h <;> (repeat' split at h) <;> len_leaf
  · intro σ br ts a rest h; simp only [parseArgs] at h; repeat' split at h
    all_goals len_leaf
  · intro σ br ts a rest h; simp only [argsLoop] at h; repeat' split at h
    all_goals len_leaf
  · intro σ keys ts a rest h; simp only [parseMap] at h; repeat' split at h
    all_goals len_leaf
  · intro σ ts a rest h; simp only [parseCases] at h; repeat' split at h
    all_goals len_leaf

theorem len_all (t : Table) : ∀ f, Len t f
  | 0 => len_zero t
  | f+1 => len_succ t f (len_all t f)

/-! ### part B: never `fuel` -/

/-- offsets: position in the chain of calls that do not consume a token -/
structure NF (t : Table) (f : Nat) : Prop where
  pLet : ∀ σ ts, Fits t ts 3 f → parseLet t f σ ts ≠ .fuel
  pOp : ∀ σ k ts, Fits t ts (4 + min k t.n) f → parseOp t f σ k ts ≠ .fuel
  pLoop : ∀ σ k o e ts, Fits t ts 0 f → loopOp t f σ k o e ts ≠ .fuel
  pUn : ∀ σ ts, Fits t ts (4 + t.n) f → parseUnary t f σ ts ≠ .fuel
  pNon : ∀ σ ts, Fits t ts (5 + t.n) f → parseNonOp t f σ ts ≠ .fuel
  pPost : ∀ σ e ts, Fits t ts 0 f → postfixLoop t f σ e ts ≠ .fuel
  pLit : ∀ σ ts, Fits t ts (6 + t.n) f → parseLit t f σ ts ≠ .fuel
  pArgs : ∀ σ br ts, Fits t ts 1 f → parseArgs t f σ br ts ≠ .fuel
  pArgsL : ∀ σ br ts, Fits t ts 2 f → argsLoop t f σ br ts ≠ .fuel
  pMap : ∀ σ keys ts, Fits t ts 0 f → parseMap t f σ keys ts ≠ .fuel
  pCases : ∀ σ ts, Fits t ts 0 f → parseCases t f σ ts ≠ .fuel

theorem nf_zero (t : Table) : NF t 0 := by
  constructor <;> intros <;> exfalso <;> apply Fits.zero ‹_› <;> omega

-- the budget of a call, from the budget `hf` of the caller and the length facts in the context
set_option hygiene false in
local macro "budget" : tactic =>
  `(tactic| (
    refine fits hf ?_
    (try simp only [L.mLet, L.mOp, L.mLoop, L.mUn, L.mNon, L.mPost, L.mLit, L.mArgs, L.mArgsL, L.mMap,
      L.mCases, L.mLevel, L.mPLevel, identLit_ok, identList_ok, ops_ok, List.length_cons] at *) <;> omega))

-- closes a leaf `⊢ leaf ≠ .fuel` of an unfolded function
set_option hygiene false in
local macro "nf_leaf" : tactic =>
  `(tactic| first
    | (simp only [ne_eq, reduceCtorEq, not_false_eq_true]; done)
    | exact identLit_ne_fuel _ _ _
    | (refine ih.pLet _ _ ?_; budget)
    | (refine ih.pOp _ _ _ ?_; budget)
    | (refine ih.pLoop _ _ _ _ _ ?_; budget)
    | (refine ih.pUn _ _ ?_; budget)
    | (refine ih.pNon _ _ ?_; budget)
    | (refine ih.pPost _ _ _ ?_; budget)
    | (refine ih.pLit _ _ ?_; budget)
    | (refine ih.pArgs _ _ _ ?_; budget)
    | (refine ih.pArgsL _ _ _ ?_; budget)
    | (refine ih.pMap _ _ _ ?_; budget)
    | (refine ih.pCases _ _ ?_; budget)
    | (refine PR.fail_ne_fuel (ih.pLet _ _ ?_); budget)
    | (refine PR.fail_ne_fuel (ih.pOp _ _ _ ?_); budget)
    | (refine PR.fail_ne_fuel (ih.pUn _ _ ?_); budget)
    | (refine PR.fail_ne_fuel (ih.pArgs _ _ _ ?_); budget)
    | (refine PR.fail_ne_fuel (ih.pArgsL _ _ _ ?_); budget)
    | (refine PR.fail_ne_fuel (ih.pMap _ _ _ ?_); budget)
    | (refine PR.fail_ne_fuel (ih.pCases _ _ ?_); budget))

theorem nf_succ (t : Table) (f : Nat) (ih : NF t f) : NF t (f+1) := by
  have L := len_all t f
  constructor
  · intro σ ts hf; simp only [parseLet]; repeat' split
    all_goals nf_leaf
  · intro σ k ts hf; simp only [parseOp]; repeat' split
    all_goals nf_leaf
  · intro σ k o e ts hf; simp only [loopOp]; repeat' split
    all_goals nf_leaf
  · intro σ ts hf; simp only [parseUnary]; repeat' split
    all_goals nf_leaf
  · intro σ ts hf; simp only [parseNonOp]; repeat' split
    all_goals nf_leaf
  · intro σ e ts hf; simp only [postfixLoop]; repeat' split
    all_goals nf_leaf
  · intro σ ts hf
    cases ts with
    | nil => simp only [parseLit, ne_eq, reduceCtorEq, not_false_eq_true]
    | cons x xs => cases x <;> simp only [parseLit] <;> (repeat' split) <;> nf_leaf
  · intro σ br ts hf; simp only [parseArgs]; repeat' split
    all_goals nf_leaf
  · intro σ br ts hf; simp only [argsLoop]; repeat' split
    all_goals nf_leaf
  · intro σ keys ts hf; simp only [parseMap]; repeat' split
    all_goals nf_leaf
  · intro σ ts hf; simp only [parseCases]; repeat' split
    all_goals nf_leaf

theorem nf_all (t : Table) : ∀ f, NF t f
  | 0 => nf_zero t
  | f+1 => nf_succ t f (nf_all t f)

/-! ### the theorems -/

/-- `parseLet` with the fuel of `parse` (3 less would do): never `fuel`, and what it leaves over is
strictly shorter than its input -/
theorem parseLet_fuel_enough (t : Table) (σ : Scope) (ts : List Tok) (f : Nat) (h : fuelFor t ts ≤ f + 3) :
    parseLet t f σ ts ≠ .fuel ∧ ∀ a rest, parseLet t f σ ts = .ok a rest → rest.length < ts.length :=
  ⟨(nf_all t f).pLet σ ts h, (len_all t f).pLet σ ts⟩

theorem parseTop_fuel_enough (t : Table) (σ : Scope) (ts : List Tok) (f : Nat) (h : fuelFor t ts ≤ f) :
    parseTop t f σ ts ≠ .fuel := by
  have hl : parseLet t f σ ts ≠ .fuel := (nf_all t f).pLet σ ts (by unfold Fits; rw [W_eq_fuelFor]; omega)
  unfold parseTop
  repeat' split
  all_goals first | (simp only [ne_eq, reduceCtorEq, not_false_eq_true]; done) | exact hl

/-- C04.2: with its fuel `(|ts|+1)·(n+8)` the parser never answers `fuel` — every table (pinned or
repaired), every scope, every token list -/
theorem parse_fuel_enough (t : Table) (σ : Scope) (ts : List Tok) : parse t σ ts ≠ .fuel :=
  parseTop_fuel_enough t σ ts _ (Nat.le_refl _)

#print axioms parse_fuel_enough
#print axioms parseTop_fuel_enough
#print axioms parseLet_fuel_enough
#print axioms len_all

end P2.Parse
