import P2.Spec.LibSpecExt
import P2.Proofs.LibSpecMisuse
/-! Proofs about the second part of the library specification (`Spec/LibSpecExt.lean`). -/
namespace P2.LibSpec
open P2.Lang

/-! ## behind -/

theorem isPrefixOf_eq_append (pre l : List Char) (h : pre.isPrefixOf l = true) :
    l = pre ++ l.drop pre.length := by
  have := List.isPrefixOf_iff_prefix.mp h
  exact (List.prefix_iff_eq_append.mp this).symm

/-- `afterFirst` cuts at the FIRST occurrence: `s = before ++ pre ++ r` and `pre` is not a prefix
of `s` at any earlier position -/
theorem afterFirst_some (pre : List Char) : ∀ (s r : List Char), afterFirst pre s = some r →
    ∃ before, s = before ++ pre ++ r ∧ ∀ k, k < before.length → pre.isPrefixOf (s.drop k) = false
  | [], r, h => by
      simp only [afterFirst] at h
      split at h
      · rename_i hp
        cases h
        refine ⟨[], ?_, fun k hk => by simp at hk⟩
        simpa using hp
      · cases h
  | c :: cs, r, h => by
      simp only [afterFirst] at h
      split at h
      · rename_i hp
        cases h
        refine ⟨[], ?_, fun k hk => by simp at hk⟩
        simpa using isPrefixOf_eq_append pre (c :: cs) hp
      · rename_i hp
        obtain ⟨b, hb, hk⟩ := afterFirst_some pre cs r h
        refine ⟨c :: b, by simp [hb], ?_⟩
        intro k hk'
        cases k with
        | zero => simp only [List.drop_zero]; exact Bool.eq_false_iff.mpr hp
        | succ k =>
          simp only [List.drop_succ_cons]
          exact hk k (Nat.lt_of_succ_lt_succ (by simpa using hk'))

/-- `afterFirst` finds nothing exactly when `contains` says no -/
theorem afterFirst_none_iff (pre : List Char) : ∀ s : List Char, afterFirst pre s = none ↔ infixOf pre s = false
  | [] => by simp only [afterFirst, infixOf]; split <;> simp_all
  | c :: cs => by
      simp only [afterFirst, infixOf]
      split
      · rename_i hp; simp [hp]
      · rename_i hp; simp [hp, afterFirst_none_iff pre cs]

theorem behindLines_first (pre : List Char) (r ln : List Char) (l2 : List (List Char)) :
    ∀ l1 : List (List Char), (∀ l, l ∈ l1 → afterFirst pre l = none) → afterFirst pre ln = some r →
      behindLines pre (l1 ++ ln :: l2) = trimS r
  | [], _, h => by simp [behindLines, h]
  | a :: l1, hn, h => by
      have ha := hn a (by simp)
      simp only [List.cons_append, behindLines, ha]
      exact behindLines_first pre r ln l2 l1 (fun l hl => hn l (by simp [hl])) h

theorem behindLines_none (pre : List Char) :
    ∀ ls : List (List Char), (∀ l, l ∈ ls → afterFirst pre l = none) → behindLines pre ls = []
  | [], _ => rfl
  | a :: ls, hn => by
      simp only [behindLines, hn a (by simp)]
      exact behindLines_none pre ls (fun l hl => hn l (by simp [hl]))

theorem takeWhile_items (items rest : List (List Char)) (hi : ∀ i, i ∈ items → i ≠ [])
    (hr : rest = [] ∨ rest.head? = some []) :
    (items ++ rest).takeWhile (fun l => l != []) = items := by
  induction items with
  | nil =>
    rcases hr with rfl | hr
    · rfl
    · cases rest with
      | nil => rfl
      | cons a rest => simp at hr; subst hr; simp
  | cons a items ih =>
    have ha : a ≠ [] := hi a (by simp)
    simp only [List.cons_append, List.takeWhile_cons]
    simp [ha, ih (fun i h => hi i (by simp [h]))]

/-- `behindList`: with the lines `pre ++ k :: items ++ rest`, `k` not among `pre`, no item empty and
`rest` empty or starting with an empty line, the result is exactly `items` -/
theorem behindListOf_spec (k : List Char) (items rest : List (List Char)) (hi : ∀ i, i ∈ items → i ≠ [])
    (hr : rest = [] ∨ rest.head? = some []) :
    ∀ pre : List (List Char), (∀ l, l ∈ pre → l ≠ k) → behindListOf (pre ++ k :: (items ++ rest)) k = items
  | [], _ => by
      simp only [behindListOf, List.nil_append, List.dropWhile_cons]
      simp [takeWhile_items items rest hi hr]
  | a :: pre, hp => by
      have ha : a ≠ k := hp a (by simp)
      have ih := behindListOf_spec k items rest hi hr pre (fun l hl => hp l (by simp [hl]))
      simp only [behindListOf, List.cons_append, List.dropWhile_cons] at ih ⊢
      simp only [bne_iff_ne, ne_eq, ha, not_false_eq_true, ↓reduceIte]
      exact ih

/-- no key line: the empty list -/
theorem behindListOf_absent (k : List Char) : ∀ ls : List (List Char), (∀ l, l ∈ ls → l ≠ k) → behindListOf ls k = []
  | [], _ => rfl
  | a :: ls, hp => by
      have ha : a ≠ k := hp a (by simp)
      have ih := behindListOf_absent k ls (fun l hl => hp l (by simp [hl]))
      simp only [behindListOf, List.dropWhile_cons] at ih ⊢
      simp only [bne_iff_ne, ne_eq, ha, not_false_eq_true, ↓reduceIte]
      exact ih

/-! ## multiUse -/

/-- two lists related element by element -/
inductive Forall2 {α β : Type} (R : α → β → Prop) : List α → List β → Prop
  | nil : Forall2 R [] []
  | cons {a : α} {b : β} {as : List α} {bs : List β} : R a b → Forall2 R as bs → Forall2 R (a :: as) (b :: bs)

/-- `multiUse` = the consumers mapped over the same element sequence: same keys in the same order,
each value the (deep-evaluated) result of its consumer on the list -/
theorem multiUseS_ok_iff (ap : Apply) (k : Nat) (l : LList) : ∀ (kvs rs : KVs),
    multiUseS ap k l kvs = .ok rs ↔
      Forall2 (fun kv r => r.1 = kv.1 ∧ consumerResult ap k l kv.2 = .ok r.2) kvs rs
  | [], rs => by
      simp only [multiUseS]
      constructor
      · intro h; cases h; exact .nil
      · intro h; cases h; rfl
  | (key, f) :: rest, rs => by
      simp only [multiUseS]
      cases hc : consumerResult ap k l f with
      | ok r =>
        cases hr : multiUseS ap k l rest with
        | ok rs' =>
          have ih := (multiUseS_ok_iff ap k l rest rs').mp hr
          constructor
          · intro h
            simp only [bind, R.bind, pure] at h
            cases h
            exact .cons ⟨rfl, hc⟩ ih
          · intro h
            cases h with
            | cons h1 h2 =>
              rename_i b bs
              have := (multiUseS_ok_iff ap k l rest bs).mpr h2
              rw [hr] at this
              cases this
              obtain ⟨bk, bv⟩ := b
              simp only at h1
              obtain ⟨rfl, h1⟩ := h1
              rw [hc] at h1; cases h1
              rfl
        | err | panic | fuel | unmodelled =>
          constructor
          · intro h; simp [bind, R.bind] at h
          · intro h
            cases h with
            | cons h1 h2 =>
              have := (multiUseS_ok_iff ap k l rest _).mpr h2
              rw [hr] at this; cases this
      | err | panic | fuel | unmodelled =>
        constructor
        · intro h; simp [bind, R.bind] at h
        · intro h
          cases h with
          | cons h1 h2 => rw [hc] at h1; exact absurd h1.2 (by intro h; cases h)

/-- a consumer that fails (on the list or while its result is evaluated) makes the call fail -/
theorem multiUseS_fails (ap : Apply) (k : Nat) (l : LList) : ∀ (kvs : KVs) (kv : String × Val), kv ∈ kvs →
    (∀ v, consumerResult ap k l kv.2 ≠ .ok v) → ∀ rs, multiUseS ap k l kvs ≠ .ok rs
  | [], _, hm, _, _ => by cases hm
  | (key, f) :: rest, kv, hm, hf, rs => by
      intro h
      have h2 := (multiUseS_ok_iff ap k l _ rs).mp h
      cases h2 with
      | cons h1 h3 =>
        rcases List.mem_cons.mp hm with rfl | hm'
        · exact hf _ h1.2
        · exact multiUseS_fails ap k l rest kv hm' hf _ ((multiUseS_ok_iff ap k l rest _).mpr h3)

theorem misuse_multiUse (ap : Apply) (k : Nat) (s : Str) (a : Val) (kvs : KVs) :
    (NotMap a → lMultiUse ap k s [a] = .err) ∧
    lMultiUse ap k s [.map []] = .err ∧
    ((∃ kv, kv ∈ kvs ∧ NotFn kv.2 1) → lMultiUse ap k s [.map kvs] = .err) := by
  refine ⟨?_, ?_, ?_⟩
  · intro h
    cases a <;> first | rfl | exact absurd rfl (h _)
  · simp [lMultiUse]
  · rintro ⟨kv, hm, hn⟩
    have : kvs.all (fun kv => isClosN kv.2 1) = false := by
      rw [List.all_eq_false]
      exact ⟨kv, hm, by simpa [NotFn] using hn⟩
    simp [lMultiUse, this]

/-! ## numeric -/

section generic
variable {F : Type}

theorem bisectLoop_ok_small (N : Num F) (f : F → R F) (eps : F) : ∀ (n : Nat) (a ya b r : F),
    bisectLoop N f eps n a ya b = .ok r → ∃ y, f r = .ok y ∧ N.lt (N.abs y) eps = true
  | 0, _, _, _, _, h => by simp [bisectLoop] at h
  | n+1, a, ya, b, r, h => by
      simp only [bisectLoop] at h
      cases hf : f (N.div (N.add a b) (N.ofNat 2)) with
      | ok y =>
        rw [hf] at h
        simp only [bind, R.bind] at h
        split at h
        · rename_i hlt
          simp only [pure] at h
          cases h
          exact ⟨y, hf, hlt⟩
        · split at h
          · exact bisectLoop_ok_small N f eps n _ _ _ r h
          · exact bisectLoop_ok_small N f eps n _ _ _ r h
      | err | panic | fuel | unmodelled => rw [hf] at h; simp [bind, R.bind] at h

/-- `bisection` answers only with a point at which the function is below `eps` -/
theorem bisect_ok_small (N : Num F) (f : F → R F) (a b eps r : F) (h : bisect N f a b eps = .ok r) :
    ∃ y, f r = .ok y ∧ N.lt (N.abs y) eps = true := by
  simp only [bisect] at h
  cases hfa : f a with
  | ok ya =>
    rw [hfa] at h
    simp only [bind, R.bind] at h
    split at h
    · rename_i hlt; simp only [pure] at h; cases h; exact ⟨ya, hfa, hlt⟩
    · cases hfb : f b with
      | ok yb =>
        rw [hfb] at h
        simp only at h
        split at h
        · rename_i hlt; simp only [pure] at h; cases h; exact ⟨yb, hfb, hlt⟩
        · split at h
          · cases h
          · exact bisectLoop_ok_small N f eps _ _ _ _ r h
      | err | panic | fuel | unmodelled => rw [hfb] at h; simp at h
  | err | panic | fuel | unmodelled => rw [hfa] at h; simp [bind, R.bind] at h

/-- the loop gives up after `bisectBound` midpoints -/
theorem bisectLoop_exhausted (N : Num F) (f : F → R F) (eps a ya b : F) :
    bisectLoop N f eps 0 a ya b = .err := rfl

/-- the result stays inside the bracket, for any carrier in which a midpoint lies between its ends -/
theorem bisectLoop_in_bracket (N : Num F) (f : F → R F) (eps : F)
    (hmid : ∀ a b, N.le a b = true → N.le a (N.div (N.add a b) (N.ofNat 2)) = true ∧ N.le (N.div (N.add a b) (N.ofNat 2)) b = true)
    (htrans : ∀ a b c, N.le a b = true → N.le b c = true → N.le a c = true) :
    ∀ (n : Nat) (a ya b r : F), N.le a b = true → bisectLoop N f eps n a ya b = .ok r →
      N.le a r = true ∧ N.le r b = true
  | 0, _, _, _, _, _, h => by simp [bisectLoop] at h
  | n+1, a, ya, b, r, hab, h => by
      simp only [bisectLoop] at h
      have hm := hmid a b hab
      cases hf : f (N.div (N.add a b) (N.ofNat 2)) with
      | ok y =>
        rw [hf] at h
        simp only [bind, R.bind] at h
        split at h
        · simp only [pure] at h; cases h; exact hm
        · split at h
          · have := bisectLoop_in_bracket N f eps hmid htrans n _ _ _ r hm.2 h
            exact ⟨htrans _ _ _ hm.1 this.1, this.2⟩
          · have := bisectLoop_in_bracket N f eps hmid htrans n _ _ _ r hm.1 h
            exact ⟨this.1, htrans _ _ _ this.2 hm.2⟩
      | err | panic | fuel | unmodelled => rw [hf] at h; simp [bind, R.bind] at h

/-- the binary search keeps `x` bracketed: from `xs[n0] ≤ x < xs[n1]` (as the tests `lt x ·` see it)
it ends at two NEIGHBOURING nodes with the same property -/
theorem bsearch_bracket (N : Num F) (xs : List F) (x : F) : ∀ (fuel n0 n1 m0 m1 : Nat),
    bsearch N xs x fuel n0 n1 = .ok (m0, m1) → n0 < n1 →
    (∀ a, xs[n0]? = some a → N.lt x a = false) → (∀ b, xs[n1]? = some b → N.lt x b = true) →
    m1 = m0 + 1 ∧ (∀ a, xs[m0]? = some a → N.lt x a = false) ∧ (∀ b, xs[m1]? = some b → N.lt x b = true)
  | 0, _, _, _, _, h, _, _, _ => by simp [bsearch] at h
  | fuel+1, n0, n1, m0, m1, h, hlt, h0, h1 => by
      simp only [bsearch] at h
      split at h
      · rename_i hgt
        cases hx : xs[(n0 + n1) / 2]? with
        | none => rw [hx] at h; simp at h
        | some xn =>
          rw [hx] at h
          simp only at h
          split at h
          · rename_i hl
            exact bsearch_bracket N xs x fuel n0 _ m0 m1 h (by omega) h0
              (fun b hb => by rw [hx] at hb; cases hb; exact hl)
          · rename_i hl
            exact bsearch_bracket N xs x fuel _ n1 m0 m1 h (by omega)
              (fun a ha => by rw [hx] at ha; cases ha; simpa using hl) h1
      · cases h
        exact ⟨by omega, h0, h1⟩

/-- at or left of the first node: its `y`; in particular AT the first node when `≤` is reflexive -/
theorem interpolate_first (N : Num F) (p0 : F × F) (rest : List (F × F)) (x : F) (h : N.le x p0.1 = true) :
    interpolate N (p0 :: rest) x = .ok p0.2 := by
  cases hl : (p0 :: rest).getLast? with
  | none => simp at hl
  | some pl => simp [interpolate, hl, h]

/-- at or right of the last node (and right of the first): its `y` -/
theorem interpolate_last (N : Num F) (p0 pl : F × F) (rest : List (F × F)) (x : F)
    (hl : (p0 :: rest).getLast? = some pl) (h0 : N.le x p0.1 = false) (h : N.le pl.1 x = true) :
    interpolate N (p0 :: rest) x = .ok pl.2 := by
  simp [interpolate, hl, h0, h]

/-- strictly inside: the value of the straight line through the two nodes the search ends at -/
theorem interpolate_inside (N : Num F) (p0 pl a b : F × F) (rest : List (F × F)) (x : F) (m0 m1 : Nat)
    (hl : (p0 :: rest).getLast? = some pl) (h0 : N.le x p0.1 = false) (h : N.le pl.1 x = false)
    (hs : bsearch N ((p0 :: rest).map (·.1)) x ((p0 :: rest).length + 1) 0 ((p0 :: rest).length - 1) = .ok (m0, m1))
    (ha : (p0 :: rest)[m0]? = some a) (hb : (p0 :: rest)[m1]? = some b) :
    interpolate N (p0 :: rest) x = .ok (lineAt N a b x) := by
  simp only [interpolate, List.head?_cons, hl, h0, h, Bool.false_eq_true, ↓reduceIte, hs]
  simp [bind, R.bind, ha, hb]

theorem regSums_snoc (N : Num F) (pts : List (F × F)) (p : F × F) :
    regSums N (pts ++ [p]) = regStep N (regSums N pts) p := by
  simp [regSums, List.foldl_append]

theorem foldl_regStep_n (N : Num F) : ∀ (pts : List (F × F)) (s : RegSums F),
    (pts.foldl (regStep N) s).n = s.n + pts.length
  | [], _ => rfl
  | p :: pts, s => by
      simp only [List.foldl_cons, List.length_cons]
      rw [foldl_regStep_n N pts]
      simp only [regStep]
      omega

theorem regSums_count (N : Num F) (pts : List (F × F)) : (regSums N pts).n = pts.length := by
  simp [regSums, foldl_regStep_n, regZero]

end generic

theorem misuse_numeric (ap : Apply) (s : Str) (f g a b : Val) (rest : List Val) :
    (NotFn f 1 ∨ NotFn g 1 → lLinearReg ap s [f, g] = .err ∧ lCreateInterpolation ap s [f, g] = .err) ∧
    (NotFn f 1 → fBisection ap (f :: a :: b :: rest) = .err) ∧
    (NotNum a ∨ NotNum b → fBisection ap (f :: a :: b :: rest) = .err) ∧
    (rest.length > 1 → fBisection ap (f :: a :: b :: rest) = .err) ∧
    fBisection ap [f, a] = .err ∧
    (NotString f → fCreateLowPass [f, g, a, b] = .err) ∧
    (NotFn g 1 ∨ NotFn a 1 ∨ NotNum b → ∀ n, fCreateLowPass [.str n, g, a, b] = .err) := by
  refine ⟨?_, ?_, ?_, ?_, rfl, ?_, ?_⟩
  · intro h
    have : (isClosN f 1 && isClosN g 1) = false := by
      rcases h with h | h <;> simp [NotFn] at h <;> simp [h]
    simp [lLinearReg, lCreateInterpolation, this]
  · intro h
    simp only [NotFn] at h
    simp only [fBisection, h]
    split <;> simp
  · intro h
    simp only [NotNum] at h
    simp only [fBisection]
    split
    · rfl
    · split
      · rfl
      · rcases h with h | h <;> simp [h]
  · intro h
    simp [fBisection, h]
  · intro h
    cases f <;> first | rfl | exact absurd rfl (h _)
  · intro h n
    simp only [fCreateLowPass]
    split
    · rfl
    · rename_i hc
      rcases h with h | h | h
      · simp [NotFn] at h; simp [h] at hc
      · simp [NotFn] at h; simp [h] at hc
      · simp only [NotNum] at h; simp [h]

theorem misuse_behind (cs : List Char) (a : Val) (h : NotString a) :
    sBehind cs [a] = .err ∧ sBehindList cs [a] = .err := by
  cases a <;> first | exact ⟨rfl, rfl⟩ | exact absurd rfl (h _)

end P2.LibSpec
