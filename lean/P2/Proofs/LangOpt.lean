import P2.Model.Lang.Opt
import P2.Proofs.LangEq
/-! # C02 on the value language: helper lemmas about `P2.Lang.Opt`

* first-order values (`fo`): scalars, materialised lists and maps of first-order values;
* `reify_eval`: the literal form of a first-order value evaluates, in every environment and at every
  fuel ≥ `need`, to exactly that value;
* `lit_closed`: a first-order literal evaluates independently of the environment;
* `foldR_ok`: what a successful folding step returns. -/
namespace P2.Lang.Opt
open P2.Lang

/-! ## first-order values and literals -/

mutual
def fo : Val → Bool
  | .int _ => true
  | .flt _ => true
  | .str _ => true
  | .bool _ => true
  | .list l => foL l
  | .map kvs => foKVs kvs
  | .sclos .. => false
  | .rclos .. => false
def foL : LList → Bool
  | .items xs => foVs xs
  | _ => false
def foVs : List Val → Bool
  | [] => true
  | v :: vs => fo v && foVs vs
def foKVs : List (String × Val) → Bool
  | [] => true
  | (_, v) :: kvs => fo v && foKVs kvs
end

mutual
/-- first-order literal: scalar constants, list and map literals of them -/
def lit : AST → Bool
  | .const _ => true
  | .listLit xs => litL xs
  | .mapLit kvs => litKVs kvs
  | _ => false
def litL : List AST → Bool
  | [] => true
  | a :: as => lit a && litL as
def litKVs : List (String × AST) → Bool
  | [] => true
  | (_, a) :: as => lit a && litKVs as
end

mutual
/-- fuel that suffices to evaluate a literal -/
def need : AST → Nat
  | .const _ => 1
  | .listLit xs => 1 + needL xs
  | .mapLit kvs => 1 + needKVs kvs
  | _ => 0
def needL : List AST → Nat
  | [] => 1
  | a :: as => 1 + need a + needL as
def needKVs : List (String × AST) → Nat
  | [] => 1
  | (_, a) :: as => 1 + need a + needKVs as
end

variable {S : Statics} {M : Methods}

/-! ## `reify` and `eval` -/

mutual
theorem reify_eval : ∀ (v : Val) (k : AST), reify v = some k → lit k = true →
    ∀ (env : Env) (n : Nat), need k ≤ n → eval S M n k env = .ok v
  | .int i, k, h, _ => by
    simp only [reify, Option.some.injEq] at h; subst h
    intro env n hn
    cases n with
    | zero => simp [need] at hn
    | succ n => rfl
  | .flt f, k, h, _ => by
    simp only [reify, Option.some.injEq] at h; subst h
    intro env n hn
    cases n with
    | zero => simp [need] at hn
    | succ n => rfl
  | .str s, k, h, _ => by
    simp only [reify, Option.some.injEq] at h; subst h
    intro env n hn
    cases n with
    | zero => simp [need] at hn
    | succ n => rfl
  | .bool b, k, h, _ => by
    simp only [reify, Option.some.injEq] at h; subst h
    intro env n hn
    cases n with
    | zero => simp [need] at hn
    | succ n => rfl
  | .list l, k, h, hl => by
    simp only [reify] at h
    exact reifyL_eval l k h hl
  | .map kvs, k, h, hl => by
    simp only [reify, Option.map_eq_some_iff] at h
    obtain ⟨ks, hks, rfl⟩ := h
    simp only [lit] at hl
    have hev := reifyKVs_eval kvs ks hks hl
    intro env n hn
    cases n with
    | zero => simp [need] at hn
    | succ n =>
      rw [eval_mapLit, hev env n (by simp only [need] at hn; omega)]
      rfl
  | .sclos names body env r this, k, h, hl => by
    simp only [reify] at h
    split at h
    · simp only [Option.some.injEq] at h; subst h; simp [lit] at hl
    · simp at h
  | .rclos .., _, h, _ => by simp [reify] at h
theorem reifyL_eval : ∀ (l : LList) (k : AST), reifyL l = some k → lit k = true →
    ∀ (env : Env) (n : Nat), need k ≤ n → eval S M n k env = .ok (.list l)
  | .items xs, k, h, hl => by
    simp only [reifyL, Option.map_eq_some_iff] at h
    obtain ⟨ks, hks, rfl⟩ := h
    simp only [lit] at hl
    have hev := reifyVs_eval xs ks hks hl
    intro env n hn
    cases n with
    | zero => simp [need] at hn
    | succ n =>
      rw [eval_listLit, hev env n (by simp only [need] at hn; omega)]
      rfl
  | .numbers .., _, h, _ => by simp [reifyL] at h
  | .map .., _, h, _ => by simp [reifyL] at h
  | .accept .., _, h, _ => by simp [reifyL] at h
  | .top .., _, h, _ => by simp [reifyL] at h
  | .skip .., _, h, _ => by simp [reifyL] at h
  | .append .., _, h, _ => by simp [reifyL] at h
theorem reifyVs_eval : ∀ (vs : List Val) (ks : List AST), reifyVs vs = some ks → litL ks = true →
    ∀ (env : Env) (n : Nat), needL ks ≤ n → evalList S M n ks env = .ok vs
  | [], ks, h, _ => by
    simp only [reifyVs, Option.some.injEq] at h; subst h
    intro env n hn
    cases n with
    | zero => simp [needL] at hn
    | succ n => rfl
  | v :: vs, ks, h, hl => by
    simp only [reifyVs, Option.bind_eq_bind, Option.bind_eq_some_iff, Option.pure_def, Option.some.injEq] at h
    obtain ⟨a, ha, as, has, rfl⟩ := h
    simp only [litL, Bool.and_eq_true] at hl
    have hev1 := reify_eval v a ha hl.1
    have hev2 := reifyVs_eval vs as has hl.2
    intro env n hn
    cases n with
    | zero => simp [needL] at hn
    | succ n =>
      simp only [needL] at hn
      rw [evalList_cons, hev1 env n (by omega), hev2 env n (by omega)]
      rfl
theorem reifyKVs_eval : ∀ (kvs : List (String × Val)) (ks : List (String × AST)),
    reifyKVs kvs = some ks → litKVs ks = true →
    ∀ (env : Env) (n : Nat), needKVs ks ≤ n → evalKVs S M n ks env = .ok kvs
  | [], ks, h, _ => by
    simp only [reifyKVs, Option.some.injEq] at h; subst h
    intro env n hn
    cases n with
    | zero => simp [needKVs] at hn
    | succ n => rfl
  | (key, v) :: kvs, ks, h, hl => by
    simp only [reifyKVs, Option.bind_eq_bind, Option.bind_eq_some_iff, Option.pure_def, Option.some.injEq] at h
    obtain ⟨a, ha, as, has, rfl⟩ := h
    simp only [litKVs, Bool.and_eq_true] at hl
    have hev1 := reify_eval v a ha hl.1
    have hev2 := reifyKVs_eval kvs as has hl.2
    intro env n hn
    cases n with
    | zero => simp [needKVs] at hn
    | succ n =>
      simp only [needKVs] at hn
      rw [evalKVs_cons, hev1 env n (by omega), hev2 env n (by omega)]
      rfl
end

/-! ## literals are closed -/

mutual
theorem lit_closed : ∀ (k : AST), lit k = true → ∀ (n : Nat) (env : Env),
    eval S M n k env = eval S M n k []
  | .const c, _, n, env => by cases n <;> rfl
  | .listLit xs, h, n, env => by
    cases n with
    | zero => rfl
    | succ n =>
      simp only [lit] at h
      rw [eval_listLit, eval_listLit, litL_closed xs h n env]
  | .mapLit kvs, h, n, env => by
    cases n with
    | zero => rfl
    | succ n =>
      simp only [lit] at h
      rw [eval_mapLit, eval_mapLit, litKVs_closed kvs h n env]
  | .ident _, h, _, _ => by simp [lit] at h
  | .letE .., h, _, _ => by simp [lit] at h
  | .ifE .., h, _, _ => by simp [lit] at h
  | .switchE .., h, _, _ => by simp [lit] at h
  | .tryE .., h, _, _ => by simp [lit] at h
  | .unary .., h, _, _ => by simp [lit] at h
  | .binop .., h, _, _ => by simp [lit] at h
  | .clos .., h, _, _ => by simp [lit] at h
  | .index .., h, _, _ => by simp [lit] at h
  | .member .., h, _, _ => by simp [lit] at h
  | .call .., h, _, _ => by simp [lit] at h
  | .method .., h, _, _ => by simp [lit] at h
theorem litL_closed : ∀ (ks : List AST), litL ks = true → ∀ (n : Nat) (env : Env),
    evalList S M n ks env = evalList S M n ks []
  | [], _, n, env => by cases n <;> rfl
  | a :: as, h, n, env => by
    cases n with
    | zero => rfl
    | succ n =>
      simp only [litL, Bool.and_eq_true] at h
      rw [evalList_cons, evalList_cons, lit_closed a h.1 n env, litL_closed as h.2 n env]
theorem litKVs_closed : ∀ (ks : List (String × AST)), litKVs ks = true → ∀ (n : Nat) (env : Env),
    evalKVs S M n ks env = evalKVs S M n ks []
  | [], _, n, env => by cases n <;> rfl
  | (key, a) :: as, h, n, env => by
    cases n with
    | zero => rfl
    | succ n =>
      simp only [litKVs, Bool.and_eq_true] at h
      rw [evalKVs_cons, evalKVs_cons, lit_closed a h.1 n env, litKVs_closed as h.2 n env]
end

theorem litL_closed_args : ∀ (ks : List AST), litL ks = true → ∀ (n : Nat) (env : Env),
    evalArgs S M n ks env = evalArgs S M n ks []
  | [], _, n, env => by cases n <;> rfl
  | a :: as, h, n, env => by
    cases n with
    | zero => rfl
    | succ n =>
      simp only [litL, Bool.and_eq_true] at h
      rw [evalArgs_cons, evalArgs_cons, lit_closed a h.1 n env, litL_closed_args as h.2 n env]

/-! ## folding steps -/

variable {T : Tables} {cfg : Cfg}

/-- a folding step either keeps the node or replaces it by the literal form of the value -/
theorem foldR_ok {a a' : AST} {r : R Val} (h : foldR S cfg a r = .ok a') :
    a' = a ∨ ∃ v, r = .ok v ∧ reify v = some a' := by
  unfold foldR foldV at h
  cases r with
  | ok v =>
    simp only at h
    cases hr : reify v with
    | none => simp [hr, bind, Except.bind] at h
    | some k =>
      by_cases hc : isConst S cfg k = true
      · simp [hr, hc, bind, Except.bind, pure, Except.pure] at h
        exact .inr ⟨v, rfl, by rw [hr, h]⟩
      · simp [hr, hc, bind, Except.bind] at h
  | err => simp [bind, Except.bind, pure, Except.pure] at h; exact .inl h.symm
  | panic => simp [bind, Except.bind] at h
  | fuel => simp [bind, Except.bind] at h
  | unmodelled => simp [bind, Except.bind] at h

/-! ## a first-order literal is a constant form -/

mutual
theorem lit_isConst : ∀ (k : AST), lit k = true → isConst S cfg k = true
  | .const _, _ => rfl
  | .listLit xs, h => by simp only [lit] at h; simp only [isConst]; exact litL_allConst xs h
  | .mapLit kvs, h => by simp only [lit] at h; simp only [isConst]; exact litKVs_allConst kvs h
  | .ident _, h => by simp [lit] at h
  | .letE .., h => by simp [lit] at h
  | .ifE .., h => by simp [lit] at h
  | .switchE .., h => by simp [lit] at h
  | .tryE .., h => by simp [lit] at h
  | .unary .., h => by simp [lit] at h
  | .binop .., h => by simp [lit] at h
  | .clos .., h => by simp [lit] at h
  | .index .., h => by simp [lit] at h
  | .member .., h => by simp [lit] at h
  | .call .., h => by simp [lit] at h
  | .method .., h => by simp [lit] at h
theorem litL_allConst : ∀ (ks : List AST), litL ks = true → allConst S cfg ks = true
  | [], _ => rfl
  | a :: as, h => by
    simp only [litL, Bool.and_eq_true] at h
    simp only [allConst, Bool.and_eq_true]
    exact ⟨lit_isConst a h.1, litL_allConst as h.2⟩
theorem litKVs_allConst : ∀ (ks : List (String × AST)), litKVs ks = true → allConstKVs S cfg ks = true
  | [], _ => rfl
  | (_, a) :: as, h => by
    simp only [litKVs, Bool.and_eq_true] at h
    simp only [allConstKVs, Bool.and_eq_true]
    exact ⟨lit_isConst a h.1, litKVs_allConst as h.2⟩
end

end P2.Lang.Opt
