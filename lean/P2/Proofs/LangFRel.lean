import P2.Proofs.LangOptFree
/-! # C02 on the value language, rule (f) included: the value relation

As `Proofs/LangORel.lean` (namespace `P2.Lang.O`), with two differences that make closure constants
(rule (f) of the optimizer) expressible:

* the binding of an inlined constant `k` (`CstRel`) does not fix one value: `k` may contain closure
  literals, which capture the environment of the place where `k` is inlined; the bound value of the
  original program corresponds to the value of `k` in EVERY environment that binds no static
  function name;
* the two captured environments of related closures need to agree only on the outer identifiers
  the OPTIMIZED body can mention (`outer'`, with `wscoped (params ++ outer' ++ own name) body'`), so
  that a closure whose optimized body is closed corresponds to the same closure with any other
  captured environment (`VRel.rebase` in `Proofs/LangFSim.lean`). -/
namespace P2.Lang.F
open P2.Lang P2.Lang.Opt

/-- what the relation depends on: the tables and the configuration of the optimizer -/
structure Ctx where
  S : Statics
  M : Methods
  T : Tables
  cfg : Cfg

/-! ## outcomes -/

/-- related outcomes: the original ran out of fuel (nothing is claimed), or both `ok` with related
results, or the same kind of failure -/
def RRel {α β : Type} (P : α → β → Prop) : R α → R β → Prop
  | .fuel, _ => True
  | .ok a, .ok b => P a b
  | .err, .err => True
  | .panic, .panic => True
  | .unmodelled, .unmodelled => True
  | _, _ => False

@[simp] theorem RRel.ok_ok {α β} {P : α → β → Prop} {a b} : RRel P (.ok a) (.ok b) ↔ P a b := Iff.rfl
@[simp] theorem RRel.err_err {α β} {P : α → β → Prop} : RRel P (.err : R α) (.err : R β) := trivial
@[simp] theorem RRel.panic_panic {α β} {P : α → β → Prop} : RRel P (.panic : R α) (.panic : R β) := trivial
@[simp] theorem RRel.fuel_left {α β} {P : α → β → Prop} (y : R β) : RRel P (.fuel : R α) y := by
  cases y <;> trivial
@[simp] theorem RRel.unm_unm {α β} {P : α → β → Prop} : RRel P (.unmodelled : R α) (.unmodelled : R β) := trivial
@[simp] theorem RRel.ok_err {α β} {P : α → β → Prop} {a} : ¬ RRel P (.ok a : R α) (.err : R β) := fun h => h
@[simp] theorem RRel.err_ok {α β} {P : α → β → Prop} {b} : ¬ RRel P (.err : R α) (.ok b : R β) := fun h => h

/-- a definite original outcome: both `ok` with related results, or the same failure -/
theorem RRel.cases {α β} {P : α → β → Prop} {x : R α} {y : R β} (h : RRel P x y) (hx : x ≠ .fuel) :
    (∃ a b, x = .ok a ∧ y = .ok b ∧ P a b) ∨ (x = .err ∧ y = .err) ∨ (x = .panic ∧ y = .panic) ∨
      (x = .unmodelled ∧ y = .unmodelled) := by
  cases x <;> cases y <;> simp only [RRel] at h <;> try contradiction
  · exact .inl ⟨_, _, rfl, rfl, h⟩
  · exact .inr (.inl ⟨rfl, rfl⟩)
  · exact .inr (.inr (.inl ⟨rfl, rfl⟩))
  all_goals first | exact absurd rfl hx | exact .inr (.inr (.inr ⟨rfl, rfl⟩))

theorem RRel.right_ne_fuel {α β} {P : α → β → Prop} {x : R α} {y : R β} (h : RRel P x y) (hx : x ≠ .fuel) :
    y ≠ .fuel := by
  rcases h.cases hx with ⟨a, b, _, h2, _⟩ | ⟨_, h2⟩ | ⟨_, h2⟩ | ⟨_, h2⟩ <;> rw [h2] <;> simp

theorem RRel.mono {α β} {P Q : α → β → Prop} {x : R α} {y : R β} (h : RRel P x y)
    (hpq : ∀ a b, P a b → Q a b) : RRel Q x y := by
  cases x <;> cases y <;> simp only [RRel] at h ⊢ <;> first | exact hpq _ _ h | trivial

theorem RRel.bind {α β γ δ} {P : α → β → Prop} {Q : γ → δ → Prop} {x : R α} {y : R β}
    {f : α → R γ} {g : β → R δ} (h : RRel P x y) (hf : ∀ a b, P a b → RRel Q (f a) (g b)) :
    RRel Q (x >>= f) (y >>= g) := by
  cases x <;> cases y <;> simp only [RRel] at h <;> try contradiction
  all_goals first
    | exact hf _ _ h
    | exact RRel.fuel_left _
    | trivial

theorem RRel.bind' {α β γ δ} {P : α → β → Prop} {Q : γ → δ → Prop} {x : R α} {y : R β}
    {f : α → R γ} {g : β → R δ} (h : RRel P x y) (hf : ∀ a b, P a b → RRel Q (f a) (g b)) :
    RRel Q (R.bind x f) (R.bind y g) := RRel.bind h hf

theorem RRel.refl_of {α : Type} {P : α → α → Prop} (x : R α) (h : ∀ a, P a a) : RRel P x x := by
  cases x <;> simp [h]

theorem RRel.eq_refl {α : Type} (x : R α) : RRel Eq x x := RRel.refl_of x (fun _ => rfl)

theorem RRel.ofOption {α β} {P : α → β → Prop} {x : Option α} {y : Option β}
    (h : match x, y with | some a, some b => P a b | none, none => True | _, _ => False) :
    RRel P (R.ofOption x) (R.ofOption y) := by
  cases x <;> cases y <;> simp_all [R.ofOption]

/-! ## values -/

/-- the scope inside a closure literal, as `opt` builds it -/
def extScope (this : String) (names : List String) (sc : Scope) : Scope :=
  (if this ≠ "" then [(this, none)] else []) ++ names.map (fun n => (n, none)) ++ sc

mutual
/-- well-wscoped programs (decidable): every identifier is bound — by an enclosing `let`, a parameter,
the function's own name, one of the closure's declared outer identifiers, or one of the names `L` —
or, in call position, names a static function; the outer identifiers a closure literal declares are
in scope; a recursive function has a name. Every tree the generator accepts satisfies it
(`gen_wscoped`). -/
def wscoped (S : Statics) : List String → AST → Bool
  | _, .const _ => true
  | L, .ident x => L.contains x
  | L, .letE x v i => wscoped S L v && wscoped S (x :: L) i
  | L, .ifE c t e => wscoped S L c && wscoped S L t && wscoped S L e
  | L, .switchE v cases d => wscoped S L v && wscopedCases S L cases && wscoped S L d
  | L, .tryE t c => wscoped S L t && wscoped S L c
  | L, .unary _ a => wscoped S L a
  | L, .binop _ a b => wscoped S L a && wscoped S L b
  | L, .clos names body outer r this =>
      (!r || this != "") && outer.all (fun x => L.contains x)
        && wscoped S (names ++ outer ++ (if r then [this] else [])) body
  | L, .listLit items => wscopedList S L items
  | L, .index i l => wscoped S L i && wscoped S L l
  | L, .mapLit kvs => wscopedKVs S L kvs
  | L, .member m _ => wscoped S L m
  | L, .call f args =>
      (match f with
       | .ident name => L.contains name || (S name).isSome
       | _ => wscoped S L f) && wscopedList S L args
  | L, .method recv _ args => wscoped S L recv && wscopedList S L args
def wscopedList (S : Statics) : List String → List AST → Bool
  | _, [] => true
  | L, a :: as => wscoped S L a && wscopedList S L as
def wscopedKVs (S : Statics) : List String → List (String × AST) → Bool
  | _, [] => true
  | L, (_, a) :: as => wscoped S L a && wscopedKVs S L as
def wscopedCases (S : Statics) : List String → List (AST × AST) → Bool
  | _, [] => true
  | L, (c, r) :: rest => wscoped S L c && wscoped S L r && wscopedCases S L rest
end

mutual
inductive VRel (S : Ctx) : Val → Val → Prop
  | int (i : Int) : VRel S (.int i) (.int i)
  | flt (f : Float) : VRel S (.flt f) (.flt f)
  | str (s : String) : VRel S (.str s) (.str s)
  | bool (b : Bool) : VRel S (.bool b) (.bool b)
  | list {a b : LList} : LRel S a b → VRel S (.list a) (.list b)
  | map {a b : List (String × Val)} : KVRel S a b → VRel S (.map a) (.map b)
  | clos {names : List String} {body body' : AST} {cenv cenv' : Env} {r : Bool} {this : String}
      {sc : Scope} {outer outer' : List String} :
      opt S.S S.M S.T S.cfg true (extScope this names sc) body = .ok body' →
      wscoped S.S (names ++ outer ++ (if r then [this] else [])) body = true →
      wscoped S.S (names ++ outer' ++ (if r then [this] else [])) body' = true →
      (r = true → this ≠ "") →
      (∀ x, x ∈ outer → sc.find x ≠ none) →
      (∀ x, x ∈ names → S.S x = none) → (this ≠ "" → S.S this = none) →
      (∀ x, sc.find x = some none → S.S x = none) →
      (∀ x, sc.find x = none → cenv.get x = none) →
      (∀ x k, sc.find x = some (some k) → CstRel S (cenv.get x) k) →
      (∀ x, cenv'.has x = true → S.S x = none) →
      (∀ x, x ∈ outer' → OptRel S (cenv.get x) (cenv'.get x)) →
      VRel S (.sclos names body cenv r this) (.sclos names body' cenv' r this)
/-- the binding of an inlined constant: the bound value corresponds to the value of the constant
form in every environment without static function names -/
inductive CstRel (S : Ctx) : Option Val → AST → Prop
  | mk {v : Val} {k : AST} : isConst S.S S.cfg k = true →
      (∀ e : Env, (∀ x, e.has x = true → S.S x = none) → CstVal S v k e) → CstRel S (some v) k
inductive CstVal (S : Ctx) : Val → AST → Env → Prop
  | mk {v w : Val} {k : AST} {e : Env} : VRel S v w →
      (∃ m0, ∀ (m : Nat), m0 ≤ m → eval S.S S.M m k e = .ok w) → CstVal S v k e
inductive OptRel (S : Ctx) : Option Val → Option Val → Prop
  | none : OptRel S none none
  | some {v w : Val} : VRel S v w → OptRel S (some v) (some w)
inductive LRel (S : Ctx) : LList → LList → Prop
  | items {xs ys : List Val} : VsRel S xs ys → LRel S (.items xs) (.items ys)
  | numbers (i n : Int) : LRel S (.numbers i n) (.numbers i n)
  | map {f g : Val} {a b : LList} : VRel S f g → LRel S a b → LRel S (.map f a) (.map g b)
  | accept {f g : Val} {a b : LList} : VRel S f g → LRel S a b → LRel S (.accept f a) (.accept g b)
  | top (n : Int) {a b : LList} : LRel S a b → LRel S (.top n a) (.top n b)
  | skip (n : Int) {a b : LList} : LRel S a b → LRel S (.skip n a) (.skip n b)
  | append {a b a' b' : LList} : LRel S a a' → LRel S b b' → LRel S (.append a b) (.append a' b')
inductive VsRel (S : Ctx) : List Val → List Val → Prop
  | nil : VsRel S [] []
  | cons {x y : Val} {xs ys : List Val} : VRel S x y → VsRel S xs ys → VsRel S (x :: xs) (y :: ys)
inductive KVRel (S : Ctx) : List (String × Val) → List (String × Val) → Prop
  | nil : KVRel S [] []
  | cons (k : String) {x y : Val} {xs ys : List (String × Val)} :
      VRel S x y → KVRel S xs ys → KVRel S ((k, x) :: xs) ((k, y) :: ys)
end

/-- the library calls closures through `ap`; the two instances are related when related closures
applied to related arguments give related outcomes -/
def ApRel (S : Ctx) (aps apr : Apply) : Prop :=
  ∀ f f' vs vs', VRel S f f' → VsRel S vs vs' → RRel (VRel S) (aps f vs) (apr f' vs')

/-! ### lists of related values -/

theorem VsRel.length {S} : ∀ {xs ys : List Val}, VsRel S xs ys → xs.length = ys.length
  | _, _, .nil => rfl
  | _, _, .cons _ h => by simp [VsRel.length h]

theorem VsRel.append {S} : ∀ {xs ys xs' ys' : List Val}, VsRel S xs ys → VsRel S xs' ys' →
    VsRel S (xs ++ xs') (ys ++ ys')
  | _, _, _, _, .nil, h => h
  | _, _, _, _, .cons hv h1, h => .cons hv (VsRel.append h1 h)

theorem VsRel.reverse {S} : ∀ {xs ys : List Val}, VsRel S xs ys → VsRel S xs.reverse ys.reverse
  | _, _, .nil => .nil
  | _, _, .cons hv h => by
    simp only [List.reverse_cons]
    exact VsRel.append (VsRel.reverse h) (.cons hv .nil)

theorem VsRel.get? {S} : ∀ {xs ys : List Val}, VsRel S xs ys → ∀ (i : Nat),
    match xs[i]?, ys[i]? with
    | some a, some b => VRel S a b
    | none, none => True
    | _, _ => False
  | _, _, .nil, i => by simp
  | _, _, .cons hv h, 0 => by simpa using hv
  | _, _, .cons hv h, i+1 => by simpa using VsRel.get? h i

theorem KVRel.length {S} : ∀ {xs ys : List (String × Val)}, KVRel S xs ys → xs.length = ys.length
  | _, _, .nil => rfl
  | _, _, .cons _ _ h => by simp [KVRel.length h]

theorem KVRel.append {S} : ∀ {xs ys xs' ys' : List (String × Val)}, KVRel S xs ys → KVRel S xs' ys' →
    KVRel S (xs ++ xs') (ys ++ ys')
  | _, _, _, _, .nil, h => h
  | _, _, _, _, .cons k hv h1, h => .cons k hv (KVRel.append h1 h)

theorem KVRel.get {S} : ∀ {xs ys : List (String × Val)}, KVRel S xs ys → ∀ (key : String),
    match mapGet xs key, mapGet ys key with
    | some a, some b => VRel S a b
    | none, none => True
    | _, _ => False
  | _, _, .nil, key => by simp [mapGet]
  | _, _, .cons k hv h, key => by
    simp only [mapGet]
    by_cases hk : k = key
    · simpa [hk] using hv
    · simpa [hk] using KVRel.get h key

theorem KVRel.get_cases {S} {xs ys : List (String × Val)} (h : KVRel S xs ys) (key : String) :
    (mapGet xs key = none ∧ mapGet ys key = none) ∨
    (∃ a b, mapGet xs key = some a ∧ mapGet ys key = some b ∧ VRel S a b) := by
  have := h.get key
  cases h1 : mapGet xs key <;> cases h2 : mapGet ys key <;> simp_all

theorem KVRel.get_isSome {S} {xs ys : List (String × Val)} (h : KVRel S xs ys) (key : String) :
    (mapGet xs key).isSome = (mapGet ys key).isSome := by
  rcases h.get_cases key with ⟨h1, h2⟩ | ⟨a, b, h1, h2, _⟩ <;> simp [h1, h2]

theorem KVRel.get_isNone {S} {xs ys : List (String × Val)} (h : KVRel S xs ys) (key : String) :
    (mapGet xs key).isNone = (mapGet ys key).isNone := by
  rcases h.get_cases key with ⟨h1, h2⟩ | ⟨a, b, h1, h2, _⟩ <;> simp [h1, h2]

theorem VRel.typeName {S} {a b : Val} (h : VRel S a b) : typeName a = typeName b := by
  cases h <;> rfl

theorem VRel.closArity {S} {a b : Val} (h : VRel S a b) : a.closArity = b.closArity := by
  cases h <;> rfl

theorem VRel.toFloat? {S} {a b : Val} (h : VRel S a b) : toFloat? a = toFloat? b := by
  cases h <;> rfl

theorem VRel.isClosN {S} {a b : Val} (h : VRel S a b) (n : Nat) : isClosN a n = isClosN b n := by
  simp [Lang.isClosN, h.closArity]

theorem VRel.ofScalar {S} (c : Scalar) : VRel S (ofScalar c) (ofScalar c) := by
  cases c <;> constructor

end P2.Lang.F
