import P2.Spec.ListSpec
/-! Generic lemmas about `feed`/`drive` (any frames, any terminal consumer). -/
namespace P2.Iter
variable {α τ : Type}

/-! ### the source loop -/

@[simp] theorem drive_nil (ft : FeedT α τ) (s : St α τ) : drive ft [] s = (s, .more) := rfl

theorem drive_cons (ft : FeedT α τ) (x : Item α) (xs : List (Item α)) (s : St α τ) :
    drive ft (x :: xs) s =
      if (feed ft s.frames s.sink x).ctl = .more then drive ft xs (s.apply (feed ft s.frames s.sink x))
      else (s.apply (feed ft s.frames s.sink x), (feed ft s.frames s.sink x).ctl) := rfl

/-- **Prefix determinacy.** Once the chain has answered anything but `more` while consuming `xs`,
nothing behind `xs` matters: same frames, same consumer state (result), same log (no further closure
call, no later error), same number of elements pulled. -/
theorem drive_prefix (ft : FeedT α τ) (xs ys : List (Item α)) (s : St α τ)
    (h : (drive ft xs s).2 ≠ .more) : drive ft (xs ++ ys) s = drive ft xs s := by
  induction xs generalizing s with
  | nil => simp at h
  | cons x xs ih =>
    simp only [List.cons_append, drive_cons] at h ⊢
    split
    · rename_i hk; simp only [hk, if_true] at h; exact ih _ h
    · rfl

/-- a source that was consumed completely with the chain still asking for more: the loop goes on -/
theorem drive_append_more (ft : FeedT α τ) (xs ys : List (Item α)) (s : St α τ)
    (h : (drive ft xs s).2 = .more) : drive ft (xs ++ ys) s = drive ft ys (drive ft xs s).1 := by
  induction xs generalizing s with
  | nil => simp
  | cons x xs ih =>
    simp only [List.cons_append, drive_cons] at h ⊢
    split
    · rename_i hk; simp only [hk, if_true] at h; exact ih _ h
    · rename_i hk; simp only [hk, if_false] at h

/-- the loop never pulls more than the source holds, and counts what it pulls -/
theorem drive_pulled_le (ft : FeedT α τ) (xs : List (Item α)) (s : St α τ) :
    (drive ft xs s).1.pulled ≤ s.pulled + xs.length := by
  induction xs generalizing s with
  | nil => simp
  | cons x xs ih =>
    simp only [drive_cons]
    split
    · have := ih (s.apply (feed ft s.frames s.sink x)); simp only [St.apply, List.length_cons] at this ⊢; omega
    · simp [St.apply]

theorem drive_pulled_ge (ft : FeedT α τ) (xs : List (Item α)) (s : St α τ) :
    s.pulled ≤ (drive ft xs s).1.pulled := by
  induction xs generalizing s with
  | nil => simp
  | cons x xs ih =>
    simp only [drive_cons]
    split
    · have := ih (s.apply (feed ft s.frames s.sink x)); simp only [St.apply] at this ⊢; omega
    · simp [St.apply]

/-- when the source was exhausted, every element was pulled -/
theorem drive_more_pulled (ft : FeedT α τ) (xs : List (Item α)) (s : St α τ)
    (h : (drive ft xs s).2 = .more) : (drive ft xs s).1.pulled = s.pulled + xs.length := by
  induction xs generalizing s with
  | nil => simp
  | cons x xs ih =>
    simp only [drive_cons] at h ⊢
    split
    · rename_i hk; simp only [hk, if_true] at h
      have := ih _ h; simp only [St.apply, List.length_cons] at this ⊢; omega
    · rename_i hk; simp only [hk, if_false] at h

theorem genItems_length (g : Nat → Item α) (cnt i : Nat) : (genItems g cnt i).length = cnt := by
  induction cnt generalizing i with
  | zero => rfl
  | succ c ih => simp [genItems, ih]

theorem genItems_add (g : Nat → Item α) (a b i : Nat) :
    genItems g (a + b) i = genItems g a i ++ genItems g b (i + a) := by
  induction a generalizing i with
  | zero => simp [genItems]
  | succ a ih =>
    have : a + 1 + b = (a + b) + 1 := by omega
    rw [this]; simp only [genItems, List.cons_append, ih]
    congr 2; congr 1; omega

/-- the generator loop is the slice loop over the generated items (it just never builds them) -/
theorem driveGen_eq_drive (ft : FeedT α τ) (g : Nat → Item α) (cnt i : Nat) (s : St α τ) :
    driveGen ft g cnt i s = drive ft (genItems g cnt i) s := by
  induction cnt generalizing i s with
  | zero => rfl
  | succ c ih =>
    simp only [driveGen, genItems, drive_cons]
    split
    · exact ih _ _
    · rfl

/-! ### shape of the frame list -/

theorem feed_frames_length (ft : FeedT α τ) (fs : List (Frame α)) (t : τ) (x : Item α) :
    (feed ft fs t x).frames.length = fs.length := by
  induction fs generalizing x with
  | nil => rfl
  | cons fr fs ih =>
    simp only [feed]
    split <;> simp [ih]

theorem drive_frames_length (ft : FeedT α τ) (xs : List (Item α)) (s : St α τ) :
    (drive ft xs s).1.frames.length = s.frames.length := by
  induction xs generalizing s with
  | nil => rfl
  | cons x xs ih =>
    simp only [drive_cons]
    split
    · rw [ih]; simp [St.apply, feed_frames_length]
    · simp [St.apply, feed_frames_length]

/-! ### errors are never answered with `more` -/

/-- every frame hands an error item on unchanged, or halts -/
theorem step_err (fr : Frame α) :
    (fr.step .err).emit = .pass .err ∨ ∃ c, c ≠ .more ∧ (fr.step .err).emit = .halt c := by
  cases fr with
  | top n seen => simp only [Frame.step]; split
                  · right; exact ⟨.stop, by decide, rfl⟩
                  · left; rfl
  | skip n seen => simp only [Frame.step]; split <;> (left; rfl)
  | combine id f last => cases last <;> (left; rfl)
  | compact id eq last => cases last <;> (left; rfl)
  | _ => left; rfl

/-- **Dead continuation.** If the terminal consumer never answers `more` to an error item, no chain
does: the Go code paths that go on with an element after `yield(…, err)` returned `true` are unreachable. -/
theorem feed_err_not_more (ft : FeedT α τ) (hft : ∀ t, (ft t .err).2.2 ≠ .more)
    (fs : List (Frame α)) (t : τ) : (feed ft fs t .err).ctl ≠ .more := by
  induction fs with
  | nil => exact hft t
  | cons fr fs ih =>
    simp only [feed]
    rcases step_err fr with h | ⟨c, hc, h⟩
    · rw [h]; exact ih
    · rw [h]; exact hc

theorem feedTerm_err (t : Term α) : (feedTerm t .err).2.2 ≠ .more := by
  cases t with
  | single f => cases f <;> simp [feedTerm]
  | reduce id f acc => cases acc <;> simp [feedTerm]
  | _ => simp [feedTerm]

theorem feedSink_one_err (t : Term α) : (feedSink (.one t) .err).2.2 ≠ .more := by
  simp only [feedSink]; exact feedTerm_err t

end P2.Iter
