import P2.Proofs.LangEq
/-! # Fuel monotonicity of the reference semantics (and of the library)

`Le x y` ("`y` answers whatever `x` answers unless `x` ran out of fuel") is the order in which more
fuel can only turn the outcome `fuel` into a definite one. Every library function is monotone in its
fuel and in its `Apply` parameter (`ApLe`), and so is the mutual family `eval`, `applyS`, `evalArgs`,
`evalList`, `evalKVs`, `evalCases` of `Model/Lang/Sem.lean`. -/
namespace P2.Lang

/-- `y` is `x` unless `x` is the out-of-fuel outcome -/
structure Le {α : Type} (x y : R α) : Prop where
  le : x ≠ .fuel → y = x

theorem Le.refl {α} (x : R α) : Le x x := ⟨fun _ => rfl⟩
theorem Le.fuel {α} (y : R α) : Le .fuel y := ⟨fun h => absurd rfl h⟩
theorem Le.of_eq {α} {x y : R α} (h : y = x) : Le x y := ⟨fun _ => h⟩

theorem Le.trans {α} {x y z : R α} (h1 : Le x y) (h2 : Le y z) : Le x z := by
  refine ⟨fun hx => ?_⟩
  have hy := h1.le hx
  rw [hy] at h2
  exact h2.le hx

theorem Le.bind {α β} {x y : R α} {f g : α → R β} (h : Le x y) (hf : ∀ a, Le (f a) (g a)) :
    Le (x >>= f) (y >>= g) := by
  refine ⟨fun hx => ?_⟩
  cases x with
  | ok a =>
    rw [h.le (by simp)]
    simp only [R.bind_ok] at hx ⊢
    exact (hf a).le hx
  | err => rw [h.le (by simp)]; rfl
  | panic => rw [h.le (by simp)]; rfl
  | fuel => exact absurd rfl hx
  | unmodelled => rw [h.le (by simp)]; rfl

theorem Le.bind' {α β} {x y : R α} {f g : α → R β} (h : Le x y) (hf : ∀ a, Le (f a) (g a)) :
    Le (R.bind x f) (R.bind y g) := Le.bind h hf

/-- the use of monotonicity: a definite outcome stays -/
theorem Le.eq {α} {x y : R α} {r : R α} (h : Le x y) (hx : x = r) (hr : r ≠ .fuel) : y = r := by
  subst hx; exact h.le hr

/-- `ap'` answers whatever `ap` answers unless `ap` ran out of fuel -/
@[reducible] def ApLe (ap ap' : Apply) : Prop := ∀ f vs, Le (ap f vs) (ap' f vs)

theorem ApLe.refl (ap : Apply) : ApLe ap ap := fun _ _ => Le.refl _

theorem Le.ite {α} {c : Prop} [Decidable c] {a a' b b' : R α} (h1 : c → Le a a') (h2 : ¬ c → Le b b') :
    Le (if c then a else b) (if c then a' else b') := by
  by_cases hc : c
  · simp only [hc, if_true]; exact h1 hc
  · simp only [hc, if_false]; exact h2 hc

/-- one step of a monotonicity proof: close the goal, or decompose a bind / a match -/
macro "mono_step" : tactic => `(tactic| first
  | with_reducible exact Le.refl _
  | with_reducible exact Le.fuel _
  | with_reducible (apply Le.bind)
  | with_reducible (apply Le.bind')
  | with_reducible (apply Le.ite)
  | (intro _)
  | split
  | with_reducible assumption
  | with_reducible apply_assumption
  | omega)

macro "mono" : tactic => `(tactic| repeat' mono_step)

section Lib
variable {ap ap' : Apply}

theorem uncons_mono (h : ApLe ap ap') : ∀ (k k' : Nat) (l : LList), k ≤ k' →
    Le (uncons ap k l) (uncons ap' k' l)
  | 0, _, _, _ => Le.fuel _
  | k+1, 0, _, hk => by omega
  | k+1, k'+1, l, hk => by
    have ih := fun l => uncons_mono h k k' l (by omega)
    cases l with
    | items xs => cases xs <;> exact Le.refl _
    | _ => simp only [uncons]; mono

theorem force_mono (h : ApLe ap ap') : ∀ (k k' : Nat) (l : LList), k ≤ k' →
    Le (force ap k l) (force ap' k' l)
  | 0, _, _, _ => Le.fuel _
  | k+1, 0, _, hk => by omega
  | k+1, k'+1, l, hk => by
    have ih := fun l => force_mono h k k' l (by omega)
    have hu := fun l => uncons_mono h k k' l (by omega)
    simp only [force]; mono

theorem toStr_mono_all (h : ApLe ap ap') : ∀ (k : Nat),
    (∀ k' v, k ≤ k' → Le (toStr ap k v) (toStr ap' k' v)) ∧
    (∀ k' vs, k ≤ k' → Le (toStrs ap k vs) (toStrs ap' k' vs)) ∧
    (∀ k' kvs, k ≤ k' → Le (toStrKVs ap k kvs) (toStrKVs ap' k' kvs))
  | 0 => ⟨fun _ _ _ => by simp only [toStr]; exact Le.fuel _,
          fun _ _ _ => by simp only [toStrs]; exact Le.fuel _,
          fun _ _ _ => by simp only [toStrKVs]; exact Le.fuel _⟩
  | k+1 => by
    obtain ⟨ih1, ih2, ih3⟩ := toStr_mono_all h k
    refine ⟨fun k' v hk => ?_, fun k' vs hk => ?_, fun k' kvs hk => ?_⟩
    · cases k' with
      | zero => omega
      | succ k' =>
        have i1 := fun v => ih1 k' v (by omega)
        have i2 := fun v => ih2 k' v (by omega)
        have i3 := fun v => ih3 k' v (by omega)
        have hf := fun l => force_mono h k k' l (by omega)
        clear ih1 ih2 ih3
        cases v <;> simp only [toStr] <;> mono
    · cases k' with
      | zero => omega
      | succ k' =>
        have i1 := fun v => ih1 k' v (by omega)
        have i2 := fun v => ih2 k' v (by omega)
        clear ih1 ih2 ih3
        cases vs <;> simp only [toStrs] <;> mono
    · cases k' with
      | zero => omega
      | succ k' =>
        have i1 := fun v => ih1 k' v (by omega)
        have i3 := fun v => ih3 k' v (by omega)
        clear ih1 ih2 ih3
        rcases kvs with _ | ⟨⟨key, v⟩, rest⟩ <;> simp only [toStrKVs] <;> mono

theorem toStr_mono (h : ApLe ap ap') (k k' : Nat) (v : Val) (hk : k ≤ k') :
    Le (toStr ap k v) (toStr ap' k' v) := (toStr_mono_all h k).1 k' v hk

theorem valEq_mono_all (h : ApLe ap ap') : ∀ (k : Nat),
    (∀ k' a b, k ≤ k' → Le (valEq ap k a b) (valEq ap' k' a b)) ∧
    (∀ k' xs ys, k ≤ k' → Le (listEq ap k xs ys) (listEq ap' k' xs ys)) ∧
    (∀ k' a b, k ≤ k' → Le (mapEq ap k a b) (mapEq ap' k' a b))
  | 0 => ⟨fun _ _ _ _ => by simp only [valEq]; exact Le.fuel _,
          fun _ _ _ _ => by simp only [listEq]; exact Le.fuel _,
          fun _ _ _ _ => by simp only [mapEq]; exact Le.fuel _⟩
  | k+1 => by
    obtain ⟨ih1, ih2, ih3⟩ := valEq_mono_all h k
    refine ⟨fun k' a b hk => ?_, fun k' xs ys hk => ?_, fun k' a b hk => ?_⟩
    · cases k' with
      | zero => omega
      | succ k' =>
        have i1 := fun a b => ih1 k' a b (by omega)
        have i2 := fun a b => ih2 k' a b (by omega)
        have i3 := fun a b => ih3 k' a b (by omega)
        have hf := fun l => force_mono h k k' l (by omega)
        clear ih1 ih2 ih3
        cases a <;> cases b <;> simp only [valEq] <;> mono
    · cases k' with
      | zero => omega
      | succ k' =>
        have i1 := fun a b => ih1 k' a b (by omega)
        have i2 := fun a b => ih2 k' a b (by omega)
        clear ih1 ih2 ih3
        cases xs <;> cases ys <;> simp only [listEq] <;> mono
    · cases k' with
      | zero => omega
      | succ k' =>
        have i1 := fun a b => ih1 k' a b (by omega)
        have i3 := fun a b => ih3 k' a b (by omega)
        clear ih1 ih2 ih3
        rcases a with _ | ⟨⟨key, v⟩, rest⟩ <;> simp only [mapEq] <;> mono

theorem valEq_mono (h : ApLe ap ap') (k k' : Nat) (a b : Val) (hk : k ≤ k') :
    Le (valEq ap k a b) (valEq ap' k' a b) := (valEq_mono_all h k).1 k' a b hk

theorem containsItem_mono (h : ApLe ap ap') : ∀ (k k' : Nat) (l : LList) (x : Val), k ≤ k' →
    Le (containsItem ap k l x) (containsItem ap' k' l x)
  | 0, _, _, _, _ => Le.fuel _
  | k+1, 0, _, _, hk => by omega
  | k+1, k'+1, l, x, hk => by
    have ih := fun l x => containsItem_mono h k k' l x (by omega)
    have hu := fun l => uncons_mono h k k' l (by omega)
    have he := fun a b => valEq_mono h k k' a b (by omega)
    simp only [containsItem]; mono

theorem binop_mono (h : ApLe ap ap') (k k' : Nat) (op : String) (a b : Val) (hk : k ≤ k') :
    Le (binop ap k op a b) (binop ap' k' op a b) := by
  have he := fun a b => valEq_mono h k k' a b hk
  have hs := fun v => toStr_mono h k k' v hk
  have hc := fun l x => containsItem_mono h k k' l x hk
  unfold binop
  mono

theorem callStatic_mono (h : ApLe ap ap') (k k' : Nat) (name : String) (args : List Val) (hk : k ≤ k') :
    Le (callStatic ap k name args) (callStatic ap' k' name args) := by
  have hs := fun v => toStr_mono h k k' v hk
  unfold callStatic
  mono

theorem reduceLoop_mono (h : ApLe ap ap') (f : Val) : ∀ (k k' : Nat) (acc : Val) (l : LList), k ≤ k' →
    Le (reduceLoop ap f k acc l) (reduceLoop ap' f k' acc l)
  | 0, _, _, _, _ => Le.fuel _
  | k+1, 0, _, _, hk => by omega
  | k+1, k'+1, acc, l, hk => by
    have ih := fun acc l => reduceLoop_mono h f k k' acc l (by omega)
    have hu := fun l => uncons_mono h k k' l (by omega)
    simp only [reduceLoop]; mono

theorem sumLoop_mono (h : ApLe ap ap') : ∀ (k k' : Nat) (acc : Val) (l : LList), k ≤ k' →
    Le (sumLoop ap k acc l) (sumLoop ap' k' acc l)
  | 0, _, _, _, _ => Le.fuel _
  | k+1, 0, _, _, hk => by omega
  | k+1, k'+1, acc, l, hk => by
    have ih := fun acc l => sumLoop_mono h k k' acc l (by omega)
    have hu := fun l => uncons_mono h k k' l (by omega)
    have hb := fun op a b => binop_mono h k k' op a b (by omega)
    simp only [sumLoop]; mono

theorem lastLoop_mono (h : ApLe ap ap') : ∀ (k k' : Nat) (acc : Option Val) (l : LList), k ≤ k' →
    Le (lastLoop ap k acc l) (lastLoop ap' k' acc l)
  | 0, _, _, _, _ => Le.fuel _
  | k+1, 0, _, _, hk => by omega
  | k+1, k'+1, acc, l, hk => by
    have ih := fun acc l => lastLoop_mono h k k' acc l (by omega)
    have hu := fun l => uncons_mono h k k' l (by omega)
    simp only [lastLoop]; mono

theorem findLoop_mono (h : ApLe ap ap') (f : Val) : ∀ (k k' : Nat) (i : Int) (l : LList), k ≤ k' →
    Le (findLoop ap f k i l) (findLoop ap' f k' i l)
  | 0, _, _, _, _ => Le.fuel _
  | k+1, 0, _, _, hk => by omega
  | k+1, k'+1, i, l, hk => by
    have ih := fun i l => findLoop_mono h f k k' i l (by omega)
    have hu := fun l => uncons_mono h k k' l (by omega)
    simp only [findLoop]; mono

theorem mapMapLoop_mono (h : ApLe ap ap') (f : Val) : ∀ (k k' : Nat) (kvs : List (String × Val)), k ≤ k' →
    Le (mapMapLoop ap f k kvs) (mapMapLoop ap' f k' kvs)
  | 0, _, _, _ => Le.fuel _
  | k+1, 0, _, hk => by omega
  | k+1, k'+1, kvs, hk => by
    have ih := fun kvs => mapMapLoop_mono h f k k' kvs (by omega)
    rcases kvs with _ | ⟨⟨key, v⟩, rest⟩ <;> simp only [mapMapLoop] <;> mono

theorem mapAcceptLoop_mono (h : ApLe ap ap') (f : Val) : ∀ (k k' : Nat) (kvs : List (String × Val)), k ≤ k' →
    Le (mapAcceptLoop ap f k kvs) (mapAcceptLoop ap' f k' kvs)
  | 0, _, _, _ => Le.fuel _
  | k+1, 0, _, hk => by omega
  | k+1, k'+1, kvs, hk => by
    have ih := fun kvs => mapAcceptLoop_mono h f k k' kvs (by omega)
    rcases kvs with _ | ⟨⟨key, v⟩, rest⟩ <;> simp only [mapAcceptLoop] <;> mono

theorem mFirst_mono (h : ApLe ap ap') (k k' : Nat) (recv : Val) (args : List Val) (hk : k ≤ k') :
    Le (mFirst ap k recv args) (mFirst ap' k' recv args) := by
  unfold mFirst
  split
  · cases k with
    | zero => exact Le.fuel _
    | succ k =>
      cases k' with
      | zero => omega
      | succ k' =>
        have hu := fun l => uncons_mono h k k' l (by omega)
        dsimp only; mono
  · exact Le.refl _

theorem mReduce_mono (h : ApLe ap ap') (k k' : Nat) (recv : Val) (args : List Val) (hk : k ≤ k') :
    Le (mReduce ap k recv args) (mReduce ap' k' recv args) := by
  unfold mReduce
  split
  · apply Le.ite
    · intro _; exact Le.refl _
    · intro _
      cases k with
      | zero => exact Le.fuel _
      | succ k =>
        cases k' with
        | zero => omega
        | succ k' =>
          have hu := fun l => uncons_mono h k k' l (by omega)
          have h3 := fun f acc l => reduceLoop_mono h f k k' acc l (by omega)
          dsimp only; mono
  · exact Le.refl _

theorem mSum_mono (h : ApLe ap ap') (k k' : Nat) (recv : Val) (args : List Val) (hk : k ≤ k') :
    Le (mSum ap k recv args) (mSum ap' k' recv args) := by
  unfold mSum
  split
  · cases k with
    | zero => exact Le.fuel _
    | succ k =>
      cases k' with
      | zero => omega
      | succ k' =>
        have hu := fun l => uncons_mono h k k' l (by omega)
        have h3 := fun acc l => sumLoop_mono h k k' acc l (by omega)
        dsimp only; mono
  · exact Le.refl _

theorem methodBody_mono (h : ApLe ap ap') (k k' : Nat) (name : String) (recv : Val) (args : List Val)
    (hk : k ≤ k') : Le (methodBody ap k name recv args) (methodBody ap' k' name recv args) := by
  have hf := fun l => force_mono h k k' l hk
  have hs := fun v => toStr_mono h k k' v hk
  have h1 := fun f kvs => mapMapLoop_mono h f k k' kvs hk
  have h2 := fun f kvs => mapAcceptLoop_mono h f k k' kvs hk
  have h3 := fun f acc l => reduceLoop_mono h f k k' acc l hk
  have h4 := fun acc l => lastLoop_mono h k k' acc l hk
  have h5 := fun f i l => findLoop_mono h f k k' i l hk
  unfold methodBody
  split
  all_goals first
    | exact Le.refl _
    | (unfold mMap; mono)
    | (unfold mAccept; mono)
    | (unfold mSize; mono)
    | (unfold mEval; mono)
    | (unfold mString; mono)
    | (unfold mLast; mono)
    | (unfold mMapReduce; mono)
    | (unfold mAppend; mono)
    | (unfold mReverse; mono)
    | (unfold mIndexWhere; mono)
    | (unfold mPresent; mono)
    | (unfold mInvoke; mono)
    | exact mFirst_mono h k k' _ _ hk
    | exact mReduce_mono h k k' _ _ hk
    | exact mSum_mono h k k' _ _ hk

theorem callMethod_mono (known : String → String → Option Int) (h : ApLe ap ap') (k k' : Nat) (name : String)
    (recv : Val) (args : List Val) (hk : k ≤ k') :
    Le (callMethod known ap k name recv args) (callMethod known ap' k' name recv args) := by
  have hm := methodBody_mono h k k' name recv args hk
  unfold callMethod
  mono

end Lib
section Sem
variable (S : Statics) (M : Methods)

theorem eval_mono_all : ∀ n : Nat,
    (∀ m f args, n ≤ m → Le (applyS S M n f args) (applyS S M m f args)) ∧
    (∀ m a env, n ≤ m → Le (eval S M n a env) (eval S M m a env)) ∧
    (∀ m as env, n ≤ m → Le (evalArgs S M n as env) (evalArgs S M m as env)) ∧
    (∀ m as env, n ≤ m → Le (evalList S M n as env) (evalList S M m as env)) ∧
    (∀ m as env, n ≤ m → Le (evalKVs S M n as env) (evalKVs S M m as env)) ∧
    (∀ m x cs d env, n ≤ m → Le (evalCases S M n x cs d env) (evalCases S M m x cs d env))
  | 0 => ⟨fun _ _ _ _ => Le.fuel _, fun _ _ _ _ => Le.fuel _, fun _ _ _ _ => Le.fuel _,
          fun _ _ _ _ => Le.fuel _, fun _ _ _ _ => Le.fuel _, fun _ _ _ _ _ _ => Le.fuel _⟩
  | n+1 => by
    obtain ⟨jAp, jE, jA, jL, jK, jC⟩ := eval_mono_all n
    refine ⟨fun m f args hm => ?_, fun m a env hm => ?_, fun m as env hm => ?_, fun m as env hm => ?_,
      fun m as env hm => ?_, fun m x cs d env hm => ?_⟩
    all_goals
      cases m with
      | zero => omega
      | succ m => ?_
    all_goals
      have ihAp : ApLe (applyS S M n) (applyS S M m) := fun f args => jAp m f args (by omega)
      have ihE := fun a env => jE m a env (by omega)
      have ihA := fun a env => jA m a env (by omega)
      have ihL := fun a env => jL m a env (by omega)
      have ihK := fun a env => jK m a env (by omega)
      have ihC := fun x cs d env => jC m x cs d env (by omega)
      have hnm : n ≤ m := by omega
      clear jAp jE jA jL jK jC
    · cases f <;> first | exact Le.refl _ | (simp only [applyS_sclos]; mono)
    · have hb := fun op x y => binop_mono ihAp n m op x y hnm
      have hf := fun l => force_mono ihAp n m l hnm
      have hs := fun name vs => callStatic_mono ihAp n m name vs hnm
      have hmb := fun name rv vs => methodBody_mono ihAp n m name rv vs hnm
      cases a with
      | const c => exact Le.refl _
      | ident x => exact Le.refl _
      | letE x v i => simp only [eval_letE]; mono
      | ifE c t e => simp only [eval_ifE]; mono
      | switchE v cases d => simp only [eval_switchE]; mono
      | tryE t c =>
        simp only [eval_tryE]
        have h := ihE t env
        cases hx : eval S M n t env with
        | fuel => exact Le.fuel _
        | ok v => rw [hx] at h; rw [h.le (by simp)]; exact Le.refl _
        | err => rw [hx] at h; rw [h.le (by simp)]; dsimp only; mono
        | panic => rw [hx] at h; rw [h.le (by simp)]; dsimp only; mono
        | unmodelled => rw [hx] at h; rw [h.le (by simp)]; exact Le.refl _
      | unary op a => simp only [eval_unary]; mono
      | binop op a b => simp only [eval_binop]; mono
      | clos names body outer r this => exact Le.refl _
      | listLit items => simp only [eval_listLit]; mono
      | index i l => simp only [eval_index]; mono
      | mapLit kvs => simp only [eval_mapLit]; mono
      | member m key => simp only [eval_member]; mono
      | call f args =>
        by_cases hid : ∃ name, f = .ident name
        · obtain ⟨name, rfl⟩ := hid
          by_cases hst : (S name).isSome ∧ !Env.has env name
          · rw [eval_call_static S M n name args env hst, eval_call_static S M m name args env hst]
            mono
          · rw [eval_call_ident_dyn S M n name args env hst, eval_call_ident_dyn S M m name args env hst]
            unfold evalCallK
            mono
        · have hid' : ∀ name, f ≠ .ident name := fun name hf => hid ⟨name, hf⟩
          rw [eval_call_dyn S M n f args env hid', eval_call_dyn S M m f args env hid']
          unfold evalCallK
          mono
      | method recv name args =>
        simp only [eval_method]
        unfold evalMethodK
        mono
    · cases as <;> first | exact Le.refl _ | (simp only [evalArgs_cons]; mono)
    · cases as <;> first | exact Le.refl _ | (simp only [evalList_cons]; mono)
    · rcases as with _ | ⟨⟨k, a⟩, rest⟩ <;> first | exact Le.refl _ | (simp only [evalKVs_cons]; mono)
    · have he := fun a b => valEq_mono ihAp n m a b hnm
      rcases cs with _ | ⟨⟨c, r⟩, rest⟩
      · simp only [evalCases_nil]; mono
      · simp only [evalCases_cons]; mono

/-- **fuel monotonicity of the reference semantics**: a definite outcome (anything but `fuel`) is
the outcome at every larger fuel -/
theorem eval_fuel_mono {n m : Nat} {a : AST} {env : Env} {r : R Val}
    (h : eval S M n a env = r) (hr : r ≠ .fuel) (hnm : n ≤ m) : eval S M m a env = r :=
  ((eval_mono_all S M n).2.1 m a env hnm).eq h hr

theorem applyS_fuel_mono {n m : Nat} {f : Val} {args : List Val} {r : R Val}
    (h : applyS S M n f args = r) (hr : r ≠ .fuel) (hnm : n ≤ m) : applyS S M m f args = r :=
  ((eval_mono_all S M n).1 m f args hnm).eq h hr

theorem evalArgs_fuel_mono {n m : Nat} {as : List AST} {env : Env} {r : R (List Val)}
    (h : evalArgs S M n as env = r) (hr : r ≠ .fuel) (hnm : n ≤ m) : evalArgs S M m as env = r :=
  ((eval_mono_all S M n).2.2.1 m as env hnm).eq h hr

theorem evalList_fuel_mono {n m : Nat} {as : List AST} {env : Env} {r : R (List Val)}
    (h : evalList S M n as env = r) (hr : r ≠ .fuel) (hnm : n ≤ m) : evalList S M m as env = r :=
  ((eval_mono_all S M n).2.2.2.1 m as env hnm).eq h hr

theorem evalKVs_fuel_mono {n m : Nat} {as : List (String × AST)} {env : Env} {r : R (List (String × Val))}
    (h : evalKVs S M n as env = r) (hr : r ≠ .fuel) (hnm : n ≤ m) : evalKVs S M m as env = r :=
  ((eval_mono_all S M n).2.2.2.2.1 m as env hnm).eq h hr

theorem evalCases_fuel_mono {n m : Nat} {x : Val} {cs : List (AST × AST)} {d : AST} {env : Env} {r : R Val}
    (h : evalCases S M n x cs d env = r) (hr : r ≠ .fuel) (hnm : n ≤ m) : evalCases S M m x cs d env = r :=
  ((eval_mono_all S M n).2.2.2.2.2 m x cs d env hnm).eq h hr

theorem applyS_ApLe {n m : Nat} (hnm : n ≤ m) : ApLe (applyS S M n) (applyS S M m) :=
  fun f args => (eval_mono_all S M n).1 m f args hnm

/-- the top-level reference run (`runReference` turns a panic into an error) is monotone as well -/
theorem runReference_fuel_mono {n m : Nat} {a : AST} {argNames : List String} {args : List Val} {r : R Val}
    (h : runReference S M n a argNames args = r) (hr : r ≠ .fuel) (hnm : n ≤ m) :
    runReference S M m a argNames args = r := by
  unfold runReference at h ⊢
  cases he : eval S M n a (bindParams argNames args).reverse with
  | fuel => rw [he] at h; exact absurd h.symm hr
  | ok v => rw [eval_fuel_mono S M he (by simp) hnm]; rw [he] at h; exact h
  | err => rw [eval_fuel_mono S M he (by simp) hnm]; rw [he] at h; exact h
  | panic => rw [eval_fuel_mono S M he (by simp) hnm]; rw [he] at h; exact h
  | unmodelled => rw [eval_fuel_mono S M he (by simp) hnm]; rw [he] at h; exact h

end Sem

section Exec
variable (M : Methods)

theorem exec_mono_all : ∀ n : Nat,
    (∀ m f args, n ≤ m → Le (applyR M n f args) (applyR M m f args)) ∧
    (∀ m c st cs, n ≤ m → Le (exec M n c st cs) (exec M m c st cs)) ∧
    (∀ m as st cs, n ≤ m → Le (execArgs M n as st cs) (execArgs M m as st cs)) ∧
    (∀ m as st cs, n ≤ m → Le (execList M n as st cs) (execList M m as st cs)) ∧
    (∀ m as st cs, n ≤ m → Le (execKVs M n as st cs) (execKVs M m as st cs)) ∧
    (∀ m x cases d st cs, n ≤ m → Le (execCases M n x cases d st cs) (execCases M m x cases d st cs))
  | 0 => ⟨fun _ _ _ _ => Le.fuel _, fun _ _ _ _ _ => Le.fuel _, fun _ _ _ _ _ => Le.fuel _,
          fun _ _ _ _ _ => Le.fuel _, fun _ _ _ _ _ => Le.fuel _, fun _ _ _ _ _ _ _ => Le.fuel _⟩
  | n+1 => by
    obtain ⟨jAp, jE, jA, jL, jK, jC⟩ := exec_mono_all n
    refine ⟨fun m f args hm => ?_, fun m c st cs hm => ?_, fun m as st cs hm => ?_,
      fun m as st cs hm => ?_, fun m as st cs hm => ?_, fun m x cases d st cs hm => ?_⟩
    all_goals
      cases m with
      | zero => omega
      | succ m => ?_
    all_goals
      have ihAp : ApLe (applyR M n) (applyR M m) := fun f args => jAp m f args (by omega)
      have ihE := fun c st cs => jE m c st cs (by omega)
      have ihA := fun as st cs => jA m as st cs (by omega)
      have ihL := fun as st cs => jL m as st cs (by omega)
      have ihK := fun as st cs => jK m as st cs (by omega)
      have ihC := fun x cases d st cs => jC m x cases d st cs (by omega)
      have hnm : n ≤ m := by omega
      clear jAp jE jA jL jK jC
    · cases f <;> first | exact Le.refl _ | (simp only [applyR_rclos]; mono)
    · have hb := fun op x y => binop_mono ihAp n m op x y hnm
      have hf := fun l => force_mono ihAp n m l hnm
      have hs := fun name vs => callStatic_mono ihAp n m name vs hnm
      have hmb := fun name rv vs => methodBody_mono ihAp n m name rv vs hnm
      cases c with
      | const c => exact Le.refl _
      | stk i => exact Le.refl _
      | cs j => exact Le.refl _
      | letE v i => simp only [exec_letE]; mono
      | ifE c t e => simp only [exec_ifE]; mono
      | switchE v cases d => simp only [exec_switchE]; mono
      | tryE t c =>
        simp only [exec_tryE]
        have h := ihE t st cs
        cases hx : exec M n t st cs with
        | fuel => exact Le.fuel _
        | ok v => rw [hx] at h; rw [h.le (by simp)]; exact Le.refl _
        | err => rw [hx] at h; rw [h.le (by simp)]; dsimp only; mono
        | panic => rw [hx] at h; rw [h.le (by simp)]; dsimp only; mono
        | unmodelled => rw [hx] at h; rw [h.le (by simp)]; exact Le.refl _
      | unary op a => simp only [exec_unary]; mono
      | binop op a b => simp only [exec_binop]; mono
      | andE a b => simp only [exec_andE]; mono
      | orE a b => simp only [exec_orE]; mono
      | clos na body cap r => exact Le.refl _
      | listLit items => simp only [exec_listLit]; mono
      | index i l => simp only [exec_index]; mono
      | mapLit kvs => simp only [exec_mapLit]; mono
      | member m key => simp only [exec_member]; mono
      | callStatic name args => simp only [exec_callStatic]; mono
      | call f args => simp only [exec_call]; unfold execCallK; mono
      | method recv name args => simp only [exec_method]; unfold execMethodK; mono
    · cases as <;> first | exact Le.refl _ | (simp only [execArgs_cons]; mono)
    · cases as <;> first | exact Le.refl _ | (simp only [execList_cons]; mono)
    · rcases as with _ | ⟨⟨k, a⟩, rest⟩ <;> first | exact Le.refl _ | (simp only [execKVs_cons]; mono)
    · have he := fun a b => valEq_mono ihAp n m a b hnm
      rcases cases with _ | ⟨⟨c, r⟩, rest⟩
      · simp only [execCases_nil]; mono
      · simp only [execCases_cons]; mono

/-- **fuel monotonicity of the compiled semantics** -/
theorem exec_fuel_mono {n m : Nat} {c : Code} {st : Stack} {cs : List Val} {r : R (Val × List Val)}
    (h : exec M n c st cs = r) (hr : r ≠ .fuel) (hnm : n ≤ m) : exec M m c st cs = r :=
  ((exec_mono_all M n).2.1 m c st cs hnm).eq h hr

theorem applyR_fuel_mono {n m : Nat} {f : Val} {args : List Val} {r : R Val}
    (h : applyR M n f args = r) (hr : r ≠ .fuel) (hnm : n ≤ m) : applyR M m f args = r :=
  ((exec_mono_all M n).1 m f args hnm).eq h hr

/-- `Func.Eval` of a generated function -/
theorem runCompiled_fuel_mono {n m : Nat} {code : Code} {args : List Val} {r : R Val}
    (h : runCompiled M n code args = r) (hr : r ≠ .fuel) (hnm : n ≤ m) :
    runCompiled M m code args = r := by
  unfold runCompiled at h ⊢
  cases he : exec M n code (pushAll ⟨[], 0, 0⟩ args) [] with
  | fuel => rw [he] at h; exact absurd h.symm hr
  | ok v => rw [exec_fuel_mono M he (by simp) hnm]; rw [he] at h; exact h
  | err => rw [exec_fuel_mono M he (by simp) hnm]; rw [he] at h; exact h
  | panic => rw [exec_fuel_mono M he (by simp) hnm]; rw [he] at h; exact h
  | unmodelled => rw [exec_fuel_mono M he (by simp) hnm]; rw [he] at h; exact h

end Exec

end P2.Lang
