import P2.Spec.LibSpec
/-! # C07 — laws of the eager specification `P2.LibSpec`

The laws that make the spec "mathematically evident" and guard it against being wrong itself.
Each holds for all inputs. -/
namespace P2.LibSpec
open P2.Lang

/-! ## `mapR` is `List.map` -/

/-- element-wise relation of two lists of equal length -/
inductive All2 {α β : Type} (r : α → β → Prop) : List α → List β → Prop
  | nil : All2 r [] []
  | cons {a b as bs} : r a b → All2 r as bs → All2 r (a :: as) (b :: bs)

theorem All2.length_eq {α β : Type} {r : α → β → Prop} : ∀ {xs : List α} {ys : List β}, All2 r xs ys → xs.length = ys.length
  | _, _, .nil => rfl
  | _, _, .cons _ h => by simp [h.length_eq]

theorem mapR_ok {α : Type} (g : α → R Val) : ∀ (xs : List α) (t : Option Stop),
    (mapR g xs t).stop = none →
    All2 (fun x y => g x = .ok y) xs (mapR g xs t).items ∧ t = none
  | [], t, h => ⟨.nil, h⟩
  | a :: as, t, h => by
    simp only [mapR] at h ⊢
    cases hg : g a with
    | ok y =>
      rw [hg] at h
      simp only [Str.cons] at h ⊢
      have ih := mapR_ok g as t h
      exact ⟨.cons hg ih.1, ih.2⟩
    | err => rw [hg] at h; cases h
    | panic => rw [hg] at h; cases h
    | fuel => rw [hg] at h; cases h
    | unmodelled => rw [hg] at h; cases h

theorem mapR_length {α : Type} (g : α → R Val) (xs : List α) (t : Option Stop)
    (h : (mapR g xs t).stop = none) : (mapR g xs t).items.length = xs.length :=
  ((mapR_ok g xs t h).1.length_eq).symm

/-- with a callback that succeeds on every element, `mapR` is literally `List.map` -/
theorem mapR_eq_map {α : Type} (g : α → R Val) (h : α → Val) : ∀ (xs : List α) (t : Option Stop),
    (∀ x, x ∈ xs → g x = .ok (h x)) → mapR g xs t = ⟨xs.map h, t⟩
  | [], _, _ => rfl
  | a :: as, t, hg => by
    simp only [mapR, hg a (List.mem_cons_self), List.map_cons]
    rw [mapR_eq_map g h as t (fun x hx => hg x (List.mem_cons_of_mem _ hx))]
    rfl

/-- `size (map f l) = size l` (whenever the mapped list has no failure) -/
theorem size_map (ap : Apply) (f : Val) (s : Str) (h : (mapS ap f s).stop = none) :
    (mapS ap f s).items.length = s.items.length := mapR_length _ _ _ h

/-- `l.map(f)` is `List.map` of the callback's results -/
theorem mapS_eq_map (ap : Apply) (f : Val) (h : Val → Val) (s : Str)
    (hf : ∀ x, x ∈ s.items → ap f [x] = .ok (h x)) : mapS ap f s = ⟨s.items.map h, s.stop⟩ :=
  mapR_eq_map _ h _ _ hf

/-- the mapped list never has more elements than the source -/
theorem mapR_length_le {α : Type} (g : α → R Val) : ∀ (xs : List α) (t : Option Stop),
    (mapR g xs t).items.length ≤ xs.length
  | [], _ => Nat.le_refl _
  | a :: as, t => by
    simp only [mapR]
    cases g a with
    | ok y => simp only [Str.cons, List.length_cons]; exact Nat.succ_le_succ (mapR_length_le g as t)
    | _ => simp [Str.fail]

/-! ## `filterR` is `List.filter` -/

theorem filterR_eq_filter (p : Val → R Bool) (q : Val → Bool) : ∀ (xs : List Val) (t : Option Stop),
    (∀ x, x ∈ xs → p x = .ok (q x)) → filterR p xs t = ⟨xs.filter q, t⟩
  | [], _, _ => rfl
  | x :: xs, t, hp => by
    have ih := filterR_eq_filter p q xs t (fun y hy => hp y (List.mem_cons_of_mem _ hy))
    simp only [filterR, hp x (List.mem_cons_self), List.filter_cons]
    cases q x <;> simp [ih, Str.cons]

/-! ## `top n l ++ skip n l = l` -/

theorem top_append_skip (n : Int) (s : Str) (hn : 0 ≤ n) :
    (topS n s).items ++ (skipS n s).items = s.items := by
  have h0 : ¬ n < 0 := by omega
  simp only [topS, skipS, h0, if_false]
  split
  · exact List.take_append_drop _ _
  · rename_i h
    have : s.items.length ≤ n.toNat := by omega
    rw [List.drop_eq_nil_of_le this, List.append_nil]

theorem top_length (n : Int) (s : Str) (hn : 0 ≤ n) : (topS n s).items.length = min n.toNat s.items.length := by
  have h0 : ¬ n < 0 := by omega
  simp only [topS, h0, if_false]
  split
  · simp
  · rename_i h; omega

theorem skip_length (n : Int) (s : Str) : (skipS n s).items.length = s.items.length - n.toNat := by
  simp [skipS]

/-! ## `combine`, `combine3`, `combineN` -/

/-- `|combine f l| = |l| − 1` -/
theorem size_combine (ap : Apply) (f : Val) (s : Str) (h : (combineS ap f s).stop = none) :
    (combineS ap f s).items.length = s.items.length - 1 := by
  rw [combineS] at h ⊢
  rw [mapR_length _ _ _ h, List.length_zip, List.length_tail]
  omega

theorem triples_length : ∀ (xs : List Val), (triples xs).length = xs.length - 2
  | [] => rfl
  | [_] => rfl
  | [_, _] => rfl
  | a :: b :: c :: rest => by
    simp only [triples, List.length_cons, triples_length (b :: c :: rest)]
    omega

/-- `|combine3 f l| = |l| − 2` -/
theorem size_combine3 (ap : Apply) (f : Val) (s : Str) (h : (combine3S ap f s).stop = none) :
    (combine3S ap f s).items.length = s.items.length - 2 := by
  rw [combine3S] at h ⊢
  rw [mapR_length _ _ _ h, triples_length]

theorem windows_length (n : Nat) (hn : 1 ≤ n) : ∀ (xs : List Val), (windows n xs).length = xs.length + 1 - n
  | [] => by simp [windows]; omega
  | x :: xs => by
    simp only [windows]
    split
    · rename_i h
      simp only [List.length_cons, windows_length n hn xs] at h ⊢
      omega
    · rename_i h
      simp only [List.length_cons, List.length_nil] at h ⊢
      omega

/-- every window has exactly `n` elements -/
theorem windows_mem_length (n : Nat) : ∀ (xs : List Val) (w : List Val), w ∈ windows n xs → w.length = n
  | [], _, h => by simp [windows] at h
  | x :: xs, w, h => by
    simp only [windows] at h
    split at h
    · rename_i hle
      rcases List.mem_cons.mp h with rfl | h'
      · simp only [List.length_take]; omega
      · exact windows_mem_length n xs w h'
    · cases h

/-- the `i`-th window is the `n` elements from position `i` on, in element order (oldest first) -/
theorem windows_getElem? (n : Nat) (hn : 1 ≤ n) : ∀ (xs : List Val) (i : Nat),
    (windows n xs)[i]? = if i + n ≤ xs.length then some ((xs.drop i).take n) else none
  | [], i => by
    have : ¬ (i + n ≤ 0) := by omega
    simp [windows, this]
  | x :: xs, 0 => by
    simp only [windows, Nat.zero_add, List.drop_zero]
    split <;> simp
  | x :: xs, i+1 => by
    simp only [windows]
    split
    · rename_i h
      simp only [List.getElem?_cons_succ, windows_getElem? n hn xs i, List.length_cons, List.drop_succ_cons]
      have : (i + n ≤ xs.length) ↔ (i + 1 + n ≤ xs.length + 1) := by omega
      simp only [this]
    · rename_i h
      simp only [List.length_cons] at h ⊢
      have : ¬ (i + 1 + n ≤ xs.length + 1) := by omega
      simp [this]

/-- `|combineN n f l| = |l| − n + 1` (0 when the list is shorter than `n`) -/
theorem size_combineN (ap : Apply) (n : Nat) (f : Val) (s : Str) (hn : 1 ≤ n)
    (h : (combineNS ap n f s).stop = none) :
    (combineNS ap n f s).items.length = s.items.length + 1 - n := by
  rw [combineNS] at h ⊢
  rw [mapR_length _ _ _ h, windows_length n hn]

/-! ## `cross` -/

theorem pairsOf_length (as bs : List Val) : (pairsOf as bs).length = as.length * bs.length := by
  induction as with
  | nil => simp [pairsOf]
  | cons a as ih =>
    simp only [pairsOf, List.flatMap_cons, List.length_append, List.length_map, List.length_cons] at ih ⊢
    rw [ih, Nat.succ_mul]; omega

/-- `|cross| = |a|·|b|` -/
theorem size_cross (ap : Apply) (f : Val) (a b : Str) (h : (crossS ap f a b).stop = none) :
    (crossS ap f a b).items.length = a.items.length * b.items.length := by
  unfold crossS at h ⊢
  cases ha : a.items with
  | nil => simp
  | cons x xs =>
    cases hb : b.stop with
    | none =>
      simp only [ha, hb] at h ⊢
      rw [mapR_length _ _ _ h, pairsOf_length]
    | some e =>
      simp only [ha, hb] at h
      have := (mapR_ok _ _ _ h).2
      cases this


/-! ## `iir` is a scan: its last element is the fold -/

theorem lastS_cons (y : Val) (s : Str) :
    lastS (s.cons y) = (match s.items, s.stop with
      | [], none => .ok y
      | _, _ => lastS s) := by
  obtain ⟨items, stop⟩ := s
  cases stop with
  | some e => cases items <;> cases e <;> rfl
  | none =>
    cases items with
    | nil => rfl
    | cons a as => simp [lastS, Str.cons, Str.all, List.getLast?_cons_cons]

theorem scanFrom_length (step : Val → Val → Val → R Val) : ∀ (xs : List Val) (li lv : Val) (t : Option Stop),
    (scanFrom step li lv xs t).stop = none → (scanFrom step li lv xs t).items.length = xs.length
  | [], _, _, _, _ => rfl
  | x :: xs, li, lv, t, h => by
    simp only [scanFrom] at h ⊢
    cases hs : step x li lv with
    | ok y =>
      rw [hs] at h
      simp only [Str.cons, List.length_cons] at h ⊢
      rw [scanFrom_length step xs x y t h]
    | err => rw [hs] at h; cases h
    | panic => rw [hs] at h; cases h
    | fuel => rw [hs] at h; cases h
    | unmodelled => rw [hs] at h; cases h

/-- `|iir| = |l|` -/
theorem size_iir (ap : Apply) (init f : Val) (s : Str) (h : (iirS ap init f s).stop = none) :
    (iirS ap init f s).items.length = s.items.length := by
  unfold iirS at h ⊢
  cases hi : s.items with
  | nil => rfl
  | cons x xs =>
    simp only [hi, scanR] at h ⊢
    cases hs : call1 ap init x with
    | ok y =>
      rw [hs] at h
      simp only [Str.cons, List.length_cons] at h ⊢
      rw [scanFrom_length _ xs x y _ h]
    | err => rw [hs] at h; cases h
    | panic => rw [hs] at h; cases h
    | fuel => rw [hs] at h; cases h
    | unmodelled => rw [hs] at h; cases h

theorem last_scanFrom (g : Val → Val → R Val) : ∀ (xs : List Val) (li y : Val),
    lastS ((scanFrom (fun x _ lv => g lv x) li y xs none).cons y) = foldR g y xs none
  | [], _, _ => rfl
  | x :: xs, li, y => by
    rw [lastS_cons]
    simp only [scanFrom, foldR_cons']
    cases hs : g y x with
    | ok y' =>
      simp only [R.bind_ok]
      rw [← last_scanFrom g xs x y']
      rfl
    | err => rfl
    | panic => rfl
    | fuel => rfl
    | unmodelled => rfl
where
  foldR_cons' : ∀ (acc x : Val) (xs : List Val), foldR g acc (x :: xs) none = (g acc x >>= fun a => foldR g a xs none) :=
    fun _ _ _ => rfl

/-- `iir` is a scan: `last (l.iir(init, f)) = foldl (fun acc e => f(e, acc)) (init x₀) rest` -/
theorem iir_is_scan (ap : Apply) (init f : Val) (x : Val) (xs : List Val) :
    lastS (iirS ap init f ⟨x :: xs, none⟩) =
      (do let y ← ap init [x]; foldR (fun acc e => ap f [e, acc]) y xs none) := by
  simp only [iirS, scanR, call1]
  cases hi : ap init [x] with
  | ok y => simp only [R.bind_ok]; exact last_scanFrom (fun acc e => ap f [e, acc]) xs x y
  | err => rfl
  | panic => rfl
  | fuel => rfl
  | unmodelled => rfl

/-! ## `reverse`, `append`, `set` -/

theorem listV_inj {xs ys : List Val} (h : listV xs = listV ys) : xs = ys := by
  simp only [listV] at h
  injection h with h; injection h

/-- `reverse (reverse l) = l` -/
theorem reverse_reverse (xs : List Val) :
    reverseS (.ofList xs) = .ok (listV xs.reverse) ∧ reverseS (.ofList xs.reverse) = .ok (listV xs) := by
  simp [reverseS, Str.ofList, Str.all]

/-- `|l.append(x)| = |l| + 1`, the new element is the last one -/
theorem append_law (xs : List Val) (x : Val) :
    ∃ ys, appendItemS x (.ofList xs) = .ok (listV ys) ∧ ys.length = xs.length + 1 ∧ ys.getLast? = some x ∧ ys.take xs.length = xs :=
  ⟨xs ++ [x], rfl, by simp, by simp, by simp⟩

/-- `l.set(i, x)`: same length, element `i` replaced, all others unchanged; out of range: error -/
theorem set_law (xs : List Val) (i : Int) (x : Val) :
    (0 ≤ i ∧ i < xs.length →
      ∃ ys, setS i x (.ofList xs) = .ok (listV ys) ∧ ys.length = xs.length ∧ ys[i.toNat]? = some x ∧
        ∀ j, j ≠ i.toNat → ys[j]? = xs[j]?) ∧
    (i < 0 ∨ xs.length ≤ i → setS i x (.ofList xs) = .err) := by
  constructor
  · intro ⟨h0, h1⟩
    have hc : ¬ (i < 0 ∨ i ≥ xs.length) := by omega
    refine ⟨xs.set i.toNat x, ?_, by simp, ?_, ?_⟩
    · simp [setS, Str.ofList, Str.all, hc]
    · have : i.toNat < xs.length := by omega
      simp [this]
    · intro j hj
      rw [List.getElem?_set_ne (Ne.symm hj)]
  · intro h
    have hc : (i < 0 ∨ i ≥ xs.length) := by omega
    simp [setS, Str.ofList, Str.all, hc]


/-! ## order-related laws: `merge`, `order*`

`lt` is the pure comparison the callback computes. `Sorted lt l`: no element is greater than a
later one. A strict weak order on a set of values `P`: asymmetric, and "not greater" is
transitive. -/

def Sorted {α : Type} (lt : α → α → Bool) (l : List α) : Prop := l.Pairwise (fun a b => lt b a = false)

structure StrictWeak {α : Type} (P : α → Prop) (lt : α → α → Bool) : Prop where
  asymm : ∀ a b, P a → P b → lt a b = true → lt b a = false
  le_trans : ∀ a b c, P a → P b → P c → lt b a = false → lt c b = false → lt c a = false

/-- `merge` yields a permutation of the two inputs, whatever the comparison answers -/
theorem mergeL_perm (ltR : Val → Val → R Bool) : ∀ (n : Nat) (as bs : List Val),
    (mergeL ltR n as none bs none).stop = none →
    (mergeL ltR n as none bs none).items.Perm (as ++ bs)
  | 0, _, _, h => by cases h
  | n+1, [], bs, _ => by simp [mergeL]
  | n+1, a :: as, [], _ => by simp [mergeL]
  | n+1, a :: as, b :: bs, h => by
    simp only [mergeL] at h ⊢
    cases hl : ltR a b with
    | ok c =>
      rw [hl] at h
      cases c with
      | true =>
        simp only [Str.cons] at h ⊢
        exact (mergeL_perm ltR n as (b :: bs) h).cons a
      | false =>
        simp only [Str.cons] at h ⊢
        have ih := mergeL_perm ltR n (a :: as) bs h
        exact ((ih.cons b).trans (List.perm_middle.symm))
    | err => rw [hl] at h; cases h
    | panic => rw [hl] at h; cases h
    | fuel => rw [hl] at h; cases h
    | unmodelled => rw [hl] at h; cases h

/-- with a total comparison and enough steps `merge` never fails -/
theorem mergeL_total (ltR : Val → Val → R Bool) (lt : Val → Val → Bool) (hlt : ∀ a b, ltR a b = .ok (lt a b)) :
    ∀ (n : Nat) (as bs : List Val), as.length + bs.length < n → (mergeL ltR n as none bs none).stop = none
  | 0, _, _, h => by omega
  | n+1, [], bs, _ => by simp [mergeL]
  | n+1, a :: as, [], _ => by simp [mergeL]
  | n+1, a :: as, b :: bs, h => by
    simp only [mergeL, hlt]
    simp only [List.length_cons] at h
    cases lt a b with
    | true => simp only [Str.cons]; exact mergeL_total ltR lt hlt n as (b :: bs) (by simp only [List.length_cons]; omega)
    | false => simp only [Str.cons]; exact mergeL_total ltR lt hlt n (a :: as) bs (by simp only [List.length_cons]; omega)

theorem mergeL_sorted (ltR : Val → Val → R Bool) (lt : Val → Val → Bool) (hlt : ∀ a b, ltR a b = .ok (lt a b))
    (P : Val → Prop) (sw : StrictWeak P lt) :
    ∀ (n : Nat) (as bs : List Val), (∀ x, x ∈ as → P x) → (∀ x, x ∈ bs → P x) →
      Sorted lt as → Sorted lt bs → (mergeL ltR n as none bs none).stop = none →
      Sorted lt (mergeL ltR n as none bs none).items
  | 0, _, _, _, _, _, _, h => by cases h
  | n+1, [], bs, _, _, _, hb, _ => by simpa [mergeL] using hb
  | n+1, a :: as, [], _, _, ha, _, _ => by simpa [mergeL] using ha
  | n+1, a :: as, b :: bs, pa, pb, ha, hb, h => by
    have hperm := mergeL_perm ltR (n+1) (a :: as) (b :: bs) h
    simp only [mergeL, hlt] at h hperm ⊢
    have Pa : P a := pa a List.mem_cons_self
    have Pb : P b := pb b List.mem_cons_self
    cases hc : lt a b with
    | true =>
      rw [hc] at h hperm
      simp only [Str.cons] at h hperm ⊢
      have ih := mergeL_sorted ltR lt hlt P sw n as (b :: bs)
        (fun x hx => pa x (List.mem_cons_of_mem _ hx)) pb (List.Pairwise.of_cons ha) hb h
      refine List.Pairwise.cons ?_ ih
      intro y hy
      have hy' : y ∈ as ++ b :: bs := (mergeL_perm ltR n as (b :: bs) h).mem_iff.mp hy
      rcases List.mem_append.mp hy' with hya | hyb
      · exact List.rel_of_pairwise_cons ha hya
      · rcases List.mem_cons.mp hyb with rfl | hyb'
        · exact sw.asymm a y Pa Pb hc
        · exact sw.le_trans a b y Pa Pb (pb y hyb) (sw.asymm a b Pa Pb hc) (List.rel_of_pairwise_cons hb hyb')
    | false =>
      rw [hc] at h hperm
      simp only [Str.cons] at h hperm ⊢
      have ih := mergeL_sorted ltR lt hlt P sw n (a :: as) bs pa
        (fun x hx => pb x (List.mem_cons_of_mem _ hx)) ha (List.Pairwise.of_cons hb) h
      refine List.Pairwise.cons ?_ ih
      intro y hy
      have hy' : y ∈ (a :: as) ++ bs := (mergeL_perm ltR n (a :: as) bs h).mem_iff.mp hy
      rcases List.mem_append.mp hy' with hya | hyb
      · rcases List.mem_cons.mp hya with rfl | hya'
        · exact hc
        · exact sw.le_trans b a y Pb Pa (pa y hya) hc (List.rel_of_pairwise_cons ha hya')
      · exact List.rel_of_pairwise_cons hb hyb

/-- merge of sorted inputs is a sorted permutation -/
theorem merge_sorted_perm (ap : Apply) (f : Val) (lt : Val → Val → Bool) (as bs : List Val)
    (hlt : ∀ a b, ap f [a, b] = .ok (.bool (lt a b)))
    (P : Val → Prop) (sw : StrictWeak P lt) (pa : ∀ x, x ∈ as → P x) (pb : ∀ x, x ∈ bs → P x)
    (ha : Sorted lt as) (hb : Sorted lt bs) :
    ∃ ms, mergeS ap f (.ofList as) (.ofList bs) = ⟨ms, none⟩ ∧ ms.Perm (as ++ bs) ∧ Sorted lt ms := by
  have hR : ∀ a b, toBoolR (ap f [a, b]) = .ok (lt a b) := fun a b => by rw [hlt]; rfl
  have hstop := mergeL_total _ lt hR (as.length + bs.length + 1) as bs (by omega)
  refine ⟨(mergeS ap f (.ofList as) (.ofList bs)).items, ?_, ?_, ?_⟩
  · simp only [mergeS, Str.ofList] at hstop ⊢
    generalize mergeL _ _ as none bs none = m at hstop
    cases m; simp only at hstop; subst hstop; rfl
  · exact mergeL_perm _ _ as bs hstop
  · exact mergeL_sorted _ lt hR P sw _ as bs pa pb ha hb hstop

/-! ### insertion sort: permutation and sortedness -/

theorem insertR_perm (ltR : Val → Val → R Bool) (x : Val × Val) : ∀ (ys r : List (Val × Val)),
    insertR ltR x ys = .ok r → r.Perm (x :: ys)
  | [], r, h => by simp only [insertR] at h; cases h; exact List.Perm.refl _
  | y :: ys, r, h => by
    simp only [insertR] at h
    cases hl : ltR y.1 x.1 with
    | ok c =>
      rw [hl] at h
      cases c with
      | true =>
        simp only [R.bind_ok, if_true] at h
        cases hi : insertR ltR x ys with
        | ok r' =>
          rw [hi] at h; cases h
          exact ((insertR_perm ltR x ys r' hi).cons y).trans (List.Perm.swap x y ys)
        | err => rw [hi] at h; cases h
        | panic => rw [hi] at h; cases h
        | fuel => rw [hi] at h; cases h
        | unmodelled => rw [hi] at h; cases h
      | false =>
        simp only [R.bind_ok, Bool.false_eq_true, if_false] at h
        cases h; exact List.Perm.refl _
    | err => rw [hl] at h; cases h
    | panic => rw [hl] at h; cases h
    | fuel => rw [hl] at h; cases h
    | unmodelled => rw [hl] at h; cases h

/-- the sort result is a permutation of the input, whatever the comparison answers -/
theorem isortR_perm (ltR : Val → Val → R Bool) : ∀ (xs r : List (Val × Val)),
    isortR ltR xs = .ok r → r.Perm xs
  | [], r, h => by simp only [isortR] at h; cases h; exact List.Perm.refl _
  | x :: xs, r, h => by
    simp only [isortR] at h
    cases hs : isortR ltR xs with
    | ok s' =>
      rw [hs] at h
      simp only [R.bind_ok] at h
      exact (insertR_perm ltR x s' r h).trans ((isortR_perm ltR xs s' hs).cons x)
    | err => rw [hs] at h; cases h
    | panic => rw [hs] at h; cases h
    | fuel => rw [hs] at h; cases h
    | unmodelled => rw [hs] at h; cases h

/-- sortedness of (key, item) pairs by key -/
def SortedK (lt : Val → Val → Bool) (l : List (Val × Val)) : Prop := l.Pairwise (fun p q => lt q.1 p.1 = false)

theorem insertR_sorted (ltR : Val → Val → R Bool) (lt : Val → Val → Bool)
    (P : Val → Prop) (hlt : ∀ a b, P a → P b → ltR a b = .ok (lt a b)) (sw : StrictWeak P lt) (x : Val × Val) (px : P x.1) :
    ∀ (ys r : List (Val × Val)), (∀ y, y ∈ ys → P y.1) → SortedK lt ys → insertR ltR x ys = .ok r → SortedK lt r
  | [], r, _, _, h => by simp only [insertR] at h; cases h; exact List.pairwise_singleton _ _
  | y :: ys, r, py, hs, h => by
    have Py : P y.1 := py y List.mem_cons_self
    simp only [insertR, hlt y.1 x.1 Py px, R.bind_ok] at h
    cases hc : lt y.1 x.1 with
    | true =>
      rw [hc] at h
      simp only [if_true] at h
      cases hi : insertR ltR x ys with
      | ok r' =>
        rw [hi] at h; cases h
        have ih := insertR_sorted ltR lt P hlt sw x px ys r' (fun z hz => py z (List.mem_cons_of_mem _ hz))
          (List.Pairwise.of_cons hs) hi
        refine List.Pairwise.cons ?_ ih
        intro z hz
        have hz' : z ∈ x :: ys := (insertR_perm ltR x ys r' hi).mem_iff.mp hz
        rcases List.mem_cons.mp hz' with rfl | hzy
        · exact sw.asymm y.1 z.1 Py px hc
        · exact List.rel_of_pairwise_cons hs hzy
      | err => rw [hi] at h; cases h
      | panic => rw [hi] at h; cases h
      | fuel => rw [hi] at h; cases h
      | unmodelled => rw [hi] at h; cases h
    | false =>
      rw [hc] at h
      simp only [Bool.false_eq_true, if_false] at h
      cases h
      refine List.Pairwise.cons ?_ hs
      intro z hz
      rcases List.mem_cons.mp hz with rfl | hzy
      · exact hc
      · exact sw.le_trans x.1 y.1 z.1 px Py (py z hz) hc (List.rel_of_pairwise_cons hs hzy)

/-- the sort result is sorted by key whenever the comparison is a strict weak order on the keys present -/
theorem isortR_sorted (ltR : Val → Val → R Bool) (lt : Val → Val → Bool)
    (P : Val → Prop) (hlt : ∀ a b, P a → P b → ltR a b = .ok (lt a b)) (sw : StrictWeak P lt) :
    ∀ (xs r : List (Val × Val)), (∀ y, y ∈ xs → P y.1) → isortR ltR xs = .ok r → SortedK lt r
  | [], r, _, h => by simp only [isortR] at h; cases h; exact List.Pairwise.nil
  | x :: xs, r, px, h => by
    simp only [isortR] at h
    cases hs : isortR ltR xs with
    | ok s' =>
      rw [hs] at h
      simp only [R.bind_ok] at h
      have ih := isortR_sorted ltR lt P hlt sw xs s' (fun y hy => px y (List.mem_cons_of_mem _ hy)) hs
      have hp := isortR_perm ltR xs s' hs
      exact insertR_sorted ltR lt P hlt sw x (px x List.mem_cons_self) s' r
        (fun y hy => px y (List.mem_cons_of_mem _ (hp.mem_iff.mp hy))) ih h
    | err => rw [hs] at h; cases h
    | panic => rw [hs] at h; cases h
    | fuel => rw [hs] at h; cases h
    | unmodelled => rw [hs] at h; cases h

theorem keyedR_spec (key : Val → R Val) : ∀ (xs : List Val) (kx : List (Val × Val)), keyedR key xs = .ok kx →
    kx.map (·.2) = xs ∧ ∀ p, p ∈ kx → key p.2 = .ok p.1
  | [], kx, h => by simp only [keyedR] at h; cases h; exact ⟨rfl, fun _ hp => by cases hp⟩
  | x :: xs, kx, h => by
    simp only [keyedR] at h
    cases hk : key x with
    | ok k =>
      rw [hk] at h
      simp only [R.bind_ok] at h
      cases hr : keyedR key xs with
      | ok r =>
        rw [hr] at h; cases h
        obtain ⟨h1, h2⟩ := keyedR_spec key xs r hr
        refine ⟨by simp [h1], fun p hp => ?_⟩
        rcases List.mem_cons.mp hp with rfl | hp'
        · exact hk
        · exact h2 p hp'
      | err => rw [hr] at h; cases h
      | panic => rw [hr] at h; cases h
      | fuel => rw [hr] at h; cases h
      | unmodelled => rw [hr] at h; cases h
    | err => rw [hk] at h; cases h
    | panic => rw [hk] at h; cases h
    | fuel => rw [hk] at h; cases h
    | unmodelled => rw [hk] at h; cases h

/-- `l.order(f)` / `l.orderRev(f)`: the result is a permutation of the list; every pair carries the
key of its item; and the keys are in (reverse) order whenever `<` is a strict weak order on the
keys present (`lt` = what `valLess` answers on them) -/
theorem order_sorted_perm (ap : Apply) (rev : Bool) (f : Val) (xs : List Val) (r : List (Val × Val))
    (h : orderS ap rev f (.ofList xs) = .ok r) :
    (r.map (·.2)).Perm xs ∧
    (2 ≤ xs.length → ∀ p, p ∈ r → ap f [p.2] = .ok p.1) ∧
    (∀ (lt : Val → Val → Bool) (P : Val → Prop), (∀ p, p ∈ r → P p.1) →
      (∀ a b, P a → P b → valLess a b = .ok (lt a b)) →
      StrictWeak P lt → SortedK (fun a b => if rev then lt b a else lt a b) r) := by
  simp only [orderS, Str.ofList, Str.all, R.bind_ok] at h
  by_cases hlen : xs.length ≤ 1
  · simp only [hlen, if_true] at h
    cases h
    refine ⟨by simp [List.map_map, Function.comp_def], fun h2 => by omega, fun lt P _ _ _ => ?_⟩
    match xs, hlen with
    | [], _ => exact List.Pairwise.nil
    | [x], _ => exact List.pairwise_singleton _ _
  · simp only [hlen, if_false] at h
    cases hk : keyedR (call1 ap f) xs with
    | ok kx =>
      rw [hk] at h
      simp only [R.bind_ok] at h
      obtain ⟨h1, h2⟩ := keyedR_spec _ xs kx hk
      have hp := isortR_perm _ kx r h
      refine ⟨h1 ▸ hp.map _, fun _ p hp' => h2 p (hp.mem_iff.mp hp'), fun lt P hP hlt sw => ?_⟩
      have hPk : ∀ y, y ∈ kx → P y.1 := fun y hy => hP y (hp.mem_iff.mpr hy)
      have sw' : StrictWeak P (fun a b => if rev then lt b a else lt a b) := by
        cases rev with
        | false => simpa using sw
        | true =>
          exact ⟨fun a b pa pb hab => by simpa using sw.asymm b a pb pa (by simpa using hab),
            fun a b c pa pb pc h1 h2 => by
              simp only [if_true] at h1 h2 ⊢
              exact sw.le_trans c b a pc pb pa h2 h1⟩
      refine isortR_sorted _ _ P (fun a b pa pb => ?_) sw' kx r hPk h
      cases rev with
      | false => simpa using hlt a b pa pb
      | true => simpa using hlt b a pb pa
    | err => rw [hk] at h; cases h
    | panic => rw [hk] at h; cases h
    | fuel => rw [hk] at h; cases h
    | unmodelled => rw [hk] at h; cases h


/-- `l.orderLess(less)`: a permutation of the list, sorted whenever the callback computes a strict
weak order on the elements -/
theorem orderLess_sorted_perm (ap : Apply) (f : Val) (xs : List Val) (r : List (Val × Val))
    (h : orderLessS ap f (.ofList xs) = .ok r) :
    (r.map (·.2)).Perm xs ∧ (∀ p, p ∈ r → p.1 = p.2) ∧
    (∀ (lt : Val → Val → Bool) (P : Val → Prop), (∀ x, x ∈ xs → P x) →
      (∀ a b, P a → P b → ap f [a, b] = .ok (.bool (lt a b))) → StrictWeak P lt → SortedK lt r) := by
  simp only [orderLessS, Str.ofList, Str.all, R.bind_ok] at h
  have hp := isortR_perm _ _ r h
  refine ⟨?_, fun p hp' => ?_, fun lt P hP hlt sw => ?_⟩
  · have := hp.map (·.2)
    simpa [List.map_map, Function.comp_def] using this
  · have := hp.mem_iff.mp hp'
    simp only [List.mem_map] at this
    obtain ⟨x, _, rfl⟩ := this
    rfl
  · refine isortR_sorted _ lt P (fun a b pa pb => by rw [hlt a b pa pb]; rfl) sw _ r (fun y hy => ?_) h
    simp only [List.mem_map] at hy
    obtain ⟨x, hx, rfl⟩ := hy
    exact hP x hx


/-! ## `groupBy*`, `unique*`: a partition by key -/

/-- `v` belongs to the group with key `k`: its key is `k` itself (the element that opened the
group) or the equality test of the group key against its key answered `true` -/
def HasKey (keyOf : Val → R Val) (eq : Val → Val → R Bool) (k v : Val) : Prop :=
  ∃ key, keyOf v = .ok key ∧ (key = k ∨ eq k key = .ok true)

abbrev Groups := List (Val × List Val)

theorem addToGroups_spec (eq : Val → Val → R Bool) (key x : Val) : ∀ (gs gs' : Groups),
    addToGroups eq key x gs = .ok gs' →
    (∃ pre k' vs post, gs = pre ++ (k', vs) :: post ∧ gs' = pre ++ (k', vs ++ [x]) :: post ∧
        eq k' key = .ok true) ∨
    (gs' = gs ++ [(key, [x])] ∧ ∀ g, g ∈ gs → eq g.1 key = .ok false)
  | [], gs', h => by
    simp only [addToGroups] at h; cases h
    exact .inr ⟨rfl, fun _ hg => by cases hg⟩
  | (k', vs) :: rest, gs', h => by
    simp only [addToGroups] at h
    cases he : eq k' key with
    | ok b =>
      rw [he] at h
      cases b with
      | true =>
        simp only [R.bind_ok, if_true] at h; cases h
        exact .inl ⟨[], k', vs, rest, rfl, rfl, he⟩
      | false =>
        simp only [R.bind_ok, Bool.false_eq_true, if_false] at h
        cases hr : addToGroups eq key x rest with
        | ok r =>
          rw [hr] at h; cases h
          rcases addToGroups_spec eq key x rest r hr with ⟨pre, k'', vs', post, h1, h2, h3⟩ | ⟨h1, h2⟩
          · exact .inl ⟨(k', vs) :: pre, k'', vs', post, by simp [h1], by simp [h2], h3⟩
          · refine .inr ⟨by simp [h1], fun g hg => ?_⟩
            rcases List.mem_cons.mp hg with rfl | hg'
            · exact he
            · exact h2 g hg'
        | err => rw [hr] at h; cases h
        | panic => rw [hr] at h; cases h
        | fuel => rw [hr] at h; cases h
        | unmodelled => rw [hr] at h; cases h
    | err => rw [he] at h; cases h
    | panic => rw [he] at h; cases h
    | fuel => rw [he] at h; cases h
    | unmodelled => rw [he] at h; cases h

/-- invariant of grouping after the prefix `pre` of the input has been distributed -/
structure GroupInv (keyOf : Val → R Val) (eq : Val → Val → R Bool) (pre : List Val) (gs : Groups) : Prop where
  perm : (gs.flatMap (·.2)).Perm pre
  keys : (gs.map (·.1)).Pairwise (fun a b => eq a b = .ok false)
  member : ∀ g, g ∈ gs → ∀ v, v ∈ g.2 → HasKey keyOf eq g.1 v
  order : ∀ g, g ∈ gs → g.2.Sublist pre
  nonempty : ∀ g, g ∈ gs → g.2 ≠ []

theorem GroupInv.step {keyOf : Val → R Val} {eq : Val → Val → R Bool} {pre : List Val} {gs gs' : Groups}
    {x key : Val} (inv : GroupInv keyOf eq pre gs) (hk : keyOf x = .ok key)
    (h : addToGroups eq key x gs = .ok gs') : GroupInv keyOf eq (pre ++ [x]) gs' := by
  rcases addToGroups_spec eq key x gs gs' h with ⟨p, k', vs, post, h1, h2, h3⟩ | ⟨h1, h2⟩
  · subst h1 h2
    refine ⟨?_, ?_, ?_, ?_, ?_⟩
    · have hp := inv.perm
      simp only [List.flatMap_append, List.flatMap_cons] at hp ⊢
      have e1 : ((vs ++ [x]) ++ List.flatMap (·.2) post).Perm ((vs ++ List.flatMap (·.2) post) ++ [x]) := by
        rw [List.append_assoc, List.append_assoc]
        exact List.Perm.append_left vs List.perm_append_comm
      have e2 := List.Perm.append_left (List.flatMap (·.2) p) e1
      refine e2.trans ?_
      rw [← List.append_assoc (List.flatMap (·.2) p)]
      exact List.Perm.append_right [x] hp
    · have := inv.keys
      simpa using this
    · intro g hg v hv
      rcases List.mem_append.mp hg with hg' | hg'
      · exact inv.member g (List.mem_append_left _ hg') v hv
      · rcases List.mem_cons.mp hg' with rfl | hg''
        · rcases List.mem_append.mp hv with hv' | hv'
          · exact inv.member (k', vs) (List.mem_append_right _ List.mem_cons_self) v hv'
          · rcases List.mem_singleton.mp hv' with rfl
            exact ⟨key, hk, .inr h3⟩
        · exact inv.member g (List.mem_append_right _ (List.mem_cons_of_mem _ hg'')) v hv
    · intro g hg
      rcases List.mem_append.mp hg with hg' | hg'
      · exact (inv.order g (List.mem_append_left _ hg')).trans (List.sublist_append_left _ _)
      · rcases List.mem_cons.mp hg' with rfl | hg''
        · exact List.Sublist.append (inv.order (k', vs) (List.mem_append_right _ List.mem_cons_self)) (List.Sublist.refl _)
        · exact (inv.order g (List.mem_append_right _ (List.mem_cons_of_mem _ hg''))).trans (List.sublist_append_left _ _)
    · intro g hg
      rcases List.mem_append.mp hg with hg' | hg'
      · exact inv.nonempty g (List.mem_append_left _ hg')
      · rcases List.mem_cons.mp hg' with rfl | hg''
        · simp
        · exact inv.nonempty g (List.mem_append_right _ (List.mem_cons_of_mem _ hg''))
  · subst h1
    refine ⟨?_, ?_, ?_, ?_, ?_⟩
    · simp only [List.flatMap_append, List.flatMap_cons, List.flatMap_nil, List.append_nil]
      exact List.Perm.append_right [x] inv.perm
    · simp only [List.map_append, List.map_cons, List.map_nil]
      refine List.pairwise_append.mpr ⟨inv.keys, List.pairwise_singleton _ _, fun a ha b hb => ?_⟩
      rcases List.mem_singleton.mp hb with rfl
      obtain ⟨g, hg, rfl⟩ := List.mem_map.mp ha
      exact h2 g hg
    · intro g hg v hv
      rcases List.mem_append.mp hg with hg' | hg'
      · exact inv.member g hg' v hv
      · rcases List.mem_singleton.mp hg' with rfl
        rcases List.mem_singleton.mp hv with rfl
        exact ⟨key, hk, .inl rfl⟩
    · intro g hg
      rcases List.mem_append.mp hg with hg' | hg'
      · exact (inv.order g hg').trans (List.sublist_append_left _ _)
      · rcases List.mem_singleton.mp hg' with rfl
        exact List.sublist_append_right _ _
    · intro g hg
      rcases List.mem_append.mp hg with hg' | hg'
      · exact inv.nonempty g hg'
      · rcases List.mem_singleton.mp hg' with rfl
        simp

theorem groupR_inv (keyOf : Val → R Val) (eq : Val → Val → R Bool) : ∀ (rest pre : List Val) (gs out : Groups),
    GroupInv keyOf eq pre gs → groupR keyOf eq gs rest none = .ok out → GroupInv keyOf eq (pre ++ rest) out
  | [], pre, gs, out, inv, h => by
    simp only [groupR] at h; cases h
    simpa using inv
  | x :: rest, pre, gs, out, inv, h => by
    simp only [groupR] at h
    cases hk : keyOf x with
    | ok key =>
      rw [hk] at h
      simp only [R.bind_ok] at h
      cases ha : addToGroups eq key x gs with
      | ok gs' =>
        rw [ha] at h
        simp only [R.bind_ok] at h
        have := groupR_inv keyOf eq rest (pre ++ [x]) gs' out (inv.step hk ha) h
        simpa [List.append_assoc] using this
      | err => rw [ha] at h; cases h
      | panic => rw [ha] at h; cases h
      | fuel => rw [ha] at h; cases h
      | unmodelled => rw [ha] at h; cases h
    | err => rw [hk] at h; cases h
    | panic => rw [hk] at h; cases h
    | fuel => rw [hk] at h; cases h
    | unmodelled => rw [hk] at h; cases h

/-- `groupBy*`: the groups are a partition of the input by key — concatenating the groups gives a
permutation of the input, the group keys are pairwise different, every member has its group's key,
the order inside a group is the input order, no group is empty -/
theorem groupBy_partition (keyOf : Val → R Val) (eq : Val → Val → R Bool) (xs : List Val) (gs : Groups)
    (h : groupR keyOf eq [] xs none = .ok gs) : GroupInv keyOf eq xs gs := by
  have inv0 : GroupInv keyOf eq [] [] :=
    { perm := List.Perm.refl _, keys := List.Pairwise.nil, member := fun _ hg => (by cases hg),
      order := fun _ hg => (by cases hg), nonempty := fun _ hg => (by cases hg) }
  simpa using groupR_inv keyOf eq xs [] [] gs inv0 h

/-- `unique*` (the keys of the groups): pairwise different, and the key of every input element is
represented -/
theorem unique_law (keyOf : Val → R Val) (eq : Val → Val → R Bool) (xs : List Val) (gs : Groups)
    (h : groupR keyOf eq [] xs none = .ok gs) :
    (gs.map (·.1)).Pairwise (fun a b => eq a b = .ok false) ∧
    ∀ x, x ∈ xs → ∃ k, k ∈ gs.map (·.1) ∧ HasKey keyOf eq k x := by
  have inv := groupBy_partition keyOf eq xs gs h
  refine ⟨inv.keys, fun x hx => ?_⟩
  have hx' : x ∈ gs.flatMap (·.2) := inv.perm.mem_iff.mpr hx
  obtain ⟨g, hg, hxg⟩ := List.mem_flatMap.mp hx'
  exact ⟨g.1, List.mem_map.mpr ⟨g, hg, rfl⟩, inv.member g hg x hxg⟩

/-! ## `split` and `join` -/

theorem splitL_ne_nil (sep : List Char) : ∀ (n : Nat) (cur rest : List Char), splitL sep n cur rest ≠ []
  | 0, _, _ => by simp [splitL]
  | _+1, _, [] => by simp [splitL]
  | n+1, cur, c :: cs => by
    simp only [splitL]
    split
    · simp
    · exact splitL_ne_nil sep n _ _

theorem joinL_cons (sep x : List Char) (l : List (List Char)) (h : l ≠ []) :
    joinL sep (x :: l) = x ++ sep ++ joinL sep l := by
  cases l with
  | nil => exact absurd rfl h
  | cons y r => rfl

theorem join_splitL (sep : List Char) (hsep : sep ≠ []) : ∀ (n : Nat) (cur rest : List Char), rest.length < n →
    joinL sep (splitL sep n cur rest) = cur.reverse ++ rest
  | 0, _, _, h => by omega
  | _+1, cur, [], _ => by simp [splitL, joinL]
  | n+1, cur, c :: cs, h => by
    simp only [splitL]
    split
    · rename_i hp
      have hpre : sep <+: (c :: cs) := List.isPrefixOf_iff_prefix.mp hp
      obtain ⟨t, ht⟩ := hpre
      have hlen : 0 < sep.length := List.length_pos_iff.mpr hsep
      have hdrop : (c :: cs).drop sep.length = t := by rw [← ht]; simp
      have htl : t.length < n := by
        have : (sep ++ t).length = (c :: cs).length := by rw [ht]
        simp only [List.length_append, List.length_cons] at this h
        omega
      rw [joinL_cons _ _ _ (splitL_ne_nil _ _ _ _), hdrop, join_splitL sep hsep n [] t htl]
      simp [← ht]
    · rw [join_splitL sep hsep n (c :: cur) cs (by simp only [List.length_cons] at h; omega)]
      simp

/-- `join sep (split s sep) = s` for every non-empty separator -/
theorem join_split (s sep : List Char) (hsep : sep ≠ []) : joinL sep (splitS s sep) = s := by
  have h1 : sep.isEmpty = false := by cases sep <;> simp_all
  simp only [splitS, h1, Bool.false_eq_true, if_false]
  rw [join_splitL sep hsep (s.length + 1) [] s (by omega)]
  rfl

/-- an empty separator splits into the code points: concatenating the pieces gives the string -/
theorem concat_split_empty (s : List Char) : (splitS s []).flatten = s := by
  simp only [splitS, List.isEmpty_nil, if_true]
  induction s with
  | nil => rfl
  | cons c cs ih => simp [ih]

/-- `s.replace(old, new) = join new (split s old)`; replacing by the separator itself is the identity -/
theorem replace_self (s old : List Char) (h : old ≠ []) : replaceS s old old = s := by
  have h1 : old.isEmpty = false := by cases old <;> simp_all
  simp only [replaceS, h1, Bool.false_eq_true, if_false]
  exact join_split s old h

end P2.LibSpec
