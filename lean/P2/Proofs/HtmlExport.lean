import P2.Proofs.XmlSafe
/-! `ToHtml` (C18.2, HTML part): for every value with legal strings the call sequence of the model of
`toHtml` is the flattening of a forest that follows the writer's protocol — or the export is an error. -/
namespace P2.Xml

/-- the call sequence writes some forest that satisfies `nodesOK` -/
def IsFlat (cs : List Call) : Prop := ∃ ns, nodesOK ns = true ∧ cs = flattenL ns

theorem nodesOK_append (a b : List Node) : nodesOK (a ++ b) = (nodesOK a && nodesOK b) := by
  induction a with
  | nil => simp [nodesOK]
  | cons k ks ih => simp [nodesOK, ih, Bool.and_assoc]

theorem IsFlat.nil : IsFlat [] := ⟨[], rfl, rfl⟩

theorem IsFlat.wr (s : List Char) (h : allLegal s = true) : IsFlat [.wr s] :=
  ⟨[.text s], by simpa [nodesOK, nodeOK, allLegal] using h, by simp [flattenL, flatten]⟩

theorem IsFlat.append {a b : List Call} (ha : IsFlat a) (hb : IsFlat b) : IsFlat (a ++ b) := by
  obtain ⟨na, h1, rfl⟩ := ha
  obtain ⟨nb, h2, rfl⟩ := hb
  exact ⟨na ++ nb, by simp [nodesOK_append, h1, h2], (flattenL_append na nb).symm⟩

theorem IsFlat.elem {body : List Call} (n : List Char) (as : Attrs) (hn : isXmlName n = true)
    (has : attrsOK as = true) (hb : IsFlat body) : IsFlat (.opn n :: (attrCalls as ++ (body ++ [.cls]))) := by
  obtain ⟨nb, h2, rfl⟩ := hb
  exact ⟨[.elem n as nb], by simp [nodesOK, nodeOK, hn, has, h2], by simp [flattenL, flatten]⟩

/-- the result of an exporter function: a flat call sequence, or the error; never a panic -/
def ResFlat : Res (List Call) → Prop
  | .ok cs => IsFlat cs
  | .err => True
  | .panic => False
  | .fuel => False

theorem resFlat_pre {cs : List Call} {r : Res (List Call)} (h1 : IsFlat cs) (h2 : ResFlat r) : ResFlat (pre cs r) := by
  cases r with
  | ok x => exact IsFlat.append h1 h2
  | err => trivial
  | panic => exact h2
  | fuel => exact h2

theorem resFlat_seq {a b : Res (List Call)} (h1 : ResFlat a) (h2 : ResFlat b) : ResFlat (seq a b) := by
  cases a with
  | ok x => exact resFlat_pre h1 h2
  | err => trivial
  | panic => exact h1
  | fuel => exact h1

/-- `Open(n)`, attributes, a body, `Close()` -/
theorem resFlat_wrap (n : List Char) (as : Attrs) (hn : isXmlName n = true) (has : attrsOK as = true)
    {x : Res (List Call)} (hx : ResFlat x) : ResFlat (pre (.opn n :: attrCalls as) (seq x (.ok [.cls]))) := by
  cases x with
  | ok body =>
    have := IsFlat.elem n as hn has hx
    simpa [pre, seq, ResFlat] using this
  | err => trivial
  | panic => exact hx
  | fuel => exact hx

/-- a row: `Open(n)`, a flat head, a body, `Close()`, then the remaining rows -/
theorem resFlat_row (n : List Char) (hn : isXmlName n = true) {head : List Call} (hh : IsFlat head)
    {x r : Res (List Call)} (hx : ResFlat x) (hr : ResFlat r) :
    ResFlat (pre (.opn n :: head) (seq x (pre [.cls] r))) := by
  cases x with
  | ok body =>
    cases r with
    | ok rest =>
      have h1 := IsFlat.elem n [] hn (by decide) (IsFlat.append hh hx)
      have := IsFlat.append h1 hr
      simpa [pre, seq, ResFlat, attrCalls, List.append_assoc] using this
    | err => trivial
    | panic => exact hr
    | fuel => exact hr
  | err => trivial
  | panic => exact hx
  | fuel => exact hx

/-! ### names and literal strings -/

theorem tA_name : isXmlName tA = true := by decide
theorem tHref_name : isXmlName tHref = true := by decide
theorem tTarget_name : isXmlName tTarget = true := by decide
theorem tDownload_name : isXmlName tDownload = true := by decide
theorem tTable_name : isXmlName tTable = true := by decide
theorem tTr_name : isXmlName tTr = true := by decide
theorem tTd_name : isXmlName tTd = true := by decide
theorem tSpan_name : isXmlName tSpan = true := by decide
theorem tStyle_name : isXmlName tStyle = true := by decide
theorem tClass_name : isXmlName tClass = true := by decide
theorem tColspan_name : isXmlName tColspan = true := by decide
theorem sMore_legal : allLegal sMore = true := by decide
theorem sLink_legal : allLegal sLink = true := by decide
theorem sBlank_legal : allLegal sBlank = true := by decide

/-! ### style strings -/

theorem replaceUnderscore_legal (s : List Char) (h : allLegal s = true) : allLegal (replaceUnderscore s) = true := by
  induction s with
  | nil => simp [replaceUnderscore, allLegal]
  | cons c cs ih =>
    simp only [allLegal, List.all_cons, Bool.and_eq_true] at h
    simp only [replaceUnderscore, allLegal, List.all_cons, Bool.and_eq_true]
    refine ⟨?_, ih h.2⟩
    split
    · decide
    · exact h.1

def legalEntries (es : List (List Char × List Char)) : Bool := es.all (fun e => allLegal e.1 && allLegal e.2)

theorem insertSty_legal (kv : List Char × List Char) (l : List (List Char × List Char))
    (h1 : (allLegal kv.1 && allLegal kv.2) = true) (h2 : legalEntries l = true) : legalEntries (insertSty kv l) = true := by
  induction l with
  | nil => simpa [insertSty, legalEntries] using h1
  | cons x xs ih =>
    simp only [legalEntries, List.all_cons, Bool.and_eq_true] at h2
    simp only [insertSty]
    split
    · simp only [legalEntries, List.all_cons, Bool.and_eq_true]
      exact ⟨h2.1, by simpa [legalEntries] using ih (by simpa [legalEntries] using h2.2)⟩
    · simp only [legalEntries, List.all_cons, Bool.and_eq_true]
      exact ⟨by simpa using h1, h2.1, h2.2⟩

theorem styEntries_legal (kvs : List (List Char × SV))
    (h : kvs.all (fun kv => allLegal kv.1 && legalSV kv.2) = true) : legalEntries (styEntries kvs) = true := by
  induction kvs with
  | nil => simp [styEntries, legalEntries]
  | cons x xs ih =>
    obtain ⟨k, sv⟩ := x
    simp only [List.all_cons, Bool.and_eq_true] at h
    cases sv with
    | s v =>
      simp only [styEntries]
      apply insertSty_legal
      · simp only [Bool.and_eq_true]
        exact ⟨replaceUnderscore_legal k h.1.1, by simpa [legalSV] using h.1.2⟩
      · exact ih h.2
    | o => simp only [styEntries]; exact ih h.2

theorem styConcat_legal (es : List (List Char × List Char)) (h : legalEntries es = true) :
    allLegal (styConcat es) = true := by
  induction es with
  | nil => simp [styConcat, allLegal]
  | cons x xs ih =>
    obtain ⟨k, v⟩ := x
    simp only [legalEntries, List.all_cons, Bool.and_eq_true] at h
    simp only [styConcat, allLegal_append, Bool.and_eq_true]
    exact ⟨⟨⟨⟨h.1.1, by decide⟩, h.1.2⟩, by decide⟩, ih (by simpa [legalEntries] using h.2)⟩

theorem toStyleStr_legal (sty : Sty) (s : List Char) (h : toStyleStr sty = some s) (hl : legalSty sty = true) :
    allLegal s = true := by
  cases sty with
  | none => simp [toStyleStr] at h
  | other => simp [toStyleStr] at h
  | str x => simp only [toStyleStr, Option.some.injEq] at h; subst h; simpa [legalSty] using hl
  | map kvs =>
    simp only [toStyleStr] at h
    have := styEntries_legal kvs (by simpa [legalSty] using hl)
    split at h
    · cases h
    · simp only [Option.some.injEq] at h; subst h; exact styConcat_legal _ this

/-- the configuration names classes with legal characters (irrelevant with inline styles) -/
def CfgOK (cfg : HCfg) : Prop := cfg.inlineStyle = true ∨ ∀ s, allLegal (cfg.className s) = true

theorem styleAttr_eq (cfg : HCfg) (s : List Char) :
    styleAttr cfg s = .attr (if cfg.inlineStyle then tStyle else tClass) (if cfg.inlineStyle then s else cfg.className s) := by
  unfold styleAttr; split <;> rfl

theorem styleKey_name (cfg : HCfg) : isXmlName (if cfg.inlineStyle then tStyle else tClass) = true := by
  split <;> decide

theorem styleVal_legal (cfg : HCfg) (hc : CfgOK cfg) (s : List Char) (h : allLegal s = true) :
    allLegal (if cfg.inlineStyle then s else cfg.className s) = true := by
  split
  · exact h
  · rename_i hni
    rcases hc with hi | hc
    · exact absurd hi hni
    · exact hc s

/-- attributes of an element that may carry a style -/
def styAttrs (cfg : HCfg) (sty : Sty) : Attrs :=
  match toStyleStr sty with
  | some s => [(if cfg.inlineStyle then tStyle else tClass, if cfg.inlineStyle then s else cfg.className s)]
  | none => []

theorem styleAttrCalls_eq (cfg : HCfg) (sty : Sty) : styleAttrCalls cfg sty = attrCalls (styAttrs cfg sty) := by
  unfold styleAttrCalls styAttrs
  cases toStyleStr sty <;> simp [attrCalls, styleAttr_eq]

theorem openWithStyle_eq (cfg : HCfg) (tag : List Char) (sty : Sty) :
    openWithStyle cfg tag sty = .opn tag :: attrCalls (styAttrs cfg sty) := by
  simp [openWithStyle, styleAttrCalls_eq]

theorem styAttrs_ok (cfg : HCfg) (hc : CfgOK cfg) (sty : Sty) (hl : legalSty sty = true) :
    attrsOK (styAttrs cfg sty) = true := by
  unfold styAttrs
  cases h : toStyleStr sty with
  | none => simp [attrsOK, noDupKeys]
  | some s =>
    have h1 := styleKey_name cfg
    have h2 := styleVal_legal cfg hc s (toStyleStr_legal sty s h hl)
    simp only [allLegal] at h2
    simp [attrsOK, noDupKeys, h1, h2]

/-! ### strings -/

theorem drop_legal (s : List Char) (n : Nat) (h : allLegal s = true) : allLegal (s.drop n) = true := by
  simp only [allLegal, List.all_eq_true] at h ⊢
  exact fun x hx => h x (List.mem_of_mem_drop hx)

theorem target_ne_href : (tTarget == tHref) = false := by decide
theorem download_ne_href : (tDownload == tHref) = false := by decide
theorem style_ne_colspan : (tStyle == tColspan) = false := by decide
theorem class_ne_colspan : (tClass == tColspan) = false := by decide

theorem linkAttrs_ok (h : List Char) (hl : allLegal h = true) :
    attrsOK [(tHref, h), (tTarget, sBlank)] = true := by
  simp only [allLegal] at hl
  have : sBlank.all isXmlChar = true := sBlank_legal
  simp [attrsOK, noDupKeys, tHref_name, tTarget_name, hl, this, target_ne_href]

theorem htmlString_flat (cfg : HCfg) (hc : CfgOK cfg) (s : List Char) (sty : Sty) (hs : allLegal s = true)
    (hl : legalSty sty = true) : IsFlat (htmlString cfg s sty) := by
  unfold htmlString
  split
  · have := IsFlat.elem tA [(tHref, s), (tTarget, sBlank)] tA_name (linkAttrs_ok s hs) (IsFlat.wr sLink sLink_legal)
    simpa [attrCalls] using this
  · split
    · have := IsFlat.elem tA [(tHref, s.drop 5), (tTarget, sBlank)] tA_name (linkAttrs_ok _ (drop_legal s 5 hs))
        (IsFlat.wr sLink sLink_legal)
      simpa [attrCalls] using this
    · cases h : toStyleStr sty with
      | none => simpa using IsFlat.wr s hs
      | some st =>
        have hok := styAttrs_ok cfg hc sty hl
        have := IsFlat.elem tSpan _ tSpan_name hok (IsFlat.wr s hs)
        simpa [styleAttrCalls_eq] using this

theorem fileCalls_flat (n m b ss : List Char) (h1 : allLegal n = true) (h2 : allLegal m = true)
    (h3 : allLegal b = true) (h4 : allLegal ss = true) : IsFlat (fileCalls n m b ss) := by
  unfold fileCalls
  have hm : allLegal (if m.isEmpty then ['a', 'p', 'p', 'l', 'i', 'c', 'a', 't', 'i', 'o', 'n', '/', 'o', 'c', 't',
      'e', 't', '-', 's', 't', 'r', 'e', 'a', 'm'] else m) = true := by
    split
    · decide
    · exact h2
  generalize (if m.isEmpty then ['a', 'p', 'p', 'l', 'i', 'c', 'a', 't', 'i', 'o', 'n', '/', 'o', 'c', 't',
      'e', 't', '-', 's', 't', 'r', 'e', 'a', 'm'] else m) = mime at hm
  have hhref : allLegal (['d', 'a', 't', 'a', ':'] ++ mime ++ [';', 'b', 'a', 's', 'e', '6', '4', ','] ++ b) = true := by
    simp only [allLegal_append, hm, h3, Bool.and_true]
    decide
  have htxt : allLegal (['F', 'i', 'l', 'e', ':', ' '] ++ n ++ [' ', '('] ++ ss ++ [')']) = true := by
    simp only [allLegal_append, h1, h4, Bool.and_true]
    decide
  have hattrs : attrsOK [(tHref, ['d', 'a', 't', 'a', ':'] ++ mime ++ [';', 'b', 'a', 's', 'e', '6', '4', ','] ++ b),
      (tDownload, n)] = true := by
    have hh : (['d', 'a', 't', 'a', ':'] ++ mime ++ [';', 'b', 'a', 's', 'e', '6', '4', ','] ++ b).all isXmlChar = true := hhref
    have hn : n.all isXmlChar = true := h1
    simp only [attrsOK, List.all_cons, List.all_nil, tHref_name, tDownload_name, hh, hn, Bool.and_true, Bool.true_and,
      noDupKeys, List.any_cons, List.any_nil, download_ne_href, Bool.or_false, Bool.not_false]
  have := IsFlat.elem tA _ tA_name hattrs (IsFlat.wr _ htxt)
  simpa [attrCalls] using this

theorem moreTD_flat : IsFlat moreTD := by
  have := IsFlat.elem tTd [] tTd_name (by decide) (IsFlat.wr sMore sMore_legal)
  simpa [attrCalls, moreTD] using this

theorem numTD_flat (a b : List Char) (ha : allLegal a = true) (hb : allLegal b = true) :
    IsFlat [.opn tTd, .wr a, .wr b, .cls] := by
  have := IsFlat.elem tTd [] tTd_name (by decide) (IsFlat.append (IsFlat.wr a ha) (IsFlat.wr b hb))
  simpa [attrCalls] using this

/-- attributes of a `<td>`: `colspan` if greater than one, then the style -/
def spanAttrs (span : Nat) : Attrs := if span > 1 then [(tColspan, natStr span)] else []

theorem spanCalls_eq (span : Nat) : spanCalls span = attrCalls (spanAttrs span) := by
  unfold spanCalls spanAttrs; split <;> simp [attrCalls]

theorem spanAttrs_ok (span : Nat) : attrsOK (spanAttrs span) = true := by
  unfold spanAttrs
  split
  · have hn := natStr_legal span
    simp only [allLegal] at hn
    simp [attrsOK, noDupKeys, tColspan_name, hn]
  · simp [attrsOK, noDupKeys]

theorem tdAttrs_ok (cfg : HCfg) (hc : CfgOK cfg) (span : Nat) (sty : Sty) (hl : legalSty sty = true) :
    attrsOK (spanAttrs span ++ styAttrs cfg sty) = true := by
  have h2 := styAttrs_ok cfg hc sty hl
  have h1 := spanAttrs_ok span
  unfold spanAttrs at h1 ⊢
  split
  · rename_i hsp
    simp only [hsp, if_true] at h1
    unfold styAttrs at h2 ⊢
    cases h : toStyleStr sty with
    | none => simpa using h1
    | some s =>
      simp only [h] at h2
      cases hi : cfg.inlineStyle <;>
        simp_all [attrsOK, noDupKeys, style_ne_colspan, class_ne_colspan]
  · simpa using h2

theorem attrCalls_append (a b : Attrs) : attrCalls (a ++ b) = attrCalls a ++ attrCalls b := by
  induction a with
  | nil => simp [attrCalls]
  | cons x xs ih => obtain ⟨k, v⟩ := x; simp [attrCalls, ih]

/-! ### the exporter -/

mutual
theorem htmlV_flat (cfg : HCfg) (hc : CfgOK cfg) :
    ∀ (v : V) (sty : Sty), legalV v = true → legalSty sty = true → ResFlat (htmlV cfg v sty)
  | .fmt sty' c n v, sty, hl, _ => by
    simp only [legalV, Bool.and_eq_true] at hl
    simp only [htmlV]; exact htmlV_flat cfg hc v sty' hl.2 hl.1
  | .fmtCl res c n v, sty, hl, _ => by
    simp only [legalV, Bool.and_eq_true] at hl
    simp only [htmlV]; exact htmlOpt_flat cfg hc res hl.1
  | .link h v, sty, hl, hs => by
    simp only [legalV, Bool.and_eq_true] at hl
    simp only [htmlV]
    have hh : h.all isXmlChar = true := hl.1
    have := resFlat_wrap tA [(tHref, h)] tA_name (by simp [attrsOK, noDupKeys, tHref_name, hh])
      (htmlV_flat cfg hc v sty hl.2 hs)
    simpa [attrCalls] using this
  | .file n m b size ss, sty, hl, _ => by
    simp only [legalV, Bool.and_eq_true] at hl
    simp only [htmlV]
    exact fileCalls_flat n m b ss hl.1.1.1 hl.1.1.2 hl.1.2 hl.2
  | .arr l, sty, hl, hs => by
    simp only [legalV] at hl
    simp only [htmlV]
    split
    · exact htmlPlain_flat cfg hc l hl
    · rw [openWithStyle_eq]
      cases listKind l with
      | empty => exact IsFlat.nil
      | table => exact resFlat_wrap tTable _ tTable_name (styAttrs_ok cfg hc sty hs) (htmlTableRows_flat cfg hc l 1 hl)
      | simple => exact resFlat_wrap tTable _ tTable_name (styAttrs_ok cfg hc sty hs) (htmlSimpleRows_flat cfg hc l 1 hl)
  | .obj kvs, sty, hl, hs => by
    simp only [legalV] at hl
    simp only [htmlV]
    rw [openWithStyle_eq]
    exact resFlat_wrap tTable _ tTable_name (styAttrs_ok cfg hc sty hs) (htmlMapRows_flat cfg hc kvs hl)
  | .flt sx sh, sty, hl, _ => by
    simp only [legalV, Bool.and_eq_true] at hl
    simp only [htmlV]; exact IsFlat.wr sh hl.2
  | .str s, sty, hl, hs => by
    simp only [legalV] at hl
    simp only [htmlV]; exact htmlString_flat cfg hc s sty hl hs
theorem htmlOpt_flat (cfg : HCfg) (hc : CfgOK cfg) : ∀ r : Option V, legalOpt r = true → ResFlat (htmlOpt cfg r)
  | none, _ => by simp [htmlOpt, ResFlat]
  | some v, hl => by simp only [legalOpt] at hl; simp only [htmlOpt]; exact htmlV_flat cfg hc v .none hl rfl
theorem htmlPlain_flat (cfg : HCfg) (hc : CfgOK cfg) : ∀ l : List V, legalVs l = true → ResFlat (htmlPlain cfg l)
  | [], _ => by simp only [htmlPlain]; exact IsFlat.nil
  | v :: vs, hl => by
    simp only [legalVs, Bool.and_eq_true] at hl
    simp only [htmlPlain]
    exact resFlat_seq (htmlV_flat cfg hc v .none hl.1 rfl) (htmlPlain_flat cfg hc vs hl.2)
theorem htmlSimpleRows_flat (cfg : HCfg) (hc : CfgOK cfg) :
    ∀ (l : List V) (i : Nat), legalVs l = true → ResFlat (htmlSimpleRows cfg l i)
  | [], _, _ => by simp only [htmlSimpleRows]; exact IsFlat.nil
  | v :: vs, i, hl => by
    simp only [legalVs, Bool.and_eq_true] at hl
    simp only [htmlSimpleRows]
    have hnum := numTD_flat (natStr i) ['.'] (natStr_legal i) (by decide)
    split
    · exact resFlat_row tTr tTr_name hnum (htmlTD_flat cfg hc v hl.1) (htmlSimpleRows_flat cfg hc vs (i + 1) hl.2)
    · have := IsFlat.elem tTr [] tTr_name (by decide) (IsFlat.append hnum moreTD_flat)
      simpa [ResFlat, attrCalls, List.append_assoc] using this
theorem htmlTableRows_flat (cfg : HCfg) (hc : CfgOK cfg) :
    ∀ (l : List V) (row : Nat), legalVs l = true → ResFlat (htmlTableRows cfg l row)
  | [], _, _ => by simp only [htmlTableRows]; exact IsFlat.nil
  | .arr items :: vs, row, hl => by
    simp only [legalVs, Bool.and_eq_true] at hl
    simp only [htmlTableRows]
    split
    · exact resFlat_row tTr tTr_name IsFlat.nil (htmlCols_flat cfg hc items 1 (by simpa [legalV] using hl.1))
        (htmlTableRows_flat cfg hc vs (row + 1) hl.2)
    · have := IsFlat.elem tTr [] tTr_name (by decide) moreTD_flat
      simpa [ResFlat, attrCalls, List.append_assoc] using this
  | .str s :: vs, row, hl => by
    simp only [legalVs, Bool.and_eq_true] at hl
    simp only [htmlTableRows]
    split
    · exact resFlat_row tTr tTr_name IsFlat.nil (htmlTD_flat cfg hc (.str s) hl.1)
        (htmlTableRows_flat cfg hc vs (row + 1) hl.2)
    · have := IsFlat.elem tTr [] tTr_name (by decide) moreTD_flat
      simpa [ResFlat, attrCalls, List.append_assoc] using this
  | .flt a b :: vs, row, hl => by
    simp only [legalVs, Bool.and_eq_true] at hl
    simp only [htmlTableRows]
    split
    · exact resFlat_row tTr tTr_name IsFlat.nil (htmlTD_flat cfg hc (.flt a b) hl.1)
        (htmlTableRows_flat cfg hc vs (row + 1) hl.2)
    · have := IsFlat.elem tTr [] tTr_name (by decide) moreTD_flat
      simpa [ResFlat, attrCalls, List.append_assoc] using this
  | .obj kvs :: vs, row, hl => by
    simp only [legalVs, Bool.and_eq_true] at hl
    simp only [htmlTableRows]
    split
    · exact resFlat_row tTr tTr_name IsFlat.nil (htmlTD_flat cfg hc (.obj kvs) hl.1)
        (htmlTableRows_flat cfg hc vs (row + 1) hl.2)
    · have := IsFlat.elem tTr [] tTr_name (by decide) moreTD_flat
      simpa [ResFlat, attrCalls, List.append_assoc] using this
  | .fmt s c n x :: vs, row, hl => by
    simp only [legalVs, Bool.and_eq_true] at hl
    simp only [htmlTableRows]
    split
    · exact resFlat_row tTr tTr_name IsFlat.nil (htmlTD_flat cfg hc (.fmt s c n x) hl.1)
        (htmlTableRows_flat cfg hc vs (row + 1) hl.2)
    · have := IsFlat.elem tTr [] tTr_name (by decide) moreTD_flat
      simpa [ResFlat, attrCalls, List.append_assoc] using this
  | .fmtCl r c n x :: vs, row, hl => by
    simp only [legalVs, Bool.and_eq_true] at hl
    simp only [htmlTableRows]
    split
    · exact resFlat_row tTr tTr_name IsFlat.nil (htmlTD_flat cfg hc (.fmtCl r c n x) hl.1)
        (htmlTableRows_flat cfg hc vs (row + 1) hl.2)
    · have := IsFlat.elem tTr [] tTr_name (by decide) moreTD_flat
      simpa [ResFlat, attrCalls, List.append_assoc] using this
  | .link h x :: vs, row, hl => by
    simp only [legalVs, Bool.and_eq_true] at hl
    simp only [htmlTableRows]
    split
    · exact resFlat_row tTr tTr_name IsFlat.nil (htmlTD_flat cfg hc (.link h x) hl.1)
        (htmlTableRows_flat cfg hc vs (row + 1) hl.2)
    · have := IsFlat.elem tTr [] tTr_name (by decide) moreTD_flat
      simpa [ResFlat, attrCalls, List.append_assoc] using this
  | .file n m b size ss :: vs, row, hl => by
    simp only [legalVs, Bool.and_eq_true] at hl
    simp only [htmlTableRows]
    split
    · exact resFlat_row tTr tTr_name IsFlat.nil (htmlTD_flat cfg hc (.file n m b size ss) hl.1)
        (htmlTableRows_flat cfg hc vs (row + 1) hl.2)
    · have := IsFlat.elem tTr [] tTr_name (by decide) moreTD_flat
      simpa [ResFlat, attrCalls, List.append_assoc] using this
theorem htmlCols_flat (cfg : HCfg) (hc : CfgOK cfg) :
    ∀ (l : List V) (col : Nat), legalVs l = true → ResFlat (htmlCols cfg l col)
  | [], _, _ => by simp only [htmlCols]; exact IsFlat.nil
  | v :: vs, col, hl => by
    simp only [legalVs, Bool.and_eq_true] at hl
    simp only [htmlCols]
    split
    · exact resFlat_seq (htmlTD_flat cfg hc v hl.1) (htmlCols_flat cfg hc vs (col + 1) hl.2)
    · exact moreTD_flat
theorem htmlMapRows_flat (cfg : HCfg) (hc : CfgOK cfg) :
    ∀ l : List (List Char × V), legalKVs l = true → ResFlat (htmlMapRows cfg l)
  | [], _ => by simp only [htmlMapRows]; exact IsFlat.nil
  | (k, v) :: rest, hl => by
    simp only [legalKVs, Bool.and_eq_true] at hl
    simp only [htmlMapRows]
    exact resFlat_row tTr tTr_name (numTD_flat k [':'] hl.1.1 (by decide)) (htmlTD_flat cfg hc v hl.1.2)
      (htmlMapRows_flat cfg hc rest hl.2)
theorem htmlTD_flat (cfg : HCfg) (hc : CfgOK cfg) : ∀ v : V, legalV v = true → ResFlat (htmlTD cfg v)
  | .fmt sty cell span v, hl => by
    simp only [legalV, Bool.and_eq_true] at hl
    simp only [htmlTD, spanCalls_eq, styleAttrCalls_eq, ← attrCalls_append]
    split
    · exact resFlat_wrap tTd _ tTd_name (spanAttrs_ok span) (htmlV_flat cfg hc v sty hl.2 hl.1)
    · exact resFlat_wrap tTd _ tTd_name (tdAttrs_ok cfg hc span sty hl.1) (htmlV_flat cfg hc v .none hl.2 rfl)
  | .fmtCl res cell span v, hl => by
    simp only [legalV, Bool.and_eq_true] at hl
    simp only [htmlTD, spanCalls_eq]
    split
    · exact resFlat_wrap tTd _ tTd_name (spanAttrs_ok span) (htmlOpt_flat cfg hc res hl.1)
    · exact resFlat_wrap tTd _ tTd_name (spanAttrs_ok span) (htmlV_flat cfg hc v .none hl.2 rfl)
  | .str s, hl => by
    simp only [htmlTD]
    exact resFlat_wrap tTd [] tTd_name (by decide) (htmlV_flat cfg hc (.str s) .none hl rfl)
  | .flt a b, hl => by
    simp only [htmlTD]
    exact resFlat_wrap tTd [] tTd_name (by decide) (htmlV_flat cfg hc (.flt a b) .none hl rfl)
  | .arr l, hl => by
    simp only [htmlTD]
    exact resFlat_wrap tTd [] tTd_name (by decide) (htmlV_flat cfg hc (.arr l) .none hl rfl)
  | .obj kvs, hl => by
    simp only [htmlTD]
    exact resFlat_wrap tTd [] tTd_name (by decide) (htmlV_flat cfg hc (.obj kvs) .none hl rfl)
  | .link h x, hl => by
    simp only [htmlTD]
    exact resFlat_wrap tTd [] tTd_name (by decide) (htmlV_flat cfg hc (.link h x) .none hl rfl)
  | .file n m b size ss, hl => by
    simp only [htmlTD]
    exact resFlat_wrap tTd [] tTd_name (by decide) (htmlV_flat cfg hc (.file n m b size ss) .none hl rfl)
end

theorem classNameIn_legal (classes : List (List Char)) (s : List Char) : allLegal (classNameIn classes s) = true := by
  unfold classNameIn
  split
  · have := natStr_legal ‹Nat›
    simp only [allLegal, List.all_cons, Bool.and_eq_true] at this ⊢
    exact ⟨by decide, this⟩
  · have := natStr_legal classes.length
    simp only [allLegal, List.all_cons, Bool.and_eq_true] at this ⊢
    exact ⟨by decide, this⟩

/-! ### the exporter functions return a call sequence or the error, nothing else -/

def OkErr : Res (List Call) → Prop
  | .ok _ => True
  | .err => True
  | .panic => False
  | .fuel => False

theorem okErr_pre (cs : List Call) {r : Res (List Call)} (h : OkErr r) : OkErr (pre cs r) := by
  cases r <;> simp_all [pre, OkErr]

theorem okErr_seq {a b : Res (List Call)} (h1 : OkErr a) (h2 : OkErr b) : OkErr (seq a b) := by
  cases a with
  | ok x => exact okErr_pre x h2
  | err => trivial
  | panic => exact h1
  | fuel => exact h1

mutual
theorem htmlV_okErr (cfg : HCfg) : ∀ (v : V) (sty : Sty), OkErr (htmlV cfg v sty)
  | .fmt sty' c n v, sty => by simp only [htmlV]; exact htmlV_okErr cfg v sty'
  | .fmtCl res c n v, sty => by simp only [htmlV]; exact htmlOpt_okErr cfg res
  | .link h v, sty => by simp only [htmlV]; exact okErr_pre _ (okErr_seq (htmlV_okErr cfg v sty) trivial)
  | .file n m b size ss, sty => by simp only [htmlV]; trivial
  | .arr l, sty => by
    simp only [htmlV]
    split
    · exact htmlPlain_okErr cfg l
    · cases listKind l with
      | empty => trivial
      | table => exact okErr_pre _ (okErr_seq (htmlTableRows_okErr cfg l 1) trivial)
      | simple => exact okErr_pre _ (okErr_seq (htmlSimpleRows_okErr cfg l 1) trivial)
  | .obj kvs, sty => by simp only [htmlV]; exact okErr_pre _ (okErr_seq (htmlMapRows_okErr cfg kvs) trivial)
  | .flt sx sh, sty => by simp only [htmlV]; trivial
  | .str s, sty => by simp only [htmlV]; trivial
theorem htmlOpt_okErr (cfg : HCfg) : ∀ r : Option V, OkErr (htmlOpt cfg r)
  | none => by simp only [htmlOpt]; trivial
  | some v => by simp only [htmlOpt]; exact htmlV_okErr cfg v .none
theorem htmlPlain_okErr (cfg : HCfg) : ∀ l : List V, OkErr (htmlPlain cfg l)
  | [] => by simp only [htmlPlain]; trivial
  | v :: vs => by simp only [htmlPlain]; exact okErr_seq (htmlV_okErr cfg v .none) (htmlPlain_okErr cfg vs)
theorem htmlSimpleRows_okErr (cfg : HCfg) : ∀ (l : List V) (i : Nat), OkErr (htmlSimpleRows cfg l i)
  | [], _ => by simp only [htmlSimpleRows]; trivial
  | v :: vs, i => by
    simp only [htmlSimpleRows]; split
    · exact okErr_pre _ (okErr_seq (htmlTD_okErr cfg v) (okErr_pre _ (htmlSimpleRows_okErr cfg vs _)))
    · trivial
theorem htmlTableRows_okErr (cfg : HCfg) : ∀ (l : List V) (row : Nat), OkErr (htmlTableRows cfg l row)
  | [], _ => by simp only [htmlTableRows]; trivial
  | .arr items :: vs, row => by
    simp only [htmlTableRows]; split
    · exact okErr_pre _ (okErr_seq (htmlCols_okErr cfg items 1) (okErr_pre _ (htmlTableRows_okErr cfg vs _)))
    · trivial
  | .str s :: vs, row => by
    simp only [htmlTableRows]; split
    · exact okErr_pre _ (okErr_seq (htmlTD_okErr cfg _) (okErr_pre _ (htmlTableRows_okErr cfg vs _)))
    · trivial
  | .flt a b :: vs, row => by
    simp only [htmlTableRows]; split
    · exact okErr_pre _ (okErr_seq (htmlTD_okErr cfg _) (okErr_pre _ (htmlTableRows_okErr cfg vs _)))
    · trivial
  | .obj kvs :: vs, row => by
    simp only [htmlTableRows]; split
    · exact okErr_pre _ (okErr_seq (htmlTD_okErr cfg _) (okErr_pre _ (htmlTableRows_okErr cfg vs _)))
    · trivial
  | .fmt s c n x :: vs, row => by
    simp only [htmlTableRows]; split
    · exact okErr_pre _ (okErr_seq (htmlTD_okErr cfg _) (okErr_pre _ (htmlTableRows_okErr cfg vs _)))
    · trivial
  | .fmtCl r c n x :: vs, row => by
    simp only [htmlTableRows]; split
    · exact okErr_pre _ (okErr_seq (htmlTD_okErr cfg _) (okErr_pre _ (htmlTableRows_okErr cfg vs _)))
    · trivial
  | .link h x :: vs, row => by
    simp only [htmlTableRows]; split
    · exact okErr_pre _ (okErr_seq (htmlTD_okErr cfg _) (okErr_pre _ (htmlTableRows_okErr cfg vs _)))
    · trivial
  | .file n m b size ss :: vs, row => by
    simp only [htmlTableRows]; split
    · exact okErr_pre _ (okErr_seq (htmlTD_okErr cfg _) (okErr_pre _ (htmlTableRows_okErr cfg vs _)))
    · trivial
theorem htmlCols_okErr (cfg : HCfg) : ∀ (l : List V) (col : Nat), OkErr (htmlCols cfg l col)
  | [], _ => by simp only [htmlCols]; trivial
  | v :: vs, col => by
    simp only [htmlCols]; split
    · exact okErr_seq (htmlTD_okErr cfg v) (htmlCols_okErr cfg vs _)
    · trivial
theorem htmlMapRows_okErr (cfg : HCfg) : ∀ l : List (List Char × V), OkErr (htmlMapRows cfg l)
  | [] => by simp only [htmlMapRows]; trivial
  | (k, v) :: rest => by
    simp only [htmlMapRows]
    exact okErr_pre _ (okErr_seq (htmlTD_okErr cfg v) (okErr_pre _ (htmlMapRows_okErr cfg rest)))
theorem htmlTD_okErr (cfg : HCfg) : ∀ v : V, OkErr (htmlTD cfg v)
  | .fmt sty cell span v => by
    simp only [htmlTD]; split
    · exact okErr_pre _ (okErr_seq (htmlV_okErr cfg v sty) trivial)
    · exact okErr_pre _ (okErr_seq (htmlV_okErr cfg v .none) trivial)
  | .fmtCl res cell span v => by
    simp only [htmlTD]; split
    · exact okErr_pre _ (okErr_seq (htmlOpt_okErr cfg res) trivial)
    · exact okErr_pre _ (okErr_seq (htmlV_okErr cfg v .none) trivial)
  | .str s => by simp only [htmlTD]; exact okErr_pre _ (okErr_seq (htmlV_okErr cfg _ _) trivial)
  | .flt a b => by simp only [htmlTD]; exact okErr_pre _ (okErr_seq (htmlV_okErr cfg _ _) trivial)
  | .arr l => by simp only [htmlTD]; exact okErr_pre _ (okErr_seq (htmlV_okErr cfg _ _) trivial)
  | .obj kvs => by simp only [htmlTD]; exact okErr_pre _ (okErr_seq (htmlV_okErr cfg _ _) trivial)
  | .link h x => by simp only [htmlTD]; exact okErr_pre _ (okErr_seq (htmlV_okErr cfg _ _) trivial)
  | .file n m b size ss => by simp only [htmlTD]; exact okErr_pre _ (okErr_seq (htmlV_okErr cfg _ _) trivial)
end

end P2.Xml
