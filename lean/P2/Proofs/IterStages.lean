import P2.Proofs.IterSim
/-! Per-stage facts: the list a frame denotes (`trans`) is its documented list function, and its
demand (`need`, `span`) has the closed form of DESIGN C08.3. -/
namespace P2.Iter
variable {α : Type}

theorem emitRes_returns (fr : Frame α) (out : Log α) (r : Res α) (h : r ≠ .panic ∧ r ≠ .fuel) :
    emitRes fr out r = ⟨fr, out, .pass (itemOf r)⟩ := by
  cases r <;> simp_all [emitRes, asItem, itemOf]

theorem emitResRec_returns (fr : Frame α) (out : Log α) (r : Res α) (h : r ≠ .panic ∧ r ≠ .fuel) :
    emitResRec fr out r = ⟨fr, out, .pass (itemOf r)⟩ := by
  cases r <;> simp_all [emitResRec, asItemRec, itemOf]

/-! ### map -/

theorem step_map_emit (id : Nat) (f : α → Res α) (hf : Returns f) (x : Item α) :
    ((Frame.map id f).step x).emit = .pass (mapItem f x) ∧
    (Frame.map id f).next x = .map id f := by
  cases x with
  | err => exact ⟨rfl, rfl⟩
  | ok v =>
    have h := emitResRec_returns (.map id f) [(id, [v])] (f v) (hf v)
    constructor
    · simp only [Frame.step, h, mapItem]
    · simp only [Frame.next, Frame.step, h, Frame.after]

theorem map_trans (id : Nat) (f : α → Res α) (hf : Returns f) (xs : List (Item α)) :
    (Frame.map id f).trans xs = specMap f xs := by
  induction xs with
  | nil => rfl
  | cons x xs ih =>
    obtain ⟨h1, h2⟩ := step_map_emit id f hf x
    rw [trans_pass _ _ _ h1, h2, ih]; simp [specMap]

theorem map_need (id : Nat) (f : α → Res α) (hf : Returns f) (xs : List (Item α)) (k : Nat) :
    (Frame.map id f).need xs k = min k xs.length := by
  induction xs generalizing k with
  | nil => simp [Frame.need]
  | cons x xs ih =>
    cases k with
    | zero => simp
    | succ k =>
      obtain ⟨h1, h2⟩ := step_map_emit id f hf x
      rw [need_pass _ _ _ _ h1, h2, ih]; simp only [List.length_cons]; omega

theorem map_span (id : Nat) (f : α → Res α) (hf : Returns f) (xs : List (Item α)) :
    (Frame.map id f).span xs = xs.length := by
  induction xs with
  | nil => rfl
  | cons x xs ih =>
    obtain ⟨h1, h2⟩ := step_map_emit id f hf x
    rw [span_pass _ _ _ h1, h2, ih]; simp only [List.length_cons]; omega

/-! ### number -/

theorem step_number_emit (id : Nat) (f : Nat → α → Res α) (hf : ∀ i, Returns (f i)) (n : Nat) (x : Item α) :
    ∃ y, ((Frame.number id f n).step x).emit = .pass y ∧
      (Frame.number id f n).next x = .number id f (match x with | .ok _ => n + 1 | .err => n) ∧
      y = (match x with | .ok v => itemOf (f n v) | .err => .err) := by
  cases x with
  | err => exact ⟨_, rfl, rfl, rfl⟩
  | ok v =>
    have h := emitRes_returns (.number id f (n + 1)) [(id, [v])] (f n v) (hf n v)
    refine ⟨_, ?_, ?_, rfl⟩
    · simp only [Frame.step, h]
    · simp only [Frame.next, Frame.step, h, Frame.after]

theorem number_trans (id : Nat) (f : Nat → α → Res α) (hf : ∀ i, Returns (f i)) (xs : List (Item α)) (n : Nat) :
    (Frame.number id f n).trans xs = specNumber f n xs := by
  induction xs generalizing n with
  | nil => rfl
  | cons x xs ih =>
    obtain ⟨y, h1, h2, h3⟩ := step_number_emit id f hf n x
    rw [trans_pass _ _ _ h1, h2, ih, h3]; cases x <;> simp [specNumber]

theorem number_need (id : Nat) (f : Nat → α → Res α) (hf : ∀ i, Returns (f i)) (xs : List (Item α)) (n k : Nat) :
    (Frame.number id f n).need xs k = min k xs.length := by
  induction xs generalizing k n with
  | nil => simp [Frame.need]
  | cons x xs ih =>
    cases k with
    | zero => simp
    | succ k =>
      obtain ⟨y, h1, h2, _⟩ := step_number_emit id f hf n x
      rw [need_pass _ _ _ _ h1, h2, ih]; simp only [List.length_cons]; omega

/-! ### accept -/

/-- does `accept p` hand the element on (as itself or as an error)? -/
def acceptPasses (p : α → Res Bool) : Item α → Bool
  | .err => true
  | .ok v => match p v with
      | .ok false => false
      | _ => true

theorem step_accept (id : Nat) (p : α → Res Bool) (hp : Returns p) (x : Item α) :
    (Frame.accept id p).next x = .accept id p ∧
    (acceptPasses p x = true → ∃ y, ((Frame.accept id p).step x).emit = .pass y ∧ specAccept p [x] = [y]) ∧
    (acceptPasses p x = false → ((Frame.accept id p).step x).emit = .skip ∧ specAccept p [x] = []) := by
  cases x with
  | err => exact ⟨rfl, fun _ => ⟨_, rfl, rfl⟩, fun h => by simp [acceptPasses] at h⟩
  | ok v =>
    have := hp v
    simp only [Frame.next, Frame.step, acceptPasses, specAccept]
    cases hv : p v with
    | ok b => cases b <;> simp [Frame.after]
    | err => simp [Frame.after]
    | panic => simp_all
    | fuel => simp_all

theorem specAccept_cons (p : α → Res Bool) (x : Item α) (xs : List (Item α)) :
    specAccept p (x :: xs) = specAccept p [x] ++ specAccept p xs := by
  cases x with
  | err => rfl
  | ok v => simp only [specAccept]; cases p v with
    | ok b => cases b <;> rfl
    | _ => rfl

theorem accept_trans (id : Nat) (p : α → Res Bool) (hp : Returns p) (xs : List (Item α)) :
    (Frame.accept id p).trans xs = specAccept p xs := by
  induction xs with
  | nil => rfl
  | cons x xs ih =>
    obtain ⟨h0, h1, h2⟩ := step_accept id p hp x
    rw [specAccept_cons]
    cases hq : acceptPasses p x with
    | true => obtain ⟨y, e1, e2⟩ := h1 hq; rw [trans_pass _ _ _ e1, h0, ih, e2]; rfl
    | false => obtain ⟨e1, e2⟩ := h2 hq; rw [trans_skip _ _ _ e1, h0, ih, e2]; rfl

/-- demand of `accept`: the position of the `k`-th element it hands on -/
theorem accept_need (id : Nat) (p : α → Res Bool) (hp : Returns p) (xs : List (Item α)) (k : Nat) :
    (Frame.accept id p).need xs k = kthPos (acceptPasses p) xs k := by
  induction xs generalizing k with
  | nil => simp [Frame.need, kthPos]
  | cons x xs ih =>
    cases k with
    | zero => simp [kthPos]
    | succ k =>
      obtain ⟨h0, h1, h2⟩ := step_accept id p hp x
      cases hq : acceptPasses p x with
      | true => obtain ⟨y, e1, _⟩ := h1 hq; rw [need_pass _ _ _ _ e1, h0, ih]; simp [kthPos, hq]
      | false => obtain ⟨e1, _⟩ := h2 hq; rw [need_skip _ _ _ _ e1, h0, ih]; simp [kthPos, hq]

/-! ### top -/

theorem top_trans_aux (n seen : Nat) (h : seen ≤ n) (xs : List (Item α)) :
    (Frame.top (n : Int) seen).trans xs = xs.take (n - seen) := by
  induction xs generalizing seen with
  | nil => simp [Frame.trans]
  | cons x xs ih =>
    by_cases hs : seen = n
    · subst hs
      have e : ((Frame.top (seen : Int) seen).step x).emit = .halt .stop := by simp [Frame.step]
      rw [trans_halt _ _ _ e (by decide)]; simp
    · have e : ((Frame.top (n : Int) seen).step x).emit = .pass x := by
        simp only [Frame.step]; rw [if_neg (by omega)]
      have e2 : (Frame.top (n : Int) seen).next x = .top n (seen + 1) := by
        simp only [Frame.next, Frame.step]; rw [if_neg (by omega)]; rfl
      rw [trans_pass _ _ _ e, e2, ih _ (by omega)]
      have : n - seen = (n - (seen + 1)) + 1 := by omega
      rw [this]; rfl

/-- `top n` denotes `take n` (a negative `n` takes everything) -/
theorem top_trans (n : Int) (xs : List (Item α)) : (Frame.top n 0).trans xs = specTop n xs := by
  by_cases hn : n < 0
  · simp only [specTop, hn, if_true]
    suffices h : ∀ seen : Nat, (Frame.top n seen).trans xs = xs from h 0
    induction xs with
    | nil => intro; rfl
    | cons x xs ih =>
      intro seen
      have e : ((Frame.top n seen).step x).emit = .pass x := by
        simp only [Frame.step]; rw [if_neg (by omega)]
      have e2 : (Frame.top n seen).next x = .top n (seen + 1) := by
        simp only [Frame.next, Frame.step]; rw [if_neg (by omega)]; rfl
      rw [trans_pass _ _ _ e, e2, ih]
  · simp only [specTop, hn, if_false]
    obtain ⟨m, rfl⟩ : ∃ m : Nat, n = m := ⟨n.toNat, by omega⟩
    simpa using top_trans_aux m 0 (by omega) xs

theorem top_need_aux (n seen : Nat) (xs : List (Item α)) (k : Nat) (hk : seen + k ≤ n) :
    (Frame.top (n : Int) seen).need xs k = min k xs.length := by
  induction xs generalizing seen k with
  | nil => simp [Frame.need]
  | cons x xs ih =>
    cases k with
    | zero => simp
    | succ k =>
      have e : ((Frame.top (n : Int) seen).step x).emit = .pass x := by
        simp only [Frame.step]; rw [if_neg (by omega)]
      have e2 : (Frame.top (n : Int) seen).next x = .top n (seen + 1) := by
        simp only [Frame.next, Frame.step]; rw [if_neg (by omega)]; rfl
      rw [need_pass _ _ _ _ e, e2, ih _ _ (by omega)]; simp only [List.length_cons]; omega

/-- demand of `top n` for `k ≤ n` downstream elements: `k` -/
theorem top_need (n : Nat) (xs : List (Item α)) (k : Nat) (hk : k ≤ n) :
    (Frame.top (n : Int) 0).need xs k = min k xs.length := top_need_aux n 0 xs k (by omega)

theorem top_span_aux (n seen : Nat) (h : seen ≤ n) (xs : List (Item α)) :
    (Frame.top (n : Int) seen).span xs = min xs.length (n - seen + 1) := by
  induction xs generalizing seen with
  | nil => simp [Frame.span]
  | cons x xs ih =>
    by_cases hs : seen = n
    · subst hs
      have e : ((Frame.top (seen : Int) seen).step x).emit = .halt .stop := by simp [Frame.step]
      rw [span_halt _ _ _ e (by decide)]; simp only [List.length_cons]; omega
    · have e : ((Frame.top (n : Int) seen).step x).emit = .pass x := by
        simp only [Frame.step]; rw [if_neg (by omega)]
      have e2 : (Frame.top (n : Int) seen).next x = .top n (seen + 1) := by
        simp only [Frame.next, Frame.step]; rw [if_neg (by omega)]; rfl
      rw [span_pass _ _ _ e, e2, ih _ (by omega)]; simp only [List.length_cons]; omega

/-- **Read-ahead of one.** When downstream never stops, `top n` pulls `n + 1` elements (if there are
that many): `FirstN` sees element `n` before it returns. -/
theorem top_span (n : Nat) (xs : List (Item α)) :
    (Frame.top (n : Int) 0).span xs = min xs.length (n + 1) := by
  simpa using top_span_aux n 0 (by omega) xs

/-! ### skip -/

theorem skip_trans_aux (n seen : Nat) (h : seen ≤ n) (xs : List (Item α)) :
    (Frame.skip (n : Int) seen).trans xs = specSkip (n - seen) xs := by
  induction xs generalizing seen with
  | nil => cases n - seen <;> rfl
  | cons x xs ih =>
    by_cases hs : seen = n
    · subst hs
      have e : ((Frame.skip (seen : Int) seen).step x).emit = .pass x := by simp [Frame.step]
      have e2 : (Frame.skip (seen : Int) seen).next x = .skip seen seen := by
        simp [Frame.next, Frame.step, Frame.after]
      rw [trans_pass _ _ _ e, e2, ih _ (by omega)]; simp [specSkip]
    · have hlt : (seen : Int) < n := by omega
      have hd : n - seen = (n - (seen + 1)) + 1 := by omega
      cases x with
      | err =>
        have e : ((Frame.skip (n : Int) seen).step (.err : Item α)).emit = .pass .err := by
          simp only [Frame.step]; rw [if_pos hlt]
        have e2 : (Frame.skip (n : Int) seen).next (.err : Item α) = .skip n (seen + 1) := by
          simp only [Frame.next, Frame.step]; rw [if_pos hlt]; rfl
        rw [trans_pass _ _ _ e, e2, ih _ (by omega), hd]; rfl
      | ok v =>
        have e : ((Frame.skip (n : Int) seen).step (.ok v)).emit = .skip := by
          simp only [Frame.step]; rw [if_pos hlt]
        have e2 : (Frame.skip (n : Int) seen).next (.ok v) = .skip n (seen + 1) := by
          simp only [Frame.next, Frame.step]; rw [if_pos hlt]
        rw [trans_skip _ _ _ e, e2, ih _ (by omega), hd]; rfl

/-- `skip n` (n ≥ 0) denotes `drop n` on values, with error items of the dropped prefix kept -/
theorem skip_trans (n : Nat) (xs : List (Item α)) : (Frame.skip (n : Int) 0).trans xs = specSkip n xs := by
  simpa using skip_trans_aux n 0 (by omega) xs

theorem specSkip_ok (n : Nat) (vs : List α) : specSkip n (vs.map Item.ok) = (vs.drop n).map .ok := by
  induction vs generalizing n with
  | nil => cases n <;> rfl
  | cons v vs ih => cases n with
    | zero => rfl
    | succ n => simp [specSkip, ih]

theorem skip_need_aux (n seen : Nat) (h : seen ≤ n) (vs : List α) (k : Nat) (hk : 1 ≤ k) :
    (Frame.skip (n : Int) seen).need (vs.map Item.ok) k = min (n - seen + k) vs.length := by
  induction vs generalizing seen k with
  | nil => simp [Frame.need]
  | cons v vs ih =>
    obtain ⟨k, rfl⟩ : ∃ k', k = k' + 1 := ⟨k - 1, by omega⟩
    simp only [List.map_cons]
    by_cases hs : seen = n
    · subst hs
      have e : ((Frame.skip (seen : Int) seen).step (.ok v)).emit = .pass (.ok v) := by simp [Frame.step]
      have e2 : (Frame.skip (seen : Int) seen).next (.ok v) = .skip seen seen := by
        simp [Frame.next, Frame.step, Frame.after]
      rw [need_pass _ _ _ _ e, e2]
      cases k with
      | zero => simp
      | succ k => rw [ih _ (by omega) _ (by omega)]; simp only [List.length_cons]; omega
    · have hlt : (seen : Int) < n := by omega
      have e : ((Frame.skip (n : Int) seen).step (.ok v)).emit = .skip := by
        simp only [Frame.step]; rw [if_pos hlt]
      have e2 : (Frame.skip (n : Int) seen).next (.ok v) = .skip n (seen + 1) := by
        simp only [Frame.next, Frame.step]; rw [if_pos hlt]
      rw [need_skip _ _ _ _ e, e2, ih _ (by omega) _ (by omega)]; simp only [List.length_cons]; omega

/-- demand of `skip n` for `k ≥ 1` downstream elements: `n + k` -/
theorem skip_need (n : Nat) (vs : List α) (k : Nat) (hk : 1 ≤ k) :
    (Frame.skip (n : Int) 0).need (vs.map Item.ok) k = min (n + k) vs.length := by
  simpa using skip_need_aux n 0 (by omega) vs k hk

/-! ### combine -/

theorem combine_step_some (id : Nat) (f : α → α → Res α) (hf : ∀ a, Returns (f a)) (a v : α) :
    ((Frame.combine id f (some a)).step (.ok v)).emit = .pass (itemOf (f a v)) ∧
    (Frame.combine id f (some a)).next (.ok v) = .combine id f (some v) := by
  have h := emitRes_returns (.combine id f (some v)) [(id, [a, v])] (f a v) (hf a v)
  constructor
  · simp only [Frame.step, h]
  · simp only [Frame.next, Frame.step, h, Frame.after]

theorem combine_trans_some (id : Nat) (f : α → α → Res α) (hf : ∀ a, Returns (f a)) (a : α) (vs : List α) :
    (Frame.combine id f (some a)).trans (vs.map Item.ok) = specCombine f (a :: vs) := by
  induction vs generalizing a with
  | nil => rfl
  | cons v vs ih =>
    obtain ⟨h1, h2⟩ := combine_step_some id f hf a v
    simp only [List.map_cons]
    rw [trans_pass _ _ _ h1, h2, ih]; rfl

/-- `combine f` denotes `f` on consecutive pairs -/
theorem combine_trans (id : Nat) (f : α → α → Res α) (hf : ∀ a, Returns (f a)) (vs : List α) :
    (Frame.combine id f none).trans (vs.map Item.ok) = specCombine f vs := by
  cases vs with
  | nil => rfl
  | cons v vs =>
    have e : ((Frame.combine id f none).step (.ok v)).emit = .skip := rfl
    have e2 : (Frame.combine id f none).next (.ok v) = .combine id f (some v) := rfl
    simp only [List.map_cons]
    rw [trans_skip _ _ _ e, e2, combine_trans_some id f hf]

theorem combine_need_some (id : Nat) (f : α → α → Res α) (hf : ∀ a, Returns (f a)) (a : α) (vs : List α) (k : Nat) :
    (Frame.combine id f (some a)).need (vs.map Item.ok) k = min k vs.length := by
  induction vs generalizing a k with
  | nil => simp [Frame.need]
  | cons v vs ih =>
    cases k with
    | zero => simp
    | succ k =>
      obtain ⟨h1, h2⟩ := combine_step_some id f hf a v
      simp only [List.map_cons]
      rw [need_pass _ _ _ _ h1, h2, ih]; simp only [List.length_cons]; omega

/-- demand of `combine` for `k ≥ 1` downstream elements: `k + 1` -/
theorem combine_need (id : Nat) (f : α → α → Res α) (hf : ∀ a, Returns (f a)) (vs : List α) (k : Nat) (hk : 1 ≤ k) :
    (Frame.combine id f none).need (vs.map Item.ok) k = min (k + 1) vs.length := by
  cases vs with
  | nil => simp [Frame.need]
  | cons v vs =>
    obtain ⟨k, rfl⟩ : ∃ k', k = k' + 1 := ⟨k - 1, by omega⟩
    have e : ((Frame.combine id f none).step (.ok v)).emit = .skip := rfl
    have e2 : (Frame.combine id f none).next (.ok v) = .combine id f (some v) := rfl
    simp only [List.map_cons]
    rw [need_skip _ _ _ _ e, e2, combine_need_some id f hf]; simp only [List.length_cons]; omega

theorem specCombine_length (f : α → α → Res α) : ∀ vs : List α, (specCombine f vs).length = vs.length - 1
  | [] => rfl
  | [_] => rfl
  | a :: b :: rest => by simp [specCombine, specCombine_length f (b :: rest)]

/-! ### combine3 -/

theorem combine3_step_full (id : Nat) (f : α → α → α → Res α) (hf : ∀ a b, Returns (f a b)) (a b v : α) :
    ((Frame.combine3 id f [a, b]).step (.ok v)).emit = .pass (itemOf (f a b v)) ∧
    (Frame.combine3 id f [a, b]).next (.ok v) = .combine3 id f [b, v] := by
  have h := emitRes_returns (.combine3 id f [b, v]) [(id, [a, b, v])] (f a b v) (hf a b v)
  constructor
  · simp only [Frame.step, h]
  · simp only [Frame.next, Frame.step, h, Frame.after]

theorem combine3_trans_full (id : Nat) (f : α → α → α → Res α) (hf : ∀ a b, Returns (f a b)) (a b : α) (vs : List α) :
    (Frame.combine3 id f [a, b]).trans (vs.map Item.ok) = specCombine3 f (a :: b :: vs) := by
  induction vs generalizing a b with
  | nil => rfl
  | cons v vs ih =>
    obtain ⟨h1, h2⟩ := combine3_step_full id f hf a b v
    simp only [List.map_cons]
    rw [trans_pass _ _ _ h1, h2, ih]; rfl

/-- `combine3 f` denotes `f` on consecutive triples -/
theorem combine3_trans (id : Nat) (f : α → α → α → Res α) (hf : ∀ a b, Returns (f a b)) (vs : List α) :
    (Frame.combine3 id f []).trans (vs.map Item.ok) = specCombine3 f vs := by
  match vs with
  | [] => rfl
  | [a] => rfl
  | a :: b :: vs =>
    have e1 : ((Frame.combine3 id f []).step (.ok a)).emit = .skip := rfl
    have n1 : (Frame.combine3 id f []).next (.ok a) = .combine3 id f [a] := rfl
    have e2 : ((Frame.combine3 id f [a]).step (.ok b)).emit = .skip := rfl
    have n2 : (Frame.combine3 id f [a]).next (.ok b) = .combine3 id f [a, b] := rfl
    simp only [List.map_cons]
    rw [trans_skip _ _ _ e1, n1, trans_skip _ _ _ e2, n2, combine3_trans_full id f hf]

theorem combine3_need_full (id : Nat) (f : α → α → α → Res α) (hf : ∀ a b, Returns (f a b)) (a b : α)
    (vs : List α) (k : Nat) :
    (Frame.combine3 id f [a, b]).need (vs.map Item.ok) k = min k vs.length := by
  induction vs generalizing a b k with
  | nil => simp [Frame.need]
  | cons v vs ih =>
    cases k with
    | zero => simp
    | succ k =>
      obtain ⟨h1, h2⟩ := combine3_step_full id f hf a b v
      simp only [List.map_cons]
      rw [need_pass _ _ _ _ h1, h2, ih]; simp only [List.length_cons]; omega

/-- demand of `combine3` for `k ≥ 1` downstream elements: `k + 2` -/
theorem combine3_need (id : Nat) (f : α → α → α → Res α) (hf : ∀ a b, Returns (f a b)) (vs : List α)
    (k : Nat) (hk : 1 ≤ k) :
    (Frame.combine3 id f []).need (vs.map Item.ok) k = min (k + 2) vs.length := by
  obtain ⟨k, rfl⟩ : ∃ k', k = k' + 1 := ⟨k - 1, by omega⟩
  match vs with
  | [] => simp [Frame.need]
  | [a] =>
    have e1 : ((Frame.combine3 id f []).step (.ok a)).emit = .skip := rfl
    simp only [List.map_cons, List.map_nil]
    rw [need_skip _ _ _ _ e1]; simp [Frame.need]
  | a :: b :: vs =>
    have e1 : ((Frame.combine3 id f []).step (.ok a)).emit = .skip := rfl
    have n1 : (Frame.combine3 id f []).next (.ok a) = .combine3 id f [a] := rfl
    have e2 : ((Frame.combine3 id f [a]).step (.ok b)).emit = .skip := rfl
    have n2 : (Frame.combine3 id f [a]).next (.ok b) = .combine3 id f [a, b] := rfl
    simp only [List.map_cons]
    rw [need_skip _ _ _ _ e1, n1, need_skip _ _ _ _ e2, n2, combine3_need_full id f hf]
    simp only [List.length_cons]; omega

/-! ### combineN -/

theorem combineN_step_full (id n : Nat) (f : List α → Res α) (hf : Returns f) (vals : List α) (pos : Nat)
    (hn : n ≠ 0) (hl : vals.length = n) (v : α) :
    ∃ y vals' pos', ((Frame.combineN id n f vals pos).step (.ok v)).emit = .pass y ∧
      (Frame.combineN id n f vals pos).next (.ok v) = .combineN id n f vals' pos' ∧ vals'.length = n := by
  have hlt : ¬ vals.length < n := by omega
  let pos' := if pos + 1 = n then 0 else pos + 1
  let window := (vals.set pos v).drop pos' ++ (vals.set pos v).take pos'
  have h := emitRes_returns (.combineN id n f (vals.set pos v) pos') [(id, window)] (f window) (hf _)
  refine ⟨itemOf (f window), vals.set pos v, pos', ?_, ?_, by simp [hl]⟩
  · simp only [Frame.step, hn, hlt, if_false]; exact congrArg Step.emit h
  · simp only [Frame.next, Frame.step, hn, hlt, if_false]
    have e : (emitRes (.combineN id n f (vals.set pos v) pos') [(id, window)] (f window)).emit = .pass (itemOf (f window)) :=
      congrArg Step.emit h
    have e2 : (emitRes (.combineN id n f (vals.set pos v) pos') [(id, window)] (f window)).frame
        = .combineN id n f (vals.set pos v) pos' := congrArg Step.frame h
    show (match (emitRes (.combineN id n f (vals.set pos v) pos') [(id, window)] (f window)).emit with
      | .pass _ => (emitRes (.combineN id n f (vals.set pos v) pos') [(id, window)] (f window)).frame.after .more
      | _ => (emitRes (.combineN id n f (vals.set pos v) pos') [(id, window)] (f window)).frame) = _
    rw [e, e2]; rfl

theorem combineN_need_full (id n : Nat) (f : List α → Res α) (hf : Returns f) (hn : n ≠ 0)
    (vs : List α) (vals : List α) (pos : Nat) (hl : vals.length = n) (k : Nat) :
    (Frame.combineN id n f vals pos).need (vs.map Item.ok) k = min k vs.length := by
  induction vs generalizing vals pos k with
  | nil => simp [Frame.need]
  | cons v vs ih =>
    cases k with
    | zero => simp
    | succ k =>
      obtain ⟨y, vals', pos', h1, h2, h3⟩ := combineN_step_full id n f hf vals pos hn hl v
      simp only [List.map_cons]
      rw [need_pass _ _ _ _ h1, h2, ih _ _ h3]; simp only [List.length_cons]; omega

theorem combineN_need_fill (id n : Nat) (f : List α → Res α) (hf : Returns f)
    (vs : List α) (vals : List α) (pos : Nat) (hl : vals.length < n) (k : Nat) (hk : 1 ≤ k) :
    (Frame.combineN id n f vals pos).need (vs.map Item.ok) k = min (n - vals.length - 1 + k) vs.length := by
  induction vs generalizing vals pos with
  | nil => simp [Frame.need]
  | cons v vs ih =>
    obtain ⟨k', rfl⟩ : ∃ k', k = k' + 1 := ⟨k - 1, by omega⟩
    have hn : n ≠ 0 := by omega
    simp only [List.map_cons]
    by_cases hfull : (vals ++ [v]).length = n
    · have h := emitRes_returns (.combineN id n f (vals ++ [v]) 0) [(id, vals ++ [v])] (f (vals ++ [v])) (hf _)
      have e : ((Frame.combineN id n f vals pos).step (.ok v)).emit = .pass (itemOf (f (vals ++ [v]))) := by
        simp only [Frame.step, hn, hl, hfull, if_true, if_false, h]
      have e2 : (Frame.combineN id n f vals pos).next (.ok v) = .combineN id n f (vals ++ [v]) 0 := by
        simp only [Frame.next, Frame.step, hn, hl, hfull, if_true, if_false, h, Frame.after]
      rw [need_pass _ _ _ _ e, e2, combineN_need_full id n f hf hn vs _ _ hfull]
      simp only [List.length_append, List.length_cons, List.length_nil] at hfull ⊢
      have : n - vals.length - 1 = 0 := by omega
      rw [this]; omega
    · have e : ((Frame.combineN id n f vals pos).step (.ok v)).emit = .skip := by
        simp only [Frame.step, hn, hl, hfull, if_true, if_false]
      have e2 : (Frame.combineN id n f vals pos).next (.ok v) = .combineN id n f (vals ++ [v]) (vals ++ [v]).length := by
        simp only [Frame.next, Frame.step, hn, hl, hfull, if_true, if_false]
      have hl' : (vals ++ [v]).length < n := by
        simp only [List.length_append, List.length_cons, List.length_nil] at hfull ⊢; omega
      have hlen : (vals ++ [v]).length = vals.length + 1 := by simp
      rw [need_skip _ _ _ _ e, e2, ih _ _ hl']
      simp only [List.length_cons]; omega

/-- demand of `combineN m` (m ≥ 1) for `k ≥ 1` downstream elements: `k + m − 1` -/
theorem combineN_need (id m : Nat) (f : List α → Res α) (hf : Returns f) (hm : 1 ≤ m)
    (vs : List α) (k : Nat) (hk : 1 ≤ k) :
    (Frame.combineN id m f [] 0).need (vs.map Item.ok) k = min (k + m - 1) vs.length := by
  rw [combineN_need_fill id m f hf vs [] 0 (by simp only [List.length_nil]; omega) k hk]
  simp only [List.length_nil]; congr 1; omega

/-! ### iir / iirCombine -/

theorem iir_step (id0 id1 : Nat) (three : Bool) (init : α → Res α) (f : α → α → α → Res α)
    (hi : Returns init) (hf : ∀ a b, Returns (f a b)) (st : Option (α × α)) (x : Item α) :
    ∃ y st', ((Frame.iir id0 id1 three init f st).step x).emit = .pass y ∧
      (Frame.iir id0 id1 three init f st).next x = .iir id0 id1 three init f st' := by
  cases x with
  | err => exact ⟨_, st, rfl, rfl⟩
  | ok v =>
    cases st with
    | none =>
      have := hi v
      cases hv : init v with
      | ok w => exact ⟨.ok w, some (v, w), by simp [Frame.step, hv], by simp [Frame.next, Frame.step, hv, Frame.after]⟩
      | err => exact ⟨.err, none, by simp [Frame.step, hv], by simp [Frame.next, Frame.step, hv, Frame.after]⟩
      | panic => simp_all
      | fuel => simp_all
    | some p =>
      obtain ⟨li, la⟩ := p
      have := hf v li la
      cases hv : f v li la with
      | ok w => exact ⟨.ok w, some (v, w), by simp [Frame.step, hv], by simp [Frame.next, Frame.step, hv, Frame.after]⟩
      | err => exact ⟨.err, some (li, la), by simp [Frame.step, hv], by simp [Frame.next, Frame.step, hv, Frame.after]⟩
      | panic => simp_all
      | fuel => simp_all

/-- demand of `iir`/`iirCombine`: `k` -/
theorem iir_need (id0 id1 : Nat) (three : Bool) (init : α → Res α) (f : α → α → α → Res α)
    (hi : Returns init) (hf : ∀ a b, Returns (f a b)) (st : Option (α × α)) (xs : List (Item α)) (k : Nat) :
    (Frame.iir id0 id1 three init f st).need xs k = min k xs.length := by
  induction xs generalizing st k with
  | nil => simp [Frame.need]
  | cons x xs ih =>
    cases k with
    | zero => simp
    | succ k =>
      obtain ⟨y, st', h1, h2⟩ := iir_step id0 id1 three init f hi hf st x
      rw [need_pass _ _ _ _ h1, h2, ih]; simp only [List.length_cons]; omega

theorem iir_trans_some (id0 id1 : Nat) (three : Bool) (init : α → α) (f : α → α → α → α) (li la : α) (vs : List α) :
    (Frame.iir id0 id1 three (fun v => .ok (init v)) (fun a b c => .ok (f a b c)) (some (li, la))).trans (vs.map Item.ok)
      = (specScanFrom f li la vs).map .ok := by
  induction vs generalizing li la with
  | nil => rfl
  | cons v vs ih =>
    simp only [List.map_cons]
    rw [trans_pass (y := .ok (f v li la)) _ _ _ (by simp [Frame.step])]
    have : (Frame.iir id0 id1 three (fun v => .ok (init v)) (fun a b c => .ok (f a b c)) (some (li, la))).next (.ok v)
        = .iir id0 id1 three (fun v => .ok (init v)) (fun a b c => .ok (f a b c)) (some (v, f v li la)) := by
      simp [Frame.next, Frame.step, Frame.after]
    rw [this, ih]; rfl

/-- `iir`/`iirCombine` with total closures denote a scan -/
theorem iir_trans (id0 id1 : Nat) (three : Bool) (init : α → α) (f : α → α → α → α) (vs : List α) :
    (Frame.iir id0 id1 three (fun v => .ok (init v)) (fun a b c => .ok (f a b c)) none).trans (vs.map Item.ok)
      = (specScan init f vs).map .ok := by
  cases vs with
  | nil => rfl
  | cons v vs =>
    simp only [List.map_cons]
    rw [trans_pass (y := .ok (init v)) _ _ _ (by simp [Frame.step])]
    have : (Frame.iir id0 id1 three (fun v => .ok (init v)) (fun a b c => .ok (f a b c)) none).next (.ok v)
        = .iir id0 id1 three (fun v => .ok (init v)) (fun a b c => .ok (f a b c)) (some (v, init v)) := by
      simp [Frame.next, Frame.step, Frame.after]
    rw [this, iir_trans_some]; rfl

end P2.Iter
